(* Proofs/C21.v — lemmas for the native HTTP client smodel. *)
From VR Require Import Model.C21.
From Coq Require Import Lia ZifyBool ZifyN ZifyNat.
Import ListNotations.
Local Arguments N.eqb : simpl never.
Local Arguments Z.eqb : simpl never.
Local Arguments Z.ltb : simpl never.
Local Arguments Z.leb : simpl never.
Local Open Scope nat_scope.

(* ------------------------------------------------------------------ frames *)
Definition curs (fs : list frame) : list nat :=
  flat_map (fun f => match f with FBat _ _ _ (Some c) _ => [c] | _ => [] end) fs.

Lemma curs_app a b : curs (a ++ b) = curs a ++ curs b.
Proof. unfold curs. now rewrite flat_map_app. Qed.

Lemma curs_cons f fs : curs (f :: fs) = curs [f] ++ curs fs.
Proof. change (f :: fs) with ([f] ++ fs). apply curs_app. Qed.

Lemma curs_logs l : curs (logs_of l) = [].
Proof. induction l as [|m l IH]; cbn; auto. Qed.

Lemma curs_removelast fs : incl (curs (removelast fs)) (curs fs).
Proof.
  induction fs as [|f fs IH]; [intros x Hx; exact Hx|].
  destruct fs as [|g fs]; [intros x Hx; destruct Hx|].
  change (removelast (f :: g :: fs)) with (f :: removelast (g :: fs)).
  rewrite (curs_cons f (removelast (g :: fs))), (curs_cons f (g :: fs)).
  apply incl_app; [apply incl_appl, incl_refl | apply incl_appr, IH].
Qed.

Lemma curs_filter P fs : incl (curs (filter P fs)) (curs fs).
Proof.
  induction fs as [|f fs IH]; [apply incl_refl|].
  rewrite (curs_cons f fs). cbn [filter].
  destruct (P f).
  - rewrite (curs_cons f (filter P fs)).
    apply incl_app; [apply incl_appl, incl_refl | apply incl_appr, IH].
  - apply incl_appr, IH.
Qed.

Lemma curs_strip fs : curs (map strip_tok fs) = [].
Proof. induction fs as [|f fs IH]; cbn; auto. destruct f; cbn; auto. Qed.

Lemma produce_curs limit ts pos count : curs (fst (produce limit ts pos count)) = [].
Proof.
  revert pos count; induction ts as [|t ts IH]; intros pos count; cbn [produce]; [reflexivity|].
  destruct (t_act t); cbn [fst]; try (rewrite ?curs_app, ?curs_logs; reflexivity).
  destruct ((0 <? limit) && (limit <=? S count)); cbn [fst].
  - rewrite curs_app, curs_logs. reflexivity.
  - specialize (IH (S pos) (S count)). destruct (produce limit ts (S pos) (S count)) as [fr r].
    cbn [fst] in *. rewrite !curs_app, curs_logs, IH. reflexivity.
Qed.

(* what the batch loop returns *)
Lemma walk_tok tid fs l p t :
  walk tid fs = (l, inr p) -> pa_tok p = Some t -> In t (curs fs).
Proof.
  revert l p; induction fs as [|f fs IH]; intros l p; cbn [walk].
  - intros H; inversion H; subst; cbn. discriminate.
  - destruct f as [m|ty|rows v um cur call].
    + destruct (walk tid fs) as [l' x]. intros H; inversion H; subst. intro Ht.
      change (curs (FLog m :: fs)) with (curs fs). eauto.
    + intros H; inversion H.
    + destruct (walk tid fs) as [l' x]. destruct x as [e|p']; intros H; inversion H; subst; clear H.
      cbn [pa_tok]. intro Ht.
      rewrite curs_cons. apply in_or_app. destruct (pa_tok p') as [c|] eqn:Ep.
      * right. inversion Ht; subst. eapply IH; eauto.
      * left. subst cur. cbn. auto.
Qed.

Lemma walk_clean tid fs :
  first_exc fs = None ->
  exists p, walk tid fs = (logs_in fs, inr p) /\ pa_items p = items_of tid fs
            /\ is_some (pa_tok p) = has_token fs /\ pa_call p = has_call fs.
Proof.
  induction fs as [|f fs IH]; cbn [first_exc walk logs_in items_of].
  - intros _. eexists; split; [reflexivity|]. cbn. auto.
  - destruct f as [m|ty|rows v um cur call]; intro H; try discriminate.
    + destruct (IH H) as (p & Hw & Hi & Ht & Hc). rewrite Hw. exists p. cbn. auto.
    + destruct (IH H) as (p & Hw & Hi & Ht & Hc). rewrite Hw. eexists; split; [reflexivity|].
      cbn [pa_items pa_tok pa_call has_cur]. unfold has_token, has_call in *. cbn [existsb has_cur].
      rewrite <- Ht, <- Hc, Hi. split; [|split].
      * destruct cur; reflexivity.
      * destruct (pa_tok p), cur; cbn; auto.
      * destruct call; cbn; auto.
Qed.

Lemma walk_exc tid fs ty : first_exc fs = Some ty -> exists l, walk tid fs = (l, inl (ERpc ty)).
Proof.
  induction fs as [|f fs IH]; cbn [first_exc walk]; [discriminate|].
  destruct f as [m|ty'|rows v um cur call]; intro H.
  - destruct (IH H) as [l Hl]. rewrite Hl. eauto.
  - inversion H; subst. eauto.
  - destruct (IH H) as [l Hl]. rewrite Hl. eauto.
Qed.

Lemma walk_ok_noexc tid fs l p : walk tid fs = (l, inr p) -> first_exc fs = None.
Proof.
  intro H. destruct (first_exc fs) as [ty|] eqn:E; [|reflexivity].
  destruct (walk_exc tid fs ty E) as [l' Hl]. congruence.
Qed.

(* ------------------------------------------------------------- transport *)
Lemma transparent_view f sr :
  transparent f = true -> post_view f sr = inr (sr_errhdr sr, CStream (sr_ok sr) (sr_frames sr) TClean).
Proof.
  unfold transparent, post_view. destruct f as [n s o e b h]; cbn.
  destruct n, o, e, b, h; cbn; try discriminate; intro H; rewrite H; now rewrite orb_false_r.
Qed.

Definition body_curs (b : cbody) : list nat := match b with CStream _ fs _ => curs fs | CGarbage => [] end.

Lemma edit_curs bf sr : incl (body_curs (edit bf sr)) (curs (sr_frames sr)).
Proof.
  destruct bf; cbn [edit body_curs]; try apply incl_refl; try (intros x Hx; destruct Hx).
  - apply curs_filter.
  - rewrite curs_strip. intros x Hx; destruct Hx.
  - destruct (sr_frames sr) eqn:E; [intros x Hx; destruct Hx|]. cbn [body_curs]. apply curs_removelast.
Qed.

Lemma view_curs f sr eh b : post_view f sr = inr (eh, b) -> incl (body_curs b) (curs (sr_frames sr)).
Proof.
  unfold post_view. destruct (f_net f); try discriminate. destruct (f_over f); try discriminate.
  destruct (enc_accepts (f_enc f)); try discriminate. destruct (status_2xx (eff_status f)); try discriminate.
  intro H; inversion H; subst. apply edit_curs.
Qed.

Lemma parse_stream_tok fx tid b l p t :
  parse_stream fx tid b = (l, inr p) -> pa_tok p = Some t -> In t (body_curs b).
Proof.
  destruct b as [|ok fs tail]; cbn [parse_stream body_curs]; [discriminate|].
  destruct ok; [|discriminate].
  destruct (walk tid fs) as [l' x] eqn:Ew. destruct x as [e|p']; destruct tail; intro H; inversion H; subst;
    intro Ht; eapply walk_tok; eauto.
Qed.

Lemma parse_main_inr fx tid eh b l p :
  parse_main fx tid eh b = (l, inr p) ->
  parse_stream fx tid b = (l, inr p) /\ eh = false /\ tail_of b <> TTrailing.
Proof.
  unfold parse_main. destruct (parse_stream fx tid b) as [l' x]. destruct x as [e|p']; [discriminate|].
  destruct (tail_of b); try discriminate; destruct eh; try discriminate; intro H; inversion H; subst;
    repeat split; congruence.
Qed.

(* --------------------------------------------------------------- server *)
Lemma server_curs i w init cur cancel x sr mint c :
  server i w init cur cancel x = (sr, mint) -> In c (curs (sr_frames sr)) ->
  c = length (w_states w) /\ mint <> None.
Proof.
  unfold server. destruct init.
  - unfold srv_init. destruct (i_init i).
    + destruct (i_exchange i).
      * intro H; inversion H; subst; clear H. cbn [sr_frames]. rewrite curs_app, curs_logs. cbn.
        intros [<-|[]]. split; [reflexivity|discriminate].
      * pose proof (produce_curs (i_limit i) (i_turns i) 0 0) as Hp.
        destruct (produce (i_limit i) (i_turns i) 0 0) as [fr r]. cbn [fst] in Hp.
        intro H; inversion H; subst; clear H. cbn [sr_frames]. rewrite !curs_app, curs_logs, Hp.
        destruct mint; cbn; [|intros []]. intros [<-|[]]. split; [reflexivity|discriminate].
    + intro H; inversion H; subst. cbn. intros [].
    + intro H; inversion H; subst. cbn. intros [].
    + intro H; inversion H; subst. cbn. intros [].
  - destruct cancel; [unfold srv_cancel; intro H; inversion H; subst; cbn; intros []|].
    destruct (i_exchange i).
    + unfold srv_exchange. set (pos := match cur with Some c0 => nth c0 (w_states w) 0 | None => 0 end).
      destruct (t_act (nth pos (i_turns i) default_turn)); intro H; inversion H; subst; clear H; cbn [sr_frames];
        try (cbn; intros []; fail).
      rewrite curs_app, curs_logs. cbn. intros [<-|[]]. split; [reflexivity|discriminate].
    + unfold srv_cont. set (pos := match cur with Some c0 => nth c0 (w_states w) 0 | None => 0 end).
      pose proof (produce_curs (i_limit i) (skipn pos (i_turns i)) pos 0) as Hp.
      destruct (produce (i_limit i) (skipn pos (i_turns i)) pos 0) as [fr r]. cbn [fst] in Hp.
      intro H; inversion H; subst; clear H. cbn [sr_frames]. rewrite curs_app, Hp.
      destruct mint; cbn; [|intros []]. intros [<-|[]]. split; [reflexivity|discriminate].
Qed.

(* ---------------------------------------------------------------- do_post *)
Definition wlen (w : world) : nat := length (w_states w).

Lemma do_post_facts i w init cur call cancel x w' pr v :
  do_post i w init cur call cancel x = (w', pr, v) ->
  wlen w <= wlen w' /\
  p_init pr = init /\ p_cur pr = cur /\ p_cancel pr = cancel /\ p_x pr = x /\
  p_fault pr = fault_at i (w_n w) /\
  (forall eh b, v = inr (eh, b) ->
     p_reached pr = true /\
     (exists sr, post_view (p_fault pr) sr = inr (eh, b) /\ p_sok pr = sr_ok sr
                 /\ p_serrhdr pr = sr_errhdr sr /\ p_frames pr = sr_frames sr) /\
     forall t, In t (body_curs b) -> t = wlen w /\ t < wlen w').
Proof.
  assert (Hgen : forall sr mint, server i w init cur cancel x = (sr, mint) ->
    f_net (fault_at i (w_n w)) <> NetBefore ->
    ({| w_n := S (w_n w);
        w_states := match mint with Some p => w_states w ++ [p] | None => w_states w end |},
     mk_post init cur call cancel x (fault_at i (w_n w)) true sr, post_view (fault_at i (w_n w)) sr) = (w', pr, v) ->
    wlen w <= wlen w' /\
    p_init pr = init /\ p_cur pr = cur /\ p_cancel pr = cancel /\ p_x pr = x /\
    p_fault pr = fault_at i (w_n w) /\
    (forall eh b, v = inr (eh, b) ->
       p_reached pr = true /\
       (exists sr, post_view (p_fault pr) sr = inr (eh, b) /\ p_sok pr = sr_ok sr
                   /\ p_serrhdr pr = sr_errhdr sr /\ p_frames pr = sr_frames sr) /\
       forall t, In t (body_curs b) -> t = wlen w /\ t < wlen w')).
  { intros sr mint Es _ H. inversion H; subst; clear H. unfold wlen.
    cbn [w_states p_init p_cur p_cancel p_x p_fault p_reached p_sok p_serrhdr p_frames mk_post].
    split. { destruct mint; [rewrite app_length; cbn; lia | lia]. }
    do 5 (split; [reflexivity|]). intros eh b Hv. split; [reflexivity|]. split.
    { exists sr. repeat split. exact Hv. }
    intros t Ht. apply (view_curs _ _ _ _ Hv) in Ht.
    destruct (server_curs _ _ _ _ _ _ _ _ _ Es Ht) as [-> Hm]. split; [reflexivity|].
    destruct mint; [rewrite app_length; cbn; lia | congruence]. }
  unfold do_post. destruct (f_net (fault_at i (w_n w))) eqn:En.
  - destruct (server i w init cur cancel x) as [sr mint] eqn:Es. apply (Hgen sr mint eq_refl). discriminate.
  - intro H; inversion H; subst; clear H. unfold wlen. cbn. split; [lia|]. do 5 (split; [reflexivity|]).
    intros eh b Hv; discriminate.
  - destruct (server i w init cur cancel x) as [sr mint] eqn:Es. apply (Hgen sr mint eq_refl). discriminate.
Qed.

Lemma post_tok fx tid i w init cur call cancel x w' pr eh b l p t :
  do_post i w init cur call cancel x = (w', pr, inr (eh, b)) ->
  parse_main fx tid eh b = (l, inr p) -> pa_tok p = Some t -> wlen w <= t /\ t < wlen w'.
Proof.
  intros Hd Hp Ht. destruct (do_post_facts _ _ _ _ _ _ _ _ _ _ Hd) as (_ & _ & _ & _ & _ & _ & Hv).
  destruct (Hv eh b eq_refl) as (_ & _ & Hc). apply parse_main_inr in Hp as (Hp & _ & _).
  destruct (Hc t (parse_stream_tok _ _ _ _ _ _ Hp Ht)) as [-> Hlt]. split; [lia|exact Hlt].
Qed.

Lemma post_tok_open fx tid i w init cur call cancel x w' pr eh b l p t :
  do_post i w init cur call cancel x = (w', pr, inr (eh, b)) ->
  parse_stream fx tid b = (l, inr p) -> pa_tok p = Some t -> wlen w <= t /\ t < wlen w'.
Proof.
  intros Hd Hp Ht. destruct (do_post_facts _ _ _ _ _ _ _ _ _ _ Hd) as (_ & _ & _ & _ & _ & _ & Hv).
  destruct (Hv eh b eq_refl) as (_ & _ & Hc).
  destruct (Hc t (parse_stream_tok _ _ _ _ _ _ Hp Ht)) as [-> Hlt]. split; [lia|exact Hlt].
Qed.

(* ------------------------------------------------- case analysis helper *)
Ltac break_in H :=
  repeat match type of H with
         | context[match ?x with _ => _ end] => destruct x eqn:?
         end.

Lemma cursors_of_one pr t : p_init pr = false -> p_cur pr = Some t -> cursors_of [pr] = [t].
Proof. intros Hi Hc. unfold cursors_of. cbn. now rewrite Hi, Hc. Qed.

Lemma is_some_true {A} (o : option A) : is_some o = true -> exists t, o = Some t.
Proof. destruct o; cbn; [eauto|discriminate]. Qed.

Definition tok_lt (w : world) (c : cst) : Prop := forall t, c_tok c = Some t -> t < wlen w.

(* one client call on an exchange stream: either nothing is POSTed, or exactly the
   current cursor is, and the cursor held afterwards (if any) is freshly minted *)
Lemma step_exch fx i w c op w' c' r :
  i_exchange i = true -> tok_lt w c -> step fx i w c op = (w', c', r) ->
  wlen w <= wlen w' /\ tok_lt w' c' /\
  ((cursors_of (o_posts r) = [] /\ (c_tok c' = c_tok c \/ c_tok c' = None) /\ wlen w' = wlen w)
   \/ (exists t, c_tok c = Some t /\ cursors_of (o_posts r) = [t] /\
         (c_tok c' = None \/ exists t', c_tok c' = Some t' /\ wlen w <= t'))).
Proof.
  intros Hex Hlt Hs.
  assert (Hnone : forall c1, c_tok c1 = None -> tok_lt w' c1) by (intros c1 H t Ht; congruence).
  destruct op as [x bad| | |]; cbn [step] in Hs.
  - unfold exchange_op in Hs. rewrite Hex in Hs. cbn [negb] in Hs.
    destruct (c_closed c); [inversion Hs; subst; split; [lia|]; split; [exact Hlt|]; left; cbn; auto|].
    destruct (c_fin c || negb (is_some (c_tok c))) eqn:Ed;
      [inversion Hs; subst; split; [lia|]; split; [exact Hlt|]; left; cbn; auto|].
    destruct bad; [inversion Hs; subst; split; [lia|]; split; [exact Hlt|]; left; cbn; auto|].
    apply orb_false_iff in Ed as [_ Ed]. apply negb_false_iff, is_some_true in Ed as [t Ht].
    destruct (do_post i w false (c_tok c) (c_call c) false x) as [[w1 pr] v] eqn:Ep.
    destruct (do_post_facts _ _ _ _ _ _ _ _ _ _ Ep) as (Hw & Hi & Hc & _).
    assert (Hone : cursors_of [pr] = [t]) by (apply cursors_of_one; congruence).
    destruct v as [e|[eh b]].
    { inversion Hs; subst. split; [exact Hw|]. split; [apply Hnone; reflexivity|]. right. exists t. cbn. auto. }
    destruct (parse_main fx true eh b) as [l [e|p]] eqn:Epm.
    { inversion Hs; subst. split; [exact Hw|]. split; [apply Hnone; reflexivity|]. right. exists t. cbn. auto. }
    destruct (pa_items p) as [|it [|it2 rest]]; destruct (pa_tok p) as [t'|] eqn:Et;
      inversion Hs; subst; (split; [exact Hw|]);
      try (split; [apply Hnone; reflexivity|]; right; exists t; cbn; auto; fail).
    destruct (post_tok _ _ _ _ _ _ _ _ _ _ _ _ _ _ _ _ Ep Epm Et) as [Hge Hl].
    split; [intros t0 H0; cbn in H0; inversion H0; subst; exact Hl|].
    right. exists t. cbn. split; [auto|]. split; [auto|]. right. eauto.
  - unfold next_op in Hs. rewrite Hex in Hs. destruct (c_closed c); inversion Hs; subst;
      (split; [lia|]; split; [exact Hlt|]; left; cbn; auto).
  - unfold cancel_op in Hs.
    destruct (c_closed c || c_fin c || negb (is_some (c_tok c))) eqn:Ed.
    { inversion Hs; subst. split; [lia|]. split; [exact Hlt|]. left. cbn. auto. }
    apply orb_false_iff in Ed as [_ Ed]. apply negb_false_iff, is_some_true in Ed as [t Ht].
    destruct (do_post i w false (c_tok c) (c_call c) true 0%Z) as [[w1 pr] v] eqn:Ep.
    destruct (do_post_facts _ _ _ _ _ _ _ _ _ _ Ep) as (Hw & Hi & Hc & _).
    assert (Hone : cursors_of [pr] = [t]) by (apply cursors_of_one; congruence).
    destruct v as [e|[eh b]].
    { inversion Hs; subst. split; [exact Hw|]. split; [apply Hnone; reflexivity|]. right. exists t. cbn. auto. }
    destruct (parse_main fx false eh b) as [l [e|p]] eqn:Epm.
    { inversion Hs; subst. split; [exact Hw|]. split; [apply Hnone; reflexivity|]. right. exists t. cbn. auto. }
    destruct (negb (is_nil (pa_items p)) || is_some (pa_tok p)); inversion Hs; subst;
      (split; [exact Hw|]; split; [apply Hnone; reflexivity|]; right; exists t; cbn; auto).
  - unfold close_op in Hs. inversion Hs; subst. split; [lia|]. split; [exact Hlt|]. left. cbn. auto.
Qed.

Lemma nodupb_NoDup l : nodupb l = true <-> NoDup l.
Proof.
  induction l as [|x l IH]; cbn [nodupb]; [split; [constructor|reflexivity]|].
  rewrite andb_true_iff, negb_true_iff, IH. split.
  - intros [Hn Hd]. constructor; [|exact Hd]. intro Hin.
    assert (existsb (Nat.eqb x) l = true) by (apply existsb_exists; exists x; split; [exact Hin|apply Nat.eqb_refl]).
    congruence.
  - intro H; inversion H; subst. split; [|assumption].
    destruct (existsb (Nat.eqb x) l) eqn:E; [|reflexivity].
    apply existsb_exists in E as (y & Hy & Hxy). apply Nat.eqb_eq in Hxy. subst. contradiction.
Qed.

(* the cursors POSTed by any run on an exchange stream: no duplicates, and each is
   the one currently held or one minted later *)
Lemma run_cursors fx i : i_exchange i = true -> forall ops w c, tok_lt w c ->
  NoDup (posted_cursors (run_ops fx i w c ops)) /\
  forall x, In x (posted_cursors (run_ops fx i w c ops)) -> c_tok c = Some x \/ wlen w <= x.
Proof.
  intro Hex. induction ops as [|op ops IH]; intros w c Hlt; cbn [run_ops].
  - cbn. split; [constructor|intros x []].
  - destruct (step fx i w c op) as [[w' c'] r] eqn:Es.
    destruct (step_exch _ _ _ _ _ _ _ _ Hex Hlt Es) as (Hw & Hlt' & Hcase).
    destruct (IH w' c' Hlt') as (Hnd & Hin).
    change (posted_cursors (r :: run_ops fx i w' c' ops))
      with (cursors_of (o_posts r) ++ posted_cursors (run_ops fx i w' c' ops)).
    destruct Hcase as [(Hno & Htok & _)|(t & Ht & Hone & Htok)].
    + rewrite Hno. cbn [app]. split; [exact Hnd|]. intros x Hx. destruct (Hin x Hx) as [H|H]; [|right; lia].
      destruct Htok as [Heq|Hn]; [left; congruence|congruence].
    + rewrite Hone. cbn [app]. split.
      * constructor; [|exact Hnd]. intro Hx. pose proof (Hlt t Ht) as Htl.
        destruct (Hin t Hx) as [H|H]; [|lia].
        destruct Htok as [Hn|(t' & Ht' & Hge)]; [congruence|]. assert (t' = t) by congruence. lia.
      * intros x [<-|Hx]; [left; exact Ht|]. right. destruct (Hin x Hx) as [H|H]; [|lia].
        destruct Htok as [Hn|(t' & Ht' & Hge)]; [congruence|]. assert (t' = x) by congruence. lia.
Qed.

Lemma open_facts fx i w oc r :
  open_op fx i world0 = (w, oc, r) ->
  (exists pr, o_posts r = [pr] /\ p_init pr = true /\ p_cur pr = None) /\
  match oc with
  | Some c => tok_lt w c /\ o_res r = RNil
  | None => is_err (o_res r) = true
  end.
Proof.
  unfold open_op. destruct (do_post i world0 true None false false 0%Z) as [[w1 pr] v] eqn:Ep.
  destruct (do_post_facts _ _ _ _ _ _ _ _ _ _ Ep) as (Hw & Hi & Hc & _).
  assert (Hp : forall l res, exists pr0, o_posts (mk_op [pr] l res) = [pr0] /\ p_init pr0 = true /\ p_cur pr0 = None)
    by (intros; exists pr; auto).
  destruct v as [e|[eh b]]; [intro H; inversion H; subst; split; [apply Hp|reflexivity]|].
  destruct (parse_stream fx false b) as [l [e|p]] eqn:Eps; [intro H; inversion H; subst; split; [apply Hp|reflexivity]|].
  destruct (tail_of b); try (intro H; inversion H; subst; split; [apply Hp|reflexivity]; fail);
    destruct (i_exchange i && negb (is_nil (pa_items p)));
    try (intro H; inversion H; subst; split; [apply Hp|reflexivity]; fail);
    destruct (i_exchange i && (negb (is_some (pa_tok p)) || negb (pa_call p)));
    try (intro H; inversion H; subst; split; [apply Hp|reflexivity]; fail);
    destruct eh; intro H; inversion H; subst; (split; [apply Hp|]); try reflexivity;
    (split; [|reflexivity]); intros t Ht; cbn in Ht;
    exact (proj2 (post_tok_open _ _ _ _ _ _ _ _ _ _ _ _ _ _ _ _ Ep Eps Ht)).
Qed.

Lemma posted_cons r rs : posted_cursors (r :: rs) = cursors_of (o_posts r) ++ posted_cursors rs.
Proof. reflexivity. Qed.

Lemma cursor_never_replayed_l fx i :
  i_exchange i = true -> NoDup (posted_cursors (model_gen fx i)).
Proof.
  intro Hex. unfold model_gen. destruct (open_op fx i world0) as [[w oc] r] eqn:Eo.
  destruct (open_facts _ _ _ _ _ Eo) as ((pr & Hpr & Hi & Hc) & Hoc).
  rewrite posted_cons, Hpr. unfold cursors_of at 1. cbn [flat_map]. rewrite Hi. cbn [app].
  destruct oc as [c|]; [|constructor]. destruct Hoc as [Hlt _].
  exact (proj1 (run_cursors fx i Hex (i_ops i) w c Hlt)).
Qed.

(* ------------------------------------------------------------- poisoning *)
Definition dead (c : cst) : Prop := c_fin c || negb (is_some (c_tok c)) = true.

Lemma step_dead fx i w c op w' c' r :
  i_exchange i = true -> dead c -> step fx i w c op = (w', c', r) ->
  dead c' /\ o_posts r = [] /\ is_ok (o_res r) = false /\
  match op with OpExchange _ _ => is_err (o_res r) = true | _ => True end.
Proof.
  unfold dead. intros Hex Hd Hs. destruct op as [x bad| | |]; cbn [step] in Hs.
  - unfold exchange_op in Hs. rewrite Hex, Hd in Hs. cbn [negb] in Hs.
    destruct (c_closed c); inversion Hs; subst; auto.
  - unfold next_op in Hs. rewrite Hex in Hs. destruct (c_closed c); inversion Hs; subst; auto.
  - unfold cancel_op in Hs. replace (c_closed c || c_fin c || negb (is_some (c_tok c))) with true in Hs.
    + inversion Hs; subst. cbn. auto.
    + destruct (c_closed c); cbn; auto.
  - unfold close_op in Hs. inversion Hs; subst. cbn. auto.
Qed.

Lemma quiet_run fx i : i_exchange i = true -> forall ops w c, dead c -> quiet ops (run_ops fx i w c ops) = true.
Proof.
  intro Hex. induction ops as [|op ops IH]; intros w c Hd; cbn [run_ops quiet]; [reflexivity|].
  destruct (step fx i w c op) as [[w' c'] r] eqn:Es.
  destruct (step_dead _ _ _ _ _ _ _ _ Hex Hd Es) as (Hd' & Hp & Hok & Hop).
  cbn [quiet]. rewrite Hp, Hok, (IH w' c' Hd'). cbn. destruct op; auto. now rewrite Hop.
Qed.

Lemma step_poison fx i w c op w' c' r :
  i_exchange i = true -> step fx i w c op = (w', c', r) ->
  is_nil (o_posts r) = false -> is_err (o_res r) = true -> dead c'.
Proof.
  unfold dead. intros Hex Hs Hp He. destruct op as [x bad| | |]; cbn [step] in Hs.
  - unfold exchange_op in Hs. break_in Hs; inversion Hs; subst; cbn in *; try discriminate; reflexivity.
  - unfold next_op in Hs. rewrite Hex in Hs. destruct (c_closed c); inversion Hs; subst; discriminate.
  - unfold cancel_op in Hs. break_in Hs; inversion Hs; subst; cbn in *; try discriminate; reflexivity.
  - unfold close_op in Hs. inversion Hs; subst. discriminate.
Qed.

Lemma poison_run fx i : i_exchange i = true -> forall ops w c, poison_ok ops (run_ops fx i w c ops) = true.
Proof.
  intro Hex. induction ops as [|op ops IH]; intros w c; cbn [run_ops poison_ok]; [reflexivity|].
  destruct (step fx i w c op) as [[w' c'] r] eqn:Es. cbn [poison_ok]. rewrite IH, andb_true_r.
  destruct (negb (is_nil (o_posts r)) && is_err (o_res r)) eqn:E; [|reflexivity].
  apply andb_true_iff in E as [E1 E2]. apply negb_true_iff in E1.
  apply quiet_run; [exact Hex|]. eapply step_poison; eauto.
Qed.

(* --------------------------------------------- what a POST looks like *)
Lemma do_post_reached i w init cur call cancel x w' pr v :
  do_post i w init cur call cancel x = (w', pr, v) -> p_reached pr = true ->
  exists sr, v = post_view (p_fault pr) sr /\ p_sok pr = sr_ok sr /\ p_serrhdr pr = sr_errhdr sr
             /\ p_frames pr = sr_frames sr.
Proof.
  unfold do_post. destruct (f_net (fault_at i (w_n w))) eqn:En.
  2: { intro H; inversion H; subst; cbn. discriminate. }
  all: destruct (server i w init cur cancel x) as [sr mint]; intro H; inversion H; subst; intros _;
    exists sr; cbn; auto.
Qed.

Lemma do_post_inr_reached i w init cur call cancel x w' pr eh b :
  do_post i w init cur call cancel x = (w', pr, inr (eh, b)) -> p_reached pr = true.
Proof.
  intro H. destruct (do_post_facts _ _ _ _ _ _ _ _ _ _ H) as (_ & _ & _ & _ & _ & _ & Hv).
  exact (proj1 (Hv eh b eq_refl)).
Qed.

Lemma parse_stream_clean fx tid fs :
  first_exc fs = None ->
  exists p, parse_stream fx tid (CStream true fs TClean) = (logs_in fs, inr p) /\ pa_items p = items_of tid fs
            /\ is_some (pa_tok p) = has_token fs /\ pa_call p = has_call fs.
Proof.
  intro H. destruct (walk_clean tid fs H) as (p & Hw & Hr). exists p. cbn [parse_stream]. rewrite Hw. auto.
Qed.

Lemma parse_main_clean fx tid fs :
  first_exc fs = None ->
  exists p, parse_main fx tid false (CStream true fs TClean) = (logs_in fs, inr p) /\ pa_items p = items_of tid fs
            /\ is_some (pa_tok p) = has_token fs /\ pa_call p = has_call fs.
Proof.
  intro H. destruct (parse_stream_clean fx tid fs H) as (p & Hw & Hr). exists p. unfold parse_main.
  rewrite Hw. cbn. auto.
Qed.

Lemma good_view i w init cur call cancel x w' pr v :
  do_post i w init cur call cancel x = (w', pr, v) -> good pr = true ->
  v = inr (false, CStream true (p_frames pr) TClean) /\ first_exc (p_frames pr) = None.
Proof.
  intros Hd Hg. unfold good in Hg.
  apply andb_true_iff in Hg as [Hg Hne]. apply andb_true_iff in Hg as [Hg Hnh].
  apply andb_true_iff in Hg as [Hs Hk]. unfold seen in Hs. apply andb_true_iff in Hs as [Ht Hr].
  destruct (do_post_reached _ _ _ _ _ _ _ _ _ _ Hd Hr) as (sr & Hv & Hok & Heh & Hfr).
  rewrite (transparent_view _ sr Ht) in Hv. rewrite <- Hok, <- Heh, <- Hfr in Hv.
  rewrite Hk in Hv. destruct (p_serrhdr pr); [discriminate|].
  split; [exact Hv|]. destruct (first_exc (p_frames pr)); [discriminate|reflexivity].
Qed.

Lemma parse_stream_exc tid ok fs ty :
  first_exc fs = Some ty -> exists l, parse_stream true tid (CStream ok fs TClean) = (l, inl (ERpc ty)).
Proof.
  intro H. destruct ok; cbn [parse_stream].
  - destruct (walk_exc tid fs ty H) as [l Hl]. rewrite Hl. eauto.
  - rewrite H. eauto.
Qed.

Lemma parse_main_exc tid eh ok fs ty :
  first_exc fs = Some ty -> exists l, parse_main true tid eh (CStream ok fs TClean) = (l, inl (ERpc ty)).
Proof.
  intro H. destruct (parse_stream_exc tid ok fs ty H) as [l Hl]. unfold parse_main. rewrite Hl. eauto.
Qed.

Lemma seen_view i w init cur call cancel x w' pr v :
  do_post i w init cur call cancel x = (w', pr, v) -> seen pr = true ->
  v = inr (p_serrhdr pr, CStream (p_sok pr) (p_frames pr) TClean).
Proof.
  intros Hd Hs. unfold seen in Hs. apply andb_true_iff in Hs as [Ht Hr].
  destruct (do_post_reached _ _ _ _ _ _ _ _ _ _ Hd Hr) as (sr & Hv & Hok & Heh & Hfr).
  rewrite (transparent_view _ sr Ht) in Hv. now rewrite Hok, Heh, Hfr.
Qed.

Lemma item_eqb_refl a : item_eqb a a = true.
Proof.
  destruct a as [[r v] um]. unfold item_eqb. cbn [fst snd]. rewrite N.eqb_refl, Z.eqb_refl. cbn [andb].
  induction um as [|[k v'] um IH]; cbn [list_eqb]; auto. rewrite IH, andb_true_r.
  unfold kv_eqb, pair_eqb. cbn [fst snd]. now rewrite !beqb_refl.
Qed.

Lemma result_eqb_refl r : result_eqb r r = true.
Proof.
  destruct r as [it| | |e]; cbn; auto using item_eqb_refl.
  destruct e; cbn; auto using beqb_refl, Z.eqb_refl.
Qed.

Lemma logs_eqb_refl l : list_eqb N.eqb l l = true.
Proof. induction l; cbn; auto. now rewrite N.eqb_refl, IHl. Qed.

(* ------------------------------------------ Exchange returns the batch *)
Lemma exchange_one fx i w c x bad w' c' r :
  exchange_op fx i w c x bad = (w', c', r) -> exch_one x r = true.
Proof.
  unfold exchange_op. intro Hs.
  destruct (c_closed c); [inversion Hs; reflexivity|].
  destruct (negb (i_exchange i)); [inversion Hs; reflexivity|].
  destruct (c_fin c || negb (is_some (c_tok c))); [inversion Hs; reflexivity|].
  destruct bad; [inversion Hs; reflexivity|].
  destruct (do_post i w false (c_tok c) (c_call c) false x) as [[w1 pr] v] eqn:Ep.
  destruct (do_post_facts _ _ _ _ _ _ _ _ _ _ Ep) as (_ & _ & _ & Hcan & Hx & _).
  assert (Hposts : o_posts r = [pr]) by (break_in Hs; inversion Hs; reflexivity).
  unfold exch_one. rewrite Hposts, Hcan, Hx, Z.eqb_refl. cbn [negb andb].
  destruct (good pr) eqn:Hg; [|reflexivity].
  destruct (good_view _ _ _ _ _ _ _ _ _ _ Ep Hg) as [-> Hne].
  destruct (parse_main_clean fx true (p_frames pr) Hne) as (p & Hpm & Hit & Htk & _).
  rewrite Hpm in Hs. rewrite Hit in Hs.
  destruct (items_of true (p_frames pr)) as [|it [|it2 rest]]; try reflexivity.
  destruct (has_token (p_frames pr)); [|reflexivity].
  destruct (pa_tok p); [|discriminate]. inversion Hs; subst. cbn. now rewrite item_eqb_refl, logs_eqb_refl.
Qed.

Lemma exch_run fx i : forall ops w c, exch_ok ops (run_ops fx i w c ops) = true.
Proof.
  induction ops as [|op ops IH]; intros w c; cbn [run_ops exch_ok]; [reflexivity|].
  destruct (step fx i w c op) as [[w' c'] r] eqn:Es. cbn [exch_ok]. rewrite IH, andb_true_r.
  destruct op; auto. cbn [step] in Es. eapply exchange_one; eauto.
Qed.

(* ---------------------------------------------------- typed exceptions *)
Lemma typed_post_inl i w init cur call cancel x w' pr e res :
  do_post i w init cur call cancel x = (w', pr, inl e) -> typed_post res pr = true.
Proof.
  intro Hd. unfold typed_post. destruct (seen pr) eqn:Hs; [|reflexivity].
  pose proof (seen_view _ _ _ _ _ _ _ _ _ _ Hd Hs). discriminate.
Qed.

Lemma typed_post_main i w init cur call cancel x w' pr eh b tid l e :
  do_post i w init cur call cancel x = (w', pr, inr (eh, b)) ->
  parse_main true tid eh b = (l, inl e) -> typed_post (RErr e) pr = true.
Proof.
  intros Hd Hp. unfold typed_post. destruct (seen pr) eqn:Hs; [|reflexivity].
  pose proof (seen_view _ _ _ _ _ _ _ _ _ _ Hd Hs) as Hv. inversion Hv; subst.
  destruct (first_exc (p_frames pr)) as [ty|] eqn:Ee; [|reflexivity].
  destruct (parse_main_exc tid (p_serrhdr pr) (p_sok pr) _ ty Ee) as [l' Hl].
  rewrite Hl in Hp. inversion Hp; subst. apply result_eqb_refl.
Qed.

Lemma typed_post_stream i w init cur call cancel x w' pr eh b tid l e :
  do_post i w init cur call cancel x = (w', pr, inr (eh, b)) ->
  parse_stream true tid b = (l, inl e) -> typed_post (RErr e) pr = true.
Proof.
  intros Hd Hp. unfold typed_post. destruct (seen pr) eqn:Hs; [|reflexivity].
  pose proof (seen_view _ _ _ _ _ _ _ _ _ _ Hd Hs) as Hv. inversion Hv; subst.
  destruct (first_exc (p_frames pr)) as [ty|] eqn:Ee; [|reflexivity].
  destruct (parse_stream_exc tid (p_sok pr) _ ty Ee) as [l' Hl].
  rewrite Hl in Hp. inversion Hp; subst. apply result_eqb_refl.
Qed.

(* a response that parsed carries no exception *)
Lemma typed_post_ok i w init cur call cancel x w' pr eh b tid l p res :
  do_post i w init cur call cancel x = (w', pr, inr (eh, b)) ->
  parse_stream true tid b = (l, inr p) -> typed_post res pr = true.
Proof.
  intros Hd Hp. unfold typed_post. destruct (seen pr) eqn:Hs; [|reflexivity].
  pose proof (seen_view _ _ _ _ _ _ _ _ _ _ Hd Hs) as Hv. inversion Hv; subst.
  destruct (first_exc (p_frames pr)) as [ty|] eqn:Ee; [|reflexivity].
  destruct (parse_stream_exc tid (p_sok pr) _ ty Ee) as [l' Hl]. congruence.
Qed.

Lemma typed_post_ok_main i w init cur call cancel x w' pr eh b tid l p res :
  do_post i w init cur call cancel x = (w', pr, inr (eh, b)) ->
  parse_main true tid eh b = (l, inr p) -> typed_post res pr = true.
Proof.
  intros Hd Hp. apply parse_main_inr in Hp as (Hp & _ & _). eapply typed_post_ok; eauto.
Qed.

Lemma typed_exchange i w c x bad w' c' r :
  exchange_op true i w c x bad = (w', c', r) -> typed_one r = true.
Proof.
  unfold exchange_op, typed_one. intro Hs.
  destruct (c_closed c); [inversion Hs; reflexivity|].
  destruct (negb (i_exchange i)); [inversion Hs; reflexivity|].
  destruct (c_fin c || negb (is_some (c_tok c))); [inversion Hs; reflexivity|].
  destruct bad; [inversion Hs; reflexivity|].
  destruct (do_post i w false (c_tok c) (c_call c) false x) as [[w1 pr] v] eqn:Ep.
  destruct v as [e|[eh b]].
  { inversion Hs; subst. cbn. erewrite typed_post_inl; eauto. }
  destruct (parse_main true true eh b) as [l [e|p]] eqn:Epm.
  { inversion Hs; subst. cbn. erewrite typed_post_main; eauto. }
  assert (Ht : forall res, typed_post res pr = true) by (intro; eapply typed_post_ok_main; eauto).
  break_in Hs; inversion Hs; subst; cbn; now rewrite Ht.
Qed.

Lemma typed_cancel i w c w' c' r :
  cancel_op true i w c = (w', c', r) -> typed_one r = true.
Proof.
  unfold cancel_op, typed_one. intro Hs.
  destruct (c_closed c || c_fin c || negb (is_some (c_tok c))); [inversion Hs; reflexivity|].
  destruct (do_post i w false (c_tok c) (c_call c) true 0%Z) as [[w1 pr] v] eqn:Ep.
  destruct v as [e|[eh b]].
  { inversion Hs; subst. cbn. erewrite typed_post_inl; eauto. }
  destruct (parse_main true false eh b) as [l [e|p]] eqn:Epm.
  { inversion Hs; subst. cbn. erewrite typed_post_main; eauto. }
  assert (Ht : forall res, typed_post res pr = true) by (intro; eapply typed_post_ok_main; eauto).
  break_in Hs; inversion Hs; subst; cbn; now rewrite Ht.
Qed.

Lemma typed_next_loop i : forall fuel w c ps ls w' c' r,
  next_loop true i fuel w c ps ls = (w', c', r) ->
  (forall res, forallb (typed_post res) ps = true) -> typed_one r = true.
Proof.
  unfold typed_one. induction fuel as [|k IH]; intros w c ps ls w' c' r Hs Hps; cbn [next_loop] in Hs.
  - break_in Hs; inversion Hs; subst; cbn; apply Hps.
  - destruct (c_pend c); [|inversion Hs; subst; cbn; apply Hps].
    destruct (c_fin c || negb (is_some (c_tok c))); [inversion Hs; subst; cbn; apply Hps|].
    destruct (do_post i w false (c_tok c) (c_call c) false 0%Z) as [[w1 pr] v] eqn:Ep.
    destruct v as [e|[eh b]].
    { inversion Hs; subst. cbn. rewrite forallb_app, Hps. cbn. erewrite typed_post_inl; eauto. }
    destruct (parse_main true false eh b) as [l [e|p]] eqn:Epm.
    { inversion Hs; subst. cbn. rewrite forallb_app, Hps. cbn. erewrite typed_post_main; eauto. }
    eapply IH; [exact Hs|]. intro res. rewrite forallb_app, Hps. cbn.
    erewrite typed_post_ok_main; eauto.
Qed.

Lemma typed_step i w c op w' c' r : step true i w c op = (w', c', r) -> typed_one r = true.
Proof.
  destruct op; cbn [step]; intro Hs.
  - eapply typed_exchange; eauto.
  - unfold next_op in Hs. destruct (c_closed c); [inversion Hs; reflexivity|].
    destruct (i_exchange i); [inversion Hs; reflexivity|]. eapply typed_next_loop; eauto.
  - eapply typed_cancel; eauto.
  - unfold close_op in Hs. inversion Hs; reflexivity.
Qed.

Lemma typed_run i : forall ops w c, forallb typed_one (run_ops true i w c ops) = true.
Proof.
  induction ops as [|op ops IH]; intros w c; cbn [run_ops]; [reflexivity|].
  destruct (step true i w c op) as [[w' c'] r] eqn:Es. cbn [forallb].
  now rewrite (typed_step _ _ _ _ _ _ _ Es), IH.
Qed.

Lemma typed_open i w oc r : open_op true i world0 = (w, oc, r) -> typed_one r = true.
Proof.
  unfold open_op, typed_one. destruct (do_post i world0 true None false false 0%Z) as [[w1 pr] v] eqn:Ep.
  destruct v as [e|[eh b]].
  { intro Hs; inversion Hs; subst. cbn. erewrite typed_post_inl; eauto. }
  destruct (parse_stream true false b) as [l [e|p]] eqn:Eps.
  { intro Hs; inversion Hs; subst. cbn. erewrite typed_post_stream; eauto. }
  assert (Ht : forall res, typed_post res pr = true) by (intro; eapply typed_post_ok; eauto).
  intro Hs. break_in Hs; inversion Hs; subst; cbn; now rewrite Ht.
Qed.

(* ------------------------------------------------ continuation POSTs *)
Lemma wf_do_post i w cur call cancel x w' pr v t :
  do_post i w false cur call cancel x = (w', pr, v) -> cur = Some t -> wf_post pr = true.
Proof.
  intros Hd Hc. destruct (do_post_facts _ _ _ _ _ _ _ _ _ _ Hd) as (_ & Hi & Hcu & _).
  unfold wf_post. rewrite Hi, Hcu, Hc. reflexivity.
Qed.

Lemma not_dead_tok c : c_fin c || negb (is_some (c_tok c)) = false -> exists t, c_tok c = Some t.
Proof. intro H. apply orb_false_iff in H as [_ H]. apply negb_false_iff in H. now apply is_some_true. Qed.

Lemma wf_next_loop fx i : forall fuel w c ps ls w' c' r,
  next_loop fx i fuel w c ps ls = (w', c', r) -> forallb wf_post ps = true -> forallb wf_post (o_posts r) = true.
Proof.
  induction fuel as [|k IH]; intros w c ps ls w' c' r Hs Hps; cbn [next_loop] in Hs.
  - break_in Hs; inversion Hs; subst; cbn; apply Hps.
  - destruct (c_pend c); [|inversion Hs; subst; cbn; apply Hps].
    destruct (c_fin c || negb (is_some (c_tok c))) eqn:Ed; [inversion Hs; subst; cbn; apply Hps|].
    destruct (not_dead_tok _ Ed) as [t Ht].
    destruct (do_post i w false (c_tok c) (c_call c) false 0%Z) as [[w1 pr] v] eqn:Ep.
    pose proof (wf_do_post _ _ _ _ _ _ _ _ _ _ Ep Ht) as Hwf.
    destruct v as [e|[eh b]].
    { inversion Hs; subst. cbn. rewrite forallb_app, Hps. cbn. now rewrite Hwf. }
    destruct (parse_main fx false eh b) as [l [e|p]] eqn:Epm.
    { inversion Hs; subst. cbn. rewrite forallb_app, Hps. cbn. now rewrite Hwf. }
    eapply IH; [exact Hs|]. rewrite forallb_app, Hps. cbn. now rewrite Hwf.
Qed.

Lemma wf_step fx i w c op w' c' r : step fx i w c op = (w', c', r) -> forallb wf_post (o_posts r) = true.
Proof.
  destruct op as [x bad| | |]; cbn [step]; intro Hs.
  - unfold exchange_op in Hs.
    destruct (c_closed c); [inversion Hs; reflexivity|].
    destruct (negb (i_exchange i)); [inversion Hs; reflexivity|].
    destruct (c_fin c || negb (is_some (c_tok c))) eqn:Ed; [inversion Hs; reflexivity|].
    destruct bad; [inversion Hs; reflexivity|]. destruct (not_dead_tok _ Ed) as [t Ht].
    destruct (do_post i w false (c_tok c) (c_call c) false x) as [[w1 pr] v] eqn:Ep.
    pose proof (wf_do_post _ _ _ _ _ _ _ _ _ _ Ep Ht) as Hwf.
    break_in Hs; inversion Hs; subst; cbn; now rewrite Hwf.
  - unfold next_op in Hs. destruct (c_closed c); [inversion Hs; reflexivity|].
    destruct (i_exchange i); [inversion Hs; reflexivity|]. eapply wf_next_loop; eauto.
  - unfold cancel_op in Hs.
    destruct (c_closed c || c_fin c || negb (is_some (c_tok c))) eqn:Ed; [inversion Hs; reflexivity|].
    apply orb_false_iff in Ed as [_ Ed]. apply negb_false_iff, is_some_true in Ed as [t Ht].
    destruct (do_post i w false (c_tok c) (c_call c) true 0%Z) as [[w1 pr] v] eqn:Ep.
    pose proof (wf_do_post _ _ _ _ _ _ _ _ _ _ Ep Ht) as Hwf.
    break_in Hs; inversion Hs; subst; cbn; now rewrite Hwf.
  - unfold close_op in Hs. inversion Hs; reflexivity.
Qed.

Lemma wf_run fx i : forall ops w c, forallb (fun r => forallb wf_post (o_posts r)) (run_ops fx i w c ops) = true.
Proof.
  induction ops as [|op ops IH]; intros w c; cbn [run_ops]; [reflexivity|].
  destruct (step fx i w c op) as [[w' c'] r] eqn:Es. cbn [forallb].
  now rewrite (wf_step _ _ _ _ _ _ _ _ Es), IH.
Qed.

(* --------------------------------------------------------- the open call *)
Lemma open_ok_l fx i w oc r : open_op fx i world0 = (w, oc, r) -> open_ok i r = true.
Proof.
  unfold open_op, open_ok. destruct (do_post i world0 true None false false 0%Z) as [[w1 pr] v] eqn:Ep.
  intro Hs. assert (Hposts : o_posts r = [pr]) by (break_in Hs; inversion Hs; reflexivity).
  rewrite Hposts. destruct (good pr) eqn:Hg; [|reflexivity].
  destruct (good_view _ _ _ _ _ _ _ _ _ _ Ep Hg) as [-> Hne].
  destruct (parse_stream_clean fx false (p_frames pr) Hne) as (p & Hpm & Hit & Htk & Hca).
  rewrite Hpm in Hs. cbn [tail_of] in Hs. rewrite Hit, Htk, Hca in Hs.
  destruct (i_exchange i); cbn [andb] in Hs.
  - destruct (is_nil (items_of false (p_frames pr)) && has_token (p_frames pr) && has_call (p_frames pr)) eqn:E;
      [|reflexivity].
    apply andb_true_iff in E as [E E3]. apply andb_true_iff in E as [E1 E2].
    rewrite E1, E2, E3 in Hs. cbn in Hs. inversion Hs; subst. reflexivity.
  - inversion Hs; subst. reflexivity.
Qed.

(* ------------------------------------------------------------- producers *)
Lemma parse_ok_good fx tid f sr eh b l p :
  post_view f sr = inr (eh, b) -> parse_stream fx tid b = (l, inr p) -> eh = false ->
  tail_of b <> TTrailing -> lossy f = false ->
  transparent f = true /\ sr_ok sr = true /\ sr_errhdr sr = false /\ b = CStream true (sr_frames sr) TClean.
Proof.
  unfold post_view, transparent, lossy. destruct f as [n st o e bf h]; cbn [f_net f_over f_enc f_body f_errhdr f_status eff_status].
  destruct n; try discriminate. destruct o; try discriminate. destruct (enc_accepts e) eqn:Eacc; try discriminate.
  destruct (status_2xx (eff_status {| f_net := NetOk; f_status := st; f_over := false; f_enc := e; f_body := bf; f_errhdr := h |})) eqn:Est;
    [|discriminate].
  intros Hv Hp Heh Htl Hlo. inversion Hv; subst; clear Hv.
  apply orb_false_iff in H0 as [Hse Hh]. subst h. unfold eff_status in Est. cbn [f_status] in Est.
  cbn [net_eqb negb andb].
  destruct bf; cbn [edit] in Hp, Htl |- *; cbn in Hlo; try discriminate.
  - destruct (sr_ok sr); [|discriminate]. auto.
  - cbn [tail_of] in Htl. congruence.
  - destruct (sr_frames sr); [discriminate|]. cbn [parse_stream] in Hp. destruct (sr_ok sr); [|discriminate].
    destruct (walk tid (removelast (f :: l0))) as [l1 [e1|p1]]; discriminate.
Qed.

Lemma post_ok_good fx tid i w init cur call cancel x w' pr eh b l p :
  do_post i w init cur call cancel x = (w', pr, inr (eh, b)) ->
  parse_stream fx tid b = (l, inr p) -> eh = false -> tail_of b <> TTrailing ->
  lossy (p_fault pr) = false ->
  good pr = true /\ pa_items p = items_of tid (p_frames pr).
Proof.
  intros Hd Hp Heh Htl Hlo.
  destruct (do_post_facts _ _ _ _ _ _ _ _ _ _ Hd) as (_ & _ & _ & _ & _ & _ & Hv).
  destruct (Hv eh b eq_refl) as (Hr & (sr & Hpv & Hok & Hse & Hfr) & _).
  destruct (parse_ok_good _ _ _ _ _ _ _ _ Hpv Hp Heh Htl Hlo) as (Ht & Hk & Hh & Hb).
  subst b. cbn [parse_stream] in Hp. destruct (walk tid (sr_frames sr)) as [l1 [e1|p1]] eqn:Ew; [discriminate|].
  inversion Hp; subst. pose proof (walk_ok_noexc _ _ _ _ Ew) as Hne.
  destruct (walk_clean tid _ Hne) as (p0 & Hw0 & Hit & _). rewrite Ew in Hw0. inversion Hw0; subst.
  split; [|now rewrite Hfr]. unfold good, seen. rewrite Ht, Hr, Hok, Hk, Hse, Hh, Hfr, Hne. reflexivity.
Qed.

Lemma undelivered_inl i w init cur call cancel x w' pr e :
  do_post i w init cur call cancel x = (w', pr, inl e) -> delivered pr = [].
Proof.
  intro Hd. unfold delivered. destruct (good pr) eqn:Hg; [|reflexivity].
  destruct (good_view _ _ _ _ _ _ _ _ _ _ Hd Hg). discriminate.
Qed.

Lemma undelivered_parse fx tid i w init cur call cancel x w' pr eh b l e :
  do_post i w init cur call cancel x = (w', pr, inr (eh, b)) ->
  parse_main fx tid eh b = (l, inl e) -> delivered pr = [].
Proof.
  intros Hd Hp. unfold delivered. destruct (good pr) eqn:Hg; [|reflexivity].
  destruct (good_view _ _ _ _ _ _ _ _ _ _ Hd Hg) as [Hv Hne]. inversion Hv; subst.
  destruct (parse_main_clean fx tid _ Hne) as (p & Hpm & _). congruence.
Qed.

Definition nl_posts (ps : list post_rec) : bool := forallb (fun p => negb (lossy (p_fault p))) ps.

Lemma next_loop_prod fx i : forall fuel w c ps ls w' c' r,
  next_loop fx i fuel w c ps ls = (w', c', r) ->
  exists new, o_posts r = ps ++ new /\
    (nl_posts new = true ->
     match o_res r with
     | ROk it => c_pend c ++ flat_map delivered new = it :: c_pend c'
     | REnd => c_pend c ++ flat_map delivered new = [] /\ c_pend c' = []
     | RErr _ => c_pend c ++ flat_map delivered new = c_pend c'
     | RNil => False
     end).
Proof.
  induction fuel as [|k IH]; intros w c ps ls w' c' r Hs; cbn [next_loop] in Hs.
  - destruct (c_pend c) as [|it rest] eqn:Epd.
    + destruct (c_fin c || negb (is_some (c_tok c))); inversion Hs; subst; exists []; rewrite app_nil_r;
        (split; [reflexivity|]); intros _; cbn; auto.
    + inversion Hs; subst. exists []. rewrite app_nil_r. split; [reflexivity|]. intros _. cbn. now rewrite app_nil_r.
  - destruct (c_pend c) as [|it rest] eqn:Epd.
    2:{ inversion Hs; subst. exists []. rewrite app_nil_r. split; [reflexivity|]. intros _. cbn. now rewrite app_nil_r. }
    destruct (c_fin c || negb (is_some (c_tok c))).
    { inversion Hs; subst. exists []. rewrite app_nil_r. split; [reflexivity|]. intros _. cbn. auto. }
    destruct (do_post i w false (c_tok c) (c_call c) false 0%Z) as [[w1 pr] v] eqn:Ep.
    destruct v as [e|[eh b]].
    { inversion Hs; subst. exists [pr]. split; [reflexivity|]. intros _. cbn.
      rewrite (undelivered_inl _ _ _ _ _ _ _ _ _ _ Ep). now rewrite Epd. }
    destruct (parse_main fx false eh b) as [l [e|p]] eqn:Epm.
    { inversion Hs; subst. exists [pr]. split; [reflexivity|]. intros _. cbn.
      rewrite (undelivered_parse _ _ _ _ _ _ _ _ _ _ _ _ _ _ _ Ep Epm). now rewrite Epd. }
    destruct (IH _ _ _ _ _ _ _ Hs) as (new & Hposts & Hres). exists (pr :: new).
    split; [rewrite Hposts, <- app_assoc; reflexivity|]. intro Hnl. cbn [nl_posts forallb] in Hnl.
    apply andb_true_iff in Hnl as [Hl1 Hl2]. apply negb_true_iff in Hl1.
    destruct (parse_main_inr _ _ _ _ _ _ Epm) as (Hps & Heh & Htl).
    destruct (post_ok_good _ _ _ _ _ _ _ _ _ _ _ _ _ _ _ Ep Hps Heh Htl Hl1) as (Hg & Hit).
    specialize (Hres Hl2). cbn [c_pend] in Hres. cbn [flat_map app].
    assert (Hdel : delivered pr = pa_items p) by (unfold delivered; now rewrite Hg, Hit).
    rewrite Hdel. exact Hres.
Qed.

Lemma closed_no_ok fx i : forall ops w c, c_closed c = true ->
  forallb (fun r => negb (is_ok (o_res r))) (run_ops fx i w c ops) = true.
Proof.
  induction ops as [|op ops IH]; intros w c Hc; cbn [run_ops]; [reflexivity|].
  destruct (step fx i w c op) as [[w' c'] r] eqn:Es.
  assert (c_closed c' = true /\ is_ok (o_res r) = false) as [Hc' Hr].
  { destruct op; cbn [step] in Es.
    - unfold exchange_op in Es. rewrite Hc in Es. inversion Es; subst; auto.
    - unfold next_op in Es. rewrite Hc in Es. inversion Es; subst; auto.
    - unfold cancel_op in Es. rewrite Hc in Es. cbn in Es. inversion Es; subst; auto.
    - unfold close_op in Es. inversion Es; subst; auto. }
  cbn [forallb]. now rewrite Hr, (IH _ _ Hc').
Qed.

Lemma cancel_frames i w cur call x w' pr v :
  do_post i w false cur call true x = (w', pr, v) -> p_frames pr = [].
Proof.
  unfold do_post, server. destruct (f_net (fault_at i (w_n w))); cbn; intro H; inversion H; reflexivity.
Qed.

Lemma prod_run fx i : i_exchange i = false -> forall ops w c,
  forallb (fun r => nl_posts (o_posts r)) (run_ops fx i w c ops) = true ->
  prod_ok (c_pend c) ops (run_ops fx i w c ops) = true.
Proof.
  intro Hex. induction ops as [|op ops IH]; intros w c; cbn [run_ops]; [reflexivity|].
  destruct (step fx i w c op) as [[w' c'] r] eqn:Es. cbn [forallb prod_ok]. intro Hnl.
  apply andb_true_iff in Hnl as [Hnl1 Hnl2]. specialize (IH w' c' Hnl2).
  destruct op as [x bad| | |]; cbn [step] in Es.
  - unfold exchange_op in Es. rewrite Hex in Es. cbn [negb] in Es.
    destruct (c_closed c); inversion Es; subst; cbn; now rewrite app_nil_r.
  - unfold next_op in Es. rewrite Hex in Es. destruct (c_closed c).
    { inversion Es; subst. cbn. now rewrite app_nil_r. }
    destruct (next_loop_prod _ _ _ _ _ _ _ _ _ _ Es) as (new & Hposts & Hres). cbn [app] in Hposts.
    rewrite Hposts in Hnl1 |- *. specialize (Hres Hnl1).
    destruct (o_res r) as [it| | |e].
    + rewrite Hres. now rewrite item_eqb_refl.
    + destruct Hres as [-> Hp]. cbn. now rewrite <- Hp.
    + destruct Hres.
    + now rewrite Hres.
  - unfold cancel_op in Es.
    destruct (c_closed c || c_fin c || negb (is_some (c_tok c))).
    { inversion Es; subst. cbn. now rewrite app_nil_r. }
    destruct (do_post i w false (c_tok c) (c_call c) true 0%Z) as [[w1 pr] v] eqn:Ep.
    pose proof (cancel_frames _ _ _ _ _ _ _ _ Ep) as Hfr.
    assert (Hdel : delivered pr = []) by (unfold delivered; rewrite Hfr; destruct (good pr); reflexivity).
    assert (Hgoal : forall l res, is_ok res = false ->
              negb (is_ok (o_res (mk_op [pr] l res))) &&
              prod_ok (c_pend c ++ flat_map delivered (o_posts (mk_op [pr] l res))) ops (run_ops fx i w' (poison c) ops) = true
              -> True) by auto.
    clear Hgoal.
    break_in Es; inversion Es; subst; cbn [o_posts o_res mk_op flat_map is_ok negb andb];
      rewrite Hdel, !app_nil_r; exact IH.
  - unfold close_op in Es. inversion Es; subst. cbn [o_res mk_op is_ok negb andb]. apply closed_no_ok. reflexivity.
Qed.

Lemma open_pend fx i w c r :
  open_op fx i world0 = (w, Some c, r) -> nl_posts (o_posts r) = true ->
  flat_map delivered (o_posts r) = c_pend c.
Proof.
  unfold open_op. destruct (do_post i world0 true None false false 0%Z) as [[w1 pr] v] eqn:Ep.
  destruct v as [e|[eh b]]; [discriminate|].
  destruct (parse_stream fx false b) as [l [e|p]] eqn:Eps; [discriminate|].
  intros Hs Hnl.
  assert (Hb : tail_of b <> TTrailing /\ eh = false /\ o_posts r = [pr] /\ c_pend c = pa_items p).
  { destruct (tail_of b); try discriminate;
      (split; [discriminate|]); break_in Hs; inversion Hs; subst; auto. }
  destruct Hb as (Htl & Heh & Hposts & Hpend). rewrite Hposts in Hnl |- *. cbn in Hnl.
  rewrite andb_true_r in Hnl. apply negb_true_iff in Hnl.
  destruct (post_ok_good _ _ _ _ _ _ _ _ _ _ _ _ _ _ _ Ep Eps Heh Htl Hnl) as (Hg & Hit).
  cbn. unfold delivered. now rewrite Hg, app_nil_r, Hpend, Hit.
Qed.

(* ------------------------------------------------------------ rejection *)
Lemma parse_ok_class fx tid f sr eh b l p :
  post_view f sr = inr (eh, b) -> parse_stream fx tid b = (l, inr p) -> eh = false ->
  tail_of b <> TTrailing -> transparent f || lossy f = true.
Proof.
  intros Hv Hp Heh Htl. destruct (lossy f) eqn:Hl; [apply orb_true_r|].
  destruct (parse_ok_good _ _ _ _ _ _ _ _ Hv Hp Heh Htl Hl) as (-> & _). reflexivity.
Qed.

Lemma lossy_nocurs f sr eh b : lossy f = true -> post_view f sr = inr (eh, b) -> body_curs b = [].
Proof.
  unfold lossy, post_view. destruct (f_net f); try discriminate. destruct (f_over f); try discriminate.
  destruct (enc_accepts (f_enc f)); try discriminate. destruct (status_2xx (eff_status f)); try discriminate.
  intros Hl Hv. inversion Hv; subst. destruct (f_body f); try discriminate; cbn [edit body_curs].
  - induction (sr_frames sr) as [|g fs IH]; [reflexivity|]. cbn [filter].
    destruct g as [m|ty|rows v um [c|] call]; cbn [has_cur negb]; try (rewrite curs_cons, IH; reflexivity). exact IH.
  - apply curs_strip.
Qed.

Lemma view_reaches f sr eh b : post_view f sr = inr (eh, b) -> reaches_parser f = true.
Proof.
  unfold post_view, reaches_parser. destruct (f_net f); try discriminate. destruct (f_over f); try discriminate.
  destruct (enc_accepts (f_enc f)); try discriminate. destruct (status_2xx (eff_status f)); try discriminate.
  reflexivity.
Qed.

Lemma rej_parsed fx tid ex res i w init cur call cancel x w' pr eh b l p :
  do_post i w init cur call cancel x = (w', pr, inr (eh, b)) ->
  parse_stream fx tid b = (l, inr p) -> eh = false -> tail_of b <> TTrailing ->
  (ex = false \/ cancel = true \/ is_some (pa_tok p) = true) ->
  rej_post ex res pr = true.
Proof.
  intros Hd Hp Heh Htl Hside.
  destruct (do_post_facts _ _ _ _ _ _ _ _ _ _ Hd) as (_ & _ & _ & Hcan & _ & _ & Hv).
  destruct (Hv eh b eq_refl) as (_ & (sr & Hpv & _) & _).
  pose proof (parse_ok_class _ _ _ _ _ _ _ _ Hpv Hp Heh Htl) as Hc.
  unfold rej_post. destruct (transparent (p_fault pr)); [now rewrite orb_true_r|].
  cbn in Hc. rewrite Hc, Hcan, (view_reaches _ _ _ _ Hpv). rewrite orb_false_r. cbn [andb].
  destruct Hside as [->|[->|Hs]]; [now rewrite orb_true_r|now rewrite !orb_true_r|].
  apply is_some_true in Hs as [t Ht]. pose proof (parse_stream_tok _ _ _ _ _ _ Hp Ht) as Hin.
  rewrite (lossy_nocurs _ _ _ _ Hc Hpv) in Hin. destruct Hin.
Qed.

Lemma rej_parsed_main fx tid ex res i w init cur call cancel x w' pr eh b l p :
  do_post i w init cur call cancel x = (w', pr, inr (eh, b)) ->
  parse_main fx tid eh b = (l, inr p) ->
  (ex = false \/ cancel = true \/ is_some (pa_tok p) = true) ->
  rej_post ex res pr = true.
Proof.
  intros Hd Hp Hside. destruct (parse_main_inr _ _ _ _ _ _ Hp) as (Hps & Heh & Htl).
  eapply rej_parsed; eauto.
Qed.

Lemma rej_err ex e p : rej_post ex (RErr e) p = true.
Proof. reflexivity. Qed.

Lemma rej_exchange fx i w c x bad w' c' r :
  exchange_op fx i w c x bad = (w', c', r) -> rej_one (i_exchange i) r = true.
Proof.
  unfold exchange_op, rej_one. intro Hs.
  destruct (c_closed c); [inversion Hs; reflexivity|].
  destruct (negb (i_exchange i)); [inversion Hs; reflexivity|].
  destruct (c_fin c || negb (is_some (c_tok c))); [inversion Hs; reflexivity|].
  destruct bad; [inversion Hs; reflexivity|].
  destruct (do_post i w false (c_tok c) (c_call c) false x) as [[w1 pr] v] eqn:Ep.
  destruct v as [e|[eh b]]; [inversion Hs; subst; reflexivity|].
  destruct (parse_main fx true eh b) as [l [e|p]] eqn:Epm; [inversion Hs; subst; reflexivity|].
  destruct (pa_items p) as [|it [|it2 rest]]; destruct (pa_tok p) as [t|] eqn:Et; inversion Hs; subst; try reflexivity.
  cbn [o_posts o_res mk_op forallb]. rewrite andb_true_r.
  eapply rej_parsed_main; eauto. right; right. now rewrite Et.
Qed.

Lemma rej_cancel fx i w c w' c' r :
  cancel_op fx i w c = (w', c', r) -> rej_one (i_exchange i) r = true.
Proof.
  unfold cancel_op, rej_one. intro Hs.
  destruct (c_closed c || c_fin c || negb (is_some (c_tok c))); [inversion Hs; reflexivity|].
  destruct (do_post i w false (c_tok c) (c_call c) true 0%Z) as [[w1 pr] v] eqn:Ep.
  destruct v as [e|[eh b]]; [inversion Hs; subst; reflexivity|].
  destruct (parse_main fx false eh b) as [l [e|p]] eqn:Epm; [inversion Hs; subst; reflexivity|].
  destruct (negb (is_nil (pa_items p)) || is_some (pa_tok p)); inversion Hs; subst; try reflexivity.
  cbn [o_posts o_res mk_op forallb]. rewrite andb_true_r. eapply rej_parsed_main; eauto.
Qed.

Lemma rej_next_loop fx i : forall fuel w c ps ls w' c' r,
  next_loop fx i fuel w c ps ls = (w', c', r) ->
  (forall res, forallb (rej_post false res) ps = true) -> rej_one false r = true.
Proof.
  unfold rej_one. induction fuel as [|k IH]; intros w c ps ls w' c' r Hs Hps; cbn [next_loop] in Hs.
  - break_in Hs; inversion Hs; subst; cbn; apply Hps.
  - destruct (c_pend c); [|inversion Hs; subst; cbn; apply Hps].
    destruct (c_fin c || negb (is_some (c_tok c))); [inversion Hs; subst; cbn; apply Hps|].
    destruct (do_post i w false (c_tok c) (c_call c) false 0%Z) as [[w1 pr] v] eqn:Ep.
    destruct v as [e|[eh b]].
    { inversion Hs; subst. cbn. rewrite forallb_app, Hps. reflexivity. }
    destruct (parse_main fx false eh b) as [l [e|p]] eqn:Epm.
    { inversion Hs; subst. cbn. rewrite forallb_app, Hps. reflexivity. }
    eapply IH; [exact Hs|]. intro res. rewrite forallb_app, Hps. cbn. rewrite andb_true_r.
    eapply rej_parsed_main; eauto.
Qed.

Lemma rej_step fx i w c op w' c' r : step fx i w c op = (w', c', r) -> rej_one (i_exchange i) r = true.
Proof.
  destruct op; cbn [step]; intro Hs.
  - eapply rej_exchange; eauto.
  - unfold next_op in Hs. destruct (c_closed c); [inversion Hs; reflexivity|].
    destruct (i_exchange i); [inversion Hs; reflexivity|]. eapply rej_next_loop; eauto.
  - eapply rej_cancel; eauto.
  - unfold close_op in Hs. inversion Hs; reflexivity.
Qed.

Lemma rej_run fx i : forall ops w c, forallb (rej_one (i_exchange i)) (run_ops fx i w c ops) = true.
Proof.
  induction ops as [|op ops IH]; intros w c; cbn [run_ops]; [reflexivity|].
  destruct (step fx i w c op) as [[w' c'] r] eqn:Es. cbn [forallb].
  now rewrite (rej_step _ _ _ _ _ _ _ _ Es), IH.
Qed.

Lemma rej_open fx i w oc r : open_op fx i world0 = (w, oc, r) -> rej_one (i_exchange i) r = true.
Proof.
  unfold open_op, rej_one. destruct (do_post i world0 true None false false 0%Z) as [[w1 pr] v] eqn:Ep.
  destruct v as [e|[eh b]]; [intro Hs; inversion Hs; subst; reflexivity|].
  destruct (parse_stream fx false b) as [l [e|p]] eqn:Eps; [intro Hs; inversion Hs; subst; reflexivity|].
  intro Hs.
  destruct (tail_of b) eqn:Etl; try (inversion Hs; subst; reflexivity);
    destruct (i_exchange i && negb (is_nil (pa_items p))); try (inversion Hs; subst; reflexivity);
    destruct (i_exchange i && (negb (is_some (pa_tok p)) || negb (pa_call p))) eqn:Ek; try (inversion Hs; subst; reflexivity);
    destruct eh; inversion Hs; subst; try reflexivity;
    cbn [o_posts o_res mk_op forallb]; rewrite andb_true_r;
    (eapply rej_parsed; eauto; [congruence|]);
    (destruct (i_exchange i); [|left; reflexivity]); right; right; cbn in Ek;
    apply orb_false_iff in Ek as [Ek _]; now apply negb_false_iff in Ek.
Qed.

Lemma reject_model fx i : reject_ok i (model_gen fx i) = true.
Proof.
  unfold reject_ok, model_gen. destruct (open_op fx i world0) as [[w oc] r0] eqn:Ho. cbn [forallb].
  rewrite (rej_open _ _ _ _ _ Ho). destruct oc; [apply rej_run|reflexivity].
Qed.

(* ------------------------------------------------------------ assembly *)
Lemma model_shape fx i :
  exists w oc r0, open_op fx i world0 = (w, oc, r0) /\
    model_gen fx i = r0 :: match oc with Some c => run_ops fx i w c (i_ops i) | None => [] end.
Proof.
  unfold model_gen. destruct (open_op fx i world0) as [[w oc] r0]. exists w, oc, r0. auto.
Qed.

Lemma typed_model i : typed_ok (smodel i) = true.
Proof.
  destruct (model_shape true i) as (w & oc & r0 & Ho & Hm). unfold smodel, typed_ok. rewrite Hm. cbn [forallb].
  rewrite (typed_open _ _ _ _ Ho). destruct oc; [apply typed_run|reflexivity].
Qed.

Lemma poison_model fx i : i_exchange i = true -> poison_ok (i_ops i) (tl (model_gen fx i)) = true.
Proof.
  intro Hex. destruct (model_shape fx i) as (w & oc & r0 & Ho & Hm). rewrite Hm. cbn [tl].
  destruct oc; [now apply poison_run|]. destruct (i_ops i); reflexivity.
Qed.

Lemma exch_model fx i : exch_ok (i_ops i) (tl (model_gen fx i)) = true.
Proof.
  destruct (model_shape fx i) as (w & oc & r0 & Ho & Hm). rewrite Hm. cbn [tl].
  destruct oc; [apply exch_run|]. destruct (i_ops i); reflexivity.
Qed.

Lemma prod_model fx i :
  i_exchange i = false -> no_lossy (model_gen fx i) = true ->
  match model_gen fx i with
  | r0 :: rs => prod_ok (flat_map delivered (o_posts r0)) (i_ops i) rs = true
  | [] => False
  end.
Proof.
  intros Hex. destruct (model_shape fx i) as (w & oc & r0 & Ho & Hm). rewrite Hm. unfold no_lossy. cbn [forallb].
  intro Hnl. apply andb_true_iff in Hnl as [Hn0 Hn]. destruct oc as [c|]; [|destruct (i_ops i); reflexivity].
  rewrite (open_pend _ _ _ _ _ Ho Hn0). now apply prod_run.
Qed.

Lemma model_meets_spec i : sspec_ok i (smodel i) = true.
Proof.
  pose proof (typed_model i) as Hty. pose proof (poison_model true i) as Hpo.
  pose proof (exch_model true i) as Hex. pose proof (prod_model true i) as Hpr.
  pose proof (cursor_never_replayed_l true i) as Hnd.
  destruct (model_shape true i) as (w & oc & r0 & Ho & Hm). unfold smodel in *. rewrite Hm in *.
  set (rs := match oc with Some c => run_ops true i w c (i_ops i) | None => [] end) in *.
  pose proof (reject_model true i) as Hrj. unfold model_gen in Hrj. rewrite Ho in Hrj. fold rs in Hrj.
  unfold sspec_ok. rewrite Hty, Hrj. cbn [tl] in Hpo, Hex.
  destruct (open_facts _ _ _ _ _ Ho) as ((pr & Hpr0 & Hi & Hc) & Hoc).
  assert (Hwf : posts_wf (r0 :: rs) = true).
  { unfold posts_wf. rewrite Hpr0, Hi, Hc. cbn [negb is_some andb]. subst rs. destruct oc; [apply wf_run|reflexivity]. }
  rewrite Hwf, (open_ok_l _ _ _ _ _ Ho). cbn [andb].
  assert (Herr : (if is_err (o_res r0) then is_nil rs else true) = true).
  { subst rs. destruct oc; [destruct Hoc as [_ ->]; reflexivity|]. now destruct (is_err (o_res r0)). }
  rewrite Herr. cbn [andb]. destruct (i_exchange i) eqn:Ek.
  - rewrite (Hpo eq_refl), Hex, (proj2 (nodupb_NoDup _) (Hnd eq_refl)). reflexivity.
  - destruct (no_lossy (r0 :: rs)) eqn:Hnl; [|reflexivity]. exact (Hpr eq_refl eq_refl).
Qed.

(* --------------------------------------------------- relational readings *)
Lemma item_eqb_eq a b : item_eqb a b = true <-> a = b.
Proof.
  destruct a as [[r v] um], b as [[r' v'] um']. unfold item_eqb. cbn [fst snd].
  rewrite !andb_true_iff, N.eqb_eq, Z.eqb_eq.
  rewrite (list_eqb_eq kv_eqb).
  - split; [intros [[-> ->] ->]; reflexivity|intro H; inversion H; auto].
  - intros [k1 v1] [k2 v2]. unfold kv_eqb, pair_eqb. cbn [fst snd]. rewrite andb_true_iff, !beqb_eq.
    split; [intros [-> ->]; reflexivity|intro H; inversion H; auto].
Qed.

Lemma result_eqb_eq a b : result_eqb a b = true <-> a = b.
Proof.
  destruct a as [x| | |e], b as [y| | |e']; cbn [result_eqb]; try (split; [discriminate|discriminate]);
    try (split; reflexivity).
  - rewrite item_eqb_eq. split; [intros ->; reflexivity|intro H; inversion H; reflexivity].
  - destruct e, e'; cbn [err_eqb]; try (split; [discriminate|discriminate]); try (split; reflexivity).
    + rewrite beqb_eq. split; [intros ->; reflexivity|intro H; inversion H; reflexivity].
    + rewrite Z.eqb_eq. split; [intros ->; reflexivity|intro H; inversion H; reflexivity].
Qed.

Lemma exception_typed_rel i r p ty :
  In r (smodel i) -> In p (o_posts r) -> seen p = true -> first_exc (p_frames p) = Some ty ->
  o_res r = RErr (ERpc ty).
Proof.
  intros Hr Hp Hs He. pose proof (typed_model i) as Hty. unfold typed_ok in Hty.
  rewrite forallb_forall in Hty. specialize (Hty r Hr). unfold typed_one in Hty.
  rewrite forallb_forall in Hty. specialize (Hty p Hp). unfold typed_post in Hty. rewrite Hs, He in Hty.
  now apply result_eqb_eq.
Qed.

Definition silent (r : op_rec) : Prop := o_posts r = [] /\ is_ok (o_res r) = false.

Lemma quiet_forall : forall ops rs, quiet ops rs = true -> Forall silent rs.
Proof.
  induction ops as [|op ops IH]; intros [|r rs] H; cbn [quiet] in H; try discriminate; try constructor.
  - apply andb_true_iff in H as [H H4]. apply andb_true_iff in H as [H H3]. apply andb_true_iff in H as [H1 H2].
    split; [destruct (o_posts r); [reflexivity|discriminate]|now apply negb_true_iff].
  - apply andb_true_iff in H as [_ H]. auto.
Qed.

Lemma poison_split : forall pre ops r post,
  poison_ok ops (pre ++ r :: post) = true -> o_posts r <> [] -> is_err (o_res r) = true -> Forall silent post.
Proof.
  induction pre as [|r1 pre IH]; intros [|op ops] r post H Hp He; cbn [app poison_ok] in H; try discriminate.
  - apply andb_true_iff in H as [H _]. rewrite He in H. destruct (o_posts r); [congruence|]. cbn in H.
    eapply quiet_forall; eauto.
  - apply andb_true_iff in H as [_ H]. eauto.
Qed.

Lemma no_post_after_ambiguous_rel fx i r0 pre r post :
  i_exchange i = true -> model_gen fx i = r0 :: pre ++ r :: post ->
  o_posts r <> [] -> is_err (o_res r) = true -> Forall silent post.
Proof.
  intros Hex Hm Hp He. pose proof (poison_model fx i Hex) as H. rewrite Hm in H. cbn [tl] in H.
  eapply poison_split; eauto.
Qed.

Lemma exchange_returns_rel i k x bad r p it :
  nth_error (i_ops i) k = Some (OpExchange x bad) -> nth_error (tl (smodel i)) k = Some r ->
  o_posts r = [p] -> good p = true -> items_of true (p_frames p) = [it] -> has_token (p_frames p) = true ->
  o_res r = ROk it /\ o_logs r = logs_in (p_frames p) /\ p_x p = x /\ p_cancel p = false.
Proof.
  pose proof (exch_model true i) as H. unfold smodel. revert H. generalize (tl (model_gen true i)). generalize (i_ops i).
  induction k as [|k IH]; intros [|op ops] [|r1 rs] H Ho Hr Hp Hg Hit Htk; cbn [nth_error] in Ho, Hr; try discriminate.
  - inversion Ho; inversion Hr; subst. cbn [exch_ok] in H. apply andb_true_iff in H as [H _].
    unfold exch_one in H. rewrite Hp, Hg, Hit, Htk in H.
    apply andb_true_iff in H as [H H3]. apply andb_true_iff in H as [H1 H2]. apply andb_true_iff in H3 as [H3 H4].
    apply result_eqb_eq in H3. apply Z.eqb_eq in H2. apply negb_true_iff in H1.
    apply (list_eqb_eq N.eqb N.eqb_eq) in H4. auto.
  - cbn [exch_ok] in H. apply andb_true_iff in H as [_ H]. eapply IH; eauto.
Qed.

Definition returned (o : sobs) : list item :=
  flat_map (fun r => match o_res r with ROk it => [it] | _ => [] end) o.
Definition all_delivered (o : sobs) : list item := flat_map (fun r => flat_map delivered (o_posts r)) o.

Lemma no_ok_returned rs : forallb (fun r => negb (is_ok (o_res r))) rs = true -> returned rs = [].
Proof.
  induction rs as [|r rs IH]; cbn [forallb]; [reflexivity|]. intro H. apply andb_true_iff in H as [H1 H2].
  unfold returned. cbn [flat_map]. destruct (o_res r); try discriminate; cbn; now apply IH.
Qed.

Lemma prod_prefix : forall ops rs q, prod_ok q ops rs = true ->
  exists rest, q ++ all_delivered rs = returned rs ++ rest.
Proof.
  induction ops as [|op ops IH]; intros [|r rs] q H; try (exists (q ++ all_delivered []); reflexivity);
    try discriminate.
  - cbn [prod_ok] in H. unfold all_delivered, returned. cbn [flat_map]. fold (all_delivered rs). fold (returned rs).
    rewrite app_assoc. set (q' := q ++ flat_map delivered (o_posts r)) in *.
    destruct op.
    + apply andb_true_iff in H as [He H]. destruct (o_res r); try discriminate. cbn [app]. eauto.
    + destruct (o_res r) as [it| | |e].
      * destruct q' as [|x t]; [discriminate|]. apply andb_true_iff in H as [Hx H]. apply item_eqb_eq in Hx. subst x.
        destruct (IH _ _ H) as [rest Hr]. exists rest. cbn [app]. now rewrite Hr.
      * apply andb_true_iff in H as [Hn H]. destruct q'; [|discriminate]. cbn [app].
        destruct (IH _ _ H) as [rest Hr]. exists rest. exact Hr.
      * discriminate.
      * cbn [app]. eauto.
    + apply andb_true_iff in H as [He H]. destruct (o_res r); try discriminate; cbn [app]; eauto.
    + apply andb_true_iff in H as [He H]. rewrite (no_ok_returned _ H). destruct (o_res r); try discriminate; cbn [app]; eauto.
Qed.

Lemma producer_prefix_rel i :
  i_exchange i = false -> no_lossy (smodel i) = true ->
  exists rest, all_delivered (smodel i) = returned (smodel i) ++ rest.
Proof.
  intros Hex Hnl. pose proof (prod_model true i Hex Hnl) as H. unfold smodel in *.
  destruct (model_shape true i) as (w & oc & r0 & Ho & Hm). rewrite Hm in *.
  destruct (prod_prefix _ _ _ H) as [rest Hr]. exists rest.
  unfold all_delivered, returned in *. cbn [flat_map]. rewrite Hr.
  destruct (open_facts _ _ _ _ _ Ho) as (_ & Hoc). destruct oc.
  - destruct Hoc as [_ ->]. reflexivity.
  - destruct (o_res r0); try discriminate. reflexivity.
Qed.

Lemma reject_rel i r p :
  In r (smodel i) -> In p (o_posts r) -> transparent (p_fault p) = false ->
  (lossy (p_fault p) = false \/ reaches_parser (p_fault p) = false
   \/ (i_exchange i = true /\ p_cancel p = false)) ->
  is_err (o_res r) = true.
Proof.
  intros Hr Hp Ht Hside. pose proof (reject_model true i) as H. unfold reject_ok in H.
  rewrite forallb_forall in H. specialize (H r Hr). unfold rej_one in H. rewrite forallb_forall in H.
  specialize (H p Hp). unfold rej_post in H. rewrite Ht, orb_false_r in H.
  destruct (is_err (o_res r)); [reflexivity|]. cbn in H.
  destruct Hside as [Hl|[Hl|[Hex Hc]]]; [now rewrite Hl in H|now rewrite Hl, andb_false_r in H|].
  rewrite Hex, Hc in H. now rewrite andb_false_r in H.
Qed.

(* a coding the client does not support, or that the body is not in, on the header the
   client reads - standard, or custom when the standard one is absent - is refused *)
Lemma encoding_refused_rel i r p :
  In r (smodel i) -> In p (o_posts r) -> enc_accepts (f_enc (p_fault p)) = false ->
  is_err (o_res r) = true.
Proof.
  intros Hr Hp He. eapply reject_rel; eauto.
  - unfold transparent. rewrite He. now rewrite andb_false_r.
  - right; left. unfold reaches_parser. rewrite He. now rewrite andb_false_r.
Qed.

Lemma enc_accepts_spec e :
  enc_accepts e = true <->
  (enc_std e = COk \/ (enc_std e = CAbsent /\ (enc_custom e = COk \/ enc_custom e = CAbsent))).
Proof. destruct e; cbn; split; intro H; try discriminate; auto;
  destruct H as [H|[H1 [H|H]]]; discriminate. Qed.

(* ------------------------------------------------------------ witnesses *)
Definition w_turn (v : Z) : turn := {| t_logs := []; t_act := AEmit; t_val := v; t_meta := [] |}.

(* earlier client: an init handler error is masked by a schema-mismatch TypeError *)
Definition w_init_raise : sinput :=
  {| i_exchange := true; i_init_logs := []; i_init := InitRaise (str "ValueError"); i_turns := [];
     i_limit := 0; i_ops := [OpExchange 1%Z false]; i_faults := [] |}.

Lemma legacy_refuted_l :
  sspec_ok w_init_raise (smodel_legacy w_init_raise) = false /\
  map o_res (smodel_legacy w_init_raise) = [RErr (ERpc type_error)] /\
  map o_res (smodel w_init_raise) = [RErr (ERpc (str "ValueError"))].
Proof. vm_compute. auto. Qed.

(* scope: a producer continuation is retried with the same cursor after a failure *)
Definition w_prod_retry : sinput :=
  {| i_exchange := false; i_init_logs := []; i_init := InitOk; i_turns := [w_turn 1; w_turn 2; w_turn 3];
     i_limit := 1; i_ops := [OpNext; OpNext; OpNext];
     i_faults := [no_fault; {| f_net := NetAfter; f_status := 0%Z; f_over := false; f_enc := EncKeep;
                                f_body := BKeep; f_errhdr := false |}] |}.

Lemma producer_retries_l : ~ NoDup (posted_cursors (smodel w_prod_retry)).
Proof. intro H. apply nodupb_NoDup in H. vm_compute in H. discriminate. Qed.

(* non-vacuity witness: an exchange stream whose second turn is cut short *)
Definition w_exch_fault : sinput :=
  {| i_exchange := true; i_init_logs := [7%N]; i_init := InitOk;
     i_turns := [{| t_logs := [1%N]; t_act := AEmit; t_val := 10%Z; t_meta := [(str "k", str "v")] |}; w_turn 20; w_turn 30];
     i_limit := 0; i_ops := [OpExchange 1%Z false; OpExchange 2%Z false; OpExchange 3%Z false; OpCancel];
     i_faults := [no_fault; no_fault; {| f_net := NetOk; f_status := 0%Z; f_over := false; f_enc := EncKeep;
                                          f_body := BTrunc; f_errhdr := false |}] |}.


(* -------------------------------------------------------- client histories *)
Lemma hist_model_meets_spec i : spec_ok i (model i) = true.
Proof.
  unfold spec_ok, model. cbn [fst snd]. rewrite model_meets_spec, map_length, Nat.eqb_refl.
  induction (i_hist i) as [|h hs IH]; cbn; auto.
Qed.

Lemma hist_independent h1 h2 s :
  snd (model {| i_hist := h1; i_in := s |}) = snd (model {| i_hist := h2; i_in := s |}).
Proof. reflexivity. Qed.

Lemma hist_drift_rejected h s r p :
  In r (snd (model {| i_hist := h; i_in := s |})) -> In p (o_posts r) ->
  f_body (p_fault p) = BDrift -> f_net (p_fault p) = NetOk -> is_err (o_res r) = true.
Proof.
  intros Hr Hp Hb Hn. cbn [model snd i_in] in Hr. eapply reject_rel; eauto.
  - unfold transparent. rewrite Hb. cbn. now rewrite !andb_false_r.
  - left. unfold lossy. now rewrite Hb.
Qed.
