(* Proofs/C05.v *)
From VR Require Import Model.C05.
Open Scope N_scope.

(* erase every Go dynamic type name from an error value *)
Fixpoint erase (e : goerr) : goerr :=
  match e with
  | GCustom _ m => GCustom [] m
  | GWrap p i => GWrap p (erase i)
  | x => x
  end.

Theorem wire_independent_of_go_type_names e :
  exc_type e = exc_type (erase e) /\ err_kind e = err_kind (erase e) /\ err_text e = err_text (erase e).
Proof.
  induction e as [ | | | | | | | | |p i [IH1 [IH2 IH3]]]; cbn; try (repeat split; reflexivity).
  repeat split; try reflexivity. now rewrite IH3.
Qed.

Fixpoint wrapn (n : nat) (p : bytes) (e : goerr) : goerr :=
  match n with O => e | S k => GWrap p (wrapn k p e) end.

Theorem wrapped_is_runtime_error n p e :
  exc_type (wrapn (S n) p e) = exc_runtime_error /\ err_kind (wrapn (S n) p e) = [].
Proof. split; reflexivity. Qed.

Fixpoint prefixes (n : nat) (p : bytes) : bytes :=
  match n with O => [] | S k => p ++ colon_sp ++ prefixes k p end.

Theorem wrapped_message_carried n p e : err_text (wrapn n p e) = prefixes n p ++ err_text e.
Proof.
  induction n as [|n IH]; cbn [wrapn prefixes err_text app]; [reflexivity|].
  rewrite IH. now rewrite <- !app_assoc.
Qed.

Theorem type_in_closed_set e :
  (exists ty m k, e = GRpc ty m k) \/ In (exc_type e) wire_names.
Proof.
  destruct e; cbn [exc_type wire_names In]; try (right; tauto).
  left. now exists ty, msg, kind.
Qed.

Theorem kind_only_for_typed e :
  err_kind e <> [] ->
  (exists ty m k, e = GRpc ty m k /\ k <> []) \/
  match e with GNotImpl _ | GNotImplMsg _ | GProtoVer _ | GSessionLost _ | GDraining | GExtCap _ => True | _ => False end.
Proof.
  destruct e; cbn [err_kind]; intro H; try (right; exact I); try congruence.
  left. exists ty, msg, kind. split; [reflexivity | exact H].
Qed.

Theorem panic_is_runtime_error p shown :
  exc_type (effective p (Panicked shown)) = exc_runtime_error
  /\ err_kind (effective p (Panicked shown)) = [].
Proof. split; reflexivity. Qed.

Lemma in_wire_existsb x : In x wire_names -> existsb (beqb x) wire_names = true.
Proof.
  intro H. apply existsb_exists. exists x. split; [exact H | apply beqb_refl].
Qed.

Theorem model_meets_spec i : spec_ok i (model i) = true.
Proof.
  unfold spec_ok, model. cbn [o_nexc o_type o_msg o_logmsg o_kind o_tb o_frames].
  rewrite !beqb_refl, !Bool.eqb_reflx, N.eqb_refl. rewrite !andb_true_r. cbn [andb].
  destruct (i_src i) as [e|shown]; cbn [effective expected_type].
  - destruct e; cbn [exc_type]; rewrite ?beqb_refl; cbn [andb]; try reflexivity;
      try (apply in_wire_existsb; cbn [wire_names In]; tauto).
  - cbn [exc_type]. rewrite beqb_refl. cbn [andb]. apply in_wire_existsb. cbn [wire_names In]. tauto.
Qed.

Theorem debug_fields_iff_debug i : o_tb (model i) = i_debug i /\ o_frames (model i) = i_debug i.
Proof. split; reflexivity. Qed.

(* the pre-fix fallback put the Go type name on the wire *)
Definition exc_type_legacy (e : goerr) : bytes :=
  match e with
  | GPlain _ => str "*errors.errorString"
  | GCustom gt _ => gt
  | GWrap _ _ => str "*fmt.wrapError"
  | x => exc_type x
  end.

Theorem legacy_refuted :
  exists e, (forall ty m k, e <> GRpc ty m k) /\ ~ In (exc_type_legacy e) wire_names.
Proof.
  exists (GPlain (str "boom")). split; [intros; discriminate|].
  vm_compute. intros [H|[H|[H|[H|[H|[H|[]]]]]]]; discriminate.
Qed.
