(* Proofs/C29.v — invariants of the sticky-session step model, for ALL schedules. *)
From VR Require Import Model.C29.
From Coq Require Import ZifyBool ZifyN ZifyNat.
Local Arguments N.eqb : simpl never.
Local Arguments Z.ltb : simpl never.
Local Arguments Z.leb : simpl never.
Local Arguments Z.add : simpl never.
Local Arguments N.add : simpl never.

(* ---- lists ------------------------------------------------------------- *)
Lemma nth_upd_same {A} (l : list A) t x y :
  nth_error l t = Some x -> nth_error (upd l t y) t = Some y.
Proof. revert t; induction l as [|a l IH]; intros [|t] H; cbn in *; try discriminate; auto. Qed.

Lemma nth_upd_other {A} (l : list A) t t' y :
  t' <> t -> nth_error (upd l t y) t' = nth_error l t'.
Proof.
  revert t t'; induction l as [|a l IH]; intros [|t] [|t'] H; cbn; auto; try congruence.
Qed.

Lemma length_upd {A} (l : list A) t y : length (upd l t y) = length l.
Proof. revert t; induction l as [|a l IH]; intros [|t]; cbn; auto. Qed.

Lemma memN_In x l : memN x l = true <-> In x l.
Proof.
  unfold memN. rewrite existsb_exists. split.
  - intros [y [Hy E]]. apply N.eqb_eq in E. now subst.
  - intro H. exists x. split; [assumption | apply N.eqb_refl].
Qed.

Lemma memN_false x l : memN x l = false <-> ~ In x l.
Proof.
  rewrite <- memN_In. destruct (memN x l); split; intro H.
  - discriminate.
  - exfalso; apply H; reflexivity.
  - intro E; discriminate.
  - reflexivity.
Qed.

Lemma memn_In x l : memn x l = true <-> In x l.
Proof.
  unfold memn. rewrite existsb_exists. split.
  - intros [y [Hy E]]. apply Nat.eqb_eq in E. now subst.
  - intro H. exists x. split; [assumption | apply Nat.eqb_refl].
Qed.

(* ---- the per-session mutex --------------------------------------------- *)
Lemma lock_of_cons s t s' ls :
  lock_of s' ((s, t) :: ls) = if s =? s' then Some t else lock_of s' ls.
Proof. unfold lock_of; cbn [find fst snd]. destruct (s =? s'); reflexivity. Qed.

Lemma lock_of_unlock_same s ls : lock_of s (unlock s ls) = None.
Proof.
  unfold lock_of, unlock. induction ls as [|[a b] ls IH]; cbn [filter find fst]; [reflexivity|].
  destruct (a =? s) eqn:E; cbn [negb find fst]; [exact IH|]. rewrite E. exact IH.
Qed.

Lemma lock_of_unlock_other s s' ls : s' <> s -> lock_of s' (unlock s ls) = lock_of s' ls.
Proof.
  intro H. unfold lock_of, unlock. induction ls as [|[a b] ls IH]; cbn [filter find fst]; [reflexivity|].
  destruct (a =? s) eqn:E; cbn [negb find fst].
  - apply N.eqb_eq in E; subst a. destruct (s =? s') eqn:E2; [apply N.eqb_eq in E2; congruence | exact IH].
  - destruct (a =? s'); [reflexivity | exact IH].
Qed.

Definition held_by (th : thr) : option N :=
  match t_ph th with PhRun (Some s) _ => Some s | PhDel s _ => Some s | _ => None end.

Record InvL (m : monL) (st : state) : Prop := {
  L_open : forall t s, In (t, s) (l_open m) -> lock_of s (locks st) = Some t;
  L_held : forall t th s, nth_error (thrs st) t = Some th -> held_by th = Some s ->
                          lock_of s (locks st) = Some t;
  L_lock : forall s t, lock_of s (locks st) = Some t ->
                       exists th, nth_error (thrs st) t = Some th /\ held_by th = Some s;
  L_done : forall t th, nth_error (thrs st) t = Some th -> memn t (l_done m) = true -> t_ph th = PhDone }.

(* a step of thread t that neither takes nor releases a lock and does not answer *)
Lemma frameL m m' st st' t th th' :
  InvL m st -> nth_error (thrs st) t = Some th ->
  locks st' = locks st -> thrs st' = upd (thrs st) t th' ->
  held_by th' = held_by th -> t_ph th <> PhDone ->
  l_open m' = l_open m -> l_done m' = l_done m -> InvL m' st'.
Proof.
  intros [I1 I2 I3 I4] Ht El Et Eh Hnd Eo Ed.
  split; rewrite ?El, ?Et, ?Eo, ?Ed.
  - exact I1.
  - intros u thu s Hu Hh. destruct (Nat.eq_dec u t) as [->|Hne].
    + rewrite (nth_upd_same _ _ _ _ Ht) in Hu. inversion Hu; subst thu.
      rewrite Eh in Hh. eauto.
    + rewrite nth_upd_other in Hu by assumption. eauto.
  - intros s u Hl. destruct (I3 _ _ Hl) as [thu [Hu Hh]].
    destruct (Nat.eq_dec u t) as [->|Hne].
    + exists th'. rewrite (nth_upd_same _ _ _ _ Ht). split; [reflexivity|].
      rewrite Ht in Hu. inversion Hu; subst thu. congruence.
    + exists thu. rewrite nth_upd_other by assumption. auto.
  - intros u thu Hu Hm. destruct (Nat.eq_dec u t) as [->|Hne].
    + exfalso. apply Hnd. eapply I4; eauto.
    + rewrite nth_upd_other in Hu by assumption. eauto.
Qed.

(* thread t answers, releasing whatever lock it holds *)
Lemma doneL m m' st st' t th th' :
  InvL m st -> nth_error (thrs st) t = Some th ->
  locks st' = unlock_opt (held_by th) (locks st) -> thrs st' = upd (thrs st) t th' ->
  t_ph th' = PhDone ->
  l_open m' = filter (fun p => negb (Nat.eqb (fst p) t)) (l_open m) -> l_done m' = t :: l_done m ->
  InvL m' st'.
Proof.
  intros [I1 I2 I3 I4] Ht El Et Ep Eo Ed.
  assert (Hother : forall s u, u <> t -> lock_of s (locks st) = Some u ->
                               lock_of s (locks st') = Some u).
  { intros s u Hne Hl. rewrite El. destruct (held_by th) as [h|] eqn:Eh; cbn [unlock_opt]; [|exact Hl].
    rewrite lock_of_unlock_other; [exact Hl|]. intros ->.
    rewrite (I2 _ _ _ Ht Eh) in Hl. congruence. }
  split; rewrite ?Et, ?Eo, ?Ed.
  - intros u s Hin. apply filter_In in Hin as [Hin Hne]. cbn [fst] in Hne.
    apply Hother; [|auto]. intros ->. now rewrite Nat.eqb_refl in Hne.
  - intros u thu s Hu Hh. destruct (Nat.eq_dec u t) as [->|Hne].
    + rewrite (nth_upd_same _ _ _ _ Ht) in Hu. inversion Hu; subst thu.
      unfold held_by in Hh. rewrite Ep in Hh. discriminate.
    + rewrite nth_upd_other in Hu by assumption. apply Hother; eauto.
  - intros s u Hl. rewrite El in Hl.
    assert (Hold : lock_of s (locks st) = Some u /\ held_by th <> Some s).
    { destruct (held_by th) as [h|]; cbn [unlock_opt] in Hl.
      - destruct (N.eq_dec s h) as [->|Hne].
        + rewrite lock_of_unlock_same in Hl. discriminate.
        + rewrite lock_of_unlock_other in Hl by assumption. split; [assumption | congruence].
      - split; [assumption | discriminate]. }
    destruct Hold as [Hl0 Hnh]. destruct (I3 _ _ Hl0) as [thu [Hu Hh]].
    destruct (Nat.eq_dec u t) as [->|Hne].
    + rewrite Ht in Hu. inversion Hu; subst thu. contradiction.
    + exists thu. rewrite nth_upd_other by assumption. auto.
  - intros u thu Hu Hm. destruct (Nat.eq_dec u t) as [->|Hne].
    + rewrite (nth_upd_same _ _ _ _ Ht) in Hu. inversion Hu; subst thu. exact Ep.
    + rewrite nth_upd_other in Hu by assumption. cbn in Hm.
      destruct (Nat.eqb u t) eqn:E; [apply Nat.eqb_eq in E; congruence|]. eauto.
Qed.

(* thread t acquires the free lock of s *)
Lemma acqL m m' st st' t th th' s :
  InvL m st -> nth_error (thrs st) t = Some th ->
  held_by th = None -> t_ph th <> PhDone -> lock_of s (locks st) = None ->
  locks st' = (s, t) :: locks st -> thrs st' = upd (thrs st) t th' -> held_by th' = Some s ->
  (l_open m' = (t, s) :: l_open m \/ l_open m' = l_open m) -> l_done m' = l_done m ->
  InvL m' st' /\ existsb (fun p => snd p =? s) (l_open m) = false.
Proof.
  intros [I1 I2 I3 I4] Ht Eh0 Hnd Hfree El Et Eh Eo Ed.
  assert (Hnone : existsb (fun p => snd p =? s) (l_open m) = false).
  { destruct (existsb _ (l_open m)) eqn:E; [|reflexivity]. apply existsb_exists in E as [[u s'] [Hin E]].
    cbn [snd] in E. apply N.eqb_eq in E; subst s'. rewrite (I1 _ _ Hin) in Hfree. discriminate. }
  split; [|exact Hnone].
  assert (Hkeep : forall s' u, lock_of s' (locks st) = Some u -> lock_of s' (locks st') = Some u).
  { intros s' u Hl. rewrite El, lock_of_cons. destruct (s =? s') eqn:E; [|exact Hl].
    apply N.eqb_eq in E; subst s'. congruence. }
  split; rewrite ?Et, ?Ed.
  - intros u s' Hin. destruct Eo as [Eo|Eo]; rewrite Eo in Hin.
    + destruct Hin as [Hin|Hin].
      * inversion Hin; subst. rewrite El, lock_of_cons, N.eqb_refl. reflexivity.
      * auto.
    + auto.
  - intros u thu s' Hu Hh. destruct (Nat.eq_dec u t) as [->|Hne].
    + rewrite (nth_upd_same _ _ _ _ Ht) in Hu. inversion Hu; subst thu.
      rewrite Eh in Hh. inversion Hh; subst s'. rewrite El, lock_of_cons, N.eqb_refl. reflexivity.
    + rewrite nth_upd_other in Hu by assumption. eauto.
  - intros s' u Hl. rewrite El, lock_of_cons in Hl. destruct (s =? s') eqn:E.
    + apply N.eqb_eq in E; subst s'. inversion Hl; subst u.
      exists th'. rewrite (nth_upd_same _ _ _ _ Ht). auto.
    + destruct (I3 _ _ Hl) as [thu [Hu Hh]]. destruct (Nat.eq_dec u t) as [->|Hne].
      * rewrite Ht in Hu. inversion Hu; subst thu. congruence.
      * exists thu. rewrite nth_upd_other by assumption. auto.
  - intros u thu Hu Hm. destruct (Nat.eq_dec u t) as [->|Hne].
    + exfalso. apply Hnd. eapply I4; eauto.
    + rewrite nth_upd_other in Hu by assumption. eauto.
Qed.

(* ---- primitives leave locks and threads alone -------------------------- *)
Lemma foldL_closed l m : fold_left monL_step (map EClosed l) m = m.
Proof. induction l as [|a l IH]; cbn; auto. Qed.

Lemma evict_frame st dead : locks (fst (evict st dead)) = locks st /\ thrs (fst (evict st dead)) = thrs st.
Proof. split; reflexivity. Qed.

Lemma reg_close_frame st w s st1 hit :
  reg_close st w s = (st1, hit) -> locks st1 = locks st /\ thrs st1 = thrs st.
Proof.
  unfold reg_close. destruct (find_ent w s (ents st)); intro H; inversion H; subst; split; reflexivity.
Qed.

Lemma resolve_frame st w c tk st1 evs r :
  resolve st w c tk = (st1, evs, r) ->
  locks st1 = locks st /\ thrs st1 = thrs st /\ forall m, fold_left monL_step evs m = m.
Proof.
  unfold resolve. intro H.
  repeat match type of H with
         | context [match ?x with _ => _ end] => destruct x
         | context [if ?x then _ else _] => destruct x
         end; inversion H; subst; repeat split; reflexivity.
Qed.

Lemma do_act_frame dttl st t th w c acc ttl a st1 th1 evs :
  do_act dttl st t th w c acc ttl a = (st1, th1, evs) ->
  locks st1 = locks st /\ thrs st1 = thrs st /\ t_ph th1 = t_ph th
  /\ forall m, fold_left monL_step evs m = m.
Proof.
  unfold do_act. intro H. destruct a.
  - repeat match type of H with
           | context [if ?x then _ else _] => destruct x
           end; inversion H; subst; repeat split; reflexivity.
  - destruct (t_sess th) as [s|].
    + destruct (reg_close st w s) as [st2 hit] eqn:E. apply reg_close_frame in E as [E1 E2].
      inversion H; subst. repeat split; try assumption. intro m. destruct hit; reflexivity.
    + inversion H; subst. repeat split; reflexivity.
Qed.

Lemma frameL' m m' st st1 t th th' :
  InvL m st -> nth_error (thrs st) t = Some th ->
  locks st1 = locks st -> thrs st1 = thrs st ->
  held_by th' = held_by th -> t_ph th <> PhDone ->
  l_open m' = l_open m -> l_done m' = l_done m -> InvL m' (set_thr st1 t th').
Proof.
  intros. eapply frameL with (t := t) (th := th) (th' := th'); eauto; cbn [set_thr locks thrs]; congruence.
Qed.

Lemma doneL' m st st1 t th th' r :
  InvL m st -> nth_error (thrs st) t = Some th ->
  locks st1 = unlock_opt (held_by th) (locks st) -> thrs st1 = thrs st ->
  t_ph th' = PhDone ->
  InvL (monL_step m (EResp t r)) (set_thr st1 t th').
Proof.
  intros. eapply doneL with (t := t) (th := th) (th' := th'); eauto; cbn [set_thr locks thrs monL_step l_open l_done]; congruence.
Qed.

Definition okL_step (m m' : monL) (st' : state) : Prop := InvL m' st' /\ l_ok m' = l_ok m.

Lemma stepL0 dttl ps m st t st' evs :
  InvL m st -> step0 dttl ps st t = (st', evs) ->
  InvL (fold_left monL_step evs m) st' /\ l_ok (fold_left monL_step evs m) = l_ok m.
Proof.
  intros I H. unfold step0 in H.
  destruct (nth_error ps t) as [p|]; [|inversion H; subst; split; [exact I|reflexivity]].
  destruct (nth_error (thrs st) t) as [th|] eqn:Ht; [|inversion H; subst; split; [exact I|reflexivity]].
  assert (Hstut : (st, []) = (st', evs) ->
          InvL (fold_left monL_step evs m) st' /\ l_ok (fold_left monL_step evs m) = l_ok m).
  { intro E; inversion E; subst; split; [exact I|reflexivity]. }
  destruct (t_ph th) eqn:Eph.
  - (* PhInit *)
    assert (Hh : held_by th = None) by (unfold held_by; now rewrite Eph).
    assert (Hnd : t_ph th <> PhDone) by (rewrite Eph; discriminate).
    assert (Hres : forall w c tk lost,
      (let '(st1, evs1, r) := resolve st w c (deref st tk) in
       match r with
       | Some s => (set_thr st1 t (set_ph th (PhWait s)), EStart t :: evs1)
       | None => (set_thr st1 t (set_ph th PhDone), EStart t :: evs1 ++ [EResp t lost])
       end) = (st', evs) ->
      InvL (fold_left monL_step evs m) st' /\ l_ok (fold_left monL_step evs m) = l_ok m).
    { intros w c tk lost E. destruct (resolve st w c (deref st tk)) as [[st1 evs1] r] eqn:Er.
      apply resolve_frame in Er as [E1 [E2 E3]]. destruct r as [s|]; inversion E; subst; clear E.
      - cbn [fold_left monL_step]. rewrite E3. split; [|reflexivity].
        eapply frameL'; eauto.
      - cbn [fold_left monL_step]. rewrite fold_left_app, E3. cbn [fold_left]. split; [|reflexivity].
        eapply doneL'; eauto. rewrite Hh. exact E1. }
    destruct p.
    + destruct tk as [| |k]; [ | exact (Hres w c TGarbage RLost H) | exact (Hres w c (TOf k) RLost H) ].
      inversion H; subst; clear H. cbn [fold_left monL_step]. split; [|reflexivity].
      eapply frameL'; eauto.
    + destruct tk as [| |k]; [ | exact (Hres w c TGarbage (RDel false) H) | exact (Hres w c (TOf k) (RDel false) H) ].
      inversion H; subst; clear H. cbn [fold_left monL_step]. split; [|reflexivity].
      eapply doneL'; eauto. now rewrite Hh.
    + unfold sys_done in H. inversion H; subst; clear H. cbn [fold_left]. split; [|reflexivity].
      eapply doneL'; eauto. now rewrite Hh.
    + unfold sys_done in H. cbn [evict fst] in H. inversion H; subst; clear H.
      rewrite fold_left_app, foldL_closed. cbn [fold_left]. split; [|reflexivity].
      eapply doneL'; eauto. now rewrite Hh.
    + unfold sys_done in H. inversion H; subst; clear H. cbn [fold_left]. split; [|reflexivity].
      eapply doneL'; eauto. now rewrite Hh.
    + unfold sys_done in H. cbn [evict fst] in H. inversion H; subst; clear H.
      rewrite fold_left_app, foldL_closed. cbn [fold_left]. split; [|reflexivity].
      eapply doneL'; eauto. now rewrite Hh.
  - (* PhWait *)
    assert (Hh : held_by th = None) by (unfold held_by; now rewrite Eph).
    assert (Hnd : t_ph th <> PhDone) by (rewrite Eph; discriminate).
    destruct p; try (apply Hstut; exact H).
    + destruct (lock_of s (locks st)) eqn:El; [apply Hstut; exact H|].
      inversion H; subst; clear H. cbn [fold_left monL_step].
      match goal with |- InvL ?m' ?st' /\ _ =>
        destruct (acqL m m' st st' t th {| t_ph := PhRun (Some s) body; t_sess := Some s; t_closed := false; t_mint := t_mint th |} s)
          as [I' Hx]; auto end.
      cbn [l_ok]. split; [exact I'|]. rewrite Hx. cbn. now rewrite andb_true_r.
    + destruct (lock_of s (locks st)) eqn:El; [apply Hstut; exact H|].
      inversion H; subst; clear H. cbn [fold_left].
      match goal with |- InvL ?m' ?st' /\ _ =>
        destruct (acqL m m' st st' t th (set_ph th (PhDel s false)) s) as [I' Hx]; auto end.
  - (* PhRun *)
    assert (Hnd : t_ph th <> PhDone) by (rewrite Eph; discriminate).
    destruct rest as [|a rest]; destruct p; try (apply Hstut; exact H).
    + inversion H; subst; clear H. cbn [fold_left]. split; [|reflexivity].
      eapply doneL'; eauto. unfold held_by. rewrite Eph. destruct held; reflexivity.
    + destruct (do_act dttl st t th w c acc ttl a) as [[st1 th1] evs1] eqn:Ea.
      apply do_act_frame in Ea as [E1 [E2 [E3 E4]]]. inversion H; subst; clear H.
      rewrite E4. split; [|reflexivity]. eapply frameL'; eauto.
      unfold held_by. cbn [set_ph t_ph]. now rewrite Eph.
  - (* PhDel *)
    assert (Hnd : t_ph th <> PhDone) by (rewrite Eph; discriminate).
    destruct unlocking; destruct p; try (apply Hstut; exact H).
    + inversion H; subst; clear H. cbn [fold_left]. split; [|reflexivity].
      eapply doneL'; eauto. unfold held_by. now rewrite Eph.
    + destruct (reg_close st w s) as [st1 hit] eqn:Ec. apply reg_close_frame in Ec as [E1 E2].
      inversion H; subst; clear H.
      assert (Ef : fold_left monL_step (if hit then [EClosed s] else []) m = m) by (destruct hit; reflexivity).
      rewrite Ef. split; [|reflexivity]. eapply frameL'; eauto.
      unfold held_by. cbn [set_ph t_ph]. now rewrite Eph.
  - exact (Hstut H).
  Unshelve. all: exact RLost.
Qed.

Lemma step_len0 dttl ps st t st' evs :
  step0 dttl ps st t = (st', evs) -> length (thrs st') = length (thrs st).
Proof.
  unfold step0, sys_done. intro H.
  repeat match type of H with
         | context [match ?x with _ => _ end] => destruct x eqn:?
         end; inversion H; subst; clear H;
  repeat match goal with
         | E : resolve _ _ _ _ = _ |- _ => apply resolve_frame in E as [? [? ?]]
         | E : do_act _ _ _ _ _ _ _ _ _ = _ |- _ => apply do_act_frame in E as [? [? [? ?]]]
         | E : reg_close _ _ _ = _ |- _ => apply reg_close_frame in E as [? ?]
         | E : evict _ _ = _ |- _ => unfold evict in E; inversion E; subst; clear E
         end;
  cbn [set_thr thrs fst evict with_locks]; rewrite ?length_upd; congruence.
Qed.

(* monitors that ignore EUnder do not see the annotation *)
Lemma fold_annot {M} (f : M -> event -> M) st t :
  (forall m u s, f m (EUnder u s) = m) ->
  forall evs m, fold_left f (annotate st t evs) m = fold_left f evs m.
Proof.
  intros Hig. induction evs as [|e evs IH]; intro m; [reflexivity|].
  unfold annotate. cbn [flat_map]. fold (annotate st t evs). rewrite fold_left_app, IH.
  destruct e; cbn [fold_left]; try reflexivity.
  destruct (in_call_other st t s); cbn [fold_left]; [rewrite Hig|]; reflexivity.
Qed.

Lemma step_unfold dttl ps st t st' evs :
  step dttl ps st t = (st', evs) ->
  exists evs0, step0 dttl ps st t = (st', evs0) /\ evs = annotate st t evs0.
Proof.
  unfold step. destruct (step0 dttl ps st t) as [st1 e0]. intro H; inversion H; subst. eauto.
Qed.

Lemma stepL dttl ps m st t st' evs :
  InvL m st -> step dttl ps st t = (st', evs) ->
  InvL (fold_left monL_step evs m) st' /\ l_ok (fold_left monL_step evs m) = l_ok m.
Proof.
  intros I H. apply step_unfold in H as [e0 [H ->]]. rewrite fold_annot by reflexivity.
  eapply stepL0; eauto.
Qed.

Lemma step_len dttl ps st t st' evs :
  step dttl ps st t = (st', evs) -> length (thrs st') = length (thrs st).
Proof. intro H. apply step_unfold in H as [e0 [H _]]. eapply step_len0; eauto. Qed.

Lemma run_len dttl ps sched : forall st st' tr,
  run dttl ps st sched = (st', tr) -> length (thrs st') = length (thrs st).
Proof.
  induction sched as [|t r IH]; intros st st' tr H; cbn [run] in H.
  - inversion H; reflexivity.
  - destruct (step dttl ps st t) as [st1 e1] eqn:E1. destruct (run dttl ps st1 r) as [st2 e2] eqn:E2.
    inversion H; subst. rewrite (IH _ _ _ E2). eapply step_len; eauto.
Qed.

Lemma runL dttl ps sched : forall m st st' tr,
  InvL m st -> run dttl ps st sched = (st', tr) ->
  InvL (fold_left monL_step tr m) st' /\ l_ok (fold_left monL_step tr m) = l_ok m.
Proof.
  induction sched as [|t r IH]; intros m st st' tr I H; cbn [run] in H.
  - inversion H; subst. split; [exact I | reflexivity].
  - destruct (step dttl ps st t) as [st1 e1] eqn:E1. destruct (run dttl ps st1 r) as [st2 e2] eqn:E2.
    inversion H; subst. rewrite fold_left_app.
    destruct (stepL _ _ _ _ _ _ _ I E1) as [I1 O1].
    destruct (IH _ _ _ _ I1 E2) as [I2 O2]. split; [exact I2 | congruence].
Qed.

Lemma nth_init ps t th : nth_error (thrs (init ps)) t = Some th -> th = thr0.
Proof.
  cbn [init thrs]. intro H. apply nth_error_In in H. apply in_map_iff in H as [x [E _]]. auto.
Qed.

Lemma initL ps : InvL monL0 (init ps).
Proof.
  split; cbn [monL0 l_open l_done init locks].
  - intros t s [].
  - intros t th s H Hh. apply nth_init in H; subst. discriminate.
  - intros s t H. discriminate.
  - intros t th _ H. discriminate.
Qed.

(* state-level statements, for every schedule *)
Lemma reach_mutex dttl ps sched st tr :
  run dttl ps (init ps) sched = (st, tr) ->
  forall t1 t2 th1 th2 s,
    nth_error (thrs st) t1 = Some th1 -> nth_error (thrs st) t2 = Some th2 ->
    held_by th1 = Some s -> held_by th2 = Some s -> t1 = t2.
Proof.
  intros H t1 t2 th1 th2 s H1 H2 E1 E2.
  destruct (runL _ _ _ _ _ _ _ (initL ps) H) as [[_ I2 _ _] _].
  pose proof (I2 _ _ _ H1 E1) as A. pose proof (I2 _ _ _ H2 E2) as B. congruence.
Qed.

Lemma reach_lock_has_live_holder dttl ps sched st tr :
  run dttl ps (init ps) sched = (st, tr) ->
  forall s t, In (s, t) (locks st) ->
    exists t' th, nth_error (thrs st) t' = Some th /\ held_by th = Some s /\ t_ph th <> PhDone.
Proof.
  intros H s t Hin.
  destruct (runL _ _ _ _ _ _ _ (initL ps) H) as [[_ _ I3 _] _].
  assert (exists t', lock_of s (locks st) = Some t') as [t' Hl].
  { unfold lock_of. destruct (find (fun p => fst p =? s) (locks st)) as [p|] eqn:E; [eauto|].
    exfalso. eapply find_none in E; eauto. cbn [fst] in E. now rewrite N.eqb_refl in E. }
  destruct (I3 _ _ Hl) as [th [Hn Hh]]. exists t', th. repeat split; auto.
  intro Ep. unfold held_by in Hh. rewrite Ep in Hh. discriminate.
Qed.

Lemma specL_model i : specL i (model i) = true.
Proof.
  unfold specL, model. destruct (run (i_dttl i) (i_progs i) (init (i_progs i)) (i_sched i)) as [st tr] eqn:H.
  cbn [o_trace o_locked].
  destruct (runL _ _ _ _ _ _ _ (initL _) H) as [[_ _ I3 I4] Ok]. rewrite Ok. cbn [monL0 l_ok andb].
  destruct (forallb _ _) eqn:Ea; [|reflexivity].
  destruct (locks st) as [|[s t] ls] eqn:El; [reflexivity|]. exfalso.
  assert (Hl : lock_of s (locks st) = Some t).
  { rewrite El. unfold lock_of. cbn [find fst snd]. now rewrite N.eqb_refl. }
  rewrite El in Hl. destruct (I3 _ _ Hl) as [th [Hn Hh]].
  assert (Hlt : (t < length (i_progs i))%nat).
  { apply run_len in H. cbn [init thrs] in H. rewrite map_length in H. rewrite <- H.
    apply nth_error_Some. congruence. }
  rewrite forallb_forall in Ea. specialize (Ea t). rewrite in_seq in Ea.
  assert (Hd : memn t (l_done (fold_left monL_step tr monL0)) = true) by (apply Ea; lia).
  pose proof (I4 _ _ Hn Hd) as Ep. unfold held_by in Hh. rewrite Ep in Hh. discriminate.
Qed.

(* ---- Close() exactly once; refused while draining ---------------------- *)
Definition sids (es : list entry) : list N := map e_sid es.

Record InvC (m : monC) (st : state) : Prop := {
  C_drain : c_drain m = drain st;
  C_closed : c_closed m = closes st;
  C_nodup : NoDup (closes st);
  C_nodup_e : NoDup (sids (ents st));
  C_live : forall s, In s (sids (ents st)) -> In s (c_opened m) /\ ~ In s (closes st);
  C_fresh : forall s, In s (c_opened m) -> s < next st;
  C_once : forall s, In s (c_opened m) -> In s (sids (ents st)) \/ In s (closes st);
  C_co : forall s, In s (closes st) -> In s (c_opened m) }.

Lemma InvC_ext m st st' :
  InvC m st -> drain st' = drain st -> closes st' = closes st -> ents st' = ents st ->
  next st' = next st -> InvC m st'.
Proof. intros [A B C D E F G K] E1 E2 E3 E4. split; rewrite ?E1, ?E2, ?E3, ?E4; assumption. Qed.

Lemma NoDup_map_filter {A B} (f : A -> B) p (l : list A) :
  NoDup (map f l) -> NoDup (map f (filter p l)).
Proof.
  induction l as [|a l IH]; cbn; intro H; [constructor|]. inversion H; subst.
  destruct (p a); cbn; auto. constructor; auto.
  intro Hin. apply H2. apply in_map_iff in Hin as [x [E Hx]]. apply filter_In in Hx as [Hx _].
  apply in_map_iff. eauto.
Qed.

Lemma NoDup_app' {A} (a b : list A) :
  NoDup a -> NoDup b -> (forall x, In x a -> ~ In x b) -> NoDup (a ++ b).
Proof.
  induction a as [|x a IH]; cbn; intros Ha Hb Hd; [assumption|]. inversion Ha; subst.
  constructor.
  - intro Hin. apply in_app_or in Hin as [Hin|Hin]; [contradiction|]. eapply Hd; eauto.
  - apply IH; auto.
Qed.

Lemma foldC_closed ps gone : forall m,
  NoDup gone -> (forall s, In s gone -> ~ In s (c_closed m) /\ In s (c_opened m)) ->
  fold_left (monC_step ps) (map EClosed gone) m =
  {| c_drain := c_drain m; c_opened := c_opened m; c_closed := rev gone ++ c_closed m; c_ok := c_ok m |}.
Proof.
  induction gone as [|s gone IH]; intros m Hnd Hall; cbn [map fold_left rev app].
  - destruct m; reflexivity.
  - inversion Hnd; subst. rewrite IH; cbn [monC_step c_drain c_opened c_closed c_ok]; auto.
    + destruct (Hall s (or_introl eq_refl)) as [Hc Ho].
      apply memN_false in Hc. apply memN_In in Ho. rewrite Hc, Ho. cbn [negb].
      rewrite !andb_true_r, <- app_assoc. reflexivity.
    + intros s' Hin. destruct (Hall s' (or_intror Hin)) as [Hc Ho]. split; [|exact Ho].
      intros [->|Hc']; contradiction.
Qed.

Lemma evictC ps m st dead :
  InvC m st ->
  InvC (fold_left (monC_step ps) (map EClosed (snd (evict st dead))) m) (fst (evict st dead))
  /\ c_ok (fold_left (monC_step ps) (map EClosed (snd (evict st dead))) m) = c_ok m.
Proof.
  intros [A B C D E F G K]. unfold evict. cbn [fst snd].
  set (gone := map e_sid (filter dead (ents st))).
  assert (Hg : forall s, In s gone -> In s (sids (ents st))).
  { intros s Hin. apply in_map_iff in Hin as [e [Es He]]. apply filter_In in He as [He _].
    apply in_map_iff. eauto. }
  assert (Hnd : NoDup gone) by (apply NoDup_map_filter; exact D).
  rewrite foldC_closed; auto.
  2:{ intros s Hin. rewrite B. destruct (E s (Hg s Hin)); auto. }
  split; [|reflexivity].
  split; cbn [c_drain c_opened c_closed drain closes ents next]; auto.
  - now rewrite B.
  - apply NoDup_app'; auto.
    + apply NoDup_rev; exact Hnd.
    + intros x Hin. apply in_rev in Hin. destruct (E x (Hg x Hin)); auto.
  - apply NoDup_map_filter; exact D.
  - intros s Hin. unfold sids in Hin. apply in_map_iff in Hin as [e [Es He]].
    apply filter_In in He as [He Hdead].
    assert (Hs : In s (sids (ents st))) by (apply in_map_iff; eauto).
    destruct (E s Hs) as [Ho Hc]. split; [exact Ho|].
    intro Hin. apply in_app_or in Hin as [Hin|Hin]; [|contradiction].
    apply in_rev in Hin. unfold gone in Hin. apply in_map_iff in Hin as [e' [Es' He']].
    apply filter_In in He' as [He' Hdead'].
    (* e and e' have the same sid, so they are the same entry by NoDup *)
    assert (e = e').
    { clear - D He He' Es Es'. unfold sids in D. induction (ents st) as [|a l IH]; [contradiction|].
      cbn in D. inversion D; subst. destruct He as [->|He], He' as [->|He']; auto.
      - exfalso. apply H1. apply in_map_iff. exists e'. split; [congruence | assumption].
      - exfalso. apply H1. apply in_map_iff. exists e. split; [congruence | assumption]. }
    subst e'. rewrite Hdead' in Hdead. discriminate.
  - intros s Ho. destruct (G s Ho) as [Hl|Hc].
    + unfold sids in Hl. apply in_map_iff in Hl as [e [Es He]].
      destruct (dead e) eqn:Ed.
      * right. apply in_or_app. left. apply -> in_rev. unfold gone. apply in_map_iff.
        exists e. split; [assumption|]. apply filter_In. auto.
      * left. apply in_map_iff. exists e. split; [assumption|]. apply filter_In. rewrite Ed. auto.
    + right. apply in_or_app. auto.
  - intros s Hin. apply in_app_or in Hin as [Hin|Hin]; [|auto].
    apply in_rev in Hin. destruct (E s (Hg s Hin)); auto.
Qed.

Lemma filter_sid_none s es : ~ In s (sids es) -> filter (fun e' => e_sid e' =? s) es = [].
Proof.
  induction es as [|a l IH]; cbn; intro H; [reflexivity|].
  destruct (e_sid a =? s) eqn:E; [apply N.eqb_eq in E; exfalso; apply H; auto|]. apply IH. tauto.
Qed.

Lemma find_ent_sid w s es e : find_ent w s es = Some e -> In s (sids es).
Proof.
  unfold find_ent. intro H. apply find_some in H as [Hin Hc]. apply andb_true_iff in Hc as [Hc _].
  apply N.eqb_eq in Hc. apply in_map_iff. eauto.
Qed.

Lemma single_gone w s es e :
  NoDup (sids es) -> find_ent w s es = Some e ->
  map e_sid (filter (fun e' => e_sid e' =? s) es) = [s].
Proof.
  induction es as [|a l IH]; cbn [sids map]; intros Hnd H; [discriminate|].
  apply NoDup_cons_iff in Hnd as [Hn1 Hn2]. cbn [filter]. destruct (e_sid a =? s) eqn:E.
  - apply N.eqb_eq in E. cbn [map]. rewrite filter_sid_none; [cbn; congruence|].
    fold (sids l) in Hn1. congruence.
  - apply IH; auto. unfold find_ent in *. cbn [find] in H. rewrite E in H. exact H.
Qed.

Lemma reg_closeC ps m st w s st1 hit :
  InvC m st -> reg_close st w s = (st1, hit) ->
  InvC (fold_left (monC_step ps) (if hit then [EClosed s] else []) m) st1
  /\ c_ok (fold_left (monC_step ps) (if hit then [EClosed s] else []) m) = c_ok m.
Proof.
  intros I H. unfold reg_close in H. destruct (find_ent w s (ents st)) as [e|] eqn:Ef.
  - inversion H; subst; clear H.
    pose proof (evictC ps m st (fun e0 => e_sid e0 =? s) I) as X.
    cbn [evict snd] in X. rewrite (single_gone _ _ _ _ (C_nodup_e _ _ I) Ef) in X. exact X.
  - inversion H; subst. split; [exact I | reflexivity].
Qed.

Lemma resolveC ps m st w c tk st1 evs r :
  InvC m st -> resolve st w c tk = (st1, evs, r) ->
  InvC (fold_left (monC_step ps) evs m) st1 /\ c_ok (fold_left (monC_step ps) evs m) = c_ok m.
Proof.
  intros I H. unfold resolve in H.
  destruct tk as [k|]; [|inversion H; subst; split; [exact I|reflexivity]].
  destruct (negb (beqb (k_aad k) (aad c))); [inversion H; subst; split; [exact I|reflexivity]|].
  destruct (negb (k_w k =? w)); [inversion H; subst; split; [exact I|reflexivity]|].
  destruct (find_ent w (k_sid k) (ents st)) as [e|] eqn:Ef; [|inversion H; subst; split; [exact I|reflexivity]].
  destruct (e_exp e <? now st)%Z.
  - inversion H; subst; clear H.
    pose proof (evictC ps m st (fun e0 => e_sid e0 =? k_sid k) I) as X.
    cbn [evict snd] in X. rewrite (single_gone _ _ _ _ (C_nodup_e _ _ I) Ef) in X. exact X.
  - destruct (negb (beqb (e_key e) (pkey c))); inversion H; subst; split; try exact I; reflexivity.
Qed.

Lemma do_actC dttl ps m st t th w c tk acc ttl body out a st1 th1 evs :
  InvC m st -> nth_error ps t = Some (PReq w c tk acc ttl body out) ->
  do_act dttl st t th w c acc ttl a = (st1, th1, evs) ->
  InvC (fold_left (monC_step ps) evs m) st1 /\ c_ok (fold_left (monC_step ps) evs m) = c_ok m.
Proof.
  intros I Hp H. unfold do_act in H. destruct a.
  - assert (Ib : InvC m (bump st)).
    { destruct I as [A B C D E F G K]. split; cbn [bump drain closes ents next]; auto.
      intros s Hs. specialize (F s Hs). lia. }
    destruct (negb acc); [inversion H; subst; split; [exact Ib|reflexivity]|].
    destruct (match t_sess th with Some _ => negb (t_closed th) | None => false end);
      [inversion H; subst; split; [exact Ib|reflexivity]|].
    destruct (memN w (drain st)) eqn:Ed; [inversion H; subst; split; [exact Ib|reflexivity]|].
    inversion H; subst; clear H. cbn [fold_left monC_step]. rewrite Hp.
    destruct I as [A B C D E F G K].
    assert (Hfresh : ~ In (next st) (c_opened m)) by (intro Hin; specialize (F _ Hin); lia).
    split.
    + split; cbn [c_drain c_opened c_closed drain closes ents next]; auto.
      * unfold sids. rewrite map_app. cbn [map e_sid]. apply NoDup_app'; auto.
        -- constructor; [intros []|constructor].
        -- intros x Hx [<-|[]]. apply Hfresh. apply E. exact Hx.
      * intros s Hs. unfold sids in Hs. rewrite map_app in Hs. apply in_app_or in Hs as [Hs|Hs].
        -- destruct (E s Hs). split; [right|]; assumption.
        -- cbn in Hs. destruct Hs as [<-|[]]. split; [left; reflexivity|].
           intro Hc. apply Hfresh. apply K. exact Hc.
      * intros s [<-|Hs]; [lia|]. specialize (F s Hs). lia.
      * intros s [<-|Hs].
        -- left. unfold sids. rewrite map_app. apply in_or_app. right. left. reflexivity.
        -- destruct (G s Hs) as [Hl|Hc]; [left|right; exact Hc].
           unfold sids. rewrite map_app. apply in_or_app. left. exact Hl.
      * intros s Hs. right. apply K. exact Hs.
    + cbn [c_ok]. rewrite A, Ed. apply memN_false in Hfresh. rewrite Hfresh. cbn. now rewrite andb_true_r.
  - destruct (t_sess th) as [s|]; [|inversion H; subst; split; [exact I|reflexivity]].
    destruct (reg_close st w s) as [st2 hit] eqn:Ec. inversion H; subst; clear H.
    rewrite fold_left_app. cbn [fold_left].
    destruct (reg_closeC ps m _ _ _ _ _ I Ec) as [I2 O2]. split; [exact I2 | exact O2].
Qed.

Lemma respC_noop ps m t r p :
  nth_error ps t = Some p -> (forall w b, p <> PDrain w b) -> monC_step ps m (EResp t r) = m.
Proof. intros Hp Hn. cbn [monC_step]. rewrite Hp. destruct p; try reflexivity. exfalso; eapply Hn; eauto. Qed.

Lemma stepC0 dttl ps m st t st' evs :
  InvC m st -> step0 dttl ps st t = (st', evs) ->
  InvC (fold_left (monC_step ps) evs m) st' /\ c_ok (fold_left (monC_step ps) evs m) = c_ok m.
Proof.
  intros I H. unfold step0 in H.
  destruct (nth_error ps t) as [p|] eqn:Hp; [|inversion H; subst; split; [exact I|reflexivity]].
  destruct (nth_error (thrs st) t) as [th|] eqn:Ht; [|inversion H; subst; split; [exact I|reflexivity]].
  assert (Hstut : (st, []) = (st', evs) ->
          InvC (fold_left (monC_step ps) evs m) st' /\ c_ok (fold_left (monC_step ps) evs m) = c_ok m).
  { intro E; inversion E; subst; split; [exact I|reflexivity]. }
  assert (Hthr : forall m0 st0 u thu, InvC m0 st0 -> InvC m0 (set_thr st0 u thu)).
  { intros. eapply InvC_ext; eauto. }
  assert (Hlk : forall m0 st0 ls, InvC m0 st0 -> InvC m0 (with_locks st0 ls)).
  { intros. eapply InvC_ext; eauto. }
  destruct (t_ph th) eqn:Eph.
  - (* PhInit *)
    assert (Hres : forall w c tk lost, (forall w' b, p <> PDrain w' b) ->
      (let '(st1, evs1, r) := resolve st w c (deref st tk) in
       match r with
       | Some s => (set_thr st1 t (set_ph th (PhWait s)), EStart t :: evs1)
       | None => (set_thr st1 t (set_ph th PhDone), EStart t :: evs1 ++ [EResp t lost])
       end) = (st', evs) ->
      InvC (fold_left (monC_step ps) evs m) st' /\ c_ok (fold_left (monC_step ps) evs m) = c_ok m).
    { intros w c tk lost Hnd E. destruct (resolve st w c (deref st tk)) as [[st1 evs1] r] eqn:Er.
      destruct (resolveC ps m _ _ _ _ _ _ _ I Er) as [I1 O1].
      destruct r as [s|]; inversion E; subst; clear E; cbn [fold_left]; change (monC_step ps m (EStart t)) with m.
      - split; [apply Hthr; exact I1 | exact O1].
      - rewrite fold_left_app. cbn [fold_left]. rewrite (respC_noop _ _ _ _ _ Hp Hnd).
        split; [apply Hthr; exact I1 | exact O1]. }
    destruct p.
    + destruct tk as [| |k];
        [ | refine (Hres w c TGarbage RLost _ H); intros; discriminate
          | refine (Hres w c (TOf k) RLost _ H); intros; discriminate ].
      inversion H; subst; clear H. cbn [fold_left monC_step]. split; [apply Hthr; exact I | reflexivity].
    + destruct tk as [| |k];
        [ | refine (Hres w c TGarbage (RDel false) _ H); intros; discriminate
          | refine (Hres w c (TOf k) (RDel false) _ H); intros; discriminate ].
      inversion H; subst; clear H. cbn [fold_left]. change (monC_step ps m (EStart t)) with m.
      rewrite (respC_noop _ _ _ _ _ Hp) by (intros; discriminate).
      split; [apply Hthr; exact I | reflexivity].
    + unfold sys_done in H. inversion H; subst; clear H. cbn [fold_left].
      rewrite (respC_noop _ _ _ _ _ Hp) by (intros; discriminate).
      split; [|reflexivity]. apply Hthr. eapply InvC_ext; eauto.
    + unfold sys_done in H.
      pose proof (evictC ps m st (fun e => (e_w e =? w) && (e_exp e <? now st)%Z) I) as [I1 O1].
      destruct (evict st _) as [st1 gone] eqn:Ee. cbn [fst snd] in *. inversion H; subst; clear H.
      rewrite fold_left_app. cbn [fold_left]. rewrite (respC_noop _ _ _ _ _ Hp) by (intros; discriminate).
      split; [apply Hthr; exact I1 | exact O1].
    + unfold sys_done in H. inversion H; subst; clear H. cbn [fold_left monC_step]. rewrite Hp.
      split; [|reflexivity]. apply Hthr. destruct I as [A B C D E F G K].
      split; cbn [c_drain c_opened c_closed drain closes ents next]; auto. now rewrite A.
    + unfold sys_done in H.
      pose proof (evictC ps m st (fun e => e_w e =? w) I) as [I1 O1].
      destruct (evict st _) as [st1 gone] eqn:Ee. cbn [fst snd] in *. inversion H; subst; clear H.
      rewrite fold_left_app. cbn [fold_left]. rewrite (respC_noop _ _ _ _ _ Hp) by (intros; discriminate).
      split; [apply Hthr; exact I1 | exact O1].
  - (* PhWait *)
    destruct p; try (exact (Hstut H)); destruct (lock_of s (locks st)); try (exact (Hstut H));
      inversion H; subst; clear H; cbn [fold_left monC_step];
      (split; [apply Hthr; apply Hlk; exact I | reflexivity]).
  - (* PhRun *)
    destruct rest as [|a rest]; destruct p; try (exact (Hstut H)).
    + inversion H; subst; clear H. cbn [fold_left]. rewrite (respC_noop _ _ _ _ _ Hp) by (intros; discriminate).
      split; [apply Hthr; apply Hlk; exact I | reflexivity].
    + destruct (do_act dttl st t th w c acc ttl a) as [[st1 th1] evs1] eqn:Ea.
      destruct (do_actC _ _ m _ _ _ _ _ _ _ _ _ _ _ _ _ _ I Hp Ea) as [I1 O1].
      inversion H; subst; clear H. split; [apply Hthr; exact I1 | exact O1].
  - (* PhDel *)
    destruct unlocking; destruct p; try (exact (Hstut H)).
    + inversion H; subst; clear H. cbn [fold_left]. rewrite (respC_noop _ _ _ _ _ Hp) by (intros; discriminate).
      split; [apply Hthr; apply Hlk; exact I | reflexivity].
    + destruct (reg_close st w s) as [st1 hit] eqn:Ec.
      destruct (reg_closeC ps m _ _ _ _ _ I Ec) as [I1 O1].
      inversion H; subst; clear H. split; [apply Hthr; exact I1 | exact O1].
  - exact (Hstut H).
Qed.

Lemma stepC dttl ps m st t st' evs :
  InvC m st -> step dttl ps st t = (st', evs) ->
  InvC (fold_left (monC_step ps) evs m) st' /\ c_ok (fold_left (monC_step ps) evs m) = c_ok m.
Proof.
  intros I H. apply step_unfold in H as [e0 [H ->]]. rewrite fold_annot by reflexivity.
  eapply stepC0; eauto.
Qed.

Lemma runC dttl ps sched : forall m st st' tr,
  InvC m st -> run dttl ps st sched = (st', tr) ->
  InvC (fold_left (monC_step ps) tr m) st' /\ c_ok (fold_left (monC_step ps) tr m) = c_ok m.
Proof.
  induction sched as [|t r IH]; intros m st st' tr I H; cbn [run] in H.
  - inversion H; subst. split; [exact I | reflexivity].
  - destruct (step dttl ps st t) as [st1 e1] eqn:E1. destruct (run dttl ps st1 r) as [st2 e2] eqn:E2.
    inversion H; subst. rewrite fold_left_app.
    destruct (stepC _ _ _ _ _ _ _ I E1) as [I1 O1].
    destruct (IH _ _ _ _ I1 E2) as [I2 O2]. split; [exact I2 | congruence].
Qed.

Lemma initC ps : InvC monC0 (init ps).
Proof.
  split; cbn [monC0 c_drain c_opened c_closed init drain closes ents next sids map]; auto;
    try constructor; intros s []; contradiction.
Qed.

Lemma specC_model i : specC i (model i) = true.
Proof.
  unfold specC, model. destruct (run (i_dttl i) (i_progs i) (init (i_progs i)) (i_sched i)) as [st tr] eqn:H.
  cbn [o_trace]. destruct (runC _ _ _ _ _ _ _ (initC _) H) as [_ Ok]. rewrite Ok. reflexivity.
Qed.

(* sessions opened / Close() calls, read off a trace *)
Definition opened_in (tr : list event) : list N :=
  flat_map (fun e => match e with EAct _ (AOpened s) => [s] | _ => [] end) tr.
Definition closed_in (tr : list event) : list N :=
  flat_map (fun e => match e with EClosed s => [s] | _ => [] end) tr.

Lemma monC_fields ps tr : forall m,
  c_opened (fold_left (monC_step ps) tr m) = rev (opened_in tr) ++ c_opened m /\
  c_closed (fold_left (monC_step ps) tr m) = rev (closed_in tr) ++ c_closed m.
Proof.
  induction tr as [|e tr IH]; intro m; cbn [fold_left opened_in closed_in flat_map rev app]; [auto|].
  fold (opened_in tr). fold (closed_in tr). destruct (IH (monC_step ps m e)) as [A B]. rewrite A, B.
  destruct e as [t|t s b|t a|s|t s|t r]; cbn [monC_step app rev].
  - auto.
  - auto.
  - destruct a; cbn [c_opened c_closed app rev]; auto.
    rewrite <- ?app_assoc; auto.
  - cbn [c_opened c_closed]. rewrite <- ?app_assoc; auto.
  - auto.
  - destruct (nth_error ps t) as [[]|]; auto.
Qed.

Lemma close_once dttl ps sched st tr :
  run dttl ps (init ps) sched = (st, tr) ->
  NoDup (closed_in tr)
  /\ (forall s, In s (closed_in tr) -> In s (opened_in tr))
  /\ (forall s, In s (opened_in tr) ->
        (In s (sids (ents st)) /\ ~ In s (closed_in tr)) \/ (~ In s (sids (ents st)) /\ In s (closed_in tr))).
Proof.
  intro H. destruct (runC _ _ _ _ _ _ _ (initC ps) H) as [[A B C D E F G K] _].
  destruct (monC_fields ps tr monC0) as [Eo Ec]. cbn [monC0 c_opened c_closed] in Eo, Ec.
  rewrite app_nil_r in Eo, Ec. rewrite Eo in *. rewrite Ec in B.
  assert (Hc : forall s, In s (closed_in tr) <-> In s (closes st)).
  { intro s. rewrite <- B, <- in_rev. tauto. }
  repeat split.
  - apply NoDup_rev in C. rewrite <- B, rev_involutive in C. exact C.
  - intros s Hs. apply Hc in Hs. apply K in Hs. now apply in_rev in Hs.
  - intros s Hs. apply in_rev in Hs. destruct (G s Hs) as [Hl|Hcl].
    + left. split; [exact Hl|]. rewrite Hc. apply (E s Hl).
    + right. split; [|now apply Hc]. intro Hl. now apply (E s Hl).
Qed.

(* no session is ever opened on a draining worker *)
Lemma do_act_draining dttl st t th w c acc ttl st1 th1 evs s :
  do_act dttl st t th w c acc ttl HOpen = (st1, th1, evs) -> In (EAct t (AOpened s)) evs ->
  memN w (drain st) = false.
Proof.
  unfold do_act. intros H Hin.
  destruct (negb acc); [inversion H; subst; destruct Hin as [E|[]]; discriminate|].
  destruct (match t_sess th with Some _ => negb (t_closed th) | None => false end);
    [inversion H; subst; destruct Hin as [E|[]]; discriminate|].
  destruct (memN w (drain st)); [inversion H; subst; destruct Hin as [E|[]]; discriminate | reflexivity].
Qed.

(* ---- isolation ---------------------------------------------------------- *)
(* the AAD encoding separates callers (domains are NUL-free) *)
Lemma nul_split (d d' p p' : bytes) :
  memN 0 d = false -> memN 0 d' = false -> d ++ 0 :: p = d' ++ 0 :: p' -> d = d' /\ p = p'.
Proof.
  revert d'. induction d as [|x d IH]; intros [|y d'] Hd Hd' E; cbn in *.
  - inversion E; auto.
  - inversion E; subst. cbn in Hd'. discriminate.
  - inversion E; subst. cbn in Hd. discriminate.
  - inversion E; subst. apply orb_false_iff in Hd as [_ Hd]. apply orb_false_iff in Hd' as [_ Hd'].
    destruct (IH d' Hd Hd' H1) as [-> ->]. auto.
Qed.

Lemma aad_inj c c' : dom_ok c = true -> dom_ok c' = true -> aad c = aad c' -> c = c'.
Proof.
  destruct c as [|d p], c' as [|d' p']; cbn [aad dom_ok]; intros Hd Hd' E.
  - reflexivity.
  - exfalso. apply (f_equal (fun l => nth (length c29_aad_auth_pre - 1) l 2)) in E. vm_compute in E. discriminate.
  - exfalso. apply (f_equal (fun l => nth (length c29_aad_auth_pre - 1) l 2)) in E. vm_compute in E. discriminate.
  - apply app_inv_head in E. apply negb_true_iff in Hd, Hd'.
    change c29_aad_sep with [0] in E. cbn [app] in E.
    destruct (nul_split _ _ _ _ Hd Hd' E) as [-> ->]. reflexivity.
Qed.

Lemma resolve_none st w c : resolve st w c None = (st, [], None).
Proof. reflexivity. Qed.

Lemma resolve_found st w c tok st1 evs s :
  resolve st w c (Some tok) = (st1, evs, Some s) ->
  st1 = st /\ evs = [] /\ s = k_sid tok /\ k_w tok = w /\ k_aad tok = aad c /\
  exists e, In e (ents st) /\ e_sid e = s /\ e_w e = w /\ e_key e = pkey c /\ (now st <= e_exp e)%Z.
Proof.
  unfold resolve. intro H.
  destruct (beqb (k_aad tok) (aad c)) eqn:Ea; cbn [negb] in H; [|discriminate].
  destruct (k_w tok =? w) eqn:Ew; cbn [negb] in H; [|discriminate].
  destruct (find_ent w (k_sid tok) (ents st)) as [e|] eqn:Ef; [|discriminate].
  destruct (e_exp e <? now st)%Z eqn:Ex; [discriminate|].
  destruct (beqb (e_key e) (pkey c)) eqn:Ek; cbn [negb] in H; [|discriminate].
  inversion H; subst. apply beqb_eq in Ea, Ek. apply N.eqb_eq in Ew.
  unfold find_ent in Ef. apply find_some in Ef as [Hin Hc]. apply andb_true_iff in Hc as [H1 H2].
  apply N.eqb_eq in H1, H2. repeat split; auto. exists e. repeat split; auto. lia.
Qed.

(* every token in circulation was sealed for the request that opened the session *)
Definition InvT (ps : list prog) (st : state) : Prop :=
  forall t th tok, nth_error (thrs st) t = Some th -> t_mint th = Some tok ->
    exists w c tk acc ttl body out,
      nth_error ps t = Some (PReq w c tk acc ttl body out) /\ k_w tok = w /\ k_aad tok = aad c.

Lemma InvT_upd ps st st' t th th' :
  InvT ps st -> nth_error (thrs st) t = Some th -> thrs st' = upd (thrs st) t th' ->
  (t_mint th' = t_mint th \/
   exists w c tk acc ttl body out s, nth_error ps t = Some (PReq w c tk acc ttl body out) /\
      t_mint th' = Some {| k_w := w; k_sid := s; k_aad := aad c |}) ->
  InvT ps st'.
Proof.
  intros I Ht Et Hm u thu tok Hu Hk. rewrite Et in Hu. destruct (Nat.eq_dec u t) as [->|Hne].
  - rewrite (nth_upd_same _ _ _ _ Ht) in Hu. inversion Hu; subst thu.
    destruct Hm as [Hm | (w & c & tk & acc & ttl & body & out & s & Hp & Hm)].
    + rewrite Hm in Hk. eauto.
    + rewrite Hm in Hk. inversion Hk; subst. exists w, c, tk, acc, ttl, body, out. auto.
  - rewrite nth_upd_other in Hu by assumption. eauto.
Qed.

Lemma do_act_mint dttl st t th w c acc ttl a st1 th1 evs :
  do_act dttl st t th w c acc ttl a = (st1, th1, evs) ->
  t_mint th1 = t_mint th \/ exists s, t_mint th1 = Some {| k_w := w; k_sid := s; k_aad := aad c |}.
Proof.
  unfold do_act. intro H. destruct a.
  - repeat match type of H with context [if ?x then _ else _] => destruct x end;
      inversion H; subst; cbn [t_mint]; eauto.
  - destruct (t_sess th); [destruct (reg_close st w n)|]; inversion H; subst; cbn [t_mint]; auto.
Qed.

Lemma stepT0 dttl ps st t st' evs : InvT ps st -> step0 dttl ps st t = (st', evs) -> InvT ps st'.
Proof.
  intros I H. unfold step0, sys_done in H.
  destruct (nth_error ps t) as [p|] eqn:Hp; [|inversion H; subst; exact I].
  destruct (nth_error (thrs st) t) as [th|] eqn:Ht; [|inversion H; subst; exact I].
  repeat match type of H with
         | context [match ?x with _ => _ end] => destruct x eqn:?
         end; inversion H; subst; clear H; try exact I;
  repeat match goal with
         | E : resolve _ _ _ _ = _ |- _ => apply resolve_frame in E as [? [? ?]]
         | E : do_act _ _ _ _ _ _ _ _ _ = _ |- _ =>
             let X := fresh in pose proof (do_act_mint _ _ _ _ _ _ _ _ _ _ _ _ E) as X;
             apply do_act_frame in E as [? [? [? ?]]]
         | E : reg_close _ _ _ = _ |- _ => apply reg_close_frame in E as [? ?]
         | E : evict _ _ = _ |- _ => unfold evict in E; inversion E; subst; clear E
         end;
  (eapply InvT_upd; [exact I | exact Ht | cbn [set_thr thrs fst evict with_locks]; first [reflexivity | (repeat match goal with E : thrs _ = thrs _ |- _ => rewrite E; clear E end); reflexivity] | ]);
  cbn [set_ph t_mint]; auto.
  (* the handler action: th1 comes from do_act *)
  all: match goal with X : _ \/ _ |- _ => destruct X as [Hm|[s0 Hm]] end;
    [left; exact Hm | right; repeat eexists; eauto].
Qed.

Lemma stepT dttl ps st t st' evs : InvT ps st -> step dttl ps st t = (st', evs) -> InvT ps st'.
Proof. intros I H. apply step_unfold in H as [e0 [H _]]. eapply stepT0; eauto. Qed.

Lemma runT dttl ps sched : forall st st' tr,
  InvT ps st -> run dttl ps st sched = (st', tr) -> InvT ps st'.
Proof.
  induction sched as [|t r IH]; intros st st' tr I H; cbn [run] in H.
  - inversion H; subst. exact I.
  - destruct (step dttl ps st t) as [st1 e1] eqn:E1. destruct (run dttl ps st1 r) as [st2 e2] eqn:E2.
    inversion H; subst. eapply IH; [|exact E2]. eapply stepT; eauto.
Qed.

Lemma initT ps : InvT ps (init ps).
Proof. intros t th tok H Hm. apply nth_init in H; subst. discriminate. Qed.

Lemma only_owner dttl ps sched st tr k tok w' c' st1 evs s :
  run dttl ps (init ps) sched = (st, tr) ->
  token_of st k = Some tok ->
  resolve st w' c' (Some tok) = (st1, evs, Some s) ->
  exists w c tk acc ttl body out,
    nth_error ps k = Some (PReq w c tk acc ttl body out) /\ w' = w /\
    (dom_ok c = true -> dom_ok c' = true -> c' = c) /\
    s = k_sid tok /\ ~ In s (closes st) /\
    exists e, In e (ents st) /\ e_sid e = s /\ e_w e = w /\ (now st <= e_exp e)%Z.
Proof.
  intros H Hk Hr. pose proof (runT _ _ _ _ _ _ (initT ps) H) as IT.
  destruct (runC _ _ _ _ _ _ _ (initC ps) H) as [IC _].
  unfold token_of in Hk. destruct (nth_error (thrs st) k) as [th|] eqn:Hn; [|discriminate].
  destruct (t_ph th); try discriminate.
  destruct (IT _ _ _ Hn Hk) as (w & c & tk & acc & ttl & body & out & Hp & Hw & Ha).
  apply resolve_found in Hr as (-> & -> & -> & Hw' & Ha' & e & Hin & Es & Ew & Ek & Ex).
  exists w, c, tk, acc, ttl, body, out. repeat split; auto; try congruence.
  - intros Hd Hd'. apply aad_inj; auto. congruence.
  - apply (C_live _ _ IC). apply in_map_iff. eauto.
  - exists e. repeat split; auto. congruence.
Qed.

(* a request on a draining worker never opens a session: the open step itself *)
Lemma open_refused_while_draining dttl st t th w c acc ttl :
  memN w (drain st) = true ->
  exists a, snd (do_act dttl st t th w c acc ttl HOpen) = [EAct t a] /\ (a = ARefused \/ a = ADraining)
            /\ ents (fst (fst (do_act dttl st t th w c acc ttl HOpen))) = ents st.
Proof.
  intro Hd. unfold do_act. destruct (negb acc); [exists ARefused; auto|].
  destruct (match t_sess th with Some _ => negb (t_closed th) | None => false end); [exists ARefused; auto|].
  rewrite Hd. exists ADraining. auto.
Qed.

Lemma model_meets_spec_LC i : specL i (model i) && specC i (model i) = true.
Proof. now rewrite specL_model, specC_model. Qed.

(* ---- teardown is serialized with calls (monitor X) ---------------------- *)
Lemma combine_seq_nth {A} (l : list A) : forall a u x,
  In (u, x) (combine (seq a (length l)) l) -> (a <= u)%nat /\ nth_error l (u - a) = Some x.
Proof.
  induction l as [|y l IH]; intros a u x H; cbn in H; [contradiction|].
  destruct H as [H|H].
  - inversion H; subst. rewrite Nat.sub_diag. split; [lia | reflexivity].
  - apply IH in H as [H1 H2]. split; [lia|].
    replace (u - a)%nat with (S (u - S a)) by lia. exact H2.
Qed.

Lemma in_call_other_true st t s :
  in_call_other st t s = true ->
  exists u th rest, u <> t /\ nth_error (thrs st) u = Some th /\ t_ph th = PhRun (Some s) rest.
Proof.
  unfold in_call_other. intro H. apply existsb_exists in H as [[u th] [Hin Hc]].
  cbn [fst snd] in Hc. apply andb_true_iff in Hc as [Hne Hp].
  apply combine_seq_nth in Hin as [_ Hn]. rewrite Nat.sub_0_r in Hn.
  destruct (t_ph th) as [| |[s'|] rest| |] eqn:Ep; try discriminate.
  apply N.eqb_eq in Hp; subst s'. exists u, th, rest. repeat split; auto.
  intros ->. now rewrite Nat.eqb_refl in Hne.
Qed.

(* a delete that holds the lock of s is alone on s: nobody is inside a handler on s *)
Lemma del_holder_alone mL st t th s u :
  InvL mL st -> nth_error (thrs st) t = Some th -> t_ph th = PhDel s u ->
  in_call_other st t s = false.
Proof.
  intros I Ht Ep. destruct (in_call_other st t s) eqn:E; [|reflexivity]. exfalso.
  apply in_call_other_true in E as (u' & th' & rest & Hne & Hn & Ep').
  assert (A : lock_of s (locks st) = Some t) by (eapply (L_held _ _ I); eauto; unfold held_by; now rewrite Ep).
  assert (B : lock_of s (locks st) = Some u') by (eapply (L_held _ _ I); eauto; unfold held_by; now rewrite Ep').
  congruence.
Qed.

Definition is_under (e : event) : bool := match e with EUnder _ _ => true | _ => false end.

Lemma annot_under st t e0 u s :
  existsb is_under e0 = false -> In (EUnder u s) (annotate st t e0) -> u = t.
Proof.
  induction e0 as [|e e0 IH]; cbn [existsb annotate flat_map]; intros Hn Hin; [contradiction|].
  apply orb_false_iff in Hn as [He Hn]. apply in_app_or in Hin as [Hin|Hin]; [|eauto].
  destruct e; cbn in He; try discriminate; cbn in Hin;
    try (destruct Hin as [Hin|[]]; discriminate).
  destruct (in_call_other st t s0); cbn in Hin.
  - destruct Hin as [Hin|[Hin|[]]]; [discriminate | inversion Hin; reflexivity].
  - destruct Hin as [Hin|[]]; discriminate.
Qed.

Lemma foldX_quiet ps evs : forall m,
  x_sus m = [] ->
  (forall u s, In (EUnder u s) evs -> forall w c tk, nth_error ps u <> Some (PDelete w c tk)) ->
  x_sus (fold_left (monX_step ps) evs m) = [] /\ x_ok (fold_left (monX_step ps) evs m) = x_ok m.
Proof.
  induction evs as [|e evs IH]; intros m Hs Hq; cbn [fold_left]; [auto|].
  assert (Hm : x_sus (monX_step ps m e) = [] /\ x_ok (monX_step ps m e) = x_ok m).
  { destruct e; cbn [monX_step]; auto.
    - destruct (nth_error ps t) as [[]|] eqn:Ep; auto.
      exfalso. eapply (Hq t s); [left; reflexivity | exact Ep].
    - cbn [x_sus x_ok]. rewrite Hs. cbn. split; [reflexivity|].
      destruct r; try destruct hit; cbn; now rewrite andb_true_r. }
  destruct Hm as [H1 H2]. destruct (IH (monX_step ps m e) H1) as [A B].
  - intros u s Hin. apply (Hq u s). right; exact Hin.
  - split; [exact A | congruence].
Qed.

Lemma resolve_evs st w c tk st1 evs r :
  resolve st w c tk = (st1, evs, r) ->
  (evs = [] \/ exists s, evs = [EClosed s] /\ r = None) /\ (r <> None -> evs = []).
Proof.
  unfold resolve. intro H.
  repeat match type of H with
         | context [match ?x with _ => _ end] => destruct x
         | context [if ?x then _ else _] => destruct x
         end; inversion H; subst; split; eauto; try (intros _; reflexivity); intro X; now elim X.
Qed.

Lemma do_act_no_under dttl st t th w c acc ttl a st1 th1 evs :
  do_act dttl st t th w c acc ttl a = (st1, th1, evs) -> existsb is_under evs = false.
Proof.
  unfold do_act. intro H. destruct a.
  - repeat match type of H with context [if ?x then _ else _] => destruct x end;
      inversion H; subst; reflexivity.
  - destruct (t_sess th); [destruct (reg_close st w n) as [? []]|]; inversion H; subst; reflexivity.
Qed.

Lemma existsb_under_closed l : existsb is_under (map EClosed l) = false.
Proof. induction l; cbn; auto. Qed.

Lemma step0_no_under dttl ps st t st' e0 :
  step0 dttl ps st t = (st', e0) -> existsb is_under e0 = false.
Proof.
  unfold step0, sys_done. intro H.
  repeat match type of H with
         | context [match ?x with _ => _ end] => destruct x eqn:?
         end; inversion H; subst; clear H;
  repeat match goal with
         | E : resolve _ _ _ _ = _ |- _ => apply resolve_evs in E as [[->|[? [-> ?]]] _]
         | E : do_act _ _ _ _ _ _ _ _ _ = _ |- _ => apply do_act_no_under in E
         end;
  rewrite ?existsb_app, ?existsb_under_closed; cbn [existsb is_under orb app]; auto.
Qed.

Lemma stepX dttl ps mL m st t st' evs :
  InvL mL st -> x_sus m = [] -> step dttl ps st t = (st', evs) ->
  x_sus (fold_left (monX_step ps) evs m) = [] /\ x_ok (fold_left (monX_step ps) evs m) = x_ok m.
Proof.
  intros I Hs H. apply step_unfold in H as [e0 [H ->]].
  pose proof (step0_no_under _ _ _ _ _ _ H) as Hnu.
  destruct (nth_error ps t) as [p|] eqn:Hp.
  2:{ apply foldX_quiet; auto. intros u s Hin w c tk. apply (annot_under _ _ _ _ _ Hnu) in Hin. subst. congruence. }
  destruct p as [w c tk acc ttl body out|w c tk| | | |];
    try (apply foldX_quiet; auto; intros u s Hin w' c' tk'; apply (annot_under _ _ _ _ _ Hnu) in Hin; subst; congruence).
  (* a delete *)
  unfold step0 in H. rewrite Hp in H.
  destruct (nth_error (thrs st) t) as [th|] eqn:Ht; [|inversion H; subst; cbn; auto].
  destruct (t_ph th) eqn:Eph.
  - assert (Hres : forall tk0,
      (let '(st1, evs1, r) := resolve st w c (deref st tk0) in
       match r with
       | Some s => (set_thr st1 t (set_ph th (PhWait s)), EStart t :: evs1)
       | None => (set_thr st1 t (set_ph th PhDone), EStart t :: evs1 ++ [EResp t (RDel false)])
       end) = (st', e0) ->
      x_sus (fold_left (monX_step ps) (annotate st t e0) m) = [] /\
      x_ok (fold_left (monX_step ps) (annotate st t e0) m) = x_ok m).
    { intros tk0 E. destruct (resolve st w c (deref st tk0)) as [[st1 evs1] r] eqn:Er.
      apply resolve_evs in Er as [Hev Hfound]. destruct r as [s|].
      - rewrite Hfound in E by discriminate. inversion E; subst. cbn. auto.
      - destruct Hev as [->|[s [-> _]]]; inversion E; subst; cbn [app annotate flat_map].
        + cbn. rewrite Hs. cbn. now rewrite andb_true_r.
        + destruct (in_call_other st t s); cbn [app fold_left monX_step]; rewrite ?Hp;
            cbn [x_sus x_ok filter]; rewrite ?Hs; cbn; rewrite ?Nat.eqb_refl; cbn;
            now rewrite andb_true_r. }
    destruct tk as [| |k]; [ | exact (Hres TGarbage H) | exact (Hres (TOf k) H) ].
    inversion H; subst. cbn. rewrite Hs. cbn. now rewrite andb_true_r.
  - destruct (lock_of s (locks st)); inversion H; subst; cbn; auto.
  - destruct rest; inversion H; subst; cbn; auto.
  - destruct unlocking.
    + inversion H; subst. cbn. rewrite Hs. cbn. now rewrite andb_true_r.
    + destruct (reg_close st w s) as [st1 hit]. inversion H; subst.
      destruct hit; cbn [annotate flat_map app]; [|cbn; auto].
      rewrite (del_holder_alone _ _ _ _ _ _ I Ht Eph). cbn. auto.
  - inversion H; subst. cbn. auto.
Qed.

Lemma runX dttl ps sched : forall mL m st st' tr,
  InvL mL st -> x_sus m = [] -> run dttl ps st sched = (st', tr) ->
  x_sus (fold_left (monX_step ps) tr m) = [] /\ x_ok (fold_left (monX_step ps) tr m) = x_ok m.
Proof.
  induction sched as [|t r IH]; intros mL m st st' tr I Hs H; cbn [run] in H.
  - inversion H; subst. cbn. auto.
  - destruct (step dttl ps st t) as [st1 e1] eqn:E1. destruct (run dttl ps st1 r) as [st2 e2] eqn:E2.
    inversion H; subst. rewrite fold_left_app.
    destruct (stepX _ _ _ _ _ _ _ _ I Hs E1) as [S1 O1].
    destruct (stepL _ _ _ _ _ _ _ I E1) as [I1 _].
    destruct (IH _ _ _ _ _ I1 S1 E2) as [S2 O2]. split; [exact S2 | congruence].
Qed.

Lemma specX_model i : specX i (model i) = true.
Proof.
  unfold specX, model. destruct (run (i_dttl i) (i_progs i) (init (i_progs i)) (i_sched i)) as [st tr] eqn:H.
  cbn [o_trace]. destruct (runX _ _ _ monL0 monX0 _ _ _ (initL _) eq_refl H) as [_ Ok]. rewrite Ok. reflexivity.
Qed.

(* state form: when a delete is about to run registry.close (it holds the lock),
   no other thread holds the session, and nobody is inside a handler on it *)
Lemma teardown_alone dttl ps sched st tr t th s u :
  run dttl ps (init ps) sched = (st, tr) ->
  nth_error (thrs st) t = Some th -> t_ph th = PhDel s u ->
  in_call_other st t s = false /\
  forall t' th', nth_error (thrs st) t' = Some th' -> held_by th' = Some s -> t' = t.
Proof.
  intros H Ht Ep. destruct (runL _ _ _ _ _ _ _ (initL ps) H) as [I _]. split.
  - eapply del_holder_alone; eauto.
  - intros t' th' Hn Hh. eapply reach_mutex; eauto. unfold held_by. now rewrite Ep.
Qed.

Lemma model_meets_spec_LCX i : specL i (model i) && specC i (model i) && specX i (model i) = true.
Proof. now rewrite specL_model, specC_model, specX_model. Qed.

(* an expired (or absent) session never resolves, for any caller, worker or token *)
Lemma expired_lost st w c tok :
  (forall e, In e (ents st) -> e_sid e = k_sid tok -> (e_exp e < now st)%Z) ->
  snd (resolve st w c (Some tok)) = None.
Proof.
  intro Hexp. unfold resolve.
  destruct (negb (beqb (k_aad tok) (aad c))); [reflexivity|].
  destruct (negb (k_w tok =? w)); [reflexivity|].
  destruct (find_ent w (k_sid tok) (ents st)) as [e|] eqn:Ef; [|reflexivity].
  unfold find_ent in Ef. apply find_some in Ef as [Hin Hc]. apply andb_true_iff in Hc as [H1 _].
  apply N.eqb_eq in H1. specialize (Hexp e Hin H1).
  destruct (e_exp e <? now st)%Z eqn:Ex; [reflexivity | lia].
Qed.
