(* Proofs/C30.v — lemmas and proofs for property C30 (Model/C30.v). *)
From VR Require Import Model.C30.
From Coq Require Import ZArith Lia Bool List Permutation ZifyBool ZifyN.
Import ListNotations.
Local Arguments N.eqb : simpl never.
Local Arguments Z.eqb : simpl never.
Local Arguments Z.ltb : simpl never.
Local Arguments Z.leb : simpl never.
Open Scope N_scope.

(* ---- decidable equalities -------------------------------------------------- *)
Lemma kv_eqb_eq a b : kv_eqb a b = true <-> a = b.
Proof.
  destruct a as [a1 a2], b as [b1 b2]; unfold kv_eqb, pair_eqb; cbn [fst snd].
  rewrite andb_true_iff, !beqb_eq. split; [intros [-> ->]; reflexivity | intros H; inversion H; auto].
Qed.
Lemma meta_eqb_eq a b : meta_eqb a b = true <-> a = b.
Proof. apply list_eqb_eq, kv_eqb_eq. Qed.
Lemma zn_eqb_eq (a b : Z * N) : pair_eqb Z.eqb N.eqb a b = true <-> a = b.
Proof.
  destruct a as [a1 a2], b as [b1 b2]; unfold pair_eqb; cbn [fst snd].
  rewrite andb_true_iff, Z.eqb_eq, N.eqb_eq. split; [intros [-> ->]; reflexivity | intros H; inversion H; auto].
Qed.
Lemma vals_eqb_eq a b : vals_eqb a b = true <-> a = b.
Proof. apply list_eqb_eq, zn_eqb_eq. Qed.
Lemma batch_eqb_eq a b : batch_eqb a b = true <-> a = b.
Proof.
  destruct a as [a1 a2 a3 a4 a5], b as [c1 c2 c3 c4 c5]; unfold batch_eqb; cbn [b_schema b_smeta b_rows b_vals b_meta].
  rewrite !andb_true_iff, beqb_eq, !meta_eqb_eq, N.eqb_eq, vals_eqb_eq.
  split; [intros [[[[-> ->] ->] ->] ->]; reflexivity | intros H; inversion H; auto].
Qed.
Lemma batch_eqb_refl a : batch_eqb a a = true.
Proof. now apply batch_eqb_eq. Qed.
Lemma meta_eqb_refl a : meta_eqb a a = true.
Proof. now apply meta_eqb_eq. Qed.
Lemma existsb_eqb_in r bs : In r bs -> existsb (batch_eqb r) bs = true.
Proof. intro H. apply existsb_exists. exists r. split; [exact H | apply batch_eqb_refl]. Qed.

(* ---- the metadata keys are pairwise distinct (regenerated constants) --------- *)
Lemma k_loc_ne_log : beqb c30_k_location c30_k_log_level = false.
Proof. vm_compute. reflexivity. Qed.
Lemma k_sha_ne_log : beqb c30_k_sha c30_k_log_level = false.
Proof. vm_compute. reflexivity. Qed.
Lemma k_loc_ne_sha : beqb c30_k_location c30_k_sha = false.
Proof. vm_compute. reflexivity. Qed.

Lemma mget_pm_loc url h : mget (pointer_meta url h) c30_k_location = Some url.
Proof. unfold pointer_meta. cbn [mget]. now rewrite beqb_refl. Qed.
Lemma mhas_pm_log url h : mhas (pointer_meta url h) c30_k_log_level = false.
Proof.
  unfold mhas, pointer_meta. cbn [mget]. rewrite k_loc_ne_log.
  destruct h; cbn [mget]; [reflexivity | now rewrite k_sha_ne_log].
Qed.
Lemma is_pointer_pm url h : is_pointer 0 (pointer_meta url h) = true.
Proof.
  unfold is_pointer. rewrite mhas_pm_log. unfold mhas. now rewrite mget_pm_loc.
Qed.
Lemma mget_pm_sha url h :
  mget (pointer_meta url h) c30_k_sha = match h with [] => None | _ => Some h end.
Proof.
  unfold pointer_meta. cbn [mget]. rewrite k_loc_ne_sha.
  destruct h; cbn [mget]; [reflexivity | now rewrite beqb_refl].
Qed.

(* ---- the selection loop, for every fetched list -------------------------------- *)
Definition last_opt {A} (acc : option A) (l : list A) : option A :=
  fold_left (fun _ x => Some x) l acc.

Lemma select_char cl acc bs :
  select_by cl acc bs =
  if has_ptr_by cl bs then inr ELoop
  else match last_opt acc (datas_by cl bs) with Some d => inl d | None => inr ENoData end.
Proof.
  revert acc. induction bs as [|a t IH]; intro acc.
  - cbn. destruct acc; reflexivity.
  - cbn [select_by has_ptr_by datas_by existsb filter]. unfold is_ptr_by, is_data_by.
    destruct (cl a) eqn:E; cbn [cls_eqb orb].
    + apply IH.
    + reflexivity.
    + rewrite IH. reflexivity.
Qed.

Lemma last_opt_app {A} acc (l : list A) x : last_opt acc (l ++ [x]) = Some x.
Proof. unfold last_opt. rewrite fold_left_app. reflexivity. Qed.

Lemma last_opt_none {A} (l : list A) r :
  last_opt None l = Some r -> exists pre, l = pre ++ [r].
Proof.
  destruct l as [|x l] using rev_ind; [discriminate |].
  rewrite last_opt_app. intro H; inversion H; subst. now exists l.
Qed.
Lemma last_opt_nil {A} (l : list A) : last_opt None l = None -> l = [].
Proof. destruct l as [|x l] using rev_ind; [reflexivity | rewrite last_opt_app; discriminate]. Qed.

(* what a successful selection is: no pointer anywhere, and the LAST data batch *)
Lemma select_ok_iff cl bs r :
  select_by cl None bs = inl r <->
  has_ptr_by cl bs = false /\ exists pre, datas_by cl bs = pre ++ [r].
Proof.
  rewrite select_char. destruct (has_ptr_by cl bs).
  - split; [discriminate | intros [H _]; discriminate].
  - split.
    + destruct (last_opt None (datas_by cl bs)) eqn:E; [|discriminate].
      intro H; inversion H; subst. split; [reflexivity | now apply last_opt_none].
    + intros [_ [pre ->]]. now rewrite last_opt_app.
Qed.

Lemma select_sound cl bs r :
  select_by cl None bs = inl r -> In r bs /\ cl r = CData /\ has_ptr_by cl bs = false.
Proof.
  intro H. apply select_ok_iff in H as [Hp [pre Hd]].
  assert (Hin : In r (datas_by cl bs)) by (rewrite Hd; apply in_or_app; right; now left).
  unfold datas_by in Hin. apply filter_In in Hin as [Hin Hc].
  unfold is_data_by in Hc. destruct (cl r); try discriminate. auto.
Qed.

Lemma select_err cl bs :
  has_ptr_by cl bs = true \/ datas_by cl bs = [] ->
  select_by cl None bs = inr (if has_ptr_by cl bs then ELoop else ENoData).
Proof.
  rewrite select_char. intros [H | H].
  - now rewrite H.
  - rewrite H. cbn. now destruct (has_ptr_by cl bs).
Qed.

Lemma select_err_inv cl bs e :
  select_by cl None bs = inr e ->
  (has_ptr_by cl bs = true /\ e = ELoop) \/ (has_ptr_by cl bs = false /\ datas_by cl bs = [] /\ e = ENoData).
Proof.
  rewrite select_char. destruct (has_ptr_by cl bs).
  - intro H; inversion H; auto.
  - destruct (last_opt None (datas_by cl bs)) eqn:E; [discriminate |].
    intro H; inversion H. right. repeat split. now apply last_opt_nil.
Qed.

Lemma select_unique cl bs d :
  has_ptr_by cl bs = false -> datas_by cl bs = [d] -> select_by cl None bs = inl d.
Proof. intros Hp Hd. apply select_ok_iff. split; [exact Hp | now exists []]. Qed.

(* order does not matter as long as there is at most one data batch *)
Lemma perm_filter {A} (f : A -> bool) l l' : Permutation l l' -> Permutation (filter f l) (filter f l').
Proof.
  induction 1; cbn.
  - constructor.
  - destruct (f x); [now constructor | assumption].
  - destruct (f x), (f y); try apply Permutation_refl; apply perm_swap.
  - eapply Permutation_trans; eassumption.
Qed.
Lemma perm_existsb {A} (f : A -> bool) l l' : Permutation l l' -> existsb f l = existsb f l'.
Proof.
  induction 1; cbn.
  - reflexivity.
  - now rewrite IHPermutation.
  - destruct (f x), (f y); reflexivity.
  - congruence.
Qed.
Lemma select_perm cl bs bs' :
  Permutation bs bs' -> (length (datas_by cl bs) <= 1)%nat ->
  select_by cl None bs' = select_by cl None bs.
Proof.
  intros HP Hlen. rewrite !select_char.
  unfold has_ptr_by. rewrite (perm_existsb _ _ _ HP).
  destruct (existsb (is_ptr_by cl) bs'); [reflexivity |].
  pose proof (perm_filter (is_data_by cl) _ _ HP) as HF. fold (datas_by cl bs) (datas_by cl bs') in HF.
  destruct (datas_by cl bs) as [|d [|d2 rest]].
  - apply Permutation_nil in HF. now rewrite HF.
  - apply Permutation_length_1_inv in HF. now rewrite HF.
  - cbn in Hlen. lia.
Qed.

(* ---- the pre-fix classification (schema metadata) ------------------------------ *)
Definition w_data : batch :=
  {| b_schema := str "x:int64"; b_smeta := []; b_rows := 2; b_vals := [(7%Z, 2)]; b_meta := [] |}.
Definition w_log : batch :=
  {| b_schema := str "x:int64"; b_smeta := []; b_rows := 0; b_vals := [];
     b_meta := [(c30_k_log_level, str "INFO")] |}.
Definition w_ptr : batch :=
  {| b_schema := str "x:int64"; b_smeta := []; b_rows := 0; b_vals := [];
     b_meta := [(c30_k_location, str "https://elsewhere/o")] |}.

Lemma legacy_returns_log :
  classify w_data = CData /\ classify w_log = CLog /\
  select_by classify_legacy None [w_data; w_log] = inl w_log /\
  select_by classify None [w_data; w_log] = inl w_data.
Proof. vm_compute. repeat split; reflexivity. Qed.
Lemma legacy_returns_pointer :
  classify w_ptr = CPtr /\
  select_by classify_legacy None [w_data; w_ptr] = inl w_ptr /\
  select_by classify None [w_data; w_ptr] = inr ELoop.
Proof. vm_compute. repeat split; reflexivity. Qed.

(* ---- externalize / resolve over arbitrary codecs -------------------------------- *)
Section Generic.
  Variable wire : Type.
  Variable enc : list batch -> wire.
  Variable dec : wire -> option (list batch).
  Variable comp : wire -> wire.
  Variable decomp : wire -> option wire.
  Variable sha : wire -> bytes.
  Variable framed : wire -> bool.

  Notation externalize := (externalize wire enc comp sha).
  Notation externalize_by := (externalize_by wire enc comp sha).
  Notation resolve := (resolve wire dec decomp sha framed).
  Notation fetch := (fetch wire decomp).
  Notation sha_ok := (sha_ok wire sha).

  Lemma classify_data b :
    b_rows b <> 0 -> mhas (b_meta b) c30_k_log_level = false -> classify b = CData.
  Proof.
    intros Hr Hl. unfold classify, classify_by. rewrite Hl.
    apply N.eqb_neq in Hr. rewrite Hr, andb_false_r. reflexivity.
  Qed.

  Lemma sha_ok_pm url w : sha_ok (pointer_meta url (sha w)) w = true.
  Proof.
    unfold C30.sha_ok. rewrite mget_pm_sha. destruct (sha w) eqn:E; [reflexivity |].
    rewrite <- E. apply beqb_refl.
  Qed.

  (* threshold rule *)
  Lemma ext_inline_by carry c b size side up :
    c_storage c = false \/ b_rows b = 0 \/ (size < threshold c)%Z ->
    externalize_by carry (Some c) b size side up = {| x_batch := b; x_meta := side; x_err := false; x_up := [] |}.
  Proof.
    intros H. unfold C30.externalize_by.
    destruct (c_storage c); cbn [negb]; [|reflexivity].
    destruct (b_rows b =? 0) eqn:Er; [reflexivity |].
    destruct (size <? threshold c)%Z eqn:Es; [reflexivity |].
    destruct H as [H | [H | H]]; [discriminate | apply N.eqb_neq in Er; contradiction | lia].
  Qed.

  Lemma ext_inline c b size side up :
    c_storage c = false \/ b_rows b = 0 \/ (size < threshold c)%Z ->
    externalize (Some c) b size side up = {| x_batch := b; x_meta := side; x_err := false; x_up := [] |}.
  Proof. apply ext_inline_by. Qed.

  Lemma ext_due_by carry c b size side up :
    c_storage c = true -> b_rows b <> 0 -> (threshold c <= size)%Z ->
    externalize_by carry (Some c) b size side up =
      let u := if carry then with_side b side else b in
      if level_bad c then {| x_batch := b; x_meta := side; x_err := true; x_up := [] |}
      else let obj := if zstd_on c then comp (enc [u]) else enc [u] in
           match up with
           | UpFail => {| x_batch := b; x_meta := side; x_err := true; x_up := [(obj, zstd_on c)] |}
           | UpOk url => {| x_batch := pointer_batch b; x_meta := pointer_meta url (sha (enc [u]));
                            x_err := false; x_up := [(obj, zstd_on c)] |}
           end.
  Proof.
    intros Hs Hr Ht. unfold C30.externalize_by. rewrite Hs. cbn [negb].
    apply N.eqb_neq in Hr. rewrite Hr.
    assert (Hlt : (size <? threshold c)%Z = false) by lia. rewrite Hlt. reflexivity.
  Qed.

  Lemma ext_due c b size side up :
    c_storage c = true -> b_rows b <> 0 -> (threshold c <= size)%Z ->
    externalize (Some c) b size side up =
      if level_bad c then {| x_batch := b; x_meta := side; x_err := true; x_up := [] |}
      else let obj := if zstd_on c then comp (enc [with_side b side]) else enc [with_side b side] in
           match up with
           | UpFail => {| x_batch := b; x_meta := side; x_err := true; x_up := [(obj, zstd_on c)] |}
           | UpOk url => {| x_batch := pointer_batch b;
                            x_meta := pointer_meta url (sha (enc [with_side b side]));
                            x_err := false; x_up := [(obj, zstd_on c)] |}
           end.
  Proof. apply (ext_due_by true). Qed.

  Lemma threshold_iff_lemma c b size side up :
    c_storage c = true -> level_bad c = false ->
    (x_up (externalize (Some c) b size side up) <> [] <-> b_rows b <> 0 /\ (threshold c <= size)%Z).
  Proof.
    intros Hs Hl. split.
    - intro H. destruct (N.eq_dec (b_rows b) 0) as [E | E].
      + rewrite ext_inline in H by auto. now contradiction H.
      + split; [exact E |]. destruct (Z_lt_le_dec size (threshold c)) as [L | L]; [|exact L].
        rewrite ext_inline in H by auto. now contradiction H.
    - intros [Hr Ht]. rewrite ext_due by assumption. rewrite Hl. cbn zeta.
      destruct up; cbn [x_up]; discriminate.
  Qed.

  Lemma no_storage_inline c b size side up :
    c = None \/ (exists c', c = Some c' /\ c_storage c' = false) ->
    externalize c b size side up = {| x_batch := b; x_meta := side; x_err := false; x_up := [] |}.
  Proof.
    intros [-> | [c' [-> H]]]; [reflexivity |]. apply ext_inline. now left.
  Qed.

  (* resolution of an accepted pointer, unfolded once *)
  Lemma resolve_pointer c p m srv x u :
    is_pointer (b_rows p) m = true -> mget m c30_k_location = Some (x :: u) ->
    url_ok (c_val c) (x :: u) = true ->
    resolve (Some c) p m srv =
      match fetch srv (x :: u) with
      | None => RErr EFetch
      | Some w =>
          if negb (sha_ok m w) then RErr ESha
          else if negb (framed w) then RErr EParse
          else match dec w with
               | None => RErr EParse
               | Some bs => match select_by classify None bs with
                            | inl r => ROk r (fetch_meta (x :: u))
                            | inr e => RErr e
                            end
               end
      end.
  Proof.
    intros Hp Hl Hu. unfold C30.resolve, resolve_by. rewrite Hp, Hl, Hu. reflexivity.
  Qed.

  Lemma checksum_lemma c p m srv x u w h :
    is_pointer (b_rows p) m = true -> mget m c30_k_location = Some (x :: u) ->
    url_ok (c_val c) (x :: u) = true -> fetch srv (x :: u) = Some w ->
    mget m c30_k_sha = Some h -> sha w <> h ->
    resolve (Some c) p m srv = RErr ESha.
  Proof.
    intros Hp Hl Hu Hf Hs Hne. rewrite (resolve_pointer _ _ _ _ _ _ Hp Hl Hu), Hf.
    unfold C30.sha_ok. rewrite Hs. apply beqb_neq in Hne. now rewrite Hne.
  Qed.

  (* whatever comes back as data is a data batch of the verified, decoded download *)
  Lemma resolve_sound_lemma c p m srv r m' :
    resolve (Some c) p m srv = ROk r m' ->
    exists u w bs,
      is_pointer (b_rows p) m = true /\ mget m c30_k_location = Some u /\ u <> [] /\
      url_ok (c_val c) u = true /\ fetch srv u = Some w /\ sha_ok m w = true /\
      framed w = true /\ dec w = Some bs /\
      In r bs /\ classify r = CData /\ has_ptr_by classify bs = false /\
      (exists pre, datas_by classify bs = pre ++ [r]) /\ m' = fetch_meta u.
  Proof.
    unfold C30.resolve, resolve_by.
    destruct (is_pointer (b_rows p) m) eqn:Hp; cbn [negb]; [|discriminate].
    destruct (mget m c30_k_location) as [[|x u]|] eqn:Hl; try discriminate.
    destruct (url_ok (c_val c) (x :: u)) eqn:Hu; cbn [negb]; [|discriminate].
    destruct (fetch srv (x :: u)) as [w|] eqn:Hf; [|discriminate].
    destruct (sha_ok m w) eqn:Hs; cbn [negb]; [|discriminate].
    destruct (framed w) eqn:Hfr; cbn [negb]; [|discriminate].
    destruct (dec w) as [bs|] eqn:Hd; [|discriminate].
    destruct (select_by classify None bs) as [r'|e] eqn:Hsel; [|discriminate].
    intro H; inversion H; subst r' m'.
    pose proof (select_sound _ _ _ Hsel) as [Hin [Hc Hnp]].
    apply select_ok_iff in Hsel as [_ Hlast].
    exists (x :: u), w, bs. repeat split; auto. discriminate.
  Qed.

  Lemma resolve_error_lemma c p m srv x u w bs :
    is_pointer (b_rows p) m = true -> mget m c30_k_location = Some (x :: u) ->
    url_ok (c_val c) (x :: u) = true -> fetch srv (x :: u) = Some w -> sha_ok m w = true ->
    framed w = true -> dec w = Some bs ->
    has_ptr_by classify bs = true \/ datas_by classify bs = [] ->
    resolve (Some c) p m srv = RErr (if has_ptr_by classify bs then ELoop else ENoData).
  Proof.
    intros Hp Hl Hu Hf Hs Hfr Hd Hbad.
    rewrite (resolve_pointer _ _ _ _ _ _ Hp Hl Hu), Hf, Hs, Hfr, Hd. cbn [negb].
    now rewrite (select_err _ _ Hbad).
  Qed.

  (* an ill-framed download is refused, whatever arrow could still read from it *)
  Lemma ill_framed_lemma c p m srv x u w :
    is_pointer (b_rows p) m = true -> mget m c30_k_location = Some (x :: u) ->
    url_ok (c_val c) (x :: u) = true -> fetch srv (x :: u) = Some w ->
    framed w = false ->
    exists e, resolve (Some c) p m srv = RErr e /\ (e = ESha \/ e = EParse).
  Proof.
    intros Hp Hl Hu Hf Hfr. rewrite (resolve_pointer _ _ _ _ _ _ Hp Hl Hu), Hf, Hfr.
    destruct (sha_ok m w); cbn [negb]; eauto.
  Qed.

  Lemma resolve_passthrough c p m srv :
    c = None \/ is_pointer (b_rows p) m = false -> resolve c p m srv = RPass p m.
  Proof.
    intros [-> | H]; [reflexivity |]. destruct c; [|reflexivity].
    unfold C30.resolve, resolve_by. now rewrite H.
  Qed.

  (* ---- the round trip ---- *)
  Hypothesis dec_enc : forall bs, dec (enc bs) = Some bs.
  Hypothesis decomp_comp : forall w, decomp (comp w) = Some w.
  Hypothesis framed_enc : forall bs, framed (enc bs) = true.

  Lemma roundtrip_lemma c b size side url :
    c_storage c = true -> b_rows b <> 0 -> (threshold c <= size)%Z -> level_bad c = false ->
    url <> [] -> url_ok (c_val c) url = true -> mhas (b_meta b ++ side) c30_k_log_level = false ->
    let x := externalize (Some c) b size side (UpOk url) in
    let obj := if zstd_on c then comp (enc [with_side b side]) else enc [with_side b side] in
    x_err x = false /\ x_batch x = pointer_batch b /\ x_up x = [(obj, zstd_on c)] /\
    mget (x_meta x) c30_k_location = Some url /\
    resolve (Some c) (x_batch x) (x_meta x) (Some (Build_served url obj (zstd_on c)))
      = ROk (with_side b side) (fetch_meta url).
  Proof.
    intros Hs Hr Ht Hl Hu Hv Hlog x obj. subst x.
    rewrite ext_due by assumption. rewrite Hl. cbn zeta. cbn [x_err x_batch x_up x_meta].
    split; [reflexivity |]. split; [reflexivity |]. split; [reflexivity |]. split; [apply mget_pm_loc |].
    destruct url as [|c0 u]; [contradiction |].
    rewrite (resolve_pointer c (pointer_batch b) _ _ c0 u (is_pointer_pm _ _) (mget_pm_loc _ _) Hv).
    assert (Hf : fetch (Some (Build_served (c0 :: u) obj (zstd_on c))) (c0 :: u) = Some (enc [with_side b side])).
    { unfold C30.fetch. cbn [s_url s_obj s_z]. rewrite beqb_refl. subst obj.
      destruct (zstd_on c); [apply decomp_comp | reflexivity]. }
    rewrite Hf, sha_ok_pm, framed_enc, dec_enc. cbn [negb select_by].
    rewrite (classify_data (with_side b side) Hr Hlog). reflexivity.
  Qed.

  (* resolving the pointer of a batch against the object made from that batch *)
  Lemma resolve_own_upload (c : cfg) (b : batch) (x : N) (u : bytes) (z : bool) :
    b_rows b <> 0 -> mhas (b_meta b) c30_k_log_level = false -> url_ok (c_val c) (x :: u) = true ->
    resolve (Some c) (pointer_batch b) (pointer_meta (x :: u) (sha (enc [b])))
            (Some (Build_served (x :: u) (if z then comp (enc [b]) else enc [b]) z))
      = ROk b (fetch_meta (x :: u)).
  Proof.
    intros Hr Hlog Hv.
    rewrite (resolve_pointer c (pointer_batch b) _ _ x u (is_pointer_pm _ _) (mget_pm_loc _ _) Hv).
    assert (Hf : fetch (Some (Build_served (x :: u) (if z then comp (enc [b]) else enc [b]) z)) (x :: u)
                 = Some (enc [b])).
    { unfold C30.fetch. cbn [s_url s_obj s_z]. rewrite beqb_refl.
      destruct z; [apply decomp_comp | reflexivity]. }
    rewrite Hf, sha_ok_pm, framed_enc, dec_enc. cbn [negb select_by].
    rewrite (classify_data b Hr Hlog). reflexivity.
  Qed.

  (* tampering: with an injective digest any other download is refused *)
  Lemma tamper_lemma c b size side url srv w :
    (forall a a', sha a = sha a' -> a = a') -> sha (enc [with_side b side]) <> [] ->
    c_storage c = true -> b_rows b <> 0 -> (threshold c <= size)%Z -> level_bad c = false ->
    url <> [] -> url_ok (c_val c) url = true ->
    fetch srv url = Some w -> w <> enc [with_side b side] ->
    let x := externalize (Some c) b size side (UpOk url) in
    resolve (Some c) (x_batch x) (x_meta x) srv = RErr ESha.
  Proof.
    intros Hinj Hne Hs Hr Ht Hl Hu Hv Hf Hw x. subst x.
    rewrite ext_due by assumption. rewrite Hl. cbn zeta. cbn [x_batch x_meta].
    destruct url as [|c0 u]; [contradiction |].
    eapply (checksum_lemma c (pointer_batch b) _ srv c0 u w (sha (enc [with_side b side]))
              (is_pointer_pm _ _) (mget_pm_loc _ _) Hv Hf).
    - rewrite mget_pm_sha. destruct (sha (enc [with_side b side])) eqn:E; [contradiction | reflexivity].
    - intro E. apply Hinj in E. contradiction.
  Qed.
End Generic.

(* ---- the symbolic codec meets the oracle premises ------------------------------- *)
Lemma sdec_enc bs : sdec (SIpc bs) = Some bs.
Proof. reflexivity. Qed.
Lemma sdecomp_comp w : sdecomp (SZ w) = Some w.
Proof. reflexivity. Qed.
Lemma sframed_enc bs : sframed (SIpc bs) = true.
Proof. reflexivity. Qed.

Lemma batches_eqb_refl bs : list_eqb batch_eqb bs bs = true.
Proof. apply list_eqb_eq; [apply batch_eqb_eq | reflexivity]. Qed.
Lemma swire_eqb_refl w : swire_eqb w w = true.
Proof.
  induction w as [bs | w IH | tag f d]; cbn [swire_eqb].
  - apply batches_eqb_refl.
  - exact IH.
  - rewrite N.eqb_refl, Bool.eqb_reflx. destruct d; cbn; [apply batches_eqb_refl | reflexivity].
Qed.
Lemma ups_eqb_refl1 w z : ups_eqb [(w, z)] [(w, z)] = true.
Proof.
  unfold ups_eqb, pair_eqb. cbn [list_eqb fst snd]. rewrite swire_eqb_refl, Bool.eqb_reflx. reflexivity.
Qed.

Lemma is_pointer_mget rows m : is_pointer rows m = true -> exists u, mget m c30_k_location = Some u.
Proof.
  unfold is_pointer, mhas. intro H. apply andb_true_iff in H as [H _]. apply andb_true_iff in H as [_ H].
  destruct (mget m c30_k_location); [eauto | discriminate].
Qed.

Lemma data_not_log r : classify r = CData -> mhas (b_meta r) c30_k_log_level = false.
Proof. unfold classify, classify_by. destruct (mhas (b_meta r) c30_k_log_level); [discriminate | reflexivity]. Qed.

(* ---- spec_ok holds on the model -------------------------------------------------- *)
Lemma spec_res_model t c p m srv : spec_res t c p m srv (sresolve t c p m srv) = true.
Proof.
  unfold spec_res. destruct c as [c|].
  2:{ cbn. rewrite batch_eqb_refl, meta_eqb_refl. reflexivity. }
  destruct (is_pointer (b_rows p) m) eqn:Hp.
  2:{ unfold sresolve. rewrite resolve_passthrough by auto. unfold honest. rewrite Hp.
      cbn. rewrite batch_eqb_refl, meta_eqb_refl. reflexivity. }
  destruct (is_pointer_mget _ _ Hp) as [u Hl]. destruct u as [|x u].
  { unfold sresolve, resolve, resolve_by, honest. rewrite Hp, Hl. reflexivity. }
  destruct (url_ok (c_val c) (x :: u)) eqn:Hu.
  2:{ unfold sresolve, resolve, resolve_by, honest. rewrite Hp, Hl, Hu. reflexivity. }
  unfold sresolve. rewrite (resolve_pointer swire sdec sdecomp (ssha t) sframed c p m srv x u Hp Hl Hu).
  unfold honest, ok_is_sound, sfetch. rewrite Hp, Hl, Hu.
  destruct (fetch swire sdecomp srv (x :: u)) as [w|]; [|reflexivity].
  destruct (sha_ok swire (ssha t) m w) eqn:Hs; cbn [negb]; [|reflexivity].
  destruct (sframed w) eqn:Hfr; cbn [negb].
  2:{ destruct w; try discriminate; reflexivity. }
  destruct (sdec w) as [bs|] eqn:Hd.
  2:{ destruct w; try discriminate; reflexivity. }
  destruct (select_by classify None bs) as [r|e] eqn:Hsel.
  - destruct (select_sound _ _ _ Hsel) as [Hin [Hc Hnp]].
    change (existsb is_ptr bs) with (has_ptr_by classify bs).
    rewrite Hnp, (existsb_eqb_in _ _ Hin), (data_not_log _ Hc).
    assert (Hdr : is_data r = true) by (unfold is_data, is_data_by; now rewrite Hc).
    rewrite Hdr. cbn [negb andb].
    destruct w as [bs' | w' | tag f d]; try reflexivity.
    cbn [sdec] in Hd. inversion Hd; subst bs'.
    change (existsb is_ptr bs) with (has_ptr_by classify bs). rewrite Hnp.
    change (filter (is_data_by classify) bs) with (datas_by classify bs).
    change (filter is_data bs) with (datas_by classify bs).
    destruct (datas_by classify bs) as [|d0 [|d2 rest]] eqn:Hdd; try reflexivity.
    rewrite (select_unique _ _ _ Hnp Hdd) in Hsel. inversion Hsel; subst d0.
    rewrite batch_eqb_refl. reflexivity.
  - cbn [andb]. destruct w as [bs' | w' | tag f d]; try reflexivity.
    cbn [sdec] in Hd. inversion Hd; subst bs'.
    change (existsb is_ptr bs) with (has_ptr_by classify bs).
    change (filter is_data bs) with (datas_by classify bs).
    apply select_err_inv in Hsel as [[Hpt _] | [Hpt [Hdd _]]].
    + rewrite Hpt. reflexivity.
    + rewrite Hpt, Hdd. reflexivity.
Qed.

Lemma should_ext_true c b size :
  should_ext c b size = true ->
  exists c', c = Some c' /\ c_storage c' = true /\ b_rows b <> 0 /\ (threshold c' <= size)%Z.
Proof.
  destruct c as [c'|]; [|discriminate]. unfold should_ext. intro H.
  apply andb_true_iff in H as [H H3]. apply andb_true_iff in H as [H1 H2].
  exists c'. repeat split; auto; [apply N.eqb_neq; now destruct (b_rows b =? 0) | lia].
Qed.
Lemma should_ext_false carry t c b size side up :
  should_ext c b size = false ->
  sexternalize_by carry t c b size side up = {| x_batch := b; x_meta := side; x_err := false; x_up := [] |}.
Proof.
  destruct c as [c'|]; [|reflexivity]. unfold should_ext. intro H. apply ext_inline_by.
  destruct (c_storage c'); [|now left]. destruct (b_rows b =? 0) eqn:E; [right; left; now apply N.eqb_eq |].
  right; right. cbn in H. lia.
Qed.

Lemma model_meets_spec_seq i :
  match i with Conc _ _ _ _ _ | Route _ _ _ _ _ _ => False | _ => True end ->
  digest_ok i = true -> spec_ok i (model i) = true.
Proof.
  destruct i as [t c b size side up sm sv | t c p m srv | t z v jobs s | t rt v p m srv];
    cbn [digest_ok]; intros Hnc; [| | contradiction | contradiction].
  2:{ intros _. unfold model, model_by, spec_ok, spec_ok_seq. rewrite spec_res_model. reflexivity. }
  intros Hdig.
  unfold model, model_by, spec_ok, spec_ok_seq.
  destruct (should_ext c b size) eqn:Hse.
  - destruct (should_ext_true _ _ _ Hse) as [c' [-> [Hs [Hr Ht]]]].
    unfold sexternalize_by. rewrite (ext_due_by swire SIpc SZ (ssha t) true c' b size side up Hs Hr Ht).
    cbn zeta. cbn [lvl_bad zflag vld]. destruct (level_bad c') eqn:Hlb.
    + cbn [x_batch x_meta x_err x_up nonempty negb andb]. rewrite batch_eqb_refl, meta_eqb_refl. reflexivity.
    + destruct up as [url|].
      * cbn [x_batch x_meta x_err x_up negb andb].
        rewrite ups_eqb_refl1, batch_eqb_refl. cbn [pointer_batch b_rows].
        rewrite is_pointer_pm, mget_pm_loc, mget_pm_sha.
        destruct (ssha t (SIpc [with_side b side])) as [|h0 hs] eqn:Eh; [discriminate |].
        cbn [opt_eqb andb]. rewrite !beqb_refl. cbn [andb].
        rewrite <- Eh. rewrite spec_res_model. cbn [andb].
        destruct sm; try reflexivity. destruct sv; try reflexivity.
        destruct url as [|x u]; try reflexivity.
        destruct (url_ok (c_val c') (x :: u)) eqn:Hu; try reflexivity.
        destruct (mhas (b_meta b ++ side) c30_k_log_level) eqn:Hlog; try reflexivity.
        cbn [negb andb apply_sha round_srv].
        assert (Hne : x :: u <> []) by discriminate.
        pose proof (roundtrip_lemma swire SIpc sdec SZ sdecomp (ssha t) sframed
                      sdec_enc sdecomp_comp sframed_enc
                      c' b size side (x :: u) Hs Hr Ht Hlb Hne Hu Hlog) as RT.
        cbn zeta in RT. rewrite (ext_due swire SIpc SZ (ssha t) c' b size side _ Hs Hr Ht), Hlb in RT.
        cbn zeta in RT. cbn [x_batch x_meta x_err x_up] in RT.
        destruct RT as [_ [_ [_ [_ RT]]]]. unfold sresolve. cbn [pointer_batch] in RT. rewrite RT.
        rewrite batch_eqb_refl. reflexivity.
      * cbn [x_batch x_meta x_err x_up negb andb].
        rewrite ups_eqb_refl1, batch_eqb_refl, meta_eqb_refl. reflexivity.
  - rewrite (should_ext_false true t c b size side up Hse). cbn [x_batch x_meta x_err x_up nonempty negb andb].
    rewrite batch_eqb_refl, meta_eqb_refl, spec_res_model. reflexivity.
Qed.

(* ---- before 36fcb9e: metadata passed next to the batch was dropped by externalization ---- *)
Definition w_cfg : cfg :=
  {| c_storage := true; c_thr := 16; c_comp := None; c_level := 0; c_val := VHttps |}.
Definition w_side : meta := [(str "trace", str "abc")].
Definition w_url : bytes := str "https://h/o/1".
Definition w_tbl : shatbl := [(SIpc [w_data], str "00"); (SIpc [with_side w_data w_side], str "11")].
Definition w_round : input := Round w_tbl (Some w_cfg) w_data 16 w_side (UpOk w_url) ShaKeep None.

Lemma side_meta_legacy_dropped :
  model_legacy w_round =
    ORound (pointer_batch w_data) (pointer_meta w_url (str "00")) false [(SIpc [w_data], false)]
           (Some (ROk w_data (fetch_meta w_url)))
  /\ model w_round =
    ORound (pointer_batch w_data) (pointer_meta w_url (str "11")) false
           [(SIpc [with_side w_data w_side], false)]
           (Some (ROk (with_side w_data w_side) (fetch_meta w_url)))
  /\ digest_ok w_round = true
  /\ spec_ok w_round (model_legacy w_round) = false
  /\ spec_ok w_round (model w_round) = true.
Proof. vm_compute. repeat split; reflexivity. Qed.

Lemma logs_never_returned_lemma bs r :
  select_by classify None bs = inl r ->
  In r bs /\ classify r = CData /\ mhas (b_meta r) c30_k_log_level = false.
Proof.
  intro H. destruct (select_sound _ _ _ H) as [Hin [Hc _]].
  repeat split; auto. now apply data_not_log.
Qed.

Lemma side_meta_legacy_refuted_lemma :
  exists i b side,
    side <> [] /\ digest_ok i = true /\
    (exists t c size url, i = Round t c b size side (UpOk url) ShaKeep None) /\
    (exists xb xm ups m', model_legacy i = ORound xb xm false ups (Some (ROk b m'))) /\
    b <> with_side b side /\
    spec_ok i (model_legacy i) = false /\ spec_ok i (model i) = true.
Proof.
  exists w_round, w_data, w_side.
  destruct side_meta_legacy_dropped as [HL [_ [HD [H1 H2]]]].
  split; [discriminate |]. split; [exact HD |].
  split; [exists w_tbl, (Some w_cfg), 16%Z, w_url; reflexivity |].
  split; [rewrite HL; eauto |].
  split; [discriminate | split; assumption].
Qed.

(* ---- overlapped externalizations: each one owns its bytes --------------------------- *)
Lemma step_eqb_eq a b : step_eqb a b = true <-> a = b.
Proof.
  destruct a, b; cbn; try (split; [discriminate | intro H; discriminate H]);
    rewrite Nat.eqb_eq; split; intro H; [now subst | now inversion H | now subst | now inversion H
                                         | now subst | now inversion H | now subst | now inversion H].
Qed.

Section SchedProofs.
  Variable wire : Type.
  Variable enc : list batch -> wire.
  Variable comp : wire -> wire.
  Variable sha : wire -> bytes.
  Variable zstd : bool.
  Variable jb : nat -> batch.

  Notation srun := (srun wire enc comp sha false zstd jb).
  Notation sstep := (sstep wire enc comp sha false zstd jb).

  (* one externalization run on its own *)
  Definition jstep (k : nat) (j : jstate wire) (s : step) : jstate wire :=
    match s with
    | SSer _ => {| j_buf := Some (enc [jb k]); j_sha := j_sha j; j_z := j_z j; j_obj := j_obj j |}
    | SHash _ => {| j_buf := j_buf j; j_sha := option_map sha (j_buf j); j_z := j_z j; j_obj := j_obj j |}
    | SComp _ => {| j_buf := j_buf j; j_sha := j_sha j; j_z := option_map comp (j_buf j); j_obj := j_obj j |}
    | SUp _ => {| j_buf := j_buf j; j_sha := j_sha j; j_z := j_z j;
                  j_obj := if zstd then j_z j else j_buf j |}
    end.

  (* a step of externalization i touches, and reads, only externalization i's state *)
  Lemma sstep_own st a k :
    cs_job (sstep st a) k = if Nat.eqb (step_job a) k then jstep k (cs_job st k) a else cs_job st k.
  Proof.
    destruct a as [i | i | i | i]; cbn [C30.sstep cs_job cs_pool step_job jstep]; unfold upd, rd;
      rewrite (Nat.eqb_sym i k); destruct (Nat.eqb k i) eqn:E; try reflexivity;
      apply Nat.eqb_eq in E; subst i; reflexivity.
  Qed.

  Lemma srun_own s : forall st k,
    cs_job (srun st s) k = fold_left (jstep k) (proj k s) (cs_job st k).
  Proof.
    unfold C30.srun. induction s as [|a s IH]; intros st k; cbn [fold_left proj filter]; [reflexivity |].
    rewrite IH, sstep_own. fold (proj k s). destruct (Nat.eqb (step_job a) k); reflexivity.
  Qed.

  (* for EVERY interleaving that keeps each externalization's program order, what
     externalization k hashed and what the storage copied for it are functions of batch k *)
  Lemma own_bytes_lemma n s k :
    wf_sched zstd n s = true -> (k < n)%nat ->
    let j := cs_job (srun (cs0 wire) s) k in
    j_sha j = Some (sha (enc [jb k])) /\
    j_obj j = Some (if zstd then comp (enc [jb k]) else enc [jb k]).
  Proof.
    intros Hwf Hk. unfold wf_sched in Hwf. apply andb_true_iff in Hwf as [_ Hwf].
    rewrite forallb_forall in Hwf. specialize (Hwf k).
    assert (Hin : In k (seq 0 n)) by (apply in_seq; lia). specialize (Hwf Hin).
    apply (list_eqb_eq step_eqb step_eqb_eq) in Hwf.
    cbv zeta. rewrite srun_own, Hwf. unfold job_steps.
    assert (Hz : zstd = true \/ zstd = false) by (destruct zstd; auto).
    destruct Hz as [Hz | Hz]; rewrite Hz; cbn; rewrite ?Hz; split; reflexivity.
  Qed.
End SchedProofs.

(* ---- the Conc part of the decidable form ---------------------------------------------- *)
Lemma nth_map_seq {A} (f : nat -> A) n k d : (k < n)%nat -> nth k (map f (seq 0 n)) d = f k.
Proof.
  intro H. rewrite (nth_indep _ d (f 0%nat)) by (rewrite map_length, seq_length; exact H).
  rewrite map_nth, seq_nth by exact H. reflexivity.
Qed.

Lemma conc_job_spec t z v jobs s k :
  digest_ok (Conc t z v jobs s) = true -> conc_ok (Conc t z v jobs s) = true -> (k < length jobs)%nat ->
  spec_job t z (job_batch jobs k) (job_url jobs k)
    (conc_job_out t z v jobs
       (srun swire SIpc SZ (ssha t) false z (job_batch jobs) (cs0 swire) s) k) = true.
Proof.
  cbn [digest_ok conc_ok]. intros Hdig Hok Hk.
  apply andb_true_iff in Hok as [Hwf Hjobs].
  rewrite forallb_forall in Hdig, Hjobs.
  assert (Hin : In (nth k jobs (dummy_batch, [])) jobs) by (apply nth_In; exact Hk).
  specialize (Hdig _ Hin). specialize (Hjobs _ Hin).
  cbv beta in Hdig, Hjobs.
  apply andb_true_iff in Hjobs as [Hjobs Hv]. apply andb_true_iff in Hjobs as [Hjobs Hne].
  apply andb_true_iff in Hjobs as [Hr Hlog].
  apply negb_true_iff in Hr, Hlog. apply N.eqb_neq in Hr.
  change (fst (nth k jobs (dummy_batch, []))) with (job_batch jobs k) in Hdig, Hr, Hlog.
  change (snd (nth k jobs (dummy_batch, []))) with (job_url jobs k) in Hne, Hv.
  set (b := job_batch jobs k) in *. set (url := job_url jobs k) in *.
  destruct (own_bytes_lemma swire SIpc SZ (ssha t) z (job_batch jobs) _ s k Hwf Hk) as [Hsha Hobj].
  cbv zeta in Hsha, Hobj. fold b in Hsha, Hobj.
  unfold conc_job_out. fold b url. rewrite Hsha, Hobj.
  unfold spec_job. cbn [jo_batch jo_meta jo_up jo_res].
  rewrite batch_eqb_refl, mget_pm_loc, mget_pm_sha, ups_eqb_refl1.
  destruct (ssha t (SIpc [b])) as [|h0 hs] eqn:Eh; [discriminate |]. rewrite <- Eh.
  cbn [opt_eqb andb]. rewrite !beqb_refl. cbn [andb].
  clearbody url. destruct url as [|x u]; [discriminate |].
  unfold sresolve.
  rewrite (resolve_own_upload swire SIpc sdec SZ sdecomp (ssha t) sframed sdec_enc sdecomp_comp sframed_enc
             (conc_cfg z v) b x u z Hr Hlog Hv).
  apply batch_eqb_refl.
Qed.

Lemma model_meets_spec i : digest_ok i = true -> conc_ok i = true -> spec_ok i (model i) = true.
Proof.
  destruct i as [t c b size side up sm sv | t c p m srv | t z v jobs s | t rt v p m srv].
  4:{ intros _ _. unfold model, model_by, spec_ok.
      rewrite <- (spec_res_model t (Some (conc_cfg false v)) p m srv).
      destruct (sresolve t (Some (conc_cfg false v)) p m srv); reflexivity. }
  - intros H _. now apply model_meets_spec_seq.
  - intros H _. now apply model_meets_spec_seq.
  - intros Hd Hc. unfold model, model_by, spec_ok, conc_outs.
    rewrite map_length, seq_length, Nat.eqb_refl. cbn [andb].
    apply forallb_forall. intros k Hin. apply in_seq in Hin.
    rewrite nth_map_seq by lia. apply conc_job_spec; auto; lia.
Qed.

(* ---- the pooled-buffer variant is refuted by a schedule ------------------------------ *)
Definition w_data2 : batch :=
  {| b_schema := str "x:int64"; b_smeta := []; b_rows := 2; b_vals := [((-3)%Z, 2)]; b_meta := [] |}.
Definition w_tbl2 : shatbl := [(SIpc [w_data], str "00"); (SIpc [w_data2], str "22")].
Definition w_jobs : list (batch * bytes) := [(w_data, str "https://h/o/1"); (w_data2, str "https://h/o/2")].
(* A parked in its upload while B runs completely, then A's upload copies *)
Definition w_sched_upload : list step := [SSer 0; SHash 0; SSer 1; SHash 1; SUp 1; SUp 0].
(* B serializes between A's serialization and A's hash *)
Definition w_sched_hash : list step := [SSer 0; SSer 1; SHash 0; SUp 0; SHash 1; SUp 1].

Lemma pooled_refuted_lemma :
  let i1 := Conc w_tbl2 false VHttps w_jobs w_sched_upload in
  let i2 := Conc w_tbl2 false VHttps w_jobs w_sched_hash in
  digest_ok i1 = true /\ conc_ok i1 = true /\ digest_ok i2 = true /\ conc_ok i2 = true /\
  (* A's pointer is refused: the stored object holds B's bytes under A's checksum *)
  (exists o1, model_pooled i1 = OConc [o1; nth 1 (conc_outs false w_tbl2 false VHttps w_jobs w_sched_upload) dummy_out]
              /\ jo_up o1 = [(SIpc [w_data2], false)] /\ jo_res o1 = Some (RErr ESha)) /\
  (* A's pointer validates and resolves to B's values *)
  (exists o1 o2, model_pooled i2 = OConc [o1; o2]
              /\ jo_res o1 = Some (ROk w_data2 (fetch_meta (str "https://h/o/1")))) /\
  spec_ok i1 (model_pooled i1) = false /\ spec_ok i2 (model_pooled i2) = false /\
  spec_ok i1 (model i1) = true /\ spec_ok i2 (model i2) = true.
Proof.
  cbv zeta. repeat split; try (vm_compute; reflexivity).
  - eexists. vm_compute. repeat split; reflexivity.
  - eexists. eexists. vm_compute. repeat split; reflexivity.
Qed.

(* ---- entry points ------------------------------------------------------------------- *)
Lemma route_checksum_lemma t rt v p m srv x u w h :
  is_pointer (b_rows p) m = true -> mget m c30_k_location = Some (x :: u) ->
  url_ok v (x :: u) = true -> sfetch srv (x :: u) = Some w ->
  mget m c30_k_sha = Some h -> ssha t w <> h ->
  model (Route t rt v p m srv) = ORoute (RErr ESha).
Proof.
  intros Hp Hl Hu Hf Hs Hne. unfold model, model_by, sresolve.
  rewrite (checksum_lemma swire sdec sdecomp (ssha t) sframed (conc_cfg false v) p m srv x u w h); auto.
Qed.
