(* Proofs/C13.v — lemmas for property C13. *)
From VR Require Import Model.C13.
From Coq Require Import ZifyBool ZifyN ZifyNat Lia.
Local Arguments N.eqb : simpl never.
Open Scope N_scope.

(* ---- byte-list framing ---------------------------------------------------- *)
Lemma nul_free_cons c s : nul_free (c :: s) = true <-> c <> 0 /\ nul_free s = true.
Proof.
  unfold nul_free; cbn [forallb]. rewrite andb_true_iff, negb_true_iff, N.eqb_neq. tauto.
Qed.

(* a NUL-free field followed by a NUL separator is uniquely decodable *)
Lemma split_at_nul a b x y :
  nul_free a = true -> nul_free b = true ->
  a ++ 0 :: x = b ++ 0 :: y -> a = b /\ x = y.
Proof.
  revert b; induction a as [|c a IH]; intros [|d b] Ha Hb H; cbn [app] in H.
  - inversion H; auto.
  - inversion H; subst. apply nul_free_cons in Hb as [Hd _]. congruence.
  - inversion H; subst. apply nul_free_cons in Ha as [Hc _]. congruence.
  - inversion H; subst. apply nul_free_cons in Ha as [_ Ha]. apply nul_free_cons in Hb as [_ Hb].
    destruct (IH b Ha Hb H2) as [-> ->]. auto.
Qed.

(* two strings that differ at a position both have are not prefixes of a common string *)
Fixpoint diverge (p q : bytes) : bool :=
  match p, q with
  | x :: p', y :: q' => if x =? y then diverge p' q' else true
  | _, _ => false
  end.

Lemma diverge_app p q x y : diverge p q = true -> p ++ x <> q ++ y.
Proof.
  revert q; induction p as [|a p IH]; intros [|b q]; cbn [diverge app]; try discriminate.
  destruct (a =? b) eqn:E; intros Hd Heq; inversion Heq; subst.
  - exact (IH q Hd H1).
  - apply N.eqb_neq in E. congruence.
Qed.

Lemma diverge_sym p q : diverge p q = diverge q p.
Proof.
  revert q; induction p as [|a p IH]; intros [|b q]; cbn [diverge]; try reflexivity.
  rewrite (N.eqb_sym b a). destruct (a =? b); auto.
Qed.

(* facts about the REGENERATED constants; a change of framing breaks these *)
Lemma call_prefix_diverges : diverge aad_prefix_call aad_prefix_cursor = true.
Proof. vm_compute. reflexivity. Qed.
Lemma sticky_prefix_is_cursor_prefix : aad_prefix_sticky = aad_prefix_cursor.
Proof. reflexivity. Qed.
(* the hook's probes of tokenAad / callStateIdentity / principalKeyFromAuth / the cache key
   on further identities all had the shape the model is written for *)
Lemma framing_probes_ok : aad_framing_ok = 1%Z.
Proof. reflexivity. Qed.
Lemma anon_tail_head : exists t, aad_anon_tail = 0 :: t.
Proof. eexists. reflexivity. Qed.
Lemma auth_tag_is_1 : aad_auth_tag = [1].
Proof. reflexivity. Qed.
Lemma sep_is_nul : aad_sep = [0] /\ ck_sep = [0] /\ ck_join = [0] /\ pk_sep = [0].
Proof. repeat split; reflexivity. Qed.

(* ---- the identity framing is injective --------------------------------------- *)
Lemma ident_bytes_inj i1 i2 :
  valid_ident i1 = true -> valid_ident i2 = true ->
  ident_bytes i1 = ident_bytes i2 -> i1 = i2.
Proof.
  destruct anon_tail_head as [t Ht].
  destruct i1 as [|d1 p1], i2 as [|d2 p2]; cbn [valid_ident ident_bytes]; intros V1 V2 H.
  - reflexivity.
  - rewrite Ht, auth_tag_is_1 in H. cbn [app] in H. discriminate.
  - rewrite Ht, auth_tag_is_1 in H. cbn [app] in H. discriminate.
  - rewrite auth_tag_is_1 in H. destruct sep_is_nul as [Hs _]. rewrite Hs in H.
    cbn [app] in H. injection H as H.
    destruct (split_at_nul _ _ _ _ V1 V2 H) as [-> ->]. reflexivity.
Qed.

Lemma aad_family_inj_facts k1 k2 :
  aad_family k1 = aad_family k2 -> prefix_of k1 = prefix_of k2.
Proof. destruct k1, k2; cbn; intros H; try discriminate; reflexivity. Qed.

Lemma prefixes_separate k1 k2 x y :
  prefix_of k1 ++ x = prefix_of k2 ++ y -> aad_family k1 = aad_family k2.
Proof.
  pose proof call_prefix_diverges as D.
  pose proof D as D'. rewrite diverge_sym in D'.
  destruct k1, k2; cbn [prefix_of aad_family]; intros H; try reflexivity; exfalso;
    try rewrite sticky_prefix_is_cursor_prefix in H;
    first [ exact (diverge_app _ _ _ _ D H) | exact (diverge_app _ _ _ _ D' H) ].
Qed.

Lemma aad_injective_lemma k1 k2 i1 i2 :
  valid_ident i1 = true -> valid_ident i2 = true ->
  token_aad k1 i1 = token_aad k2 i2 ->
  aad_family k1 = aad_family k2 /\ i1 = i2.
Proof.
  intros V1 V2 H. unfold token_aad in H.
  pose proof (prefixes_separate _ _ _ _ H) as F. split; [exact F|].
  rewrite (aad_family_inj_facts _ _ F) in H. apply app_inv_head in H.
  exact (ident_bytes_inj _ _ V1 V2 H).
Qed.

Lemma aad_family_cursor_call k1 k2 :
  k1 <> Sticky -> k2 <> Sticky -> aad_family k1 = aad_family k2 -> k1 = k2.
Proof. destruct k1, k2; cbn; congruence. Qed.

Lemma sticky_shares_cursor_aad_lemma i : token_aad Sticky i = token_aad Cursor i.
Proof. reflexivity. Qed.

(* ---- kinds: version byte and AAD family together separate all three ---------- *)
Lemma kind_eqb_eq a b : kind_eqb a b = true <-> a = b.
Proof. destruct a, b; cbn; split; intros H; try reflexivity; discriminate. Qed.

Lemma verbatim_separated k slot :
  version_of k = version_of slot -> aad_family k = aad_family slot -> k = slot.
Proof. destruct k, slot; intros V F; try reflexivity; (vm_compute in V; discriminate) || (cbn in F; discriminate). Qed.

Lemma ident_eqb_eq a b : ident_eqb a b = true <-> a = b.
Proof.
  destruct a as [|d p], b as [|d' p']; cbn [ident_eqb]; split; intros H; try reflexivity; try discriminate.
  - apply andb_true_iff in H as [H1 H2]. apply beqb_eq in H1, H2. now subst.
  - inversion H; subst. now rewrite !beqb_refl.
Qed.

(* ---- decisions under an ideal AEAD --------------------------------------------- *)
Section Generic.
  Variable CT : Type.
  Variable seal : N -> bytes -> payload -> CT.
  Variable open : bytes -> CT -> option payload.
  (* correctness *)
  Hypothesis open_seal : forall n a p, open a (seal n a p) = Some p.
  (* binding: a ciphertext opens only under the associated data it was sealed with *)
  Hypothesis open_binds : forall n a a' p p', open a' (seal n a p) = Some p' -> a' = a.

  Notation mint := (mint CT seal).
  Notation reenvelope := (reenvelope CT).
  Notation aead_open := (aead_open CT open).
  Notation open_slot := (open_slot CT open).
  Notation continue_dec := (continue_dec CT open).
  Notation resolve_dec := (resolve_dec CT open).
  Notation resume_dec := (resume_dec CT open).

  Notation env := (env CT).

  Lemma open_sealed a n a' p : open a (seal n a' p) = if beqb a a' then Some p else None.
  Proof.
    destruct (beqb a a') eqn:E.
    - apply beqb_eq in E. subst. apply open_seal.
    - destruct (open a (seal n a' p)) eqn:O; [|reflexivity].
      apply open_binds in O. subst. rewrite beqb_refl in E. discriminate.
  Qed.

  (* envelope + AEAD layer, token presented as minted *)
  Lemma aead_verbatim_iff slot j k i n id :
    valid_ident i = true -> valid_ident j = true ->
    (aead_open slot j (mint k i n id) <> None) <-> (k = slot /\ i = j).
  Proof.
    intros Vi Vj. unfold C13.aead_open, C13.mint; cbn [t_ver t_ct]. split.
    - destruct (version_of k =? version_of slot) eqn:V; [|congruence].
      apply N.eqb_eq in V. rewrite open_sealed.
      destruct (beqb (token_aad slot j) (token_aad k i)) eqn:E; [|congruence]. intros _.
      apply beqb_eq in E. destruct (aad_injective_lemma _ _ _ _ Vj Vi E) as [F ->].
      split; [|reflexivity]. symmetry in F. exact (verbatim_separated _ _ V F).
    - intros [-> ->]. rewrite N.eqb_refl, open_seal. discriminate.
  Qed.

  (* envelope + AEAD layer, token re-enveloped for the slot by its holder: the
     version byte no longer separates anything, only the AAD family does *)
  Lemma aead_reenveloped_iff slot j k i n id :
    valid_ident i = true -> valid_ident j = true ->
    (aead_open slot j (reenvelope slot (mint k i n id)) <> None) <-> (aad_family k = aad_family slot /\ i = j).
  Proof.
    intros Vi Vj. unfold C13.aead_open, C13.reenvelope, C13.mint; cbn [t_ver t_ct].
    rewrite N.eqb_refl, open_sealed. split.
    - destruct (beqb (token_aad slot j) (token_aad k i)) eqn:E; [|congruence]. intros _.
      apply beqb_eq in E. destruct (aad_injective_lemma _ _ _ _ Vj Vi E) as [F ->]. auto.
    - intros [F ->]. unfold token_aad. rewrite (aad_family_inj_facts _ _ F), beqb_refl. discriminate.
  Qed.

  (* what comes out of the AEAD layer is what was sealed, under the sealing AAD (no validity needed) *)
  Lemma aead_open_env re slot j k i n id pl :
    aead_open slot j (env re slot (mint k i n id)) = Some pl ->
    pl = {| pl_kind := k; pl_id := id |} /\ token_aad slot j = token_aad k i.
  Proof.
    destruct re; cbn [env]; unfold C13.aead_open, C13.reenvelope, C13.mint; cbn [t_ver t_ct].
    - rewrite N.eqb_refl, open_sealed.
      destruct (beqb (token_aad slot j) (token_aad k i)) eqn:E; [|discriminate].
      apply beqb_eq in E. intros H; inversion H; auto.
    - destruct (version_of k =? version_of slot); [|discriminate]. rewrite open_sealed.
      destruct (beqb (token_aad slot j) (token_aad k i)) eqn:E; [|discriminate].
      apply beqb_eq in E. intros H; inversion H; auto.
  Qed.

  Lemma open_slot_payload re slot j k i n id x :
    open_slot slot j (env re slot (mint k i n id)) = Some x ->
    k = slot /\ x = id /\ token_aad slot j = token_aad k i.
  Proof.
    unfold C13.open_slot.
    destruct (aead_open slot j (env re slot (mint k i n id))) as [pl|] eqn:A; [|discriminate].
    apply aead_open_env in A as [-> E]. cbn [pl_kind pl_id].
    destruct (kind_eqb k slot) eqn:K; [|discriminate]. apply kind_eqb_eq in K.
    intros H; inversion H; auto.
  Qed.

  Lemma open_slot_own re slot j n id : open_slot slot j (env re slot (mint slot j n id)) = Some id.
  Proof.
    unfold C13.open_slot.
    assert (A : aead_open slot j (env re slot (mint slot j n id)) = Some {| pl_kind := slot; pl_id := id |}).
    { destruct re; cbn [env]; unfold C13.aead_open, C13.reenvelope, C13.mint; cbn [t_ver t_ct];
        now rewrite N.eqb_refl, open_seal. }
    rewrite A. cbn [pl_kind pl_id]. now rewrite (proj2 (kind_eqb_eq slot slot) eq_refl).
  Qed.

  (* the full opener (with the plaintext grammar), either presentation *)
  Lemma open_slot_iff re slot j k i n id x :
    valid_ident i = true -> valid_ident j = true ->
    open_slot slot j (env re slot (mint k i n id)) = Some x <-> (k = slot /\ i = j /\ x = id).
  Proof.
    intros Vi Vj. unfold C13.open_slot. split.
    - destruct (aead_open slot j (env re slot (mint k i n id))) as [pl|] eqn:A; [|discriminate].
      assert (Hpl : pl = {| pl_kind := k; pl_id := id |} /\ i = j).
      { destruct re; cbn [env] in A.
        - assert (N0 : aead_open slot j (reenvelope slot (mint k i n id)) <> None) by congruence.
          apply aead_reenveloped_iff in N0 as [F ->]; auto. split; [|reflexivity].
          unfold C13.aead_open, C13.reenvelope, C13.mint in A; cbn [t_ver t_ct] in A.
          rewrite N.eqb_refl, open_sealed in A.
          destruct (beqb (token_aad slot j) (token_aad k j)); congruence.
        - assert (N0 : aead_open slot j (mint k i n id) <> None) by congruence.
          apply aead_verbatim_iff in N0 as [-> ->]; auto. split; [|reflexivity].
          unfold C13.aead_open, C13.mint in A; cbn [t_ver t_ct] in A.
          rewrite N.eqb_refl, open_seal in A. congruence. }
      destruct Hpl as [-> ->]. cbn [pl_kind pl_id].
      destruct (kind_eqb k slot) eqn:K; [|discriminate]. apply kind_eqb_eq in K.
      intros H; inversion H; auto.
    - intros [-> [-> ->]].
      assert (A : aead_open slot j (env re slot (mint slot j n id)) = Some {| pl_kind := slot; pl_id := id |}).
      { destruct re; cbn [env]; unfold C13.aead_open, C13.reenvelope, C13.mint; cbn [t_ver t_ct];
          now rewrite N.eqb_refl, open_seal. }
      rewrite A. cbn [pl_kind pl_id]. now rewrite (proj2 (kind_eqb_eq slot slot) eq_refl).
  Qed.

  (* ---- continuation: cursor first, then the call -------------------------- *)
  Lemma continue_accept_needs_own_cursor cache j re k i n id tk :
    valid_ident i = true -> valid_ident j = true ->
    continue_dec cache j (env re Cursor (mint k i n id)) tk <> None -> k = Cursor /\ i = j.
  Proof.
    intros Vi Vj. unfold C13.continue_dec.
    destruct (open_slot Cursor j (env re Cursor (mint k i n id))) as [c|] eqn:O; [|congruence].
    apply open_slot_iff in O as [-> [-> _]]; auto.
  Qed.

  (* own cursor + the call token of the same call: accepted under ANY cache *)
  Lemma continue_echo_accepts cache j re re' n m c :
    continue_dec cache j (env re Cursor (mint Cursor j n c)) (Some (env re' Call (mint Call j m c))) <> None.
  Proof.
    unfold C13.continue_dec, C13.resolve_dec.
    assert (O1 : forall re k nn, open_slot k j (env re k (mint k j nn c)) = Some c).
    { intros r k nn. unfold C13.open_slot.
      assert (A : aead_open k j (env r k (mint k j nn c)) = Some {| pl_kind := k; pl_id := c |}).
      { destruct r; cbn [env]; unfold C13.aead_open, C13.reenvelope, C13.mint; cbn [t_ver t_ct];
          now rewrite N.eqb_refl, open_seal. }
      rewrite A. cbn [pl_kind pl_id]. now rewrite (proj2 (kind_eqb_eq k k) eq_refl). }
    rewrite O1. destruct (has_key (cache_key c j) cache); [discriminate|].
    rewrite O1, beqb_refl. discriminate.
  Qed.

  Lemma history_independent_echo_lemma cache i j re re' n m c :
    valid_ident i = true -> valid_ident j = true ->
    let tc := env re Cursor (mint Cursor i n c) in
    let tk := Some (env re' Call (mint Call i m c)) in
    is_some (continue_dec cache j tc tk) = is_some (continue_dec [] j tc tk)
    /\ (is_some (continue_dec cache j tc tk) = true <-> i = j).
  Proof.
    intros Vi Vj tc tk.
    assert (E : forall ca, is_some (continue_dec ca j tc tk) = true <-> i = j).
    { intros ca. split.
      - destruct (continue_dec ca j tc tk) eqn:D; [|discriminate]. intros _.
        assert (N0 : continue_dec ca j tc tk <> None) by congruence.
        apply continue_accept_needs_own_cursor in N0 as [_ H]; auto.
      - intros ->. pose proof (continue_echo_accepts ca j re re' n m c) as A.
        subst tc tk. destruct (continue_dec ca j _ _); [reflexivity|congruence]. }
    split; [|apply E].
    destruct (is_some (continue_dec cache j tc tk)) eqn:A, (is_some (continue_dec [] j tc tk)) eqn:B; try reflexivity.
    - apply E in A. apply (proj2 (E [])) in A. congruence.
    - apply E in B. apply (proj2 (E cache)) in B. congruence.
  Qed.

  (* ---- sticky resume ---------------------------------------------------------- *)
  Lemma resume_accept_needs_own_sticky reg j re k i n id :
    valid_ident i = true -> valid_ident j = true ->
    resume_dec reg j (env re Sticky (mint k i n id)) = true -> k = Sticky /\ i = j.
  Proof.
    intros Vi Vj. unfold C13.resume_dec.
    destruct (open_slot Sticky j (env re Sticky (mint k i n id))) as [x|] eqn:O; [|discriminate].
    apply open_slot_iff in O as [-> [-> _]]; auto.
  Qed.

  Lemma resume_own_accepts reg j re n sid :
    In (sid, principal_key j) reg -> resume_dec reg j (env re Sticky (mint Sticky j n sid)) = true.
  Proof.
    intros Hin. unfold C13.resume_dec. rewrite open_slot_own.
    apply existsb_exists. exists (sid, principal_key j). split; [exact Hin|].
    cbn [fst snd]. now rewrite !beqb_refl.
  Qed.

  (* ---- sticky teardown: the same lookup as a resume ------------------------------ *)
  Notation teardown_dec := (teardown_dec CT open).

  Lemma resume_is_teardown reg j t : resume_dec reg j t = is_some (teardown_dec reg j t).
  Proof.
    unfold C13.resume_dec, C13.teardown_dec. destruct (open_slot Sticky j t); [|reflexivity].
    destruct (existsb _ reg); reflexivity.
  Qed.

  Lemma teardown_some reg j re k i n sid x :
    teardown_dec reg j (env re Sticky (mint k i n sid)) = Some x ->
    k = Sticky /\ x = sid /\ token_aad Sticky j = token_aad k i /\ exists e, In e reg /\ fst e = sid.
  Proof.
    unfold C13.teardown_dec.
    destruct (open_slot Sticky j (env re Sticky (mint k i n sid))) as [y|] eqn:O; [|discriminate].
    apply open_slot_payload in O as [-> [-> E]].
    destruct (existsb _ reg) eqn:X; [|discriminate]. intros H; inversion H; subst x.
    apply existsb_exists in X as [e [He Hb]]. apply andb_true_iff in Hb as [Hb _]. apply beqb_eq in Hb.
    repeat split; auto. exists e. auto.
  Qed.

  Lemma teardown_own reg j re n sid :
    In (sid, principal_key j) reg -> teardown_dec reg j (env re Sticky (mint Sticky j n sid)) = Some sid.
  Proof.
    intros Hin. unfold C13.teardown_dec. rewrite open_slot_own.
    replace (existsb _ reg) with true; [reflexivity|]. symmetry.
    apply existsb_exists. exists (sid, principal_key j). split; [exact Hin|].
    cbn [fst snd]. now rewrite !beqb_refl.
  Qed.

  (* every route on which a session token is presented refuses foreign tokens,
     whatever the registry holds *)
  Lemma sticky_route_refuses_foreign (r : sroute) reg j re k i n id :
    valid_ident i = true -> valid_ident j = true ->
    sticky_accepts CT open r reg j (env re Sticky (mint k i n id)) = true -> k = Sticky /\ i = j.
  Proof.
    intros Vi Vj H. apply (resume_accept_needs_own_sticky reg j re k i n id Vi Vj).
    destruct r; cbn [C13.sticky_accepts] in H; [exact H | now rewrite resume_is_teardown].
  Qed.

  (* the two routes take the same decision *)
  Lemma sticky_routes_agree (r r' : sroute) reg j t :
    sticky_accepts CT open r reg j t = sticky_accepts CT open r' reg j t.
  Proof. destruct r, r'; cbn [C13.sticky_accepts]; rewrite ?resume_is_teardown; reflexivity. Qed.

  (* ---- the cache: entries stored by other identities never matter -------------- *)
  Lemma has_key_keys k es :
    has_key k (keys es) = true <-> exists e, In e es /\ cache_key (fst e) (snd e) = k.
  Proof.
    unfold has_key, keys. rewrite existsb_exists. split.
    - intros [x [Hin Hx]]. apply in_map_iff in Hin as [e [<- He]]. apply beqb_eq in Hx. eauto.
    - intros [e [He <-]]. exists (cache_key (fst e) (snd e)). split; [|apply beqb_refl].
      apply in_map_iff. eauto.
  Qed.

  Lemma cache_key_callid c c' i i' :
    nul_free c = true -> nul_free c' = true -> cache_key c i = cache_key c' i' ->
    c = c' /\ cache_ident i = cache_ident i'.
  Proof.
    unfold cache_key. destruct sep_is_nul as [_ [_ [-> _]]]. cbn [app].
    intros N1 N2 H. exact (split_at_nul _ _ _ _ N1 N2 H).
  Qed.

  Lemma other_identities_irrelevant_lemma (owner : bytes -> ident) es j re n c tk :
    (forall e, In e es -> snd e = owner (fst e) /\ nul_free (fst e) = true) ->
    nul_free c = true -> valid_ident j = true -> valid_ident (owner c) = true ->
    let tc := env re Cursor (mint Cursor (owner c) n c) in
    continue_dec (keys es) j tc tk
    = continue_dec (keys (filter (fun e => ident_eqb (snd e) j) es)) j tc tk.
  Proof.
    intros Hes Nc Vj Vo tc. unfold C13.continue_dec.
    destruct (open_slot Cursor j tc) as [x|] eqn:O; [|reflexivity].
    apply open_slot_iff in O as [_ [Ho ->]]; auto.
    unfold C13.resolve_dec.
    assert (HK : has_key (cache_key c j) (keys es)
                 = has_key (cache_key c j) (keys (filter (fun e => ident_eqb (snd e) j) es))).
    { destruct (has_key (cache_key c j) (keys es)) eqn:A;
        destruct (has_key (cache_key c j) (keys (filter (fun e => ident_eqb (snd e) j) es))) eqn:B;
        try reflexivity; exfalso.
      - apply has_key_keys in A as [e [He Hk]]. destruct (Hes e He) as [Hs Hn].
        apply cache_key_callid in Hk as [Hc _]; auto.
        assert (F : has_key (cache_key c j) (keys (filter (fun e => ident_eqb (snd e) j) es)) = true).
        { apply has_key_keys. exists e. split.
          - apply filter_In. split; [exact He|]. apply ident_eqb_eq. rewrite Hs, Hc. exact Ho.
          - rewrite Hs, Hc, Ho. reflexivity. }
        congruence.
      - apply has_key_keys in B as [e [He Hk]]. apply filter_In in He as [He _].
        assert (F : has_key (cache_key c j) (keys es) = true) by (apply has_key_keys; eauto).
        congruence. }
    rewrite HK. reflexivity.
  Qed.
End Generic.

(* ---- the two identity keys are NOT injective: one collision, and only one ------ *)
Lemma cache_ident_collision_lemma :
  cache_ident Anon = cache_ident (Auth [] (str "anonymous"))
  /\ principal_key Anon = principal_key (Auth [] (str "anonymous")).
Proof. split; reflexivity. Qed.

Lemma cache_ident_eq_cases i1 i2 :
  valid_ident i1 = true -> valid_ident i2 = true -> cache_ident i1 = cache_ident i2 ->
  i1 = i2 \/ (i1 = Anon /\ i2 = Auth [] (str "anonymous")) \/ (i2 = Anon /\ i1 = Auth [] (str "anonymous")).
Proof.
  assert (A : ck_anon = [] ++ 0 :: str "anonymous") by reflexivity.
  destruct sep_is_nul as [_ [S _]].
  destruct i1 as [|d1 p1], i2 as [|d2 p2]; cbn [valid_ident cache_ident]; intros V1 V2 H.
  - auto.
  - rewrite A, S in H. cbn [app] in H.
    destruct (split_at_nul [] d2 _ _ eq_refl V2 H) as [<- <-]. auto.
  - rewrite A, S in H. cbn [app] in H. symmetry in H.
    destruct (split_at_nul [] d1 _ _ eq_refl V1 H) as [<- <-]. auto.
  - rewrite S in H. cbn [app] in H. destruct (split_at_nul _ _ _ _ V1 V2 H) as [-> ->]. auto.
Qed.

(* ---- the symbolic AEAD is an ideal AEAD (the premises are satisfiable) ---------- *)
Lemma sym_open_seal n a p : sym_open a (sym_seal n a p) = Some p.
Proof. unfold sym_open, sym_seal. now rewrite beqb_refl. Qed.

Lemma sym_open_binds n a a' p p' : sym_open a' (sym_seal n a p) = Some p' -> a' = a.
Proof.
  unfold sym_open, sym_seal. destruct (beqb a' a) eqn:E; [|discriminate].
  intros _. now apply beqb_eq.
Qed.

(* ---- every history: the model's outputs satisfy the decidable property --------- *)
Section Spec.
  Variable CT : Type.
  Variable seal : N -> bytes -> payload -> CT.
  Variable open : bytes -> CT -> option payload.
  Hypothesis open_seal : forall n a p, open a (seal n a p) = Some p.
  Hypothesis open_binds : forall n a a' p p', open a' (seal n a p) = Some p' -> a' = a.
  Variable ids : list raw_ident.

  Notation mint := (mint CT seal).
  Notation env := (env CT).
  Notation step := (step CT seal open ids).
  Notation run := (run CT seal open ids).
  Notation deref := (deref CT).

  Definition tok_prov (t : token CT) (p : prov) : Prop :=
    let '(k, i, id) := p in exists n, t = mint k i n id.

  Lemma sessid_inj m m' : sessid m = sessid m' -> m = m'.
  Proof. unfold sessid. intros H. inversion H. lia. Qed.

  Record inv (s : st CT) (ptoks : list prov) (nc ns : nat) (plast : option prov) (dead : list bytes) : Prop := {
    inv_nc : s_ncalls CT s = nc;
    inv_ns : s_nsess CT s = ns;
    inv_toks : Forall2 tok_prov (s_toks CT s) ptoks;
    inv_last : match s_last CT s, plast with
               | Some t, Some p => tok_prov t p /\ fst (fst p) = Cursor
               | None, None => True
               | _, _ => False
               end;
    inv_reg : forall i sid, In (Sticky, i, sid) ptoks -> has_key sid dead = false ->
              In (sid, principal_key i) (s_reg CT s);
    inv_dead : forall sid, has_key sid dead = true -> forall e, In e (s_reg CT s) -> fst e <> sid;
    inv_sids : forall i sid, In (Sticky, i, sid) ptoks -> exists m, (m < ns)%nat /\ sid = sessid m;
    inv_dead_src : forall sid, has_key sid dead = true -> exists i, In (Sticky, i, sid) ptoks }.

  Lemma Forall2_nth {A B} (R : A -> B -> Prop) l l' n :
    Forall2 R l l' ->
    match nth_error l n, nth_error l' n with
    | Some a, Some b => R a b
    | None, None => True
    | _, _ => False
    end.
  Proof.
    intros F; revert n; induction F as [|a b l l' Hab F IH]; intros [|n]; cbn; auto. apply IH.
  Qed.

  Lemma deref_cases s ptoks nc ns plast dead slot r :
    inv s ptoks nc ns plast dead ->
    match pderef ptoks plast r with
    | Some (k, i, id) => exists n re, deref s slot r = Some (env re slot (mint k i n id))
    | None => deref s slot r = None
    end.
  Proof.
    intros I. destruct r as [|id re|re]; cbn [pderef C13.deref].
    - reflexivity.
    - pose proof (Forall2_nth _ _ _ id (inv_toks _ _ _ _ _ _ I)) as H.
      destruct (nth_error (s_toks CT s) id) as [t|], (nth_error ptoks id) as [[[k i] x]|]; try contradiction; auto.
      destruct H as [n ->]. exists n, re. reflexivity.
    - pose proof (inv_last _ _ _ _ _ _ I) as H.
      destruct (s_last CT s) as [t|], plast as [[[k i] x]|]; try contradiction; auto.
      destruct H as [[n ->] _]. exists n, re. reflexivity.
  Qed.

  Lemma pderef_sticky_in ptoks plast r i sid s nc ns dead :
    inv s ptoks nc ns plast dead -> pderef ptoks plast r = Some (Sticky, i, sid) -> In (Sticky, i, sid) ptoks.
  Proof.
    intros I. destruct r as [|id re|re]; cbn [pderef]; intros H.
    - discriminate.
    - eapply nth_error_In; eauto.
    - pose proof (inv_last _ _ _ _ _ _ I) as L. rewrite H in L.
      destruct (s_last CT s); [|contradiction]. destruct L as [_ L]. cbn in L. discriminate.
  Qed.

  Lemma safe_false slot j p : safe slot j p false = true.
  Proof. reflexivity. Qed.

  Lemma has_key_cons k x l : has_key k (x :: l) = beqb k x || has_key k l.
  Proof. reflexivity. Qed.

  (* one sticky presentation (either route): the decidable spec holds for the model's answer *)
  Lemma sticky_spec_holds s ptoks nc ns plast dead tok j :
    inv s ptoks nc ns plast dead ->
    match deref s Sticky tok with
    | None => pderef ptoks plast tok = None
    | Some t =>
        exists k i sid, pderef ptoks plast tok = Some (k, i, sid) /\
          sticky_spec j (Some (k, i, sid)) dead (is_some (teardown_dec CT open (s_reg CT s) j t)) = true /\
          forall x, teardown_dec CT open (s_reg CT s) j t = Some x -> x = sid /\ In (Sticky, i, sid) ptoks
    end.
  Proof.
    intros I. pose proof (deref_cases _ _ _ _ _ _ Sticky tok I) as Dt.
    destruct (pderef ptoks plast tok) as [[[k i] sid]|] eqn:Pt; [|now rewrite Dt].
    destruct Dt as [n [re ->]]. exists k, i, sid. split; [reflexivity|].
    assert (TS : forall x, teardown_dec CT open (s_reg CT s) j (env re Sticky (mint k i n sid)) = Some x ->
                 x = sid /\ In (Sticky, i, sid) ptoks).
    { intros x T. apply (teardown_some CT seal open open_seal open_binds) in T as [-> [-> _]].
      split; [reflexivity|]. eapply pderef_sticky_in; eauto. }
    split; [|exact TS].
    unfold sticky_spec. apply andb_true_iff; split.
    - destruct (teardown_dec CT open (s_reg CT s) j (env re Sticky (mint k i n sid))) as [x|] eqn:T; [|reflexivity].
      cbn [is_some safe]. unfold both_valid.
      destruct (valid_ident i) eqn:Vi, (valid_ident j) eqn:Vj; cbn [andb]; auto.
      apply (teardown_some CT seal open open_seal open_binds) in T as [-> [_ [E _]]].
      destruct (aad_injective_lemma _ _ _ _ Vj Vi E) as [_ ->]. cbn [kind_eqb andb]. now apply ident_eqb_eq.
    - destruct k; auto. destruct (has_key sid dead) eqn:D.
      + destruct (teardown_dec CT open (s_reg CT s) j (env re Sticky (mint Sticky i n sid))) as [x|] eqn:T; [|reflexivity].
        exfalso. apply (teardown_some CT seal open open_seal open_binds) in T as [_ [_ [_ [e [He Hf]]]]].
        exact (inv_dead _ _ _ _ _ _ I sid D e He Hf).
      + destruct (ident_eqb i j) eqn:E; auto. apply ident_eqb_eq in E. subst i.
        rewrite (teardown_own CT seal open open_seal); [reflexivity|].
        apply (inv_reg _ _ _ _ _ _ I); auto. eapply pderef_sticky_in; eauto.
  Qed.

  Lemma spec_run_holds ops : forall s ptoks nc ns plast dead,
    inv s ptoks nc ns plast dead -> spec_run ids ops (run s ops) ptoks nc ns plast dead = true.
  Proof.
    induction ops as [|o ops IH]; intros s ptoks nc ns plast dead I; [reflexivity|].
    cbn [C13.run]. destruct (step s o) as [s' b] eqn:St.
    destruct o as [who|who| |who cur call|who idx call|who tok|who tok]; cbn [C13.step] in St.
    - (* OInit *)
      inversion St; subst s' b; clear St. cbn [spec_run andb].
      rewrite <- (inv_nc _ _ _ _ _ _ I). apply IH. destruct I as [Inc Ins It Il Ir Id Is Ids].
      constructor; cbn [s_ncalls s_nsess s_toks s_last s_reg]; auto.
      + apply Forall2_app; [exact It|]. repeat constructor; cbn; eexists; reflexivity.
      + intros i sid Hin. apply in_app_or in Hin as [Hin|Hin]; [auto|].
        cbn in Hin. destruct Hin as [H|[H|[]]]; discriminate.
      + intros i sid Hin. apply in_app_or in Hin as [Hin|Hin]; [eauto|].
        cbn in Hin. destruct Hin as [H|[H|[]]]; discriminate.
      + intros sid D. destruct (Ids sid D) as [i Hi]. exists i. apply in_or_app. auto.
    - (* OOpen *)
      inversion St; subst s' b; clear St. cbn [spec_run andb].
      rewrite <- (inv_ns _ _ _ _ _ _ I). apply IH. destruct I as [Inc Ins It Il Ir Id Is Ids].
      assert (Fresh : has_key (sessid (s_nsess CT s)) dead = false).
      { destruct (has_key (sessid (s_nsess CT s)) dead) eqn:D; [|reflexivity]. exfalso.
        destruct (Ids _ D) as [i Hi]. destruct (Is _ _ Hi) as [m [Hm E]].
        apply sessid_inj in E. lia. }
      constructor; cbn [s_ncalls s_nsess s_toks s_last s_reg]; auto.
      + apply Forall2_app; [exact It|]. repeat constructor; cbn; eexists; reflexivity.
      + intros i sid Hin D. apply in_app_or in Hin as [Hin|Hin]; [right; auto|].
        cbn in Hin. destruct Hin as [H|[]]. inversion H; subst. left. reflexivity.
      + intros sid D e [<-|He]; [|eauto]. cbn [fst]. intros E. rewrite <- E in D. congruence.
      + intros i sid Hin. apply in_app_or in Hin as [Hin|Hin].
        * destruct (Is _ _ Hin) as [m [Hm E]]. exists m. split; [lia|exact E].
        * cbn in Hin. destruct Hin as [H|[]]. inversion H; subst. exists (s_nsess CT s). split; [lia|reflexivity].
      + intros sid D. destruct (Ids sid D) as [i Hi]. exists i. apply in_or_app. auto.
    - (* OReset *)
      inversion St; subst s' b; clear St. cbn [spec_run andb]. apply IH.
      destruct I as [Inc Ins It Il Ir Id Is Ids]. constructor; auto.
    - (* OContinue *)
      cbn [spec_run].
      pose proof (deref_cases _ _ _ _ _ _ Cursor cur I) as Dc.
      pose proof (deref_cases _ _ _ _ _ _ Call call I) as Dk.
      set (j := idof ids who) in *.
      destruct (pderef ptoks plast cur) as [[[k i] c]|] eqn:Pc.
      2:{ rewrite Dc in St. inversion St; subst s' b. cbn [safe andb]. apply IH, I. }
      destruct Dc as [n [re Dc]]. rewrite Dc in St.
      destruct (continue_dec CT open (s_cache CT s) j (env re Cursor (mint k i n c)) (deref s Call call))
        as [[c' p]|] eqn:CD.
      + (* accepted *)
        inversion St; subst s' b; clear St.
        assert (Hc : k = Cursor /\ c' = c /\ token_aad Cursor j = token_aad k i).
        { unfold C13.continue_dec in CD.
          destruct (open_slot CT open Cursor j (env re Cursor (mint k i n c))) as [x|] eqn:O; [|discriminate].
          apply (open_slot_payload CT seal open open_seal open_binds) in O as [-> [-> E]].
          destruct (resolve_dec CT open (s_cache CT s) j c (deref s Call call)); inversion CD; auto. }
        destruct Hc as [-> [-> E]].
        assert (S1 : safe Cursor j (Some (Cursor, i, c)) true = true).
        { cbn [safe]. unfold both_valid. destruct (valid_ident i) eqn:Vi, (valid_ident j) eqn:Vj; cbn [andb]; auto.
          destruct (aad_injective_lemma _ _ _ _ Vj Vi E) as [_ ->]. cbn [kind_eqb andb].
          now apply ident_eqb_eq. }
        apply andb_true_iff; split; [apply andb_true_iff; split; [exact S1|]|].
        { destruct (pderef ptoks plast call) as [[[[] ?] ?]|]; auto. destruct (_ && _); auto. }
        apply IH.
        destruct I as [Inc Ins It Il Ir Id Is Ids]. constructor; cbn [s_ncalls s_nsess s_toks s_last s_reg]; auto.
        split; [eexists; reflexivity | reflexivity].
      + (* refused *)
        inversion St; subst s' b; clear St. rewrite safe_false. cbn [andb].
        assert (S2 : match k with
                     | Cursor => match pderef ptoks plast call with
                                 | Some (Call, i', c'0) => if ident_eqb i j && ident_eqb i' j && beqb c c'0 then false else true
                                 | _ => true end
                     | _ => true end = true).
        { destruct k; auto.
          destruct (pderef ptoks plast call) as [[[[] i'] c0]|] eqn:Pk; auto.
          destruct (ident_eqb i j && ident_eqb i' j && beqb c c0) eqn:E; auto. exfalso.
          apply andb_true_iff in E as [E E3]. apply andb_true_iff in E as [E1 E2].
          apply ident_eqb_eq in E1, E2. apply beqb_eq in E3. subst i i' c0.
          destruct Dk as [m [re' Dk]]. rewrite Dk in CD.
          exact (continue_echo_accepts CT seal open open_seal (s_cache CT s) j re re' n m c CD). }
        apply andb_true_iff; split; [exact S2 | apply IH, I].
    - (* OResolveRaw *)
      cbn [spec_run].
      destruct (resolve_dec CT open (s_cache CT s) (idof ids who) (callid idx) (deref s Call call)) as [p|];
        inversion St; subst s' b; clear St; apply IH; [|exact I].
      destruct I as [Inc Ins It Il Ir Id Is Ids]. constructor; auto.
    - (* OResume *)
      cbn [spec_run]. set (j := idof ids who) in *.
      pose proof (sticky_spec_holds _ _ _ _ _ _ tok j I) as SS.
      destruct (deref s Sticky tok) as [t|].
      + destruct SS as [k [i [sid [-> [S _]]]]]. inversion St; subst s' b; clear St.
        rewrite (resume_is_teardown CT open). apply andb_true_iff; split; [exact S | apply IH, I].
      + rewrite SS. inversion St; subst s' b. apply IH, I.
    - (* OTeardown *)
      cbn [spec_run]. set (j := idof ids who) in *.
      pose proof (sticky_spec_holds _ _ _ _ _ _ tok j I) as SS.
      destruct (deref s Sticky tok) as [t|].
      2:{ rewrite SS. inversion St; subst s' b. apply IH, I. }
      destruct SS as [k [i [sid [-> [S TS]]]]].
      destruct (teardown_dec CT open (s_reg CT s) j t) as [x|] eqn:T.
      2:{ inversion St; subst s' b. apply andb_true_iff; split; [exact S | apply IH, I]. }
      inversion St; subst s' b; clear St. cbn [is_some] in S.
      apply andb_true_iff; split; [exact S|]. destruct (TS x eq_refl) as [-> Hin].
      apply IH. destruct I as [Inc Ins It Il Ir Id Is Ids].
      constructor; cbn [s_ncalls s_nsess s_toks s_last s_reg]; auto.
      + intros i' sid' Hin' D. rewrite has_key_cons in D. apply orb_false_iff in D as [D1 D2].
        apply filter_In. split; [auto|]. cbn [fst]. now rewrite D1.
      + intros sid' D e He Hf. apply filter_In in He as [He Hn].
        rewrite has_key_cons in D. apply orb_true_iff in D as [D|D].
        * apply beqb_eq in D. subst sid'. rewrite Hf, beqb_refl in Hn. discriminate.
        * exact (Id sid' D e He Hf).
      + intros sid' D. rewrite has_key_cons in D. apply orb_true_iff in D as [D|D]; [|eauto].
        apply beqb_eq in D. subst sid'. eauto.
  Qed.

  Lemma inv0 : inv (st0 CT) [] 0 0 None [].
  Proof. constructor; cbn; auto; try discriminate. intros ? ? []. Qed.
End Spec.

Lemma model_meets_spec : forall i, spec_ok i (model i) = true.
Proof.
  intros i. unfold spec_ok, model.
  apply (spec_run_holds sym_ct sym_seal sym_open sym_open_seal sym_open_binds). apply inv0.
Qed.

(* ---- reachable caches: every entry was stored under the owner of its call id ---- *)
Section Reach.
  Variable CT : Type.
  Variable seal : N -> bytes -> payload -> CT.
  Variable open : bytes -> CT -> option payload.
  Hypothesis open_seal : forall n a p, open a (seal n a p) = Some p.
  Hypothesis open_binds : forall n a a' p p', open a' (seal n a p) = Some p' -> a' = a.
  Variable ids : list raw_ident.
  Hypothesis ids_valid : Forall (fun r => valid_ident (norm r) = true) ids.

  Notation mint := (mint CT seal).
  Notation env := (env CT).
  Notation step := (step CT seal open ids).
  Notation exec := (exec CT seal open ids).
  Notation deref := (deref CT).

  Lemma idof_valid w : valid_ident (idof ids w) = true.
  Proof.
    unfold idof. destruct (nth_in_or_default w ids RNil) as [H | E]; [|rewrite E; reflexivity].
    rewrite Forall_forall in ids_valid. exact (ids_valid _ H).
  Qed.

  Lemma callid_inj m m' : callid m = callid m' -> m = m'.
  Proof. unfold callid. intros H. inversion H. lia. Qed.

  Lemma callid_nul_free m : nul_free (callid m) = true.
  Proof. unfold callid. apply nul_free_cons. split; [lia | reflexivity]. Qed.

  Definition owned (ow : list ident) (c : bytes) (i : ident) : Prop :=
    exists m, c = callid m /\ nth_error ow m = Some i.

  Definition tok_ok (ow : list ident) (t : token CT) : Prop :=
    exists k i n id, t = mint k i n id /\ (k <> Sticky -> owned ow id i).

  Record J (s : st CT) (ow : list ident) : Prop := {
    J_n : s_ncalls CT s = length ow;
    J_ow : forall i, In i ow -> valid_ident i = true;
    J_toks : forall t, In t (s_toks CT s) \/ s_last CT s = Some t -> tok_ok ow t;
    J_cache : exists es, s_cache CT s = keys es /\ forall e, In e es -> owned ow (fst e) (snd e) }.

  Lemma owned_mono ow x c i : owned ow c i -> owned (ow ++ x) c i.
  Proof.
    intros [m [E H]]. exists m. split; [exact E|].
    rewrite nth_error_app1; [exact H|]. apply nth_error_Some. congruence.
  Qed.

  Lemma tok_ok_mono ow x t : tok_ok ow t -> tok_ok (ow ++ x) t.
  Proof.
    intros [k [i [n [id [E H]]]]]. exists k, i, n, id. split; [exact E|].
    intros K. apply owned_mono. auto.
  Qed.

  Lemma put_keys c i es : exists es', put (cache_key c i) (keys es) = keys es'
                                      /\ forall e, In e es' -> e = (c, i) \/ In e es.
  Proof.
    unfold put. destruct (has_key (cache_key c i) (keys es)).
    - exists es. auto.
    - exists ((c, i) :: es). split; [reflexivity|]. intros e [<-|H]; auto.
  Qed.

  Lemma deref_src s slot r t :
    deref s slot r = Some t ->
    exists re t0, t = env re slot t0 /\ (In t0 (s_toks CT s) \/ s_last CT s = Some t0).
  Proof.
    destruct r as [|id re|re]; cbn [C13.deref]; intros H.
    - discriminate.
    - destruct (nth_error (s_toks CT s) id) as [t0|] eqn:E; [|discriminate].
      inversion H. exists re, t0. split; [reflexivity|]. left. eapply nth_error_In; eauto.
    - destruct (s_last CT s) as [t0|] eqn:E; [|discriminate].
      inversion H. exists re, t0. auto.
  Qed.

  (* a cursor/call token of the history that opens for [j] names a call [j] owns *)
  Lemma opened_is_owned ow slot j re k i n id x :
    slot <> Sticky -> (forall i, In i ow -> valid_ident i = true) -> valid_ident j = true ->
    (k <> Sticky -> owned ow id i) ->
    open_slot CT open slot j (env re slot (mint k i n id)) = Some x -> x = id /\ owned ow id j.
  Proof.
    intros Hs Vow Vj Ho O.
    apply (open_slot_payload CT seal open open_seal open_binds) in O as [-> [-> E]].
    split; [reflexivity|]. pose proof (Ho Hs) as [m [Ec Hm]].
    assert (Vi : valid_ident i = true) by (apply Vow; eapply nth_error_In; eauto).
    destruct (aad_injective_lemma _ _ _ _ Vj Vi E) as [_ ->]. exists m. auto.
  Qed.

  Lemma step_J s ow o : J s ow -> J (fst (step s o)) (ow ++ owners ids [o]).
  Proof.
    intros [Jn Jv Jt [es [Jc Je]]].
    destruct o as [who|who| |who cur call|who idx call|who tok|who tok]; cbn [C13.step owners fst];
      rewrite ?app_nil_r.
    - (* OInit *)
      set (i := idof ids who). set (c := callid (s_ncalls CT s)).
      assert (Own : owned (ow ++ [i]) c i).
      { exists (s_ncalls CT s). split; [reflexivity|]. rewrite Jn, nth_error_app2, Nat.sub_diag; auto. }
      constructor; cbn [s_ncalls s_toks s_last s_cache].
      + rewrite app_length, Jn. cbn. lia.
      + intros i0 H. apply in_app_or in H as [H|[<-|[]]]; [auto | apply idof_valid].
      + intros t [H|H].
        * apply in_app_or in H as [H|H]; [apply tok_ok_mono; auto|].
          cbn in H. destruct H as [<-|[<-|[]]]; eexists _, _, _, _; split; try reflexivity; auto.
        * apply tok_ok_mono; auto.
      + rewrite Jc. destruct (put_keys c i es) as [es' [E H]]. exists es'. split; [exact E|].
        intros e He. destruct (H e He) as [->|He']; [exact Own | apply owned_mono; auto].
    - (* OOpen *)
      constructor; cbn [s_ncalls s_toks s_last s_cache]; auto.
      + intros t [H|H]; auto. apply in_app_or in H as [H|H]; auto.
        cbn in H. destruct H as [<-|[]]. eexists _, _, _, _; split; [reflexivity|congruence].
      + eauto.
    - (* OReset *)
      constructor; cbn [s_ncalls s_toks s_last s_cache]; auto.
      exists []. split; [reflexivity|]. intros e [].
    - (* OContinue *)
      set (j := idof ids who).
      destruct (deref s Cursor cur) as [tc|] eqn:D; [|constructor; eauto].
      destruct (continue_dec CT open (s_cache CT s) j tc (deref s Call call)) as [[c p]|] eqn:CD;
        [|constructor; eauto].
      apply deref_src in D as [re [t0 [-> Src]]].
      destruct (Jt t0 Src) as [k [i [n [id [-> Ho]]]]].
      assert (Hc : owned ow c j).
      { unfold C13.continue_dec in CD.
        destruct (open_slot CT open Cursor j (env re Cursor (mint k i n id))) as [x|] eqn:O; [|discriminate].
        apply (opened_is_owned ow) in O as [-> Hj]; auto; [|discriminate | apply idof_valid].
        destruct (resolve_dec CT open (s_cache CT s) j id (deref s Call call)); inversion CD; subst. exact Hj. }
      constructor; cbn [s_ncalls s_toks s_last s_cache]; auto.
      + intros t [H|H]; auto. inversion H. eexists _, _, _, _; split; [reflexivity|auto].
      + destruct p; [|eauto]. rewrite Jc. destruct (put_keys c j es) as [es' [E H]].
        exists es'. split; [exact E|]. intros e He. destruct (H e He) as [->|He']; auto.
    - (* OResolveRaw *)
      set (j := idof ids who).
      destruct (resolve_dec CT open (s_cache CT s) j (callid idx) (deref s Call call)) as [p|] eqn:RD;
        [|constructor; eauto].
      constructor; cbn [s_ncalls s_toks s_last s_cache]; auto.
      destruct p; [|eauto].
      assert (Hc : owned ow (callid idx) j).
      { unfold C13.resolve_dec in RD.
        destruct (has_key (cache_key (callid idx) j) (s_cache CT s)); [discriminate|].
        destruct (deref s Call call) as [tk|] eqn:D; [|discriminate].
        apply deref_src in D as [re [t0 [-> Src]]].
        destruct (Jt t0 Src) as [k [i [n [id [-> Ho]]]]].
        destruct (open_slot CT open Call j (env re Call (mint k i n id))) as [x|] eqn:O; [|discriminate].
        apply (opened_is_owned ow) in O as [-> Hj]; auto; [|discriminate | apply idof_valid].
        destruct (beqb id (callid idx)) eqn:B; [|discriminate]. apply beqb_eq in B. now rewrite <- B. }
      rewrite Jc. destruct (put_keys (callid idx) j es) as [es' [E H]].
      exists es'. split; [exact E|]. intros e He. destruct (H e He) as [->|He']; auto.
    - (* OResume *)
      destruct (deref s Sticky tok); constructor; eauto.
    - (* OTeardown: the registry changes, tokens and cache do not *)
      destruct (deref s Sticky tok) as [t|]; [|constructor; eauto].
      destruct (teardown_dec CT open (s_reg CT s) (idof ids who) t); constructor; eauto.
  Qed.

  Lemma exec_J ops : forall s ow, J s ow -> J (exec s ops) (ow ++ owners ids ops).
  Proof.
    induction ops as [|o ops IH]; intros s ow Js; cbn [C13.exec].
    - cbn [owners]. now rewrite app_nil_r.
    - apply step_J with (o := o) in Js. apply IH in Js.
      replace (ow ++ owners ids (o :: ops)) with ((ow ++ owners ids [o]) ++ owners ids ops); [exact Js|].
      rewrite <- app_assoc. f_equal. destruct o; reflexivity.
  Qed.

  Lemma J0 : J (st0 CT) [].
  Proof.
    constructor; cbn.
    - reflexivity.
    - intros i [].
    - intros t [[]|H]; discriminate.
    - exists []. split; [reflexivity|]. intros e [].
  Qed.

  (* the n-th call id belongs to the identity of the n-th /init: a total owner function *)
  Definition owner_of (ops : list op) (c : bytes) : ident :=
    match c with
    | [b] => nth (N.to_nat (b - 1)) (owners ids ops) Anon
    | _ => Anon
    end.

  Lemma reachable_cache_owned_lemma ops :
    exists es, s_cache CT (exec (st0 CT) ops) = keys es
               /\ forall e, In e es -> snd e = owner_of ops (fst e) /\ nul_free (fst e) = true.
  Proof.
    destruct (exec_J ops _ _ J0) as [_ _ _ [es [E H]]]. cbn [app] in H. exists es. split; [exact E|].
    intros e He. destruct (H e He) as [m [Ec Hm]]. rewrite Ec. split; [|apply callid_nul_free].
    unfold owner_of, callid. replace (N.to_nat (N.of_nat m + 1 - 1)) with m by lia.
    symmetry. now apply nth_error_nth.
  Qed.

  Lemma owner_of_valid ops c : valid_ident (owner_of ops c) = true.
  Proof.
    unfold owner_of. destruct c as [|b [|? ?]]; try reflexivity.
    destruct (nth_in_or_default (N.to_nat (b - 1)) (owners ids ops) Anon) as [H | E]; [|rewrite E; reflexivity].
    revert H. generalize (nth (N.to_nat (b - 1)) (owners ids ops) Anon). intros i.
    induction ops as [|o ops IH]; cbn [owners]; [intros []|].
    destruct o; cbn [In]; auto. intros [<-|H]; [apply idof_valid | auto].
  Qed.

  (* for every history: whatever identities used the server before, the entries they
     stored do not change the decision for [j] on a cursor of any call of the history *)
  Lemma reachable_history_independent_lemma ops j re n m tk :
    valid_ident j = true ->
    exists es, s_cache CT (exec (st0 CT) ops) = keys es /\
      let tc := env re Cursor (mint Cursor (owner_of ops (callid m)) n (callid m)) in
      continue_dec CT open (keys es) j tc tk
      = continue_dec CT open (keys (filter (fun e => ident_eqb (snd e) j) es)) j tc tk.
  Proof.
    intros Vj. destruct (reachable_cache_owned_lemma ops) as [es [E H]]. exists es. split; [exact E|].
    apply (other_identities_irrelevant_lemma CT seal open open_seal open_binds (owner_of ops)); auto.
    - apply callid_nul_free.
    - apply owner_of_valid.
  Qed.
End Reach.

(* small wrappers so that Props only says [exact] *)
Lemma aad_injective_cursor_call k1 k2 i1 i2 :
  k1 <> Sticky -> k2 <> Sticky ->
  valid_ident i1 = true -> valid_ident i2 = true ->
  token_aad k1 i1 = token_aad k2 i2 -> k1 = k2 /\ i1 = i2.
Proof.
  intros N1 N2 V1 V2 H. destruct (aad_injective_lemma _ _ _ _ V1 V2 H) as [F E].
  split; [exact (aad_family_cursor_call _ _ N1 N2 F) | exact E].
Qed.

Lemma aad_kind_separation_refuted_lemma :
  exists k1 k2, k1 <> k2 /\ forall i, token_aad k1 i = token_aad k2 i.
Proof. exists Sticky, Cursor. split; [discriminate | exact sticky_shares_cursor_aad_lemma]. Qed.

Lemma nul_domain_refuted_lemma :
  exists i1 i2, i1 <> i2 /\ token_aad Cursor i1 = token_aad Cursor i2.
Proof. exists (Auth [97; 0; 98] [99]), (Auth [97] [98; 0; 99]). split; [discriminate | reflexivity]. Qed.

Lemma spec_any_aead (CT : Type) (seal : N -> bytes -> payload -> CT) (open : bytes -> CT -> option payload) :
  (forall n a p, open a (seal n a p) = Some p) ->
  (forall n a a' p p', open a' (seal n a p) = Some p' -> a' = a) ->
  forall ids ops, spec_run ids ops (run CT seal open ids (st0 CT) ops) [] 0 0 None [] = true.
Proof. intros H1 H2 ids ops. apply (spec_run_holds CT seal open H1 H2). apply inv0. Qed.

(* identities are compared bytewise: no spelling of a domain or principal (letter case,
   blanks, ...) is conflated with another by any of the three kinds' associated data *)
Lemma identity_bytes_significant_lemma k1 k2 d1 p1 d2 p2 :
  nul_free d1 = true -> nul_free d2 = true ->
  token_aad k1 (Auth d1 p1) = token_aad k2 (Auth d2 p2) -> d1 = d2 /\ p1 = p2.
Proof.
  intros N1 N2 H. destruct (aad_injective_lemma k1 k2 (Auth d1 p1) (Auth d2 p2) N1 N2 H) as [_ E].
  inversion E; auto.
Qed.

Lemma case_variants_distinct_lemma :
  forall k1 k2 p, token_aad k1 (Auth (str "SSO") p) <> token_aad k2 (Auth (str "sso") p).
Proof.
  intros k1 k2 p H. apply identity_bytes_significant_lemma in H as [E _]; [discriminate| |]; reflexivity.
Qed.
