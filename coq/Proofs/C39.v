(* Proofs/C39.v — lemmas and proofs for property C39 (sampler + async emitter). *)
From Coq Require Import ZifyBool ZifyN ZifyNat.
From VR Require Import Model.C39.
Local Arguments N.eqb : simpl never.
Local Arguments N.ltb : simpl never.
Local Arguments N.leb : simpl never.
Local Arguments N.add : simpl never.
Local Arguments N.of_nat : simpl never.
Local Arguments N.to_nat : simpl never.
Local Arguments fnv1a32 : simpl never.
Local Arguments base36 : simpl never.
Local Arguments rate_ge1 : simpl never.
Local Arguments threshold : simpl never.
Open Scope nat_scope.

(* ====================================================================== *)
(* Part 1: sampler                                                         *)
(* ====================================================================== *)

Lemma keep_error s c r : is_error r = true -> snd (keep s c r) = kept_plain.
Proof. unfold keep; intros ->. destruct (rate_ge1 _); reflexivity. Qed.

Lemma keep_all s c r : rate_ge1 (sp_rate s) = true -> snd (keep s c r) = kept_plain.
Proof. unfold keep; intros ->. reflexivity. Qed.

Lemma keep_explicit s c r k :
  is_error r = false -> explicit_key r = Some k ->
  snd (keep s c r) = if rate_ge1 (sp_rate s) then kept_plain else decide s k.
Proof. unfold keep; intros -> ->. destruct (rate_ge1 _); reflexivity. Qed.

Lemma decide_rate s k :
  so_kept (decide s k) = true -> so_rate (decide s k) = Some (sp_rate s).
Proof. unfold decide. destruct (_ <? _)%N; cbn; [discriminate | reflexivity]. Qed.

Lemma decide_dropped s k :
  so_kept (decide s k) = false -> so_rate (decide s k) = None.
Proof. unfold decide. destruct (_ <? _)%N; cbn; [reflexivity | discriminate]. Qed.

Lemma keep_rate s c r :
  rate_ge1 (sp_rate s) = false -> is_error r = false ->
  so_kept (snd (keep s c r)) = true -> so_rate (snd (keep s c r)) = Some (sp_rate s).
Proof.
  unfold keep; intros -> ->. destruct (explicit_key r); cbn [snd]; apply decide_rate.
Qed.

Lemma keep_dropped_unstamped s c r :
  so_kept (snd (keep s c r)) = false -> so_rate (snd (keep s c r)) = None.
Proof.
  unfold keep. destruct (rate_ge1 _); [discriminate|]. destruct (is_error r); [discriminate|].
  destruct (explicit_key r); cbn [snd]; apply decide_dropped.
Qed.

(* the decision reads status, stream_id and request_id only: any two records
   agreeing on those three (whatever else they carry: cancelled, method, ...)
   are treated identically, in every sampler and counter state *)
Lemma extras_irrelevant s c r r' :
  s_status r = s_status r' -> s_stream r = s_stream r' -> s_request r = s_request r' ->
  keep s c r = keep s c r'.
Proof.
  intros H1 H2 H3. unfold keep, is_error, explicit_key. now rewrite H1, H2, H3.
Qed.

Lemma run_in s : forall recs c r o,
  In (r, o) (combine recs (run_sampler s c recs)) -> exists c0, o = snd (keep s c0 r).
Proof.
  induction recs as [|r0 t IH]; intros c r o Hin; [destruct Hin|].
  cbn [run_sampler] in Hin. destruct (keep s c r0) as [c' o0] eqn:E.
  cbn [combine In] in Hin. destruct Hin as [Heq | Hin].
  - inversion Heq; subst. exists c. now rewrite E.
  - eapply IH; eauto.
Qed.

Lemma run_length s : forall recs c, length (run_sampler s c recs) = length recs.
Proof.
  induction recs as [|r0 t IH]; intros c; [reflexivity|].
  cbn [run_sampler]. destruct (keep s c r0) as [c' o0]. cbn [length]. now rewrite IH.
Qed.

Lemma nth_in_combine {A B} : forall (a : list A) (b : list B) i x y,
  nth_error a i = Some x -> nth_error b i = Some y -> In (x, y) (combine a b).
Proof.
  induction a as [|a0 a IH]; intros b i x y Ha Hb; destruct i; cbn in Ha; try discriminate.
  - destruct b as [|b0 b]; cbn in Hb; [discriminate|]. inversion Ha; inversion Hb; subst. now left.
  - destruct b as [|b0 b]; cbn in Hb; [discriminate|]. right. eapply IH; eauto.
Qed.

Lemma run_nth s recs c i r o :
  nth_error recs i = Some r -> nth_error (run_sampler s c recs) i = Some o ->
  exists c0, o = snd (keep s c0 r).
Proof. intros Hr Ho. eapply run_in, nth_in_combine; eauto. Qed.

(* errors are always kept, and never stamped, wherever they occur in any sequence *)
Lemma errors_kept s c recs i r o :
  nth_error recs i = Some r -> nth_error (run_sampler s c recs) i = Some o ->
  is_error r = true -> so_kept o = true.
Proof.
  intros Hr Ho He. destruct (run_nth _ _ _ _ _ _ Hr Ho) as [c0 ->]. now rewrite keep_error.
Qed.

Lemma same_key s c recs i j ri rj oi oj k :
  nth_error recs i = Some ri -> nth_error (run_sampler s c recs) i = Some oi ->
  nth_error recs j = Some rj -> nth_error (run_sampler s c recs) j = Some oj ->
  is_error ri = false -> is_error rj = false ->
  explicit_key ri = Some k -> explicit_key rj = Some k ->
  oi = oj.
Proof.
  intros Hri Hoi Hrj Hoj Ei Ej Ki Kj.
  destruct (run_nth _ _ _ _ _ _ Hri Hoi) as [ci ->].
  destruct (run_nth _ _ _ _ _ _ Hrj Hoj) as [cj ->].
  now rewrite (keep_explicit _ _ _ _ Ei Ki), (keep_explicit _ _ _ _ Ej Kj).
Qed.

Lemma explicit_key_stream r k :
  s_stream r = Some k -> k <> [] -> explicit_key r = Some k.
Proof. unfold explicit_key; intros -> Hk. destruct k; [congruence | reflexivity]. Qed.

Lemma explicit_key_request r k :
  nonempty (s_stream r) = None -> s_request r = Some k -> k <> [] -> explicit_key r = Some k.
Proof. unfold explicit_key; intros -> -> Hk. destruct k; [congruence | reflexivity]. Qed.

Lemma same_stream s c recs i j ri rj oi oj k :
  nth_error recs i = Some ri -> nth_error (run_sampler s c recs) i = Some oi ->
  nth_error recs j = Some rj -> nth_error (run_sampler s c recs) j = Some oj ->
  is_error ri = false -> is_error rj = false ->
  k <> [] -> s_stream ri = Some k -> s_stream rj = Some k ->
  so_kept oi = so_kept oj.
Proof.
  intros H1 H2 H3 H4 E1 E2 Hk S1 S2.
  rewrite (same_key s c recs i j ri rj oi oj k); auto using explicit_key_stream.
Qed.

Lemma same_request s c recs i j ri rj oi oj k :
  nth_error recs i = Some ri -> nth_error (run_sampler s c recs) i = Some oi ->
  nth_error recs j = Some rj -> nth_error (run_sampler s c recs) j = Some oj ->
  is_error ri = false -> is_error rj = false ->
  nonempty (s_stream ri) = None -> nonempty (s_stream rj) = None ->
  k <> [] -> s_request ri = Some k -> s_request rj = Some k ->
  so_kept oi = so_kept oj.
Proof.
  intros H1 H2 H3 H4 E1 E2 N1 N2 Hk S1 S2.
  rewrite (same_key s c recs i j ri rj oi oj k); auto using explicit_key_request.
Qed.

Lemma kept_has_rate s c recs i r o :
  rate_ge1 (sp_rate s) = false ->
  nth_error recs i = Some r -> nth_error (run_sampler s c recs) i = Some o ->
  is_error r = false -> so_kept o = true -> so_rate o = Some (sp_rate s).
Proof.
  intros Hs Hr Ho He Hk. destruct (run_nth _ _ _ _ _ _ Hr Ho) as [c0 ->]. now apply keep_rate.
Qed.

Lemma dropped_unstamped s c recs i r o :
  nth_error recs i = Some r -> nth_error (run_sampler s c recs) i = Some o ->
  so_kept o = false -> so_rate o = None.
Proof.
  intros Hr Ho Hk. destruct (run_nth _ _ _ _ _ _ Hr Ho) as [c0 ->]. now apply keep_dropped_unstamped.
Qed.

Lemma no_sampling_keeps_all s c recs i r o :
  rate_ge1 (sp_rate s) = true ->
  nth_error recs i = Some r -> nth_error (run_sampler s c recs) i = Some o -> o = kept_plain.
Proof.
  intros Hs Hr Ho. destruct (run_nth _ _ _ _ _ _ Hr Ho) as [c0 ->]. now apply keep_all.
Qed.

Lemma new_sampler_rate b s : new_sampler b = Some s -> sp_rate s = b /\ sp_thr s = threshold b
  /\ f_nan b = false /\ rate_lt0 b = false /\ rate_gt1 b = false.
Proof.
  unfold new_sampler. destruct (f_nan b) eqn:E1; [discriminate|].
  destruct (rate_lt0 b) eqn:E2; [discriminate|]. destruct (rate_gt1 b) eqn:E3; [discriminate|].
  cbn. intros H; inversion H; subst; cbn. auto.
Qed.

Lemma sample_spec_model rate s recs :
  new_sampler rate = Some s -> sample_spec rate recs (run_sampler s 0 recs) = true.
Proof.
  intros Hn. apply new_sampler_rate in Hn as (Hr & _). unfold sample_spec.
  repeat (apply andb_true_intro; split).
  - rewrite run_length. apply Nat.eqb_refl.
  - apply forallb_forall. intros [r o] Hin. cbn [fst snd].
    destruct (run_in _ _ _ _ _ Hin) as [c0 ->].
    destruct (is_error r) eqn:E; [|reflexivity]. now rewrite keep_error.
  - apply forallb_forall. intros [r1 o1] Hin1. apply forallb_forall. intros [r2 o2] Hin2.
    unfold same_fate_ok.
    destruct (run_in _ _ _ _ _ Hin1) as [c1 ->]. destruct (run_in _ _ _ _ _ Hin2) as [c2 ->].
    destruct (is_error r1) eqn:E1; [reflexivity|]. destruct (is_error r2) eqn:E2; [reflexivity|].
    cbn [negb andb].
    destruct (explicit_key r1) as [k1|] eqn:K1; [|reflexivity].
    destruct (explicit_key r2) as [k2|] eqn:K2; [|reflexivity].
    destruct (beqb k1 k2) eqn:Eb; [|reflexivity]. apply beqb_eq in Eb; subst k2.
    rewrite (keep_explicit _ _ _ _ E1 K1), (keep_explicit _ _ _ _ E2 K2). apply Bool.eqb_reflx.
  - destruct (rate_ge1 rate) eqn:Eg; [reflexivity|].
    apply forallb_forall. intros [r o] Hin. cbn [fst snd].
    destruct (run_in _ _ _ _ _ Hin) as [c0 ->].
    destruct (so_kept _) eqn:Ek; [|reflexivity]. destruct (is_error r) eqn:E; [reflexivity|].
    cbn [negb andb implb]. rewrite keep_rate; auto; [|now rewrite Hr].
    rewrite Hr. cbn. apply N.eqb_refl.
Qed.

(* ====================================================================== *)
(* Part 2: async emitter                                                   *)
(* ====================================================================== *)

Definition fate_ok (f : option N) (id : N) : Prop := f = None \/ f = Some id.

Lemma fate_okb_spec f id : fate_okb f id = true <-> fate_ok f id.
Proof.
  unfold fate_okb, fate_ok. destruct f as [i|]; split; intro H; auto.
  - apply N.eqb_eq in H. subst. now right.
  - destruct H as [H|H]; [discriminate|]. inversion H. apply N.eqb_refl.
Qed.

Lemma forall2b_spec {A B} (p : A -> B -> bool) (P : A -> B -> Prop)
  (Hp : forall x y, p x y = true <-> P x y) a b :
  forall2b p a b = true <-> Forall2 P a b.
Proof.
  revert b; induction a as [|x a IH]; intros [|y b]; cbn; split; intro H;
    try discriminate; try constructor; try (now inversion H).
  - apply andb_true_iff in H as [H1 H2]. now apply Hp.
  - apply andb_true_iff in H as [H1 H2]. now apply IH.
  - inversion H; subst. apply andb_true_iff; split; [now apply Hp | now apply IH].
Qed.

Lemma enq_enabled cap s r : exists s', step cap s (Enq r) = Some s'.
Proof.
  unfold step. destruct (st_closed s); [eauto|].
  destruct (N.of_nat (length (st_q s)) <? cap)%N; eauto.
Qed.

Lemma close_enabled cap s : exists s', step cap s Close = Some s'.
Proof. unfold step. eauto. Qed.

(* ---- expand / ledger algebra ------------------------------------------ *)
Lemma expand_app a b : expand (a ++ b) = expand a ++ expand b.
Proof.
  induction a as [|x a IH]; [reflexivity|]. cbn [app expand]. rewrite IH.
  now rewrite <- app_assoc, <- app_comm_cons.
Qed.

Lemma sum_stamps_app a b : sum_stamps (a ++ b) = sum_stamps a + sum_stamps b.
Proof. induction a as [|x a IH]; cbn [app sum_stamps]; [reflexivity | lia]. Qed.

Lemma length_expand l : length (expand l) = length l + sum_stamps l.
Proof.
  induction l as [|x l IH]; [reflexivity|]. cbn [expand sum_stamps length].
  rewrite app_length, repeat_length. cbn [length]. lia.
Qed.

Lemma repeat_snoc {A} (x : A) n : repeat x (S n) = repeat x n ++ [x].
Proof. induction n as [|n IH]; [reflexivity|]. cbn [repeat app] in *. now rewrite <- IH. Qed.

Lemma accounted_ledger s : accounted s = length (ledger s).
Proof. unfold accounted, ledger. rewrite app_length, length_expand, repeat_length. lia. Qed.

(* what one step appends to the ledger *)
Definition delta (cap : N) (s : astate) (o : op) : list (option N) :=
  match o with
  | Enq r => if st_closed s then []
             else if (N.of_nat (length (st_q s)) <? cap)%N then [Some (a_id r)] else [None]
  | _ => []
  end.

Lemma stamp_n_pending id p :
  stamp_n (id, if (0 <? p)%N then Some p else None) = N.to_nat p.
Proof.
  unfold stamp_n. cbn [snd]. destruct (0 <? p)%N eqn:E; [reflexivity|].
  apply N.ltb_ge in E. lia.
Qed.

Lemma ledger_exec cap s o :
  fresh_op o = true -> ledger (exec cap s o) = ledger s ++ delta cap s o.
Proof.
  intros Hf. unfold exec, step, delta. destruct o as [r| | |].
  - destruct (st_closed s) eqn:Ec; [now rewrite app_nil_r|].
    cbn [fresh_op] in Hf. destruct (a_pre r) eqn:Epre; [discriminate|].
    destruct (N.of_nat (length (st_q s)) <? cap)%N.
    + unfold ledger, inflight. cbn [st_q st_w st_written st_pending].
      rewrite !app_assoc. rewrite expand_app. cbn [expand].
      rewrite stamp_n_pending. change (N.to_nat 0) with 0. cbn [repeat].
      rewrite !app_nil_r. now rewrite <- !app_assoc.
    + unfold ledger, inflight. cbn [st_q st_w st_written st_pending].
      replace (N.to_nat (st_pending s + 1)) with (S (N.to_nat (st_pending s))) by lia.
      rewrite repeat_snoc. now rewrite app_assoc.
  - rewrite app_nil_r. destruct (st_w s) eqn:Ew; try reflexivity.
    destruct (st_q s) as [|x t] eqn:Eq.
    + destruct (st_closed s); [|reflexivity].
      unfold ledger, inflight. cbn [st_q st_w st_written st_pending]. now rewrite Ew, Eq.
    + unfold ledger, inflight. cbn [st_q st_w st_written st_pending busy_list]. now rewrite Ew, Eq.
  - rewrite app_nil_r. destruct (st_w s) eqn:Ew; try reflexivity.
    unfold ledger, inflight. cbn [st_q st_w st_written st_pending busy_list]. rewrite Ew.
    cbn [busy_list app]. now rewrite <- app_assoc.
  - now rewrite app_nil_r.
Qed.

Definition is_close (o : op) : bool := match o with Close => true | _ => false end.

Lemma closed_exec cap s o : st_closed (exec cap s o) = st_closed s || is_close o.
Proof.
  unfold exec, step. destruct o as [r| | |]; cbn [is_close].
  - destruct (st_closed s) eqn:Ec; [now rewrite Ec|].
    destruct (_ <? _)%N; cbn [st_closed]; reflexivity.
  - rewrite orb_false_r. destruct (st_w s); try reflexivity.
    destruct (st_q s); [|reflexivity]. destruct (st_closed s) eqn:Ec; [reflexivity | now rewrite Ec].
  - rewrite orb_false_r. destruct (st_w s); reflexivity.
  - cbn [st_closed]. now rewrite orb_true_r.
Qed.

Lemma run_cons cap s o t : run cap s (o :: t) = run cap (exec cap s o) t.
Proof. reflexivity. Qed.

Lemma run_app cap s a b : run cap s (a ++ b) = run cap (run cap s a) b.
Proof. unfold run. apply fold_left_app. Qed.

(* the ledger is append-only, and what is appended matches the enqueue log *)
Lemma ledger_run cap : forall ops s,
  fresh ops = true ->
  exists F, ledger (run cap s ops) = ledger s ++ F
            /\ Forall2 fate_ok F (if st_closed s then [] else enq_log ops).
Proof.
  induction ops as [|o t IH]; intros s Hf.
  - exists []. rewrite app_nil_r. split; [reflexivity|]. destruct (st_closed s); constructor.
  - cbn [fresh forallb] in Hf. apply andb_true_iff in Hf as [Hfo Hft].
    destruct (IH (exec cap s o) Hft) as (F & HF & H2).
    rewrite run_cons, HF, (ledger_exec _ _ _ Hfo), <- app_assoc.
    exists (delta cap s o ++ F). split; [reflexivity|].
    rewrite closed_exec in H2.
    destruct (st_closed s) eqn:Ec.
    + cbn [orb] in H2. inversion H2; subst.
      unfold delta. rewrite Ec. destruct o; constructor.
    + cbn [orb] in H2. destruct o as [r| | |]; cbn [is_close enq_log delta] in *; rewrite ?Ec.
      * destruct (_ <? _)%N; cbn [app]; constructor; auto; [now right | now left].
      * exact H2.
      * exact H2.
      * inversion H2; subst. constructor.
Qed.

Lemma ledger_init : ledger init = [].
Proof. reflexivity. Qed.

Lemma ledger_matches cap ops :
  fresh ops = true -> Forall2 fate_ok (ledger (run cap init ops)) (enq_log ops).
Proof.
  intros Hf. destruct (ledger_run cap ops init Hf) as (F & HF & H2).
  rewrite HF, ledger_init. exact H2.
Qed.

Lemma ledger_append_only cap s ops :
  fresh ops = true -> exists F, ledger (run cap s ops) = ledger s ++ F.
Proof. intros Hf. destruct (ledger_run cap ops s Hf) as (F & HF & _). eauto. Qed.

Lemma Forall2_len {A B} (P : A -> B -> Prop) a b : Forall2 P a b -> length a = length b.
Proof. induction 1; cbn; congruence. Qed.

Lemma conservation_lemma cap ops :
  fresh ops = true -> accounted (run cap init ops) = length (enq_log ops).
Proof.
  intros Hf. rewrite accounted_ledger. eapply Forall2_len, ledger_matches; exact Hf.
Qed.

(* ---- reachable-state invariant ----------------------------------------- *)
Definition Inv (cap : N) (s : astate) : Prop :=
  (st_w s = WExited -> st_q s = [] /\ st_closed s = true)
  /\ (N.of_nat (length (st_q s)) <= cap)%N.

Lemma inv_init cap : Inv cap init.
Proof. split; [discriminate | cbn; lia]. Qed.

Lemma inv_exec cap s o : Inv cap s -> Inv cap (exec cap s o).
Proof.
  intros HI. pose proof HI as [Hx Hb]. unfold exec, step. destruct o as [r| | |].
  - destruct (st_closed s) eqn:Ec; [exact HI|].
    destruct (N.of_nat (length (st_q s)) <? cap)%N eqn:El; split; cbn [st_q st_w st_closed].
    + intros Hw. destruct (Hx Hw) as [_ Hc]. congruence.
    + rewrite app_length. cbn [length]. apply N.ltb_lt in El. lia.
    + intros Hw. destruct (Hx Hw) as [_ Hc]. congruence.
    + exact Hb.
  - destruct (st_w s) eqn:Ew; try exact HI.
    destruct (st_q s) as [|x t] eqn:Eq.
    + destruct (st_closed s) eqn:Ec; [|exact HI].
      split; cbn [st_q st_w st_closed]; [auto | cbn; lia].
    + split; cbn [st_q st_w st_closed]; [discriminate | cbn [length] in Hb; lia].
  - destruct (st_w s) eqn:Ew; try exact HI.
    split; cbn [st_q st_w st_closed]; [discriminate | exact Hb].
  - split; cbn [st_q st_w st_closed]; [|exact Hb].
    intros Hw. destruct (Hx Hw) as [Hq _]. auto.
Qed.

Lemma inv_run cap : forall ops s, Inv cap s -> Inv cap (run cap s ops).
Proof.
  induction ops as [|o t IH]; intros s Hi; [exact Hi|]. rewrite run_cons. apply IH, inv_exec, Hi.
Qed.

Lemma queue_bounded cap ops : (N.of_nat (length (st_q (run cap init ops))) <= cap)%N.
Proof. apply (inv_run cap ops init (inv_init cap)). Qed.

Lemma exited_ledger cap s :
  Inv cap s -> st_w s = WExited ->
  ledger s = expand (st_written s) ++ repeat None (N.to_nat (st_pending s)).
Proof.
  intros [Hx _] Hw. destruct (Hx Hw) as [Hq _]. unfold ledger, inflight.
  rewrite Hw, Hq. cbn [busy_list app]. now rewrite app_nil_r.
Qed.

Lemma after_drain_ledger cap ops :
  fresh ops = true -> st_w (run cap init ops) = WExited ->
  Forall2 fate_ok
    (expand (st_written (run cap init ops)) ++ repeat None (N.to_nat (st_pending (run cap init ops))))
    (enq_log ops).
Proof.
  intros Hf Hw. rewrite <- (exited_ledger cap); auto; [now apply ledger_matches|].
  apply inv_run, inv_init.
Qed.

Lemma after_drain_count cap ops :
  fresh ops = true -> st_w (run cap init ops) = WExited ->
  length (enq_log ops) =
    length (st_written (run cap init ops)) + sum_stamps (st_written (run cap init ops))
    + N.to_nat (st_pending (run cap init ops)).
Proof.
  intros Hf Hw. rewrite <- (Forall2_len _ _ _ (after_drain_ledger cap ops Hf Hw)).
  now rewrite app_length, length_expand, repeat_length.
Qed.

(* ---- reading positions of an expanded list ----------------------------- *)
Lemma nth_repeat_none {A} n i (y : option A) :
  nth_error (repeat None n) i = Some y -> y = None.
Proof.
  revert i; induction n as [|n IH]; intros [|i]; cbn; try discriminate.
  - intros H; now inversion H.
  - apply IH.
Qed.

Lemma expand_at w1 x w2 :
  nth_error (expand (w1 ++ x :: w2)) (length (expand w1) + stamp_n x) = Some (Some (fst x)).
Proof.
  rewrite expand_app. rewrite nth_error_app2 by lia.
  replace (length (expand w1) + stamp_n x - length (expand w1)) with (stamp_n x) by lia.
  cbn [expand]. rewrite nth_error_app2 by (rewrite repeat_length; lia).
  rewrite repeat_length, Nat.sub_diag. reflexivity.
Qed.

Lemma expand_pos : forall l i,
  i < length (expand l) ->
  exists w1 x w2, l = w1 ++ x :: w2 /\
    ((i = length (expand w1) + stamp_n x /\ nth_error (expand l) i = Some (Some (fst x)))
     \/ (length (expand w1) <= i < length (expand w1) + stamp_n x
         /\ nth_error (expand l) i = Some None)).
Proof.
  induction l as [|x t IH]; intros i Hi; [cbn in Hi; lia|].
  cbn [expand] in *. rewrite app_length, repeat_length in Hi. cbn [length] in Hi.
  destruct (Nat.lt_ge_cases i (stamp_n x)) as [Hlt | Hge].
  - exists [], x, t. split; [reflexivity|]. right. cbn [expand length]. split; [lia|].
    rewrite nth_error_app1 by (rewrite repeat_length; lia).
    destruct (nth_error (repeat None (stamp_n x)) i) as [y|] eqn:E.
    + now rewrite (nth_repeat_none _ _ _ E).
    + apply nth_error_None in E. rewrite repeat_length in E. lia.
  - destruct (Nat.eq_dec i (stamp_n x)) as [-> | Hne].
    + exists [], x, t. split; [reflexivity|]. left. cbn [expand length]. split; [lia|].
      rewrite nth_error_app2 by (rewrite repeat_length; lia).
      rewrite repeat_length, Nat.sub_diag. reflexivity.
    + destruct (IH (i - stamp_n x - 1)) as (w1 & y & w2 & -> & Hcase); [lia|].
      exists (x :: w1), y, w2. split; [reflexivity|].
      assert (Hn : forall z, nth_error (repeat None (stamp_n x) ++ Some (fst x) :: z) i
                             = nth_error z (i - stamp_n x - 1)).
      { intros z. rewrite nth_error_app2 by (rewrite repeat_length; lia). rewrite repeat_length.
        destruct (i - stamp_n x) as [|m] eqn:Em; [lia|]. cbn [nth_error]. f_equal. lia. }
      cbn [expand]. rewrite app_length, repeat_length. cbn [length]. rewrite Hn.
      destruct Hcase as [[He Hv] | [Hr Hv]]; [left | right]; (split; [lia | exact Hv]).
Qed.

Lemma Forall2_nth_r {A B} (P : A -> B -> Prop) : forall a b i y,
  Forall2 P a b -> nth_error b i = Some y -> exists x, nth_error a i = Some x /\ P x y.
Proof.
  intros a b i y H; revert i; induction H as [|x0 y0 a b Hp H IH]; intros [|i] Hy; cbn in *; try discriminate.
  - inversion Hy; subst. eauto.
  - now apply IH.
Qed.

Lemma Forall2_nth_l {A B} (P : A -> B -> Prop) : forall a b i x,
  Forall2 P a b -> nth_error a i = Some x -> exists y, nth_error b i = Some y /\ P x y.
Proof.
  intros a b i x H; revert i; induction H as [|x0 y0 a b Hp H IH]; intros [|i] Hx; cbn in *; try discriminate.
  - inversion Hx; subst. eauto.
  - now apply IH.
Qed.

(* After close and drain: the i-th record enqueued before close is written (in
   enqueue order), or is counted in the dropped_records of a record that was
   enqueued later and is written, or belongs to the trailing run of drops. *)
Lemma every_record_accounted cap ops i id :
  fresh ops = true ->
  let s := run cap init ops in
  st_w s = WExited ->
  nth_error (enq_log ops) i = Some id ->
  (exists w1 st w2, st_written s = w1 ++ (id, st) :: w2
                    /\ i = length (expand w1) + stamp_n (id, st))
  \/ (exists w1 x w2, st_written s = w1 ++ x :: w2
                      /\ length (expand w1) <= i < length (expand w1) + stamp_n x
                      /\ nth_error (enq_log ops) (length (expand w1) + stamp_n x) = Some (fst x))
  \/ (length (expand (st_written s)) <= i
      < length (expand (st_written s)) + N.to_nat (st_pending s)).
Proof.
  intros Hf s Hw Hid. subst s.
  pose proof (after_drain_ledger cap ops Hf Hw) as HF.
  set (s := run cap init ops) in *.
  destruct (Forall2_nth_r _ _ _ _ _ HF Hid) as (f & Hnf & Hfate).
  destruct (Nat.lt_ge_cases i (length (expand (st_written s)))) as [Hlt | Hge].
  - rewrite nth_error_app1 in Hnf by exact Hlt.
    destruct (expand_pos _ _ Hlt) as (w1 & x & w2 & Hsplit & [[Hi Hv] | [Hr Hv]]).
    + left. rewrite Hv in Hnf. inversion Hnf; subst f.
      destruct Hfate as [Hc | Hc]; [discriminate|]. inversion Hc as [Hx].
      destruct x as [xid xst]. cbn [fst] in Hx. subst xid. exists w1, xst, w2. split; assumption.
    + right; left. exists w1, x, w2. split; [exact Hsplit|]. split; [exact Hr|].
      assert (Hat : nth_error (expand (st_written s) ++ repeat None (N.to_nat (st_pending s)))
                              (length (expand w1) + stamp_n x) = Some (Some (fst x))).
      { rewrite Hsplit. rewrite nth_error_app1.
        - apply expand_at.
        - rewrite expand_app, app_length. cbn [expand]. rewrite app_length, repeat_length. cbn [length]. lia. }
      destruct (Forall2_nth_l _ _ _ _ _ HF Hat) as (id' & Hn' & [Hc | Hc]); [discriminate|].
      inversion Hc. subst. exact Hn'.
  - right; right. split; [exact Hge|].
    assert (Hl : i < length (enq_log ops)) by (apply nth_error_Some; congruence).
    rewrite <- (Forall2_len _ _ _ HF), app_length, repeat_length in Hl. exact Hl.
Qed.

(* nothing else is written: every written record is one enqueued before close,
   at its own position in the enqueue order *)
Lemma written_only_enqueued cap ops w1 x w2 :
  fresh ops = true ->
  let s := run cap init ops in
  st_w s = WExited ->
  st_written s = w1 ++ x :: w2 ->
  nth_error (enq_log ops) (length (expand w1) + stamp_n x) = Some (fst x).
Proof.
  intros Hf s Hw Hsplit. subst s.
  pose proof (after_drain_ledger cap ops Hf Hw) as HF.
  set (s := run cap init ops) in *.
  assert (Hat : nth_error (expand (st_written s) ++ repeat None (N.to_nat (st_pending s)))
                          (length (expand w1) + stamp_n x) = Some (Some (fst x))).
  { rewrite Hsplit. rewrite nth_error_app1.
    - apply expand_at.
    - rewrite expand_app, app_length. cbn [expand]. rewrite app_length, repeat_length. cbn [length]. lia. }
  destruct (Forall2_nth_l _ _ _ _ _ HF Hat) as (id' & Hn' & [Hc | Hc]); [discriminate|].
  inversion Hc. subst. exact Hn'.
Qed.

(* ---- liveness of the drain (non-vacuity of the exited premise) --------- *)
Definition drain_round : list op := [WriteDone; Take].
Definition drain (n : nat) : list op := WriteDone :: Take :: concat (repeat drain_round n).

Lemma exited_exec cap s o : st_w s = WExited -> st_w (exec cap s o) = WExited.
Proof.
  intros Hw. unfold exec, step. destruct o as [r| | |]; rewrite ?Hw; cbn [st_w]; try reflexivity; try assumption.
  destruct (st_closed s); [assumption|]. destruct (_ <? _)%N; cbn [st_w]; reflexivity.
Qed.

Lemma exited_run cap : forall ops s, st_w s = WExited -> st_w (run cap s ops) = WExited.
Proof.
  induction ops as [|o t IH]; intros s Hw; [exact Hw|]. rewrite run_cons. apply IH, exited_exec, Hw.
Qed.

Lemma drain_idle cap : forall n s,
  st_closed s = true -> length (st_q s) <= n -> st_w s <> WExited ->
  (forall x, st_w s <> WBusy x) ->
  st_w (run cap s (Take :: concat (repeat drain_round n))) = WExited.
Proof.
  induction n as [|n IH]; intros s Hc Hl Hne Hnb.
  - destruct (st_w s) eqn:Ew; [|exfalso; eapply Hnb; eauto|congruence].
    destruct (st_q s) eqn:Eq; [|cbn in Hl; lia].
    cbn. unfold exec, step. now rewrite Ew, Eq, Hc.
  - destruct (st_w s) eqn:Ew; [|exfalso; eapply Hnb; eauto|congruence].
    destruct (st_q s) as [|x t] eqn:Eq.
    + rewrite run_cons. apply exited_run. unfold exec, step. now rewrite Ew, Eq, Hc.
    + cbn [repeat concat drain_round app]. rewrite !run_cons.
      set (s1 := exec cap s Take).
      assert (H1 : s1 = {| st_q := t; st_w := WBusy x; st_written := st_written s;
                           st_pending := st_pending s; st_closed := st_closed s |}).
      { unfold s1, exec, step. now rewrite Ew, Eq. }
      set (s2 := exec cap s1 WriteDone).
      assert (H2 : s2 = {| st_q := t; st_w := WIdle; st_written := st_written s ++ [x];
                           st_pending := st_pending s; st_closed := st_closed s |}).
      { unfold s2, exec, step. rewrite H1. reflexivity. }
      rewrite <- run_cons. apply IH; rewrite H2; cbn [st_q st_w st_closed]; try congruence.
      cbn [length] in Hl. lia.
Qed.

Lemma drain_exits cap s n :
  st_closed s = true -> length (st_q s) <= n -> st_w (run cap s (drain n)) = WExited.
Proof.
  intros Hc Hl. unfold drain. rewrite run_cons.
  destruct (st_w s) eqn:Ew.
  - (* idle: WriteDone is skipped *)
    assert (He : exec cap s WriteDone = s) by (unfold exec, step; now rewrite Ew).
    rewrite He. apply drain_idle; auto; rewrite Ew; congruence.
  - assert (He : exec cap s WriteDone = {| st_q := st_q s; st_w := WIdle; st_written := st_written s ++ [x];
                                           st_pending := st_pending s; st_closed := st_closed s |})
      by (unfold exec, step; now rewrite Ew).
    rewrite He. apply drain_idle; cbn [st_q st_w st_closed]; auto; congruence.
  - apply exited_run. now apply exited_exec.
Qed.

Lemma close_drain_lemma cap ops :
  st_w (run cap init (ops ++ Close :: drain (N.to_nat cap))) = WExited.
Proof.
  rewrite run_app, run_cons. apply drain_exits.
  - rewrite closed_exec. cbn. apply orb_true_r.
  - pose proof (inv_exec cap _ Close (inv_run cap ops init (inv_init cap))) as [_ Hb]. lia.
Qed.

(* ---- the decidable spec holds on the model ------------------------------ *)
Lemma enq_rets_true cap : forall ops s,
  forallb (fun b => b) (enq_rets cap s ops) = true
  /\ length (enq_rets cap s ops) = count_enq ops.
Proof.
  induction ops as [|o t IH]; intros s; [split; reflexivity|].
  destruct (IH (exec cap s o)) as [H1 H2].
  cbn [enq_rets]. destruct o as [r| | |]; unfold count_enq in *; cbn [filter]; try (split; assumption).
  destruct (enq_enabled cap s r) as [s' Hs]. rewrite Hs. cbn [is_some forallb length andb].
  split; [assumption | now rewrite H2].
Qed.

Lemma run_obs_fst cap : forall steps s, fst (run_obs cap s steps) = run cap s (map fst steps).
Proof.
  induction steps as [|[o b] t IH]; intros s; [reflexivity|].
  cbn [run_obs map fst]. rewrite run_cons, <- IH.
  destruct (run_obs cap (exec cap s o) t) as [sf tr]. reflexivity.
Qed.

Lemma is_exited_spec s : is_exited s = true <-> st_w s = WExited.
Proof. unfold is_exited. destruct (st_w s); split; intro H; congruence. Qed.

Lemma async_spec_model cap (steps : list (op * bool)) :
  let s := run cap init (map fst steps) in
  async_spec (map fst steps) (enq_rets cap init (map fst steps)) (st_written s) (st_pending s) (is_exited s) = true.
Proof.
  intros s. unfold async_spec.
  destruct (enq_rets_true cap (map fst steps) init) as [H1 H2].
  rewrite H1, H2, Nat.eqb_refl. cbn [andb].
  destruct (is_exited s) eqn:Ex; [|reflexivity].
  destruct (fresh (map fst steps)) eqn:Ef; [|reflexivity]. cbn [andb].
  apply (forall2b_spec _ _ fate_okb_spec). apply after_drain_ledger; [exact Ef|].
  now apply is_exited_spec.
Qed.

Lemma model_meets_spec i : spec_ok i (model i) = true.
Proof.
  destruct i as [rate recs | str | cap steps]; cbn [model].
  - destruct (new_sampler rate) as [s|] eqn:En; cbn [spec_ok]; [|reflexivity].
    now apply sample_spec_model.
  - reflexivity.
  - destruct (cap <=? 0)%Z; [reflexivity|].
    pose proof (run_obs_fst (Z.to_N cap) steps init) as Hf.
    destruct (run_obs (Z.to_N cap) init steps) as [sf tr]. cbn [fst] in Hf. subst sf.
    cbn [spec_ok]. apply async_spec_model.
Qed.

Lemma fresh_needed :
  exists cap ops, fresh ops = false /\ accounted (run cap init ops) <> length (enq_log ops).
Proof.
  exists 1%N, [Enq {| a_id := 1%N; a_pre := Some 5%N |}]. split; [reflexivity|].
  vm_compute. discriminate.
Qed.

(* ---- concrete witnesses (non-vacuity) ---------------------------------- *)
Definition ex_ops : list op :=
  [Enq {| a_id := 1; a_pre := None |}; Take; Enq {| a_id := 2; a_pre := None |};
   Enq {| a_id := 3; a_pre := None |}; Enq {| a_id := 4; a_pre := None |};
   WriteDone; Take; WriteDone; Take; Enq {| a_id := 5; a_pre := None |};
   Enq {| a_id := 6; a_pre := None |}; Enq {| a_id := 7; a_pre := None |}; Close;
   Enq {| a_id := 8; a_pre := None |}; WriteDone; Take; WriteDone; Take]%N.
