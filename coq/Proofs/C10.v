(* Proofs/C10.v — the protocol-version gate decides exactly "same numeric
   major and minor", for version strings of unbounded length. *)
From VR Require Import Model.C10.
From Coq Require Import ZifyBool ZifyN ZifyNat.
Open Scope N_scope.
Local Arguments N.eqb : simpl never.
Local Arguments N.leb : simpl never.
Local Arguments N.ltb : simpl never.
Local Arguments N.mul : simpl never.
Local Arguments N.add : simpl never.
Local Arguments N.sub : simpl never.
Local Arguments N.pow : simpl never.
Local Arguments N.compare : simpl never.

Definition digits (s : bytes) : bool := forallb is_digit s.
Definition p10 (n : nat) : N := 10 ^ N.of_nat n.

Lemma p10_S n : p10 (S n) = 10 * p10 n.
Proof. unfold p10. rewrite Nat2N.inj_succ, N.pow_succ_r'. reflexivity. Qed.
Lemma p10_0 : p10 0 = 1. Proof. reflexivity. Qed.
Lemma p10_pos n : 0 < p10 n.
Proof. induction n as [|n IH]; [rewrite p10_0; lia | rewrite p10_S; lia]. Qed.
Lemma p10_mono a b : (a <= b)%nat -> p10 a <= p10 b.
Proof.
  intro H. induction H as [|b H IH]; [lia|]. rewrite p10_S. pose proof (p10_pos b). lia.
Qed.

Lemma num_acc_spec s : forall acc, num_acc acc s = acc * p10 (length s) + num s.
Proof.
  unfold num. induction s as [|c s IH]; intro acc; cbn [num_acc fold_left length].
  - rewrite p10_0. lia.
  - fold (num_acc (acc * 10 + (c - 48)) s). fold (num_acc (0 * 10 + (c - 48)) s).
    rewrite (IH (acc * 10 + (c - 48))), (IH (0 * 10 + (c - 48))), p10_S. lia.
Qed.

Lemma num_cons c s : num (c :: s) = (c - 48) * p10 (length s) + num s.
Proof.
  unfold num at 1. cbn [num_acc fold_left]. fold (num_acc (0 * 10 + (c - 48)) s).
  rewrite num_acc_spec. lia.
Qed.

Lemma num_lt s : digits s = true -> num s < p10 (length s).
Proof.
  induction s as [|c s IH]; intro H.
  - cbn. rewrite p10_0. unfold num; cbn. lia.
  - cbn [digits forallb] in H. apply andb_true_iff in H as [Hc Hs]. specialize (IH Hs).
    rewrite num_cons. cbn [length]. rewrite p10_S. unfold is_digit in Hc.
    assert (c - 48 <= 9) by lia. pose proof (p10_pos (length s)). nia.
Qed.

Lemma canon_digits s : canon_part s = true -> digits s = true /\ s <> [].
Proof.
  destruct s as [|c [|d t]]; cbn [canon_part]; intro H; try discriminate.
  - split; [cbn; now rewrite H | discriminate].
  - apply andb_true_iff in H as [Hc Ht]. split; [|discriminate].
    cbn [digits forallb]. cbn [forallb] in Ht. rewrite Ht. unfold is_19 in Hc. unfold is_digit.
    replace ((48 <=? c) && (c <=? 57)) with true by lia. reflexivity.
Qed.

(* a canonical component of two or more digits has no leading zero *)
Lemma canon_ge s : canon_part s = true -> (2 <= length s)%nat -> p10 (length s - 1) <= num s.
Proof.
  destruct s as [|c [|d t]]; cbn [canon_part length]; intros H L; try lia.
  apply andb_true_iff in H as [Hc _]. rewrite num_cons. cbn [length].
  replace (S (S (length t)) - 1)%nat with (S (length t)) by lia.
  unfold is_19 in Hc. assert (1 <= c - 48) by lia. pose proof (p10_pos (S (length t))). nia.
Qed.

Lemma lex_num a : forall b, length a = length b -> digits a = true -> digits b = true ->
  lex_cmp a b = N.compare (num a) (num b).
Proof.
  induction a as [|x a IH]; intros [|y b] L Ha Hb; cbn [length] in L; try discriminate.
  - reflexivity.
  - cbn [digits forallb] in Ha, Hb. apply andb_true_iff in Ha as [Hx Ha]. apply andb_true_iff in Hb as [Hy Hb].
    injection L as L. cbn [lex_cmp]. rewrite !num_cons, <- L.
    pose proof (num_lt a Ha) as La. pose proof (num_lt b Hb) as Lb. rewrite <- L in Lb.
    unfold is_digit in Hx, Hy. pose proof (p10_pos (length a)) as P.
    destruct (N.compare_spec x y) as [E|E|E].
    + subst y. rewrite (IH b L Ha Hb).
      destruct (N.compare_spec (num a) (num b)) as [E2|E2|E2]; symmetry.
      * apply N.compare_eq_iff. lia.
      * apply N.compare_lt_iff. lia.
      * apply N.compare_gt_iff. lia.
    + symmetry. apply N.compare_lt_iff. assert (x - 48 + 1 <= y - 48) by lia. nia.
    + symmetry. apply N.compare_gt_iff. assert (y - 48 + 1 <= x - 48) by lia. nia.
Qed.

Lemma shorter_smaller a b : canon_part a = true -> canon_part b = true ->
  (length a < length b)%nat -> num a < num b.
Proof.
  intros Ha Hb L. destruct (canon_digits a Ha) as [Da Na]. 
  pose proof (num_lt a Da) as La.
  assert (L2 : (2 <= length b)%nat). { destruct a; [congruence | cbn [length] in L; lia]. }
  pose proof (canon_ge b Hb L2) as Gb.
  assert (p10 (length a) <= p10 (length b - 1)) by (apply p10_mono; lia). lia.
Qed.

Theorem cmp_part_numeric a b : canon_part a = true -> canon_part b = true ->
  cmp_part a b = N.compare (num a) (num b).
Proof.
  intros Ha Hb. unfold cmp_part.
  destruct (Nat.compare_spec (length a) (length b)) as [E|E|E].
  - apply lex_num; [exact E | apply canon_digits, Ha | apply canon_digits, Hb].
  - symmetry. apply N.compare_lt_iff. now apply shorter_smaller.
  - symmetry. apply N.compare_gt_iff. now apply shorter_smaller.
Qed.

Lemma parse_canon s a b c : parse s = Some (a, b, c) ->
  canon_part a = true /\ canon_part b = true /\ canon_part c = true.
Proof.
  unfold parse. destruct (split_on DOT s) as [|x [|y [|z [|w t]]]]; try discriminate.
  destruct (canon_part x && canon_part y && canon_part z) eqn:E; [|discriminate].
  intro H. injection H as -> -> ->. apply andb_true_iff in E as [E E3]. apply andb_true_iff in E as [E1 E2]. auto.
Qed.

(* ---- split_on: the parse is exactly the grammar a "." b "." c --------------- *)
Lemma split_aux_nosep c s : forall cur, mem c s = false ->
  split_on_aux c cur s = [rev cur ++ s].
Proof.
  induction s as [|x s IH]; intros cur H; cbn [split_on_aux].
  - now rewrite app_nil_r.
  - cbn [mem existsb] in H. apply orb_false_iff in H as [Hx Hs]. rewrite N.eqb_sym in Hx. rewrite Hx.
    rewrite IH by exact Hs. cbn [rev]. now rewrite <- app_assoc.
Qed.

Lemma split_aux_sep c a : forall cur rest, mem c a = false ->
  split_on_aux c cur (a ++ c :: rest) = (rev cur ++ a) :: split_on_aux c [] rest.
Proof.
  induction a as [|x a IH]; intros cur rest H; cbn [app split_on_aux].
  - rewrite N.eqb_refl. now rewrite app_nil_r.
  - cbn [mem existsb] in H. apply orb_false_iff in H as [Hx Ha]. rewrite N.eqb_sym in Hx. rewrite Hx.
    rewrite IH by exact Ha. cbn [rev]. now rewrite <- app_assoc.
Qed.

Lemma digits_nodot s : digits s = true -> mem DOT s = false.
Proof.
  induction s as [|c s IH]; cbn [digits forallb mem existsb]; [reflexivity|]. intro H.
  apply andb_true_iff in H as [Hc Hs]. fold (mem DOT s). rewrite (IH Hs). unfold is_digit in Hc. unfold DOT.
  assert ((46 =? c) = false) by lia. now rewrite H.
Qed.

Theorem parse_grammar a b c :
  canon_part a = true -> canon_part b = true -> canon_part c = true ->
  parse (a ++ DOT :: b ++ DOT :: c) = Some (a, b, c).
Proof.
  intros Ha Hb Hc. unfold parse, split_on.
  rewrite split_aux_sep by (apply digits_nodot, canon_digits, Ha).
  rewrite split_aux_sep by (apply digits_nodot, canon_digits, Hb).
  rewrite split_aux_nosep by (apply digits_nodot, canon_digits, Hc).
  cbn [rev app]. now rewrite Ha, Hb, Hc.
Qed.

Lemma split_aux_join c s : forall cur, join [c] (split_on_aux c cur s) = rev cur ++ s.
Proof.
  induction s as [|x s IH]; intro cur; cbn [split_on_aux].
  - cbn. now rewrite app_nil_r.
  - destruct (N.eqb x c) eqn:E.
    + apply N.eqb_eq in E. subst x. specialize (IH []).
      destruct (split_on_aux c [] s) as [|y t] eqn:ES.
      * exfalso. destruct s as [|z s']; cbn in ES; [discriminate | destruct (N.eqb z c); discriminate].
      * cbn [join]. cbn [join] in IH. destruct t; cbn [rev app] in *; rewrite IH; reflexivity.
    + rewrite IH. cbn [rev]. now rewrite <- app_assoc.
Qed.

Theorem parse_only_grammar s a b c : parse s = Some (a, b, c) -> s = a ++ DOT :: b ++ DOT :: c.
Proof.
  intro H. pose proof (split_aux_join DOT s []) as J. cbn [rev app] in J. fold (split_on DOT s) in J.
  unfold parse in H. destruct (split_on DOT s) as [|x [|y [|z [|w t]]]]; try discriminate.
  destruct (canon_part x && canon_part y && canon_part z); [|discriminate].
  injection H as -> -> ->. rewrite <- J. cbn [join app]. reflexivity.
Qed.

(* ---- the gate ---------------------------------------------------------------- *)
Lemma cmp_eq_iff a b : N.compare a b = Eq <-> a = b.
Proof. apply N.compare_eq_iff. Qed.

Theorem gate_admits_iff sv cv sma smi sp :
  parse sv = Some (sma, smi, sp) ->
  (gate (sma, smi, sp) (Some cv) = Admit <-> same_major_minor sv cv = true).
Proof.
  intro Hs. unfold same_major_minor, gate. rewrite Hs.
  destruct (parse cv) as [[[ma mi] pa]|] eqn:Hc; [|split; discriminate].
  destruct (parse_canon _ _ _ _ Hs) as (S1 & S2 & _). destruct (parse_canon _ _ _ _ Hc) as (C1 & C2 & _).
  rewrite (cmp_part_numeric ma sma C1 S1), (cmp_part_numeric mi smi C2 S2).
  destruct (N.compare_spec (num ma) (num sma)) as [E1|E1|E1];
  destruct (N.compare_spec (num mi) (num smi)) as [E2|E2|E2];
    split; intro H; try discriminate; try reflexivity; lia.
Qed.

Theorem gate_direction sv cv sma smi sp ma mi pa :
  parse sv = Some (sma, smi, sp) -> parse cv = Some (ma, mi, pa) ->
  gate (sma, smi, sp) (Some cv) =
    if same_major_minor sv cv then Admit else if client_older sv cv then ClientTooOld else ServerTooOld.
Proof.
  intros Hs Hc. unfold same_major_minor, client_older, gate. rewrite Hs, Hc.
  destruct (parse_canon _ _ _ _ Hs) as (S1 & S2 & _). destruct (parse_canon _ _ _ _ Hc) as (C1 & C2 & _).
  rewrite (cmp_part_numeric ma sma C1 S1), (cmp_part_numeric mi smi C2 S2).
  destruct (N.compare_spec (num ma) (num sma)) as [E1|E1|E1];
  destruct (N.compare_spec (num mi) (num smi)) as [E2|E2|E2];
    repeat match goal with |- context [?a =? ?b] => let E := fresh in destruct (N.eqb_spec a b) as [E|E]; try lia end;
    repeat match goal with |- context [?a <? ?b] => let E := fresh in destruct (N.ltb_spec a b) as [E|E]; try lia end;
    reflexivity.
Qed.

Lemma verdict_eqb_refl v : verdict_eqb v v = true.
Proof. destruct v; reflexivity. Qed.

Theorem model_meets_spec i :
  (forall sv, i_server i = Some sv -> exists p, parse sv = Some p) ->
  spec_ok i (model i) = true.
Proof.
  intro Hsrv. unfold spec_ok, model. destruct (i_server i) as [sv|] eqn:ES; [|reflexivity].
  destruct (is_describe (i_route i)); [reflexivity|].
  destruct (Hsrv sv eq_refl) as [[[sma smi] sp] Hp]. rewrite Hp.
  destruct (i_client i) as [cv|] eqn:EC.
  - destruct (parse cv) as [[[ma mi] pa]|] eqn:Hc.
    + rewrite (gate_direction sv cv sma smi sp ma mi pa Hp Hc).
      destruct (same_major_minor sv cv) eqn:ESM; cbn [o_dispatched o_verdict o_kind]; [reflexivity|].
      destruct (client_older sv cv); cbn [o_dispatched o_verdict o_kind Bool.eqb orb andb];
        now rewrite beqb_refl.
    + unfold gate. rewrite Hc. unfold same_major_minor. rewrite Hp, Hc.
      cbn [o_dispatched o_verdict o_kind Bool.eqb orb andb]. now rewrite beqb_refl.
  - cbn [gate o_dispatched o_verdict o_kind Bool.eqb orb andb]. now rewrite beqb_refl.
Qed.

(* the pre-fix gate admits clients whose major differs above 2^63 *)
Definition legacy_srv : bytes := str "99999999999999999999.0.0".
Definition legacy_cli : bytes := str "99999999999999999998.0.1".

Theorem legacy_refuted :
  exists sv cv p, parse sv = Some p /\ same_major_minor sv cv = false /\ gate_legacy p (Some cv) = Admit.
Proof.
  exists legacy_srv, legacy_cli, (str "99999999999999999999", str "0", str "0").
  repeat split; vm_compute; reflexivity.
Qed.
