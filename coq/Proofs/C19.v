(* Proofs/C19.v — lemmas for the response-cap model. *)
From Coq Require Import ZArith List Bool Lia ZifyBool.
From VR Require Import Model.C19.
Import ListNotations.
Open Scope Z_scope.
Local Arguments Z.add : simpl never.
Local Arguments Z.sub : simpl never.
Local Arguments Z.max : simpl never.
Local Arguments Z.ltb : simpl never.
Local Arguments Z.leb : simpl never.
Local Arguments Z.eqb : simpl never.

(* ------------------------------------------------------------------ well-formed emission patterns *)

(* the only facts about the size oracle the theorems use: an upload's raw IPC
   size is at least the Arrow buffer size it was predicted from *)
Definition wf_batch (c : caps) (b : batch) : Prop := externalized c b = true -> b_arrow b <= b_raw b.
Definition wfc (c : caps) (cs : list cycle) : Prop := Forall (fun cy => wf_batch c (c_b cy)) cs.

Lemma thr_eff_pos c : 0 < thr_eff c.
Proof. unfold thr_eff. destruct (thr c <=? 0) eqn:E; [vm_compute; reflexivity | lia]. Qed.

Lemma predicted_bounds c b : wf_batch c b -> 0 <= predicted c b <= upload c b.
Proof.
  unfold wf_batch, predicted, upload. intros H. destruct (externalized c b) eqn:E; [|lia].
  specialize (H eq_refl). unfold externalized in E. pose proof (thr_eff_pos c). lia.
Qed.

(* ------------------------------------------------------------------ enforce *)

Lemma enforce_none w e wc ec :
  enforce w e wc ec = ENone <-> (0 < wc -> w <= wc) /\ (0 < ec -> e <= ec).
Proof.
  unfold enforce.
  destruct ((0 <? wc) && (wc <? w)) eqn:A; [split; [discriminate | lia]|].
  destruct ((0 <? ec) && (ec <? e)) eqn:B; [split; [discriminate | lia]|].
  split; [lia | reflexivity].
Qed.

Lemma enforce_wire w e wc ec : enforce w e wc ec = EWire -> 0 < wc /\ wc < w.
Proof.
  unfold enforce. destruct ((0 <? wc) && (wc <? w)) eqn:A; [lia|].
  destruct ((0 <? ec) && (ec <? e)); discriminate.
Qed.

Lemma enforce_ext w e wc ec : enforce w e wc ec = EExt -> 0 < ec /\ ec < e.
Proof.
  unfold enforce. destruct ((0 <? wc) && (wc <? w)); [discriminate|].
  destruct ((0 <? ec) && (ec <? e)) eqn:B; [lia | discriminate].
Qed.

Lemma enforce_not_user w e wc ec : enforce w e wc ec <> EUser.
Proof. unfold enforce. destruct ((0 <? wc) && (wc <? w)); [discriminate|]. destruct ((0 <? ec) && (ec <? e)); discriminate. Qed.

Definition errk_code (k : errk) : Z := match k with ENone => 0 | EWire => 1 | EExt => 2 | EUser => 9 end.

Lemma enforce_table :
  errk_code (enforce 100 0 100 0) = c19_enf_wire_at_cap /\
  errk_code (enforce 101 0 100 0) = c19_enf_wire_over_cap /\
  errk_code (enforce 0 100 0 100) = c19_enf_ext_at_cap /\
  errk_code (enforce 0 101 0 100) = c19_enf_ext_over_cap /\
  errk_code (enforce 101 101 100 100) = c19_enf_both_over /\
  errk_code (enforce (2^40) (2^40) 0 0) = c19_enf_unset /\
  errk_code (enforce 5 5 (-1) (-1)) = c19_enf_negative_cap.
Proof. vm_compute. repeat split. Qed.

(* ------------------------------------------------------------------ unary / exchange *)

Definition delivered (r : hresp) : Prop := r_err r = ENone.

Lemma hard_core c body nlogs b (pre : bool) (r : hresp) :
  r = (if pre then resp_err EExt nlogs 0
       else match enforce body (upload c b) (wcap c) (ecap c) with
            | ENone => resp_ok c body nlogs b
            | k => resp_err k 0 (upload c b)
            end) ->
  (pre = true -> ext_on c = true /\ 0 < ecap c /\ ecap c < predicted c b) ->
  (pre = false -> ext_on c && (0 <? ecap c) && (ecap c <? predicted c b) = false) ->
  (delivered r -> r_body r = body /\ (0 < wcap c -> body <= wcap c) /\ (0 < ecap c -> r_upl r <= ecap c) /\ r_hdr r = false) /\
  (~ delivered r -> r_ndata r = 0 /\ r_nptr r = 0 /\ r_hdr r = true) /\
  (0 < wcap c -> wcap c < body -> ~ delivered r) /\
  (0 < ecap c -> ecap c < upload c b -> ~ delivered r).
Proof.
  intros -> Hp Hn. unfold delivered. destruct pre.
  - cbn. repeat split; intros; try discriminate; try congruence.
  - destruct (enforce body (upload c b) (wcap c) (ecap c)) eqn:E.
    + apply enforce_none in E as [E1 E2]. cbn. repeat split; intros; try congruence; try lia; auto.
    + cbn. repeat split; intros; try discriminate; try congruence.
    + cbn. repeat split; intros; try discriminate; try congruence.
    + cbn. repeat split; intros; try discriminate; try congruence.
Qed.

Lemma unary_hard c u : u_void u = false -> u_fail u = false ->
  let r := unary c u in
  (delivered r -> r_body r = u_body u /\ (0 < wcap c -> u_body u <= wcap c) /\ (0 < ecap c -> r_upl r <= ecap c) /\ r_hdr r = false) /\
  (~ delivered r -> r_ndata r = 0 /\ r_nptr r = 0 /\ r_hdr r = true) /\
  (0 < wcap c -> wcap c < u_body u -> ~ delivered r) /\
  (0 < ecap c -> ecap c < upload c (u_b u) -> ~ delivered r).
Proof.
  intros V F. unfold unary, unary_gen. rewrite V, F.
  destruct (ext_on c && (0 <? ecap c) && (ecap c <? predicted c (u_b u))) eqn:P.
  - apply (hard_core c (u_body u) (u_logs u) (u_b u) true); [reflexivity | intros _; lia | discriminate].
  - apply (hard_core c (u_body u) (u_logs u) (u_b u) false); [reflexivity | discriminate | intros _; exact P].
Qed.

Lemma exchange_hard c x : x_act x = AEmit ->
  let r := exchange c x in
  (delivered r -> r_body r = x_body x /\ (0 < wcap c -> x_body x <= wcap c) /\ (0 < ecap c -> r_upl r <= ecap c) /\ r_hdr r = false) /\
  (~ delivered r -> r_ndata r = 0 /\ r_nptr r = 0 /\ r_hdr r = true) /\
  (0 < wcap c -> wcap c < x_body x -> ~ delivered r) /\
  (0 < ecap c -> ecap c < upload c (x_b x) -> ~ delivered r).
Proof.
  intros A. unfold exchange. rewrite A.
  destruct (ext_on c && (0 <? ecap c) && negb (predicted c (x_b x) =? 0) && (ecap c <? predicted c (x_b x))) eqn:P.
  - pose proof (hard_core c (x_body x) 0 (x_b x) true (resp_err EExt 0 0)) as H. apply H; [reflexivity | intros _; lia | discriminate].
  - apply (hard_core c (x_body x) (x_logs x) (x_b x) false); [reflexivity | discriminate | intros _; lia].
Qed.

(* a void call: the body (logs + an empty batch) is held to the wire cap since ff02128 *)
Lemma void_hard c u : u_void u = true -> u_fail u = false ->
  let r := unary c u in
  (delivered r -> r_body r = u_body u /\ (0 < wcap c -> u_body u <= wcap c) /\ r_upl r = 0 /\ r_hdr r = false) /\
  (~ delivered r -> r_ndata r = 0 /\ r_nptr r = 0 /\ r_hdr r = true) /\
  (0 < wcap c -> wcap c < u_body u -> ~ delivered r).
Proof.
  intros V F. unfold unary, unary_gen, delivered. rewrite V, F.
  destruct (enforce (u_body u) 0 (wcap c) (ecap c)) eqn:E.
  - apply enforce_none in E as [E1 E2]. cbn. repeat split; intros; try congruence; try lia; auto.
  - cbn. repeat split; intros; try discriminate; try congruence.
  - cbn. repeat split; intros; try discriminate; try congruence.
  - cbn. repeat split; intros; try discriminate; try congruence.
Qed.

Lemma hard_ok_unary c u : hard_ok c (unary c u) = true.
Proof.
  destruct (u_fail u) eqn:F; [unfold unary, unary_gen; rewrite F; reflexivity|].
  destruct (u_void u) eqn:V.
  - pose proof (void_hard c u V F) as (D & N & _). cbv zeta in D, N. unfold hard_ok, delivered in *.
    destruct (r_err (unary c u)) eqn:E.
    + destruct (D eq_refl) as (B0 & B1 & B2 & B3). rewrite B3, B0, B2. lia.
    + destruct N as (N1 & N2 & N3); [discriminate|]. rewrite N1, N2, N3. reflexivity.
    + destruct N as (N1 & N2 & N3); [discriminate|]. rewrite N1, N2, N3. reflexivity.
    + destruct N as (N1 & N2 & N3); [discriminate|]. rewrite N1, N2, N3. reflexivity.
  - pose proof (unary_hard c u V F) as (D & N & _). cbv zeta in D, N. unfold hard_ok, delivered in *.
    destruct (r_err (unary c u)) eqn:E.
    + destruct (D eq_refl) as (B0 & B1 & B2 & B3). rewrite B3, B0. lia.
    + destruct N as (N1 & N2 & N3); [discriminate|]. rewrite N1, N2, N3. reflexivity.
    + destruct N as (N1 & N2 & N3); [discriminate|]. rewrite N1, N2, N3. reflexivity.
    + destruct N as (N1 & N2 & N3); [discriminate|]. rewrite N1, N2, N3. reflexivity.
Qed.

Lemma hard_ok_exchange c x : hard_ok c (exchange c x) = true.
Proof.
  destruct (x_act x) eqn:A; try (unfold exchange; rewrite A; reflexivity).
  pose proof (exchange_hard c x A) as (D & N & _). cbv zeta in D, N. unfold hard_ok, delivered in *.
  destruct (r_err (exchange c x)) eqn:E.
  - destruct (D eq_refl) as (B0 & B1 & B2 & B3). rewrite B3, B0. lia.
  - destruct N as (N1 & N2 & N3); [discriminate|]. rewrite N1, N2, N3. reflexivity.
  - destruct N as (N1 & N2 & N3); [discriminate|]. rewrite N1, N2, N3. reflexivity.
  - destruct N as (N1 & N2 & N3); [discriminate|]. rewrite N1, N2, N3. reflexivity.
Qed.

(* a refusal is only issued when the uncapped response is over the cap *)
Lemma justified_unary c u : justified c (u_body u) (if u_void u then None else Some (u_b u)) (unary c u) = true.
Proof.
  unfold unary, unary_gen. destruct (u_fail u); [reflexivity|]. destruct (u_void u).
  - destruct (enforce (u_body u) 0 (wcap c) (ecap c)) eqn:E; unfold justified; cbn [r_err resp_err]; try reflexivity.
    + apply enforce_wire in E. lia.
    + apply enforce_ext in E. lia.
  - destruct (ext_on c && (0 <? ecap c) && (ecap c <? predicted c (u_b u))) eqn:P.
    + unfold justified. cbn [r_err resp_err]. lia.
    + destruct (enforce (u_body u) (upload c (u_b u)) (wcap c) (ecap c)) eqn:E; unfold justified; cbn [r_err resp_ok resp_err]; try reflexivity.
      * apply enforce_wire in E. lia.
      * apply enforce_ext in E. lia.
Qed.

Lemma justified_exchange c x : justified c (x_body x) (Some (x_b x)) (exchange c x) = true.
Proof.
  unfold exchange. destruct (x_act x); try reflexivity.
  destruct (ext_on c && (0 <? ecap c) && negb (predicted c (x_b x) =? 0) && (ecap c <? predicted c (x_b x))) eqn:P.
  - unfold justified. cbn [r_err resp_err]. lia.
  - destruct (enforce (x_body x) (upload c (x_b x)) (wcap c) (ecap c)) eqn:E; unfold justified; cbn [r_err resp_ok resp_err]; try reflexivity.
    + apply enforce_wire in E. lia.
    + apply enforce_ext in E. lia.
Qed.

Lemma caps_unset_unary c u : wcap c <= 0 -> ecap c <= 0 -> u_fail u = false ->
  r_err (unary c u) = ENone /\ r_body (unary c u) = u_body u /\ r_nlogs (unary c u) = u_logs u /\ unary c u = unary_legacy c u.
Proof.
  intros W E F. unfold unary, unary_legacy, unary_gen. rewrite F.
  destruct (u_void u).
  - assert (H : enforce (u_body u) 0 (wcap c) (ecap c) = ENone) by (apply enforce_none; lia).
    rewrite H. repeat split.
  - replace (0 <? ecap c) with false by lia. rewrite andb_false_r. cbn [andb].
    assert (H : enforce (u_body u) (upload c (u_b u)) (wcap c) (ecap c) = ENone) by (apply enforce_none; lia).
    rewrite H. repeat split.
Qed.

Lemma caps_unset_exchange c x : wcap c <= 0 -> ecap c <= 0 -> x_act x = AEmit ->
  exchange c x = resp_ok c (x_body x) (x_logs x) (x_b x).
Proof.
  intros W E A. unfold exchange. rewrite A.
  replace (0 <? ecap c) with false by lia. rewrite andb_false_r. cbn [andb].
  assert (H : enforce (x_body x) (upload c (x_b x)) (wcap c) (ecap c) = ENone) by (apply enforce_none; lia).
  now rewrite H.
Qed.

(* ------------------------------------------------------------------ frames *)

Lemma size_of_app a b : size_of (a ++ b) = size_of a + size_of b.
Proof. unfold size_of, sumz. rewrite map_app. induction (map fr_size a) as [|x l IH]; cbn [app fold_right]; lia. Qed.

Lemma ids_app a b : ids (a ++ b) = ids a ++ ids b.
Proof. unfold ids. now rewrite filter_app, map_app. Qed.

Lemma ids_logs cy : ids (log_frames cy) = [].
Proof. unfold log_frames. induction (c_logs cy) as [|s l IH]; [reflexivity|]. exact IH. Qed.

Lemma is_data_data_frame c b : is_data (data_frame c b) = true.
Proof. unfold is_data, data_frame, fr_kind. cbn [fst]. now destruct (externalized c b). Qed.

Lemma ids_data c b : ids [data_frame c b] = [b_id b].
Proof. unfold ids. cbn [filter]. rewrite is_data_data_frame. reflexivity. Qed.

Lemma size_logs cy : size_of (log_frames cy) = sumz (c_logs cy).
Proof. unfold size_of, log_frames. rewrite map_map. cbn [fr_size snd]. now rewrite map_id. Qed.

Definition emits (a : act) : bool := match a with AEmit | AEmitFin => true | _ => false end.

Lemma group_emit c cy : emits (c_act cy) = true -> group c cy = log_frames cy ++ [data_frame c (c_b cy)].
Proof. unfold group. now destruct (c_act cy). Qed.

Lemma ids_group_emit c cy : emits (c_act cy) = true -> ids (group c cy) = [b_id (c_b cy)].
Proof. intros E. rewrite (group_emit c cy E), ids_app, ids_logs, ids_data. reflexivity. Qed.

(* lg: the last group *)
Lemma lg_true_indep fs : forall acc b b', lg fs acc b true = lg fs acc b' true.
Proof.
  induction fs as [|f t IH]; intros acc b b'; cbn [lg]; [reflexivity|].
  destruct (is_data f); [reflexivity | apply IH].
Qed.

Lemma lg_nonempty_indep fs acc b tr b' tr' : fs <> [] -> lg fs acc b tr = lg fs acc b' tr'.
Proof.
  destruct fs as [|f t]; [congruence|]. intros _. cbn [lg].
  destruct (is_data f); [reflexivity | apply lg_true_indep].
Qed.

Lemma lg_logs_then_data ls d fs : is_data d = true -> forall acc b tr,
  lg (map (fun s => (0, 0, s)) ls ++ d :: fs) acc b tr = lg fs 0 (acc + sumz ls + fr_size d) false.
Proof.
  intros D. induction ls as [|l ls IH]; intros acc b tr; cbn [map app lg].
  - rewrite D. f_equal. change (sumz []) with 0. lia.
  - change (is_data (0, 0, l)) with false. cbn [fr_size snd]. rewrite IH. f_equal.
    change (sumz (l :: ls)) with (l + sumz ls). lia.
Qed.

Lemma lg_logs_only ls : forall acc b, lg (map (fun s => (0, 0, s)) ls) acc b true = acc + sumz ls.
Proof.
  induction ls as [|l ls IH]; intros acc b; cbn [map lg]; [change (sumz []) with 0; lia|].
  change (is_data (0, 0, l)) with false. cbn [fr_size snd]. rewrite IH.
  change (sumz (l :: ls)) with (l + sumz ls). lia.
Qed.

Lemma last_group_logs ls : last_group (map (fun s => (0, 0, s)) ls) = sumz ls.
Proof.
  unfold last_group. destruct ls as [|l ls]; [reflexivity|]. cbn [map lg].
  change (is_data (0, 0, l)) with false. cbn [fr_size snd]. rewrite lg_logs_only.
  change (sumz (l :: ls)) with (l + sumz ls). lia.
Qed.

Lemma last_group_emit c cy fs : emits (c_act cy) = true ->
  last_group (group c cy ++ fs) = match fs with [] => size_of (group c cy) | _ => last_group fs end.
Proof.
  intros E. unfold last_group. rewrite (group_emit c cy E), <- app_assoc. cbn [app]. unfold log_frames.
  rewrite (lg_logs_then_data _ _ _ (is_data_data_frame c (c_b cy))).
  rewrite size_of_app. fold (log_frames cy). rewrite size_logs.
  change (size_of [data_frame c (c_b cy)]) with (fr_size (data_frame c (c_b cy)) + 0).
  destruct fs as [|f t]; [cbn [lg]; lia|]. apply lg_nonempty_indep. discriminate.
Qed.

Lemma last_group_emit_only c cy : emits (c_act cy) = true -> last_group (group c cy) = size_of (group c cy).
Proof. intros E. pose proof (last_group_emit c cy [] E) as H. now rewrite app_nil_r in H. Qed.

(* ------------------------------------------------------------------ one turn *)

(* case analysis of one step of [turn]; leaves the six shapes *)
Ltac turn_cases cy A R L W :=
  cbn [turn]; destruct (c_act cy) eqn:A;
  [ destruct (ext_refused _ _ (c_b cy)) eqn:R;
    [| match goal with |- context [(0 <? limit ?c) && (limit ?c <=? ?n)] => destruct ((0 <? limit c) && (limit c <=? n)) eqn:L end;
       [| match goal with |- context [?wc && (0 <? wcap ?c) && (wcap ?c <=? ?w)] => destruct (wc && (0 <? wcap c) && (wcap c <=? w)) eqn:W end ] ]
  | destruct (ext_refused _ _ (c_b cy)) eqn:R
  | | | ]; cbn [tr_frames tr_end tr_w tr_e tr_a tr_rest tr_budgets].

Lemma turn_w wc c cs : forall w e a nd, tr_w (turn wc c w e a nd cs) = w + size_of (tr_frames (turn wc c w e a nd cs)).
Proof.
  induction cs as [|cy rest IH]; intros w e a nd; [cbn; unfold size_of; cbn; lia|].
  turn_cases cy A R L W; try (unfold size_of; cbn [map sumz fold_right]; lia); try lia.
  rewrite IH, size_of_app. lia.
Qed.

(* soft wire cap: what was in the buffer before the last flushed cycle is below
   the cap, or it is what the turn started with *)
Lemma turn_soft c cs : 0 < wcap c -> forall w e a nd,
  let r := turn true c w e a nd cs in
  tr_w r - last_group (tr_frames r) < Z.max (wcap c) (w + 1).
Proof.
  intros WC. induction cs as [|cy rest IH]; intros w e a nd; cbv zeta; [cbn; lia|].
  turn_cases cy A R L W; try (change (last_group []) with 0; lia).
  - (* ended by the batch limit *)
    rewrite last_group_emit_only by (now rewrite A). lia.
  - (* ended by the wire cap *)
    rewrite last_group_emit_only by (now rewrite A). lia.
  - (* the loop goes on: the buffer was still below the cap *)
    set (w' := w + size_of (group c cy)) in *.
    specialize (IH w' (e + upload c (c_b cy)) (a + predicted c (c_b cy)) (nd + 1)). cbv zeta in IH.
    rewrite last_group_emit by (now rewrite A).
    pose proof (turn_w true c rest w' (e + upload c (c_b cy)) (a + predicted c (c_b cy)) (nd + 1)) as TW.
    destruct (tr_frames (turn true c w' (e + upload c (c_b cy)) (a + predicted c (c_b cy)) (nd + 1) rest)) eqn:F.
    + unfold size_of in TW; cbn [map sumz fold_right] in TW. subst w'. lia.
    + cbn [andb] in W. lia.
  - (* emit + finish *)
    rewrite last_group_emit_only by (now rewrite A). lia.
  - (* finish, logs only *)
    unfold group. rewrite A. unfold log_frames. rewrite last_group_logs. fold (log_frames cy). rewrite size_logs. lia.
Qed.

(* progress: a turn that ends with a token wrote a data batch and consumed a cycle *)
Lemma turn_progress wc c cs : forall w e a nd,
  let r := turn wc c w e a nd cs in
  tr_end r = TToken -> (1 <= length (ids (tr_frames r)))%nat /\ (length (tr_rest r) < length cs)%nat.
Proof.
  induction cs as [|cy rest IH]; intros w e a nd; cbv zeta; [cbn; discriminate|].
  turn_cases cy A R L W; try discriminate; intros T.
  - rewrite ids_group_emit by (now rewrite A). cbn [length]. lia.
  - rewrite ids_group_emit by (now rewrite A). cbn [length]. lia.
  - destruct (IH _ _ _ _ T) as [I1 I2]. rewrite ids_app, app_length. cbn [length]. lia.
Qed.

(* external running total: the Arrow size of a turn's uploads never exceeds the cap *)
Lemma turn_external wc c cs : wfc c cs -> forall w e a nd,
  a <= e -> (0 < ecap c -> a <= ecap c) ->
  let r := turn wc c w e a nd cs in
  tr_a r <= tr_e r /\ (0 < ecap c -> tr_a r <= ecap c).
Proof.
  intros WF. induction cs as [|cy rest IH]; intros w e a nd AE AC; cbv zeta; [cbn; auto|].
  inversion WF as [|? ? Hb WF']; subst. pose proof (predicted_bounds c (c_b cy) Hb) as PB.
  assert (STEP : ext_refused c e (c_b cy) = false ->
                 a + predicted c (c_b cy) <= e + upload c (c_b cy) /\ (0 < ecap c -> a + predicted c (c_b cy) <= ecap c)).
  { unfold ext_refused. intros R. split; [lia|]. intros EC.
    destruct (predicted c (c_b cy) =? 0) eqn:P0; [lia|].
    assert (X : ext_on c = true).
    { unfold predicted, externalized in *. destruct (ext_on c); [reflexivity|]. cbn in P0. lia. }
    rewrite X in R. lia. }
  turn_cases cy A R L W; auto; try (apply STEP; exact R).
  apply IH; try apply STEP; auto.
Qed.

(* nothing is lost or reordered: ids of a turn against the uncut script *)
Lemma is_prefix_app a b c' : is_prefix (a ++ b) (a ++ c') = is_prefix b c'.
Proof. induction a as [|x a IH]; [reflexivity|]. cbn [app is_prefix]. rewrite Z.eqb_refl. exact IH. Qed.
Lemma is_prefix_nil b : is_prefix [] b = true.
Proof. reflexivity. Qed.
Lemma is_prefix_refl a : is_prefix a a = true.
Proof. rewrite <- (app_nil_r a), is_prefix_app. reflexivity. Qed.

Definition stream_rel (cs : list cycle) (r : tres) : Prop :=
  match tr_end r with
  | TToken => ideal_ids cs = ids (tr_frames r) ++ ideal_ids (tr_rest r) /\ ideal_end cs = ideal_end (tr_rest r)
  | TErr EExt => is_prefix (ids (tr_frames r)) (ideal_ids cs) = true
  | en => ids (tr_frames r) = ideal_ids cs /\ en = ideal_end cs
  end.

Lemma turn_stream wc c cs : forall w e a nd, stream_rel cs (turn wc c w e a nd cs).
Proof.
  induction cs as [|cy rest IH]; intros w e a nd; [cbn; auto|].
  unfold stream_rel.
  turn_cases cy A R L W; cbn [ideal_ids ideal_end]; rewrite ?A;
    try rewrite ids_group_emit by (now rewrite A); try (split; reflexivity); try reflexivity.
  - specialize (IH (w + size_of (group c cy)) (e + upload c (c_b cy)) (a + predicted c (c_b cy)) (nd + 1)).
    unfold stream_rel in IH. rewrite ids_app, ids_group_emit by (now rewrite A).
    destruct (tr_end (turn wc c (w + size_of (group c cy)) (e + upload c (c_b cy)) (a + predicted c (c_b cy)) (nd + 1) rest)) as [| |k].
    + destruct IH as [I1 I2]. cbn [app]. now rewrite I1, I2.
    + destruct IH as [I1 I2]. cbn [app]. now rewrite I1, I2.
    + destruct k; [destruct IH as [I1 I2]; cbn [app]; now rewrite I1, I2 .. |].
      cbn [app is_prefix]. now rewrite Z.eqb_refl.
  - unfold group. rewrite A, ids_logs. split; reflexivity.
Qed.

(* the budgets shown to user code *)
Lemma turn_budget_wire wc c cs : forall w e a nd, Forall (fun b => fst b = wcap c) (tr_budgets (turn wc c w e a nd cs)).
Proof.
  induction cs as [|cy rest IH]; intros w e a nd; [cbn; repeat constructor|].
  turn_cases cy A R L W; repeat constructor. apply IH.
Qed.

(* with no wire cap the check is inert *)
Lemma turn_wcap_unset c cs : wcap c <= 0 -> forall w e a nd, turn true c w e a nd cs = turn false c w e a nd cs.
Proof.
  intros WC. induction cs as [|cy rest IH]; intros w e a nd; [reflexivity|].
  cbn [turn]. destruct (c_act cy); try reflexivity.
  destruct (ext_refused c e (c_b cy)); [reflexivity|].
  destruct ((0 <? limit c) && (limit c <=? nd + 1)); [reflexivity|].
  replace (0 <? wcap c) with false by lia. cbn [andb]. now rewrite IH.
Qed.

(* with neither wire cap nor batch limit a turn never ends with a token *)
Lemma turn_no_token c cs : limit c <= 0 -> forall w e a nd, tr_end (turn false c w e a nd cs) <> TToken.
Proof.
  intros LM. induction cs as [|cy rest IH]; intros w e a nd; [cbn; discriminate|].
  cbn [turn]. destruct (c_act cy); cbn [tr_end]; try discriminate.
  - destruct (ext_refused c e (c_b cy)); cbn [tr_end]; [discriminate|].
    replace (0 <? limit c) with false by lia. cbn [andb tr_end]. apply IH.
  - destruct (ext_refused c e (c_b cy)); cbn [tr_end]; discriminate.
Qed.

(* ------------------------------------------------------------------ the whole stream *)

Lemma mk_turn_ok c pre cs e0 : wfc c cs ->
  turn_ok c pre (mk_turn (turn true c pre 0 0 e0 cs)) = true.
Proof.
  intros WF. unfold turn_ok, mk_turn, ext_err. cbn [t_payload t_frames t_end t_uarrow t_hdr].
  pose proof (turn_external true c cs WF pre 0 0 e0 (Z.le_refl 0)) as TE. cbv zeta in TE.
  pose proof (turn_progress true c cs pre 0 0 e0) as TP. cbv zeta in TP.
  assert (S1 : (wcap c <=? 0) || (tr_w (turn true c pre 0 0 e0 cs) - last_group (tr_frames (turn true c pre 0 0 e0 cs)) <? Z.max (wcap c) (pre + 1)) = true).
  { destruct (wcap c <=? 0) eqn:WC; [reflexivity|]. pose proof (turn_soft c cs ltac:(lia) pre 0 0 e0) as TS. cbv zeta in TS. lia. }
  rewrite S1. cbn [andb].
  destruct (tr_end (turn true c pre 0 0 e0 cs)) as [| |k] eqn:E; cbn [tend_eqb negb orb andb].
  - destruct (ecap c <=? 0) eqn:EC; cbn [orb]; [reflexivity|]. destruct TE as [_ TE]; [lia|]. lia.
  - destruct (TP eq_refl) as [T1 _].
    destruct (ecap c <=? 0) eqn:EC; cbn [orb]; [lia|]. destruct TE as [_ TE]; [lia|]. lia.
  - assert (S3 : (ecap c <=? 0) || (tr_a (turn true c pre 0 0 e0 cs) <=? ecap c) = true).
    { destruct (ecap c <=? 0) eqn:EC; [reflexivity|]. destruct TE as [_ TE]; [lia|]. lia. }
    rewrite S3. now destruct k.
Qed.

Lemma wfc_rest wc c cs w e a nd : wfc c cs -> wfc c (tr_rest (turn wc c w e a nd cs)).
Proof.
  revert w e a nd. induction cs as [|cy rest IH]; intros w e a nd WF; [constructor|].
  inversion WF; subst.
  turn_cases cy A R L W; try constructor; auto.
Qed.

Lemma final_end_cons t ts : ts <> [] -> final_end (t :: ts) = final_end ts.
Proof. destruct ts; [congruence | reflexivity]. Qed.

Lemma chain_ok_cons t ts : ts <> [] -> chain_ok (t :: ts) = is_token t && chain_ok ts.
Proof. destruct ts; [congruence | reflexivity]. Qed.

Lemma turns_ok_same c p ts : turns_ok c p p ts = true -> forallb (turn_ok c p) ts = true.
Proof. destruct ts; [discriminate | exact (fun H => H)]. Qed.

Lemma run_from_nonempty f wc c p p1 cs : run_from (S f) wc c p p1 cs <> [].
Proof. cbn [run_from]. discriminate. Qed.

Lemma stream_ok_step cs t rest_ts rest_cs :
  rest_ts <> [] ->
  ideal_ids cs = ids (t_frames t) ++ ideal_ids rest_cs -> ideal_end cs = ideal_end rest_cs ->
  stream_ok rest_cs rest_ts = true -> stream_ok cs (t :: rest_ts) = true.
Proof.
  intros NE I1 I2. unfold stream_ok, all_ids. rewrite (final_end_cons t rest_ts NE).
  cbn [map concat]. fold (all_ids rest_ts). rewrite I1, I2, is_prefix_app.
  destruct (tend_eqb (final_end rest_ts) (TErr EExt)); [exact (fun H => H)|].
  intros H. apply andb_true_iff in H as [H1 H2]. rewrite H2, andb_true_r.
  apply (list_eqb_eq Z.eqb Z.eqb_eq) in H1. rewrite H1. apply (list_eqb_eq Z.eqb Z.eqb_eq). reflexivity.
Qed.

Lemma tend_eqb_eq a b : tend_eqb a b = true <-> a = b.
Proof.
  destruct a as [| |x], b as [| |y]; cbn; split; intro H; try discriminate; try reflexivity.
  - destruct x, y; cbn in H; try discriminate; reflexivity.
  - inversion H; subst. now destruct y.
Qed.

Lemma run_from_spec c pre1 : forall fuel pre cs, wfc c cs -> (length cs < fuel)%nat ->
  let ts := run_from fuel true c pre pre1 cs in
  turns_ok c pre pre1 ts = true /\ chain_ok ts = true /\ stream_ok cs ts = true /\ (length ts <= S (length cs))%nat.
Proof.
  induction fuel as [|f IH]; intros pre cs WF LT; [lia|]. cbv zeta. cbn [run_from].
  pose proof (mk_turn_ok c pre cs 0 WF) as TOK.
  pose proof (turn_stream true c cs pre 0 0 0) as SR. unfold stream_rel in SR.
  pose proof (turn_progress true c cs pre 0 0 0) as TP. cbv zeta in TP.
  set (r := turn true c pre 0 0 0 cs) in *.
  destruct (tr_end r) as [| |k] eqn:E.
  - (* finished *)
    destruct SR as [S1 S2]. repeat split.
    + cbn [turns_ok forallb]. now rewrite TOK.
    + cbn [chain_ok]. unfold is_token, mk_turn. cbn [t_end]. now rewrite E.
    + unfold stream_ok, all_ids. cbn [final_end map concat mk_turn t_end t_frames]. rewrite E, app_nil_r. cbn [tend_eqb].
      rewrite S1, <- S2. cbn [tend_eqb]. rewrite andb_true_r. apply (list_eqb_eq Z.eqb Z.eqb_eq). reflexivity.
    + cbn [length]. lia.
  - (* continuation *)
    destruct (TP eq_refl) as [_ SH]. destruct SR as [S1 S2].
    assert (LT' : (length (tr_rest r) < f)%nat) by lia.
    destruct f as [|f']; [lia|].
    specialize (IH pre1 (tr_rest r) (wfc_rest true c cs pre 0 0 0 WF) LT'). cbv zeta in IH.
    destruct IH as (I1 & I2 & I3 & I4).
    pose proof (run_from_nonempty f' true c pre1 pre1 (tr_rest r)) as NE.
    repeat split.
    + cbn [turns_ok]. rewrite TOK. cbn [andb]. apply turns_ok_same. exact I1.
    + rewrite chain_ok_cons by exact NE. unfold is_token at 1, mk_turn. cbn [t_end]. rewrite E. cbn [tend_eqb andb]. exact I2.
    + apply (stream_ok_step cs (mk_turn r) _ (tr_rest r) NE); [exact S1 | exact S2 | exact I3].
    + cbn [length]. lia.
  - (* error *)
    repeat split.
    + cbn [turns_ok forallb]. now rewrite TOK.
    + cbn [chain_ok]. unfold is_token, mk_turn. cbn [t_end]. now rewrite E.
    + unfold stream_ok, all_ids. cbn [final_end map concat mk_turn t_end t_frames]. rewrite E, app_nil_r.
      destruct k; cbn [tend_eqb errk_eqb]; try exact SR;
        destruct SR as [S1 S2]; rewrite S1, <- S2; cbn [tend_eqb errk_eqb]; rewrite andb_true_r;
        apply (list_eqb_eq Z.eqb Z.eqb_eq); reflexivity.
    + cbn [length]. lia.
Qed.

Lemma run_spec c pre0 pre1 cs : wfc c cs ->
  let ts := run c pre0 pre1 cs in
  turns_ok c pre0 pre1 ts = true /\ chain_ok ts = true /\ stream_ok cs ts = true /\ (length ts <= S (length cs))%nat.
Proof. intros WF. apply run_from_spec; [exact WF | lia]. Qed.

(* ------------------------------------------------------------------ readable forms *)

Lemma turns_ok_forall c p0 p1 ts : turns_ok c p0 p1 ts = true ->
  forall t, In t ts -> turn_ok c p0 t = true \/ turn_ok c p1 t = true.
Proof.
  destruct ts as [|t0 rest]; [discriminate|]. cbn [turns_ok]. intros H t [<-|I].
  - left. now apply andb_true_iff in H as [H _].
  - right. apply andb_true_iff in H as [_ H]. rewrite forallb_forall in H. now apply H.
Qed.

Lemma turn_ok_bound c p t : turn_ok c p t = true ->
  (0 < wcap c -> t_payload t - last_group (t_frames t) < Z.max (wcap c) (p + 1)) /\
  (t_end t = TToken -> (1 <= length (ids (t_frames t)))%nat) /\
  (0 < ecap c -> t_uarrow t <= ecap c) /\
  (t_hdr t = true <-> t_end t = TErr EExt).
Proof.
  unfold turn_ok, ext_err. intros H. repeat (apply andb_true_iff in H as [H ?]).
  repeat split.
  - lia.
  - intros E. rewrite E in *. cbn [tend_eqb negb orb] in *. lia.
  - lia.
  - intros T. rewrite T in *. apply tend_eqb_eq. now destruct (tend_eqb (t_end t) (TErr EExt)).
  - intros T. rewrite T in *. cbn [tend_eqb errk_eqb] in *. now destruct (t_hdr t).
Qed.

Lemma run_from_legacy_eq c pre1 : wcap c <= 0 -> forall fuel pre cs,
  run_from fuel true c pre pre1 cs = run_from fuel false c pre pre1 cs.
Proof.
  intros WC. induction fuel as [|f IH]; intros pre cs; [reflexivity|].
  cbn [run_from]. rewrite (turn_wcap_unset c cs WC). destruct (tr_end _); try reflexivity. now rewrite IH.
Qed.

Lemma run_single c pre0 pre1 cs : wcap c <= 0 -> limit c <= 0 ->
  run c pre0 pre1 cs = [mk_turn (turn false c pre0 0 0 0 cs)].
Proof.
  intros WC LM. unfold run. rewrite (run_from_legacy_eq c pre1 WC). cbn [run_from].
  pose proof (turn_no_token c cs LM pre0 0 0 0) as NT.
  destruct (tr_end (turn false c pre0 0 0 0 cs)); [reflexivity | congruence | reflexivity].
Qed.

Lemma run_budgets c pre1 : forall fuel pre cs t, In t (run_from fuel true c pre pre1 cs) ->
  Forall (fun b => fst b = wcap c) (t_budgets t).
Proof.
  induction fuel as [|f IH]; intros pre cs t; [intros []|]. cbn [run_from]. intros [<-|I].
  - apply turn_budget_wire.
  - destruct (tr_end _); try (now destruct I). eapply IH; exact I.
Qed.

Lemma in_run_turn_ok c pre0 pre1 cs t : wfc c cs -> In t (run c pre0 pre1 cs) ->
  turn_ok c pre0 t = true \/ turn_ok c pre1 t = true.
Proof.
  intros WF I. destruct (run_spec c pre0 pre1 cs WF) as (A & _). eapply turns_ok_forall; eauto.
Qed.

Lemma chain_nonempty ts : chain_ok ts = true -> (1 <= length ts)%nat.
Proof. destruct ts; [discriminate | cbn [length]; lia]. Qed.

Lemma producer_soft_lemma c pre0 pre1 cs : wfc c cs ->
  let ts := run c pre0 pre1 cs in
  (1 <= length ts <= S (length cs))%nat /\
  chain_ok ts = true /\
  (forall t, In t ts -> 0 < wcap c ->
     t_payload t - last_group (t_frames t) < Z.max (wcap c) (Z.max pre0 pre1 + 1)) /\
  (forall t, In t ts -> t_end t = TToken -> (1 <= length (ids (t_frames t)))%nat) /\
  (final_end ts <> TErr EExt -> all_ids ts = ideal_ids cs /\ final_end ts = ideal_end cs) /\
  (final_end ts = TErr EExt -> is_prefix (all_ids ts) (ideal_ids cs) = true).
Proof.
  intros WF. cbv zeta. destruct (run_spec c pre0 pre1 cs WF) as (A & B & C & D).
  split; [split; [apply chain_nonempty; exact B | exact D]|]. split; [exact B|].
  split; [|split; [|split]].
  - intros t I WC. destruct (in_run_turn_ok c pre0 pre1 cs t WF I) as [H|H];
      apply turn_ok_bound in H as (H & _); specialize (H WC); lia.
  - intros t I E. destruct (in_run_turn_ok c pre0 pre1 cs t WF I) as [H|H];
      apply turn_ok_bound in H as (_ & H & _); exact (H E).
  - intros NE. unfold stream_ok in C.
    destruct (tend_eqb (final_end (run c pre0 pre1 cs)) (TErr EExt)) eqn:X; [apply tend_eqb_eq in X; congruence|].
    apply andb_true_iff in C as [C1 C2]. split; [now apply (list_eqb_eq Z.eqb Z.eqb_eq) | now apply tend_eqb_eq].
  - intros EE. unfold stream_ok in C. rewrite EE in C. exact C.
Qed.

Lemma producer_overshoot c pre0 pre1 cs t : wfc c cs ->
  0 < wcap c -> pre0 < wcap c -> pre1 < wcap c -> In t (run c pre0 pre1 cs) ->
  t_payload t < wcap c + last_group (t_frames t).
Proof.
  intros WF WC P0 P1 I. destruct (producer_soft_lemma c pre0 pre1 cs WF) as (_ & _ & H & _).
  specialize (H t I WC). lia.
Qed.

Lemma external_total c pre0 pre1 cs t : wfc c cs -> In t (run c pre0 pre1 cs) ->
  (0 < ecap c -> t_uarrow t <= ecap c) /\ (t_hdr t = true <-> t_end t = TErr EExt).
Proof.
  intros WF I. destruct (in_run_turn_ok c pre0 pre1 cs t WF I) as [H|H];
    apply turn_ok_bound in H as (_ & _ & H1 & H2); split; assumption.
Qed.

Lemma caps_unset c : wcap c <= 0 ->
  (forall pre0 pre1 cs, run c pre0 pre1 cs = run_legacy c pre0 pre1 cs) /\
  (limit c <= 0 -> forall pre0 pre1 cs, run c pre0 pre1 cs = [mk_turn (turn false c pre0 0 0 0 cs)]) /\
  (ecap c <= 0 -> forall u, u_fail u = false ->
     r_err (unary c u) = ENone /\ r_body (unary c u) = u_body u /\ r_nlogs (unary c u) = u_logs u /\ unary c u = unary_legacy c u) /\
  (ecap c <= 0 -> forall x, x_act x = AEmit -> exchange c x = resp_ok c (x_body x) (x_logs x) (x_b x)).
Proof.
  intros WC. repeat split.
  - intros. unfold run, run_legacy. now apply run_from_legacy_eq.
  - intros LM pre0 pre1 cs. now apply run_single.
  - now apply caps_unset_unary.
  - now apply caps_unset_unary.
  - now apply caps_unset_unary.
  - now apply caps_unset_unary.
  - intros EC x A. now apply caps_unset_exchange.
Qed.

Lemma budgets_whole_cap c pre0 pre1 cs t :
  In t (run c pre0 pre1 cs) -> Forall (fun b => fst b = wcap c) (t_budgets t).
Proof. apply run_budgets. Qed.

(* ------------------------------------------------------------------ witnesses *)

Definition w_cycles : list cycle :=
  map (fun i => {| c_logs := []; c_act := AEmit;
                   c_b := {| b_id := Z.of_nat i; b_rows := 512; b_wire := 4240; b_arrow := 4224; b_raw := 0 |} |})
      (seq 1 20).
Definition w_caps : caps := {| wcap := 10000; ecap := 0; limit := 0; ext_on := false; thr := 0 |}.

Definition over_soft_cap (c : caps) (pre : Z) (t : pturn) : bool :=
  negb (t_payload t - last_group (t_frames t) <? Z.max (wcap c) (pre + 1)).

Lemma legacy_witness_b :
  existsb (fun t => over_soft_cap w_caps 128 t && (t_payload t =? 84928)) (run_legacy w_caps 128 128 w_cycles) = true.
Proof. vm_compute. reflexivity. Qed.

Lemma w_cycles_wf : wfc w_caps w_cycles.
Proof.
  unfold wfc, w_cycles. apply Forall_forall. intros cy I. apply in_map_iff in I as (i & <- & _).
  unfold wf_batch, externalized. cbn. discriminate.
Qed.

Lemma legacy_witness :
  wfc w_caps w_cycles /\
  exists t, In t (run_legacy w_caps 128 128 w_cycles) /\
            ~ (t_payload t - last_group (t_frames t) < Z.max (wcap w_caps) (128 + 1)) /\ t_payload t = 84928.
Proof.
  split; [exact w_cycles_wf|].
  pose proof legacy_witness_b as H. apply existsb_exists in H as (t & I & H).
  exists t. split; [exact I|]. unfold over_soft_cap in H. lia.
Qed.

Lemma void_legacy_witness :
  let c := {| wcap := 600; ecap := 0; limit := 0; ext_on := false; thr := 0 |} in
  let u := {| u_logs := 5; u_fail := false; u_void := true;
              u_b := {| b_id := 1; b_rows := 1; b_wire := 0; b_arrow := 9; b_raw := 0 |}; u_body := 1816 |} in
  r_err (unary_legacy c u) = ENone /\ wcap c < r_body (unary_legacy c u) /\ hard_ok c (unary_legacy c u) = false
  /\ r_err (unary c u) = EWire.
Proof. vm_compute. repeat split. Qed.

(* ------------------------------------------------------------------ spec on the model *)

Definition wf_input (i : input) : Prop :=
  match i with
  | IProd c _ _ cs => wfc c cs
  | _ => True
  end.

Lemma model_meets_spec i : wf_input i -> spec_ok i (model i) = true.
Proof.
  destruct i as [c u|c xs|c p0 p1 cs|w e wc ec]; cbn [wf_input model spec_ok]; intros WF.
  - unfold unary_ok. now rewrite hard_ok_unary, justified_unary.
  - induction xs as [|x xs IH]; [reflexivity|]. cbn [map exch_ok]. now rewrite hard_ok_exchange, justified_exchange, IH.
  - destruct (run_spec c p0 p1 cs WF) as (A & B & C & _). now rewrite A, B, C.
  - destruct (enforce w e wc ec) eqn:E; try reflexivity. apply enforce_none in E. lia.
Qed.
