(* Proofs/C38.v — lemmas for the access-log record model. *)
From VR Require Import Model.C38.
From Coq Require Import ZifyBool ZifyN ZifyNat.
Open Scope N_scope.
Local Arguments N.eqb : simpl never.
Local Arguments N.leb : simpl never.
Local Arguments N.ltb : simpl never.
Local Arguments Z.eqb : simpl never.
Local Arguments Z.leb : simpl never.
Local Arguments Z.ltb : simpl never.

(* ---- lookup in a selected field list -------------------------------------- *)
Definition fkey (f : bool * (bytes * jv)) : bytes := fst (snd f).

Fixpoint lookup_sel (k : bytes) (fs : list (bool * (bytes * jv))) : option jv :=
  match fs with
  | [] => None
  | (p, (k', v)) :: t => if beqb k k' then (if p then Some v else lookup_sel k t) else lookup_sel k t
  end.

Lemma lookup_select k fs : lookup k (select fs) = lookup_sel k fs.
Proof.
  induction fs as [|[p [k' v]] t IH]; cbn; [reflexivity|].
  destruct p; cbn; rewrite IH; destruct (beqb k k'); reflexivity.
Qed.

Lemma lookup_sel_notin k fs : ~ In k (map fkey fs) -> lookup_sel k fs = None.
Proof.
  induction fs as [|[p [k' v]] t IH]; cbn; intro H; [reflexivity|].
  destruct (beqb k k') eqn:E.
  - apply beqb_eq in E. subst. exfalso. apply H. now left.
  - apply IH. intro Hin. apply H. now right.
Qed.

Definition sel_at (fs : list (bool * (bytes * jv))) (i : nat) : option jv :=
  match nth_error fs i with Some (true, (_, v)) => Some v | _ => None end.

Lemma lookup_sel_nth k : forall fs i,
  NoDup (map fkey fs) -> nth_error (map fkey fs) i = Some k -> lookup_sel k fs = sel_at fs i.
Proof.
  induction fs as [|[p [k' v]] t IH]; intros i Hnd Hi.
  - destruct i; discriminate.
  - cbn in Hnd. inversion Hnd as [|x l Hnotin Hnd']; subst. destruct i as [|j]; cbn in Hi.
    + inversion Hi; subst. cbn. rewrite beqb_refl. unfold sel_at; cbn. destruct p; [reflexivity|].
      now apply lookup_sel_notin.
    + cbn. assert (Hin : In k (map fkey t)) by (eapply nth_error_In; exact Hi).
      destruct (beqb k k') eqn:E.
      * apply beqb_eq in E. subst. contradiction.
      * unfold sel_at. cbn. now apply IH.
Qed.

Lemma nodupb_sound l : nodupb l = true -> NoDup l.
Proof.
  induction l as [|x t IH]; cbn; intro H; [constructor|].
  apply andb_true_iff in H as [H1 H2]. constructor; [|now apply IH].
  intro Hin. apply negb_true_iff in H1.
  assert (existsb (beqb x) t = true); [|congruence].
  apply existsb_exists. exists x. split; [exact Hin | apply beqb_refl].
Qed.

Lemma nodupb_complete l : NoDup l -> nodupb l = true.
Proof.
  induction 1 as [|x t Hnotin Hnd IH]; cbn; [reflexivity|].
  rewrite IH, andb_true_r. apply negb_true_iff.
  destruct (existsb (beqb x) t) eqn:E; [|reflexivity].
  apply existsb_exists in E as [y [Hy Hxy]]. apply beqb_eq in Hxy. subst. contradiction.
Qed.

Definition ALLKEYS : list bytes :=
  [K_auth_domain; K_authenticated; K_cancelled; K_claims; K_duration_ms; K_error_message; K_error_type;
   K_externalized_bytes; K_http_status; K_input_batches; K_input_bytes; K_input_rows; K_level; K_logger;
   K_message; K_method; K_method_type; K_original_request_bytes; K_output_batches; K_output_bytes;
   K_output_rows; K_principal; K_protocol; K_protocol_hash; K_remote_addr; K_request_bytes; K_request_data;
   K_request_id; K_response_bytes; K_server_id; K_server_version; K_span_id; K_status; K_stream_id;
   K_timestamp; K_trace_id; K_truncated].

Lemma fields_keys d : map fkey (fields d) = ALLKEYS.
Proof. reflexivity. Qed.

Lemma allkeys_nodup : NoDup ALLKEYS.
Proof. apply nodupb_sound. vm_compute. reflexivity. Qed.

Lemma lookup_at d k i : nth_error ALLKEYS i = Some k -> lookup k (assemble d) = sel_at (fields d) i.
Proof.
  intro H. unfold assemble. rewrite lookup_select. apply lookup_sel_nth; rewrite fields_keys; [apply allkeys_nodup | exact H].
Qed.

Lemma lookup_other d k : ~ In k ALLKEYS -> lookup k (assemble d) = None.
Proof.
  intro H. unfold assemble. rewrite lookup_select. apply lookup_sel_notin. now rewrite fields_keys.
Qed.

(* keys of a selection are a sub-list of the field keys: no duplicates *)
Lemma select_keys_incl fs k : In k (keys (select fs)) -> In k (map fkey fs).
Proof.
  induction fs as [|[[] [k' v]] t IH]; cbn; intro H; [contradiction| |].
  - destruct H as [H|H]; [now left | right; now apply IH].
  - right. now apply IH.
Qed.

Lemma select_keys_nodup fs : NoDup (map fkey fs) -> NoDup (keys (select fs)).
Proof.
  induction fs as [|[[] [k' v]] t IH]; cbn; intro H; [constructor| |]; inversion H; subst.
  - constructor; [|now apply IH]. intro Hin. apply select_keys_incl in Hin. contradiction.
  - now apply IH.
Qed.

Lemma assemble_nodup d : nodupb (keys (assemble d)) = true.
Proof.
  apply nodupb_complete. unfold assemble. apply select_keys_nodup. rewrite fields_keys. apply allkeys_nodup.
Qed.

(* rewrite every [lookup K (assemble d)] for a literal key K into the field's
   presence flag and value *)
Fixpoint find_idx (k : bytes) (l : list bytes) : option nat :=
  match l with
  | [] => None
  | x :: t => if beqb k x then Some O else match find_idx k t with Some n => Some (S n) | None => None end
  end.

Ltac lk_one d K :=
  let i := eval vm_compute in (find_idx K ALLKEYS) in
  match i with
  | Some ?n => rewrite (lookup_at d K n eq_refl); cbv beta iota delta [sel_at nth_error fields]
  end.
Ltac lk d := repeat match goal with |- context [lookup ?K (assemble d)] => lk_one d K end.

(* ---- small facts ------------------------------------------------------------ *)
Lemma str_is_refl x : str_is x (JStr x) = true.
Proof. unfold str_is, str_sat. apply beqb_refl. Qed.

Lemma nonneg_fold l : forallb nonneg l = true -> forall a, (0 <= a)%Z -> (0 <= fold_left Z.add l a)%Z.
Proof.
  induction l as [|x t IH]; cbn; intros H a Ha; [exact Ha|].
  apply andb_true_iff in H as [Hx Ht]. apply IH; [exact Ht|]. unfold nonneg in Hx. lia.
Qed.

(* the counting writer: after any chain of writes the count is the sum, and
   chains compose *)
Lemma fold_add_shift l : forall a, fold_left Z.add l a = (a + fold_left Z.add l 0)%Z.
Proof.
  induction l as [|x t IH]; intro a; cbn; [lia|]. rewrite IH. rewrite (IH x). lia.
Qed.

Lemma sum_app l1 l2 :
  fold_left Z.add (l1 ++ l2) 0%Z = (fold_left Z.add l1 0 + fold_left Z.add l2 0)%Z.
Proof. rewrite fold_left_app. apply fold_add_shift. Qed.

(* ---- trace ---------------------------------------------------------------- *)
Lemma trace_ctx_some p t s : trace_ctx p = Some (t, s) ->
  p = PRet t s /\ lower_hex 32 t = true /\ lower_hex 16 s = true.
Proof.
  destruct p as [|t' s'|]; cbn; try discriminate.
  destruct (lower_hex 32 t') eqn:E1; destruct (lower_hex 16 s') eqn:E2; cbn; try discriminate.
  intro H; inversion H; subst. auto.
Qed.

Lemma trace_fields d :
  match tr_of d with
  | Some (t, s) => lookup K_trace_id (assemble d) = Some (JStr t) /\ lookup K_span_id (assemble d) = Some (JStr s)
  | None => lookup K_trace_id (assemble d) = None /\ lookup K_span_id (assemble d) = None
  end.
Proof.
  lk d. unfold has_tr. destruct (tr_of d) as [[t s]|]; split; reflexivity.
Qed.

Lemma trace_ok_assemble d : trace_ok (assemble d) = true.
Proof.
  unfold trace_ok. pose proof (trace_fields d) as H. destruct (tr_of d) as [[t s]|] eqn:E.
  - destruct H as [-> ->]. apply trace_ctx_some in E as [_ [H1 H2]]. cbn. now rewrite H1, H2.
  - destruct H as [-> ->]. reflexivity.
Qed.

(* ---- payload --------------------------------------------------------------- *)
Lemma b64_nonempty s : nonempty s = true -> nonempty (b64 s) = true.
Proof. destruct s as [|a [|b [|c t]]]; cbn; intro H; try discriminate; reflexivity. Qed.

Lemma b64len_pos n : 0 < n -> (0 < b64len n)%Z.
Proof.
  intro H. unfold b64len. assert (1 <= (Z.of_N n + 2) / 3)%Z by (apply Z.div_le_lower_bound; lia). lia.
Qed.

Lemma b64len_nonneg n : (0 <= b64len n)%Z.
Proof. unfold b64len. assert (0 <= (Z.of_N n + 2) / 3)%Z by (apply Z.div_pos; lia). lia. Qed.

(* the elided form agrees with the explicit one: base64 of n bytes has 4 * ceil(n / 3) characters *)
Lemma b64_length : forall s, Z.of_nat (length (b64 s)) = b64len (N.of_nat (length s)).
Proof.
  fix IH 1. intros [|a [|b [|c t]]]; try reflexivity.
  cbn [b64 length]. rewrite !Nat2Z.inj_succ, IH. unfold b64len. rewrite !Nat2N.inj_succ, !N2Z.inj_succ.
  replace (Z.succ (Z.succ (Z.succ (Z.of_N (N.of_nat (length t))))) + 2)%Z
    with ((Z.of_N (N.of_nat (length t)) + 2) + 1 * 3)%Z by lia.
  rewrite Z.div_add by lia. lia.
Qed.

Lemma payload_data_nonempty p : has_payload_p p = true -> strlike_nonempty (payload_data p) = true.
Proof.
  destruct p as [b|n]; cbn [has_payload_p payload_data strlike_nonempty].
  - intro H. apply b64_nonempty. now destruct b.
  - intro H. pose proof (b64len_pos n ltac:(lia)). rewrite andb_true_r. lia.
Qed.

Lemma payload_len_nonneg p : (0 <= payload_len p)%Z.
Proof. destruct p; cbn [payload_len]; [lia | apply b64len_nonneg]. Qed.

Lemma payload_ok_assemble d : payload_ok (assemble d) = true.
Proof.
  unfold payload_ok, req, has. lk d.
  destruct (has_payload d) eqn:P; destruct (d_debug d); cbn [andb negb]; try reflexivity.
  - unfold has_payload in P. now rewrite payload_data_nonempty.
  - rewrite str_is_refl. unfold is_count. cbn [andb]. pose proof (payload_len_nonneg (d_payload d)). lia.
Qed.

Lemma payload_or_marker_assemble d :
  has_payload_or_marker (assemble d) = has_payload d.
Proof.
  unfold has_payload_or_marker, has. lk d. destruct (has_payload d); destruct (d_debug d); reflexivity.
Qed.

(* ---- claims ---------------------------------------------------------------- *)
Lemma redact_with_keys f c : keys (redact_with f c) = keys c.
Proof.
  unfold keys, redact_with. rewrite map_map. apply map_ext. intros [k v]; cbn. now destruct (f k).
Qed.

Lemma redact_with_hit f c k v : In (k, v) (redact_with f c) -> f k = true -> v = JStr al_redacted.
Proof.
  unfold redact_with. intros Hin Hf. apply in_map_iff in Hin as [[k0 v0] [Heq _]]. cbn in Heq.
  destruct (f k0) eqn:E; inversion Heq; subst; [reflexivity | congruence].
Qed.

Lemma redact_with_miss f c k v : In (k, v) c -> f k = false -> In (k, v) (redact_with f c).
Proof.
  unfold redact_with. intros Hin Hf. apply in_map_iff. exists (k, v). cbn. rewrite Hf. auto.
Qed.

Lemma jv_eqb_refl : forall v, jv_eqb v v = true.
Proof.
  fix IH 1. intros [s|z| |b| |kvs|l|n a]; cbn; try reflexivity.
  - apply beqb_refl.
  - apply Z.eqb_refl.
  - apply Bool.eqb_reflx.
  - induction kvs as [|[k v] t IHt]; [reflexivity|]. rewrite beqb_refl, IH, IHt. reflexivity.
  - induction l as [|v t IHt]; [reflexivity|]. rewrite IH, IHt. reflexivity.
  - now rewrite Z.eqb_refl, Bool.eqb_reflx.
Qed.

Lemma payload_described_assemble d : payload_described (d_payload d) (assemble d) = true.
Proof.
  unfold payload_described, opt. lk d.
  destruct (has_payload d); destruct (d_debug d); cbn [andb negb]; rewrite ?jv_eqb_refl; reflexivity.
Qed.

Lemma redacted_by_redact_with f c : redacted_by f c (redact_with f c) = true.
Proof.
  induction c as [|[k v] t IH]; [reflexivity|].
  cbn [redact_with map redacted_by fst]. fold (redact_with f t).
  destruct (f k) eqn:E; rewrite ?E, beqb_refl, IH, ?jv_eqb_refl, ?beqb_refl; reflexivity.
Qed.

Lemma redacted_by_id c : redacted_by (fun _ => false) c c = true.
Proof. induction c as [|[k v] t IH]; cbn; [reflexivity|]. now rewrite beqb_refl, jv_eqb_refl, IH. Qed.

Lemma default_policy_lemma :
  forallb sensitive canonical_sensitive = true /\ forallb (fun k => negb (sensitive k)) canonical_plain = true.
Proof. split; vm_compute; reflexivity. Qed.

Lemma canon_redacted_default c : canon_redacted (redact_with sensitive c) = true.
Proof.
  unfold canon_redacted. apply forallb_forall. intros [k v] Hin. cbn [fst snd].
  destruct (in_keys canonical_sensitive k) eqn:E; [|reflexivity]. cbn [negb orb].
  assert (Hs : sensitive k = true).
  { unfold in_keys in E. apply existsb_exists in E as [x [Hx Hb]]. apply beqb_eq in Hb. subst x.
    destruct default_policy_lemma as [H _]. exact (proj1 (forallb_forall _ _) H k Hx). }
  rewrite (redact_with_hit _ _ _ _ Hin Hs). apply jv_eqb_refl.
Qed.

Lemma claims_lookup d :
  lookup K_claims (assemble d) =
  match d_auth d with Some a => claims_field (d_redactor d) (a_claims a) | None => None end.
Proof.
  lk d. unfold cl_of, opt_jv.
  destruct (match d_auth d with Some a => claims_field (d_redactor d) (a_claims a) | None => None end); reflexivity.
Qed.

Lemma claims_ok_assemble d a : d_auth d = Some a -> claims_ok (d_redactor d) (a_claims a) (assemble d) = true.
Proof.
  intro Ha. unfold claims_ok. rewrite claims_lookup, Ha. unfold claims_field.
  destruct (a_claims a) as [|kv c] eqn:Ec.
  - destruct (d_redactor d); reflexivity.
  - destruct (d_redactor d) as [| |ks| |]; cbn [apply_redaction redact_pred]; try reflexivity.
    + pose proof (redacted_by_redact_with sensitive (kv :: c)) as H.
      pose proof (canon_redacted_default (kv :: c)) as Hc.
      destruct (redact_with sensitive (kv :: c)) eqn:E; [destruct kv; discriminate | now rewrite H, Hc].
    + now rewrite redacted_by_id.
    + pose proof (redacted_by_redact_with (in_keys ks) (kv :: c)) as H.
      destruct (redact_with (in_keys ks) (kv :: c)) eqn:E; [destruct kv; discriminate | now rewrite H].
Qed.

Lemma claims_shape_assemble d : claims_shape_ok (assemble d) = true.
Proof.
  unfold claims_shape_ok, opt. rewrite claims_lookup.
  destruct (d_auth d) as [a|]; [|reflexivity]. unfold claims_field.
  destruct (a_claims a); [reflexivity|]. destruct (apply_redaction (d_redactor d) (p :: j)) as [[|x y]|]; reflexivity.
Qed.

Lemma claims_none_no_auth d : d_auth d = None -> has K_claims (assemble d) = false.
Proof. intro H. unfold has. now rewrite claims_lookup, H. Qed.

(* ---- stream id ------------------------------------------------------------- *)
Lemma method_type_lookup d :
  lookup K_method_type (assemble d) = Some (JStr (if d_stream d then al_stream else al_unary)).
Proof. lk d. reflexivity. Qed.

Lemma is_stream_rec_assemble d : is_stream_rec (assemble d) = d_stream d.
Proof.
  unfold is_stream_rec, req. rewrite method_type_lookup. destruct (d_stream d); vm_compute; reflexivity.
Qed.

Lemma stream_id_lookup d :
  lookup K_stream_id (assemble d) = if d_stream d then Some (JStr (stream_id_of d)) else None.
Proof. lk d. reflexivity. Qed.

Lemma stream_id_ok_assemble d : dinfo_wf d = true -> stream_id_ok (assemble d) = true.
Proof.
  unfold dinfo_wf, stream_id_ok, req, has. intro H. rewrite is_stream_rec_assemble, stream_id_lookup.
  destruct (d_stream d); [|reflexivity]. cbn. now destruct (lower_hex 32 (stream_id_of d)).
Qed.

(* ---- required / optional --------------------------------------------------- *)
Lemma required_ok_assemble d : required_ok (assemble d) = true.
Proof.
  unfold required_ok, req. lk d.
  rewrite !str_is_refl. unfold a_str.
  assert (T : str_sat timestamp_ok (JStr epoch_ts) = true) by (vm_compute; reflexivity). rewrite T.
  destruct (d_auth d); destruct (d_stream d); destruct (d_err d); cbn [is_str is_bool is_number status_of andb orb];
    rewrite ?str_is_refl, ?orb_true_r; reflexivity.
Qed.

Lemma egress_counts d g : d_egress d = Some g ->
  lookup K_request_bytes (assemble d) = Some (JInt (request_bytes g))
  /\ lookup K_response_bytes (assemble d) = Some (JInt (response_bytes g)).
Proof. intro H. lk d. unfold on_egress. rewrite H. split; reflexivity. Qed.

Lemma egress_none d : d_egress d = None ->
  lookup K_request_bytes (assemble d) = None /\ lookup K_response_bytes (assemble d) = None.
Proof. intro H. lk d. unfold on_egress. rewrite H. split; reflexivity. Qed.

Lemma o_errmsg d : opt K_error_message (str_sat nonempty) (assemble d) = true.
Proof. unfold opt. lk d. destruct (nonempty (err_msg (d_err d))) eqn:E; [exact E | reflexivity]. Qed.
Lemma o_version d : opt K_server_version (str_sat nonempty) (assemble d) = true.
Proof. unfold opt. lk d. destruct (nonempty (d_server_version d)) eqn:E; [exact E | reflexivity]. Qed.
Lemma o_reqid d : opt K_request_id (str_sat nonempty) (assemble d) = true.
Proof. unfold opt. lk d. destruct (nonempty (request_id_of d)) eqn:E; [exact E | reflexivity]. Qed.
Lemma o_http d : opt K_http_status is_count (assemble d) = true.
Proof.
  unfold opt. lk d. destruct (0 <? d_http_status d)%Z eqn:E; [|reflexivity]. unfold is_count. lia.
Qed.
Lemma o_cancelled d :
  opt K_cancelled (fun v => match v with JBool true => true | _ => false end) (assemble d) = true.
Proof. unfold opt. lk d. destruct (d_cancelled d); reflexivity. Qed.

Lemma o_egress d : egress_wf (d_egress d) = true ->
  opt K_request_bytes is_count (assemble d) = true /\ opt K_response_bytes is_count (assemble d) = true
  /\ opt K_externalized_bytes is_count (assemble d) = true
  /\ Bool.eqb (has K_request_bytes (assemble d)) (has K_response_bytes (assemble d)) = true.
Proof.
  intro Heg. unfold opt, has. lk d. unfold on_egress. destruct (d_egress d) as [g|]; cbn [fst snd]; [|auto].
  unfold egress_wf in Heg. pose proof (nonneg_fold _ Heg 0%Z ltac:(lia)) as Hs.
  unfold is_count, request_bytes, response_bytes. repeat split; try reflexivity.
  - destruct (0 <? g_content_length g)%Z eqn:E; lia.
  - lia.
  - destruct (0 <? g_externalized g)%Z eqn:E; [lia | reflexivity].
Qed.

Lemma o_stats d : stats_wf (d_stats d) = true ->
  forallb (fun k => opt k is_count (assemble d)) stat_keys = true
  /\ (forallb (fun k => has k (assemble d)) stat_keys || forallb (fun k => negb (has k (assemble d))) stat_keys) = true.
Proof.
  intro Hst. unfold stat_keys. cbn [forallb]. unfold opt, has. lk d.
  destruct (stats_on d); [|split; reflexivity]. split; [|reflexivity].
  unfold stat, is_count. unfold stats_wf, nonneg in Hst. destruct (d_stats d) as [s|]; [lia | reflexivity].
Qed.

Lemma optional_ok_assemble d : dinfo_wf d = true -> optional_ok (assemble d) = true.
Proof.
  unfold dinfo_wf. intro H. apply andb_true_iff in H as [H Heg]. apply andb_true_iff in H as [_ Hst].
  destruct (o_egress d Heg) as [E1 [E2 [E3 E4]]]. destruct (o_stats d Hst) as [S1 S2].
  unfold optional_ok. now rewrite o_errmsg, o_version, o_reqid, o_http, o_cancelled, E1, E2, E3, E4, S1, S2.
Qed.

Theorem record_ok_assemble d : dinfo_wf d = true -> record_ok (assemble d) = true.
Proof.
  intro H. unfold record_ok.
  now rewrite assemble_nodup, required_ok_assemble, optional_ok_assemble, stream_id_ok_assemble,
    trace_ok_assemble, payload_ok_assemble, claims_shape_assemble.
Qed.

(* ---- readable statements about one record ----------------------------------- *)
Lemma trace_both_or_neither_lemma d :
  match lookup K_trace_id (assemble d), lookup K_span_id (assemble d) with
  | Some t, Some s => exists t' s', t = JStr t' /\ s = JStr s' /\ d_trace d = PRet t' s'
                                    /\ lower_hex 32 t' = true /\ lower_hex 16 s' = true
  | None, None => True
  | _, _ => False
  end.
Proof.
  pose proof (trace_fields d) as H. destruct (tr_of d) as [[t s]|] eqn:E.
  - destruct H as [-> ->]. apply trace_ctx_some in E as [E [H1 H2]]. exists t, s. auto.
  - destruct H as [-> ->]. exact I.
Qed.

Lemma trace_valid_emitted d t s :
  d_trace d = PRet t s -> lower_hex 32 t = true -> lower_hex 16 s = true ->
  lookup K_trace_id (assemble d) = Some (JStr t) /\ lookup K_span_id (assemble d) = Some (JStr s).
Proof.
  intros E H1 H2. pose proof (trace_fields d) as H. unfold tr_of in H. rewrite E in H. cbn [trace_ctx] in H.
  rewrite H1, H2 in H. exact H.
Qed.

Lemma trace_malformed_dropped d :
  match d_trace d with
  | PRet t s => lower_hex 32 t && lower_hex 16 s = false
  | _ => True
  end ->
  lookup K_trace_id (assemble d) = None /\ lookup K_span_id (assemble d) = None.
Proof.
  intro Hm. pose proof (trace_fields d) as H. unfold tr_of in H.
  destruct (d_trace d) as [|t s|]; cbn [trace_ctx] in H; try exact H. rewrite Hm in H. exact H.
Qed.

Lemma payload_xor_marker_lemma d :
  (has_payload d = true ->
     if d_debug d
     then lookup K_request_data (assemble d) = Some (payload_data (d_payload d))
          /\ lookup K_truncated (assemble d) = None /\ lookup K_original_request_bytes (assemble d) = None
     else lookup K_request_data (assemble d) = None
          /\ lookup K_truncated (assemble d) = Some (JStr al_payload_omitted)
          /\ lookup K_original_request_bytes (assemble d) = Some (JInt (payload_len (d_payload d))))
  /\ (has_payload d = false ->
      lookup K_request_data (assemble d) = None /\ lookup K_truncated (assemble d) = None
      /\ lookup K_original_request_bytes (assemble d) = None).
Proof.
  lk d. split; intro P; rewrite P; destruct (d_debug d); cbn [andb negb]; auto.
Qed.

Lemma claims_fail_closed_lemma d : d_redactor d = RPanic -> lookup K_claims (assemble d) = None.
Proof.
  intro H. rewrite claims_lookup, H. destruct (d_auth d) as [a|]; [|reflexivity].
  unfold claims_field. destruct (a_claims a); reflexivity.
Qed.

Lemma claims_logged_lemma d a out :
  d_auth d = Some a -> lookup K_claims (assemble d) = Some out ->
  exists f, redact_pred (d_redactor d) = Some f /\ out = JObj (redact_with f (a_claims a)).
Proof.
  intros Ha. rewrite claims_lookup, Ha. unfold claims_field.
  destruct (a_claims a) as [|kv c] eqn:Ec; [discriminate|].
  destruct (d_redactor d) as [| |ks| |]; cbn [apply_redaction redact_pred]; try discriminate.
  - destruct (redact_with sensitive (kv :: c)) eqn:E; [discriminate|]. intro H; inversion H.
    exists sensitive. rewrite E. auto.
  - intro H; inversion H. exists (fun _ => false). split; [reflexivity|]. f_equal.
    unfold redact_with. cbn [map fst]. f_equal. symmetry. apply map_id.
  - destruct (redact_with (in_keys ks) (kv :: c)) eqn:E; [discriminate|]. intro H; inversion H.
    exists (in_keys ks). rewrite E. auto.
Qed.

(* ---- histories: how the stream id travels ----------------------------------- *)
Local Arguments assemble : simpl never.
(* request c is an /init that opened a stream and minted [sid] — with or without
   a hook installed on the process that served it *)
Definition opened_by (all : list op) (c : nat) (sid : bytes) : Prop :=
  exists node q h, nth_error all c = Some (OInit node q sid true h).

Definition inv (all : list op) (st : state) : Prop :=
  (forall s, In s (st_streams st) -> opened_by all (t_call s) (t_sid s))
  /\ (forall n c sid, In ((n, c), sid) (st_cache st) -> opened_by all c sid).

Lemma find_stream_some c l s : find_stream c l = Some s -> In s l /\ t_call s = c.
Proof.
  induction l as [|x t IH]; cbn; [discriminate|]. destruct (Nat.eqb (t_call x) c) eqn:E.
  - intro H; inversion H; subst. apply Nat.eqb_eq in E. auto.
  - intro H. destruct (IH H). auto.
Qed.

Lemma cache_get_some node c l v : cache_get node c l = Some v -> In ((node, c), v) l.
Proof.
  induction l as [|[[n k] x] t IH]; cbn; [discriminate|]. destruct (Nat.eqb n node && Nat.eqb k c) eqn:E.
  - intro H; inversion H; subst. apply andb_true_iff in E as [E1 E2].
    apply Nat.eqb_eq in E1. apply Nat.eqb_eq in E2. subst. now left.
  - intro H. right. now apply IH.
Qed.

Lemma resolve_spec all node st s t sid st' :
  inv all st -> In s (st_streams st) -> resolve node st s t = Some (sid, st') ->
  opened_by all (t_call s) sid /\ inv all st' /\ st_next st' = st_next st.
Proof.
  intros [I1 I2] Hs. unfold resolve.
  assert (Hopen : opened_by all (t_call s) (t_sid s)) by auto.
  destruct (caching node) eqn:En.
  - destruct (cache_get node (t_call s) (st_cache st)) as [v|] eqn:Ec.
    + apply cache_get_some in Ec. apply I2 in Ec.
      destruct t; intro H; inversion H; subst; (split; [exact Ec | split; [split; assumption | reflexivity]]).
    + destruct t; intro H; inversion H; subst. split; [exact Hopen | split; [|reflexivity]].
      split; cbn; [exact I1|]. intros n c sid' [Hc|Hc]; [inversion Hc; subst; exact Hopen | eauto].
  - destruct t; intro H; inversion H; subst; (split; [exact Hopen | split; [split; assumption | reflexivity]]).
Qed.

Lemma step_next st o : st_next (snd (step st o)) = S (st_next st).
Proof.
  destruct o as [d|q|q sid|node q sid opened h|node c t cancel q fresh h|q|]; cbn; try reflexivity.
  destruct (find_stream c (st_streams st)) as [s|]; [|reflexivity].
  destruct (resolve node st s t) as [[sid st']|]; reflexivity.
Qed.

Lemma step_inv all pre o post st :
  all = pre ++ o :: post -> st_next st = length pre -> inv all st -> inv all (snd (step st o)).
Proof.
  intros Hall Hn Hinv. pose proof Hinv as [I1 I2].
  destruct o as [d|q|q sid|node q sid opened h|node c t cancel q fresh h|q|]; cbn; try (split; assumption).
  - destruct opened; [|split; assumption].
    assert (Ho : opened_by all (st_next st) sid).
    { exists node, q, h. rewrite Hall, Hn, nth_error_app2, Nat.sub_diag by lia. reflexivity. }
    split; cbn.
    + intros s [Hs|Hs]; [subst; exact Ho | auto].
    + destruct (caching node); [|exact I2]. intros n c' sid' [Hc|Hc]; [inversion Hc; subst; exact Ho | eauto].
  - destruct (find_stream c (st_streams st)) as [s|] eqn:Ef; [|split; assumption].
    destruct (resolve node st s t) as [[sid st']|] eqn:Er; [|split; assumption].
    apply find_stream_some in Ef as [Hs _].
    destruct (resolve_spec all _ _ _ _ _ _ Hinv Hs Er) as [_ [[J1 J2] _]]. split; assumption.
Qed.

Lemma step_cont_records all st node c t cancel q fresh h r :
  inv all st -> In r (fst (step st (OCont node c t cancel q fresh h))) ->
  exists sid, opened_by all c sid /\ r = assemble (dinfo_of q true false sid fresh cancel false).
Proof.
  intros Hinv. cbn. destruct (find_stream c (st_streams st)) as [s|] eqn:Ef; [|intros []].
  destruct (resolve node st s t) as [[sid st']|] eqn:Er; [|intros []].
  apply find_stream_some in Ef as [Hs Hc].
  destruct (resolve_spec all _ _ _ _ _ _ Hinv Hs Er) as [Ho _]. rewrite Hc in Ho.
  cbn [fst]. destruct h; [|intros []]. intros [Hr|[]]. exists sid. auto.
Qed.

Lemma run_from_cons st o t : run_from st (o :: t) = fst (step st o) :: run_from (snd (step st o)) t.
Proof. cbn. destruct (step st o). reflexivity. Qed.

Lemma run_from_length : forall ops st, length (run_from st ops) = length ops.
Proof. induction ops as [|o t IH]; intro st; [reflexivity|]. rewrite run_from_cons. cbn. now rewrite IH. Qed.

Lemma run_from_cont all : forall post pre st,
  all = pre ++ post -> st_next st = length pre -> inv all st ->
  forall j node c t cancel q fresh h r,
    nth_error post j = Some (OCont node c t cancel q fresh h) ->
    In r (nth j (run_from st post) []) ->
    exists sid, opened_by all c sid /\ r = assemble (dinfo_of q true false sid fresh cancel false).
Proof.
  induction post as [|o post IH]; intros pre st Hall Hn Hinv j node c t cancel q fresh h r Hj Hr.
  - destruct j; discriminate.
  - rewrite run_from_cons in Hr. destruct j as [|j]; cbn [nth_error] in Hj; cbn [nth] in Hr.
    + inversion Hj; subst o. eapply step_cont_records; eassumption.
    + eapply (IH (pre ++ [o]) (snd (step st o))); try eassumption.
      * now rewrite <- app_assoc.
      * rewrite step_next, app_length. cbn. lia.
      * eapply step_inv; eassumption.
Qed.

Lemma inv_init all : inv all init_state.
Proof. split; cbn; intros; contradiction. Qed.

(* the records of request number j, whatever happened before it *)
Lemma run_from_nth : forall ops st j o,
  nth_error ops j = Some o -> exists st', nth j (run_from st ops) [] = fst (step st' o).
Proof.
  induction ops as [|o' t IH]; intros st j o Hj; [destruct j; discriminate|].
  rewrite run_from_cons. destruct j as [|j]; cbn in *.
  - inversion Hj; subst. now exists st.
  - now apply IH.
Qed.

Lemma sid_of_stream d : d_stream d = true -> sid_of (assemble d) = Some (stream_id_of d).
Proof. intro H. unfold sid_of. now rewrite stream_id_lookup, H. Qed.

Lemma sid_of_dinfo q wp sid fresh cancel wb :
  sid <> [] -> sid_of (assemble (dinfo_of q true wp sid fresh cancel wb)) = Some sid.
Proof.
  intro Hne. rewrite sid_of_stream by reflexivity. unfold stream_id_of. cbn [dinfo_of d_stream_id d_fresh_sid].
  destruct sid; [contradiction | reflexivity].
Qed.

Lemma stream_id_stable_lemma ops j node c t cancel q fresh h r :
  nth_error ops j = Some (OCont node c t cancel q fresh h) ->
  In r (nth j (run_from init_state ops) []) ->
  exists node0 q0 sid h0,
    nth_error ops c = Some (OInit node0 q0 sid true h0)
    /\ (sid <> [] -> sid_of r = Some sid)
    /\ (h0 = true ->
        nth c (run_from init_state ops) [] = [assemble (dinfo_of q0 true true sid sid false true)]
        /\ (sid <> [] -> sid_of (assemble (dinfo_of q0 true true sid sid false true)) = Some sid)).
Proof.
  intros Hj Hr.
  destruct (run_from_cont ops ops [] init_state eq_refl eq_refl (inv_init ops) _ _ _ _ _ _ _ _ _ Hj Hr)
    as [sid [[node0 [q0 [h0 Hc]]] ->]].
  exists node0, q0, sid, h0. split; [exact Hc|]. split.
  - intro Hne. now apply sid_of_dinfo.
  - intros ->. split.
    + destruct (run_from_nth ops init_state c _ Hc) as [st' ->]. reflexivity.
    + intro Hne. now apply sid_of_dinfo.
Qed.

Lemma forallb_nth {A} (f : A -> bool) l j x : forallb f l = true -> nth_error l j = Some x -> f x = true.
Proof. intros H Hj. eapply forallb_forall; [exact H | eapply nth_error_In; exact Hj]. Qed.

Lemma hex32_nonempty s : lower_hex 32 s = true -> s <> [].
Proof. intros H E. subst. discriminate. Qed.

(* every record of every request belonging to stream c — the init if it was
   logged, and every logged continuation, on whatever node and whatever hooks
   were installed where — carries the id minted by request c *)
Lemma stream_record_sid ops : input_wf ops = true -> forall c j o r,
  nth_error ops j = Some o -> in_stream c j o = true -> In r (nth j (run_from init_state ops) []) ->
  exists node q sid op h, nth_error ops c = Some (OInit node q sid op h)
                          /\ lower_hex 32 sid = true /\ sid_of r = Some sid.
Proof.
  intros Hwf c j o r Hj Hin Hr.
  destruct o as [d|q|q sid|node q sid opened h|node c' t cancel q fresh h|q|]; cbn [in_stream] in Hin; try discriminate.
  - apply Nat.eqb_eq in Hin. subst j.
    pose proof (forallb_nth _ _ _ _ Hwf Hj) as Ho. cbn [op_wf] in Ho. apply andb_true_iff in Ho as [_ Hhex].
    destruct (run_from_nth ops init_state c _ Hj) as [st' Est]. rewrite Est in Hr. cbn [step fst] in Hr.
    destruct h; [|destruct Hr]. destruct Hr as [<-|[]].
    exists node, q, sid, opened, true. split; [exact Hj|]. split; [exact Hhex|].
    apply sid_of_dinfo. now apply hex32_nonempty.
  - apply Nat.eqb_eq in Hin. subst c'.
    destruct (run_from_cont ops ops [] init_state eq_refl eq_refl (inv_init ops) _ _ _ _ _ _ _ _ _ Hj Hr)
      as [sid [[node0 [q0 [h0 Hc]]] ->]].
    pose proof (forallb_nth _ _ _ _ Hwf Hc) as Ho. cbn [op_wf] in Ho. apply andb_true_iff in Ho as [_ Hhex].
    exists node0, q0, sid, true, h0. split; [exact Hc|]. split; [exact Hhex|].
    apply sid_of_dinfo. now apply hex32_nonempty.
Qed.

Lemma one_stream_one_id_lemma ops : input_wf ops = true -> forall c j1 j2 o1 o2 r1 r2,
  nth_error ops j1 = Some o1 -> nth_error ops j2 = Some o2 ->
  in_stream c j1 o1 = true -> in_stream c j2 o2 = true ->
  In r1 (nth j1 (run_from init_state ops) []) -> In r2 (nth j2 (run_from init_state ops) []) ->
  exists sid, lower_hex 32 sid = true /\ sid_of r1 = Some sid /\ sid_of r2 = Some sid.
Proof.
  intros Hwf c j1 j2 o1 o2 r1 r2 H1 H2 I1 I2 R1 R2.
  destruct (stream_record_sid ops Hwf c j1 o1 r1 H1 I1 R1) as [n1 [q1 [s1 [p1 [h1 [C1 [X1 Y1]]]]]]].
  destruct (stream_record_sid ops Hwf c j2 o2 r2 H2 I2 R2) as [n2 [q2 [s2 [p2 [h2 [C2 [X2 Y2]]]]]]].
  rewrite C1 in C2. inversion C2; subst. exists s2. auto.
Qed.

(* ---- the property holds on every well-formed history of the model ------------- *)
Lemma claims_part_assemble d : claims_part (d_redactor d) (d_auth d) (assemble d) = true.
Proof.
  unfold claims_part. destruct (d_auth d) as [a|] eqn:E.
  - now apply claims_ok_assemble.
  - now rewrite claims_none_no_auth.
Qed.

Lemma q_wf_parts needs q : q_wf needs q = true ->
  (needs = true -> has_payload_p (q_payload q) = true) /\ stats_wf (q_stats q) = true /\ egress_wf (q_egress q) = true
  /\ match q_egress q with
     | Some g => g_content_length g = q_wire_request q /\ (0 <= q_wire_request q)%Z
     | None => True
     end.
Proof.
  unfold q_wf. intro H. apply andb_true_iff in H as [H H4]. apply andb_true_iff in H as [H H3].
  apply andb_true_iff in H as [H1 H2]. repeat split; auto.
  - intro Hn. now rewrite Hn in H1.
  - destruct (q_egress q); [|exact I]. lia.
Qed.

Lemma describes_q_assemble q needs x d :
  d_auth d = q_auth q -> d_redactor d = q_redactor q -> d_egress d = q_egress q -> has_payload d = needs ->
  (needs = true -> d_payload d = q_payload q) ->
  q_wf needs q = true ->
  ob_wire_response x = match q_egress q with Some g => response_bytes g | None => 0%Z end ->
  describes_q q needs x (assemble d) = true.
Proof.
  intros Ha Hr He Hp Hpl Hwf Hx. unfold describes_q. rewrite <- Ha, <- Hr, claims_part_assemble.
  rewrite payload_or_marker_assemble, Hp.
  replace (if needs then needs && payload_described (q_payload q) (assemble d) else negb needs) with true
    by (destruct needs; [rewrite <- (Hpl eq_refl), payload_described_assemble|]; reflexivity).
  destruct (q_wf_parts _ _ Hwf) as [_ [_ [_ Hg]]]. cbn [andb].
  destruct (q_egress q) as [g|] eqn:Eg.
  - unfold req. destruct (egress_counts d g He) as [-> ->]. destruct Hg as [Hcl Hw]. rewrite Hx. cbn [jv_eqb].
    unfold request_bytes. rewrite Hcl. destruct (0 <? q_wire_request q)%Z eqn:E; lia.
  - unfold has. destruct (egress_none d He) as [-> ->]. reflexivity.
Qed.

Lemma dinfo_of_wf q stream wp sid fresh cancel wb :
  stats_wf (q_stats q) = true -> egress_wf (q_egress q) = true ->
  (stream = true -> lower_hex 32 (match sid with [] => fresh | _ => sid end) = true) ->
  dinfo_wf (dinfo_of q stream wp sid fresh cancel wb) = true.
Proof.
  intros H1 H2 H3. unfold dinfo_wf, stream_id_of. cbn [dinfo_of d_stream d_stream_id d_fresh_sid d_stats d_egress].
  rewrite H1, H2. destruct stream; [|reflexivity]. specialize (H3 eq_refl). destruct sid; now rewrite H3.
Qed.

Lemma model_nth ops j o :
  nth_error ops j = Some o ->
  nth_error (model ops) j =
    Some {| ob_records := nth j (run_from init_state ops) []; ob_wire_response := wire_of o |}.
Proof.
  unfold model. generalize (run_from_length ops init_state). generalize (run_from init_state ops).
  revert j. induction ops as [|o' t IH]; intros j l Hl Hj; [destruct j; discriminate|].
  destruct l as [|rs l]; [discriminate|]. destruct j as [|j]; cbn in *.
  - now inversion Hj.
  - apply IH; [lia | exact Hj].
Qed.

(* if every record of stream c in a history carries [sid], and there is one,
   the first one found carries it *)
Lemma first_sid_all c sid : forall ops os j,
  (forall k o x r, nth_error ops k = Some o -> nth_error os k = Some x ->
                   in_stream c (j + k) o = true -> In r (ob_records x) -> sid_of r = Some sid) ->
  (exists k o x r, nth_error ops k = Some o /\ nth_error os k = Some x
                   /\ in_stream c (j + k) o = true /\ In r (ob_records x)) ->
  first_sid c j ops os = Some sid.
Proof.
  induction ops as [|o ops IH]; intros os j Hall H;
    [destruct H as [k [o' [x [r [Hk _]]]]]; destruct k; discriminate|].
  destruct os as [|x0 os].
  - exfalso. destruct H as [k' [o'' [x' [r' [_ [Hx _]]]]]]. destruct k'; discriminate.
  - cbn [first_sid]. destruct (in_stream c j o) eqn:Ein.
    + destruct (ob_records x0) as [|r0 rs] eqn:Er.
      * apply IH.
        -- intros k1 o1 x1 r1 H1 H2 H3 H4. apply (Hall (S k1) o1 x1 r1 H1 H2); [|exact H4].
           now rewrite Nat.add_succ_r.
        -- destruct H as [k' [o'' [x' [r' [A [B [C D]]]]]]]. destruct k' as [|k'].
           ++ cbn in B. inversion B; subst. rewrite Er in D. destruct D.
           ++ exists k', o'', x', r'. repeat split; auto. now rewrite Nat.add_succ_l, <- Nat.add_succ_r.
      * apply (Hall 0%nat o x0 r0 eq_refl eq_refl); [now rewrite Nat.add_0_r | rewrite Er; now left].
    + apply IH.
      * intros k1 o1 x1 r1 H1 H2 H3 H4. apply (Hall (S k1) o1 x1 r1 H1 H2); [|exact H4].
        now rewrite Nat.add_succ_r.
      * destruct H as [k' [o'' [x' [r' [A [B [C D]]]]]]]. destruct k' as [|k'].
        -- cbn in A. inversion A; subst. rewrite Nat.add_0_r in C. congruence.
        -- exists k', o'', x', r'. repeat split; auto. now rewrite Nat.add_succ_l, <- Nat.add_succ_r.
Qed.

Lemma same_sid_model ops : input_wf ops = true -> forall c j o r,
  nth_error ops j = Some o -> in_stream c j o = true -> In r (nth j (run_from init_state ops) []) ->
  same_sid c ops (model ops) r = true.
Proof.
  intros Hwf c j o r Hj Hin Hr.
  destruct (stream_record_sid ops Hwf c j o r Hj Hin Hr) as [n [q [sid [p [h [Hc [Hhex Hsid]]]]]]].
  unfold same_sid. rewrite (first_sid_all c sid ops (model ops) 0).
  - rewrite Hsid. apply beqb_refl.
  - intros k o1 x1 r1 H1 H2 H3 H4. rewrite (model_nth ops k o1 H1) in H2. inversion H2; subst x1. cbn in H3, H4.
    destruct (one_stream_one_id_lemma ops Hwf c j k o o1 r r1 Hj H1 Hin H3 Hr H4) as [s [_ [A B]]].
    congruence.
  - exists j, o, {| ob_records := nth j (run_from init_state ops) []; ob_wire_response := wire_of o |}, r.
    split; [exact Hj|]. split; [now apply model_nth|]. split; [exact Hin | exact Hr].
Qed.

Lemma spec_from_intro ops0 all : forall ops recs j0,
  length recs = length ops ->
  (forall j o r, nth_error ops j = Some o -> In r (nth j recs []) ->
     record_ok r && describes ops0 all (j0 + j) o {| ob_records := nth j recs []; ob_wire_response := wire_of o |} r = true) ->
  spec_from ops0 all j0 ops
    (map (fun p => {| ob_records := fst p; ob_wire_response := wire_of (snd p) |}) (combine recs ops)) = true.
Proof.
  induction ops as [|o t IH]; intros [|rs recs] j0 Hl H; try discriminate; [reflexivity|].
  cbn [combine map spec_from fst snd ob_records]. apply andb_true_iff. split.
  - apply forallb_forall. intros r Hr. specialize (H 0%nat o r eq_refl Hr). now rewrite Nat.add_0_r in H.
  - apply IH; [cbn in Hl; lia|]. intros j o' r Hj Hr. specialize (H (S j) o' r Hj Hr).
    now rewrite Nat.add_succ_r in H.
Qed.

Theorem model_meets_spec ops : input_wf ops = true -> spec_ok ops (model ops) = true.
Proof.
  intro Hwf. unfold spec_ok. unfold model at 2. apply spec_from_intro; [apply run_from_length|].
  intros j o r Hj Hr. cbn [Nat.add]. pose proof (forallb_nth _ _ _ _ Hwf Hj) as Ho.
  destruct (run_from_nth ops init_state j o Hj) as [st' Est].
  destruct o as [d|q|q sid|node q sid opened h|node c t cancel q fresh h|q|]; cbn [op_wf] in Ho.
  - (* direct *)
    rewrite Est in Hr. destruct Hr as [<-|[]]. rewrite record_ok_assemble by exact Ho. cbn [describes andb].
    rewrite claims_part_assemble, payload_or_marker_assemble, payload_described_assemble. now destruct (has_payload d).
  - (* unary *)
    rewrite Est in Hr. destruct Hr as [<-|[]]. destruct (q_wf_parts _ _ Ho) as [Hp [Hs [He _]]].
    rewrite record_ok_assemble by (apply dinfo_of_wf; auto; discriminate).
    cbn [describes andb]. apply describes_q_assemble; auto; try (cbn; now apply Hp).
  - (* pipe stream *)
    apply andb_true_iff in Ho as [Ho Hsid].
    rewrite Est in Hr. destruct Hr as [<-|[]]. destruct (q_wf_parts _ _ Ho) as [Hp [Hs [He _]]].
    rewrite record_ok_assemble
      by (apply dinfo_of_wf; auto; intros _; destruct sid; [discriminate | exact Hsid]).
    cbn [describes andb]. apply describes_q_assemble; auto; try (cbn; now apply Hp).
  - (* init *)
    pose proof (same_sid_model ops Hwf j j _ r Hj (Nat.eqb_refl j) Hr) as Hsame.
    apply andb_true_iff in Ho as [Ho Hsid].
    rewrite Est in Hr. cbn [step fst] in Hr. destruct h; [|destruct Hr]. destruct Hr as [<-|[]].
    destruct (q_wf_parts _ _ Ho) as [Hp [Hs [He _]]].
    rewrite record_ok_assemble
      by (apply dinfo_of_wf; auto; intros _; destruct sid; [discriminate | exact Hsid]).
    cbn [describes andb]. rewrite Hsame, andb_true_r.
    apply describes_q_assemble; auto; try (cbn; now apply Hp).
  - (* continuation *)
    pose proof (same_sid_model ops Hwf c j _ r Hj (Nat.eqb_refl c) Hr) as Hsame.
    destruct (run_from_cont ops ops [] init_state eq_refl eq_refl (inv_init ops) _ _ _ _ _ _ _ _ _ Hj Hr)
      as [sid [[node0 [q0 [h0 Hc]]] Er]].
    pose proof (forallb_nth _ _ _ _ Hwf Hc) as Hc_wf. cbn [op_wf] in Hc_wf.
    apply andb_true_iff in Hc_wf as [_ Hhex]. pose proof (hex32_nonempty _ Hhex) as Hne.
    destruct (q_wf_parts _ _ Ho) as [_ [Hs [He _]]]. subst r.
    rewrite record_ok_assemble
      by (apply dinfo_of_wf; auto; intros _; destruct sid; [contradiction | exact Hhex]).
    cbn [describes andb]. rewrite Hsame, andb_true_r. apply describes_q_assemble; auto; discriminate.
  - (* rejected *)
    rewrite Est in Hr. destruct Hr.
  - (* noop *)
    rewrite Est in Hr. destruct Hr.
Qed.

Lemma redacted_by_key_lemma : forall (f : bytes -> bool) claims,
  keys (redact_with f claims) = keys claims
  /\ (forall k v, In (k, v) (redact_with f claims) -> f k = true -> v = JStr al_redacted)
  /\ (forall k v, In (k, v) claims -> f k = false -> In (k, v) (redact_with f claims)).
Proof.
  intros f c. split; [apply redact_with_keys | split]; [apply redact_with_hit | apply redact_with_miss].
Qed.

(* ---- witnesses ---------------------------------------------------------------- *)
Definition example_auth : auth :=
  {| a_principal := str "alice"; a_domain := str "jwt"; a_authenticated := true;
     a_claims := [(str "email", JStr (str "a@b.c")); (str "sub", JStr (str "u1"))] |}.

Definition example_q (cl wire : Z) (p : provider) (rd : redactor) : req_env :=
  {| q_method := str "exch"; q_protocol := str "Svc"; q_server_id := str "node0"; q_hash := str "h";
     q_batch_request_id := []; q_remote := str "127.0.0.1:9"; q_payload := PBytes [1; 2; 3; 4];
     q_auth := Some example_auth; q_err := ENone; q_stats := None;
     q_egress := Some {| g_request_id := str "rid"; g_content_length := cl; g_externalized := 0%Z;
                         g_writes := [100; 28]%Z |};
     q_debug := false; q_server_version := []; q_trace := p; q_redactor := rd; q_wire_request := wire |}.

Definition example_history : list op :=
  [ OInit 0 (example_q 408 408 PNone RDefault) (str "0123456789abcdef0123456789abcdef") true true;
    OCont 1 0 TNone false (example_q 900 900 PPanic RPanic) [] true ].

(* the late-hook shape: /init on a process that logs nothing (node 2), then a
   hook appears and two continuations are logged on two different nodes *)
Definition example_late_hook : list op :=
  [ OInit 2 (example_q 408 408 PNone RDefault) (str "0123456789abcdef0123456789abcdef") true false;
    ONoop;
    OCont 2 0 TNone false (example_q 900 900 PNone RDefault) [] true;
    OCont 1 0 TNone false (example_q 900 900 PNone RDefault) [] true ].

Definition example_dinfo : dinfo :=
  dinfo_of (example_q 408 408 (PRet (str "0123456789abcdef0123456789abcdef") (str "0123456789abcdef")) RDefault)
           false true [] [] false true.

Lemma example_ok :
  input_wf example_history = true
  /\ map (fun x => map sid_of (ob_records x)) (model example_history)
     = [[Some (str "0123456789abcdef0123456789abcdef")]; [Some (str "0123456789abcdef0123456789abcdef")]]
  /\ dinfo_wf example_dinfo = true /\ trace_ctx (d_trace example_dinfo) <> None
  /\ input_wf example_late_hook = true
  /\ map (fun x => map sid_of (ob_records x)) (model example_late_hook)
     = [[]; []; [Some (str "0123456789abcdef0123456789abcdef")]; [Some (str "0123456789abcdef0123456789abcdef")]].
Proof. repeat split; try (vm_compute; reflexivity). vm_compute. discriminate. Qed.

Lemma undeclared_length_witness :
  exists q g, q_egress q = Some g /\ g_content_length g = (-1)%Z /\ (0 < q_wire_request q)%Z
    /\ has_payload_p (q_payload q) = true /\ spec_ok [OUnary q] (model [OUnary q]) = false.
Proof.
  exists (example_q (-1) 408 PNone RDefault). eexists. split; [reflexivity|].
  repeat split; vm_compute; reflexivity.
Qed.
