(* Proofs/C18.v — lemmas and proofs for the body-cap model. *)
From VR Require Import Model.C18.
From Coq Require Import ZifyBool Lia.
Local Open Scope Z_scope.
Local Arguments Z.mul : simpl never.
Local Arguments Z.add : simpl never.
Local Arguments Z.ltb : simpl never.
Local Arguments Z.leb : simpl never.
Local Arguments Z.eqb : simpl never.
Local Arguments Z.min : simpl never.

(* ---- int64, lengths, LimitReader ------------------------------------------------- *)
Lemma lim_plus_one_id l : l < max64 -> lim_plus_one l = l + 1.
Proof. intro H. unfold lim_plus_one. destruct (Z.eqb_spec l max64); [lia | reflexivity]. Qed.

Lemma lim_plus_one_bounds l : l <= lim_plus_one l <= l + 1.
Proof. unfold lim_plus_one. destruct (Z.eqb_spec l max64); lia. Qed.

(* either one byte past the cap, or the cap is MaxInt64 itself *)
Lemma lim_plus_one_cases l : lim_plus_one l = l + 1 \/ (l = max64 /\ lim_plus_one l = max64).
Proof. unfold lim_plus_one. destruct (Z.eqb_spec l max64); [right; now split | now left]. Qed.

Lemma zlen_nonneg b : 0 <= zlen b.
Proof. unfold zlen. lia. Qed.

Lemma zlen_app a b : zlen (a ++ b) = zlen a + zlen b.
Proof. unfold zlen. rewrite app_length. lia. Qed.

Lemma zlen_firstn n (l : bytes) : 0 <= n -> zlen (firstn (Z.to_nat n) l) = Z.min n (zlen l).
Proof. intro H. unfold zlen. rewrite firstn_length. lia. Qed.

Lemma take_z_len n l : zlen (take_z n l) = if n <=? 0 then 0 else Z.min n (zlen l).
Proof.
  unfold take_z. destruct (n <=? 0) eqn:E1; [reflexivity|].
  destruct (zlen l <=? n) eqn:E2; [lia|]. rewrite zlen_firstn by lia. reflexivity.
Qed.

Lemma take_z_all n l : 0 < n -> zlen l <= n -> take_z n l = l.
Proof.
  intros H1 H2. unfold take_z. destruct (n <=? 0) eqn:E1; [lia|].
  destruct (zlen l <=? n) eqn:E2; [reflexivity | lia].
Qed.

Lemma take_z_prefix n l : exists r, l = take_z n l ++ r.
Proof.
  unfold take_z. destruct (n <=? 0); [now exists l|].
  destruct (zlen l <=? n); [exists []; now rewrite app_nil_r|].
  exists (skipn (Z.to_nat n) l). now rewrite firstn_skipn.
Qed.

(* ---- the frame walk ------------------------------------------------------------------ *)
Lemma run_segs_ok mw ss : forallb (fun s => s_win s <=? mw) ss = true ->
  run_segs mw ss = (concat (map s_out ss), false).
Proof.
  induction ss as [|s t IH]; cbn [forallb run_segs map concat]; [reflexivity|].
  intro H. apply andb_true_iff in H as [H1 H2]. rewrite (IH H2).
  destruct (mw <? s_win s) eqn:E; [lia | reflexivity].
Qed.

(* ---- decompressBounded ------------------------------------------------------------------ *)
Definition over (m n : Z) : bool := (0 <? m) && (m <? n).

Lemma db_in_scope orc c data m : zlen (total (orc c data)) < max64 ->
  in_scope (orc c data) (maxwin m) = true ->
  fst (decompress_bounded orc c data m) =
  if over m (zlen (total (orc c data))) then DErr (EDecTooLarge m) else DOk (total (orc c data)).
Proof.
  intros Hsh Hs. unfold in_scope in Hs. unfold decompress_bounded, over.
  set (st := orc c data) in *.
  apply andb_true_iff in Hs as [Hs Hf]. apply andb_true_iff in Hs as [Hc Hw].
  destruct (is_zstd c && (0 <? m) && match st_fcs st with Some f => m <? f | None => false end) eqn:Epre.
  - cbn [fst]. apply andb_true_iff in Epre as [Ea Eb]. apply andb_true_iff in Ea as [_ Ea].
    destruct (st_fcs st) as [f|]; [|discriminate].
    assert (m < zlen (total st)) by lia.
    replace (0 <? m) with true by lia. replace (m <? zlen (total st)) with true by lia. reflexivity.
  - rewrite (run_segs_ok _ _ Hw). fold (total st). rewrite Hc. cbn [negb orb andb].
    destruct (0 <? m) eqn:E0; cbn [andb].
    + pose proof (lim_plus_one_bounds m) as Hb. rewrite take_z_len.
      replace (lim_plus_one m <=? 0) with false by lia.
      destruct (m <? zlen (total st)) eqn:E1.
      * rewrite lim_plus_one_id by lia.
        replace (m <? Z.min (m + 1) (zlen (total st))) with true by lia. reflexivity.
      * replace (m <? Z.min (lim_plus_one m) (zlen (total st))) with false by lia.
        cbn [fst]. rewrite take_z_all by lia. reflexivity.
    + reflexivity.
Qed.

Lemma db_results orc c data m :
  match fst (decompress_bounded orc c data m) with
  | DOk b => 0 < m -> zlen b <= m
  | DErr e => e = EDecTooLarge m \/ e = ECodec
  end.
Proof.
  unfold decompress_bounded. set (st := orc c data).
  destruct (is_zstd c && (0 <? m) && match st_fcs st with Some f => m <? f | None => false end);
    [cbn [fst]; now left|].
  destruct (run_segs (maxwin m) (st_segs st)) as [pre wfail].
  destruct (0 <? m) eqn:E0.
  - destruct ((wfail || negb (st_clean st)) &&
              (if st_sticky st then zlen pre <=? lim_plus_one m else zlen pre <? lim_plus_one m));
      [cbn [fst]; now right|].
    destruct (m <? zlen (take_z (lim_plus_one m) pre)) eqn:E1; cbn [fst]; [now left|]. intros _. lia.
  - destruct (wfail || negb (st_clean st)); cbn [fst]; [now right | lia].
Qed.

Lemma db_pulled orc c data m : 0 < m ->
  0 <= snd (decompress_bounded orc c data m) <= m + 1.
Proof.
  intros H0. unfold decompress_bounded. set (st := orc c data).
  destruct (is_zstd c && (0 <? m) && match st_fcs st with Some f => m <? f | None => false end);
    [cbn [snd]; lia|].
  destruct (run_segs (maxwin m) (st_segs st)) as [pre wfail].
  replace (0 <? m) with true by lia.
  pose proof (lim_plus_one_bounds m) as Hb.
  pose proof (take_z_len (lim_plus_one m) pre) as HL. replace (lim_plus_one m <=? 0) with false in HL by lia.
  pose proof (zlen_nonneg pre).
  destruct ((wfail || negb (st_clean st)) &&
            (if st_sticky st then zlen pre <=? lim_plus_one m else zlen pre <? lim_plus_one m));
    [cbn [snd]; lia|].
  destruct (m <? zlen (take_z (lim_plus_one m) pre)); cbn [snd]; lia.
Qed.

(* ---- the caps in force: the code's cascade = the spec's options --------------------------- *)
Lemma sat_mul16_pos w : 0 < w -> 0 < sat_mul16 w.
Proof.
  intro H. unfold sat_mul16. destruct (max64 / derive_factor <? w); [reflexivity|].
  apply Z.mul_pos_pos; [assumption | reflexivity].
Qed.

Lemma caps_agree c ex limit rca : raw_limit c ex = (limit, rca) ->
  s_raw_cap c ex = (if 0 <? limit then Some (limit, rca) else None) /\
  (rca = true -> 0 < limit /\ s_adv c ex = Some limit) /\
  s_dec_cap c ex = (if 0 <? decode_cap c limit rca
                    then Some (decode_cap c limit rca, rca && (decode_cap c limit rca =? limit)) else None).
Proof.
  intros Hr. destruct c as [a w d].
  pose proof (sat_mul16_pos w) as HW.
  unfold raw_limit in Hr. unfold s_dec_cap, s_raw_cap, s_adv, s_wire, decode_cap. cbn [mrb mbs mds] in *.
  destruct (Z.ltb_spec 0 a) as [Ha|Ha]; destruct ex; cbn [negb andb] in *;
  destruct (Z.ltb_spec 0 w) as [Hw|Hw]; destruct (Z.leb_spec w 0) as [Hw0|Hw0]; try lia; cbn [orb] in *.
  all: try (specialize (HW Hw)).
  all: try (destruct (Z.leb_spec a w) as [Haw|Haw]).
  all: inversion Hr; subst limit rca; clear Hr; cbn [andb orb].
  all: destruct (Z.leb_spec d 0) as [Hd|Hd]; destruct (Z.ltb_spec 0 d) as [Hd0|Hd0]; try lia; cbn [andb orb].
  all: try (destruct (Z.ltb_spec a d)); try (destruct (Z.ltb_spec d a)); try lia; cbn [andb orb].
  all: repeat match goal with
       | |- context [?x <? ?y] => destruct (Z.ltb_spec x y); try lia
       | |- context [?x =? ?y] => destruct (Z.eqb_spec x y); try lia
       end; cbn [andb orb].
  all: repeat split; intros; try discriminate; try reflexivity; try lia.
  all: subst; reflexivity.
Qed.

(* ---- readHTTPBody, by cases on the wire size --------------------------------------------- *)
Lemma st_req : c18_status_request_too_large = 413. Proof. reflexivity. Qed.
Lemma st_other : c18_status_other = 400. Proof. reflexivity. Qed.
Lemma st_unsup : c18_status_unsupported = 415. Proof. reflexivity. Qed.
Lemma st_pre : c18_status_precheck = 413. Proof. reflexivity. Qed.

Lemma read_body_over orc c rq limit rca :
  raw_limit c (r_exempt rq) = (limit, rca) -> 0 < limit -> zlen (r_raw rq) < max64 -> limit < zlen (r_raw rq) ->
  read_body orc c rq = (DErr (if rca then EReqTooLarge limit else ERawTooLarge limit), limit + 1).
Proof.
  intros Hr H0 Hm Hl. unfold read_body. rewrite Hr.
  replace (0 <? limit) with true by lia. rewrite lim_plus_one_id by lia.
  rewrite take_z_len. replace (limit + 1 <=? 0) with false by lia.
  replace (zlen (r_raw rq) <? limit + 1) with false by lia. rewrite andb_false_r.
  replace (Z.min (limit + 1) (zlen (r_raw rq))) with (limit + 1) by lia.
  replace (limit <? limit + 1) with true by lia. reflexivity.
Qed.

(* what happens once the wire body is within its cap *)
Definition decode_part (orc : oracle) (c : config) (rq : request) (limit : Z) (rca : bool) : dres :=
  let enc := norm_coding (r_ce rq) in
  if r_rderr rq then DErr ETransport
  else if is_identity enc then DOk (r_raw rq)
  else if memb enc c18_decodable_codings then
    let dcap := decode_cap c limit rca in
    match fst (decompress_bounded orc enc (r_raw rq) dcap) with
    | DErr (EDecTooLarge k) => if rca && (dcap =? limit) then DErr (EReqTooLarge limit) else DErr (EDecTooLarge k)
    | r => r
    end
  else DErr (EUnsupported enc).

Lemma read_body_within orc c rq limit rca :
  raw_limit c (r_exempt rq) = (limit, rca) -> zlen (r_raw rq) < max64 -> (limit <= 0 \/ zlen (r_raw rq) <= limit) ->
  read_body orc c rq = (decode_part orc c rq limit rca, zlen (r_raw rq)).
Proof.
  intros Hr Hm Hl. unfold read_body, decode_part. rewrite Hr.
  pose proof (zlen_nonneg (r_raw rq)) as Hz.
  assert (Hn : 0 < limit -> zlen (r_raw rq) < lim_plus_one limit).
  { intro H0. destruct (lim_plus_one_cases limit) as [E|[_ E]]; rewrite E; lia. }
  assert (Hb : (if 0 <? limit then take_z (lim_plus_one limit) (r_raw rq) else r_raw rq) = r_raw rq).
  { destruct (0 <? limit) eqn:E; [|reflexivity]. specialize (Hn ltac:(lia)). apply take_z_all; lia. }
  rewrite Hb.
  assert (He : (if 0 <? limit then zlen (r_raw rq) <? lim_plus_one limit else true) = true).
  { destruct (0 <? limit) eqn:E; [|reflexivity]. specialize (Hn ltac:(lia)). lia. }
  rewrite He, andb_true_r.
  destruct (r_rderr rq); [reflexivity|].
  replace ((0 <? limit) && (limit <? zlen (r_raw rq))) with false by lia.
  destruct (is_identity (norm_coding (r_ce rq))); [reflexivity|].
  destruct (memb (norm_coding (r_ce rq)) c18_decodable_codings); [|reflexivity].
  destruct (fst (decompress_bounded orc (norm_coding (r_ce rq)) (r_raw rq) (decode_cap c limit rca))) as [b|e];
    [reflexivity|].
  destruct e; try reflexivity.
  destruct (rca && (decode_cap c limit rca =? limit)); reflexivity.
Qed.

(* ---- running a request --------------------------------------------------------------------- *)
Definition run (http : bool) (orc : oracle) (c : config) (rq : request) : obs :=
  if http && precheck c rq then OHttpRefused c18_status_precheck (Some (mrb c)) true 0
  else match read_body orc c rq with
       | (DOk b, n) => OBody 200 b n
       | (DErr e, n) => if http then OHttpRefused (status_of e) (names_of e) false n
                        else ORefused (status_of e) e n
       end.

Lemma model_direct ops rq t : model (Direct ops rq t) = run false (tbl_oracle t) (configure ops) rq.
Proof. reflexivity. Qed.
Lemma model_http ops rq t : model (Http ops rq t) = run true (tbl_oracle t) (configure ops) rq.
Proof.
  unfold model, run. cbn [resolve model_core andb]. destruct (precheck (configure ops) rq); [reflexivity|].
  destruct (read_body (tbl_oracle t) (configure ops) rq) as [[b|e] n]; reflexivity.
Qed.

Lemma precheck_spec c rq :
  precheck c rq = match s_adv c (r_exempt rq) with Some a => a <? r_cl rq | None => false end.
Proof.
  unfold precheck, s_adv. destruct (0 <? mrb c), (r_exempt rq); cbn [andb negb];
    try reflexivity; try apply andb_false_r; apply andb_true_r.
Qed.

Lemma berr_eqb_refl e : berr_eqb e e = true.
Proof. destruct e; cbn [berr_eqb]; try reflexivity; try apply Z.eqb_refl. apply beqb_refl. Qed.

Lemma maxwin_spec d flag : s_maxwin (if 0 <? d then Some (d, flag) else None) = maxwin d.
Proof. unfold maxwin. destruct (0 <? d); reflexivity. Qed.

Definition obs_of (http : bool) (r : dres) (n : Z) : obs :=
  match r with
  | DOk b => OBody 200 b n
  | DErr e => if http then OHttpRefused (status_of e) (names_of e) false n else ORefused (status_of e) e n
  end.

(* what the codec yields for THIS request's body stays below MaxInt64 bytes *)
Definition QShort (orc : oracle) (rq : request) : Prop :=
  is_identity (norm_coding (r_ce rq)) = false ->
  memb (norm_coding (r_ce rq)) c18_decodable_codings = true ->
  zlen (total (orc (norm_coding (r_ce rq)) (r_raw rq))) < max64.

(* the decoding part, once the wire body is within its cap *)
Lemma decode_part_spec http orc c rq limit rca :
  QShort orc rq -> raw_limit c (r_exempt rq) = (limit, rca) ->
  let o := obs_of http (decode_part orc c rq limit rca) (zlen (r_raw rq)) in
  (if r_rderr rq then refused_with o http 400
   else
     let enc := norm_coding (r_ce rq) in
     if is_identity enc then delivered o (r_raw rq) (zlen (r_raw rq))
     else if memb enc c18_decodable_codings then
       let dc := s_dec_cap c (r_exempt rq) in
       let st := orc enc (r_raw rq) in
       if in_scope st (s_maxwin dc) then
         if within (zlen (total st)) dc then delivered o (total st) (zlen (r_raw rq))
         else match dc with Some cap => refusal_ok http cap true o | None => false end
       else
         match o with
         | OBody s b _ => (s =? 200) && within (zlen b) dc
         | ORefused s _ _ | OHttpRefused s _ _ _ => negb (s =? 415)
         | OStack _ => false
         end
     else
       match o with
       | ORefused s e _ => negb http && (s =? 415) && berr_eqb e (EUnsupported enc)
       | OHttpRefused s nm plain _ => http && (s =? 415) && negb plain && opt_eqb Z.eqb nm None
       | _ => false
       end) = true.
Proof.
  intros Hsh Hr. destruct (caps_agree c _ _ _ Hr) as (Hrc & Hrca & Hdc).
  cbv zeta. unfold decode_part.
  destruct (r_rderr rq).
  { unfold obs_of. destruct http; cbn [refused_with status_of names_of negb andb]; rewrite st_other; reflexivity. }
  destruct (is_identity (norm_coding (r_ce rq))) eqn:Ei.
  { unfold obs_of, delivered. now rewrite beqb_refl, !Z.eqb_refl. }
  destruct (memb (norm_coding (r_ce rq)) c18_decodable_codings) eqn:Em.
  2:{ unfold obs_of. destruct http; cbn [status_of names_of negb andb opt_eqb]; rewrite st_unsup;
      [reflexivity | now rewrite berr_eqb_refl]. }
  specialize (Hsh Ei Em).
  set (enc := norm_coding (r_ce rq)) in *. set (d := decode_cap c limit rca) in *.
  rewrite Hdc, maxwin_spec.
  destruct (in_scope (orc enc (r_raw rq)) (maxwin d)) eqn:Es.
  - rewrite (db_in_scope _ _ _ _ Hsh Es). unfold over.
    destruct (0 <? d) eqn:E0; cbn [andb within].
    + destruct (d <? zlen (total (orc enc (r_raw rq)))) eqn:E1.
      * replace (zlen (total (orc enc (r_raw rq))) <=? d) with false by lia.
        destruct (rca && (d =? limit)) eqn:Ef.
        -- apply andb_true_iff in Ef as [_ Ef]. apply Z.eqb_eq in Ef.
           unfold obs_of, refusal_ok. destruct http; cbn [status_of names_of negb andb opt_eqb berr_eqb];
             rewrite st_req; rewrite Ef, !Z.eqb_refl; reflexivity.
        -- unfold obs_of, refusal_ok. destruct http; cbn [status_of names_of negb andb opt_eqb berr_eqb];
             rewrite st_other; rewrite ?Z.eqb_refl; reflexivity.
      * replace (zlen (total (orc enc (r_raw rq))) <=? d) with true by lia.
        unfold obs_of, delivered. now rewrite beqb_refl, !Z.eqb_refl.
    + unfold obs_of, delivered. now rewrite beqb_refl, !Z.eqb_refl.
  - pose proof (db_results orc enc (r_raw rq) d) as Hres.
    destruct (fst (decompress_bounded orc enc (r_raw rq) d)) as [b|e].
    + unfold obs_of. rewrite Z.eqb_refl. cbn [andb]. destruct (0 <? d) eqn:E0; cbn [within]; [|reflexivity].
      assert (zlen b <= d) by (apply Hres; lia). lia.
    + destruct Hres as [He|He]; subst e.
      * destruct (rca && (d =? limit)); unfold obs_of; destruct http; cbn [status_of]; rewrite ?st_req, ?st_other; reflexivity.
      * unfold obs_of; destruct http; cbn [status_of]; rewrite ?st_other; reflexivity.
Qed.

Theorem run_meets_spec http orc c rq :
  zlen (r_raw rq) < max64 -> QShort orc rq ->
  spec_request http orc c rq (run http orc c rq) = true.
Proof.
  intros Hlm Hn. unfold spec_request, run. rewrite <- precheck_spec.
  destruct (raw_limit c (r_exempt rq)) as [limit rca] eqn:Hr.
  destruct (caps_agree c _ _ _ Hr) as (Hrc & Hrca & Hdc).
  pose proof (zlen_nonneg (r_raw rq)) as Hz.
  destruct (http && precheck c rq) eqn:Epre.
  - apply andb_true_iff in Epre as [_ Ep]. rewrite st_pre.
    unfold precheck in Ep. apply andb_true_iff in Ep as [Ep Ex]. apply andb_true_iff in Ep as [Ep _].
    unfold s_adv. rewrite Ep, Ex. cbn [andb opt_eqb]. now rewrite !Z.eqb_refl.
  - rewrite Hrc. destruct (0 <? limit) eqn:E0.
    + destruct (limit <? zlen (r_raw rq)) eqn:E1.
      * rewrite (read_body_over orc c rq limit rca Hr) by lia.
        replace (within (zlen (r_raw rq)) (Some (limit, rca))) with false by (cbn [within]; lia).
        assert (Hro : refusal_ok http (limit, rca) false
                  (if http then OHttpRefused (status_of (if rca then EReqTooLarge limit else ERawTooLarge limit))
                                  (names_of (if rca then EReqTooLarge limit else ERawTooLarge limit)) false (limit + 1)
                   else ORefused (status_of (if rca then EReqTooLarge limit else ERawTooLarge limit))
                          (if rca then EReqTooLarge limit else ERawTooLarge limit) (limit + 1)) = true).
        { unfold refusal_ok. destruct http, rca; cbn [status_of names_of negb andb opt_eqb berr_eqb];
            rewrite ?st_req, ?st_other, ?Z.eqb_refl; reflexivity. }
        rewrite Hro. destruct http; cbn [nread_of andb]; rewrite Z.eqb_refl; lia.
      * rewrite (read_body_within orc c rq limit rca Hr Hlm) by lia.
        replace (within (zlen (r_raw rq)) (Some (limit, rca))) with true by (cbn [within]; lia).
        pose proof (decode_part_spec http orc c rq limit rca Hn Hr) as Hd. cbv zeta in Hd.
        fold (obs_of http (decode_part orc c rq limit rca) (zlen (r_raw rq))).
        rewrite Hd.
        assert (Hnr : nread_of (obs_of http (decode_part orc c rq limit rca) (zlen (r_raw rq))) = zlen (r_raw rq)).
        { unfold obs_of. destruct (decode_part orc c rq limit rca); [reflexivity | destruct http; reflexivity]. }
        rewrite Hnr. lia.
    + rewrite (read_body_within orc c rq limit rca Hr Hlm) by lia.
      cbn [within].
      pose proof (decode_part_spec http orc c rq limit rca Hn Hr) as Hd. cbv zeta in Hd.
      fold (obs_of http (decode_part orc c rq limit rca) (zlen (r_raw rq))).
      rewrite Hd.
      assert (Hnr : nread_of (obs_of http (decode_part orc c rq limit rca) (zlen (r_raw rq))) = zlen (r_raw rq)).
      { unfold obs_of. destruct (decode_part orc c rq limit rca); [reflexivity | destruct http; reflexivity]. }
      rewrite Hnr. lia.
Qed.

(* ---- DecodeContentEncoding --------------------------------------------------------------------- *)
Definition decodable (n : bytes) : bool := memb n c18_decodable_codings.

Lemma dres_eqb_refl r : dres_eqb r r = true.
Proof. destruct r; cbn [dres_eqb]; [apply beqb_refl | apply berr_eqb_refl]. Qed.

Lemma s_cap_maxwin m : s_maxwin (s_cap m) = maxwin m.
Proof. unfold s_cap. apply maxwin_spec. Qed.

Lemma within_s_cap n m : within n (s_cap m) = negb (over m n).
Proof. unfold s_cap, over. destruct (0 <? m) eqn:E; cbn [within andb negb]; [lia | reflexivity]. Qed.

Lemma loop_errs orc m : forall toks cur e,
  decode_loop orc m toks cur = DErr e -> e = EDecTooLarge m \/ e = ECodec.
Proof.
  induction toks as [|t r IH]; intros cur e H; cbn [decode_loop] in H; [discriminate|].
  destruct (memb (norm_coding t) c18_decodable_codings); [|now apply IH in H].
  pose proof (db_results orc (norm_coding t) cur m) as Hres.
  destruct (fst (decompress_bounded orc (norm_coding t) cur m)) as [b|e'].
  - now apply IH in H.
  - inversion H; subst. exact Hres.
Qed.

Lemma loop_bound orc m : 0 < m -> forall toks cur b,
  decode_loop orc m toks cur = DOk b ->
  zlen cur <= m \/ existsb decodable (map norm_coding toks) = true -> zlen b <= m.
Proof.
  intros H0. induction toks as [|t r IH]; intros cur b H Hor; cbn [decode_loop map existsb] in *.
  - inversion H; subst. destruct Hor as [Hl|Hx]; [assumption | discriminate].
  - unfold decodable at 1 in Hor.
    destruct (memb (norm_coding t) c18_decodable_codings) eqn:Ed.
    + pose proof (db_results orc (norm_coding t) cur m) as Hres.
      destruct (fst (decompress_bounded orc (norm_coding t) cur m)) as [b1|e1]; [|discriminate].
      apply (IH b1 b H). left. now apply Hres.
    + apply (IH cur b H). cbn [orb] in Hor. exact Hor.
Qed.

Lemma loop_spec orc m : (forall k d, zlen (total (orc k d)) < max64) -> forall toks cur,
  match s_peel orc m (filter decodable (map norm_coding toks)) cur with
  | Some want => decode_loop orc m toks cur = want
  | None => True
  end.
Proof.
  intro Hm. induction toks as [|t r IH]; intro cur; cbn [map filter decode_loop s_peel]; [reflexivity|].
  unfold decodable at 1. destruct (memb (norm_coding t) c18_decodable_codings) eqn:Ed; [|apply IH].
  cbn [s_peel]. rewrite s_cap_maxwin.
  destruct (in_scope (orc (norm_coding t) cur) (maxwin m)) eqn:Es; [|exact I].
  rewrite (db_in_scope _ _ _ _ (Hm _ _) Es), within_s_cap.
  destruct (over m (zlen (total (orc (norm_coding t) cur)))); cbn [negb]; [reflexivity | apply IH].
Qed.

Lemma filter_nonempty_existsb {A} (p : A -> bool) l : filter p l <> [] -> existsb p l = true.
Proof.
  induction l as [|x l IH]; cbn [filter existsb]; [congruence|].
  destruct (p x); [reflexivity | exact IH].
Qed.

Theorem stack_meets_spec orc data ce m : (forall k d, zlen (total (orc k d)) < max64) ->
  spec_stack orc data ce m (decode_ce orc data ce m) = true.
Proof.
  intro Hm. unfold spec_stack, decode_ce. destruct ce as [|x ce']; [apply dres_eqb_refl|].
  set (toks := rev (split_on COMMA (x :: ce'))).
  unfold s_layers. fold toks. fold decodable.
  pose proof (loop_spec orc m Hm toks data) as Hs.
  apply andb_true_iff. split.
  - destruct (s_peel orc m (filter decodable (map norm_coding toks)) data) as [want|].
    + rewrite Hs. apply dres_eqb_refl.
    + destruct (decode_loop orc m toks data) as [b|e] eqn:El; [reflexivity|].
      apply (loop_errs orc m) in El. destruct El; subst e; reflexivity.
  - destruct (decode_loop orc m toks data) as [b|e] eqn:El; [|reflexivity].
    destruct (filter decodable (map norm_coding toks)) eqn:Ef; [reflexivity|].
    unfold s_cap. destruct (0 <? m) eqn:E0; cbn [within]; [|reflexivity].
    assert (zlen b <= m); [|lia].
    apply (loop_bound orc m ltac:(lia) toks data b El). right.
    apply filter_nonempty_existsb. rewrite Ef. discriminate.
Qed.

(* ---- the property in decidable form, on the model ------------------------------------------------ *)
Lemma tbl_short t : fits_tbl t = true -> forall k d, zlen (total (tbl_oracle t k d)) < max64.
Proof.
  intros Ht k d. induction t as [|[[c' d'] st] r IH]; cbn [tbl_oracle].
  - reflexivity.
  - cbn [fits_tbl forallb snd] in Ht. apply andb_true_iff in Ht as [H1 H2].
    destruct (beqb k c' && beqb d d'); [unfold short in H1; lia | now apply IH].
Qed.

(* ---- isMaxBytesExempt: the code's test is the spec's, and both mean one thing -------------- *)
Lemma path_under_spec base : forall path, path_under base path = s_under base path.
Proof.
  unfold path_under, s_under. induction base as [|b bs IH]; intro path.
  - cbn [app has_prefix length skipn andb]. destruct path as [|ch t]; [reflexivity|].
    cbn [beqb has_prefix orb]. now rewrite andb_true_r, N.eqb_sym.
  - destruct path as [|ch t]; [reflexivity|].
    cbn [app beqb has_prefix length skipn]. specialize (IH t).
    rewrite (N.eqb_sym ch b). destruct (N.eqb b ch); cbn [andb orb]; [exact IH | reflexivity].
Qed.

Lemma exempt_eq pfx path : is_exempt pfx path = s_exempt pfx path.
Proof. unfold is_exempt, s_exempt. now rewrite !path_under_spec. Qed.

Lemma path_under_iff base path :
  path_under base path = true <-> path = base \/ exists rest, path = base ++ SLASH :: rest.
Proof.
  unfold path_under. rewrite orb_true_iff, beqb_eq, has_prefix_spec. split; intros [H|[r H]]; auto.
  - right. exists r. now rewrite H, <- app_assoc.
  - right. exists r. now rewrite H, <- app_assoc.
Qed.

Theorem exempt_exact pfx path :
  is_exempt pfx path = true <->
  exists base, (base = pfx ++ health_route \/ base = health_route) /\
               (path = base \/ exists rest, path = base ++ SLASH :: rest).
Proof.
  unfold is_exempt. rewrite orb_true_iff, !path_under_iff. split.
  - intros [H|H]; [exists (pfx ++ health_route) | exists health_route]; auto.
  - intros [base [[E|E] H]]; subst base; auto.
Qed.

Lemma resolve_eq i : resolve s_exempt i = resolve is_exempt i.
Proof. destruct i; cbn [resolve]; try reflexivity; now rewrite exempt_eq. Qed.

Lemma core_meets_spec i : fits i = true -> spec_core i (model_core i) = true.
Proof.
  destruct i as [ops rq t | ops rq t | data ce m t | pfx path ops rq t | pfx path ops rq t];
    cbn [fits spec_core]; intro Hn; try reflexivity.
  - apply andb_true_iff in Hn as [H1 H2]. change (model_core (Direct ops rq t)) with (model (Direct ops rq t)).
    rewrite model_direct.
    apply run_meets_spec; [unfold short in H1; lia | intros _ _; now apply tbl_short].
  - apply andb_true_iff in Hn as [H1 H2]. change (model_core (Http ops rq t)) with (model (Http ops rq t)).
    rewrite model_http.
    apply run_meets_spec; [unfold short in H1; lia | intros _ _; now apply tbl_short].
  - cbn [model_core]. apply stack_meets_spec. now apply tbl_short.
Qed.

Lemma at_resolve pfx path ops rq t :
  model (DirectAt pfx path ops rq t) = model (Direct ops (with_exempt (is_exempt pfx path) rq) t) /\
  model (HttpAt pfx path ops rq t) = model (Http ops (with_exempt (is_exempt pfx path) rq) t).
Proof. split; reflexivity. Qed.

Lemma fits_resolve ex i : fits (resolve ex i) = fits i.
Proof. destruct i; reflexivity. Qed.

Theorem model_meets_spec i : fits i = true -> spec_ok i (model i) = true.
Proof.
  intro Hn. unfold spec_ok, model. rewrite resolve_eq. apply core_meets_spec. now rewrite fits_resolve.
Qed.

(* ==== readable statements, over an arbitrary codec satisfying the oracle premises =================== *)

Lemma memb_In x l : memb x l = true <-> In x l.
Proof.
  unfold memb. rewrite existsb_exists. split.
  - intros [y [Hy He]]. apply beqb_eq in He. now subst.
  - intro H. exists x. split; [assumption | apply beqb_refl].
Qed.

(* facts about the regenerated coding names: lower-case, blank-free, comma-free, not identity *)
Lemma coding_names_ok : forall c, In c c18_decodable_codings ->
  norm_coding c = c /\ is_identity c = false /\ ~ In COMMA c /\ c <> [].
Proof.
  assert (H : forallb (fun c => beqb (norm_coding c) c && negb (is_identity c) && negb (existsb (N.eqb COMMA) c)
                                && negb (beqb c [])) c18_decodable_codings = true) by (vm_compute; reflexivity).
  intros c Hc. rewrite forallb_forall in H. specialize (H c Hc).
  apply andb_true_iff in H as [H H4]. apply andb_true_iff in H as [H H3]. apply andb_true_iff in H as [H1 H2].
  apply beqb_eq in H1. apply negb_true_iff in H2, H3, H4.
  repeat split; try assumption.
  - intro Hi. assert (existsb (N.eqb COMMA) c = true); [|congruence].
    apply existsb_exists. exists COMMA. split; [assumption | apply N.eqb_refl].
  - intro He. subst c. discriminate.
Qed.

(* how an observable answers: status and the max_request_bytes value it names *)
Definition answers (o : obs) (st : Z) (names : option Z) : Prop :=
  match o with
  | ORefused s e _ => s = st /\ names_of e = names
  | OHttpRefused s nm _ _ => s = st /\ nm = names
  | _ => False
  end.

Lemma opt_eqb_Z a b : opt_eqb Z.eqb a b = true -> a = b.
Proof. destruct a, b; cbn [opt_eqb]; intro H; try discriminate; [apply Z.eqb_eq in H; now subst | reflexivity]. Qed.

Lemma berr_eqb_eq a b : berr_eqb a b = true -> a = b.
Proof.
  destruct a, b; cbn [berr_eqb]; intro H; try discriminate; try reflexivity;
    try (apply Z.eqb_eq in H; now subst). apply beqb_eq in H. now subst.
Qed.

Lemma refusal_ok_answers http k adv dec o : refusal_ok http (k, adv) dec o = true ->
  answers o (if adv then 413 else 400) (if adv then Some k else None).
Proof.
  unfold refusal_ok, answers. destruct o as [s b n|s e n|s nm pl n|r]; try discriminate; intro H.
  - apply andb_true_iff in H as [_ H]. destruct adv; apply andb_true_iff in H as [H1 H2];
      apply Z.eqb_eq in H1; apply berr_eqb_eq in H2; subst; [now split|].
    destruct dec; now split.
  - apply andb_true_iff in H as [_ H]. destruct adv; apply andb_true_iff in H as [H1 H2];
      apply Z.eqb_eq in H1; apply opt_eqb_Z in H2; subst; now split.
Qed.

Lemma delivered_eq o b n : delivered o b n = true -> o = OBody 200 b n.
Proof.
  unfold delivered. destruct o; try discriminate. intro H.
  apply andb_true_iff in H as [H H3]. apply andb_true_iff in H as [H1 H2].
  apply Z.eqb_eq in H1, H3. apply beqb_eq in H2. now subst.
Qed.

(* the four conjuncts of the request specification, split once *)
Lemma spec_request_parts http orc c rq o :
  spec_request http orc c rq o = true -> (http = true -> precheck c rq = false) ->
  let len := zlen (r_raw rq) in
  let rc := s_raw_cap c (r_exempt rq) in
  nread_of o <= len /\
  (forall k adv, rc = Some (k, adv) -> nread_of o <= k + 1) /\
  (forall k adv, rc = Some (k, adv) -> k < len -> refusal_ok http (k, adv) false o = true /\ nread_of o = k + 1) /\
  (within len rc = true ->
     if r_rderr rq then refused_with o http 400 = true
     else
       let enc := norm_coding (r_ce rq) in
       if is_identity enc then delivered o (r_raw rq) len = true
       else if memb enc c18_decodable_codings then
         let dc := s_dec_cap c (r_exempt rq) in
         let st := orc enc (r_raw rq) in
         if in_scope st (s_maxwin dc) then
           if within (zlen (total st)) dc then delivered o (total st) len = true
           else match dc with Some cap => refusal_ok http cap true o = true | None => False end
         else match o with
              | OBody s b _ => s = 200 /\ within (zlen b) dc = true
              | ORefused s _ _ | OHttpRefused s _ _ _ => s <> 415
              | OStack _ => False
              end
       else match o with
            | ORefused s e _ => http = false /\ s = 415 /\ e = EUnsupported enc
            | OHttpRefused s nm plain _ => http = true /\ s = 415 /\ plain = false /\ nm = None
            | _ => False
            end).
Proof.
  intros Hs Hp. unfold spec_request in Hs. rewrite <- precheck_spec in Hs.
  assert (Hpre : http && precheck c rq = false) by (destruct http; [now rewrite Hp | reflexivity]).
  rewrite Hpre in Hs. cbv zeta.
  apply andb_true_iff in Hs as [Hs H4]. apply andb_true_iff in Hs as [Hs H3]. apply andb_true_iff in Hs as [H1 H2].
  split; [lia|]. split; [|split].
  - intros k adv E. rewrite E in H2. lia.
  - intros k adv E Hk. rewrite E in H3. replace (k <? zlen (r_raw rq)) with true in H3 by lia.
    apply andb_true_iff in H3 as [H3 H3']. split; [assumption | lia].
  - intro Hw. rewrite Hw in H4. destruct (r_rderr rq); [assumption|].
    destruct (is_identity (norm_coding (r_ce rq))); [assumption|].
    destruct (memb (norm_coding (r_ce rq)) c18_decodable_codings).
    + destruct (in_scope _ _).
      * destruct (within _ (s_dec_cap c (r_exempt rq))); [assumption|].
        destruct (s_dec_cap c (r_exempt rq)); [assumption | discriminate].
      * destruct o as [s b n|s e n|s nm pl n|r]; try discriminate.
        -- apply andb_true_iff in H4 as [Ha Hb]. split; [lia | assumption].
        -- lia.
        -- lia.
    + destruct o as [s b n|s e n|s nm pl n|r]; try discriminate.
      * apply andb_true_iff in H4 as [Ha Hc]. apply andb_true_iff in Ha as [Ha Hb].
        apply berr_eqb_eq in Hc. destruct http; [discriminate|]. repeat split; [lia | assumption].
      * apply andb_true_iff in H4 as [Ha Hd]. apply andb_true_iff in Ha as [Ha Hc]. apply andb_true_iff in Ha as [Ha Hb].
        apply opt_eqb_Z in Hd. destruct http; [|discriminate]. destruct pl; [discriminate|]. repeat split; [lia | assumption].
Qed.

Section Codec.
  Variable orc : oracle.
  Variable P : Type.                                 (* encoder settings: level, framing, window *)
  Variable comp : bytes -> P -> bytes -> bytes.      (* coding name, settings, payload -> wire bytes *)
  Variable need : bytes -> P -> bytes -> Z.          (* window memory the decoder needs for it *)
  (* decomp (comp x) = x, as the streaming decoder sees it *)
  Hypothesis codec_ok : forall c p x, In c c18_decodable_codings ->
    let st := orc c (comp c p x) in
    st_clean st = true /\ total st = x /\
    Forall (fun s => s_win s <= need c p x) (st_segs st) /\
    (forall f, st_fcs st = Some f -> f <= zlen x).

  Lemma codec_in_scope c p x mw : In c c18_decodable_codings -> need c p x <= mw ->
    in_scope (orc c (comp c p x)) mw = true /\ total (orc c (comp c p x)) = x.
  Proof.
    intros Hc Hn. destruct (codec_ok c p x Hc) as (H1 & H2 & H3 & H4). split; [|assumption].
    unfold in_scope. rewrite H1, H2. cbn [andb]. apply andb_true_iff. split.
    - apply forallb_forall. intros s Hs. rewrite Forall_forall in H3. specialize (H3 s Hs). lia.
    - destruct (st_fcs (orc c (comp c p x))) as [f|] eqn:Ef; [|reflexivity]. specialize (H4 f eq_refl). lia.
  Qed.

  Theorem within_caps_exact_compressed http c rq enc p x :
    zlen (r_raw rq) < max64 -> zlen x < max64 -> (http = true -> precheck c rq = false) ->
    norm_coding (r_ce rq) = enc -> In enc c18_decodable_codings ->
    r_raw rq = comp enc p x -> r_rderr rq = false ->
    within (zlen (r_raw rq)) (s_raw_cap c (r_exempt rq)) = true ->
    within (zlen x) (s_dec_cap c (r_exempt rq)) = true ->
    need enc p x <= s_maxwin (s_dec_cap c (r_exempt rq)) ->
    run http orc c rq = OBody 200 x (zlen (r_raw rq)).
  Proof.
    intros Hn Hx Hp He Hc Hraw Hrd Hw Hd Hneed.
    assert (Hso : QShort orc rq).
    { intros _ _. rewrite He, Hraw. destruct (codec_ok enc p x Hc) as (_ & Ht & _). now rewrite Ht. }
    pose proof (spec_request_parts http orc c rq _ (run_meets_spec http orc c rq Hn Hso) Hp) as (_ & _ & _ & H4).
    specialize (H4 Hw). rewrite Hrd, He in H4. cbv zeta in H4.
    destruct (coding_names_ok enc Hc) as (_ & Hid & _). rewrite Hid in H4.
    rewrite (proj2 (memb_In _ _) Hc) in H4. rewrite Hraw in H4.
    destruct (codec_in_scope enc p x _ Hc Hneed) as [Hs Ht]. rewrite Hs, Ht, Hd in H4.
    rewrite <- Hraw in H4. now apply delivered_eq.
  Qed.

  Theorem over_decoded_cap_status http c rq enc p x k adv :
    zlen (r_raw rq) < max64 -> zlen x < max64 -> (http = true -> precheck c rq = false) ->
    norm_coding (r_ce rq) = enc -> In enc c18_decodable_codings ->
    r_raw rq = comp enc p x -> r_rderr rq = false ->
    within (zlen (r_raw rq)) (s_raw_cap c (r_exempt rq)) = true ->
    s_dec_cap c (r_exempt rq) = Some (k, adv) -> k < zlen x ->
    need enc p x <= s_maxwin (s_dec_cap c (r_exempt rq)) ->
    answers (run http orc c rq) (if adv then 413 else 400) (if adv then Some k else None).
  Proof.
    intros Hn Hx Hp He Hc Hraw Hrd Hw Hd Hk Hneed.
    assert (Hso : QShort orc rq).
    { intros _ _. rewrite He, Hraw. destruct (codec_ok enc p x Hc) as (_ & Ht & _). now rewrite Ht. }
    pose proof (spec_request_parts http orc c rq _ (run_meets_spec http orc c rq Hn Hso) Hp) as (_ & _ & _ & H4).
    specialize (H4 Hw). rewrite Hrd, He in H4. cbv zeta in H4.
    destruct (coding_names_ok enc Hc) as (_ & Hid & _). rewrite Hid in H4.
    rewrite (proj2 (memb_In _ _) Hc) in H4. rewrite Hraw in H4.
    destruct (codec_in_scope enc p x _ Hc Hneed) as [Hs Ht]. rewrite Hs, Ht in H4. rewrite Hd in H4.
    replace (within (zlen x) (Some (k, adv))) with false in H4 by (cbn [within]; lia).
    now apply refusal_ok_answers in H4.
  Qed.

  (* stacks of codings, as an intermediary sees them *)
  Definition encode_stack (cs : list (bytes * P)) (x : bytes) : bytes :=
    fold_left (fun acc cp => comp (fst cp) (snd cp) acc) cs x.
  Definition stack_header (cs : list (bytes * P)) : bytes := join [COMMA] (map fst cs).
  (* every level fits the per-coding limit and the decoder's window ceiling under it *)
  Fixpoint stack_ok (m : Z) (cs : list (bytes * P)) (x : bytes) : Prop :=
    match cs with
    | [] => True
    | (c, p) :: r => In c c18_decodable_codings /\ zlen x < max64 /\ (m <= 0 \/ zlen x <= m) /\
                     need c p x <= maxwin m /\
                     stack_ok m r (comp c p x)
    end.

  Lemma decode_loop_app m l1 l2 cur :
    decode_loop orc m (l1 ++ l2) cur =
    match decode_loop orc m l1 cur with DOk b => decode_loop orc m l2 b | DErr e => DErr e end.
  Proof.
    revert cur. induction l1 as [|t r IH]; intro cur; cbn [app decode_loop]; [reflexivity|].
    destruct (memb (norm_coding t) c18_decodable_codings); [|apply IH].
    destruct (fst (decompress_bounded orc (norm_coding t) cur m)); [apply IH | reflexivity].
  Qed.

  Lemma decode_loop_stack m : forall cs x, stack_ok m cs x ->
    decode_loop orc m (rev (map fst cs)) (encode_stack cs x) = DOk x.
  Proof.
    induction cs as [|[c p] r IH]; intros x Hok; [reflexivity|].
    cbn [stack_ok] in Hok. destruct Hok as (Hc & Hx & Hlen & Hneed & Hr).
    cbn [map rev fst]. unfold encode_stack. cbn [fold_left fst snd]. fold (encode_stack r (comp c p x)).
    rewrite decode_loop_app, (IH _ Hr). cbn [decode_loop].
    destruct (coding_names_ok c Hc) as (Hnorm & _). rewrite Hnorm, (proj2 (memb_In _ _) Hc).
    destruct (codec_in_scope c p x _ Hc Hneed) as [Hs Ht].
    rewrite (db_in_scope _ _ _ _ ltac:(rewrite Ht; exact Hx) Hs), Ht. unfold over.
    replace ((0 <? m) && (m <? zlen x)) with false by lia. reflexivity.
  Qed.
End Codec.

(* ---- the header of a stack splits back into its names ------------------------------------------- *)
From VR Require Proofs.C17.

Lemma split_join_names (ns : list bytes) : ns <> [] -> Forall (fun n => ~ In COMMA n) ns ->
  split_on COMMA (join [COMMA] ns) = ns.
Proof.
  intros Hne Hf. change COMMA with VR.Model.C17.COMMA.
  rewrite VR.Proofs.C17.split_pieces. apply VR.Proofs.C17.pieces_unique; assumption.
Qed.

Lemma join_nonempty (ns : list bytes) : ns <> [] -> Forall (fun n => n <> []) ns -> join [COMMA] ns <> [].
Proof.
  destruct ns as [|a [|b r]]; intros Hne Hf; [congruence| |]; inversion Hf; subst; cbn [join].
  - assumption.
  - destruct a; [congruence | discriminate].
Qed.

Lemma stack_ok_names {P} (comp : bytes -> P -> bytes -> bytes) need m cs x :
  stack_ok P comp need m cs x -> Forall (fun c => In c c18_decodable_codings) (map fst cs).
Proof.
  revert x. induction cs as [|[c p] r IH]; intros x H; cbn [map fst]; [constructor|].
  cbn [stack_ok] in H. destruct H as (Hc & _ & _ & _ & Hr). constructor; [assumption | eapply IH; eassumption].
Qed.

Theorem decode_stack_inverse orc P comp need
  (codec_ok : forall c p x, In c c18_decodable_codings ->
    let st := orc c (comp c p x) in
    st_clean st = true /\ total st = x /\
    Forall (fun s => s_win s <= need c p x) (st_segs st) /\
    (forall f, st_fcs st = Some f -> f <= zlen x)) :
  forall m cs x, stack_ok P comp need m cs x ->
  decode_ce orc (encode_stack P comp cs x) (stack_header P cs) m = DOk x.
Proof.
  intros m cs x Hok. unfold decode_ce, stack_header.
  destruct cs as [|cp r] eqn:Ecs; [reflexivity|]. rewrite <- Ecs in *.
  pose proof (stack_ok_names comp need m cs x Hok) as Hnames.
  assert (Hne : map fst cs <> []) by (rewrite Ecs; discriminate).
  assert (Hcf : Forall (fun n => ~ In COMMA n) (map fst cs)).
  { eapply Forall_impl; [|exact Hnames]. intros c Hc. now destruct (coding_names_ok c Hc) as (_ & _ & H & _). }
  assert (Hnn : Forall (fun n => n <> []) (map fst cs)).
  { eapply Forall_impl; [|exact Hnames]. intros c Hc. now destruct (coding_names_ok c Hc) as (_ & _ & _ & H). }
  pose proof (join_nonempty _ Hne Hnn) as Hj.
  destruct (join [COMMA] (map fst cs)) as [|h t] eqn:Ej; [congruence|]. rewrite <- Ej.
  rewrite (split_join_names _ Hne Hcf).
  now apply (decode_loop_stack orc P comp need codec_ok m).
Qed.

(* ---- statements that need no codec premise at all ------------------------------------------------- *)
Theorem over_raw_cap_status http orc c rq k adv :
  zlen (r_raw rq) < max64 -> (http = true -> precheck c rq = false) ->
  s_raw_cap c (r_exempt rq) = Some (k, adv) -> k < zlen (r_raw rq) ->
  answers (run http orc c rq) (if adv then 413 else 400) (if adv then Some k else None) /\
  nread_of (run http orc c rq) = k + 1.
Proof.
  intros Hn Hp Hc Hk.
  destruct (raw_limit c (r_exempt rq)) as [limit rca] eqn:Hr.
  destruct (caps_agree c _ _ _ Hr) as (Hrc & _ & _). rewrite Hrc in Hc.
  destruct (0 <? limit) eqn:E0; inversion Hc; subst k adv; clear Hc.
  unfold run. replace (http && precheck c rq) with false by (destruct http; [now rewrite Hp | reflexivity]).
  rewrite (read_body_over orc c rq limit rca Hr) by lia.
  destruct http, rca; cbn [answers status_of names_of nread_of]; rewrite ?st_req, ?st_other; auto.
Qed.

Theorem precheck_status c rq orc :
  precheck c rq = true ->
  run true orc c rq = OHttpRefused 413 (Some (mrb c)) true 0 /\ s_adv c (r_exempt rq) = Some (mrb c).
Proof.
  intro Hp. unfold run. rewrite Hp. cbn [andb]. rewrite st_pre. split; [reflexivity|].
  unfold precheck in Hp. apply andb_true_iff in Hp as [Hp Hx]. apply andb_true_iff in Hp as [Hp _].
  unfold s_adv. now rewrite Hp, Hx.
Qed.

Lemma read_body_snd orc c rq :
  snd (read_body orc c rq) =
  zlen (if 0 <? fst (raw_limit c (r_exempt rq))
        then take_z (lim_plus_one (fst (raw_limit c (r_exempt rq)))) (r_raw rq) else r_raw rq).
Proof.
  unfold read_body. destruct (raw_limit c (r_exempt rq)) as [limit rca]. cbn [fst].
  set (body := if 0 <? limit then take_z (lim_plus_one limit) (r_raw rq) else r_raw rq).
  destruct (r_rderr rq && _); [reflexivity|].
  destruct ((0 <? limit) && (limit <? zlen body)); [reflexivity|].
  destruct (is_identity _); [reflexivity|].
  destruct (memb _ _); [|reflexivity].
  destruct (fst (decompress_bounded _ _ _ _)) as [b|e]; [reflexivity|].
  destruct e; try reflexivity. destruct (rca && _); reflexivity.
Qed.

Lemma nread_run http orc c rq :
  nread_of (run http orc c rq) = 0 \/ nread_of (run http orc c rq) = snd (read_body orc c rq).
Proof.
  unfold run. destruct (http && precheck c rq); [now left|]. right.
  destruct (read_body orc c rq) as [[b|e] n]; [reflexivity | destruct http; reflexivity].
Qed.

(* no guard at all: any caps, any sizes, any codec *)
Theorem reads_bounded http orc c rq :
  nread_of (run http orc c rq) <= zlen (r_raw rq) /\
  forall k adv, s_raw_cap c (r_exempt rq) = Some (k, adv) -> nread_of (run http orc c rq) <= k + 1.
Proof.
  pose proof (zlen_nonneg (r_raw rq)) as Hz.
  pose proof (read_body_snd orc c rq) as Hs.
  destruct (raw_limit c (r_exempt rq)) as [limit rca] eqn:Hr. cbn [fst] in Hs.
  destruct (caps_agree c _ _ _ Hr) as (Hrc & _ & _).
  pose proof (take_z_len (lim_plus_one limit) (r_raw rq)) as HL.
  pose proof (lim_plus_one_bounds limit) as Hb.
  destruct (nread_run http orc c rq) as [E|E]; rewrite E; clear E.
  - split; [lia|]. intros k adv Hc. rewrite Hrc in Hc. destruct (0 <? limit) eqn:E0; inversion Hc; subst. lia.
  - rewrite Hs. split.
    + destruct (0 <? limit); [|lia]. rewrite HL. destruct (lim_plus_one limit <=? 0); lia.
    + intros k adv Hc. rewrite Hrc in Hc. destruct (0 <? limit) eqn:E0; inversion Hc; subst.
      rewrite HL. destruct (lim_plus_one k <=? 0); lia.
Qed.

Theorem identity_exact http orc c rq :
  zlen (r_raw rq) < max64 -> (http = true -> precheck c rq = false) ->
  is_identity (norm_coding (r_ce rq)) = true -> r_rderr rq = false ->
  within (zlen (r_raw rq)) (s_raw_cap c (r_exempt rq)) = true ->
  run http orc c rq = OBody 200 (r_raw rq) (zlen (r_raw rq)).
Proof.
  intros Hn Hp Hi Hrd Hw.
  assert (Hso : QShort orc rq) by (intros Hf _; congruence).
  pose proof (spec_request_parts http orc c rq _ (run_meets_spec http orc c rq Hn Hso) Hp) as (_ & _ & _ & H4).
  specialize (H4 Hw). rewrite Hrd in H4. cbv zeta in H4. rewrite Hi in H4. now apply delivered_eq.
Qed.

Theorem unknown_coding_415 http orc c rq :
  zlen (r_raw rq) < max64 -> (http = true -> precheck c rq = false) ->
  r_rderr rq = false -> within (zlen (r_raw rq)) (s_raw_cap c (r_exempt rq)) = true ->
  is_identity (norm_coding (r_ce rq)) = false -> memb (norm_coding (r_ce rq)) c18_decodable_codings = false ->
  answers (run http orc c rq) 415 None.
Proof.
  intros Hn Hp Hrd Hw Hi Hm.
  assert (Hso : QShort orc rq) by (intros _ Hf; congruence).
  pose proof (spec_request_parts http orc c rq _ (run_meets_spec http orc c rq Hn Hso) Hp) as (_ & _ & _ & H4).
  specialize (H4 Hw). rewrite Hrd in H4. cbv zeta in H4. rewrite Hi, Hm in H4.
  unfold answers. destruct (run http orc c rq) as [s b n|s e n|s nm pl n|r]; try contradiction.
  - destruct H4 as (_ & Hs & He). subst. now split.
  - destruct H4 as (_ & Hs & _ & Hnm). subst. now split.
Qed.

(* 415 is answered for nothing else, whatever the caps *)
Lemma db_err_kinds orc c data m e :
  fst (decompress_bounded orc c data m) = DErr e -> e = EDecTooLarge m \/ e = ECodec.
Proof.
  unfold decompress_bounded.
  destruct (is_zstd c && (0 <? m) && match st_fcs (orc c data) with Some f => m <? f | None => false end);
    [cbn [fst]; intro H; inversion H; now left|].
  destruct (run_segs (maxwin m) (st_segs (orc c data))) as [pre wfail].
  repeat match goal with
  | |- context [if ?b then _ else _] => destruct b
  end; cbn [fst]; intro H; inversion H; auto.
Qed.

Theorem only_unknown_coding_415 http orc c rq nm :
  answers (run http orc c rq) 415 nm ->
  is_identity (norm_coding (r_ce rq)) = false /\ memb (norm_coding (r_ce rq)) c18_decodable_codings = false.
Proof.
  intro Ha. unfold run in Ha.
  destruct (http && precheck c rq); [cbn [answers] in Ha; rewrite st_pre in Ha; destruct Ha; discriminate|].
  unfold read_body in Ha. destruct (raw_limit c (r_exempt rq)) as [limit rca].
  set (body := if 0 <? limit then take_z (lim_plus_one limit) (r_raw rq) else r_raw rq) in *.
  destruct (r_rderr rq && (if 0 <? limit then zlen (r_raw rq) <? lim_plus_one limit else true)).
  { destruct http; cbn [answers status_of] in Ha; rewrite st_other in Ha; destruct Ha; discriminate. }
  destruct ((0 <? limit) && (limit <? zlen body)).
  { destruct http, rca; cbn [answers status_of] in Ha; rewrite ?st_other, ?st_req in Ha; destruct Ha; discriminate. }
  destruct (is_identity (norm_coding (r_ce rq))); [contradiction|].
  destruct (memb (norm_coding (r_ce rq)) c18_decodable_codings); [|now split].
  exfalso.
  pose proof (db_err_kinds orc (norm_coding (r_ce rq)) body (decode_cap c limit rca)) as Hk.
  destruct (fst (decompress_bounded orc (norm_coding (r_ce rq)) body (decode_cap c limit rca))) as [b|e];
    [contradiction|].
  destruct (Hk e eq_refl) as [He|He]; subst e.
  - destruct (rca && (decode_cap c limit rca =? limit));
      destruct http; cbn [answers status_of] in Ha; rewrite ?st_other, ?st_req in Ha; destruct Ha; discriminate.
  - destruct http; cbn [answers status_of] in Ha; rewrite ?st_other in Ha; destruct Ha; discriminate.
Qed.

(* the per-coding limit of the intermediary decoder, for every oracle *)
Theorem stack_never_exceeds_limit orc data ce m b :
  0 < m -> s_layers ce <> [] ->
  decode_ce orc data ce m = DOk b -> zlen b <= m.
Proof.
  intros H0 Hl Hd. unfold decode_ce in Hd. destruct ce as [|x ce']; [now contradiction Hl|].
  apply (loop_bound orc m H0 _ _ _ Hd). right.
  apply filter_nonempty_existsb. exact Hl.
Qed.

Theorem decoder_pulls_at_most_cap_plus_one orc c data m :
  0 < m ->
  0 <= snd (decompress_bounded orc c data m) <= m + 1 /\
  forall b, fst (decompress_bounded orc c data m) = DOk b -> zlen b <= m.
Proof.
  intros H0. split; [now apply db_pulled|]. intros b Hb.
  pose proof (db_results orc c data m) as Hr. rewrite Hb in Hr. now apply Hr.
Qed.

(* ---- refutations --------------------------------------------------------------------------------- *)
Definition legacy_witness : input :=
  Direct [SetMaxDecompressed 100]
    {| r_exempt := false; r_cl := 20; r_raw := pat 1 0 20; r_rderr := false; r_ce := c18_gzip |}
    [(c18_gzip, pat 1 0 20,
      {| st_fcs := None; st_segs := [{| s_win := 0; s_out := pat 0 0 101 |}]; st_clean := true; st_sticky := true |})].

Theorem legacy_refuted_by_witness :
  fits legacy_witness = true /\ spec_ok legacy_witness (model_legacy legacy_witness) = false /\
  model_legacy legacy_witness = ORefused 413 (EReqTooLarge 100) 20 /\
  model legacy_witness = ORefused 400 (EDecTooLarge 100) 20.
Proof. repeat split; vm_compute; reflexivity. Qed.

Definition maxint_witness : input :=
  Direct [SetMaxBodySize max64]
    {| r_exempt := false; r_cl := 10; r_raw := pat 1 0 10; r_rderr := false; r_ce := [] |} [].
Definition maxint_stack_witness : input :=
  Stack (pat 1 0 20) c18_gzip max64
    [(c18_gzip, pat 1 0 20,
      {| st_fcs := None; st_segs := [{| s_win := 0; s_out := pat 0 0 50 |}]; st_clean := true; st_sticky := true |})].

Theorem maxint_cap_legacy_refuted_by_witness :
  fits maxint_witness = true /\
  spec_ok maxint_witness (model_wrap maxint_witness) = false /\ model_wrap maxint_witness = OBody 200 [] 0 /\
  model maxint_witness = OBody 200 (pat 1 0 10) 10 /\
  fits maxint_stack_witness = true /\
  spec_ok maxint_stack_witness (model_wrap maxint_stack_witness) = false /\
  model_wrap maxint_stack_witness = OStack (DOk []) /\
  model maxint_stack_witness = OStack (DOk (pat 0 0 50)).
Proof. repeat split; vm_compute; reflexivity. Qed.

(* ---- the oracle premises are satisfiable ------------------------------------------------------------ *)
Definition id_oracle : oracle := fun _ d =>
  {| st_fcs := Some (zlen d); st_segs := [{| s_win := 0; s_out := d |}]; st_clean := true; st_sticky := false |}.
Lemma id_codec_ok : forall (c : bytes) (p : unit) (x : bytes), In c c18_decodable_codings ->
  let st := id_oracle c ((fun _ _ y => y) c p x) in
  st_clean st = true /\ total st = x /\
  Forall (fun s => s_win s <= (fun _ _ _ => 0) c p x) (st_segs st) /\
  (forall f, st_fcs st = Some f -> f <= zlen x).
Proof.
  intros c p x _. cbn. repeat split.
  - apply app_nil_r.
  - constructor; [cbn; lia | constructor].
  - intros f H. inversion H. lia.
Qed.
