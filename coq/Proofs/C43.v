(* Proofs/C43.v — the OpenTelemetry hook: per-dispatch correctness and the
   span life-cycle invariants, for every schedule and every sampler. *)
From VR Require Import Model.C43.
From Coq Require Import ZifyBool ZifyN ZifyNat.
Open Scope N_scope.
Local Arguments N.eqb : simpl never.
Local Arguments N.leb : simpl never.
Local Arguments N.ltb : simpl never.
Local Arguments Z.eqb : simpl never.
Local Arguments str : simpl never.
Local Arguments beqb : simpl never.

(* ---- reflexivity of the equality tests ---------------------------------- *)
Lemma opar_eqb_refl p : opar_eqb p p = true.
Proof. unfold opar_eqb. now rewrite !beqb_refl, !Bool.eqb_reflx. Qed.
Lemma opt_opar_refl p : opt_eqb opar_eqb p p = true.
Proof. destruct p; cbn; [apply opar_eqb_refl | reflexivity]. Qed.

(* ---- W3C traceparent ------------------------------------------------------ *)
Definition nodash (p : bytes) : bool := forallb (fun c => negb (c =? DASH)) p.

Lemma lhex_nodash p : forallb lhex p = true -> nodash p = true.
Proof.
  unfold nodash. intro H. rewrite forallb_forall in *. intros c Hc. specialize (H c Hc).
  unfold lhex, DASH in *. lia.
Qed.
Lemma cut_app p r : nodash p = true -> cut (p ++ DASH :: r) = (p, r).
Proof.
  induction p as [|c p IH]; cbn [app cut nodash forallb]; intro H.
  - now rewrite N.eqb_refl.
  - apply andb_true_iff in H as [H1 H2]. apply negb_true_iff in H1. rewrite H1.
    fold (nodash p) in H2. now rewrite (IH H2).
Qed.
Lemma cut_nodash p : nodash p = true -> cut p = (p, []).
Proof.
  induction p as [|c p IH]; cbn [cut nodash forallb]; intro H; [reflexivity|].
  apply andb_true_iff in H as [H1 H2]. apply negb_true_iff in H1. rewrite H1.
  fold (nodash p) in H2. now rewrite (IH H2).
Qed.

Definition flags_val (fl : bytes) : N := 16 * hexv (nth 0 fl 0) + hexv (nth 1 fl 0).

Lemma parse_tp00 tr sp fl :
  part_ok 32 tr = true -> part_ok 16 sp = true -> part_ok 2 fl = true ->
  (flags_val fl <=? 3) = true -> all_zero tr = false -> all_zero sp = false ->
  parse_tp (tp00 tr sp fl) = Some {| p_trace := tr; p_span := sp; p_sampled := N.odd (flags_val fl) |}.
Proof.
  intros Ht Hs Hf Hv Zt Zs.
  pose proof Ht as Ht'. pose proof Hs as Hs'. pose proof Hf as Hf'.
  unfold part_ok in Ht', Hs', Hf'.
  apply andb_true_iff in Ht' as [_ Ht']. apply andb_true_iff in Hs' as [_ Hs']. apply andb_true_iff in Hf' as [_ Hf'].
  apply lhex_nodash in Ht', Hs', Hf'.
  unfold parse_tp, tp00.
  change (str "00" ++ [DASH] ++ tr ++ [DASH] ++ sp ++ [DASH] ++ fl)
    with ([48; 48] ++ DASH :: (tr ++ DASH :: (sp ++ DASH :: fl))).
  rewrite (cut_app [48; 48]) by reflexivity.
  cbn [app is_nil].
  change (part_ok 2 [48; 48]) with true. cbn [negb].
  change (beqb [48; 48] (str "ff")) with false. cbv iota.
  rewrite (cut_app tr) by exact Ht'. rewrite Ht. cbn [negb].
  rewrite (cut_app sp) by exact Hs'. rewrite Hs. cbn [negb].
  rewrite (cut_nodash fl) by exact Hf'. rewrite Hf. cbn [negb is_nil orb].
  change (beqb [48; 48] (str "00")) with true. cbn [andb].
  fold (flags_val fl).
  replace (3 <? flags_val fl) with false by lia.
  rewrite Zt, Zs. reflexivity.
Qed.

(* the model's parent computation is the parent the property demands *)
Lemma want_parent_eq g i :
  option_map opar_of (match extract_fn (g_propagate g) (n_tp i) (n_ts i) with Some p => Some p | None => n_amb i end)
  = want_parent g i.
Proof.
  unfold want_parent, extract_fn. destruct (g_propagate g); [|reflexivity].
  destruct (parse_tp (n_tp i)); reflexivity.
Qed.

(* ---- the hook, one call at a time ------------------------------------------ *)
Section HookFacts.
  Variable sampler : option sctx -> bool.
  Variable g : cfg.
  Let extract := extract_fn (g_propagate g).

  Lemma metrics_filters i err :
    filter is_start (end_metrics g i err) = [] /\ filter is_end (end_metrics g i err) = []
    /\ filter is_metric (end_metrics g i err) = end_metrics g i err.
  Proof. unfold end_metrics. destruct (g_metrics g); cbn; auto. Qed.

  Lemma counts_ok_metrics i err : counts_ok g (Some (i, err)) (end_metrics g i err) = true.
  Proof.
    unfold counts_ok, end_metrics. destruct (g_metrics g); [|reflexivity].
    now rewrite !beqb_refl.
  Qed.

  (* a token whose recorded parent is the caller's traceparent *)
  Definition tok_for (i : info) (t : token) : Prop :=
    forall sid p, tk_span t = Some (sid, p) -> g_tracing g = true /\ p = want_parent g i.

  Lemma hook_start_tok s i :
    tok_for i (snd (fst (hook_start extract sampler g s i))).
  Proof.
    unfold hook_start, tok_for. destruct (g_tracing g) eqn:T; cbn; intros sid p H; [|discriminate].
    inversion H; subst. split; [reflexivity | apply want_parent_eq].
  Qed.

  Lemma seg_start s i :
    seg_ok g (Some i, None) (snd (hook_start extract sampler g s i)) = true.
  Proof.
    unfold hook_start, seg_ok, starts_ok, ends_ok, counts_ok.
    destruct (g_tracing g) eqn:T; cbn [negb snd fst filter is_start is_end is_metric length Nat.eqb Nat.add].
    - rewrite beqb_refl. unfold extract. rewrite want_parent_eq, opt_opar_refl.
      destruct (g_metrics g); reflexivity.
    - destruct (g_metrics g); reflexivity.
  Qed.

  Lemma end_span_shape s t err :
    snd (end_span g s t err) = [] \/
    exists sid p, tk_span t = Some (sid, p) /\
      snd (end_span g s t err) =
        [match err with None => BEnd sid SOk false [] true p | Some ty => BEnd sid SError (g_recexc g) ty true p end].
  Proof.
    unfold end_span. destruct (tk_span t) as [[sid p]|]; [|now left].
    destruct (mem_nat sid (s_live s)); [right; now exists sid, p | now left].
  Qed.

  Lemma seg_end_gen ps s t i err :
    tok_for i t -> ps = None \/ g_tracing g = false ->
    seg_ok g (ps, Some (i, err)) (snd (hook_end g s t i err)) = true.
  Proof.
    intros Ht Hps. unfold hook_end. destruct (end_span g s t err) as [s' sp] eqn:E. cbn [snd].
    pose proof (end_span_shape s t err) as Sh. rewrite E in Sh. cbn [snd] in Sh.
    destruct (metrics_filters i err) as (M1 & M2 & M3).
    assert (St : starts_ok g ps [] = true).
    { unfold starts_ok. destruct Hps as [-> | ->]; [destruct (g_tracing g)|]; reflexivity. }
    unfold seg_ok. rewrite !filter_app, M1, M2, M3. cbn [fst snd].
    destruct Sh as [-> | (sid & p & Hs & ->)].
    - cbn [filter app]. rewrite St, counts_ok_metrics. cbn [ends_ok andb length Nat.add]. apply Nat.eqb_refl.
    - destruct (Ht sid p Hs) as [T ->].
      assert (F : forall e, e = match err with None => BEnd sid SOk false [] true (want_parent g i)
                                 | Some ty => BEnd sid SError (g_recexc g) ty true (want_parent g i) end ->
                  filter is_start [e] = [] /\ filter is_end [e] = [e] /\ filter is_metric [e] = []
                  /\ end_matches g (i, err) e = true).
      { intros e ->. destruct err; cbn [filter is_start is_end is_metric]; repeat split; unfold end_matches; cbn [fst snd andb];
          rewrite opt_opar_refl; cbn; rewrite ?beqb_refl, ?Bool.eqb_reflx; reflexivity. }
      destruct (F _ eq_refl) as (F1 & F2 & F3 & F4). rewrite F1, F2, F3. cbn [app].
      rewrite St, counts_ok_metrics. unfold ends_ok. rewrite T, F4. cbn [andb length Nat.add]. 
      apply Nat.eqb_refl.
  Qed.

  Lemma seg_end s t i err : tok_for i t ->
    seg_ok g (None, Some (i, err)) (snd (hook_end g s t i err)) = true.
  Proof. intro H. apply seg_end_gen; auto. Qed.

  (* one whole dispatch in one segment *)
  Lemma seg_whole s i err :
    seg_ok g (Some i, Some (i, err)) (snd (whole extract sampler g s i err)) = true.
  Proof.
    unfold whole. pose proof (hook_start_tok s i) as Ht. pose proof (seg_start s i) as Hs.
    destruct (hook_start extract sampler g s i) as [[s1 t] e1] eqn:E. cbn [fst snd] in Ht, Hs.
    pose proof (seg_end_gen (Some i) s1 t i err Ht) as He.
    destruct (hook_end g s1 t i err) as [s2 e2] eqn:E2. cbn [snd] in He |- *.
    unfold hook_start in E. destruct (g_tracing g) eqn:T; cbn [negb] in E; inversion E; subst; clear E.
    - (* tracing on: the start event is in front, the end segment has no start *)
      assert (He' : seg_ok g (None, Some (i, err)) e2 = true).
      { change e2 with (snd (s2, e2)). rewrite <- E2. apply seg_end. exact Ht. }
      unfold seg_ok in He' |- *. cbn [fst snd app filter is_start is_end is_metric] in *.
      apply andb_true_iff in He' as [He' L]. apply andb_true_iff in He' as [He' C]. apply andb_true_iff in He' as [S0 En].
      rewrite En, C. unfold starts_ok in S0. rewrite T in S0.
      destruct (filter is_start e2) eqn:F; [|destruct l; destruct b; discriminate].
      unfold starts_ok. rewrite T, beqb_refl. unfold extract. rewrite want_parent_eq, opt_opar_refl.
      cbn [andb length Nat.add]. cbn [length Nat.add] in L. exact L.
    - cbn [app]. apply He. now right.
  Qed.
End HookFacts.

(* ---- every schedule: per-dispatch correctness ------------------------------ *)
Definition is_running (v : cstate) : bool := match v with Running _ => true | Done => false end.
Definition tbl_of (cs : list (nat * cstate)) : list (nat * bool) :=
  map (fun kv => (fst kv, is_running (snd kv))) cs.

Lemma lookup_tbl k cs : lookup k (tbl_of cs) = option_map is_running (lookup k cs).
Proof.
  induction cs as [|[j v] cs IH]; cbn; [reflexivity|]. destruct (Nat.eqb j k); [reflexivity | exact IH].
Qed.

Lemma segs_ok_app g p1 p2 s1 s2 :
  segs_ok g p1 s1 = true -> segs_ok g p2 s2 = true -> segs_ok g (p1 ++ p2) (s1 ++ s2) = true.
Proof.
  revert s1; induction p1 as [|p p1 IH]; intros [|e s1]; cbn; intros H1 H2; try discriminate; [exact H2|].
  apply andb_true_iff in H1 as [A B]. rewrite A. cbn. now apply IH.
Qed.

Lemma seg_nil g : seg_ok g (None, None) [] = true.
Proof. unfold seg_ok, starts_ok, ends_ok, counts_ok. cbn. destruct (g_tracing g), (g_metrics g); reflexivity. Qed.

Ltac triv := cbn [segs_ok fst snd]; rewrite ?seg_nil; repeat split; auto.

Section Sched.
  Variable sampler : option sctx -> bool.
  Variable g : cfg.
  Variable calls : list call.
  Let extract := extract_fn (g_propagate g).

  Definition toks_ok (cs : list (nat * cstate)) : Prop :=
    forall k t, lookup k cs = Some (Running t) ->
      exists cl, nth_error calls k = Some cl /\ tok_for g (call_info cl) t.

  Lemma conts_ok s i errs :
    segs_ok g (map (fun e => (Some i, Some (i, e))) errs) (snd (run_conts extract sampler g s i errs)) = true.
  Proof.
    revert s; induction errs as [|e r IH]; intro s; cbn [map run_conts]; [reflexivity|].
    pose proof (seg_whole sampler g s i e) as W. fold extract in W.
    destruct (whole extract sampler g s i e) as [s1 e1]. specialize (IH s1).
    destruct (run_conts extract sampler g s1 i r) as [s2 e2]. cbn [snd] in *.
    cbn [segs_ok]. now rewrite W, IH.
  Qed.

  Lemma toks_cons_done k cs : toks_ok cs -> toks_ok ((k, Done) :: cs).
  Proof.
    intros H j t. cbn [lookup st_calls]. destruct (Nat.eqb k j); [discriminate | apply H].
  Qed.

  Lemma step_ok st o :
    toks_ok (st_calls st) ->
    segs_ok g (snd (plan_step calls (tbl_of (st_calls st)) o)) (snd (step extract sampler g calls st o)) = true
    /\ fst (plan_step calls (tbl_of (st_calls st)) o) = tbl_of (st_calls (fst (step extract sampler g calls st o)))
    /\ toks_ok (st_calls (fst (step extract sampler g calls st o))).
  Proof.
    intro Hk. destruct o as [k|k]; cbn [plan_step step]; rewrite lookup_tbl;
      (destruct (nth_error calls k) as [cl|] eqn:Hc; [|triv]).
    - destruct (lookup k (st_calls st)) as [v|] eqn:Hl; cbn [option_map]; [triv|].
      destruct (reaches_hook cl) eqn:R; cbn [negb].
      2:{ triv. now apply toks_cons_done. }
      destruct (enters_gate cl) eqn:G.
      + pose proof (seg_start sampler g (st_sdk st) (call_info cl)) as S.
        pose proof (hook_start_tok sampler g (st_sdk st) (call_info cl)) as T. fold extract in S, T.
        destruct (hook_start extract sampler g (st_sdk st) (call_info cl)) as [[s1 t] e1]. cbn [fst snd] in *.
        cbn [segs_ok tbl_of map fst snd is_running]. rewrite S. repeat split; auto.
        intros j t'. cbn [lookup st_calls]. destruct (Nat.eqb k j) eqn:E.
        * apply Nat.eqb_eq in E; subst j. intro H; inversion H; subst. now exists cl.
        * apply Hk.
      + pose proof (seg_whole sampler g (st_sdk st) (call_info cl) (call_err cl)) as W. fold extract in W.
        destruct (whole extract sampler g (st_sdk st) (call_info cl) (call_err cl)) as [s1 e1]. cbn [fst snd] in *.
        cbn [segs_ok tbl_of map fst snd is_running]. rewrite W. repeat split; auto. now apply toks_cons_done.
    - destruct (lookup k (st_calls st)) as [[t|]|] eqn:Hl; cbn [option_map is_running]; [|triv|triv].
      destruct (Hk k t Hl) as (cl' & Hc' & Ht). rewrite Hc in Hc'. inversion Hc'; subst cl'.
      pose proof (seg_end g (st_sdk st) t (call_info cl) (call_err cl) Ht) as E.
      destruct (hook_end g (st_sdk st) t (call_info cl) (call_err cl)) as [s1 e1]. cbn [snd] in E.
      pose proof (conts_ok s1 (cont_info cl) (conts cl)) as C.
      destruct (run_conts extract sampler g s1 (cont_info cl) (conts cl)) as [s2 e2]. cbn [fst snd] in *.
      cbn [segs_ok]. rewrite E, C. repeat split; auto. now apply toks_cons_done.
  Qed.

  Lemma run_ok sched : forall st,
    toks_ok (st_calls st) ->
    segs_ok g (snd (plan calls (tbl_of (st_calls st)) sched)) (snd (run extract sampler g calls st sched)) = true
    /\ fst (plan calls (tbl_of (st_calls st)) sched) = tbl_of (st_calls (fst (run extract sampler g calls st sched))).
  Proof.
    induction sched as [|o r IH]; intros st Hk; cbn [plan run]; [split; reflexivity|].
    destruct (step_ok st o Hk) as (A & B & C).
    destruct (plan_step calls (tbl_of (st_calls st)) o) as [t1 p] eqn:P.
    destruct (step extract sampler g calls st o) as [st1 e] eqn:S. cbn [fst snd] in *. subst t1.
    destruct (IH st1 C) as [D E].
    destruct (plan calls (tbl_of (st_calls st1)) r) as [t2 ps].
    destruct (run extract sampler g calls st1 r) as [st2 es]. cbn [fst snd] in *.
    split; [now apply segs_ok_app | exact E].
  Qed.
End Sched.

(* ---- every schedule: the span life cycle ----------------------------------- *)
Lemma ended_of_app a b : ended_of (a ++ b) = ended_of a ++ ended_of b.
Proof. induction a as [|e a IH]; cbn; [reflexivity|]. destruct e; cbn; now rewrite ?IH. Qed.
Lemma started_rec_app a b : started_rec (a ++ b) = started_rec a ++ started_rec b.
Proof. induction a as [|e a IH]; cbn; [reflexivity|]. destruct e as [sid [] ? ? ?| | | |]; cbn; now rewrite ?IH. Qed.

Lemma mem_nat_In x l : mem_nat x l = true <-> In x l.
Proof.
  unfold mem_nat. rewrite existsb_exists. split.
  - intros (y & Hy & E). apply Nat.eqb_eq in E. now subst.
  - intro H. exists x. split; [exact H | apply Nat.eqb_refl].
Qed.
Lemma mem_n_In x l : mem_n x l = true <-> In x l.
Proof. exact (mem_nat_In x l). Qed.
Lemma remove_nat_In x n l : In x (remove_nat n l) <-> In x l /\ x <> n.
Proof.
  unfold remove_nat. rewrite filter_In. split; intros [A B]; split; auto.
  - intro E. subst. now rewrite Nat.eqb_refl in B.
  - apply negb_true_iff. apply Nat.eqb_neq. auto.
Qed.

Lemma NoDup_app_intro_single (l : list nat) x : NoDup l -> ~ In x l -> NoDup (l ++ [x]).
Proof.
  induction l as [|y l IH]; cbn; intros N H; [constructor; [intros []|constructor]|].
  inversion N; subst. constructor.
  - intro I. apply in_app_or in I as [I | [<- | []]]; [auto | apply H; now left].
  - apply IH; [assumption | intro I; apply H; now right].
Qed.

Record GI (s : sdk) (tr : list bev) : Prop := {
  gi_nodup : NoDup (ended_of tr);
  gi_sub : forall x, In x (ended_of tr) -> In x (started_rec tr);
  gi_live : forall x, In x (s_live s) -> In x (started_rec tr) /\ ~ In x (ended_of tr);
  gi_bound : forall x, In x (started_rec tr) -> (x < s_next s)%nat;
  gi_cover : forall x, In x (started_rec tr) -> In x (ended_of tr) \/ In x (s_live s) }.

Section Life.
  Variable extract : bytes -> bytes -> option sctx.
  Variable sampler : option sctx -> bool.
  Variable g : cfg.

  Lemma metrics_none i err : ended_of (end_metrics g i err) = [] /\ started_rec (end_metrics g i err) = [].
  Proof. unfold end_metrics. destruct (g_metrics g); cbn; auto. Qed.

  Lemma GI_start s tr i :
    GI s tr -> GI (fst (fst (hook_start extract sampler g s i))) (tr ++ snd (hook_start extract sampler g s i)).
  Proof.
    intros [N S L B C]. unfold hook_start. destruct (g_tracing g); cbn [negb fst snd].
    2:{ rewrite app_nil_r. now constructor. }
    destruct (sampler _); constructor; cbn [s_live s_next];
      rewrite ?ended_of_app, ?started_rec_app; cbn [ended_of started_rec]; rewrite ?app_nil_r; auto.
    - intros x H. apply in_or_app. left. auto.
    - intros x [<- | H].
      + split; [apply in_or_app; right; now left|]. intro H. apply S, B in H. lia.
      + destruct (L x H). split; [apply in_or_app; now left | assumption].
    - intros x H. apply in_app_or in H as [H | [<- | []]]; [apply B in H|]; lia.
    - intros x H. apply in_app_or in H as [H | [<- | []]]; [|right; now left].
      destruct (C x H); [now left | right; now right].
    - intros x H. apply B in H. lia.
  Qed.

  Lemma start_live s i x :
    In x (s_live (fst (fst (hook_start extract sampler g s i)))) ->
    In x (s_live s) \/ exists p, tk_span (snd (fst (hook_start extract sampler g s i))) = Some (x, p).
  Proof.
    unfold hook_start. destruct (g_tracing g); cbn [negb fst snd s_live tk_span]; [|now left].
    destruct (sampler _); [|now left]. cbn [In].
    intros [<- | H]; [right; eauto | now left].
  Qed.

  Lemma end_live s t i err x :
    In x (s_live (fst (hook_end g s t i err))) ->
    In x (s_live s) /\ forall p, tk_span t <> Some (x, p).
  Proof.
    unfold hook_end, end_span. destruct (tk_span t) as [[sid p]|] eqn:T.
    - destruct (mem_nat sid (s_live s)) eqn:M; cbn [fst s_live].
      + intro H. apply remove_nat_In in H as [A B]. split; [exact A|]. intros q E. inversion E. congruence.
      + intro H. split; [exact H|]. intros q E. inversion E; subst.
        apply mem_nat_In in H. congruence.
    - cbn. intro H. split; [exact H | discriminate].
  Qed.

  Lemma GI_end s tr t i err :
    GI s tr -> GI (fst (hook_end g s t i err)) (tr ++ snd (hook_end g s t i err)).
  Proof.
    intros [N S L B C]. unfold hook_end, end_span. destruct (metrics_none i err) as [M1 M2].
    destruct (tk_span t) as [[sid p]|].
    2:{ cbn [fst snd app]. constructor; rewrite ?ended_of_app, ?started_rec_app, ?M1, ?M2, ?app_nil_r; auto. }
    destruct (mem_nat sid (s_live s)) eqn:M; cbn [fst snd].
    2:{ cbn [app]. constructor; rewrite ?ended_of_app, ?started_rec_app, ?M1, ?M2, ?app_nil_r; auto. }
    apply mem_nat_In in M. destruct (L sid M) as [Ls Le].
    assert (E : ended_of ([match err with None => BEnd sid SOk false [] true p
                            | Some ty => BEnd sid SError (g_recexc g) ty true p end] ++ end_metrics g i err) = [sid]
                /\ started_rec ([match err with None => BEnd sid SOk false [] true p
                            | Some ty => BEnd sid SError (g_recexc g) ty true p end] ++ end_metrics g i err) = []).
    { destruct err; cbn [app ended_of started_rec]; now rewrite M1, M2. }
    destruct E as [E1 E2].
    constructor; cbn [s_live s_next]; rewrite ?(ended_of_app tr), ?(started_rec_app tr), ?E1, ?E2, ?app_nil_r; auto.
    - apply NoDup_app_intro_single; assumption.
    - intros x H. apply in_app_or in H as [H | [<- | []]]; auto.
    - intros x H. apply remove_nat_In in H as [A Bn]. destruct (L x A) as [A1 A2]. split; [exact A1|].
      intro H. apply in_app_or in H as [H | [H | []]]; [auto | congruence].
    - intros x H. destruct (C x H) as [H1 | H1]; [left; apply in_or_app; now left|].
      destruct (Nat.eq_dec x sid) as [-> | Ne]; [left; apply in_or_app; right; now left|].
      right. apply remove_nat_In. split; assumption.
  Qed.
End Life.

Section LifeSched.
  Variable extract : bytes -> bytes -> option sctx.
  Variable sampler : option sctx -> bool.
  Variable g : cfg.
  Variable calls : list call.

  (* every recording span belongs to the token of a call that is still running *)
  Definition LI (st : state) : Prop :=
    forall x, In x (s_live (st_sdk st)) ->
      exists k t p, lookup k (st_calls st) = Some (Running t) /\ tk_span t = Some (x, p).

  Lemma GI_whole s tr i err :
    GI s tr -> GI (fst (whole extract sampler g s i err)) (tr ++ snd (whole extract sampler g s i err)).
  Proof.
    intro H. unfold whole. pose proof (GI_start extract sampler g s tr i H) as H1.
    destruct (hook_start extract sampler g s i) as [[s1 t] e1]. cbn [fst snd] in H1.
    pose proof (GI_end g s1 (tr ++ e1) t i err H1) as H2.
    destruct (hook_end g s1 t i err) as [s2 e2]. cbn [fst snd] in *. now rewrite app_assoc.
  Qed.

  Lemma whole_live s i err x :
    In x (s_live (fst (whole extract sampler g s i err))) -> In x (s_live s).
  Proof.
    unfold whole. pose proof (start_live extract sampler g s i x) as H1.
    destruct (hook_start extract sampler g s i) as [[s1 t] e1]. cbn [fst snd] in H1.
    pose proof (end_live g s1 t i err x) as H2.
    destruct (hook_end g s1 t i err) as [s2 e2]. cbn [fst snd] in *.
    intro H. destruct (H2 H) as [A B]. destruct (H1 A) as [C | [p C]]; [exact C | now apply B in C].
  Qed.

  Lemma conts_life errs : forall s tr i,
    GI s tr ->
    GI (fst (run_conts extract sampler g s i errs)) (tr ++ concat (snd (run_conts extract sampler g s i errs)))
    /\ forall x, In x (s_live (fst (run_conts extract sampler g s i errs))) -> In x (s_live s).
  Proof.
    induction errs as [|e r IH]; intros s tr i H; cbn [run_conts].
    - cbn. rewrite app_nil_r. auto.
    - pose proof (GI_whole s tr i e H) as W. pose proof (whole_live s i e) as WL.
      destruct (whole extract sampler g s i e) as [s1 e1]. cbn [fst snd] in *.
      destruct (IH s1 (tr ++ e1) i W) as [A B].
      destruct (run_conts extract sampler g s1 i r) as [s2 e2]. cbn [fst snd concat] in *.
      rewrite app_assoc. split; [exact A | intros x Hx; apply WL, B, Hx].
  Qed.

  Lemma LI_keep st s' k v :
    LI st -> (forall x, In x (s_live s') -> In x (s_live (st_sdk st)) /\
                        forall t p, lookup k (st_calls st) = Some (Running t) -> tk_span t <> Some (x, p)) ->
    LI {| st_sdk := s'; st_calls := (k, v) :: st_calls st |}.
  Proof.
    intros H Hs x Hx. cbn [st_sdk st_calls] in *. destruct (Hs x Hx) as [A B].
    destruct (H x A) as (k' & t & p & Hl & Ht). exists k', t, p. split; [|exact Ht].
    cbn [lookup]. destruct (Nat.eqb k k') eqn:E; [|exact Hl].
    apply Nat.eqb_eq in E; subst k'. exfalso. exact (B t p Hl Ht).
  Qed.

  Lemma step_life st o tr :
    GI (st_sdk st) tr -> LI st ->
    GI (st_sdk (fst (step extract sampler g calls st o))) (tr ++ concat (snd (step extract sampler g calls st o)))
    /\ LI (fst (step extract sampler g calls st o)).
  Proof.
    intros HG HL. destruct o as [k|k]; cbn [step];
      (destruct (nth_error calls k) as [cl|]; [|cbn; rewrite app_nil_r; auto]).
    - destruct (lookup k (st_calls st)) as [v|] eqn:Hl; [cbn; rewrite app_nil_r; auto|].
      destruct (reaches_hook cl); cbn [negb].
      2:{ cbn [fst snd concat app st_sdk]. rewrite app_nil_r. split; [exact HG|].
          apply LI_keep; [exact HL|]. intros x Hx. split; [exact Hx|]. intros t p E. congruence. }
      destruct (enters_gate cl).
      + pose proof (GI_start extract sampler g (st_sdk st) tr (call_info cl) HG) as H1.
        pose proof (start_live extract sampler g (st_sdk st) (call_info cl)) as H2.
        destruct (hook_start extract sampler g (st_sdk st) (call_info cl)) as [[s1 t] e1]. cbn [fst snd concat st_sdk] in *.
        rewrite app_nil_r. split; [exact H1|].
        intros x Hx. cbn [st_sdk st_calls] in *. destruct (H2 x Hx) as [A | [p A]].
        * destruct (HL x A) as (k' & t' & p & Hk & Ht). exists k', t', p. split; [|exact Ht].
          cbn [lookup]. destruct (Nat.eqb k k') eqn:E; [|exact Hk]. apply Nat.eqb_eq in E; subst. congruence.
        * exists k, t, p. split; [|exact A]. cbn [lookup]. now rewrite Nat.eqb_refl.
      + pose proof (GI_whole (st_sdk st) tr (call_info cl) (call_err cl) HG) as H1.
        pose proof (whole_live (st_sdk st) (call_info cl) (call_err cl)) as H2.
        destruct (whole extract sampler g (st_sdk st) (call_info cl) (call_err cl)) as [s1 e1]. cbn [fst snd concat st_sdk] in *.
        rewrite app_nil_r. split; [exact H1|].
        apply LI_keep; [exact HL|]. intros x Hx. split; [apply H2, Hx|]. intros t p E. congruence.
    - destruct (lookup k (st_calls st)) as [[t|]|] eqn:Hl; try (cbn; rewrite app_nil_r; auto; fail).
      pose proof (GI_end g (st_sdk st) tr t (call_info cl) (call_err cl) HG) as H1.
      pose proof (end_live g (st_sdk st) t (call_info cl) (call_err cl)) as H2.
      destruct (hook_end g (st_sdk st) t (call_info cl) (call_err cl)) as [s1 e1]. cbn [fst snd] in *.
      destruct (conts_life (conts cl) s1 (tr ++ e1) (cont_info cl) H1) as [A B].
      destruct (run_conts extract sampler g s1 (cont_info cl) (conts cl)) as [s2 e2]. cbn [fst snd concat st_sdk] in *.
      rewrite app_assoc. split; [exact A|].
      apply LI_keep; [exact HL|]. intros x Hx. destruct (H2 x (B x Hx)) as [C D]. split; [exact C|].
      intros t' p E. rewrite Hl in E. inversion E; subst. apply D.
  Qed.

  Lemma run_life sched : forall st tr,
    GI (st_sdk st) tr -> LI st ->
    GI (st_sdk (fst (run extract sampler g calls st sched))) (tr ++ concat (snd (run extract sampler g calls st sched)))
    /\ LI (fst (run extract sampler g calls st sched)).
  Proof.
    induction sched as [|o r IH]; intros st tr HG HL; cbn [run].
    - cbn. rewrite app_nil_r. auto.
    - destruct (step_life st o tr HG HL) as [A B].
      destruct (step extract sampler g calls st o) as [st1 e]. cbn [fst snd] in *.
      destruct (IH st1 _ A B) as [C D].
      destruct (run extract sampler g calls st1 r) as [st2 es]. cbn [fst snd] in *.
      rewrite concat_app, app_assoc. auto.
  Qed.
End LifeSched.

(* ---- assembling -------------------------------------------------------------- *)
Lemma none_running_lookup tbl : forall seen,
  none_running seen tbl = true -> forall k, ~ In k seen -> lookup k tbl <> Some true.
Proof.
  induction tbl as [|[j r] tbl IH]; intros seen H k Hk; cbn [lookup]; [discriminate|].
  cbn [none_running] in H. apply andb_true_iff in H as [A B].
  destruct (Nat.eqb j k) eqn:E.
  - apply Nat.eqb_eq in E; subst j. apply orb_true_iff in A as [A | A].
    + exfalso. apply Hk. apply (proj1 (mem_n_In k seen)). exact A.
    + destruct r; [discriminate | discriminate].
  - apply (IH _ B). intros [-> | I]; [now rewrite Nat.eqb_refl in E | auto].
Qed.

Lemma nodup_n_of l : NoDup l -> nodup_n l = true.
Proof.
  induction 1 as [|x l Hx N IH]; cbn; [reflexivity|]. rewrite IH, andb_true_r.
  apply negb_true_iff. destruct (mem_n x l) eqn:E; [|reflexivity]. apply mem_n_In in E. contradiction.
Qed.

Lemma exported_refl l : list_eqb bev_eqb (exported_of l) (exported_of l) = true.
Proof.
  unfold exported_of. induction (ended_of l) as [|x r IH]; cbn; [reflexivity|]. now rewrite Z.eqb_refl, IH.
Qed.

Lemma GI_init : GI (st_sdk init_state) [].
Proof. constructor; cbn; try (intros x []); constructor. Qed.
Lemma LI_init : LI init_state.
Proof. intros x []. Qed.

(* the span life cycle over every schedule, for every sampler and propagator *)
Lemma life_all extract sampler g calls sched :
  let r := run extract sampler g calls init_state sched in
  let flat := concat (snd r) in
  NoDup (ended_of flat)
  /\ (forall x, In x (ended_of flat) -> In x (started_rec flat))
  /\ ((forall k t, lookup k (st_calls (fst r)) <> Some (Running t)) ->
      forall x, In x (started_rec flat) -> In x (ended_of flat)).
Proof.
  cbn zeta. destruct (run_life extract sampler g calls sched init_state [] GI_init LI_init) as [[N S L B C] HL].
  cbn [app] in *. repeat split; auto.
  intros NR x Hx. destruct (C x Hx) as [H | H]; [exact H|].
  destruct (HL x H) as (k & t & p & Hk & _). exfalso. exact (NR k t Hk).
Qed.

Lemma model_meets_spec : forall i, spec_ok i (model i) = true.
Proof.
  intro i. unfold spec_ok, model, run_input. cbn [o_segs o_exported].
  set (g := i_cfg i). set (smp := sampler_fn (g_sampler g)).
  assert (T0 : toks_ok g (i_calls i) (st_calls init_state)) by (intros k t H; discriminate).
  destruct (run_ok smp g (i_calls i) (i_sched i) init_state T0) as [A B].
  destruct (life_all (extract_fn (g_propagate g)) smp g (i_calls i) (i_sched i)) as (N & S & C).
  cbn zeta in N, S, C. cbn [init_state st_calls tbl_of map] in A, B.
  destruct (plan (i_calls i) [] (i_sched i)) as [tbl ps]. cbn [fst snd] in A, B.
  set (r := run (extract_fn (g_propagate g)) smp g (i_calls i) init_state (i_sched i)) in *.
  rewrite A, (nodup_n_of _ N), exported_refl. cbn [andb]. rewrite andb_true_r.
  apply andb_true_iff. split.
  - apply forallb_forall. intros x Hx. apply mem_n_In. auto.
  - destruct (none_running [] tbl) eqn:NR; [|reflexivity].
    apply forallb_forall. intros x Hx. apply mem_n_In. apply C; [|exact Hx].
    intros k t Hk. pose proof (none_running_lookup tbl [] NR k (fun F => F)) as Q.
    apply Q. rewrite B, lookup_tbl, Hk. reflexivity.
Qed.

(* ---- readable statements about single hook calls --------------------------- *)
Definition ev_status (e : bev) : option stcode := match e with BEnd _ st _ _ _ _ => Some st | _ => None end.

Lemma end_status g s t i err e :
  In e (snd (hook_end g s t i err)) -> is_end e = true ->
  (ev_status e = Some SError <-> err <> None) /\ (ev_status e = Some SOk <-> err = None).
Proof.
  unfold hook_end. destruct (end_span g s t err) as [s' sp] eqn:E. cbn [snd].
  pose proof (end_span_shape g s t err) as Sh. rewrite E in Sh. cbn [snd] in Sh.
  intros H He. apply in_app_or in H as [H | H].
  - destruct Sh as [-> | (sid & p & _ & ->)]; [destruct H|]. destruct H as [<- | []].
    destruct err; cbn; split; split; intro Q; try discriminate; try reflexivity; try congruence.
  - unfold end_metrics in H. destruct (g_metrics g); [|destruct H].
    destruct H as [<- | [<- | []]]; discriminate.
Qed.

Lemma end_metrics_exact g s t i err :
  filter is_metric (snd (hook_end g s t i err)) =
  if g_metrics g then [BCount (n_method i) (n_mtype i) (status_label err) 1%Z;
                       BHist (n_method i) (n_mtype i) (status_label err) 1%Z] else [].
Proof.
  unfold hook_end. destruct (end_span g s t err) as [s' sp] eqn:E. cbn [snd].
  pose proof (end_span_shape g s t err) as Sh. rewrite E in Sh. cbn [snd] in Sh.
  rewrite filter_app. destruct (metrics_filters g i err) as (_ & _ & ->).
  destruct Sh as [-> | (sid & p & _ & ->)]; [reflexivity|]. destruct err; reflexivity.
Qed.

Lemma second_end_silent g s t i err i' err' :
  filter is_end (snd (hook_end g (fst (hook_end g s t i err)) t i' err')) = [].
Proof.
  assert (L : forall sid p, tk_span t = Some (sid, p) -> mem_nat sid (s_live (fst (hook_end g s t i err))) = false).
  { intros sid p Ht. destruct (mem_nat sid (s_live (fst (hook_end g s t i err)))) eqn:Mm; [|reflexivity].
    apply mem_nat_In in Mm. apply end_live in Mm as [_ D]. exfalso. exact (D p Ht). }
  generalize dependent (fst (hook_end g s t i err)). intros s1 L.
  unfold hook_end, end_span. destruct (metrics_filters g i' err') as (_ & M & _).
  destruct (tk_span t) as [[sid p]|]; [rewrite (L sid p eq_refl)|]; cbn [snd app]; exact M.
Qed.

(* a valid caller traceparent wins over WHATEVER span is current in the dispatch context *)
Lemma start_parent_w3c sampler g s i tr sp fl :
  g_tracing g = true -> g_propagate g = true -> n_tp i = tp00 tr sp fl ->
  part_ok 32 tr = true -> part_ok 16 sp = true -> part_ok 2 fl = true ->
  (flags_val fl <=? 3) = true -> all_zero tr = false -> all_zero sp = false ->
  snd (hook_start (extract_fn (g_propagate g)) sampler g s i) =
  [BStart (s_next s)
          (sampler (Some {| x_trace := tr; x_span := sp; x_sampled := N.odd (flags_val fl);
                            x_remote := true; x_tstate := n_ts i |}))
          (span_name i) true
          (Some {| op_trace := tr; op_span := sp; op_same := true; op_remote := true; op_tstate := n_ts i |})].
Proof.
  intros T P E H1 H2 H3 H4 H5 H6. unfold hook_start, extract_fn. rewrite T, P, E. cbn [negb snd].
  now rewrite (parse_tp00 tr sp fl H1 H2 H3 H4 H5 H6).
Qed.

(* no (valid) traceparent: the span stays under the ambient span context, a root span when there is none *)
Lemma start_ambient sampler g s i :
  g_tracing g = true -> extract_fn (g_propagate g) (n_tp i) (n_ts i) = None ->
  snd (hook_start (extract_fn (g_propagate g)) sampler g s i) =
  [BStart (s_next s) (sampler (n_amb i)) (span_name i) true (option_map opar_of (n_amb i))].
Proof. intros T E. unfold hook_start. rewrite T, E. reflexivity. Qed.

Lemma absent_tp_is_none b ts : extract_fn b [] ts = None.
Proof. destruct b; reflexivity. Qed.

Lemma tracing_off_silent extract sampler g s i t err :
  g_tracing g = false ->
  hook_start extract sampler g s i = (s, {| tk_span := None |}, [])
  /\ (tk_span t = None -> fst (hook_end g s t i err) = s /\ filter is_end (snd (hook_end g s t i err)) = []).
Proof.
  intro T. unfold hook_start, hook_end, end_span. rewrite T. split; [reflexivity|]. intros ->. cbn.
  destruct (metrics_filters g i err) as (_ & M & _). auto.
Qed.

Lemma nonrecording_never_ended g s sid p i err :
  mem_nat sid (s_live s) = false ->
  fst (hook_end g s {| tk_span := Some (sid, p) |} i err) = s
  /\ filter is_end (snd (hook_end g s {| tk_span := Some (sid, p) |} i err)) = [].
Proof.
  intro M. unfold hook_end, end_span. cbn [tk_span]. rewrite M. cbn.
  destruct (metrics_filters g i err) as (_ & Q & _). auto.
Qed.
