(* Proofs/C07.v — lemmas for parameter binding behind the schema-equality gate. *)
From VR Require Import Model.C07.
From Coq Require Import ZifyBool ZifyN ZifyNat.
Open Scope N_scope.
Local Arguments N.eqb : simpl never.
Local Arguments Z.eqb : simpl never.

(* ================================================================ A. schema_eqb decides equality *)
Lemma tunit_eqb_eq a b : tunit_eqb a b = true <-> a = b.
Proof. destruct a, b; cbn; split; intro H; try discriminate; reflexivity. Qed.
Lemma iw_eqb_eq a b : iw_eqb a b = true <-> a = b.
Proof. destruct a, b; cbn; split; intro H; try discriminate; reflexivity. Qed.
Lemma fw_eqb_eq a b : fw_eqb a b = true <-> a = b.
Proof. destruct a, b; cbn; split; intro H; try discriminate; reflexivity. Qed.
Lemma booleqb_eq a b : Bool.eqb a b = true <-> a = b.
Proof. destruct a, b; cbn; split; intro H; try discriminate; reflexivity. Qed.

Lemma pair_bb_eq (x y : bytes * bytes) : pair_eqb beqb beqb x y = true <-> x = y.
Proof.
  destruct x as [a b], y as [c d]; unfold pair_eqb; cbn. rewrite andb_true_iff, !beqb_eq.
  split; [intros [-> ->]; reflexivity | intro H; inversion H; auto].
Qed.
Lemma meta_eqb_eq a b : meta_eqb a b = true <-> a = b.
Proof. apply list_eqb_eq. exact pair_bb_eq. Qed.

Ltac split_andb :=
  repeat match goal with H : _ && _ = true |- _ => apply andb_true_iff in H as [? ?] end.
Ltac eqb_to_eq :=
  repeat match goal with
  | H : Bool.eqb ?a ?b = true |- _ => apply (proj1 (booleqb_eq a b)) in H
  | H : iw_eqb ?a ?b = true |- _ => apply (proj1 (iw_eqb_eq a b)) in H
  | H : fw_eqb ?a ?b = true |- _ => apply (proj1 (fw_eqb_eq a b)) in H
  | H : tunit_eqb ?a ?b = true |- _ => apply (proj1 (tunit_eqb_eq a b)) in H
  | H : N.eqb ?a ?b = true |- _ => apply (proj1 (N.eqb_eq a b)) in H
  | H : Z.eqb ?a ?b = true |- _ => apply (proj1 (Z.eqb_eq a b)) in H
  | H : beqb ?a ?b = true |- _ => apply (proj1 (beqb_eq a b)) in H
  | H : meta_eqb ?a ?b = true |- _ => apply (proj1 (meta_eqb_eq a b)) in H
  end.

Lemma prim_eqb_refl a : prim_eqb a a = true.
Proof.
  destruct a; cbn; try reflexivity;
    repeat (apply andb_true_iff; split);
    try (apply booleqb_eq; reflexivity); try (apply iw_eqb_eq; reflexivity);
    try (apply fw_eqb_eq; reflexivity); try (apply tunit_eqb_eq; reflexivity);
    try apply N.eqb_refl; try apply Z.eqb_refl; try apply beqb_refl.
Qed.

Lemma prim_eqb_eq a b : prim_eqb a b = true <-> a = b.
Proof.
  split; [| intros <-; apply prim_eqb_refl].
  destruct a, b; cbn; intro H; try discriminate; try reflexivity;
    split_andb; eqb_to_eq; subst; reflexivity.
Qed.

Scheme ty_mut := Induction for ty Sort Prop
  with fields_mut := Induction for fields Sort Prop.
Combined Scheme ty_fields_ind from ty_mut, fields_mut.

Lemma eqb_refl_both : (forall a, ty_eqb a a = true) /\ (forall f, fields_eqb f f = true).
Proof.
  apply ty_fields_ind; cbn; intros.
  - apply prim_eqb_refl.
  - rewrite H, H0. cbn. apply booleqb_eq; reflexivity.
  - rewrite H. cbn. apply andb_true_iff; split; [apply meta_eqb_eq | apply booleqb_eq]; reflexivity.
  - rewrite H, H0. cbn. apply booleqb_eq; reflexivity.
  - exact H.
  - reflexivity.
  - rewrite beqb_refl, H, H0. cbn.
    replace (Bool.eqb nullable nullable) with true by (symmetry; apply booleqb_eq; reflexivity).
    cbn. replace (meta_eqb m m) with true by (symmetry; apply meta_eqb_eq; reflexivity). reflexivity.
Qed.

Lemma eqb_sound_both :
  (forall a b, ty_eqb a b = true -> a = b) /\ (forall f g, fields_eqb f g = true -> f = g).
Proof.
  apply ty_fields_ind.
  - intros p b H. destruct b; cbn in H; try discriminate. apply prim_eqb_eq in H. now subst.
  - intros i IHi v IHv o b H. destruct b; cbn in H; try discriminate. split_andb; eqb_to_eq.
    f_equal; [now apply IHi | now apply IHv | assumption].
  - intros e IHe n m b H. destruct b; cbn in H; try discriminate. split_andb; eqb_to_eq.
    f_equal; [now apply IHe | assumption | assumption].
  - intros k IHk v IHv n b H. destruct b; cbn in H; try discriminate. split_andb; eqb_to_eq.
    f_equal; [now apply IHk | now apply IHv | assumption].
  - intros fs IH b H. destruct b; cbn in H; try discriminate. f_equal. now apply IH.
  - intros g H. destruct g; cbn in H; [reflexivity | discriminate].
  - intros n t IHt u m r IHr g H. destruct g; cbn in H; try discriminate. split_andb; eqb_to_eq.
    f_equal; [assumption | now apply IHt | assumption | assumption | now apply IHr].
Qed.

Lemma ty_eqb_eq a b : ty_eqb a b = true <-> a = b.
Proof. split; [apply eqb_sound_both | intros <-; apply eqb_refl_both]. Qed.

Lemma schema_eqb_eq a b : schema_eqb a b = true <-> a = b.
Proof. unfold schema_eqb. split; [apply eqb_sound_both | intros <-; apply eqb_refl_both]. Qed.

Lemma schema_eqb_neq a b : schema_eqb a b = false <-> a <> b.
Proof.
  split; intro H.
  - intro E. apply schema_eqb_eq in E. congruence.
  - destruct (schema_eqb a b) eqn:E; [apply schema_eqb_eq in E; contradiction | reflexivity].
Qed.

Lemma schema_eqb_refl a : schema_eqb a a = true.
Proof. now apply schema_eqb_eq. Qed.
Lemma schema_eqb_sym a b : schema_eqb a b = schema_eqb b a.
Proof.
  destruct (schema_eqb a b) eqn:E, (schema_eqb b a) eqn:F; try reflexivity.
  - apply schema_eqb_eq in E. subst. now rewrite schema_eqb_refl in F.
  - apply schema_eqb_eq in F. subst. now rewrite schema_eqb_refl in E.
Qed.
Lemma schema_eqb_trans a b c : schema_eqb a b = true -> schema_eqb b c = true -> schema_eqb a c = true.
Proof. rewrite !schema_eqb_eq. congruence. Qed.

(* ================================================================ B. the derived schema *)
Lemma derive_names ds declared : derive ds = Some declared -> fnames declared = map d_name ds.
Proof.
  revert declared; induction ds as [|d r IH]; intros declared H; cbn in H.
  - inversion H; reflexivity.
  - destruct (derive_ty (d_go d) (d_over d)); [|discriminate]. destruct (derive r); [|discriminate].
    inversion H; subst; cbn. f_equal. now apply IH.
Qed.

Lemma derive_len ds declared : derive ds = Some declared -> flen declared = length ds.
Proof.
  revert declared; induction ds as [|d r IH]; intros declared H; cbn in H.
  - inversion H; reflexivity.
  - destruct (derive_ty (d_go d) (d_over d)); [|discriminate]. destruct (derive r); [|discriminate].
    inversion H; subst; cbn. f_equal. now apply IH.
Qed.

Lemma ftypes_len f : length (ftypes f) = flen f.
Proof. induction f; cbn; congruence. Qed.

(* ================================================================ C. the field loop is positional behind the gate *)
Fixpoint bind_zip (ad : cfg) (ds : list dfield) (ts : list ty) (vs : list val)
  : outcome * list val :=
  match ds with
  | [] => (Ran, [])
  | d :: r =>
      match bind_field ad d (hd (TPrim PNull) ts) (hd VNull vs) with
      | BErr => (TypeErr, [])
      | BCrash => (Crash, [])
      | BOk x => match bind_zip ad r (tl ts) (tl vs) with
                 | (Ran, xs) => (Ran, x :: xs)
                 | other => other
                 end
      end
  end.

Lemma nth_hd_skipn {A} (l : list A) n d : nth n l d = hd d (skipn n l).
Proof. revert l; induction n as [|n IH]; intros [|x l]; cbn; try reflexivity. apply IH. Qed.
Lemma skipn_S_tl {A} (l : list A) n : skipn (S n) l = tl (skipn n l).
Proof. revert l; induction n as [|n IH]; intros [|x l]; try reflexivity. exact (IH l). Qed.
Lemma nth_error_hd_skipn {A} (l : list A) n x r : skipn n l = x :: r -> nth_error l n = Some x.
Proof.
  revert l; induction n as [|n IH]; intros [|y l] H; cbn in *; try discriminate.
  - now inversion H.
  - now apply IH.
Qed.

(* resolveColumn takes the ordinal fast path whenever the name at that ordinal matches *)
Lemma resolve_positional names ord name :
  nth_error names ord = Some name -> resolve names ord name = Some ord.
Proof. intro H. unfold resolve. rewrite H, beqb_refl. reflexivity. Qed.

Lemma bind_loop_positional ad ds : forall ord names tys vs,
  skipn ord names = map d_name ds ->
  bind_loop ad ds ord names tys vs = bind_zip ad ds (skipn ord tys) (skipn ord vs).
Proof.
  induction ds as [|d r IH]; intros ord names tys vs H; [reflexivity|].
  cbn [bind_loop bind_zip]. cbn [map] in H.
  rewrite (resolve_positional names ord (d_name d)) by (eapply nth_error_hd_skipn; exact H).
  rewrite <- !nth_hd_skipn.
  destruct (bind_field ad d (nth ord tys (TPrim PNull)) (nth ord vs VNull)); try reflexivity.
  rewrite IH by (rewrite skipn_S_tl, H; reflexivity).
  rewrite !skipn_S_tl. reflexivity.
Qed.

(* what a successful loop returns, cell by cell *)
Lemma bind_zip_ran ad ds : forall ts vs xs,
  bind_zip ad ds ts vs = (Ran, xs) ->
  length xs = length ds /\
  forall j d, nth_error ds j = Some d ->
    exists x, nth_error xs j = Some x /\
              bind_field ad d (nth j ts (TPrim PNull)) (nth j vs VNull) = BOk x.
Proof.
  induction ds as [|d r IH]; intros ts vs xs H; cbn [bind_zip] in H.
  - inversion H; subst. split; [reflexivity|]. intros [|j] d' E; discriminate.
  - destruct (bind_field ad d (hd (TPrim PNull) ts) (hd VNull vs)) as [x| |] eqn:Ef; try discriminate.
    destruct (bind_zip ad r (tl ts) (tl vs)) as [[| |] ys] eqn:Er; try discriminate.
    inversion H; subst. destruct (IH _ _ _ Er) as [Hl Hc]. split; [cbn; congruence|].
    intros [|j] d' E; cbn in E.
    + inversion E; subst. exists x. split; [reflexivity|].
      destruct ts, vs; exact Ef.
    + destruct (Hc j d' E) as [y [Hy Hb]]. exists y. split; [exact Hy|].
      destruct ts, vs; cbn in *; try exact Hb; destruct j; exact Hb.
Qed.

Lemma bind_zip_outcome_trace ad ds ts vs :
  (fst (bind_zip ad ds ts vs) = Ran \/ snd (bind_zip ad ds ts vs) = []).
Proof.
  revert ts vs; induction ds as [|d r IH]; intros ts vs; cbn [bind_zip]; [left; reflexivity|].
  destruct (bind_field ad d (hd (TPrim PNull) ts) (hd VNull vs)); try (right; reflexivity).
  destruct (bind_zip ad r (tl ts) (tl vs)) as [[| |] ys] eqn:Er; cbn.
  - left; reflexivity.
  - specialize (IH (tl ts) (tl vs)). rewrite Er in IH. cbn in IH. destruct IH; [discriminate | right; assumption].
  - specialize (IH (tl ts) (tl vs)). rewrite Er in IH. cbn in IH. destruct IH; [discriminate | right; assumption].
Qed.

(* ================================================================ D. the gate *)
Definition field_holds (d : dfield) (t : ty) (v x : val) : Prop :=
  (is_null v = false -> conv_field true d t v = Some x) /\
  (is_null v = true -> forall s, d_default d = Some s -> default_literal (d_go d) s = Some x) /\
  (is_null v = true -> d_default d = None -> x = zero_of d).

Lemma bind_field_ok d t v x : bind_field current d t v = BOk x -> field_holds d t v x.
Proof.
  unfold bind_field, field_holds. cbn [current cfg_default cfg_ptrmap]. unfold apply_default.
  destruct (is_null v) eqn:En.
  - destruct (d_default d) as [s|] eqn:Ed.
    + destruct (default_literal (d_go d) s) as [y|] eqn:El; intro H; inversion H; subst.
      split; [discriminate|]. split; [|discriminate]. intros _ s' E'. inversion E'; subst. exact El.
    + intro H; inversion H; subst. split; [discriminate|]. split; [intros _ s' E'; discriminate|].
      intros _ _. reflexivity.
  - destruct (conv_field true d t v) as [y|] eqn:Ec; intro H; inversion H; subst.
    split; [intros _; reflexivity|]. split; discriminate.
Qed.

Definition ran (o : obs) : Prop := o_outcome o = Ran.

Lemma deserialize_shape ad ds declared b oc xs :
  deserialize ad ds declared b = (oc, xs) -> derive ds = Some declared ->
  match unwrap b with
  | EErr => oc = Crash /\ xs = []
  | EBatch fs vs =>
      if schema_eqb fs declared then (oc, xs) = bind_zip ad ds (ftypes fs) vs
      else oc = TypeErr /\ xs = []
  end.
Proof.
  unfold deserialize. intros H Hd. destruct (unwrap b) as [|fs vs].
  - inversion H; auto.
  - destruct (schema_eqb fs declared) eqn:E.
    + apply schema_eqb_eq in E. subst fs.
      rewrite bind_loop_positional in H by (cbn; now apply derive_names). cbn in H. now rewrite H.
    + inversion H; auto.
Qed.

Lemma model_with_unfold ad i declared :
  derive (i_decl i) = Some declared ->
  model_with ad i =
    match deserialize ad (i_decl i) declared (i_sent i) with
    | (Ran, xs) => {| o_reg := true; o_declared := declared; o_outcome := Ran; o_trace := [xs] |}
    | (oc, _) => {| o_reg := true; o_declared := declared; o_outcome := oc; o_trace := [] |}
    end.
Proof. intro H. unfold model_with. rewrite H. reflexivity. Qed.

(* the handler runs only behind an equal schema — unconditionally *)
Lemma runs_only_if_equal ad i :
  ran (model_with ad i) ->
  exists declared vs, derive (i_decl i) = Some declared /\ unwrap (i_sent i) = EBatch declared vs.
Proof.
  unfold ran. destruct (derive (i_decl i)) as [declared|] eqn:Hd.
  - rewrite (model_with_unfold ad i declared Hd).
    destruct (deserialize ad (i_decl i) declared (i_sent i)) as [oc xs] eqn:Hs.
    pose proof (deserialize_shape _ _ _ _ _ _ Hs Hd) as Sh.
    destruct oc; cbn; intro R; try discriminate.
    destruct (unwrap (i_sent i)) as [|fs vs]; [destruct Sh; discriminate|].
    destruct (schema_eqb fs declared) eqn:E; [|destruct Sh; discriminate].
    apply schema_eqb_eq in E. subst. eauto.
  - unfold model_with. rewrite Hd. cbn. discriminate.
Qed.

(* every cell of an equal batch binds *)
Definition cells_bind (ad : cfg) (ds : list dfield) (ts : list ty) (vs : list val) : Prop :=
  fst (bind_zip ad ds ts vs) = Ran.

Lemma runs_iff ad i declared :
  derive (i_decl i) = Some declared ->
  (ran (model_with ad i) <->
   exists vs, unwrap (i_sent i) = EBatch declared vs /\ cells_bind ad (i_decl i) (ftypes declared) vs).
Proof.
  intro Hd. split.
  - intro R. destruct (runs_only_if_equal ad i R) as (dc & vs & Hd' & Hu).
    rewrite Hd in Hd'. inversion Hd'; subst dc. exists vs. split; [exact Hu|].
    unfold ran in R. rewrite (model_with_unfold ad i declared Hd) in R.
    destruct (deserialize ad (i_decl i) declared (i_sent i)) as [oc xs] eqn:Hs.
    pose proof (deserialize_shape _ _ _ _ _ _ Hs Hd) as Sh. rewrite Hu, schema_eqb_refl in Sh.
    unfold cells_bind. rewrite <- Sh. destruct oc; cbn in R; try discriminate. reflexivity.
  - intros (vs & Hu & Hc). unfold ran. rewrite (model_with_unfold ad i declared Hd).
    unfold deserialize. rewrite Hu, schema_eqb_refl.
    rewrite bind_loop_positional by (cbn; now apply derive_names). cbn [skipn].
    unfold cells_bind in Hc. destruct (bind_zip ad (i_decl i) (ftypes declared) vs) as [oc xs].
    cbn in Hc. subst oc. reflexivity.
Qed.

(* any other shape: TypeError, and the handler trace is empty *)
Lemma mismatch_typeerror ad i declared fs vs :
  derive (i_decl i) = Some declared -> unwrap (i_sent i) = EBatch fs vs -> fs <> declared ->
  o_outcome (model_with ad i) = TypeErr /\ o_trace (model_with ad i) = [].
Proof.
  intros Hd Hu Hne. rewrite (model_with_unfold ad i declared Hd). unfold deserialize. rewrite Hu.
  apply schema_eqb_neq in Hne. rewrite Hne. cbn. auto.
Qed.

Lemma unreadable_rejected ad i declared :
  derive (i_decl i) = Some declared -> unwrap (i_sent i) = EErr ->
  o_outcome (model_with ad i) <> Ran /\ o_trace (model_with ad i) = [].
Proof.
  intros Hd Hu. rewrite (model_with_unfold ad i declared Hd). unfold deserialize. rewrite Hu. cbn.
  split; [discriminate | reflexivity].
Qed.

Lemma trace_iff_ran ad i :
  (ran (model_with ad i) -> exists xs, o_trace (model_with ad i) = [xs]) /\
  (~ ran (model_with ad i) -> o_trace (model_with ad i) = []).
Proof.
  unfold ran, model_with. destruct (derive (i_decl i)) as [dc|]; cbn.
  - destruct (deserialize ad (i_decl i) dc (i_sent i)) as [[| |] xs]; cbn; split; intro H;
      try discriminate; try reflexivity; try (eexists; reflexivity). exfalso; apply H; reflexivity.
  - split; [discriminate | reflexivity].
Qed.

(* when it runs, each field holds the value sent / its default / its zero *)
Lemma bound_exact i xs :
  o_trace (model i) = [xs] ->
  exists declared vs,
    derive (i_decl i) = Some declared /\ unwrap (i_sent i) = EBatch declared vs /\
    length xs = length (i_decl i) /\
    forall j d, nth_error (i_decl i) j = Some d ->
      exists x, nth_error xs j = Some x /\
                field_holds d (nth j (ftypes declared) (TPrim PNull)) (nth j vs VNull) x.
Proof.
  intro Ht. assert (R : ran (model i)).
  { destruct (trace_iff_ran current i) as [_ Hn]. unfold ran.
    destruct (o_outcome (model i)) eqn:E; try reflexivity; unfold model in *;
      rewrite Hn in Ht by (unfold ran; rewrite E; discriminate); discriminate. }
  destruct (runs_only_if_equal _ i R) as (declared & vs & Hd & Hu). exists declared, vs.
  repeat split; try assumption;
    unfold model in Ht; rewrite (model_with_unfold _ i declared Hd) in Ht;
    unfold deserialize in Ht; rewrite Hu, schema_eqb_refl in Ht;
    rewrite bind_loop_positional in Ht by (cbn; now apply derive_names); cbn [skipn] in Ht;
    destruct (bind_zip current (i_decl i) (ftypes declared) vs) as [[| |] ys] eqn:Eb; cbn in Ht; try discriminate;
    inversion Ht; subst ys; destruct (bind_zip_ran _ _ _ _ _ Eb) as [Hl Hc].
  - exact Hl.
  - intros j d E. destruct (Hc j d E) as [x [Hx Hb]]. exists x. split; [exact Hx|]. now apply bind_field_ok.
Qed.

(* ================================================================ E. when do the cells bind: static facts *)
Lemma conv_prim_defined_indep k p v v' :
  (exists x, conv_prim k p v = Some x) -> exists x', conv_prim k p v' = Some x'.
Proof.
  intros [x H]. destruct p as [| |s w|[| |]| | | | |n| | |u z|u|u|u|pp ss]; cbn in *; try discriminate;
    destruct k; cbn in *; try discriminate; eauto.
Qed.

(* a leaf field with no type override always fits the column derived from it *)
Lemma natural_leaf_binds k t v : leaf_ty k = Some t -> exists x, conv_leaf k t v = Some x.
Proof. destruct k; cbn; intro H; inversion H; subst; cbn; eauto. Qed.

(* ================================================================ F. the decidable form *)
Lemma bind_vs_expect d t v :
  match expect_field d t v with
  | Some x => bind_field current d t v = BOk x
  | None => bind_field current d t v = BErr \/ bind_field current d t v = BCrash
  end.
Proof.
  unfold expect_field, bind_field. cbn [current cfg_default cfg_ptrmap].
  unfold apply_default, conv_field. cbn [negb]. rewrite andb_false_r.
  destruct (is_null v).
  - destruct (d_default d) as [s|]; [|reflexivity]. destruct (default_literal (d_go d) s); auto.
  - destruct (conv (d_go d) t v); auto.
Qed.

Lemma bind_zip_vs_expect ds : forall ts vs,
  length ts = length ds -> length vs = length ds ->
  match expect_all (zip3 ds ts vs) with
  | Some xs => bind_zip current ds ts vs = (Ran, xs)
  | None => fst (bind_zip current ds ts vs) <> Ran /\ snd (bind_zip current ds ts vs) = []
  end.
Proof.
  induction ds as [|d r IH]; intros ts vs Ht Hv.
  - destruct ts, vs; try discriminate. reflexivity.
  - destruct ts as [|t ts]; [discriminate|]. destruct vs as [|v vs]; [discriminate|].
    cbn [zip3 expect_all bind_zip hd tl].
    pose proof (bind_vs_expect d t v) as Hf.
    specialize (IH ts vs ltac:(cbn in Ht; lia) ltac:(cbn in Hv; lia)).
    destruct (expect_field d t v) as [x|].
    + rewrite Hf. destruct (expect_all (zip3 r ts vs)) as [xs|].
      * rewrite IH. reflexivity.
      * destruct IH as [I1 I2]. destruct (bind_zip current r ts vs) as [[| |] ys]; cbn in *;
          try (exfalso; apply I1; reflexivity); subst; split; try discriminate; reflexivity.
    + destruct Hf as [Hf|Hf]; rewrite Hf; cbn; split; try discriminate; reflexivity.
Qed.

Lemma lvl_refl xs : list_eqb (list_eqb val_eqb) xs xs = true.
Proof.
  assert (V : forall v, val_eqb v v = true).
  { fix IH 1. intros [|z|b|s|l|i d]; cbn; try reflexivity.
    - apply Z.eqb_refl. - apply booleqb_eq; reflexivity. - apply beqb_refl.
    - induction l as [|a l IHl]; [reflexivity|]. rewrite IH. cbn. exact IHl.
    - rewrite Z.eqb_refl. cbn. induction d as [|a d IHd]; cbn; [reflexivity|]. now rewrite beqb_refl. }
  assert (L : forall l, list_eqb val_eqb l l = true).
  { induction l as [|a l IHl]; cbn; [reflexivity|]. now rewrite V, IHl. }
  induction xs as [|a l IHl]; cbn; [reflexivity|]. now rewrite L, IHl.
Qed.

Lemma spec_on_model i : spec_ok i (model i) = true.
Proof.
  unfold spec_ok. destruct (derive (i_decl i)) as [declared|] eqn:Hd.
  2:{ unfold model, model_with. rewrite Hd. reflexivity. }
  unfold model. rewrite (model_with_unfold _ i declared Hd).
  assert (Reg : forall p, o_reg (match p with
            | (Ran, xs) => {| o_reg := true; o_declared := declared; o_outcome := Ran; o_trace := [xs] |}
            | (oc, _) => {| o_reg := true; o_declared := declared; o_outcome := oc; o_trace := [] |} end) = true)
    by (intros [[| |] ?]; reflexivity).
  assert (Dec : forall p, o_declared (match p with
            | (Ran, xs) => {| o_reg := true; o_declared := declared; o_outcome := Ran; o_trace := [xs] |}
            | (oc, _) => {| o_reg := true; o_declared := declared; o_outcome := oc; o_trace := [] |} end) = declared)
    by (intros [[| |] ?]; reflexivity).
  rewrite Reg, Dec. cbn [negb]. unfold deserialize.
  destruct (unwrap (i_sent i)) as [|fs vs]; [reflexivity|].
  destruct (schema_eqb fs declared) eqn:E; [|reflexivity].
  apply schema_eqb_eq in E. subst fs.
  rewrite bind_loop_positional by (cbn; now apply derive_names). cbn [skipn].
  destruct (Nat.eqb (length vs) (flen declared)) eqn:El; [|reflexivity].
  apply Nat.eqb_eq in El.
  pose proof (bind_zip_vs_expect (i_decl i) (ftypes declared) vs
                ltac:(rewrite ftypes_len; now apply derive_len)
                ltac:(rewrite El; now apply derive_len)) as Hz.
  destruct (expect_all (zip3 (i_decl i) (ftypes declared) vs)) as [xs|].
  - rewrite Hz. cbn [o_outcome o_trace outcome_eqb andb]. apply lvl_refl.
  - destruct Hz as [Z1 Z2].
    destruct (bind_zip current (i_decl i) (ftypes declared) vs) as [[| |] ys]; cbn in *;
      try (exfalso; apply Z1; reflexivity); reflexivity.
Qed.

(* ================================================================ G. witnesses *)
Definition df (n : bytes) (g : gty) (ptr nl : bool) (dflt : option bytes) : dfield :=
  {| d_name := n; d_go := g; d_ptr := ptr; d_over := ONone; d_nullable := nl; d_default := dflt |}.

(* struct{A *string `vgirpc:"a,default=dd"`} with a: utf8 nullable = [null] *)
Definition w_ptr_default : input :=
  {| i_decl := [df (str "a") (GLeaf KString) true false (Some (str "dd"))];
     i_sent := Plain (FCons (str "a") (TPrim PUtf8) true [] FNil) [VNull] |}.
(* struct{A int32 `vgirpc:"a,nullable,default=5"`} with a: int32 nullable = [null] *)
Definition w_int32_default : input :=
  {| i_decl := [df (str "a") (GLeaf KInt32) false true (Some (str "5"))];
     i_sent := Plain (FCons (str "a") (TPrim (PInt true W32)) true [] FNil) [VNull] |}.
(* struct{V *map[string]float64 `vgirpc:"v"`} with v: map<utf8,float64> nullable = [{}] *)
Definition w_ptr_map : input :=
  {| i_decl := [df (str "v") (GMap KString KFloat64) true false None];
     i_sent := Plain (FCons (str "v") (TMap (TPrim PUtf8) (TPrim (PFloat F64)) true) true [] FNil) [VL []] |}.

(* before c81cf36: a null with a declared default did not yield the default
   for a pointer field (the setter panicked) nor for a sized numeric field
   (refused); the repaired code yields it in both cases *)
Lemma legacy_defaults_refuted :
  (spec_ok w_ptr_default (model_legacy_defaults w_ptr_default) = false /\
   o_outcome (model_legacy_defaults w_ptr_default) = Crash /\ o_trace (model w_ptr_default) = [[VS (str "dd")]]) /\
  (spec_ok w_int32_default (model_legacy_defaults w_int32_default) = false /\
   o_outcome (model_legacy_defaults w_int32_default) = TypeErr /\ o_trace (model w_int32_default) = [[VI 5]]).
Proof. vm_compute. repeat split; reflexivity. Qed.

(* before 099ce14: an equal schema with a non-null pointer-to-map cell was
   refused; the repaired code runs the handler with the (empty) map *)
Lemma legacy_ptr_map_refuted :
  spec_ok w_ptr_map (model_legacy_ptrmap w_ptr_map) = false /\
  o_outcome (model_legacy_ptrmap w_ptr_map) = Crash /\
  o_outcome (model w_ptr_map) = Ran /\ o_trace (model w_ptr_map) = [[VL []]].
Proof. vm_compute. repeat split; reflexivity. Qed.

Lemma schema_eqb_equiv :
  (forall a, schema_eqb a a = true) /\
  (forall a b, schema_eqb a b = schema_eqb b a) /\
  (forall a b c, schema_eqb a b = true -> schema_eqb b c = true -> schema_eqb a c = true).
Proof. exact (conj schema_eqb_refl (conj schema_eqb_sym schema_eqb_trans)). Qed.

Lemma bound_exact_conv : forall i xs,
  o_trace (model i) = [xs] ->
  exists declared vs,
    derive (i_decl i) = Some declared /\ unwrap (i_sent i) = EBatch declared vs /\
    length xs = length (i_decl i) /\
    forall j d, nth_error (i_decl i) j = Some d ->
      exists x, nth_error xs j = Some x /\
        let t := nth j (ftypes declared) (TPrim PNull) in
        let v := nth j vs VNull in
        (is_null v = false -> conv (d_go d) t v = Some x) /\
        (is_null v = true -> forall s, d_default d = Some s -> default_literal (d_go d) s = Some x) /\
        (is_null v = true -> d_default d = None -> x = zero_of d).
Proof.
  intros i xs H. destruct (bound_exact i xs H) as (dc & vs & A & B & C & D).
  exists dc, vs. repeat split; try assumption. intros j d E. destruct (D j d E) as (x & X & F1 & F2 & F3).
  exists x. split; [exact X|]. cbn. repeat split; try assumption.
  intro N. specialize (F1 N). unfold conv_field in F1. cbn [negb] in F1. now rewrite Bool.andb_false_r in F1.
Qed.
Lemma null_default_legacy_wit :
  exists i, spec_ok i (model_legacy_defaults i) = false /\ o_outcome (model_legacy_defaults i) <> Ran /\
            exists x, o_trace (model i) = [[x]].
Proof.
  exists w_ptr_default. destruct legacy_defaults_refuted as [[A [B C]] _].
  split; [exact A|]. split; [rewrite B; discriminate|]. eexists; exact C.
Qed.
Lemma sized_default_legacy_wit :
  exists i, spec_ok i (model_legacy_defaults i) = false /\ o_outcome (model_legacy_defaults i) = TypeErr /\
            o_trace (model i) = [[VI 5]].
Proof. exists w_int32_default. exact (proj2 legacy_defaults_refuted). Qed.
Lemma ptr_map_legacy_wit :
  exists i, spec_ok i (model_legacy_ptrmap i) = false /\ o_outcome (model_legacy_ptrmap i) <> Ran /\
            o_outcome (model i) = Ran.
Proof.
  exists w_ptr_map. destruct legacy_ptr_map_refuted as (A & B & C & _).
  split; [exact A|]. split; [rewrite B; discriminate | exact C].
Qed.

(* a dictionary-encoded cell binds the entry its INDEX selects *)
Lemma dict_cell_indexed ti tv o i d s :
  (0 <= i)%Z -> nth_error d (Z.to_nat i) = Some s ->
  conv_leaf KString (TDict ti tv o) (VD i d) = Some (VS s).
Proof.
  intros Hi Hn. cbn. destruct (i <? 0)%Z eqn:E; [lia|]. now rewrite Hn.
Qed.
