(* Proofs/C33.v — lemmas for property C33 (storage keys never reused). *)
From Coq Require Import Permutation ZifyBool ZifyN ZifyNat.
From VR Require Import Model.C33.
Open Scope N_scope.

Local Arguments N.div : simpl never.
Local Arguments N.modulo : simpl never.
Local Arguments N.lor : simpl never.
Local Arguments N.land : simpl never.
Local Arguments N.ltb : simpl never.
Local Arguments N.leb : simpl never.
Local Arguments N.eqb : simpl never.
Local Arguments N.add : simpl never.

(* ---- finite sweeps over one byte ----------------------------------------- *)
Definition all256 : list N := map N.of_nat (seq 0 256).

Lemma in_all256 b : b < 256 -> In b all256.
Proof.
  intro H. unfold all256. rewrite <- (N2Nat.id b). apply in_map. apply in_seq. lia.
Qed.

Lemma byte_sweep (P : N -> bool) : forallb P all256 = true -> forall b, b < 256 -> P b = true.
Proof. intros H b Hb. rewrite forallb_forall in H. apply H, in_all256, Hb. Qed.

Definition unhexdigit (c : N) : N := if c <? 58 then c - 48 else c - 87.
Definition unhex2 (h l : N) : N := 16 * unhexdigit h + unhexdigit l.

Lemma unhex2_hex2 b : b < 256 -> unhex2 (hexdigit (b / 16)) (hexdigit (b mod 16)) = b.
Proof.
  intro Hb. apply N.eqb_eq.
  apply (byte_sweep (fun b => unhex2 (hexdigit (b / 16)) (hexdigit (b mod 16)) =? b)); [|exact Hb].
  vm_compute. reflexivity.
Qed.

Lemma hexpair_inj a b : a < 256 -> b < 256 ->
  hexdigit (a / 16) = hexdigit (b / 16) -> hexdigit (a mod 16) = hexdigit (b mod 16) -> a = b.
Proof.
  intros Ha Hb H1 H2. rewrite <- (unhex2_hex2 a Ha), <- (unhex2_hex2 b Hb). now rewrite H1, H2.
Qed.

Lemma hex_hi_ok b : b < 256 -> is_hexc (hexdigit (b / 16)) = true.
Proof. apply (byte_sweep (fun b => is_hexc (hexdigit (b / 16)))). vm_compute. reflexivity. Qed.
Lemma hex_lo_ok b : b < 256 -> is_hexc (hexdigit (b mod 16)) = true.
Proof. apply (byte_sweep (fun b => is_hexc (hexdigit (b mod 16)))). vm_compute. reflexivity. Qed.
Lemma ver_byte b : b < 256 -> ver b < 256.
Proof. intro H. apply N.ltb_lt. revert b H. apply (byte_sweep (fun b => ver b <? 256)). vm_compute. reflexivity. Qed.
Lemma var_byte b : b < 256 -> var b < 256.
Proof. intro H. apply N.ltb_lt. revert b H. apply (byte_sweep (fun b => var b <? 256)). vm_compute. reflexivity. Qed.
(* the version character is always 4, the variant character always one of 8 9 a b *)
Lemma ver_hi b : b < 256 -> (hexdigit (ver b / 16) =? 52) = true.
Proof. apply (byte_sweep (fun b => hexdigit (ver b / 16) =? 52)). vm_compute. reflexivity. Qed.
Lemma var_hi b : b < 256 -> is_varc (hexdigit (var b / 16)) = true.
Proof. apply (byte_sweep (fun b => is_varc (hexdigit (var b / 16)))). vm_compute. reflexivity. Qed.

(* ---- 16-byte lists -------------------------------------------------------- *)
Lemma wf_entropy_spec e : wf_entropy e = true <-> length e = 16%nat /\ Forall (fun b => b < 256) e.
Proof.
  unfold wf_entropy, all_bytes. rewrite andb_true_iff, Nat.eqb_eq, forallb_forall, Forall_forall.
  unfold is_byte. split; intros [H1 H2]; split; auto; intros x Hx; specialize (H2 x Hx); lia.
Qed.

Ltac explode16 e L :=
  do 16 (destruct e as [|? e]; [discriminate L|]); destruct e; [|discriminate L].

Ltac bytes_of F :=
  repeat match type of F with
  | Forall _ (_ :: _) => let h := fresh "Hb" in let F' := fresh "F" in
      apply Forall_cons_iff in F as [h F']; bytes_of F'
  end.

Lemma mask_length e : length (mask e) = length e.
Proof. unfold mask. do 9 (destruct e as [|? e]; [reflexivity|]). reflexivity. Qed.

Lemma mask_wf e : wf_entropy e = true -> wf_entropy (mask e) = true.
Proof.
  rewrite !wf_entropy_spec. intros [L F]. split; [now rewrite mask_length|].
  explode16 e L. cbn [mask]. bytes_of F.
  repeat (apply Forall_cons; [first [assumption | now apply ver_byte | now apply var_byte]|]).
  constructor.
Qed.

Lemma mask_idem e : mask (mask e) = mask e.
Proof.
  unfold mask. do 9 (destruct e as [|? e]; [reflexivity|]).
  f_equal. f_equal. f_equal. f_equal. f_equal. f_equal.
  assert (Hv : forall b, ver (ver b) = ver b).
  { intro b. unfold ver. apply N.bits_inj. intro k.
    rewrite !N.lor_spec, !N.land_spec, !N.lor_spec, !N.land_spec.
    destruct (N.testbit b k), (N.testbit 15 k) eqn:E1, (N.testbit 64 k) eqn:E2; try reflexivity. }
  assert (Hr : forall b, var (var b) = var b).
  { intro b. unfold var. apply N.bits_inj. intro k.
    rewrite !N.lor_spec, !N.land_spec, !N.lor_spec, !N.land_spec.
    destruct (N.testbit b k), (N.testbit 63 k) eqn:E1, (N.testbit 128 k) eqn:E2; try reflexivity. }
  rewrite Hv. f_equal. f_equal. now rewrite Hr.
Qed.

Lemma uuid_text_length u : length u = 16%nat -> length (uuid_text u) = 36%nat.
Proof. intro L. explode16 u L. reflexivity. Qed.

(* the text determines the 16 bytes *)
Lemma uuid_text_inj u v :
  wf_entropy u = true -> wf_entropy v = true -> uuid_text u = uuid_text v -> u = v.
Proof.
  rewrite !wf_entropy_spec. intros [Lu Fu] [Lv Fv] H.
  explode16 u Lu. explode16 v Lv. bytes_of Fu. bytes_of Fv.
  unfold uuid_text in H. cbn [firstn skipn hexs hex2 app] in H.
  injection H. intros.
  repeat (f_equal; [apply hexpair_inj; assumption|]).
  f_equal. apply hexpair_inj; assumption.
Qed.

Lemma uuid_text_shape u : wf_entropy u = true -> uuid_shape (uuid_text (mask u)) = true.
Proof.
  rewrite wf_entropy_spec. intros [L F]. explode16 u L. bytes_of F.
  unfold uuid_text, uuid_shape, uuid_pat. cbn [mask firstn skipn hexs hex2 app match_pat pc_ok].
  rewrite !hex_hi_ok, !hex_lo_ok by first [assumption | now apply ver_byte | now apply var_byte].
  rewrite ver_hi, var_hi by assumption.
  unfold DASH. rewrite !N.eqb_refl. reflexivity.
Qed.

(* ---- keys ----------------------------------------------------------------- *)
Lemma app_eq_len {A} (a b c d : list A) : a ++ c = b ++ d -> length a = length b -> a = b /\ c = d.
Proof.
  revert b; induction a as [|x a IH]; intros [|y b] H L; try discriminate L.
  - now split.
  - cbn in H. injection H as -> H. injection L as L. destruct (IH b H L) as [-> ->]. now split.
Qed.

(* same storage configuration: the key determines the masked entropy and the extension *)
Lemma key_inj b p x1 x2 e1 e2 :
  wf_entropy e1 = true -> wf_entropy e2 = true ->
  key b p x1 e1 = key b p x2 e2 -> mask e1 = mask e2 /\ ext b x1 = ext b x2.
Proof.
  intros W1 W2 H. unfold key in H. apply app_inv_head in H.
  apply app_eq_len in H.
  - destruct H as [H ->]. split; [|reflexivity].
    apply uuid_text_inj; auto using mask_wf.
  - apply wf_entropy_spec in W1 as [L1 _]. apply wf_entropy_spec in W2 as [L2 _].
    rewrite !uuid_text_length; auto; now rewrite mask_length.
Qed.

Lemma key_collide_iff b p x e1 e2 :
  wf_entropy e1 = true -> wf_entropy e2 = true ->
  (key b p x e1 = key b p x e2 <-> mask e1 = mask e2).
Proof.
  intros W1 W2. split.
  - intro H. now apply key_inj in H.
  - intro H. unfold key. now rewrite H.
Qed.

(* different prefixes sharing a bucket: same extension => prefix and entropy both recovered *)
Lemma key_inj_prefix b1 b2 p1 p2 x e1 e2 :
  wf_entropy e1 = true -> wf_entropy e2 = true ->
  eff_prefix b1 p1 ++ uuid_text (mask e1) ++ x = eff_prefix b2 p2 ++ uuid_text (mask e2) ++ x ->
  eff_prefix b1 p1 = eff_prefix b2 p2 /\ mask e1 = mask e2.
Proof.
  intros W1 W2 H. rewrite !app_assoc in H. apply app_inv_tail in H.
  assert (L : length (uuid_text (mask e1)) = length (uuid_text (mask e2))).
  { apply wf_entropy_spec in W1 as [L1 _]. apply wf_entropy_spec in W2 as [L2 _].
    rewrite !uuid_text_length; auto; now rewrite mask_length. }
  assert (Lp : length (eff_prefix b1 p1) = length (eff_prefix b2 p2)).
  { apply (f_equal (@length N)) in H. rewrite !app_length in H. lia. }
  apply app_eq_len in H; [|exact Lp]. destruct H as [Hp Hu]. split; [exact Hp|].
  apply uuid_text_inj; auto using mask_wf.
Qed.

(* ---- boolean list helpers -------------------------------------------------- *)
Lemma memb_In k l : memb k l = true <-> In k l.
Proof.
  unfold memb. rewrite existsb_exists. split.
  - intros [x [Hx E]]. apply beqb_eq in E. now subst.
  - intro H. exists k. split; [exact H|apply beqb_refl].
Qed.

Lemma nodupb_NoDup l : nodupb l = true <-> NoDup l.
Proof.
  induction l as [|k r IH]; cbn [nodupb].
  - split; [constructor|reflexivity].
  - rewrite andb_true_iff, negb_true_iff, IH. split.
    + intros [H1 H2]. constructor; [|exact H2]. intro HI. apply memb_In in HI. congruence.
    + intro H. inversion H as [|? ? H1 H2]; subst. split; [|exact H2].
      destruct (memb k r) eqn:E; [apply memb_In in E; contradiction|reflexivity].
Qed.

Lemma lost_NoDup l : NoDup l -> lost l = O.
Proof.
  induction 1 as [|k r H1 H2 IH]; cbn [lost]; [reflexivity|].
  destruct (memb k r) eqn:E; [apply memb_In in E; contradiction|]. now rewrite IH.
Qed.

Lemma lost_zero_NoDup l : lost l = O -> NoDup l.
Proof.
  induction l as [|k r IH]; cbn [lost]; intro H; [constructor|].
  destruct (memb k r) eqn:E; [discriminate|]. constructor; [|now apply IH].
  intro HI. apply memb_In in HI. congruence.
Qed.

(* g-distinct elements have f-distinct images when f determines g *)
Lemma NoDup_map_via {A B C} (f : A -> B) (g : A -> C) (l : list A) :
  (forall a a', In a l -> In a' l -> f a = f a' -> g a = g a') ->
  NoDup (map g l) -> NoDup (map f l).
Proof.
  induction l as [|a l IH]; intros Hfg H; cbn; [constructor|].
  cbn in H. inversion H as [|? ? H1 H2]; subst. constructor.
  - intro HI. apply in_map_iff in HI as [a' [E Ha']]. apply H1.
    rewrite (Hfg a a'); [apply in_map, Ha'| now left | now right | now symmetry].
  - apply IH; [|exact H2]. intros x y Hx Hy. apply Hfg; now right.
Qed.

(* ---- uploads as a list: any assignment of draws to uploads ------------------ *)
Definition upload_key (b : backend) (p : bytes) (u : bytes * bytes) : bytes := key b p (snd u) (fst u).

Lemma uploads_nodup b p (ups : list (bytes * bytes)) :
  Forall (fun u => wf_entropy (fst u) = true) ups ->
  NoDup (map (fun u => mask (fst u)) ups) -> NoDup (map (upload_key b p) ups).
Proof.
  intros W. apply NoDup_map_via. intros a a' Ha Ha' E.
  rewrite Forall_forall in W. unfold upload_key in E. apply key_inj in E; auto. tauto.
Qed.

Section Freshness.
  (* the values the random source hands out, in the order it hands them out *)
  Variable draws : list bytes.
  Hypothesis draws_wf : Forall (fun e => wf_entropy e = true) draws.
  (* THE freshness premise: no 122-bit value is handed out twice.  This is a
     probabilistic fact about crypto/rand (collision chance about n^2 / 2^123),
     not something a proof can establish. *)
  Hypothesis draws_fresh : NoDup (map mask draws).

  Lemma perm_keys_nodup b p (ups : list (bytes * bytes)) :
    Permutation (map fst ups) draws -> NoDup (map (upload_key b p) ups).
  Proof.
    intro P. apply uploads_nodup.
    - apply Forall_forall. intros u Hu. rewrite Forall_forall in draws_wf. apply draws_wf.
      eapply Permutation_in; [exact P|]. now apply in_map.
    - rewrite <- map_map. eapply Permutation_NoDup; [|exact draws_fresh].
      apply Permutation_map. now apply Permutation_sym.
  Qed.
End Freshness.

(* ---- the step machine ------------------------------------------------------- *)
Definition pe (t : thread) : list bytes := match pending t with Some (e, _) => [e] | None => [] end.
Definition ents (s : st) : list bytes :=
  map (fun t => fst (snd t)) (log s) ++ flat_map pe (threads s) ++ rng s.

Lemma upd_split {A} n (x a : A) l : nth_error l n = Some a ->
  exists l1 l2, l = l1 ++ a :: l2 /\ upd n x l = l1 ++ x :: l2.
Proof.
  revert n; induction l as [|h l IH]; intros [|n] H; try discriminate.
  - injection H as ->. exists [], l. now split.
  - cbn in H. destruct (IH n H) as [l1 [l2 [-> E]]]. exists (h :: l1), l2. split; [reflexivity|].
    cbn. now rewrite E.
Qed.

Lemma step_perm s tid : Permutation (ents (step s tid)) (ents s).
Proof.
  unfold step. destruct (nth_error (threads s) tid) as [th|] eqn:N; [|reflexivity].
  destruct (pending th) as [[e x]|] eqn:P.
  - destruct (upd_split tid {| pending := None; todo := todo th |} th _ N) as [l1 [l2 [E1 E2]]].
    assert (Pe : pe th = [e]) by (unfold pe; now rewrite P).
    unfold ents. cbn [threads rng log]. rewrite E2, E1.
    rewrite map_app, !flat_map_app. cbn [map flat_map fst snd]. rewrite Pe.
    change (pe {| pending := None; todo := todo th |}) with (@nil bytes).
    cbn [app]. rewrite <- !app_assoc. apply Permutation_app_head. cbn [app].
    apply Permutation_middle.
  - destruct (todo th) as [|x td] eqn:T; [reflexivity|].
    destruct (rng s) as [|e r] eqn:R; [reflexivity|].
    destruct (upd_split tid {| pending := Some (e, x); todo := td |} th _ N) as [l1 [l2 [E1 E2]]].
    assert (Pe : pe th = []) by (unfold pe; now rewrite P).
    unfold ents. cbn [threads rng log]. rewrite E2, E1, R.
    rewrite !flat_map_app. cbn [flat_map]. rewrite Pe.
    change (pe {| pending := Some (e, x); todo := td |}) with [e].
    cbn [app]. apply Permutation_app_head. rewrite <- !app_assoc. apply Permutation_app_head.
    cbn [app]. apply Permutation_middle.
Qed.

Lemma run_perm sched : forall s, Permutation (ents (run s sched)) (ents s).
Proof.
  induction sched as [|t sched IH]; intro s; [reflexivity|].
  cbn [run fold_left]. etransitivity; [apply IH|apply step_perm].
Qed.

Lemma ents_init progs stream : ents (init progs stream) = stream.
Proof.
  unfold ents, init. cbn [threads rng log map app].
  induction progs as [|p ps IH]; [reflexivity|]. cbn [map flat_map]. exact IH.
Qed.

Lemma NoDup_app_l {A} (a b : list A) : NoDup (a ++ b) -> NoDup a.
Proof.
  induction a as [|x a IH]; intro H; [constructor|].
  cbn in H. inversion H as [|? ? H1 H2]; subst. constructor; [|now apply IH].
  intro HI. apply H1. apply in_or_app. now left.
Qed.

(* every completed put used a value of the stream, each value at most once *)
Lemma log_keys_nodup b p progs stream sched :
  Forall (fun e => wf_entropy e = true) stream -> NoDup (map mask stream) ->
  NoDup (map snd (puts b p (run (init progs stream) sched))).
Proof.
  intros W F. set (s := run (init progs stream) sched).
  assert (P : Permutation (ents s) stream).
  { unfold s. rewrite <- (ents_init progs stream) at 2. apply run_perm. }
  unfold puts. rewrite map_map.
  apply NoDup_map_via with (g := fun t => mask (fst (snd t))).
  - intros a a' Ha Ha' E. unfold put_of in E. cbn [snd] in E.
    assert (In1 : forall t, In t (log s) -> wf_entropy (fst (snd t)) = true).
    { intros t Ht. rewrite Forall_forall in W. apply W. eapply Permutation_in; [exact P|].
      unfold ents. apply in_or_app. left. now apply (in_map (fun t => fst (snd t))). }
    apply key_inj in E; auto. tauto.
  - assert (Nd : NoDup (map mask (ents s))).
    { eapply Permutation_NoDup; [|exact F]. apply Permutation_map, Permutation_sym, P. }
    unfold ents in Nd. rewrite map_app in Nd. apply NoDup_app_l in Nd. now rewrite map_map in Nd.
Qed.

Lemma no_overwrite_sched b p progs stream sched :
  Forall (fun e => wf_entropy e = true) stream -> NoDup (map mask stream) ->
  let ks := map snd (puts b p (run (init progs stream) sched)) in
  NoDup ks /\ lost ks = O.
Proof.
  intros W F ks. pose proof (log_keys_nodup b p progs stream sched W F) as Nd.
  split; [exact Nd | exact (lost_NoDup _ Nd)].
Qed.

(* ---- shape ----------------------------------------------------------------- *)
Lemma ext_ok_ext b x : ext_ok b (ext b x) = true.
Proof.
  destruct b; cbn; try reflexivity. destruct (beqb x enc_zstd); vm_compute; reflexivity.
Qed.

Lemma firstn_app_exact {A} (a b : list A) n : length a = n -> firstn n (a ++ b) = a.
Proof. intros <-. rewrite firstn_app, Nat.sub_diag, firstn_all. cbn. apply app_nil_r. Qed.

Lemma skipn_app_exact {A} (a b : list A) n : length a = n -> skipn n (a ++ b) = b.
Proof. intros <-. rewrite skipn_app, Nat.sub_diag, skipn_all. reflexivity. Qed.

Lemma key_shape_key b p x e : wf_entropy e = true -> key_shape b p (key b p x e) = true.
Proof.
  intro W. unfold key_shape, key. rewrite has_prefix_app. cbn [andb].
  rewrite (skipn_app_exact _ _ _ eq_refl).
  assert (L : length (uuid_text (mask e)) = 36%nat).
  { apply uuid_text_length. rewrite mask_length. now apply wf_entropy_spec in W. }
  rewrite (firstn_app_exact _ _ _ L), (skipn_app_exact _ _ _ L).
  now rewrite uuid_text_shape, ext_ok_ext.
Qed.

(* whatever the prefix length, the key carries the whole 36-character UUID text and
   the whole extension after the prefix: nothing is clamped or trimmed *)
Lemma key_whole_uuid b p x e :
  skipn (length (eff_prefix b p)) (key b p x e) = uuid_text (mask e) ++ ext b x /\
  firstn (length (eff_prefix b p)) (key b p x e) = eff_prefix b p /\
  (wf_entropy e = true -> length (key b p x e) = (length (eff_prefix b p) + 36 + length (ext b x))%nat).
Proof.
  unfold key. split; [apply skipn_app_exact; reflexivity|]. split; [apply firstn_app_exact; reflexivity|].
  intro W. rewrite !app_length, uuid_text_length; [lia|].
  rewrite mask_length. now apply wf_entropy_spec in W.
Qed.

(* ---- sort ------------------------------------------------------------------- *)
Lemma insert_perm k l : Permutation (insert k l) (k :: l).
Proof.
  induction l as [|h t IH]; cbn [insert]; [reflexivity|].
  destruct (bleb k h); [reflexivity|]. rewrite IH. apply perm_swap.
Qed.

Lemma sort_perm l : Permutation (sort l) l.
Proof.
  induction l as [|k l IH]; cbn; [reflexivity|]. fold (sort l). rewrite insert_perm. now constructor.
Qed.

Lemma in_firstn {A} n (l : list A) x : In x (firstn n l) -> In x l.
Proof.
  revert l; induction n as [|n IH]; intros [|a l] H; cbn in H; try contradiction.
  destruct H as [->|H]; [now left|right; now apply IH].
Qed.

(* ---- spec on the model ------------------------------------------------------- *)
Lemma forallb_wf stream : forallb wf_entropy stream = true -> Forall (fun e => wf_entropy e = true) stream.
Proof. rewrite forallb_forall, Forall_forall. auto. Qed.

Lemma log_entropy_in_stream progs stream sched t :
  In t (log (run (init progs stream) sched)) -> In (fst (snd t)) stream.
Proof.
  intro H. apply (Permutation_in (l := ents (run (init progs stream) sched))).
  - rewrite <- (ents_init progs stream) at 2. apply run_perm.
  - unfold ents. apply in_or_app. left. now apply (in_map (fun t => fst (snd t))).
Qed.

Lemma model_meets_spec i : spec_ok i (model i) = true.
Proof.
  destruct i as [b p progs stream sched | b p enc n stream | b p enc n].
  - cbn [model spec_ok]. destruct (forallb wf_entropy stream) eqn:W; [|reflexivity].
    pose proof (forallb_wf _ W) as WF.
    apply andb_true_iff; split.
    + apply forallb_forall. intros t Ht. unfold puts in Ht. apply in_map_iff in Ht as [u [<- Hu]].
      unfold put_of. cbn [snd]. apply key_shape_key.
      rewrite Forall_forall in WF. apply WF. eapply log_entropy_in_stream, Hu.
    + unfold fresh. rewrite W. cbn [andb].
      destruct (nodupb (map mask stream)) eqn:F; [|reflexivity].
      apply nodupb_NoDup in F. pose proof (log_keys_nodup b p progs stream sched WF F) as Nd.
      apply andb_true_iff; split; [now apply nodupb_NoDup|].
      rewrite (lost_NoDup _ Nd). reflexivity.
  - cbn [model spec_ok]. destruct (forallb wf_entropy stream) eqn:W; [|reflexivity].
    pose proof (forallb_wf _ W) as WF.
    apply andb_true_iff; split.
    + apply forallb_forall. intros k Hk. eapply Permutation_in in Hk; [|apply sort_perm].
      apply in_map_iff in Hk as [e [<- He]]. apply key_shape_key.
      rewrite Forall_forall in WF. apply WF. eapply in_firstn. exact He.
    + unfold fresh. rewrite W. cbn [andb].
      destruct (nodupb (map mask stream)) eqn:F; [|reflexivity].
      apply nodupb_NoDup in F.
      assert (Nd : NoDup (map (key b p enc) (firstn n stream))).
      { apply NoDup_map_via with (g := mask).
        - intros a a' Ha Ha' E. rewrite Forall_forall in WF.
          apply key_inj in E; [tauto| |]; apply WF; eapply in_firstn; eassumption.
        - rewrite <- firstn_map. clear -F. revert n. induction (map mask stream) as [|x l IH]; intros [|n]; cbn; try constructor.
          + inversion F; subst. intro HI. apply H1. eapply in_firstn. exact HI.
          + inversion F; subst. now apply IH. }
      rewrite !andb_true_iff; repeat split.
      * apply nodupb_NoDup. eapply Permutation_NoDup; [apply Permutation_sym, sort_perm|exact Nd].
      * now rewrite (lost_NoDup _ Nd).
      * apply Nat.eqb_eq. rewrite (Permutation_length (sort_perm _)), map_length, firstn_length. reflexivity.
  - cbn [model spec_ok]. rewrite !N.eqb_refl. reflexivity.
Qed.

(* ---- the pre-fix derivation -------------------------------------------------- *)
Lemma legacy_collides :
  exists t1 t2, t1 <> t2 /\ t2 - t1 < 1000 /\ forall p, legacy_key p t1 = legacy_key p t2.
Proof.
  exists 1790000000123456000, 1790000000123456999. split; [discriminate|]. split; [reflexivity|].
  intro p. unfold legacy_key. f_equal.
Qed.
