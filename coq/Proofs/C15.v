(* Proofs/C15.v — lemmas for Props/C15.v. The argument in one line: every cache entry of every
   reachable instance satisfies  expiresAt = created(call) + cache_ttl(tokenTTL)  ([inst_ok]);
   so a hit at [now] implies the call token passes checkTokenAge at [now] — exactly what the
   miss path checks — and the two paths decide alike for a client that echoes its call token. *)
From Coq Require Import ZArith List Bool Lia Arith.
From Coq Require Import ZifyBool ZifyNat.
From VR Require Import Model.C15.
Import ListNotations.
Open Scope Z_scope.
Local Arguments Z.ltb : simpl never.
Local Arguments Z.leb : simpl never.
Local Arguments Z.add : simpl never.
Local Arguments Z.sub : simpl never.
Local Arguments Nat.modulo : simpl never.

(* ---- generic list facts -------------------------------------------------------------- *)
Lemma find_key_In k l e : find_key k l = Some e -> In (k, e) l.
Proof.
  induction l as [|[k' e'] t IH]; cbn [find_key]; [discriminate|].
  destruct (k' =? k)%nat eqn:E.
  - intros [= <-]. apply Nat.eqb_eq in E. subst. now left.
  - intros H. right. auto.
Qed.

Lemma Forall_remove_key {P : nat * Z -> Prop} k l : Forall P l -> Forall P (remove_key k l).
Proof.
  intros H. apply Forall_forall. intros x Hin. apply filter_In in Hin.
  destruct Hin as [Hin _]. eapply Forall_forall; eauto.
Qed.

Lemma Forall_firstn' {A} (P : A -> Prop) n l : Forall P l -> Forall P (firstn n l).
Proof.
  revert l. induction n as [|n IH]; intros [|a l] H; cbn [firstn]; auto.
  inversion H; subst. constructor; auto.
Qed.

Lemma Forall_set_nth {A} (P : A -> Prop) n x l : Forall P l -> P x -> Forall P (set_nth n x l).
Proof.
  revert n. induction l as [|a l IH]; intros [|n] H Hx; cbn [set_nth]; auto;
    inversion H; subst; constructor; auto.
Qed.

Lemma map_set_nth {A B} (f : A -> B) n x l : map f (set_nth n x l) = set_nth n (f x) (map f l).
Proof.
  revert n. induction l as [|a l IH]; intros [|n]; cbn [set_nth map]; auto. now rewrite IH.
Qed.

Lemma outcome_eqb_eq a b : outcome_eqb a b = true -> a = b.
Proof. destruct a as [|[]|], b as [|[]|]; cbn; congruence. Qed.
Lemma outcome_eqb_refl a : outcome_eqb a a = true.
Proof. destruct a as [|[]|]; reflexivity. Qed.

(* ---- consequences of the per-op property [cont_ok] (pure boolean reasoning) ------------- *)
Section Spec.
  Variable created : nat -> Z.

  Lemma cont_ok_echo t now cur call o :
    cont_ok created t now cur call o = true ->
    echo cur call = true -> sane t now cur = true -> o = decide created t now cur call.
  Proof.
    unfold cont_ok. intros H He Hs. rewrite He, Hs in H. cbn [negb orb] in H.
    rewrite andb_false_r, orb_false_r in H. apply andb_prop in H. destruct H as [H _].
    now apply outcome_eqb_eq.
  Qed.

  Lemma cont_ok_expired t now k cc call o :
    cont_ok created t now (k, cc) call o = true ->
    0 < t \/ cc < now -> t < now - cc \/ t < now - created k -> exists c, o = Ref c.
  Proof.
    unfold cont_ok, sane, age_ok. cbn [fst snd]. intros H Hs He.
    apply andb_prop in H. destruct H as [_ H].
    assert (C : ((0 <? t) || (cc <? now)) && (negb (negb (t <? now - cc)) || negb (negb (t <? now - created k))) = true) by lia.
    rewrite C in H. destruct o; try discriminate. eauto.
  Qed.

  Lemma cont_ok_cases t now cur call o :
    cont_ok created t now cur call o = true -> o = decide created t now cur call \/ o = Acc.
  Proof.
    unfold cont_ok. intros H. apply andb_prop in H. destruct H as [H _].
    apply orb_prop in H. destruct H as [H|H].
    - left. now apply outcome_eqb_eq.
    - right. apply andb_prop in H. destruct H as [H _]. now apply outcome_eqb_eq.
  Qed.
End Spec.

(* ---- the model: the invariant and its preservation ----------------------------------- *)
Section Inv.
  Variable fb dcap : Z.
  Variable created : nat -> Z.

  Definition ent_ok (ct : Z) (e : nat * Z) : Prop := snd e = created (fst e) + ct.
  (* the cache was built for the current tokenTTL, and every entry expires exactly when its
     call token does under the cache's ttl *)
  Definition inst_ok (s : inst) : Prop :=
    cttl s = cache_ttl fb (ttl s) /\ Forall (ent_ok (cttl s)) (ents s).
  Definition st_ok (st : list inst) : Prop := Forall inst_ok st.

  Lemma mk_ok t n : inst_ok (mk fb t n).
  Proof. split; cbn; auto. Qed.

  Lemma get_ok now k s hit s' :
    inst_ok s -> get now k s = (hit, s') ->
    inst_ok s' /\ ttl s' = ttl s /\ (hit = true -> now <= created k + cttl s).
  Proof.
    intros [Hc Hf]. unfold get.
    destruct (cap s <=? 0). { intros [= <- <-]. repeat split; auto. discriminate. }
    destruct (find_key k (ents s)) as [e|] eqn:F.
    2:{ intros [= <- <-]. repeat split; auto. discriminate. }
    destruct (e <? now) eqn:L; intros [= <- <-].
    - repeat split; cbn; auto. now apply Forall_remove_key. discriminate.
    - assert (E : ent_ok (cttl s) (k, e)).
      { eapply Forall_forall in Hf; [exact Hf|]. now apply find_key_In. }
      repeat split; cbn; auto.
      + constructor; auto. now apply Forall_remove_key.
      + intros _. unfold ent_ok in E. cbn in E. lia.
  Qed.

  Lemma put_ok now k s :
    inst_ok s ->
    inst_ok (put false now k (created k) s) /\ ttl (put false now k (created k) s) = ttl s.
  Proof.
    intros [Hc Hf]. unfold put.
    destruct (cap s <=? 0). { repeat split; auto. }
    assert (E : ent_ok (cttl s) (k, created k + cttl s)) by reflexivity.
    destruct (find_key k (ents s)); (split; [split|]); cbn; auto.
    - constructor; auto. now apply Forall_remove_key.
    - apply Forall_firstn'. constructor; auto.
  Qed.

  Lemma decide_unfold t now k cc call :
    decide created t now (k, cc) call =
    if negb (age_ok t now cc) then Ref RExpired else
    match call with
    | CNone => Ref RNoCall
    | CForged => Ref RBadCall
    | CTok k' => if negb (age_ok t now (created k')) then Ref RExpired
                 else if negb (k' =? k)%nat then Ref RMismatch else Acc
    end.
  Proof. reflexivity. Qed.

  (* a refusal that IS the cache-free decision satisfies the per-op property *)
  Lemma cont_ok_decide_ref t now cur call :
    is_ref (decide created t now cur call) = true ->
    cont_ok created t now cur call (decide created t now cur call) = true.
  Proof.
    intros R. unfold cont_ok. rewrite outcome_eqb_refl, R. cbn [orb andb].
    now destruct (_ && _).
  Qed.

  Lemma cont_sound now cur call s o s' :
    inst_ok s -> cont false created now cur call s = (o, s') ->
    inst_ok s' /\ ttl s' = ttl s /\ cont_ok created (ttl s) now cur call o = true.
  Proof.
    intros Hok. destruct cur as [k cc]. unfold cont.
    destruct (age_ok (ttl s) now cc) eqn:Acur; cbn [negb].
    2:{ intros [= <- <-]. split; [exact Hok|split; [reflexivity|]].
        replace (Ref RExpired) with (decide created (ttl s) now (k, cc) call)
          by (rewrite decide_unfold, Acur; reflexivity).
        apply cont_ok_decide_ref. rewrite decide_unfold, Acur. reflexivity. }
    destruct (get now k s) as [hit s1] eqn:G.
    destruct (get_ok _ _ _ _ _ Hok G) as (Hok1 & Ht1 & Hhit).
    assert (Hc : cttl s = cache_ttl fb (ttl s)) by apply Hok.
    destruct hit.
    - (* hit: the entry's expiry bounds the call token's age *)
      intros [= <- <-]. split; [exact Hok1|split; [exact Ht1|]].
      specialize (Hhit eq_refl).
      unfold cont_ok. rewrite decide_unfold.
      unfold sane, echo, age_ok, cache_ttl in *. cbn [fst snd].
      destruct call as [|k'|].
      + cbn [negb outcome_eqb orb andb is_ref].
        destruct (ttl s <? now - cc) eqn:A1; [discriminate|]. cbn [negb orb andb outcome_eqb].
        destruct (ttl s <=? 0) eqn:A3; destruct (ttl s <? now - created k) eqn:A4;
          destruct (0 <? ttl s) eqn:A5; destruct (cc <? now) eqn:A6; cbn; try reflexivity; lia.
      + destruct (ttl s <? now - cc) eqn:A1; [discriminate|]. cbn [negb].
        destruct (k' =? k)%nat eqn:Ek.
        * apply Nat.eqb_eq in Ek. subst k'.
          destruct (ttl s <=? 0) eqn:A3; destruct (ttl s <? now - created k) eqn:A4;
            destruct (0 <? ttl s) eqn:A5; destruct (cc <? now) eqn:A6; cbn; try reflexivity; lia.
        * destruct (ttl s <? now - created k') eqn:A2;
          destruct (ttl s <=? 0) eqn:A3; destruct (ttl s <? now - created k) eqn:A4;
            destruct (0 <? ttl s) eqn:A5; destruct (cc <? now) eqn:A6; cbn; try reflexivity; lia.
      + destruct (ttl s <? now - cc) eqn:A1; [discriminate|]. cbn [negb orb andb outcome_eqb].
        destruct (ttl s <=? 0) eqn:A3; destruct (ttl s <? now - created k) eqn:A4;
          destruct (0 <? ttl s) eqn:A5; destruct (cc <? now) eqn:A6; cbn; try reflexivity; lia.
    - (* miss: the same checks as the cache-free decision *)
      destruct call as [|k'|].
      + intros [= <- <-]. split; [exact Hok1|split; [exact Ht1|]].
        replace (Ref RNoCall) with (decide created (ttl s) now (k, cc) CNone)
          by (rewrite decide_unfold, Acur; reflexivity).
        apply cont_ok_decide_ref. rewrite decide_unfold, Acur. reflexivity.
      + destruct (age_ok (ttl s) now (created k')) eqn:Acall; cbn [negb].
        2:{ intros [= <- <-]. split; [exact Hok1|split; [exact Ht1|]].
            replace (Ref RExpired) with (decide created (ttl s) now (k, cc) (CTok k'))
              by (rewrite decide_unfold, Acur, Acall; reflexivity).
            apply cont_ok_decide_ref. rewrite decide_unfold, Acur, Acall. reflexivity. }
        destruct (k' =? k)%nat eqn:Ek; cbn [negb].
        2:{ intros [= <- <-]. split; [exact Hok1|split; [exact Ht1|]].
            replace (Ref RMismatch) with (decide created (ttl s) now (k, cc) (CTok k'))
              by (rewrite decide_unfold, Acur, Acall, Ek; reflexivity).
            apply cont_ok_decide_ref. rewrite decide_unfold, Acur, Acall, Ek. reflexivity. }
        apply Nat.eqb_eq in Ek. subst k'. intros [= <- <-].
        destruct (put_ok now k s1 Hok1) as [Hp Htp].
        split; [exact Hp|split; [congruence|]].
        unfold cont_ok. rewrite decide_unfold, Acur, Acall, Nat.eqb_refl.
        cbn [negb fst snd outcome_eqb orb andb]. rewrite Acur, Acall. cbn [negb orb].
        rewrite andb_false_r. reflexivity.
      + intros [= <- <-]. split; [exact Hok1|split; [exact Ht1|]].
        replace (Ref RBadCall) with (decide created (ttl s) now (k, cc) CForged)
          by (rewrite decide_unfold, Acur; reflexivity).
        apply cont_ok_decide_ref. rewrite decide_unfold, Acur. reflexivity.
  Qed.

  Lemma istep_sound s p o s' :
    inst_ok s -> istep false fb dcap created s p = (o, s') ->
    inst_ok s' /\ ttl s' = ref_ttl (ttl s) p /\ op_ok created (ttl s) p o = true.
  Proof.
    intros Hok. destruct p as [i d|i n|i k|now i cur call]; cbn [istep ref_ttl op_ok].
    - intros [= <- <-]. split; [apply mk_ok|split; reflexivity].
    - intros [= <- <-]. split; [apply mk_ok|split; reflexivity].
    - intros [= <- <-]. destruct (put_ok (created k) k s Hok) as [H1 H2].
      split; [exact H1|split; [exact H2|reflexivity]].
    - apply cont_sound; auto.
  Qed.

  Lemma dump_ok_inv s : inst_ok s -> dump_ok created (ttl s) (ents s) = true.
  Proof.
    intros [Hc Hf]. unfold dump_ok. apply forallb_forall. intros e Hin.
    eapply Forall_forall in Hf; eauto. unfold ent_ok, cache_ttl in *.
    destruct (ttl s <=? 0) eqn:A; lia.
  Qed.

  (* one step of the whole system *)
  Lemma step_sound st p :
    st_ok st ->
    st_ok (snd (step false fb dcap created st p))
    /\ map ttl (snd (step false fb dcap created st p)) = ref_ttls (map ttl st) p
    /\ match nth_error (map ttl st) (target p mod length (map ttl st))%nat with
       | None => fst (step false fb dcap created st p) = (Done, [])
       | Some t => op_ok created t p (fst (fst (step false fb dcap created st p))) = true
                   /\ dump_ok created (ref_ttl t p) (snd (fst (step false fb dcap created st p))) = true
       end.
  Proof.
    intros Hst. unfold step, ref_ttls. rewrite map_length, nth_error_map.
    destruct (nth_error st (target p mod length st)%nat) as [s|] eqn:N; cbn [option_map].
    2:{ cbn. auto. }
    assert (Hs : inst_ok s). { eapply Forall_forall; eauto. eapply nth_error_In; eauto. }
    destruct (istep false fb dcap created s p) as [o s'] eqn:I.
    destruct (istep_sound _ _ _ _ Hs I) as (Hs' & Ht & Hop). cbn [fst snd].
    repeat split; auto.
    - now apply Forall_set_nth.
    - rewrite map_set_nth. now rewrite Ht.
    - rewrite <- Ht. now apply dump_ok_inv.
  Qed.

  Lemma start_ok cfgs : st_ok (start fb cfgs).
  Proof. unfold st_ok, start. apply Forall_forall. intros s Hin. apply in_map_iff in Hin.
         destruct Hin as (c & <- & _). apply mk_ok. Qed.
  Lemma start_ttls cfgs : map ttl (start fb cfgs) = map fst cfgs.
  Proof. unfold start. rewrite map_map. reflexivity. Qed.

  (* every reachable state satisfies the invariant *)
  Lemma exec_ok ops : forall st, st_ok st -> st_ok (exec false fb dcap created st ops).
  Proof.
    induction ops as [|p r IH]; intros st Hst; cbn [exec]; auto.
    apply IH. now apply step_sound.
  Qed.

  (* the decidable property holds on every run *)
  Lemma spec_run_holds ops : forall st, st_ok st ->
    spec_run created (map ttl st) ops (run false fb dcap created st ops) = true.
  Proof.
    induction ops as [|p r IH]; intros st Hst; cbn [run spec_run]; auto.
    destruct (step_sound st p Hst) as (Hst' & Hts & Hop).
    destruct (fst (step false fb dcap created st p)) as [o dump] eqn:F.
    rewrite <- Hts, IH by auto. rewrite andb_true_r.
    destruct (nth_error (map ttl st) (target p mod length (map ttl st))%nat).
    - cbn [fst snd] in Hop. destruct Hop as [-> ->]. reflexivity.
    - injection Hop as -> ->. reflexivity.
  Qed.

  (* what holds of the n-th op, whatever preceded it *)
  Lemma run_nth ops : forall st n p t, st_ok st ->
    nth_error ops n = Some p ->
    nth_error (ttl_trace (map ttl st) ops) n = Some (Some t) ->
    exists o dump, nth_error (run false fb dcap created st ops) n = Some (o, dump)
                   /\ op_ok created t p o = true /\ dump_ok created (ref_ttl t p) dump = true.
  Proof.
    induction ops as [|q r IH]; intros st [|n] p t Hst Hn Ht; cbn in Hn; try discriminate.
    - injection Hn as ->. cbn [ttl_trace nth_error] in Ht. injection Ht as Ht.
      destruct (step_sound st p Hst) as (_ & _ & Hop). rewrite Ht in Hop.
      cbn [run nth_error]. destruct (fst (step false fb dcap created st p)) as [o dump].
      exists o, dump. cbn [fst snd] in Hop. tauto.
    - cbn [ttl_trace nth_error] in Ht. cbn [run nth_error].
      destruct (step_sound st q Hst) as (Hst' & Hts & _).
      rewrite <- Hts in Ht. eapply IH; eauto.
  Qed.

  (* the cache is unobservable for echoing clients: outcomes = the cache-free reference *)
  Lemma transparent ops : forall st, st_ok st ->
    echoes_call_token ops = true -> sane_clock (map ttl st) ops = true ->
    map fst (run false fb dcap created st ops) = ref_run created (map ttl st) ops.
  Proof.
    induction ops as [|p r IH]; intros st Hst He Hs; cbn [run ref_run map]; auto.
    unfold echoes_call_token in He. cbn [forallb] in He. apply andb_prop in He. destruct He as [Hep Her].
    unfold sane_clock in Hs. cbn [ttl_trace forallb2] in Hs. apply andb_prop in Hs. destruct Hs as [Hsp Hsr].
    destruct (step_sound st p Hst) as (Hst' & Hts & Hop).
    f_equal.
    - unfold ref_step.
      destruct (nth_error (map ttl st) (target p mod length (map ttl st))%nat) as [t|].
      + destruct Hop as [Hop _]. cbn [fst].
        destruct p as [i d|i n|i k|now i cur call]; cbn [op_ok ref_out] in *;
          try (now apply outcome_eqb_eq).
        apply cont_ok_echo; auto.
      + now rewrite Hop.
    - rewrite <- Hts. apply IH; auto. now rewrite Hts.
  Qed.
End Inv.

(* ---- uniform ttl, no SetTTL in the history: Appendix A's form ---------------------------- *)
Definition no_setttl (h : list op) : bool :=
  forallb (fun o => match o with SetTTL _ _ => false | _ => true end) h.

Lemma set_nth_same {A} n (x : A) l : nth_error l n = Some x -> set_nth n x l = l.
Proof.
  revert n. induction l as [|a l IH]; intros [|n]; cbn; try discriminate; auto.
  - now intros [= ->].
  - intros H. now rewrite IH.
Qed.

Lemma nth_error_repeat {A} (x : A) m n : (n < m)%nat -> nth_error (repeat x m) n = Some x.
Proof. revert n. induction m; intros [|n] H; cbn; auto; try lia. apply IHm. lia. Qed.

Lemma ref_run_uniform created t m ops :
  (0 < m)%nat -> no_setttl ops = true ->
  ref_run created (repeat t m) ops = map (ref_out created t) ops.
Proof.
  intros Hm. induction ops as [|p r IH]; intros Hn; cbn [ref_run map]; auto.
  cbn [no_setttl forallb] in Hn. apply andb_prop in Hn. destruct Hn as [Hp Hr].
  assert (N : nth_error (repeat t m) (target p mod length (repeat t m))%nat = Some t).
  { apply nth_error_repeat. rewrite repeat_length. apply Nat.mod_upper_bound. lia. }
  unfold ref_step, ref_ttls. rewrite N. cbn [fst]. f_equal.
  destruct p; try discriminate; cbn [ref_ttl]; rewrite (set_nth_same _ _ _ N); auto.
Qed.

Lemma sane_uniform t ops :
  0 < t -> forall ts, Forall (fun x => x = t) ts -> no_setttl ops = true -> sane_clock ts ops = true.
Proof.
  intros Ht. induction ops as [|p r IH]; intros ts Hts Hn; auto.
  cbn [no_setttl forallb] in Hn. apply andb_prop in Hn. destruct Hn as [Hp Hr].
  unfold sane_clock. cbn [ttl_trace forallb2]. apply andb_true_intro. split.
  - destruct (nth_error ts (target p mod length ts)%nat) as [x|] eqn:N; auto.
    assert (x = t). { eapply Forall_forall in Hts; eauto. eapply nth_error_In; eauto. }
    subst. destruct p; cbn; auto. unfold sane. lia.
  - apply IH; auto. unfold ref_ttls.
    destruct (nth_error ts (target p mod length ts)%nat) as [x|] eqn:N; auto.
    destruct p; try discriminate; cbn [ref_ttl]; rewrite (set_nth_same _ _ _ N); auto.
Qed.

(* ---- statements consumed by Props/C15.v ------------------------------------------------------ *)
Lemma expired_refused_l fb dcap created cfgs hist n now i k cc call t :
  nth_error hist n = Some (Cont now i (k, cc) call) ->
  nth_error (ttl_trace (map fst cfgs) hist) n = Some (Some t) ->
  0 < t \/ cc < now ->
  t < now - cc \/ t < now - created k ->
  exists c dump, nth_error (run false fb dcap created (start fb cfgs) hist) n = Some (Ref c, dump).
Proof.
  intros Hn Ht Hs He. rewrite <- (start_ttls fb) in Ht.
  destruct (run_nth fb dcap created hist _ _ _ _ (start_ok fb created cfgs) Hn Ht) as (o & dump & Hr & Hop & _).
  cbn [op_ok] in Hop. destruct (cont_ok_expired _ _ _ _ _ _ _ Hop Hs He) as [c ->]. eauto.
Qed.

Lemma nonpositive_ttl_refused_l fb dcap created cfgs hist n now i k cc call t :
  nth_error hist n = Some (Cont now i (k, cc) call) ->
  nth_error (ttl_trace (map fst cfgs) hist) n = Some (Some t) ->
  t <= 0 -> cc < now ->
  exists dump, nth_error (run false fb dcap created (start fb cfgs) hist) n = Some (Ref RExpired, dump).
Proof.
  intros Hn Ht H0 Hc. rewrite <- (start_ttls fb) in Ht.
  destruct (run_nth fb dcap created hist _ _ _ _ (start_ok fb created cfgs) Hn Ht) as (o & dump & Hr & Hop & _).
  cbn [op_ok] in Hop.
  destruct (cont_ok_expired _ _ _ _ _ _ _ Hop (or_intror Hc)) as [c Hc']; [lia|].
  destruct (cont_ok_cases _ _ _ _ _ _ Hop) as [Hd|Hd]; [|congruence].
  exists dump. rewrite Hr, Hd. rewrite decide_unfold. unfold age_ok.
  destruct (t <? now - cc) eqn:A; [reflexivity|lia].
Qed.

Lemma cache_transparent_l fb dcap created cfgs hist :
  echoes_call_token hist = true -> sane_clock (map fst cfgs) hist = true ->
  map fst (run false fb dcap created (start fb cfgs) hist) = ref_run created (map fst cfgs) hist.
Proof.
  intros He Hs. rewrite <- (start_ttls fb) in *. apply transparent; auto. apply start_ok.
Qed.

Lemma map_fst_pair (t : Z) (caps : list Z) : map fst (map (fun c => (t, c)) caps) = repeat t (length caps).
Proof. induction caps; cbn; congruence. Qed.

Lemma cache_transparent_uniform_l fb dcap created t caps hist :
  0 < t -> caps <> [] -> no_setttl hist = true -> echoes_call_token hist = true ->
  map fst (run false fb dcap created (start fb (map (fun c => (t, c)) caps)) hist)
  = map (ref_out created t) hist.
Proof.
  intros Ht Hc Hn He. rewrite cache_transparent_l; auto.
  - rewrite map_fst_pair. apply ref_run_uniform; auto. destruct caps; [congruence|cbn; lia].
  - rewrite map_fst_pair. apply sane_uniform with (t := t); auto.
    apply Forall_forall. intros x Hx. now apply repeat_spec in Hx.
Qed.

Lemma cache_never_extends_l fb dcap created cfgs hist s k e :
  In s (exec false fb dcap created (start fb cfgs) hist) -> In (k, e) (ents s) ->
  e = created k + cache_ttl fb (ttl s) /\ (0 < ttl s -> e <= created k + ttl s).
Proof.
  intros Hs He.
  assert (Hok : inst_ok fb created s).
  { eapply Forall_forall; [apply exec_ok, start_ok|exact Hs]. }
  destruct Hok as [Hc Hf]. eapply Forall_forall in Hf; eauto. unfold ent_ok in Hf. cbn [fst snd] in Hf.
  rewrite Hc in Hf. split; auto. intros Ht. unfold cache_ttl in Hf.
  destruct (ttl s <=? 0) eqn:A; lia.
Qed.

Lemma spec_holds_l i : spec_ok i (model i) = true.
Proof.
  unfold spec_ok, model. rewrite <- (start_ttls (i_tick i * c15_fallback_ttl_s)).
  apply spec_run_holds. apply start_ok.
Qed.
