(* Proofs/C12.v — lemmas for property C12 (statements of record are in Props/C12.v). *)
From VR Require Import Model.C12.
From Coq Require Import ZifyBool ZifyN ZifyNat.
Local Arguments N.eqb : simpl never.
Local Arguments N.ltb : simpl never.
Local Arguments N.of_nat : simpl never.
Local Arguments b64_lenient : simpl never.
Local Arguments b64enc : simpl never.
Local Arguments min_len : simpl never.
Local Arguments ver_of : simpl never.
Local Arguments aad_of : simpl never.

(* ---- constants tie ------------------------------------------------------------ *)
Lemma classes_probe_ok : c12_classes_ok = 1%Z.
Proof. reflexivity. Qed.

Lemma envelope_geometry : (c12_min_len = 1 + c12_nonce_len + c12_tag_len)%Z /\ (c12_key_size = 32)%Z.
Proof. split; reflexivity. Qed.

Lemma slot_versions_differ : ver_of SCursor <> ver_of SCall.
Proof. vm_compute. discriminate. Qed.

Lemma aad_of_inj s s' : aad_of s = aad_of s' -> s = s'.
Proof. destruct s, s'; try reflexivity; vm_compute; discriminate. Qed.

Lemma label_eqb_eq a b : label_eqb a b = true <-> a = b.
Proof.
  destruct a, b; cbn; split; intro H; try reflexivity; try discriminate.
  - apply andb_true_iff in H as [H1 H2]. apply N.eqb_eq in H1, H2. now subst.
  - inversion H; subst. now rewrite !N.eqb_refl.
Qed.

Lemma label_eqb_refl a : label_eqb a a = true.
Proof. now apply label_eqb_eq. Qed.

Lemma slot_eqb_eq a b : slot_eqb a b = true <-> a = b.
Proof. destruct a, b; cbn; split; intro H; try reflexivity; discriminate. Qed.

(* ---- the pipeline, for every AEAD ---------------------------------------------- *)
Definition shape_label (s : slot) (sh : shape) : label :=
  match sh with ShMalformed => LMalformed | ShVersion v => LVersion v (ver_of s) | ShWell _ => LSignature end.

Lemma filter_nil_no_user (tr : list act) a : filter user_code tr = [] -> In a tr -> user_code a = false.
Proof.
  induction tr as [|b r IH]; cbn; [tauto|]. destruct (user_code b) eqn:E; [discriminate|].
  intros H [<-|Hi]; auto.
Qed.


Section Generic.
  Variable K : Type.
  Variable openx : K -> bytes -> bytes -> option payload.
  Variable strict : bool.
  Variable k : K.

  Notation open_token := (open_token K openx strict k).

  Lemma shape_well_inv s t body :
    shape_of strict s t = ShWell body ->
    b64_lenient t = Some (ver_of s :: body)
    /\ (strict = true -> t = b64enc (ver_of s :: body))
    /\ (N.of_nat (length (ver_of s :: body)) <? min_len) = false.
  Proof.
    unfold shape_of. destruct (b64_lenient t) as [raw|]; [|discriminate].
    destruct (strict && negb (beqb (b64enc raw) t)) eqn:Ec; [discriminate|].
    destruct (N.of_nat (length raw) <? min_len) eqn:El; [discriminate|].
    destruct raw as [|v b]; [discriminate|].
    destruct (v =? ver_of s) eqn:Ev; [|discriminate].
    intro H; inversion H; subst. apply N.eqb_eq in Ev; subst v.
    split; [reflexivity|]. split; [|exact El].
    intros ->. cbn in Ec. apply negb_false_iff in Ec. apply beqb_eq in Ec. now symmetry.
  Qed.

  (* open_token, read off the key-independent shape *)
  Lemma open_token_by_shape s t :
    match shape_of strict s t with
    | ShMalformed => exists f, open_token s t = inl f /\ (f = FBase64 \/ f = FNonCanonical \/ f = FShort)
    | ShVersion v => open_token s t = inl (FVersion v)
    | ShWell body => open_token s t =
                       match openx k (aad_of s) body with
                       | None => inl FSignature
                       | Some p => check_payload s p
                       end
    end.
  Proof.
    unfold shape_of, C12.open_token. destruct (b64_lenient t) as [raw|]; [|eexists; eauto].
    destruct (strict && negb (beqb (b64enc raw) t)); [eexists; eauto|].
    destruct (N.of_nat (length raw) <? min_len); [eexists; eauto 6|].
    destruct raw as [|v b]; [eexists; eauto 6|].
    destruct (v =? ver_of s); cbn; reflexivity.
  Qed.

  Lemma check_payload_not_auth s p f : check_payload s p = inl f -> auth_fail f = false.
  Proof. destruct p, s; cbn; try destruct expired; intro H; inversion H; reflexivity. Qed.

  (* an authenticity failure answers with the label its shape fixes *)
  Lemma open_token_fail_label s t f :
    open_token s t = inl f -> auth_fail f = true ->
    label_of s f = shape_label s (shape_of strict s t).
  Proof.
    intros H Ha. pose proof (open_token_by_shape s t) as Hs.
    destruct (shape_of strict s t) as [|v|body].
    - destruct Hs as (f' & Hf & Hc). rewrite H in Hf. inversion Hf; subst f'.
      destruct Hc as [->|[->| ->]]; reflexivity.
    - rewrite H in Hs. inversion Hs; subst. reflexivity.
    - rewrite H in Hs. destruct (openx k (aad_of s) body) as [p|].
      + symmetry in Hs. apply check_payload_not_auth in Hs. congruence.
      + inversion Hs; subst. reflexivity.
  Qed.

  (* past authentication <=> well-formed envelope whose sealed part opens *)
  Lemma open_token_authenticated s t :
    (exists f, open_token s t = inl f /\ auth_fail f = true)
    \/ (exists body p, shape_of strict s t = ShWell body /\ openx k (aad_of s) body = Some p
                       /\ open_token s t = check_payload s p).
  Proof.
    pose proof (open_token_by_shape s t) as Hs.
    destruct (shape_of strict s t) as [|v|body] eqn:E.
    - left. destruct Hs as (f & Hf & [->|[->| ->]]); eexists; split; eauto.
    - left. eexists; split; eauto.
    - destruct (openx k (aad_of s) body) as [p|] eqn:Eo.
      + right. exists body, p. auto.
      + left. eexists; split; eauto.
  Qed.

  Lemma open_token_ok_inv s t x :
    open_token s t = inr x ->
    exists body p, shape_of strict s t = ShWell body /\ openx k (aad_of s) body = Some p
                   /\ check_payload s p = inr x.
  Proof.
    intro H. destruct (open_token_authenticated s t) as [(f & Hf & _)|(body & p & Hs & Ho & He)].
    - congruence.
    - exists body, p. rewrite H in He. auto.
  Qed.

  (* ---- the handler ---- *)
  Notation handle := (handle K openx strict k).

  (* no user code unless the cursor opened, the call was resolved and the method matched *)
  Fixpoint ordered (cur res meth : bool) (tr : list act) : bool :=
    match tr with
    | [] => true
    | a :: r =>
        if user_code a then cur && res && meth && ordered cur res meth r
        else match a with
             | AOpenCursor true => ordered true res meth r
             | ACacheGet true | AOpenCall true => ordered cur true meth r
             | AMethodCheck true => ordered cur res true r
             | _ => ordered cur res meth r
             end
    end.

  Definition responds (tr : list act) (st : N) (l : label) : Prop := last_resp tr = (st, l).

  (* every run of the handler is one of these; the success flags in the trace are sound *)
  Lemma handle_cases cold c q :
    let tr := fst (handle cold c q) in
    ordered false false false tr = true
    /\ ((responds tr 200 LOk
         /\ map ev_code (filter user_code tr) = [1; 2; if q_cancel q then 5 else 3; 4]
         /\ exists tc cid r0, q_cursor q = Some tc /\ open_token SCursor tc = inr (cid, r0)
            /\ ((cold = false /\ cache_get c cid = Some (q_route q))
                \/ exists tk, q_call q = Some tk /\ open_token SCall tk = inr (cid, q_route q)
                              /\ (cold = true \/ cache_get c cid = None)))
        \/ (exists l, responds tr 400 l /\ l <> LOk /\ filter user_code tr = []
            /\ (forall tc f, q_cursor q = Some tc -> open_token SCursor tc = inl f -> l = label_of SCursor f))).
  Proof.
    unfold C12.handle, responds, run_user. destruct (q_cursor q) as [tc|] eqn:Eq.
    2:{ cbn. split; [reflexivity|]. right. exists LMissingState. repeat split; try discriminate. }
    destruct (open_token SCursor tc) as [f|[cid r0]] eqn:Eo.
    { cbn. split; [reflexivity|]. right. exists (label_of SCursor f). repeat split.
      - destruct f; discriminate.
      - intros tc' f' H1 H2. inversion H1; subst. rewrite Eo in H2. now inversion H2. }
    assert (Hno : forall tc' f', Some tc = Some tc' -> open_token SCursor tc' = inl f' -> False).
    { intros tc' f' H1 H2. inversion H1; subst. congruence. }
    destruct (if cold then None else cache_get c cid) as [m|] eqn:Ec.
    { destruct cold; [discriminate|].
      destruct (route_eqb m (q_route q)) eqn:Er; [destruct (q_cancel q)|]; cbn.
      1,2: split; [reflexivity|]; left; repeat split;
        exists tc, cid, r0; repeat split; auto; left; split; auto;
        destruct m, (q_route q); try discriminate; auto.
      split; [reflexivity|]. right. exists LWrongMethod. repeat split; try discriminate.
        intros; exfalso; eauto. }
    destruct (q_call q) as [[|x tk]|] eqn:Ek.
    { cbn. split; [reflexivity|]. right. exists LMissingCall. repeat split; try discriminate. intros; exfalso; eauto. }
    2:{ cbn. split; [reflexivity|]. right. exists LMissingCall. repeat split; try discriminate. intros; exfalso; eauto. }
    destruct (open_token SCall (x :: tk)) as [f|[cid' m]] eqn:Eo2.
    { cbn. split; [reflexivity|]. right. exists (label_of SCall f). repeat split.
      - destruct f; discriminate.
      - intros; exfalso; eauto. }
    destruct (cid' =? cid) eqn:Ei.
    2:{ cbn. split; [reflexivity|]. right. exists LMalformed. repeat split; try discriminate. intros; exfalso; eauto. }
    apply N.eqb_eq in Ei; subst cid'.
    destruct (route_eqb m (q_route q)) eqn:Er; [destruct (q_cancel q)|]; cbn.
    1,2: split; [reflexivity|]; left; repeat split;
      exists tc, cid, r0; repeat split; auto; right; exists (x :: tk); repeat split; auto;
      [destruct m, (q_route q); try discriminate; auto | destruct cold; auto].
    split; [reflexivity|]. right. exists LWrongMethod. repeat split; try discriminate.
      intros; exfalso; eauto.
  Qed.

  Lemma ordered_split cur res meth tr p a post :
    ordered cur res meth tr = true -> tr = p ++ a :: post -> user_code a = true ->
    (cur = true \/ In (AOpenCursor true) p)
    /\ (res = true \/ In (ACacheGet true) p \/ In (AOpenCall true) p)
    /\ (meth = true \/ In (AMethodCheck true) p).
  Proof.
    revert cur res meth tr. induction p as [|b p IH]; intros cur res meth tr Ho -> Hu.
    - cbn in Ho. rewrite Hu in Ho. apply andb_true_iff in Ho as [Ho _].
      apply andb_true_iff in Ho as [Ho ->]. apply andb_true_iff in Ho as [-> ->]. auto.
    - cbn [app ordered] in Ho. destruct (user_code b) eqn:Eb.
      + apply andb_true_iff in Ho as [Hf Ho]. specialize (IH _ _ _ _ Ho eq_refl Hu).
        destruct IH as (A & B & C). cbn [In]. repeat split; tauto.
      + destruct b; try destruct ok; try destruct hit; try discriminate;
          specialize (IH _ _ _ _ Ho eq_refl Hu); destruct IH as (A & B & C); cbn [In];
          repeat split; try tauto;
          try (destruct A as [A|A]; [discriminate A || auto | auto]);
          try (destruct B as [B|B]; [discriminate B || auto | tauto]);
          try (destruct C as [C|C]; [discriminate C || auto | auto]).
  Qed.

  Lemma user_code_after_opens cold c q p a post :
    fst (handle cold c q) = p ++ a :: post -> user_code a = true ->
    In (AOpenCursor true) p /\ (In (ACacheGet true) p \/ In (AOpenCall true) p) /\ In (AMethodCheck true) p.
  Proof.
    intros Hs Hu. destruct (handle_cases cold c q) as [Ho _].
    destruct (ordered_split _ _ _ _ _ _ _ Ho Hs Hu) as ([A|A] & [B|B] & [C|C]); try discriminate. auto.
  Qed.

  (* a cursor that fails to open decides the whole response, whatever else the request holds *)
  Lemma cursor_failure_response cold c q tc f :
    q_cursor q = Some tc -> open_token SCursor tc = inl f ->
    fst (handle cold c q) = [AReadBody; AParseRequest; AOpenCursor false; ARespond 400 (label_of SCursor f)].
  Proof. intros H1 H2. unfold C12.handle. rewrite H1, H2. reflexivity. Qed.
End Generic.

(* ---- ideal AEAD ------------------------------------------------------------------ *)
Section Ideal.
  Variable K : Type.
  Variable sealx : K -> N -> bytes -> payload -> bytes.     (* key, nonce, aad, plaintext |-> nonce ++ ct *)
  Variable openx : K -> bytes -> bytes -> option payload.
  (* INT-CTXT, ideal form: only what was sealed under (k, a) opens under (k, a) *)
  Hypothesis int_ctxt : forall k a c p, openx k a c = Some p -> exists n, c = sealx k n a p.
  Variable k : K.

  (* the texts a holder of [k] can produce for slot [s] *)
  Definition sealed_by (k' : K) (s : slot) (t : bytes) : Prop :=
    exists n p, t = b64enc (ver_of s :: sealx k' n (aad_of s) p).

  Lemma altered_refused_lemma s t :
    ~ sealed_by k s t ->
    exists f, open_token K openx true k s t = inl f /\ auth_fail f = true
              /\ label_of s f = shape_label s (shape_of true s t).
  Proof.
    intro Hn. destruct (open_token_authenticated K openx true k s t) as [(f & Hf & Ha)|(body & p & Hs & Ho & _)].
    - exists f. repeat split; auto. eapply open_token_fail_label; eauto.
    - exfalso. apply Hn. destruct (shape_well_inv true s t body Hs) as (_ & Hc & _).
      destruct (int_ctxt _ _ _ _ Ho) as [n ->]. exists n, p. now apply Hc.
  Qed.

  Lemma accepted_sealed_lemma s t x :
    open_token K openx true k s t = inr x -> sealed_by k s t.
  Proof.
    intro H. destruct (open_token_ok_inv K openx true k s t x H) as (body & p & Hs & Ho & _).
    destruct (shape_well_inv true s t body Hs) as (_ & Hc & _).
    destruct (int_ctxt _ _ _ _ Ho) as [n ->]. exists n, p. now apply Hc.
  Qed.

  (* before the fix: only the DECODED envelope is pinned down, not the text *)
  Lemma accepted_sealed_legacy_lemma s t x :
    open_token K openx false k s t = inr x ->
    exists n p, b64_lenient t = Some (ver_of s :: sealx k n (aad_of s) p).
  Proof.
    intro H. destruct (open_token_ok_inv K openx false k s t x H) as (body & p & Hs & Ho & _).
    destruct (shape_well_inv false s t body Hs) as (Hd & _ & _).
    destruct (int_ctxt _ _ _ _ Ho) as [n ->]. eauto.
  Qed.

  (* key- and AAD-binding: a ciphertext opens only under the key and associated data it was sealed with *)
  Hypothesis binds : forall k1 k2 n a1 a2 p p', openx k2 a2 (sealx k1 n a1 p) = Some p' -> k2 = k1 /\ a2 = a1.

  Lemma foreign_key_refused_lemma s t k' n a p :
    shape_of true s t = ShWell (sealx k' n a p) -> (k' <> k \/ a <> aad_of s) ->
    open_token K openx true k s t = inl FSignature.
  Proof.
    intros Hs Hk. pose proof (open_token_by_shape K openx true k s t) as H. rewrite Hs in H.
    destruct (openx k (aad_of s) (sealx k' n a p)) as [p'|] eqn:Eo; [|exact H].
    exfalso. destruct (binds _ _ _ _ _ _ _ Eo) as [E1 E2]. destruct Hk as [Hk|Hk]; apply Hk; now symmetry.
  Qed.

  (* the whole continuation *)
  Lemma continuation_accept_lemma cold c q :
    let tr := fst (handle K openx true k cold c q) in
    (exists a, In a tr /\ user_code a = true) \/ fst (last_resp tr) = 200 ->
    exists tc, q_cursor q = Some tc /\ sealed_by k SCursor tc
      /\ ((cold = false /\ exists cid, cache_get c cid = Some (q_route q))
          \/ exists tk, q_call q = Some tk /\ sealed_by k SCall tk).
  Proof.
    intros tr H. destruct (handle_cases K openx true k cold c q) as [_ [(Hr & _ & tc & cid & r0 & Hq & Ho & Hc)|(l & Hr & _ & Hf & _)]].
    - exists tc. split; [exact Hq|]. split; [eapply accepted_sealed_lemma; eauto|].
      destruct Hc as [[-> Hc]|(tk & Hk & Ho2 & _)]; [left; eauto|].
      right. exists tk. split; [exact Hk|]. eapply accepted_sealed_lemma; eauto.
    - exfalso. destruct H as [(a & Hi & Hu)|H].
      + fold tr in Hf. pose proof (filter_nil_no_user _ _ Hf Hi) as Hx. congruence.
      + fold tr in Hr. unfold responds in Hr. rewrite Hr in H. discriminate.
  Qed.
End Ideal.

(* ---- normalizeTokenKey ------------------------------------------------------------- *)
Definition norm_key (sha : bytes -> bytes) (key : bytes) : bytes :=
  if N.of_nat (length key) =? Z.to_N c12_key_size then key else sha key.

Lemma norm_key_identifies_lemma sha key :
  N.of_nat (length (sha key)) = Z.to_N c12_key_size -> N.of_nat (length key) <> Z.to_N c12_key_size ->
  sha key <> key /\ norm_key sha (sha key) = norm_key sha key.
Proof.
  intros Hl Hk. split; [intro E; rewrite E in Hl; contradiction|].
  unfold norm_key. rewrite Hl, N.eqb_refl. apply N.eqb_neq in Hk. now rewrite Hk.
Qed.

(* ---- the executable model meets the decidable specification ---------------------- *)
Lemma tbl_open_some tb k a body p :
  tbl_open tb k a body = Some p -> exists s, In (k, s, body, p) tb /\ aad_of s = a.
Proof.
  induction tb as [|[[[k' s] b] p'] r IH]; cbn; [discriminate|].
  destruct ((k' =? k) && beqb (aad_of s) a && beqb b body) eqn:E.
  - intro H; inversion H; subst. apply andb_true_iff in E as [E E3]. apply andb_true_iff in E as [E1 E2].
    apply N.eqb_eq in E1. apply beqb_eq in E2, E3. subst. exists s. auto.
  - intro H. destruct (IH H) as (s' & Hi & Ha). exists s'. auto.
Qed.

Lemma tbl_open_none tb k a body :
  (forall s p, In (k, s, body, p) tb -> aad_of s <> a) -> tbl_open tb k a body = None.
Proof.
  intro H. destruct (tbl_open tb k a body) as [p|] eqn:E; [|reflexivity].
  destruct (tbl_open_some _ _ _ _ _ E) as (s & Hi & Ha). exfalso. eapply H; eauto.
Qed.

Lemma in_table refs k s body p :
  In (k, s, body, p) (table_of refs) ->
  exists r, In r refs /\ r_key r = k /\ r_slot r = s /\ r_text r = b64enc (ver_of s :: body).
Proof.
  unfold table_of. rewrite in_flat_map. intros (r & Hr & Hi). exists r. split; [exact Hr|].
  unfold entry_of in Hi. destruct (b64_lenient (r_text r)) as [[|v b]|]; try contradiction.
  destruct ((v =? ver_of (r_slot r)) && beqb (b64enc (v :: b)) (r_text r)) eqn:E; [|contradiction].
  destruct Hi as [Hi|[]]. inversion Hi; subst. apply andb_true_iff in E as [E1 E2].
  apply N.eqb_eq in E1. apply beqb_eq in E2. subst v. auto.
Qed.

Lemma sealed_text_intro refs s t r :
  In r refs -> r_key r = 0 -> r_slot r = s -> r_text r = t -> sealed_text refs s t = true.
Proof.
  intros Hi Hk Hs Ht. unfold sealed_text. apply existsb_exists. exists r. split; [exact Hi|].
  rewrite Hk, Hs, Ht. cbn. rewrite beqb_refl. destruct s; reflexivity.
Qed.

Lemma open_well_sealed refs s t body p :
  shape_of true s t = ShWell body -> tbl_open (table_of refs) 0 (aad_of s) body = Some p ->
  sealed_text refs s t = true.
Proof.
  intros Hs Ho. destruct (shape_well_inv true s t body Hs) as (_ & Hc & _).
  destruct (tbl_open_some _ _ _ _ _ Ho) as (s' & Hi & Ha). apply aad_of_inj in Ha. subst s'.
  destruct (in_table _ _ _ _ _ Hi) as (r & Hr & Hk & Hsl & Ht).
  eapply sealed_text_intro; eauto. rewrite Ht. symmetry. now apply Hc.
Qed.

Lemma sealed_of_open refs s t x :
  open_token N (tbl_open (table_of refs)) true 0 s t = inr x -> sealed_text refs s t = true.
Proof.
  intro H. destruct (open_token_ok_inv _ _ _ _ _ _ _ H) as (body & p & Hs & Ho & _).
  eapply open_well_sealed; eauto.
Qed.

Lemma pobs_of_fields tr bid :
  o_label (pobs_of tr bid) = snd (last_resp tr) /\ o_body (pobs_of tr bid) = bid
  /\ o_status (pobs_of tr bid) = fst (last_resp tr)
  /\ o_evs (pobs_of tr bid) = map ev_code (filter user_code tr)
  /\ o_acc (pobs_of tr bid) = ((fst (last_resp tr) =? 200) && label_eqb (snd (last_resp tr)) LOk).
Proof. unfold pobs_of. destruct (last_resp tr) as [s l]. cbn. auto. Qed.

Lemma pres_ok_model refs cold c q bid :
  pres_ok refs cold (q_cursor q) (q_call q)
          (pobs_of (fst (handle N (tbl_open (table_of refs)) true 0 cold c q)) bid) = true.
Proof.
  set (tb := table_of refs).
  pose proof (handle_cases N (tbl_open tb) true 0 cold c q) as Hc0. cbv zeta in Hc0.
  remember (handle N (tbl_open tb) true 0 cold c q) as h eqn:Eh. destruct h as [tr c']. cbn [fst] in *.
  destruct (pobs_of_fields tr bid) as (Hl & _ & Hst & He & Ha).
  destruct Hc0 as [_ [(Hr & Hev & tc & cid & r0 & Hq & Ho & Hc)|(l & Hr & Hne & Hf & Hlab)]];
    unfold responds in Hr; unfold pres_ok; rewrite Ha, Hst, Hl, He, Hr; cbn [fst snd].
  - (* accepted *)
    rewrite Hq. cbn. pose proof (sealed_of_open _ _ _ _ Ho) as Hs. rewrite Hs. cbn.
    assert (Hx : expected_auth_label refs SCursor tc = None).
    { unfold expected_auth_label. destruct (open_token_ok_inv _ _ _ _ _ _ _ Ho) as (body & p & Hsh & _).
      rewrite Hsh, Hs. reflexivity. }
    rewrite Hx, andb_true_r.
    destruct cold; [|reflexivity].
    destruct Hc as [[Hc _]|(tk & Hk & Ho2 & _)]; [discriminate|].
    rewrite Hk. cbn. exact (sealed_of_open _ _ _ _ Ho2).
  - (* refused *)
    assert (E200 : (400 =? 200) = false) by reflexivity. rewrite E200. cbn [andb].
    rewrite Hf. cbn [map]. assert (Hce : client_error_label l = true) by (destruct l; auto; congruence).
    rewrite Hce. cbn [andb]. rewrite N.eqb_refl. cbn [andb].
    destruct (q_cursor q) as [tc|] eqn:Eq; [|reflexivity].
    unfold expected_auth_label.
    pose proof (open_token_by_shape N (tbl_open tb) true 0 SCursor tc) as Hs.
    destruct (shape_of true SCursor tc) as [|v|body] eqn:Esh.
    + destruct Hs as (f & Hf' & Hcl). rewrite (Hlab tc f eq_refl Hf').
      destruct Hcl as [->|[->| ->]]; reflexivity.
    + rewrite (Hlab tc _ eq_refl Hs). cbn. now rewrite !N.eqb_refl.
    + destruct (sealed_text refs SCursor tc) eqn:Ese; [reflexivity|].
      destruct (tbl_open tb 0 (aad_of SCursor) body) as [p|] eqn:Eo.
      * pose proof (open_well_sealed _ _ _ _ _ Esh Eo). congruence.
      * rewrite (Hlab tc _ eq_refl Hs). reflexivity.
Qed.

Lemma spec_run_model strict_unused refs rt cold cn :
  forall ps c bm, strict_unused = true ->
  spec_run refs cold bm ps (run strict_unused (table_of refs) refs rt cold cn c bm ps) = true.
Proof.
  induction ps as [|[mc mk] ps IH]; intros c bm ->; [reflexivity|].
  cbn [run].
  set (q := {| q_route := rt; q_cursor := present refs mc; q_call := present refs mk; q_cancel := cn |}).
  pose proof (pres_ok_model refs cold c q) as Hp.
  destruct (handle N (tbl_open (table_of refs)) true 0 cold c q) as [tr c'] eqn:Eh.
  cbn [fst] in Hp.
  destruct (body_id bm (snd (last_resp tr))) as [bid bm'] eqn:Eb.
  cbn [spec_run].
  destruct (pobs_of_fields tr bid) as (Hl & Hb & _).
  rewrite Hl, Eb, Hb, N.eqb_refl. specialize (Hp bid). cbn [q_cursor q_call q] in Hp. rewrite Hp.
  cbn [andb]. now apply IH.
Qed.

Lemma model_meets_spec : forall i, spec_ok i (model i) = true.
Proof. intro i. unfold spec_ok, model, model_with. now apply spec_run_model. Qed.

(* ---- before fix 99fee40: the text of an accepted token was not pinned down --------- *)
Definition legacy_raw : bytes := Z.to_N tokver_cursor :: repeat 7 42.       (* 43 bytes: two padding characters *)
Definition legacy_input (m : mut) : input :=
  {| i_route := RProd; i_cold := false; i_cancel := false;
     i_refs := [{| r_text := b64enc legacy_raw; r_key := 0; r_slot := SCursor; r_pay := PCursor false 0 |}];
     i_warm := [(0, RProd)]; i_fams := [FOne m MNone] |}.

Lemma legacy_newline_refuted_lemma :
  spec_ok (legacy_input (MIns 0 10 10)) (model_legacy (legacy_input (MIns 0 10 10))) = false
  /\ spec_ok (legacy_input (MAppend 0 [13; 10])) (model_legacy (legacy_input (MAppend 0 [13; 10]))) = false.
Proof. split; vm_compute; reflexivity. Qed.

(* text position 57 holds the four slack bits of a 43-byte envelope *)
Lemma legacy_slack_refuted_lemma :
  nth 57 (b64enc legacy_raw) 0 = 119 /\ nth 58 (b64enc legacy_raw) 0 = pad
  /\ spec_ok (legacy_input (MFlip 0 57 6)) (model_legacy (legacy_input (MFlip 0 57 6))) = false
  /\ map o_acc (model_legacy (legacy_input (MFlip 0 57 6))) = [true]
  /\ map o_acc (model (legacy_input (MFlip 0 57 6))) = [false]
  /\ map o_acc (model (legacy_input (MId 0))) = [true].
Proof. repeat split; vm_compute; reflexivity. Qed.

(* ---- a symbolic AEAD satisfying the premises (non-vacuity) ------------------------- *)
Definition pay_code (p : payload) : bytes :=
  match p with
  | PEmpty => [0] | PBadTag => [1] | PBadZstd => [2] | PBadGob => [3]
  | PCursor e c => [4; if e then 1 else 0; c]
  | PCall e c m => [5; if e then 1 else 0; c; match m with RProd => 0 | RExch => 1 end]
  end.
Definition pay_decode (b : bytes) : option payload :=
  match b with
  | [0] => Some PEmpty | [1] => Some PBadTag | [2] => Some PBadZstd | [3] => Some PBadGob
  | [4; e; c] => Some (PCursor (e =? 1) c)
  | [5; e; c; m] => Some (PCall (e =? 1) c (if m =? 0 then RProd else RExch))
  | _ => None
  end.
(* 40 zero bytes stand for nonce and tag; then key, nonce, |aad|, aad, plaintext in clear *)
Definition sym_sealx (k n : N) (a : bytes) (p : payload) : bytes :=
  repeat 0 40 ++ k :: n :: N.of_nat (length a) :: a ++ pay_code p.
Definition sym_openx (k : N) (a c : bytes) : option payload :=
  match nth_error c 41 with
  | Some n => match pay_decode (skipn (43 + length a) c) with
              | Some p => if beqb c (sym_sealx k n a p) then Some p else None
              | None => None
              end
  | None => None
  end.

Lemma sym_int_ctxt k a c p : sym_openx k a c = Some p -> exists n, c = sym_sealx k n a p.
Proof.
  unfold sym_openx. destruct (nth_error c 41) as [n|]; [|discriminate].
  destruct (pay_decode _) as [p'|]; [|discriminate].
  destruct (beqb c (sym_sealx k n a p')) eqn:E; [|discriminate].
  intro H; inversion H; subst. apply beqb_eq in E. eauto.
Qed.

Lemma app_same_length_inv {A} (a1 a2 x y : list A) :
  length a1 = length a2 -> a1 ++ x = a2 ++ y -> a1 = a2.
Proof.
  revert a2; induction a1 as [|h t IH]; intros [|h2 t2] Hl H; try discriminate; [reflexivity|].
  cbn in *. inversion H; subst. f_equal. apply IH; [now inversion Hl | assumption].
Qed.

Lemma sym_binds k1 k2 n a1 a2 p p' :
  sym_openx k2 a2 (sym_sealx k1 n a1 p) = Some p' -> k2 = k1 /\ a2 = a1.
Proof.
  intro H. destruct (sym_int_ctxt _ _ _ _ H) as [n' E]. unfold sym_sealx in E.
  apply app_inv_head in E. inversion E as [[Hk Hn Hl Ha]]. split; [now symmetry|].
  apply Nat2N.inj in Hl. symmetry. eapply app_same_length_inv; eauto.
Qed.

Lemma sym_correct_example :
  sym_openx 7 (aad_of SCursor) (sym_sealx 7 3 (aad_of SCursor) (PCursor false 9)) = Some (PCursor false 9)
  /\ sym_openx 8 (aad_of SCursor) (sym_sealx 7 3 (aad_of SCursor) (PCursor false 9)) = None
  /\ sym_openx 7 (aad_of SCall) (sym_sealx 7 3 (aad_of SCursor) (PCursor false 9)) = None.
Proof. repeat split; vm_compute; reflexivity. Qed.
