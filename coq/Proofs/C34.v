(* Proofs/C34.v — lemmas for the shared-memory allocator. *)
From VR Require Import Model.C34.
From Coq Require Import ZifyBool ZifyN ZifyNat Lia.
Open Scope N_scope.
Local Arguments N.eqb : simpl never.
Local Arguments N.leb : simpl never.
Local Arguments N.ltb : simpl never.
Local Arguments N.add : simpl never.
Local Arguments N.sub : simpl never.
Local Arguments N.mul : simpl never.
Local Arguments N.div : simpl never.
Local Arguments N.modulo : simpl never.
Local Arguments N.pow : simpl never.
Local Arguments N.of_nat : simpl never.
Local Arguments N.to_nat : simpl never.
Local Arguments Z.to_N : simpl never.
Local Arguments Z.leb : simpl never.

(* ---- the invariant ---------------------------------------------------- *)
(* every region starts at or after the end of its predecessor (the first one at
   or after [lo]), is non-empty, and the last one ends at or before [hi] *)
Fixpoint chain (lo hi : N) (t : tbl) : Prop :=
  match t with
  | [] => lo <= hi
  | (o, l) :: r => lo <= o /\ 0 < l /\ chain (o + l) hi r
  end.

Definition Inv (size : N) (t : tbl) : Prop :=
  chain HDR size t /\ N.of_nat (length t) <= MAXA /\ size < W.

Lemma chain_b_iff lo hi t : chain_b lo hi t = true <-> chain lo hi t.
Proof.
  revert lo; induction t as [|[o l] r IH]; intro lo; cbn [chain_b chain].
  - lia.
  - rewrite !andb_true_iff, IH, N.leb_le, N.ltb_lt. tauto.
Qed.

Lemma inv_b_iff size t : inv_b size t = true <-> Inv size t.
Proof. unfold inv_b, Inv. rewrite !andb_true_iff, chain_b_iff, N.leb_le, N.ltb_lt. tauto. Qed.

Lemma chain_le lo hi t : chain lo hi t -> lo <= hi.
Proof.
  revert lo; induction t as [|[o l] r IH]; intro lo; cbn [chain]; [lia|].
  intros (H1 & H2 & H3). apply IH in H3. lia.
Qed.

Lemma chain_mono lo lo' hi t : lo' <= lo -> chain lo hi t -> chain lo' hi t.
Proof. destruct t as [|[o l] r]; cbn [chain]; intuition lia. Qed.

Definition inside (lo hi : N) (e : N * N) : Prop := lo <= fst e /\ 0 < snd e /\ fst e + snd e <= hi.
Definition before (a b : N * N) : Prop := fst a + snd a <= fst b.

Lemma chain_facts lo hi t :
  chain lo hi t -> Forall (inside lo hi) t /\ ForallOrdPairs before t.
Proof.
  revert lo; induction t as [|[o l] r IH]; intro lo; cbn [chain].
  - intros _. split; constructor.
  - intros (H1 & H2 & H3). pose proof (chain_le _ _ _ H3) as Hle.
    destruct (IH _ H3) as [Hin Hord]. split.
    + constructor; [unfold inside; cbn [fst snd]; lia|].
      eapply Forall_impl; [|exact Hin]. intros e He. unfold inside in *. lia.
    + constructor; [|exact Hord].
      eapply Forall_impl; [|exact Hin]. intros e He. unfold inside, before in *. cbn [fst snd]. lia.
Qed.

(* ---- first fit ---------------------------------------------------------- *)
Lemma alloc_from_spec size sz : size < W -> 0 < sz -> forall t prev,
  chain prev size t ->
  alloc_from size sz prev t =
    match first_gap_ge sz (gaps_from prev size t) with
    | Some g => Some (fst g, insert_sorted (fst g, sz) t)
    | None => None
    end
  /\ (forall g, first_gap_ge sz (gaps_from prev size t) = Some g ->
        prev <= fst g /\ chain prev size (insert_sorted (fst g, sz) t)).
Proof.
  intros Hsize Hsz. unfold first_gap_ge.
  induction t as [|[o l] r IH]; intros prev Hc; cbn [chain] in Hc;
    cbn [alloc_from gaps_from find snd fst].
  - assert (Es : sub64 size prev = size - prev) by (unfold sub64; destruct (prev <=? size) eqn:E; lia).
    rewrite Es. destruct (sz <=? size - prev) eqn:E.
    + split; [reflexivity|]. intros g Hg. inversion Hg; subst g. cbn [fst insert_sorted chain]. lia.
    + split; [reflexivity|]. intros g Hg; discriminate.
  - destruct Hc as (H1 & H2 & H3). pose proof (chain_le _ _ _ H3) as Hle.
    assert (Es : sub64 o prev = o - prev) by (unfold sub64; destruct (prev <=? o) eqn:E; lia).
    assert (Ea : add64 o l = o + l) by (unfold add64; cbv zeta; destruct (o + l <? W) eqn:E; lia).
    rewrite Es, Ea. destruct (sz <=? o - prev) eqn:E.
    + cbn [fst insert_sorted]. assert (Hlt : (prev <? o) = true) by lia. rewrite Hlt.
      split; [reflexivity|]. intros g Hg. inversion Hg; subst g. cbn [fst insert_sorted]. rewrite Hlt.
      cbn [chain]. repeat split; try assumption; lia.
    + destruct (IH _ H3) as [IHe IHc]. rewrite IHe.
      destruct (find (fun x : N * N => sz <=? snd x) (gaps_from (o + l) size r)) as [g|] eqn:Fg.
      * destruct (IHc g eq_refl) as [Hg1 Hg2].
        cbn [insert_sorted fst]. assert (Hlt : (fst g <? o) = false) by lia. rewrite Hlt.
        split; [reflexivity|]. intros g' Hg'. inversion Hg'; subst g'.
        cbn [insert_sorted fst]. rewrite Hlt. cbn [chain]. repeat split; try assumption; lia.
      * split; [reflexivity|]. intros g' Hg'; discriminate.
Qed.

Lemma insert_sorted_length e t : length (insert_sorted e t) = S (length t).
Proof.
  induction t as [|x r IH]; cbn [insert_sorted length]; [reflexivity|].
  destruct (fst e <? fst x); cbn [length]; [reflexivity | now rewrite IH].
Qed.

Lemma alloc_eq_spec size n t : Inv size t -> alloc size n t = spec_alloc size n t.
Proof.
  intros (Hc & Hl & Hs). unfold alloc, spec_alloc.
  destruct (n <=? 0)%Z eqn:En; [reflexivity|].
  destruct (MAXA <=? N.of_nat (length t)) eqn:Em; [reflexivity|].
  unfold gaps. apply (alloc_from_spec size (Z.to_N n)); [exact Hs | lia | exact Hc].
Qed.

Lemma alloc_inv size n t off t' : Inv size t -> alloc size n t = Some (off, t') -> Inv size t'.
Proof.
  intros HI Ha. pose proof HI as (Hc & Hl & Hs). rewrite (alloc_eq_spec _ _ _ HI) in Ha.
  unfold spec_alloc in Ha.
  destruct (n <=? 0)%Z eqn:En; [discriminate|].
  destruct (MAXA <=? N.of_nat (length t)) eqn:Em; [discriminate|].
  destruct (first_gap_ge (Z.to_N n) (gaps size t)) as [g|] eqn:Fg; [|discriminate].
  inversion Ha; subst off t'. clear Ha.
  assert (Hn : 0 < Z.to_N n) by lia.
  destruct (alloc_from_spec size (Z.to_N n) Hs Hn t HDR Hc) as [_ Hg].
  destruct (Hg g Fg) as [_ Hch]. split; [exact Hch|]. split; [|exact Hs].
  rewrite insert_sorted_length. lia.
Qed.

Lemma canfit_from_alloc size sz t : forall prev,
  canfit_from size sz prev t = match alloc_from size sz prev t with Some _ => true | None => false end.
Proof.
  induction t as [|[o l] r IH]; intro prev; cbn [canfit_from alloc_from].
  - destruct (sz <=? sub64 size prev); reflexivity.
  - destruct (sz <=? sub64 o prev); [reflexivity|]. rewrite IH.
    destruct (alloc_from size sz (add64 o l) r) as [[? ?]|]; reflexivity.
Qed.

Lemma canfit_alloc size n t :
  canfit size n t = match alloc size n t with Some _ => true | None => false end.
Proof.
  unfold canfit, alloc. destruct (n <=? 0)%Z; [reflexivity|].
  destruct (MAXA <=? N.of_nat (length t)); [reflexivity|]. apply canfit_from_alloc.
Qed.

(* [find]: the hit is the FIRST element that satisfies the test *)
Lemma find_first {A} (f : A -> bool) l :
  match find f l with
  | Some g => exists pre post, l = pre ++ g :: post /\ Forall (fun x => f x = false) pre /\ f g = true
  | None => Forall (fun x => f x = false) l
  end.
Proof.
  induction l as [|x r IH]; cbn [find]; [constructor|].
  destruct (f x) eqn:E.
  - exists [], r. repeat split; [constructor | exact E].
  - destruct (find f r) as [g|].
    + destruct IH as (pre & post & E1 & E2 & E3). exists (x :: pre), post.
      subst r. repeat split; [constructor; assumption | exact E3].
    + constructor; assumption.
Qed.

(* ---- free ------------------------------------------------------------- *)
Lemma filter_keep_all off r :
  Forall (fun e : N * N => off < fst e) r -> filter (fun e => negb (starts_at off e)) r = r.
Proof.
  induction r as [|x r IH]; intro H; cbn [filter]; [reflexivity|].
  inversion H as [|? ? Hx Hr]; subst. unfold starts_at at 1.
  assert (E : (fst x =? off) = false) by lia. rewrite E. cbn [negb]. now rewrite IH.
Qed.

Lemma existsb_none off r :
  Forall (fun e : N * N => off < fst e) r -> existsb (starts_at off) r = false.
Proof.
  induction r as [|x r IH]; intro H; cbn [existsb]; [reflexivity|].
  inversion H as [|? ? Hx Hr]; subst. unfold starts_at at 1.
  assert (E : (fst x =? off) = false) by lia. rewrite E. cbn [orb]. now apply IH.
Qed.

Lemma free_eq_spec off hi t : forall lo, chain lo hi t -> free off t = spec_free off t.
Proof.
  unfold spec_free. induction t as [|[o l] r IH]; intros lo Hc; cbn [free existsb filter].
  - reflexivity.
  - cbn [chain] in Hc. destruct Hc as (H1 & H2 & H3).
    unfold starts_at at 1 3. cbn [fst].
    destruct (o =? off) eqn:E; cbn [orb negb].
    + assert (Hall : Forall (fun e : N * N => off < fst e) r).
      { destruct (chain_facts _ _ _ H3) as [Hin _]. eapply Forall_impl; [|exact Hin].
        intros e He. unfold inside in He. lia. }
      rewrite filter_keep_all by exact Hall. reflexivity.
    + rewrite (IH _ H3). destruct (existsb (starts_at off) r); reflexivity.
Qed.

Lemma free_chain off hi t : forall lo t', chain lo hi t -> free off t = Some t' ->
  chain lo hi t' /\ length t = S (length t').
Proof.
  induction t as [|[o l] r IH]; intros lo t' Hc Hf; cbn [free] in Hf; [discriminate|].
  cbn [chain] in Hc. destruct Hc as (H1 & H2 & H3).
  destruct (o =? off).
  - inversion Hf; subst t'. split; [|reflexivity]. eapply chain_mono; [|exact H3]. lia.
  - destruct (free off r) as [r'|] eqn:Fr; [|discriminate]. inversion Hf; subst t'.
    destruct (IH _ _ H3 eq_refl) as [Hc' Hl]. cbn [chain length]. repeat split; try assumption. lia.
Qed.

Lemma free_inv size off t t' : Inv size t -> free off t = Some t' -> Inv size t'.
Proof.
  intros (Hc & Hl & Hs) Hf. destruct (free_chain _ _ _ _ _ Hc Hf) as [Hc' Hlen].
  split; [exact Hc'|]. split; [lia | exact Hs].
Qed.

(* ---- one step: the model agrees with the specification, invariant kept --- *)
Lemma inv_nil size t : Inv size t -> Inv size [].
Proof.
  intros (Hc & Hl & Hs). apply chain_le in Hc. split; [exact Hc|]. split; [|exact Hs].
  cbn [length]. lia.
Qed.

Lemma step_spec size t o : Inv size t ->
  step size t o = spec_step size t o /\ Inv size (snd (step size t o)).
Proof.
  intro HI. destruct o as [n|est total|off|]; cbn [step spec_step].
  - rewrite <- (alloc_eq_spec _ _ _ HI). split; [reflexivity|].
    destruct (alloc size n t) as [[off t']|] eqn:Ea; cbn [snd]; [|exact HI].
    eapply alloc_inv; eassumption.
  - rewrite canfit_alloc, <- !(alloc_eq_spec _ _ _ HI).
    destruct (alloc size est t) as [[? ?]|]; [|split; [reflexivity | exact HI]].
    split; [reflexivity|].
    destruct (alloc size total t) as [[off t']|] eqn:Ea; cbn [snd]; [|exact HI].
    eapply alloc_inv; eassumption.
  - pose proof HI as (Hc & _). rewrite <- (free_eq_spec off _ _ _ Hc). split; [reflexivity|].
    destruct (free off t) as [t'|] eqn:Ef; cbn [snd]; [|exact HI].
    eapply free_inv; eassumption.
  - split; [reflexivity|]. cbn [snd]. eapply inv_nil; exact HI.
Qed.

Lemma run_inv_from size ops : forall t, Inv size t ->
  Inv size (fold_left (fun t o => snd (step size t o)) ops t).
Proof.
  induction ops as [|o ops IH]; intros t HI; cbn [fold_left]; [exact HI|].
  apply IH. apply step_spec; exact HI.
Qed.

Lemma inv_all_reachable_l size ops : HDR <= size -> size < W -> Inv size (run size ops).
Proof.
  intros H1 H2. apply run_inv_from. split; [exact H1|]. split; [|exact H2].
  cbn [length]. vm_compute. discriminate.
Qed.

Lemma inv_readable_l size t : Inv size t ->
  Forall (inside HDR size) t /\ ForallOrdPairs before t /\ N.of_nat (length t) <= MAXA.
Proof.
  intros (Hc & Hl & _). destruct (chain_facts _ _ _ Hc) as [A B]. repeat split; assumption.
Qed.

(* ---- header codec ------------------------------------------------------ *)
Lemma unle_le k : forall v, v < 256 ^ N.of_nat k -> unle (le k v) = v.
Proof.
  induction k as [|k IH]; intros v Hv; cbn [le unle].
  - change (N.of_nat 0) with 0 in Hv. rewrite N.pow_0_r in Hv. lia.
  - rewrite Nat2N.inj_succ, N.pow_succ_r' in Hv.
    rewrite IH.
    + pose proof (N.div_mod v 256). lia.
    + apply N.div_lt_upper_bound; lia.
Qed.

Lemma pow4 : 256 ^ N.of_nat 4 = 4294967296. Proof. reflexivity. Qed.
Lemma pow8 : 256 ^ N.of_nat 8 = W. Proof. reflexivity. Qed.

Lemma le4_eq v : le 4 v = [v mod 256; v / 256 mod 256; v / 256 / 256 mod 256; v / 256 / 256 / 256 mod 256].
Proof. reflexivity. Qed.
Lemma le8_eq v : le 8 v =
  [v mod 256; v / 256 mod 256; v / 256 / 256 mod 256; v / 256 / 256 / 256 mod 256;
   v / 256 / 256 / 256 / 256 mod 256; v / 256 / 256 / 256 / 256 / 256 mod 256;
   v / 256 / 256 / 256 / 256 / 256 / 256 mod 256; v / 256 / 256 / 256 / 256 / 256 / 256 / 256 mod 256].
Proof. reflexivity. Qed.

(* the layout constants recovered from the compiled code are the documented ones *)
Lemma layout_l :
  shm_magic = [86; 71; 73; 83] /\ VERSION = 1 /\ HDR = 65536 /\ MAXA = 4094 /\
  OFF_MAGIC = 0%nat /\ OFF_VER = 4%nat /\ OFF_DS = 8%nat /\ OFF_COUNT = 16%nat /\
  OFF_ENTRIES = 24%nat /\ ENTRY = 16%nat /\ LEN_OFF = 8%nat /\
  shm_fixed_size = Z.of_nat OFF_ENTRIES /\ shm_entry_size = Z.of_nat ENTRY /\
  (shm_fixed_size + shm_entry_size * shm_max_allocs <= shm_header_size)%Z.
Proof. repeat split; vm_compute; congruence. Qed.

Lemma read_entries_enc junk t :
  Forall (fun e : N * N => fst e < W /\ snd e < W) t ->
  read_entries (length t) (flat_map enc_entry t ++ junk) = t.
Proof.
  induction t as [|[o l] r IH]; intro H; cbn [length read_entries flat_map]; [reflexivity|].
  inversion H as [|? ? [Ho Hl] Hr]; subst. cbn [fst snd] in Ho, Hl.
  destruct layout_l as (_ & _ & _ & _ & _ & _ & _ & _ & _ & EE & EL & _). rewrite EE, EL.
  unfold enc_entry. cbn [fst snd]. rewrite !le8_eq.
  cbn [app slice skipn firstn]. rewrite <- !le8_eq.
  rewrite !unle_le by (rewrite pow8; assumption).
  f_equal. apply IH; exact Hr.
Qed.

Lemma header_roundtrip_l size t junk : HDR <= size -> Inv size t ->
  decode_header (encode_header size t ++ junk) = Some (size, t).
Proof.
  intros Hsz (Hc & Hl & Hs).
  destruct layout_l as (EM & EV & EH & EA & E0 & E1 & E2 & E3 & E4 & _).
  unfold decode_header, encode_header. rewrite E0, E1, E2, E3, E4, EM.
  rewrite !le4_eq, !le8_eq. cbn [app length slice skipn firstn].
  rewrite <- !le4_eq, <- !le8_eq.
  rewrite beqb_refl. cbn [negb].
  assert (Hlen : N.of_nat (length t) < 4294967296) by (rewrite EA in Hl; lia).
  rewrite !unle_le; try (rewrite pow4; first [exact Hlen | rewrite EV; lia]); try (rewrite pow8; lia).
  rewrite N.eqb_refl. cbn [negb].
  assert (Hm : (MAXA <? N.of_nat (length t)) = false) by lia. rewrite Hm.
  rewrite Nat2N.id. f_equal. f_equal; [lia|].
  apply read_entries_enc.
  destruct (chain_facts _ _ _ Hc) as [Hin _]. eapply Forall_impl; [|exact Hin].
  intros e He. unfold inside in He. lia.
Qed.

(* ---- the decidable form holds on the model ---------------------------------- *)
Lemma entry_eqb_refl e : entry_eqb e e = true.
Proof. unfold entry_eqb. now rewrite !N.eqb_refl. Qed.
Lemma tbl_eqb_refl t : tbl_eqb t t = true.
Proof. induction t as [|e r IH]; cbn; [reflexivity|]. now rewrite entry_eqb_refl, IH. Qed.
Lemma res_eqb_refl r : res_eqb r r = true.
Proof.
  destruct r as [[x|]|[[a b]|]|b| |x|]; cbn; try reflexivity.
  - apply N.eqb_refl.
  - now rewrite N.eqb_refl, Z.eqb_refl.
  - now destruct b.
  - apply N.eqb_refl.
Qed.

Lemma snap_ok_model size t : HDR <= size -> Inv size t -> snap_ok size t (snapshot size t) = true.
Proof.
  intros Hs HI. unfold snap_ok, snapshot. cbn [fst snd].
  rewrite tbl_eqb_refl. apply inv_b_iff in HI as Hb. rewrite Hb.
  rewrite <- (app_nil_r (encode_header size t)), header_roundtrip_l by assumption.
  now rewrite N.eqb_refl, tbl_eqb_refl.
Qed.

Lemma run_obs_spec size : HDR <= size -> forall ops t, Inv size t ->
  spec_steps size t ops (fst (run_obs size t ops)) = Some (snd (run_obs size t ops))
  /\ Inv size (snd (run_obs size t ops)).
Proof.
  intro Hs. induction ops as [|[sn o] ops IH]; intros t HI; cbn [run_obs spec_steps fst snd].
  - split; [reflexivity | exact HI].
  - destruct (step_spec size t o HI) as [Es HI'].
    rewrite <- Es. destruct (step size t o) as [r t'] eqn:St. cbn [snd] in HI'.
    destruct (IH t' HI') as [IH1 IH2].
    destruct (run_obs size t' ops) as [os tf] eqn:Ro. cbn [fst snd] in *.
    rewrite res_eqb_refl.
    assert (Ho : osnap_ok size sn t' (if sn then Some (snapshot size t') else None) = true).
    { destruct sn; cbn [osnap_ok]; [apply snap_ok_model; assumption | reflexivity]. }
    rewrite Ho. cbn [andb]. split; assumption.
Qed.

Lemma model_meets_spec i : spec_ok i (model i) = true.
Proof.
  unfold spec_ok, model.
  destruct (MAXINT <? i_size i)%Z eqn:Emax; [reflexivity|].
  destruct (i_size i <=? HDRz)%Z eqn:Eh; [reflexivity|].
  assert (Hs : HDR <= Z.to_N (i_size i)).
  { unfold HDR, HDRz in *. destruct layout_l as (_ & _ & EH & _). unfold HDR in EH. lia. }
  assert (Hw : Z.to_N (i_size i) < W) by (unfold MAXINT, W in *; lia).
  assert (HI : Inv (Z.to_N (i_size i)) []).
  { split; [exact Hs|]. split; [|exact Hw]. vm_compute. discriminate. }
  destruct (run_obs_spec _ Hs (i_ops i) [] HI) as [E1 E2].
  destruct (run_obs (Z.to_N (i_size i)) [] (i_ops i)) as [os tf]. cbn [fst snd] in *.
  rewrite E1. destruct (i_child i); cbn [osnap_ok]; [apply snap_ok_model; assumption | reflexivity].
Qed.

(* ---- readable statements ------------------------------------------------- *)
Lemma alloc_first_fit_l size t n : Inv size t ->
  match alloc size n t with
  | Some (off, t') =>
      (0 < n)%Z /\ N.of_nat (length t) < MAXA /\
      exists pre g post,
        gaps size t = pre ++ g :: post /\
        Forall (fun x => snd x < Z.to_N n) pre /\ Z.to_N n <= snd g /\
        off = fst g /\ t' = insert_sorted (off, Z.to_N n) t /\ Inv size t'
  | None =>
      (n <= 0)%Z \/ MAXA <= N.of_nat (length t) \/ Forall (fun x => snd x < Z.to_N n) (gaps size t)
  end.
Proof.
  intro HI. pose proof (alloc_inv size n t) as Hinv.
  rewrite (alloc_eq_spec _ _ _ HI) in *. unfold spec_alloc in *.
  destruct (n <=? 0)%Z eqn:En; [left; lia|].
  destruct (MAXA <=? N.of_nat (length t)) eqn:Em; [right; left; lia|].
  unfold first_gap_ge in *.
  pose proof (find_first (fun x : N * N => Z.to_N n <=? snd x) (gaps size t)) as Hf.
  destruct (find (fun x : N * N => Z.to_N n <=? snd x) (gaps size t)) as [g|].
  - destruct Hf as (pre & post & E1 & E2 & E3).
    split; [lia|]. split; [lia|]. exists pre, g, post.
    split; [exact E1|]. split.
    { eapply Forall_impl; [|exact E2]. cbv beta. intros a Ha. lia. }
    split; [lia|]. split; [reflexivity|]. split; [reflexivity|].
    eapply Hinv; [exact HI | reflexivity].
  - right; right. eapply Forall_impl; [|exact Hf]. cbv beta. intros a Ha. lia.
Qed.

Lemma free_exact_l size t off : Inv size t ->
  match free off t with
  | Some t' =>
      (exists l, In (off, l) t) /\
      t' = filter (fun e => negb (fst e =? off)) t /\
      length t = S (length t') /\ Inv size t'
  | None => forall l, ~ In (off, l) t
  end.
Proof.
  intro HI. pose proof HI as (Hc & _).
  pose proof (free_inv size off t) as Hinv. pose proof (free_chain off size t HDR) as Hch.
  rewrite (free_eq_spec off _ _ _ Hc) in *. unfold spec_free in *.
  destruct (existsb (starts_at off) t) eqn:Ex.
  - apply existsb_exists in Ex. destruct Ex as ([o l] & Hin & Hst). unfold starts_at in Hst. cbn [fst] in Hst.
    assert (o = off) by lia. subst o.
    split; [exists l; exact Hin|]. split; [reflexivity|].
    split; [apply (Hch _ Hc eq_refl) | apply (Hinv _ HI eq_refl)].
  - intros l Hin. assert (Ht : existsb (starts_at off) t = true).
    { apply existsb_exists. exists (off, l). split; [exact Hin|]. unfold starts_at. cbn [fst]. lia. }
    congruence.
Qed.

(* outside the invariant (a header scribbled on by a peer: entries out of order)
   the uint64 subtraction wraps and allocateLocked hands out a region that ends
   past the end of the segment *)
Lemma alloc_outside_invariant_unsafe_l :
  exists size t n off t',
    ~ Inv size t /\ alloc size n t = Some (off, t') /\ size < off + Z.to_N n.
Proof.
  exists (HDR + 100), [(HDR + 50, 10); (HDR + 20, 10)], 60%Z, (HDR + 60),
         [(HDR + 50, 10); (HDR + 60, 60); (HDR + 20, 10)].
  split; [|split; vm_compute; reflexivity].
  intro HI. apply inv_b_iff in HI. vm_compute in HI. discriminate.
Qed.
