(* Proofs/C27.v — lemmas and proofs for property C27 (browser OAuth login). *)
From VR Require Import Model.C27.
From Coq Require Import ZifyBool ZifyN ZifyNat Lia.
Open Scope N_scope.
Local Arguments N.eqb : simpl never.
Local Arguments N.ltb : simpl never.
Local Arguments N.leb : simpl never.
Local Arguments N.modulo : simpl never.
Local Arguments N.div : simpl never.
Local Arguments N.mul : simpl never.
Local Arguments N.add : simpl never.
Local Arguments N.pow : simpl never.
Local Arguments Z.modulo : simpl never.
Local Arguments Z.ltb : simpl never.
Local Arguments Z.leb : simpl never.
Local Arguments Z.sub : simpl never.
Local Arguments N.to_nat : simpl never.
Local Arguments N.of_nat : simpl never.
Local Arguments firstn : simpl nomatch.
Local Arguments skipn : simpl nomatch.

(* ---- constants the proofs depend on (a changed constant breaks these) ---- *)
Lemma maclen_32 : MACLEN = 32%nat. Proof. reflexivity. Qed.
Lemma version_byte : VERSION < 256. Proof. reflexivity. Qed.
Lemma session_age_pos : (0 < SESSION_MAX_AGE < two63)%Z. Proof. split; reflexivity. Qed.
Lemma rt_max_small : RT_MAX < 65536. Proof. reflexivity. Qed.
Lemma orig_max_small : 2 <= ORIG_MAX /\ ORIG_MAX < 65536. Proof. split; [discriminate | reflexivity]. Qed.
Lemma nonce_lens_small : Z.to_N pkce_verifier_len < 65536 /\ 0 < Z.to_N pkce_state_len < 65536.
Proof. repeat split. Qed.

(* ---- little endian ------------------------------------------------------- *)
Lemma length_le_bytes k n : length (le_bytes k n) = k.
Proof. revert n; induction k as [|k IH]; intro n; cbn [le_bytes length]; [reflexivity | now rewrite IH]. Qed.

Lemma le_val_le_bytes k n : le_val (le_bytes k n) = n mod 256 ^ N.of_nat k.
Proof.
  revert n; induction k as [|k IH]; intro n.
  - cbn [le_bytes le_val]. change (N.of_nat 0) with 0. rewrite N.pow_0_r, N.mod_1_r. reflexivity.
  - cbn [le_bytes le_val]. rewrite IH.
    replace (N.of_nat (S k)) with (N.succ (N.of_nat k)) by lia.
    rewrite N.pow_succ_r'.
    rewrite N.mod_mul_r; [reflexivity | discriminate | apply N.pow_nonzero; discriminate].
Qed.

Lemma le_val_le16 n : n < 65536 -> le_val (le16 n) = n.
Proof.
  intro H. unfold le16. rewrite le_val_le_bytes.
  change (256 ^ N.of_nat 2) with 65536. now apply N.mod_small.
Qed.

Lemma le_val_le64 n : n < 18446744073709551616 -> le_val (le64 n) = n.
Proof.
  intro H. unfold le64. rewrite le_val_le_bytes.
  change (256 ^ N.of_nat 8) with 18446744073709551616. now apply N.mod_small.
Qed.

Lemma le16_shape n : exists a b, le16 n = [a; b].
Proof. unfold le16. cbn [le_bytes]. eauto. Qed.

(* ---- int64 / uint64 conversions ----------------------------------------- *)
Lemma to_u64_lt z : to_u64 z < 18446744073709551616.
Proof.
  unfold to_u64, two64. pose proof (Z.mod_pos_bound z 18446744073709551616 eq_refl). lia.
Qed.

Lemma to_i64_to_u64 z : (- two63 <= z < two63)%Z -> to_i64 (to_u64 z) = z.
Proof.
  unfold to_i64, to_u64, two63, two64. intros [H1 H2].
  rewrite Z2N.id by (apply Z.mod_pos_bound; reflexivity).
  destruct (Z.ltb_spec (z mod 18446744073709551616) 9223372036854775808) as [L|L].
  - destruct (Z.lt_ge_cases z 0) as [Neg|Pos].
    + exfalso. rewrite <- (Z.mod_add z 1) in L by discriminate.
      rewrite Z.mod_small in L by lia. lia.
    + apply Z.mod_small. lia.
  - destruct (Z.lt_ge_cases z 0) as [Neg|Pos].
    + rewrite <- (Z.mod_add z 1) by discriminate. rewrite Z.mod_small by lia. lia.
    + exfalso. rewrite Z.mod_small in L by lia. lia.
Qed.

Lemma wrap64_small z : (- two63 <= z < two63)%Z -> wrap64 z = z.
Proof. apply to_i64_to_u64. Qed.

Lemma wrap64_high z : (two63 <= z < two64)%Z -> (wrap64 z < 0)%Z.
Proof.
  unfold wrap64, to_i64, to_u64, two63, two64. intros [H1 H2].
  rewrite Z2N.id by (apply Z.mod_pos_bound; reflexivity).
  rewrite Z.mod_small by lia.
  destruct (Z.ltb_spec z 9223372036854775808); lia.
Qed.

(* the code's age test decides exactly [fresh] for a sane clock *)
Lemma stale_fresh now max c :
  (0 <= now < two63)%Z -> (max < two63)%Z -> (- two63 <= c < two63)%Z ->
  stale now max (to_u64 c) = negb (fresh now max c).
Proof.
  intros Hn Hm Hc. unfold stale, fresh. rewrite to_i64_to_u64 by exact Hc.
  destruct (Z.ltb_spec 0 max) as [P|P]; cbn [andb negb orb]; [|reflexivity].
  destruct (Z.lt_ge_cases (now - c) two63) as [S|B].
  - rewrite wrap64_small by (unfold two63 in *; lia).
    destruct (Z.ltb_spec (now - c) 0), (Z.ltb_spec max (now - c)),
      (Z.leb_spec c now), (Z.leb_spec (now - c) max); cbn; try reflexivity; lia.
  - pose proof (wrap64_high (now - c)) as W.
    assert (W' : (wrap64 (now - c) < 0)%Z) by (apply W; unfold two63, two64 in *; lia).
    destruct (Z.ltb_spec (wrap64 (now - c)) 0); [|lia]. cbn [orb].
    destruct (Z.leb_spec c now), (Z.leb_spec (now - c) max); cbn; try reflexivity.
    unfold two63 in *; lia.
Qed.

(* ---- one field ----------------------------------------------------------- *)
Lemma read_field_lp x rest :
  lenN x < 65536 -> read_field (lp x ++ rest) = Some (x, rest).
Proof.
  intro H. unfold lp. destruct (le16_shape (lenN x)) as (a & b & E).
  pose proof (le_val_le16 _ H) as V. rewrite E in V. rewrite E.
  cbn [app]. unfold read_field. rewrite V. unfold lenN.
  rewrite Nnat.Nat2N.id.
  replace (length x <=? length (x ++ rest))%nat with true
    by (symmetry; apply Nat.leb_le; rewrite app_length; lia).
  unfold take, drop. now rewrite take_app_len, drop_app_len.
Qed.

Lemma read4_fields v s u r :
  lenN v < 65536 -> lenN s < 65536 -> lenN u < 65536 -> lenN r < 65536 ->
  read4 (lp v ++ lp s ++ lp u ++ lp r) = Accepted v s u r.
Proof.
  intros Hv Hs Hu Hr. unfold read4.
  rewrite read_field_lp by exact Hv. rewrite read_field_lp by exact Hs.
  rewrite read_field_lp by exact Hu.
  rewrite <- (app_nil_r (lp r)). rewrite read_field_lp by exact Hr. reflexivity.
Qed.

Lemma fields_ok_spec f : fields_ok f = true <->
  lenN (f_verifier f) < 65536 /\ lenN (f_state f) < 65536 /\ lenN (f_url f) < 65536 /\ lenN (f_rt f) < 65536.
Proof. unfold fields_ok. rewrite !andb_true_iff, !N.ltb_lt. tauto. Qed.

Lemma created_ok_spec f : created_ok f = true <-> (- two63 <= f_created f < two63)%Z.
Proof. unfold created_ok. rewrite andb_true_iff, Z.leb_le, Z.ltb_lt. tauto. Qed.

Definition body (f : fields) : bytes := lp (f_verifier f) ++ lp (f_state f) ++ lp (f_url f) ++ lp (f_rt f).

Lemma payload_shape f : payload f = VERSION :: le64 (to_u64 (f_created f)) ++ body f.
Proof. reflexivity. Qed.

Lemma length_payload_ge f : (17 <= length (payload f))%nat.
Proof.
  rewrite payload_shape. cbn [length]. rewrite app_length. unfold le64. rewrite length_le_bytes.
  unfold body, lp. rewrite !app_length. unfold le16. rewrite !length_le_bytes. lia.
Qed.

(* no guard needed up to the age test *)
Lemma unpack_payload_payload f now max :
  unpack_payload (payload f) now max =
    if stale now max (to_u64 (f_created f)) then Refused else read4 (body f).
Proof.
  rewrite payload_shape. unfold unpack_payload. rewrite N.eqb_refl. cbn [negb].
  assert (L : length (le64 (to_u64 (f_created f))) = 8%nat) by apply length_le_bytes.
  set (ts := le64 (to_u64 (f_created f))) in *.
  replace (take 8 (ts ++ body f)) with ts by (rewrite <- L; unfold take; now rewrite take_app_len).
  replace (drop 8 (ts ++ body f)) with (body f) by (rewrite <- L; unfold drop; now rewrite drop_app_len).
  subst ts. rewrite le_val_le64 by apply to_u64_lt. reflexivity.
Qed.

Lemma unpack_payload_ok f now max :
  fields_ok f = true -> created_ok f = true -> (0 <= now < two63)%Z -> (max < two63)%Z ->
  unpack_payload (payload f) now max =
    if fresh now max (f_created f)
    then Accepted (f_verifier f) (f_state f) (f_url f) (f_rt f) else Refused.
Proof.
  intros Hf Hc Hn Hm. rewrite unpack_payload_payload.
  apply created_ok_spec in Hc. rewrite stale_fresh by assumption.
  apply fields_ok_spec in Hf. destruct Hf as (A & B & C & D).
  unfold body. rewrite read4_fields by assumption.
  destruct (fresh now max (f_created f)); reflexivity.
Qed.

(* ---- whole cookie -------------------------------------------------------- *)
Section Codec.
  Variable mac : bytes -> bytes -> bytes.
  Hypothesis mac_len : forall k m, length (mac k m) = MACLEN.

  Lemma unpack_raw_split key p now max :
    (17 <= length p)%nat ->
    unpack_raw mac key (p ++ mac key p) now max = unpack_payload p now max.
  Proof.
    intro L. unfold unpack_raw. rewrite app_length, mac_len, maclen_32.
    replace (length p + 32 <? MINLEN)%nat with false
      by (symmetry; apply Nat.ltb_ge; unfold MINLEN; lia).
    replace (length p + 32 - 32)%nat with (length p) by lia.
    unfold take, drop. rewrite take_app_len, drop_app_len, beqb_refl. reflexivity.
  Qed.

  Lemma roundtrip_raw key f now max :
    fields_ok f = true -> created_ok f = true -> (0 <= now < two63)%Z -> (max < two63)%Z ->
    unpack_raw mac key (pack_raw mac key f) now max =
      if fresh now max (f_created f)
      then Accepted (f_verifier f) (f_state f) (f_url f) (f_rt f) else Refused.
  Proof.
    intros. unfold pack_raw. rewrite unpack_raw_split by apply length_payload_ge.
    now apply unpack_payload_ok.
  Qed.

  Lemma expired_raw key f now max :
    created_ok f = true -> (0 <= now < two63)%Z -> (0 < max < two63)%Z ->
    fresh now max (f_created f) = false ->
    unpack_raw mac key (pack_raw mac key f) now max = Refused.
  Proof.
    intros Hc Hn Hm Hx. unfold pack_raw. rewrite unpack_raw_split by apply length_payload_ge.
    rewrite unpack_payload_payload. apply created_ok_spec in Hc.
    rewrite stale_fresh by (try assumption; lia). now rewrite Hx.
  Qed.

  (* an accepted cookie carries the genuine tag of its own payload *)
  Lemma accepted_genuine key raw now max v s u r :
    unpack_raw mac key raw now max = Accepted v s u r ->
    exists p, raw = p ++ mac key p /\ (17 <= length p)%nat /\ unpack_payload p now max = Accepted v s u r.
  Proof.
    unfold unpack_raw. destruct (Nat.ltb_spec (length raw) MINLEN) as [S|L]; [discriminate|].
    destruct (beqb (drop (length raw - MACLEN) raw) (mac key (take (length raw - MACLEN) raw))) eqn:T;
      cbn [negb]; [|discriminate].
    intro H. apply beqb_eq in T. exists (take (length raw - MACLEN) raw). repeat split.
    - rewrite <- T. unfold take, drop. symmetry. apply firstn_skipn.
    - unfold take. rewrite firstn_length. rewrite maclen_32. unfold MINLEN in L. lia.
    - exact H.
  Qed.

  Lemma short_refused key raw now max :
    (length raw < MINLEN)%nat -> unpack_raw mac key raw now max = Refused.
  Proof.
    intro H. unfold unpack_raw. apply Nat.ltb_lt in H. now rewrite H.
  Qed.

  (* unforgeability as a premise about ONE presented cookie: if it carries a
     genuine tag, its payload is one the key holder MACed *)
  Definition unforgeable (key : bytes) (issued : list fields) (raw : bytes) : Prop :=
    forall p, raw = p ++ mac key p -> exists f, In f issued /\ p = payload f.

  Lemma not_issued_refused key issued raw now max :
    unforgeable key issued raw ->
    (forall f, In f issued -> raw <> pack_raw mac key f) ->
    unpack_raw mac key raw now max = Refused.
  Proof.
    intros U N. destruct (unpack_raw mac key raw now max) as [v s u r|] eqn:E; [|reflexivity].
    exfalso. apply accepted_genuine in E as (p & R & _ & _).
    destruct (U p R) as (f & I & P). apply (N f I). subst. reflexivity.
  Qed.

  Lemma accepted_is_issued key issued raw now max v s u r :
    unforgeable key issued raw ->
    (forall f, In f issued -> fields_ok f = true /\ created_ok f = true) ->
    (0 <= now < two63)%Z -> (max < two63)%Z ->
    unpack_raw mac key raw now max = Accepted v s u r ->
    exists f, In f issued /\ raw = pack_raw mac key f
      /\ v = f_verifier f /\ s = f_state f /\ u = f_url f /\ r = f_rt f
      /\ fresh now max (f_created f) = true.
  Proof.
    intros U G Hn Hm E. apply accepted_genuine in E as (p & R & _ & P).
    destruct (U p R) as (f & I & ->). exists f. destruct (G f I) as [Gf Gc].
    rewrite unpack_payload_ok in P by assumption.
    destruct (fresh now max (f_created f)); [|discriminate].
    inversion P. subst. split; [exact I|]. repeat split; reflexivity.
  Qed.

  (* collision-freeness premises (weaker than unforgeability) *)
  Lemma foreign_key_refused k k' f now max :
    (forall m, mac k m = mac k' m -> k = k') -> k <> k' ->
    unpack_raw mac k (pack_raw mac k' f) now max = Refused.
  Proof.
    intros C N. unfold pack_raw, unpack_raw. rewrite app_length, mac_len, maclen_32.
    pose proof (length_payload_ge f).
    replace (length (payload f) + 32 <? MINLEN)%nat with false
      by (symmetry; apply Nat.ltb_ge; unfold MINLEN; lia).
    replace (length (payload f) + 32 - 32)%nat with (length (payload f)) by lia.
    unfold take, drop. rewrite take_app_len, drop_app_len.
    destruct (beqb (mac k' (payload f)) (mac k (payload f))) eqn:E; [|reflexivity].
    apply beqb_eq in E. symmetry in E. apply C in E. contradiction.
  Qed.

  Lemma payload_altered_refused k f p' now max :
    (forall m m', mac k m = mac k m' -> m = m') -> p' <> payload f ->
    unpack_raw mac k (p' ++ mac k (payload f)) now max = Refused.
  Proof.
    intros C N. unfold unpack_raw. rewrite app_length, mac_len, maclen_32.
    destruct (Nat.ltb_spec (length p' + 32) MINLEN); [reflexivity|].
    replace (length p' + 32 - 32)%nat with (length p') by lia.
    unfold take, drop. rewrite take_app_len, drop_app_len.
    destruct (beqb (mac k (payload f)) (mac k p')) eqn:E; [|reflexivity].
    apply beqb_eq in E. apply C in E. congruence.
  Qed.

  (* text level: base64 as oracles (padded encoder, unpadded encoder, two decoders) *)
  Section Text.
    Variables (enc enc_raw : bytes -> bytes) (dec_pad dec_raw : bytes -> option bytes).

    Lemma roundtrip_text key f now max :
      (forall x, dec_pad (enc x) = Some x) -> (forall x, trim_pad (enc x) = enc_raw x) ->
      fields_ok f = true -> created_ok f = true -> (0 <= now < two63)%Z -> (max < two63)%Z ->
      unpack_text enc_raw dec_pad dec_raw mac key (pack_text enc mac key f) now max =
        if fresh now max (f_created f)
        then Accepted (f_verifier f) (f_state f) (f_url f) (f_rt f) else Refused.
    Proof.
      intros DE ET. intros. unfold unpack_text, pack_text, decode. rewrite DE, ET, beqb_refl. cbn [negb].
      now apply roundtrip_raw.
    Qed.

    (* the tolerated equivalence: the same cookie with its '=' padding stripped *)
    Lemma roundtrip_text_unpadded key f now max :
      (forall x, decode dec_pad dec_raw (enc_raw x) = Some x) -> (forall x, trim_pad (enc_raw x) = enc_raw x) ->
      fields_ok f = true -> created_ok f = true -> (0 <= now < two63)%Z -> (max < two63)%Z ->
      unpack_text enc_raw dec_pad dec_raw mac key (enc_raw (pack_raw mac key f)) now max =
        if fresh now max (f_created f)
        then Accepted (f_verifier f) (f_state f) (f_url f) (f_rt f) else Refused.
    Proof.
      intros DE ET. intros. unfold unpack_text. rewrite DE, ET, beqb_refl. cbn [negb].
      now apply roundtrip_raw.
    Qed.

    Lemma unpack_text_inv key text now max v s u r :
      unpack_text enc_raw dec_pad dec_raw mac key text now max = Accepted v s u r ->
      exists raw, decode dec_pad dec_raw text = Some raw /\ enc_raw raw = trim_pad text /\
                  unpack_raw mac key raw now max = Accepted v s u r.
    Proof.
      unfold unpack_text. destruct (decode dec_pad dec_raw text) as [raw|]; [|discriminate].
      destruct (beqb (enc_raw raw) (trim_pad text)) eqn:C; cbn [negb]; [|discriminate].
      intro H. exists raw. apply beqb_eq in C. auto.
    Qed.

    (* any text that is not an issued text (up to trailing '=') is refused *)
    Lemma not_issued_text_refused key issued text now max :
      (forall x, trim_pad (enc x) = enc_raw x) ->
      (forall raw, decode dec_pad dec_raw text = Some raw -> unforgeable key issued raw) ->
      (forall f, In f issued -> trim_pad text <> trim_pad (pack_text enc mac key f)) ->
      unpack_text enc_raw dec_pad dec_raw mac key text now max = Refused.
    Proof.
      intros ET U N.
      destruct (unpack_text enc_raw dec_pad dec_raw mac key text now max) as [v s u r|] eqn:E; [|reflexivity].
      exfalso. apply unpack_text_inv in E as (raw & D & C & A).
      apply accepted_genuine in A as (p & R & _ & _).
      destruct (U raw D p R) as (f & I & P). apply (N f I).
      unfold pack_text, pack_raw. rewrite ET, <- C. subst. reflexivity.
    Qed.

    Lemma accepted_text_is_issued key issued text now max v s u r :
      (forall x, trim_pad (enc x) = enc_raw x) ->
      (forall raw, decode dec_pad dec_raw text = Some raw -> unforgeable key issued raw) ->
      (forall f, In f issued -> fields_ok f = true /\ created_ok f = true) ->
      (0 <= now < two63)%Z -> (max < two63)%Z ->
      unpack_text enc_raw dec_pad dec_raw mac key text now max = Accepted v s u r ->
      exists f, In f issued /\ trim_pad text = trim_pad (pack_text enc mac key f)
        /\ v = f_verifier f /\ s = f_state f /\ u = f_url f /\ r = f_rt f
        /\ fresh now max (f_created f) = true.
    Proof.
      intros ET U G Hn Hm E. apply unpack_text_inv in E as (raw & D & C & A).
      destruct (accepted_is_issued key issued raw now max v s u r (U raw D) G Hn Hm A)
        as (f & I & R & Rest).
      exists f. split; [exact I|]. split; [|exact Rest].
      unfold pack_text. rewrite ET, <- C. now subst.
    Qed.
  End Text.
End Codec.

(* framing: the MAC input determines the field tuple *)
Lemma payload_injective f g :
  fields_ok f = true -> created_ok f = true -> fields_ok g = true -> created_ok g = true ->
  payload f = payload g -> f = g.
Proof.
  intros Ff Cf Fg Cg E.
  assert (A : unpack_payload (payload f) 0 0 = unpack_payload (payload g) 0 0) by now rewrite E.
  rewrite !unpack_payload_ok in A by (try assumption; try (split; reflexivity); reflexivity).
  cbn in A. inversion A as [[Hv Hs Hu Hr]].
  assert (B : le_val (take 8 (tl (payload f))) = le_val (take 8 (tl (payload g)))) by now rewrite E.
  rewrite !payload_shape in B. cbn [tl] in B.
  assert (L : forall h, length (le64 (to_u64 (f_created h))) = 8%nat) by (intro; apply length_le_bytes).
  assert (T : forall h, take 8 (le64 (to_u64 (f_created h)) ++ body h) = le64 (to_u64 (f_created h))).
  { intro h. rewrite <- (L h) at 1. unfold take. now rewrite take_app_len. }
  rewrite !T in B.
  rewrite !le_val_le64 in B by apply to_u64_lt.
  apply (f_equal to_i64) in B. apply created_ok_spec in Cf, Cg.
  rewrite !to_i64_to_u64 in B by assumption.
  destruct f, g; cbn in *; subst; reflexivity.
Qed.

Lemma pack_injective mac key f g :
  (forall k m, length (mac k m) = MACLEN) ->
  fields_ok f = true -> created_ok f = true -> fields_ok g = true -> created_ok g = true ->
  pack_raw mac key f = pack_raw mac key g -> f = g.
Proof.
  intros ML Ff Cf Fg Cg E. apply payload_injective; try assumption.
  unfold pack_raw in E.
  assert (L : length (payload f) = length (payload g)).
  { apply (f_equal (@length N)) in E. rewrite !app_length, !ML in E. lia. }
  apply (f_equal (take (length (payload f)))) in E.
  unfold take in E. rewrite take_app_len in E. rewrite L in E. now rewrite take_app_len in E.
Qed.

(* ---- redirect target validation (relative to the url.Parse oracle) ------- *)
Lemma is_nil_spec s : is_nil s = true <-> s = [].
Proof. destruct s; cbn; split; intro H; try reflexivity; discriminate. Qed.
Lemma is_nil_false s : is_nil s = false <-> s <> [].
Proof. destruct s; cbn; split; intro H; try discriminate; try reflexivity; congruence. Qed.

Lemma memb_In x l : memb x l = true <-> In x l.
Proof.
  unfold memb. rewrite existsb_exists. split.
  - intros (y & I & E). apply beqb_eq in E. now subst.
  - intro I. exists x. split; [exact I | apply beqb_refl].
Qed.

Lemma validate_return_cases parse allow u :
  validate_return parse allow u = [] \/
  (validate_return parse allow u = u /\ is_nil u = false /\ lenN u <= RT_MAX /\
   exists r, parse u = Some r /\ web_scheme (u_scheme r) = true /\ is_nil (u_host r) = false /\
             origin_allowed allow (u_scheme r) (u_hostname r) (u_port r) = true).
Proof.
  unfold validate_return.
  destruct (is_nil u) eqn:Nu; cbn [orb]; [left; reflexivity|].
  destruct (N.ltb_spec RT_MAX (lenN u)) as [Lg|Ls]; [left; reflexivity|].
  destruct (parse u) as [r|]; [|left; reflexivity].
  destruct (web_scheme (u_scheme r)) eqn:W; cbn [negb]; [|left; reflexivity].
  destruct (is_nil (u_host r)) eqn:H; [left; reflexivity|].
  unfold origin_allowed.
  destruct (is_localhost (u_hostname r) && beqb (u_scheme r) s_http) eqn:A.
  { right. repeat split; try assumption. exists r. repeat split; try assumption. now rewrite A. }
  destruct (memb (origin_of (u_scheme r) (u_hostname r)) allow) eqn:B.
  { right. repeat split; try assumption. exists r. repeat split; try assumption. rewrite A, B. reflexivity. }
  destruct (negb (is_nil (u_port r)) && memb (origin_port_of (u_scheme r) (u_hostname r) (u_port r)) allow) eqn:C.
  { right. repeat split; try assumption. exists r. repeat split; try assumption. rewrite A, B, C. reflexivity. }
  left; reflexivity.
Qed.

Lemma validate_return_len parse allow u : lenN (validate_return parse allow u) <= RT_MAX.
Proof.
  destruct (validate_return_cases parse allow u) as [E | (E & _ & L & _)]; rewrite E.
  - unfold lenN. cbn [length]. apply N.le_0_l.
  - exact L.
Qed.

Lemma return_go_model parse allow u :
  return_go_ok u allow (parse u) (validate_return parse allow u) = true.
Proof.
  unfold return_go_ok.
  destruct (validate_return_cases parse allow u) as [E | (E & Nu & L & r & P & W & H & A)]; rewrite E.
  - reflexivity.
  - rewrite Nu, beqb_refl, P, W, H, A. cbn [orb andb negb].
    apply N.leb_le in L. now rewrite L.
Qed.

Lemma return_spec_model parse allow u :
  parse_sane u allow (parse u) = true ->
  return_spec u allow (parse u) (validate_return parse allow u) = true.
Proof.
  intro S. unfold return_spec. rewrite return_go_model. cbn [andb].
  unfold parse_sane in S.
  change (validate_return (fun _ => parse u) allow u) with (validate_return parse allow u) in S.
  destruct (validate_return_cases parse allow u) as [E | (E & Nu & L & r & P & W & H & A)]; rewrite E in *.
  - reflexivity.
  - rewrite Nu in *. cbn [orb] in *. rewrite P in S.
    unfold agrees in S. unfold browser_allowed.
    destruct (browser_origin u) as [[[s h] p]|]; [|discriminate].
    apply andb_true_iff in S as [S Sp]. apply andb_true_iff in S as [Ss Sh].
    apply beqb_eq in Ss, Sh, Sp. now subst.
Qed.

(* readable form *)
Lemma return_valid parse allow u o :
  validate_return parse allow u = o -> o <> [] ->
  o = u /\ lenN u <= RT_MAX /\ exists r, parse u = Some r
    /\ (u_scheme r = s_http \/ u_scheme r = s_https) /\ u_host r <> []
    /\ ( (is_localhost (u_hostname r) = true /\ u_scheme r = s_http)
         \/ In (origin_of (u_scheme r) (u_hostname r)) allow
         \/ (u_port r <> [] /\ In (origin_port_of (u_scheme r) (u_hostname r) (u_port r)) allow) ).
Proof.
  intros E N. destruct (validate_return_cases parse allow u) as [E0 | (E1 & Nu & L & r & P & W & H & A)].
  - congruence.
  - split; [congruence|]. split; [exact L|]. exists r. split; [exact P|].
    split. { unfold web_scheme in W. apply orb_true_iff in W as [W|W]; apply beqb_eq in W; auto. }
    split. { now apply is_nil_false. }
    unfold origin_allowed in A. apply orb_true_iff in A as [A|A]; [apply orb_true_iff in A as [A|A]|].
    + left. apply andb_true_iff in A as [A1 A2]. apply beqb_eq in A2. auto.
    + right; left. now apply memb_In.
    + right; right. apply andb_true_iff in A as [A1 A2]. split.
      * apply is_nil_false. now destruct (is_nil (u_port r)).
      * now apply memb_In.
Qed.

Lemma has_prefix_refl p : has_prefix p p = true.
Proof. rewrite <- (app_nil_r p) at 2. apply has_prefix_app. Qed.

Lemma validate_original_cases parse u p :
  validate_original parse u p = fallback p \/
  (validate_original parse u p = trunc_orig u /\ has_prefix p (trunc_orig u) = true /\
   exists r, parse (trunc_orig u) = Some r /\ is_nil (u_scheme r) = true /\ is_nil (u_host r) = true).
Proof.
  unfold validate_original. destruct (parse (trunc_orig u)) as [r|]; [|left; reflexivity].
  destruct (is_nil (u_scheme r)) eqn:S; cbn [negb orb]; [|left; reflexivity].
  destruct (is_nil (u_host r)) eqn:H; cbn [negb]; [|left; reflexivity].
  destruct (is_nil p) eqn:Np; cbn [negb andb].
  - right. apply is_nil_spec in Np. subst p. repeat split. exists r. auto.
  - destruct (has_prefix p (trunc_orig u)) eqn:HP; cbn [negb]; [|left; reflexivity].
    right. repeat split. exists r. auto.
Qed.

Lemma orig_go_model parse u p :
  orig_go_ok u p (parse (trunc_orig u)) (validate_original parse u p) = true.
Proof.
  unfold orig_go_ok.
  destruct (validate_original_cases parse u p) as [E | (E & HP & r & P & S & H)]; rewrite E.
  - now rewrite beqb_refl.
  - rewrite beqb_refl, P, S, H, HP. apply orb_true_r.
Qed.

Lemma lenN_take n s : lenN (take n s) <= N.of_nat n.
Proof. unfold lenN, take. rewrite firstn_length. lia. Qed.

Lemma validate_original_len parse u p :
  lenN (validate_original parse u p) <= N.max ORIG_MAX (N.max (lenN p) 1).
Proof.
  destruct (validate_original_cases parse u p) as [E | (E & _)]; rewrite E.
  - unfold fallback. destruct (is_nil p); [change (lenN s_slash) with 1; lia | lia].
  - unfold trunc_orig. destruct (N.ltb_spec ORIG_MAX (lenN u)).
    + pose proof (lenN_take (N.to_nat ORIG_MAX) u). lia.
    + lia.
Qed.

(* browser-style reading *)
Lemma starts_safe_same t : starts_safe t = true -> browser_kind t = BSame.
Proof.
  destruct t as [|a rest]; [discriminate|]. cbn [starts_safe].
  intro H. apply andb_true_iff in H as [A R]. apply N.eqb_eq in A. subst a.
  unfold browser_kind, clean. cbn [filter].
  change (negb (is_tabnl 47)) with true. cbn iota.
  destruct rest as [|c r].
  - reflexivity.
  - apply andb_true_iff in R as [R1 R2]. cbn [filter]. rewrite R2.
    cbn [drop_c0]. change (47 <=? 32) with false. cbn iota.
    change (is_slash 47) with true. cbn [andb].
    apply negb_true_iff in R1. rewrite R1.
    unfold has_scheme. change (is_alpha 47) with false. reflexivity.
Qed.

Lemma good_prefix_safe p t : good_prefix p = true -> has_prefix p t = true -> starts_safe t = true.
Proof.
  destruct p as [|a [|c p']]; try discriminate. cbn [good_prefix].
  intro G. apply andb_true_iff in G as [G G3]. apply andb_true_iff in G as [G1 G2].
  destruct t as [|a' [|c' t']]; cbn [has_prefix]; try discriminate.
  - intro H. apply andb_true_iff in H as [_ H]. discriminate.
  - intro H. apply andb_true_iff in H as [E1 H]. apply andb_true_iff in H as [E2 _].
    apply N.eqb_eq in E1, E2. subst. cbn [starts_safe]. now rewrite G1, G2, G3.
Qed.

Lemma starts_safe_trunc u : starts_safe u = true -> starts_safe (trunc_orig u) = true.
Proof.
  intro Hs. unfold trunc_orig. destruct (ORIG_MAX <? lenN u); [|exact Hs].
  change (N.to_nat ORIG_MAX) with (S (S (N.to_nat 2046))).
  destruct u as [|a [|c r]]; try exact Hs.
Qed.

Lemma orig_browser_model parse u p :
  good_prefix p || (is_nil p && starts_safe u) = true ->
  orig_browser_ok p (validate_original parse u p) = true.
Proof.
  intro G. unfold orig_browser_ok.
  assert (K : starts_safe (validate_original parse u p) = true /\ has_prefix p (validate_original parse u p) = true).
  { destruct (validate_original_cases parse u p) as [E | (E & HP & _)]; rewrite E.
    - apply orb_true_iff in G as [G|G].
      + assert (Np : is_nil p = false) by (destruct p; [discriminate | reflexivity]).
        unfold fallback. rewrite Np. split; [|apply has_prefix_refl].
        apply (good_prefix_safe p p G (has_prefix_refl p)).
      + apply andb_true_iff in G as [Np _]. unfold fallback. rewrite Np.
        apply is_nil_spec in Np. subst p. split; reflexivity.
    - split; [|exact HP]. apply orb_true_iff in G as [G|G].
      + exact (good_prefix_safe _ _ G HP).
      + apply andb_true_iff in G as [_ S]. now apply starts_safe_trunc. }
  destruct K as [K1 K2]. rewrite (starts_safe_same _ K1), K2. reflexivity.
Qed.

Lemma orig_spec_model parse u p :
  orig_spec u p (parse (trunc_orig u)) (validate_original parse u p) = true.
Proof.
  unfold orig_spec. rewrite orig_go_model. cbn [andb].
  destruct (good_prefix p || (is_nil p && starts_safe u)) eqn:G; [|reflexivity].
  now apply orig_browser_model.
Qed.

(* the validator alone (empty prefix, input not shaped by the routes) keeps a
   target that a browser reads as another origin *)
Lemma orig_unpinned_refuted :
  exists parse u, browser_kind (validate_original parse u []) = BNetwork.
Proof.
  exists (fun _ => Some {| u_scheme := []; u_host := []; u_hostname := []; u_port := [] |}).
  exists (str "/\evil.example"). vm_compute. reflexivity.
Qed.

(* ---- the callback handler ------------------------------------------------ *)
Section Callback.
  Variables (enc_raw : bytes -> bytes) (dec_pad dec_raw : bytes -> option bytes)
            (mac : bytes -> bytes -> bytes) (parse : bytes -> option urlrec) (key : bytes) (now : Z).

  Definition quiet (o : cbout) : Prop :=
    co_base o = [] /\ co_bearer o = false /\ co_auth o = None /\ co_status o <> 302.

  Lemma callback_no_leak i : co_leak (callback enc_raw dec_pad dec_raw mac parse key now i) = false.
  Proof.
    unfold callback.
    destruct (is_nil (cb_error i)); cbn [negb]; [|reflexivity].
    destruct (is_nil (cb_code i) || is_nil (cb_state i)); [reflexivity|].
    destruct (cb_cookie i) as [[|t0 text]|]; try reflexivity.
    destruct (unpack_text enc_raw dec_pad dec_raw mac key (t0 :: text) now SESSION_MAX_AGE) as [v s u r|]; [|reflexivity].
    destruct (beqb (cb_state i) s); cbn [negb]; [|reflexivity].
    destruct (cb_disc i); cbn [negb]; [|reflexivity].
    destruct (cb_exch i) as [[|k0 tok]|]; try reflexivity.
    destruct (is_nil r); reflexivity.
  Qed.

  (* every run of the handler is one of: refused before any exchange; exchange
     attempted (exactly once, with the packed verifier) and failed; exchange
     succeeded and the token goes either into a redirect to the packed return URL
     or into the auth cookie with a redirect to the validated original URL *)
  Lemma callback_inv i :
    let o := callback enc_raw dec_pad dec_raw mac parse key now i in
    (co_trace o = [] /\ quiet o)
    \/ exists text v s u r,
         cb_cookie i = Some text /\ text <> [] /\
         unpack_text enc_raw dec_pad dec_raw mac key text now SESSION_MAX_AGE = Accepted v s u r /\
         cb_state i = s /\ cb_error i = [] /\ cb_code i <> [] /\ cb_disc i = true /\
         co_trace o = [(cb_code i, v)] /\
         ( quiet o
           \/ exists tok, cb_exch i = ExOk tok /\ tok <> [] /\ co_status o = 302 /\
                ( (r <> [] /\ co_bearer o = true /\ co_base o = r /\ co_auth o = None)
                  \/ (r = [] /\ co_bearer o = false /\ co_auth o = Some tok /\
                      co_base o = validate_original parse u (cb_prefix i)) ) ).
  Proof.
    assert (Q : forall st tr, quiet (cb_fail st tr) <-> st <> 302) by (intros; unfold quiet; cbn; tauto).
    cbv zeta. unfold callback.
    destruct (is_nil (cb_error i)) eqn:E; cbn [negb]; [|left; split; [reflexivity | apply Q; discriminate]].
    destruct (is_nil (cb_code i)) eqn:C; cbn [orb]; [left; split; [reflexivity | apply Q; discriminate]|].
    destruct (is_nil (cb_state i)) eqn:S; [left; split; [reflexivity | apply Q; discriminate]|].
    destruct (cb_cookie i) as [[|t0 text]|] eqn:K; try (left; split; [reflexivity | apply Q; discriminate]).
    destruct (unpack_text enc_raw dec_pad dec_raw mac key (t0 :: text) now SESSION_MAX_AGE) as [v s u r|] eqn:U;
      [|left; split; [reflexivity | apply Q; discriminate]].
    destruct (beqb (cb_state i) s) eqn:St; cbn [negb]; [|left; split; [reflexivity | apply Q; discriminate]].
    destruct (cb_disc i) eqn:D; cbn [negb]; [|left; split; [reflexivity | apply Q; discriminate]].
    apply beqb_eq in St. apply is_nil_spec in E. apply is_nil_false in C.
    right. exists (t0 :: text), v, s, u, r.
    split; [reflexivity|]. split; [discriminate|]. split; [exact U|].
    split; [exact St|]. split; [exact E|]. split; [exact C|]. split; [reflexivity|].
    destruct (cb_exch i) as [[|k0 tok]|] eqn:X.
    - split; [reflexivity|]. left. apply Q. discriminate.
    - destruct (is_nil r) eqn:R; cbn [negb].
      + split; [reflexivity|]. right. exists (k0 :: tok). split; [reflexivity|]. split; [discriminate|].
        split; [reflexivity|]. right. apply is_nil_spec in R. cbn. auto.
      + split; [reflexivity|]. right. exists (k0 :: tok). split; [reflexivity|]. split; [discriminate|].
        split; [reflexivity|]. left. apply is_nil_false in R. cbn. auto.
    - split; [reflexivity|]. left. apply Q. discriminate.
  Qed.

  Lemma exchange_only_if_state_equal i :
    let o := callback enc_raw dec_pad dec_raw mac parse key now i in
    co_trace o <> [] ->
    exists text v s u r,
      cb_cookie i = Some text /\
      unpack_text enc_raw dec_pad dec_raw mac key text now SESSION_MAX_AGE = Accepted v s u r /\
      cb_state i = s /\ cb_code i <> [] /\ cb_error i = [] /\
      co_trace o = [(cb_code i, v)].
  Proof.
    cbv zeta. intro N. destruct (callback_inv i) as [[T _] | (text & v & s & u & r & K & _ & U & St & E & C & _ & T & _)].
    - contradiction.
    - exists text, v, s, u, r. repeat split; assumption.
  Qed.

  Lemma token_leaves_only_after_exchange i :
    let o := callback enc_raw dec_pad dec_raw mac parse key now i in
    co_bearer o = true \/ co_auth o <> None ->
    exists tok v, tok <> [] /\ cb_exch i = ExOk tok /\ co_trace o = [(cb_code i, v)] /\ co_status o = 302.
  Proof.
    cbv zeta. intro H.
    destruct (callback_inv i) as [[_ Qt] | (text & v & s & u & r & _ & _ & _ & _ & _ & _ & _ & T & [Qt | (tok & X & Nt & St & _)])].
    - destruct Qt as (_ & B & A & _). destruct H; congruence.
    - destruct Qt as (_ & B & A & _). destruct H; congruence.
    - exists tok, v. repeat split; assumption.
  Qed.

  (* composition with the codec and the validators: the bearer token is only
     ever placed in a redirect whose target the server itself validated *)
  Lemma bearer_target_validated allow issued i :
    (forall k m, length (mac k m) = MACLEN) ->
    (0 <= now < two63)%Z ->
    (forall f, In f issued -> fields_ok f = true /\ created_ok f = true /\
                              exists x, f_rt f = validate_return parse allow x) ->
    (forall text raw, cb_cookie i = Some text -> decode dec_pad dec_raw text = Some raw ->
                      unforgeable mac key issued raw) ->
    let o := callback enc_raw dec_pad dec_raw mac parse key now i in
    co_bearer o = true ->
    co_auth o = None /\ co_base o <> [] /\
    exists f x, In f issued /\ cb_state i = f_state f /\ co_base o = validate_return parse allow x.
  Proof.
    cbv zeta. intros ML Hn G U B.
    destruct (callback_inv i) as [[_ Qt] | (text & v & s & u & r & K & _ & Un & St & _ & _ & _ & _ & [Qt | (tok & _ & _ & _ & [(Nr & _ & Eb & Ea) | (_ & Bf & _)])])].
    - destruct Qt as (_ & B' & _). congruence.
    - destruct Qt as (_ & B' & _). congruence.
    - apply unpack_text_inv in Un as (raw & Dc & _ & Un).
      pose proof session_age_pos as [_ Am].
      destruct (accepted_is_issued mac ML key issued raw now SESSION_MAX_AGE v s u r) as (f & I & _ & _ & Es & _ & Er & _);
        try assumption.
      + exact (U text raw K Dc).
      + intros f I. destruct (G f I) as (A1 & A2 & _). auto.
      + destruct (G f I) as (_ & _ & x & Ex).
        split; [exact Ea|]. split; [congruence|]. exists f, x. repeat split; congruence.
    - congruence.
  Qed.
End Callback.

(* ---- what the server itself packs meets the codec's guard ----------------- *)
Lemma login_fields_ok parse allow prefix path q rt created verifier state :
  lenN prefix < 65536 -> lenN verifier = Z.to_N pkce_verifier_len -> lenN state = Z.to_N pkce_state_len ->
  fields_ok (login_fields parse allow prefix path q rt created verifier state) = true.
Proof.
  intros Hp Hv Hs. apply fields_ok_spec. cbn [login_fields f_verifier f_state f_url f_rt].
  pose proof nonce_lens_small as (A & B & C). pose proof rt_max_small. pose proof orig_max_small as [_ D].
  pose proof (validate_return_len parse allow rt).
  pose proof (validate_original_len parse (join_query path q) prefix).
  repeat split; lia.
Qed.

(* the uint16 guard is needed: a 65536-byte field does not survive *)
Lemma guard_needed :
  exists mac f, (forall k m, length (mac k m) = MACLEN) /\ created_ok f = true /\ fields_ok f = false /\
    res_eqb (unpack_raw mac [] (pack_raw mac [] f) 0 0)
            (Accepted (f_verifier f) (f_state f) (f_url f) (f_rt f)) = false.
Proof.
  exists (fun _ _ => repeat 0 MACLEN).
  exists {| f_created := 0; f_verifier := rep 65536 120; f_state := []; f_url := []; f_rt := [] |}.
  split; [intros; apply repeat_length|]. split; [reflexivity|]. split; vm_compute; reflexivity.
Qed.

(* ---- the decidable spec holds on the model -------------------------------- *)
Lemma res_eqb_refl r : res_eqb r r = true.
Proof. destruct r; cbn; [now rewrite !beqb_refl | reflexivity]. Qed.

Lemma opt_beqb_some a b : opt_eqb beqb a (Some b) = true -> a = Some b.
Proof. destruct a; cbn; [intro H; apply beqb_eq in H; now subst | discriminate]. Qed.

Lemma ck_unpack_raw c text max raw :
  ck_raw c = Some raw ->
  ck_unpack_on c text max =
    if negb (beqb (ck_encraw c) (trim_pad text)) then Refused
    else unpack_raw (fun _ _ => ck_mac c) [] raw (ck_now c) max.
Proof.
  unfold ck_raw, ck_unpack_on, unpack_text.
  change (decode (fun _ => ck_pad c) (fun _ => ck_rawdec c) text) with (decode (fun _ => ck_pad c) (fun _ => ck_rawdec c) []).
  now intros ->.
Qed.

Lemma ck_unpack_accepted c text max v s u r :
  ck_unpack_on c text max = Accepted v s u r ->
  exists raw, ck_raw c = Some raw /\ beqb (ck_encraw c) (trim_pad text) = true /\
              unpack_raw (fun _ _ => ck_mac c) [] raw (ck_now c) max = Accepted v s u r.
Proof.
  intro U. destruct (ck_raw c) as [raw|] eqn:R.
  - rewrite (ck_unpack_raw c text max raw R) in U.
    destruct (beqb (ck_encraw c) (trim_pad text)); cbn [negb] in U; [|discriminate]. eauto.
  - unfold ck_unpack_on, unpack_text in U.
    change (decode (fun _ => ck_pad c) (fun _ => ck_rawdec c) text) with (ck_raw c) in U.
    rewrite R in U. discriminate.
Qed.

Lemma time_sane_spec c : time_sane c = true ->
  (0 <= ck_now c < two63)%Z /\ (ck_max_age c < two63)%Z.
Proof. unfold time_sane. rewrite !andb_true_iff, Z.leb_le, !Z.ltb_lt. tauto. Qed.

Lemma tag_ok_of_accepted c raw max v s u r :
  ck_raw c = Some raw ->
  unpack_raw (fun _ _ => ck_mac c) [] raw (ck_now c) max = Accepted v s u r -> ck_tag_ok c = true.
Proof.
  intros R U. unfold ck_tag_ok. rewrite R. unfold unpack_raw in U.
  destruct (length raw <? MINLEN)%nat; [discriminate|]. cbn [negb andb].
  destruct (beqb (drop (length raw - MACLEN) raw) (ck_mac c)); [reflexivity | discriminate].
Qed.

Lemma unpack_spec_model k c :
  mac_sane k c = true -> time_sane c = true -> unpack_spec k c (ck_unpack c) = true.
Proof.
  intros M T. apply time_sane_spec in T as [Tn Tm].
  destruct k as [f | f imac | ]; cbn [unpack_spec mac_sane] in *.
  - (* honest *)
    destruct (fields_ok f && created_ok f) eqn:G; [|reflexivity].
    apply andb_true_iff in G as [Gf Gc]. apply andb_true_iff in M as [M Cn]. apply andb_true_iff in M as [R L].
    apply opt_beqb_some in R. apply Nat.eqb_eq in L.
    unfold ck_unpack. rewrite (ck_unpack_raw c _ _ _ R), Cn. cbn [negb].
    change (payload f ++ ck_mac c) with (pack_raw (fun _ _ => ck_mac c) [] f).
    rewrite roundtrip_raw; try assumption; [|intros; exact L].
    destruct (fresh (ck_now c) (ck_max_age c) (f_created f)); apply res_eqb_refl.
  - (* tampered *)
    destruct (ck_unpack c) as [v s u r|] eqn:U; [|reflexivity].
    apply andb_true_iff in M as [M L]. apply Nat.eqb_eq in L.
    unfold ck_unpack in U. apply ck_unpack_accepted in U as (raw & R & Cn & U).
    pose proof (tag_ok_of_accepted c raw _ _ _ _ _ R U) as Tag.
    rewrite Tag in M. cbn [negb orb] in M. rewrite M, Cn. cbn [andb].
    rewrite R in M. apply opt_beqb_some in M. assert (Rw : raw = payload f ++ imac) by congruence. subst raw.
    destruct (fields_ok f && created_ok f) eqn:G; [|reflexivity].
    apply andb_true_iff in G as [Gf Gc].
    assert (Em : imac = ck_mac c).
    { unfold ck_tag_ok in Tag. rewrite R in Tag. apply andb_true_iff in Tag as [_ Tag]. apply beqb_eq in Tag.
      rewrite app_length, L in Tag.
      replace (length (payload f) + MACLEN - MACLEN)%nat with (length (payload f)) in Tag by lia.
      unfold drop in Tag. now rewrite drop_app_len in Tag. }
    subst imac.
    change (payload f ++ ck_mac c) with (pack_raw (fun _ _ => ck_mac c) [] f) in U.
    rewrite roundtrip_raw in U; try assumption; [|intros; exact L].
    destruct (fresh (ck_now c) (ck_max_age c) (f_created f)); [|discriminate].
    inversion U. subst. now rewrite res_eqb_refl.
  - (* crafted *)
    destruct (ck_unpack c) as [v s u r|] eqn:U; [|reflexivity].
    unfold ck_unpack in U. apply ck_unpack_accepted in U as (raw & R & _ & U).
    exact (tag_ok_of_accepted c raw _ _ _ _ _ R U).
Qed.

Lemma cb_spec_model i c pr :
  cb_spec i c pr (callback (fun _ => ck_encraw c) (fun _ => ck_pad c) (fun _ => ck_rawdec c) (fun _ _ => ck_mac c) (fun _ => pr) [] (ck_now c) i) = true.
Proof.
  set (o := callback _ _ _ _ _ _ _ i).
  pose proof (callback_inv (fun _ => ck_encraw c) (fun _ => ck_pad c) (fun _ => ck_rawdec c) (fun _ _ => ck_mac c) (fun _ => pr) [] (ck_now c) i) as Inv.
  cbv zeta in Inv. fold o in Inv. unfold cb_spec.
  pose proof (callback_no_leak (fun _ => ck_encraw c) (fun _ => ck_pad c) (fun _ => ck_rawdec c) (fun _ _ => ck_mac c) (fun _ => pr) [] (ck_now c) i) as NL.
  fold o in NL. rewrite NL.
  assert (QS : forall st, co_status o <> st -> (co_status o =? st) = false) by (intros; now apply N.eqb_neq).
  destruct Inv as [[T (Qb & Qbe & Qa & Qs)] | (text & v & s & u & r & K & Nt & U & St & E & C & D & T & Rest)].
  - rewrite T, Qbe, Qa, Qb, (QS _ Qs). reflexivity.
  - rewrite T, K. destruct text as [|t0 text]; [congruence|].
    unfold ck_unpack_on. rewrite U. subst s. rewrite !beqb_refl. apply is_nil_false in C. rewrite C, E. cbn [negb andb is_nil].
    destruct Rest as [(Qb & Qbe & Qa & Qs) | (tok & X & Ntok & S3 & [(Nr & Be & Ba & Au) | (Nr & Be & Au & Ba)])].
    + rewrite Qbe, Qa, Qb, (QS _ Qs). reflexivity.
    + rewrite Be, X, S3, Ba, Au. destruct tok; [congruence|]. apply is_nil_false in Nr. rewrite Nr, beqb_refl. reflexivity.
    + rewrite Be, Au, X, S3, Ba. destruct tok as [|k0 tok]; [congruence|]. subst r. cbn [orb andb is_nil N.eqb].
      rewrite N.eqb_refl, beqb_refl. cbn [andb negb].
      rewrite (orig_spec_model (fun _ => pr) u (cb_prefix i)). reflexivity.
Qed.

Lemma model_meets_spec i : input_sane i = true -> spec_ok i (model i) = true.
Proof.
  destruct i as [k c | u allow pr | u p pr | i c pr | allow p path q rt tbl | allow rt tok pr];
    cbn [input_sane model spec_ok]; intro S.
  - apply andb_true_iff in S as [M T]. now apply unpack_spec_model.
  - exact (return_spec_model (fun _ => pr) allow u S).
  - exact (orig_spec_model (fun _ => pr) u p).
  - apply cb_spec_model.
  - apply andb_true_iff in S as [Sp Lp]. apply N.ltb_lt in Lp.
    unfold login_spec. cbn [login_fields f_url f_rt].
    rewrite (orig_spec_model (tbl_parse tbl)), (return_spec_model (tbl_parse tbl) allow rt Sp).
    pose proof nonce_lens_small as (A & B & C). pose proof rt_max_small. pose proof orig_max_small as [_ D].
    pose proof (validate_return_len (tbl_parse tbl) allow rt).
    pose proof (validate_original_len (tbl_parse tbl) (join_query path q) p).
    rewrite !andb_true_iff, !N.ltb_lt. repeat split; lia.
  - unfold early_spec, early.
    destruct (is_nil (validate_return (fun _ => pr) allow rt)) eqn:Nr; cbn [orb]; [reflexivity|].
    destruct (is_nil tok) eqn:Ntk; [reflexivity|].
    rewrite Nr. cbn [negb andb]. exact (return_spec_model (fun _ => pr) allow rt S).
Qed.

(* ---- the decoder before the fix accepted altered texts -------------------- *)
Definition w_mac : bytes -> bytes -> bytes := fun _ _ => repeat 0 MACLEN.
Definition w_f : fields := {| f_created := 0; f_verifier := []; f_state := []; f_url := []; f_rt := [] |}.
Definition w_canon : bytes := str "BAAA" ++ rep 60 65 ++ str "AA".        (* unpadded base64url of pack_raw w_mac [] w_f *)
Definition w_slack : bytes := str "BAAA" ++ rep 60 65 ++ str "AB==".      (* last symbol altered within its 4 unused bits *)
Definition w_crlf : bytes := str "BAAA" ++ [13; 10] ++ rep 60 65 ++ str "AA==".   (* CR LF inserted *)

Lemma lenient_decoder_refuted :
  exists enc_raw dec_pad dec_raw mac key f,
    (forall k m, length (mac k m) = MACLEN) /\ fields_ok f = true /\ created_ok f = true /\
    forall text, In text [w_slack; w_crlf] ->
      beqb (trim_pad text) (enc_raw (pack_raw mac key f)) = false /\
      unpack_text_legacy dec_pad dec_raw mac key text 0 0
        = Accepted (f_verifier f) (f_state f) (f_url f) (f_rt f) /\
      unpack_text enc_raw dec_pad dec_raw mac key text 0 0 = Refused.
Proof.
  exists (fun _ => w_canon), (fun _ => Some (pack_raw w_mac [] w_f)), (fun _ => None), w_mac, [], w_f.
  split; [intros; apply repeat_length|]. split; [reflexivity|]. split; [reflexivity|].
  intros text [<- | [<- | []]]; vm_compute; repeat split; reflexivity.
Qed.

(* where the bearer goes, for a token of ANY length: into Location only next to a
   non-empty packed return URL; otherwise whole into the auth cookie; nowhere else *)
Lemma bearer_placement enc_raw dec_pad dec_raw mac parse key now i :
  let o := callback enc_raw dec_pad dec_raw mac parse key now i in
  co_leak o = false /\
  (co_bearer o = true ->
     exists text v s u r, cb_cookie i = Some text /\
       unpack_text enc_raw dec_pad dec_raw mac key text now SESSION_MAX_AGE = Accepted v s u r /\
       r <> [] /\ co_base o = r /\ co_auth o = None) /\
  (forall a, co_auth o = Some a ->
     cb_exch i = ExOk a /\ co_bearer o = false /\
     exists text v s u, cb_cookie i = Some text /\
       unpack_text enc_raw dec_pad dec_raw mac key text now SESSION_MAX_AGE = Accepted v s u [] /\
       co_base o = validate_original parse u (cb_prefix i)).
Proof.
  cbv zeta. split; [apply callback_no_leak|].
  destruct (callback_inv enc_raw dec_pad dec_raw mac parse key now i)
    as [[_ (Qb & Qbe & Qa & _)] | (text & v & s & u & r & K & _ & U & _ & _ & _ & _ & _ &
         [(Qb & Qbe & Qa & _) | (tok & X & _ & _ & [(Nr & Be & Ba & Au) | (Nr & Be & Au & Ba)])])].
  - split; [congruence | intros a H; congruence].
  - split; [congruence | intros a H; congruence].
  - split; [|intros a H; congruence]. intros _. exists text, v, s, u, r. auto.
  - split; [congruence|]. intros a H. rewrite Au in H. inversion H. subst a r.
    split; [exact X|]. split; [exact Be|]. exists text, v, s, u. auto.
Qed.
