(* Proofs/C11.v — the HTTP token chain refines the pipe loop. *)
From VR Require Import Model.C11.
From Coq Require Import Lia.
Local Arguments N.eqb : simpl never.
Local Arguments Z.eqb : simpl never.

(* ---------------------------------------------------------------- small facts *)
Lemma resps_view_cons {T V} (vw : bytes -> frame -> list V) (r : resp T) rs :
  resps_view vw (r :: rs) = flat_map (vw (resp_schema r)) (rs_frames r) ++ resps_view vw rs.
Proof. reflexivity. Qed.

Lemma cfind_head k v t : cfind k ((k, v) :: t) = Some v.
Proof. cbn [cfind]. now rewrite beqb_refl. Qed.

Lemma cache_ok_nil cid info : cache_ok cid info [].
Proof. intros v H; discriminate H. Qed.

Lemma cache_ok_front cid info t : cache_ok cid info ((cid, info) :: t).
Proof. intros v H. rewrite cfind_head in H. now inversion H. Qed.

Lemma cache_ok_cput cid info max c : cache_ok cid info c -> cache_ok cid info (cput max cid info c).
Proof.
  intro H. destruct max as [|m]; cbn [cput]; [exact H|].
  cbn [firstn]. apply cache_ok_front.
Qed.

Lemma caches_ok_upd cid info caches inst c :
  caches_ok cid info caches -> cache_ok cid info c -> caches_ok cid info (upd caches inst c).
Proof. intros H Hc n. unfold upd. destruct (Nat.eqb n inst); [exact Hc | apply H]. Qed.

Lemma concat_chunks_aux {A} (L fuel : nat) (xs : list A) : concat (chunks_aux fuel L xs) = xs.
Proof.
  revert xs; induction fuel as [|f IH]; intro xs; cbn [chunks_aux concat].
  - apply app_nil_r.
  - destruct xs as [|x xs]; [reflexivity|]. cbn [concat]. rewrite IH. apply firstn_skipn.
Qed.

Lemma concat_chunks {A} (L : nat) (xs : list A) : concat (chunks L xs) = xs.
Proof. destruct L as [|l]; cbn [chunks concat]; [apply app_nil_r | apply concat_chunks_aux]. Qed.

(* ---- what ANOTHER stream's requests do to an instance's cache: its call id
   differs, so whatever it puts, finds or evicts, this call's entry is either
   still the right one or gone *)
Lemma cfind_cdel_other k k' c : beqb k k' = false -> cfind k (cdel k' c) = cfind k c.
Proof.
  intro H. induction c as [|[k0 v0] c IH]; [reflexivity|]. cbn [cdel filter fst cfind].
  destruct (beqb k' k0) eqn:E'; cbn [negb].
  - apply beqb_eq in E'. subst k0. rewrite H. exact IH.
  - cbn [cfind]. destruct (beqb k k0); [reflexivity | exact IH].
Qed.

Lemma cfind_firstn k n c v : cfind k (firstn n c) = Some v -> cfind k c = Some v.
Proof.
  revert c; induction n as [|n IH]; intros c H; [discriminate H|].
  destruct c as [|[k0 v0] c]; [discriminate H|]. cbn [firstn cfind] in *.
  destruct (beqb k k0); [exact H | now apply IH].
Qed.

Lemma cache_ok_cput_other cid info max cid' info' c :
  beqb cid cid' = false -> cache_ok cid info c -> cache_ok cid info (cput max cid' info' c).
Proof.
  intros Hne H. destruct max as [|m]; cbn [cput]; [exact H|]. intros v Hv.
  apply cfind_firstn in Hv. cbn [cfind] in Hv. rewrite Hne, (cfind_cdel_other _ _ _ Hne) in Hv. now apply H.
Qed.

Lemma cache_ok_cget_other cid info max cid' c v c' :
  beqb cid cid' = false -> cache_ok cid info c -> cget max cid' c = Some (v, c') -> cache_ok cid info c'.
Proof.
  intros Hne H Hg. destruct max as [|m]; cbn [cget] in Hg; [discriminate Hg|].
  destruct (cfind cid' c) as [v0|]; [|discriminate Hg]. injection Hg as <- <-.
  intros w Hw. cbn [cfind] in Hw. rewrite Hne, (cfind_cdel_other _ _ _ Hne) in Hw. now apply H.
Qed.

(* one request of another stream (call id cid', any call token) on one instance *)
Lemma other_stream_preserves {ctoken} (open_call : ctoken -> option callinfo) cid info max cid' (ct : ctoken) c :
  beqb cid cid' = false -> cache_ok cid info c ->
  cache_ok cid info (snd (resolve open_call max c cid' ct))
  /\ forall info', cache_ok cid info (cput max cid' info' c).
Proof.
  intros Hne H. split; [|intro info'; now apply cache_ok_cput_other].
  unfold resolve. destruct (cget max cid' c) as [[v c']|] eqn:Eg.
  - cbn [snd]. eapply cache_ok_cget_other; eauto.
  - destruct (open_call ct) as [i'|]; [|exact H]. destruct (beqb (ci_id i') cid'); cbn [snd]; [|exact H].
    now apply cache_ok_cput_other.
Qed.

(* ---------------------------------------------------------------- generic *)
Section Refinement.
  Context {state inp raw mid sbytes token ctoken V : Type}.
  Variable step : state -> inp -> tres state.
  Variable cast_p : raw -> inp + frame.
  Variable cast1 : raw -> mid + frame.
  Variable cast2 : callinfo -> mid -> inp + frame.
  Variable ser : state -> sbytes.
  Variable deser : sbytes -> option state.
  Variable seal_cur : bytes * sbytes -> token.
  Variable open_cur : token -> option (bytes * sbytes).
  Variable seal_call : callinfo -> ctoken.
  Variable open_call : ctoken -> option callinfo.
  Variable L : nat.
  Variable cut : list frame -> bool.
  Variable cmax : nat.
  Variable route : nat -> nat.
  Variable mth : bytes.
  Variable schema_of : callinfo -> bytes.
  Variable refusal : frame.
  Variable env : nat -> (nat -> cache) -> (nat -> cache).
  Variable vw : bytes -> frame -> list V.
  Variable info : callinfo.
  Variable schema : bytes.
  Let cid := ci_id info.

  Hypothesis Hgob : forall s, deser (ser s) = Some s.
  Hypothesis Hcur : forall x, open_cur (seal_cur x) = Some x.
  Hypothesis Hcall : forall x, open_call (seal_call x) = Some x.

  (* the other streams never touch this call's entry except to evict it: their
     call ids differ (see [other_stream_preserves] below) *)
  Hypothesis Henv : forall k cs, caches_ok cid info cs -> caches_ok cid info (env k cs).
  Hypothesis Hmth : ci_method info = mth.
  Hypothesis Hschema : schema_of info = schema.

  Lemma resolve_ok c :
    cache_ok cid info c ->
    exists c', resolve open_call cmax c cid (seal_call info) = (Some info, c') /\ cache_ok cid info c'.
  Proof.
    intro Hc. unfold resolve, cget. destruct cmax as [|m].
    - rewrite Hcall. fold cid. rewrite beqb_refl. exists c. split; [reflexivity | exact Hc].
    - destruct (cfind cid c) as [v|] eqn:E.
      + apply Hc in E. subst v. eexists; split; [reflexivity | apply cache_ok_front].
      + rewrite Hcall. fold cid. rewrite beqb_refl. eexists; split; [reflexivity|].
        now apply cache_ok_cput.
  Qed.

  (* the simulation step: a cursor sealed from live state [s] under this call's
     id re-opens, on any instance, to exactly [s] and this call's fixed half *)
  Lemma open_request_ok c s :
    cache_ok cid info c ->
    exists c', open_request deser open_cur open_call cmax mth c (seal_cur (cid, ser s)) (seal_call info)
               = (Some (cid, s, info), c') /\ cache_ok cid info c'.
  Proof.
    intro Hc. unfold open_request. rewrite Hcur, Hgob.
    destruct (resolve_ok c Hc) as (c' & Hr & Hc'). rewrite Hr.
    rewrite Hmth, beqb_refl. now exists c'.
  Qed.

  (* ---- exchange *)
  Hypothesis Hnofin : forall s i s' o f, step s i = TOk s' o f -> f = false.
  Hypothesis Hcastvw : forall r e, cast_p r = inr e -> vw [] e = vw schema e.

  Lemma exch_client_view ins :
    (forall r, In r ins -> cast_http cast1 cast2 info r = cast_p r) ->
    forall k caches s, caches_ok cid info caches ->
    resps_view vw (exch_client step cast1 cast2 ser deser seal_cur open_cur open_call cmax route mth schema_of refusal env
                     k caches (seal_cur (cid, ser s)) (seal_call info) ins)
    = flat_map (vw schema) (pipe_loop step cast_p s ins).
  Proof.
    induction ins as [|r rest IH]; intros Hc k caches s Hok; [reflexivity|].
    cbn [exch_client pipe_loop]. unfold exchange_req.
    pose proof (Hc r (or_introl eq_refl)) as Hr. unfold cast_http in Hr.
    assert (Hc' : forall r0, In r0 rest -> cast_http cast1 cast2 info r0 = cast_p r0) by (intros r0 Hr0; apply Hc; now right).
    assert (Hrefused : forall (c0 : cache) e, cast_p r = inr e ->
              resps_view vw [@refused token e] = flat_map (vw schema) [e]).
    { intros c0 e Ec. rewrite resps_view_cons. unfold refused. cbn [resp_schema rs_class rs_frames flat_map].
      change (resps_view vw []) with (@nil V). rewrite (Hcastvw r e Ec). apply app_nil_r. }
    destruct (cast1 r) as [m|e].
    - destruct (open_request_ok (env k caches (route k)) s (Henv k caches Hok _)) as (c' & Ho & Hc'').
      rewrite Ho. destruct (cast2 info m) as [i|e]; rewrite <- Hr.
      + destruct (step s i) as [s' outs fin|e] eqn:Es.
        * apply Hnofin in Es. subst fin. cbn [rs_tok].
          rewrite resps_view_cons. cbn [resp_schema rs_class rs_schema rs_frames].
          rewrite Hschema, (IH Hc'), flat_map_app; [reflexivity|]. apply caches_ok_upd; [now apply Henv | exact Hc''].
        * cbn [rs_tok]. rewrite resps_view_cons. cbn [resp_schema rs_class rs_schema rs_frames].
          rewrite Hschema. change (resps_view vw []) with (@nil V). apply app_nil_r.
      + cbn [refused rs_tok]. apply (Hrefused c'). now symmetry.
    - rewrite <- Hr. cbn [refused rs_tok]. apply (Hrefused (env k caches (route k))). now symmetry.
  Qed.

  Theorem http_exch_view caches s0 pre ins :
    (forall r, In r ins -> cast_http cast1 cast2 info r = cast_p r) ->
    caches_ok cid info caches ->
    resps_view vw (http_exch step cast1 cast2 ser deser seal_cur open_cur seal_call open_call cmax route mth schema_of refusal env
                     info schema caches s0 pre ins)
    = flat_map (vw schema) (pre ++ pipe_loop step cast_p s0 ins).
  Proof.
    intros Hc Hok. unfold http_exch. rewrite resps_view_cons.
    cbn [resp_schema rs_class rs_schema rs_frames]. fold cid.
    rewrite (exch_client_view ins Hc), flat_map_app; [reflexivity|].
    apply caches_ok_upd; [exact Hok|]. apply cache_ok_cput, Hok.
  Qed.

  (* ---- producer *)
  Definition after (stop : @pstop state) (rest : list inp) : list frame :=
    match stop with PMore s' => pipe_loop step (@inl inp frame) s' rest | _ => [] end.

  Lemma produce_spec ticks : forall s n acc fs stop rest,
    produce step L cut s ticks n acc = (fs, stop, rest) ->
    exists d, fs = acc ++ d
           /\ pipe_loop step (@inl inp frame) s ticks = d ++ after stop rest
           /\ (length rest <= pred (length ticks))%nat.
  Proof.
    induction ticks as [|i r IH]; intros s n acc fs stop rest H.
    - cbn [produce] in H. injection H as <- <- <-. exists []. rewrite app_nil_r. cbn [after app length]. repeat split. lia.
    - cbn [produce] in H. cbn [pipe_loop length pred]. destruct (step s i) as [s' outs [|]|e].
      + injection H as <- <- <-. exists outs. cbn [after]. repeat split. lia.
      + destruct (limit_hit L (n + count is_data outs) || cut (acc ++ outs)).
        * injection H as <- <- <-. exists outs. cbn [after]. repeat split. lia.
        * apply IH in H as (d & -> & Hp & Hl). exists (outs ++ d). rewrite Hp, !app_assoc. repeat split. lia.
      + injection H as <- <- <-. exists [e]. cbn [after]. rewrite app_nil_r. repeat split. lia.
  Qed.

  Lemma prod_client_view : forall fuel ticks k caches s,
    (length ticks <= fuel)%nat -> caches_ok cid info caches ->
    resps_view vw (prod_client step ser deser seal_cur open_cur open_call L cut cmax route mth schema_of refusal env
                     fuel k caches (seal_cur (cid, ser s)) (seal_call info) ticks)
    = flat_map (vw schema) (pipe_loop step (@inl inp frame) s ticks).
  Proof.
    induction fuel as [|f IH]; intros ticks k caches s Hlen Hok.
    - destruct ticks; [reflexivity | cbn [length] in Hlen; lia].
    - destruct ticks as [|t r]; [reflexivity|].
      cbn [prod_client]. unfold prod_req.
      destruct (open_request_ok (env k caches (route k)) s (Henv k caches Hok _)) as (c' & Ho & Hc'). rewrite Ho.
      destruct (produce step L cut s (t :: r) 0 []) as [[fs stop] rest] eqn:Ep.
      apply produce_spec in Ep as (d & -> & Hp & Hl). cbn [app]. rewrite Hp.
      rewrite resps_view_cons. unfold token_resp at 1. cbn [resp_schema rs_class rs_schema rs_frames].
      rewrite Hschema, flat_map_app. f_equal.
      destruct stop as [| |s']; cbn [token_resp rs_tok after]; try reflexivity.
      apply IH; [cbn [length] in Hlen, Hl; lia | apply caches_ok_upd; [now apply Henv | exact Hc']].
  Qed.

  Theorem http_prod_view caches s0 pre ticks :
    caches_ok cid info caches ->
    resps_view vw (http_prod step ser deser seal_cur open_cur seal_call open_call L cut cmax route mth schema_of refusal env
                     info schema caches s0 pre ticks)
    = flat_map (vw schema) (pre ++ pipe_loop step (@inl inp frame) s0 ticks).
  Proof.
    intro Hok. unfold http_prod.
    destruct (produce step L cut s0 ticks 0 pre) as [[fs stop] rest] eqn:Ep.
    apply produce_spec in Ep as (d & -> & Hp & _). rewrite Hp.
    rewrite resps_view_cons. unfold token_resp at 1. cbn [resp_schema rs_class rs_schema rs_frames].
    rewrite app_assoc, (flat_map_app _ (pre ++ d)). f_equal.
    destruct stop as [| |s']; cbn [token_resp rs_tok after]; try reflexivity.
    fold cid. apply prod_client_view; [lia|].
    apply caches_ok_upd; [exact Hok|]. apply cache_ok_cput, Hok.
  Qed.
End Refinement.

(* ---------------------------------------------------------------- concrete *)
Lemma list_eqb_refl {A} (e : A -> A -> bool) (He : forall x, e x x = true) l : list_eqb e l l = true.
Proof. induction l as [|x l IH]; cbn [list_eqb]; [reflexivity|]. now rewrite He, IH. Qed.

Lemma kv_eqb_refl m : kv_eqb m m = true.
Proof.
  unfold kv_eqb. apply list_eqb_refl. intros [k v]. unfold pair_eqb. cbn [fst snd]. now rewrite !beqb_refl.
Qed.

Lemma vframe_eqb_refl f : vframe_eqb f f = true.
Proof.
  destruct f; cbn [vframe_eqb]; rewrite ?beqb_refl, ?N.eqb_refl, ?kv_eqb_refl; try reflexivity.
  rewrite (list_eqb_refl Z.eqb Z.eqb_refl). reflexivity.
Qed.

Lemma view_eqb_refl v : view_eqb v v = true.
Proof.
  unfold view_eqb. rewrite (list_eqb_refl _ vframe_eqb_refl). destruct (v_header v) as [h|]; cbn [opt_eqb]; [|reflexivity].
  now rewrite (list_eqb_refl _ vframe_eqb_refl).
Qed.

(* OutputCollector.Finish refuses on an exchange collector: an exchange turn never finishes *)
Lemma sstep_exch_nofin s x s' o f : sstep false s x = TOk s' o f -> f = false.
Proof. unfold sstep. destruct (t_act _); intro H; inversion H; reflexivity. Qed.

Lemma flat_vf_stamp sch rid l : flat_map (vf sch) (map (stamp rid) l) = flat_map (vf sch) l.
Proof. induction l as [|f l IH]; [reflexivity|]. cbn [map flat_map]. rewrite IH. now destruct f. Qed.

Lemma flat_vf_pre sch rid i : flat_map (vf sch) (pre rid i) = flat_map (vf sch) (pre [] i).
Proof.
  unfold pre. destruct (hdr i); [reflexivity|]. induction (adm i) as [|m l IH]; [reflexivity|].
  cbn [map flat_map]. now rewrite IH.
Qed.

Lemma render_view {T} (r : resp T) :
  flat_map sview (h_streams (render r)) = flat_map (vf (resp_schema r)) (rs_frames r).
Proof.
  unfold render. cbn [h_streams flat_map]. unfold sview. cbn [st_schema st_frames].
  rewrite app_nil_r, flat_map_app.
  destruct (rs_tok r); [destruct (rs_sentinel r)|]; cbn [flat_map vf app]; apply app_nil_r.
Qed.

Lemma map_render_view {T} (rs : list (resp T)) :
  flat_map (fun r => flat_map sview (h_streams r)) (map render rs) = resps_view vf rs.
Proof.
  induction rs as [|r rs IH]; [reflexivity|]. cbn [map flat_map]. now rewrite render_view, IH.
Qed.

Definition hdr_view (hs : list stream) : option (list vframe) := match hs with [h] => Some (sview h) | _ => None end.

Lemma http_view_with_header {T} hs (r0 : resp T) rest :
  (length hs <= 1)%nat ->
  http_view (with_header hs (render r0) :: rest)
  = {| v_header := hdr_view hs;
       v_body := flat_map sview (h_streams (render r0)) ++ flat_map (fun r => flat_map sview (h_streams r)) rest |}.
Proof.
  intro H. destruct hs as [|h [|h' hs]]; [reflexivity | reflexivity | cbn [length] in H; lia].
Qed.

Lemma pipe_view_with_header hs d :
  (length hs <= 1)%nat -> pipe_view (hs ++ [d]) = {| v_header := hdr_view hs; v_body := sview d ++ [] |}.
Proof.
  intro H. destruct hs as [|h [|h' hs]]; [reflexivity | reflexivity | cbn [length] in H; lia].
Qed.

Lemma hdr_streams_len i : (length (hdr_streams i) <= 1)%nat.
Proof. unfold hdr_streams. destruct (hdr i); cbn [length]; lia. Qed.

Lemma http_resps_cons lg i : exists r0 rest, http_resps_gen lg i = r0 :: rest.
Proof.
  unfold http_resps_gen. destruct (is_producer (i_kind i)).
  - unfold http_prod. destruct (produce _ _ _ _ _ _ _) as [[fs stop] rest]. eauto.
  - unfold http_exch. eauto.
Qed.

(* the two HTTP casts of the repaired code compose to the pipe's cast, for every
   method kind and every input; the legacy code only where [cast_safe] *)
Lemma casts_agree lg i r :
  is_producer (i_kind i) = false -> In r (raws i) -> lg = false \/ cast_safe i = true ->
  cast_http (cast_reg (i_kind i)) cast_rt (call_info lg (i_kind i) (i_ocol i)) r = cast_pipe r.
Proof.
  intros Ep Hin Hs. unfold raws in Hin. apply in_map_iff in Hin as (v & <- & _).
  unfold cast_http, cast_reg, cast_rt, call_info. cbn [ci_inschema]. rewrite Ep.
  destruct (is_dynamic (i_kind i)) eqn:Ed.
  - destruct lg.
    + destruct Hs as [Hs|Hs]; [discriminate Hs|]. unfold cast_safe in Hs. rewrite Ep, Ed in Hs.
      cbn [negb orb andb] in *. destruct (i_col i); try discriminate Hs. reflexivity.
    + reflexivity.
  - rewrite andb_false_r. cbn [andb]. unfold cast_pipe. cbn [fst snd]. destruct (i_col i); reflexivity.
Qed.

Lemma http_resps_view lg i :
  lg = false \/ cast_safe i = true ->
  resps_view vf (http_resps_gen lg i) = flat_map (vf (out_schema i)) (pre [] i ++ loop i).
Proof.
  intro Hs. unfold http_resps_gen, loop. destruct (is_producer (i_kind i)) eqn:Ep.
  - apply http_prod_view; try reflexivity; [intros k cs H; exact H|]. intro n. apply cache_ok_nil.
  - apply http_exch_view; try reflexivity; [intros k cs H; exact H| | | |].
    + exact sstep_exch_nofin.
    + intros r e H. unfold cast_pipe in H. destruct (fst r); inversion H; reflexivity.
    + intros r Hin. now apply casts_agree.
    + intro n. apply cache_ok_nil.
Qed.

Lemma views_agree lg i :
  lg = false \/ cast_safe i = true -> pipe_view (pipe_obs i) = http_view (http_obs_gen lg i).
Proof.
  intro Hs. unfold pipe_obs, http_obs_gen. destruct (i_initfail i) as [f|]; [reflexivity|].
  destruct (http_resps_cons lg i) as (r0 & rest & E). pose proof (http_resps_view lg i Hs) as K.
  rewrite E in K |- *. cbn [map].
  rewrite http_view_with_header, pipe_view_with_header by apply hdr_streams_len.
  f_equal. rewrite render_view, map_render_view, <- resps_view_cons, K.
  unfold sview. cbn [st_schema st_frames].
  now rewrite app_nil_r, !flat_map_app, flat_vf_pre, flat_vf_stamp.
Qed.

Lemma model_meets_spec i : spec_ok i (model i) = true.
Proof.
  unfold spec_ok, model, http_obs. cbn [o_pipe o_http]. rewrite (views_agree false i (or_introl eq_refl)). apply view_eqb_refl.
Qed.

Lemma legacy_model_meets_spec_where_cast_safe i : cast_safe i = true -> spec_ok i (legacy_model i) = true.
Proof.
  intro Hs. unfold spec_ok, legacy_model. cbn [o_pipe o_http]. rewrite (views_agree true i (or_intror Hs)). apply view_eqb_refl.
Qed.

(* the violation in the code before the repair: a dynamic exchange method receives
   {x:int32} (or a field named y); the pipe casts it to (refuses it against) the
   runtime input schema {x:int64}, the HTTP path had no registered schema to cast
   against and handed it over as sent *)
Definition emit_turn (v : Z) : tscript := {| t_logs := []; t_act := AEmit; t_value := v; t_meta := [] |}.
Definition dyn_cast_witness (col : coltype) : input :=
  {| i_kind := MDynExch; i_reqid := str "rq"; i_loglevel := []; i_initlogs := []; i_initfail := None; i_header := None;
     i_ocol := str "v"; i_turns := [emit_turn 1; emit_turn 2]; i_col := col; i_ins := [[10%Z]; [20%Z; 1%Z]];
     i_L := 0; i_capevery := false; i_cmax := 4096; i_route := [0%nat; 1%nat]; i_compress := false |}.

Lemma dyn_cast_legacy_refuted :
  spec_ok (dyn_cast_witness CI32) (legacy_model (dyn_cast_witness CI32)) = false
  /\ spec_ok (dyn_cast_witness CBadName) (legacy_model (dyn_cast_witness CBadName)) = false.
Proof. split; vm_compute; reflexivity. Qed.

(* ---------------------------------------------------------------- histories *)
From VR Require Model.C11H.
Lemma history_meets_spec h : C11H.spec_ok h (C11H.model h) = true.
Proof.
  unfold C11H.spec_ok, C11H.model. induction (C11H.h_calls h) as [|i l IH]; [reflexivity|].
  cbn [map C11H.all2]. now rewrite model_meets_spec, IH.
Qed.
