(* Proofs/C17.v — lemmas and proofs for the compression-negotiation model. *)
From VR Require Import Model.C17 Proofs.C17Pool.
From Coq Require Import ZifyBool ZifyN ZifyNat.
Local Arguments N.eqb : simpl never.
Local Arguments N.leb : simpl never.
Open Scope N_scope.

(* ---- membership ----------------------------------------------------------- *)
Lemma memb_In x l : memb x l = true <-> In x l.
Proof.
  unfold memb. rewrite existsb_exists. split.
  - intros [y [Hy He]]. apply beqb_eq in He. now subst.
  - intro H. exists x. split; [assumption | apply beqb_refl].
Qed.

Lemma memb_notIn x l : memb x l = false <-> ~ In x l.
Proof.
  split; intro H.
  - intro Hi. apply memb_In in Hi. congruence.
  - destruct (memb x l) eqn:E; [apply memb_In in E; contradiction | reflexivity].
Qed.

Lemma memb_ext x l1 l2 : (In x l1 <-> In x l2) -> memb x l1 = memb x l2.
Proof.
  intro H. destruct (memb x l1) eqn:E1, (memb x l2) eqn:E2; try reflexivity.
  - apply memb_In in E1. apply H in E1. apply memb_In in E1. congruence.
  - apply memb_In in E2. apply H in E2. apply memb_In in E2. congruence.
Qed.

(* ---- strings.Split on a comma = the pieces of the spec --------------------- *)
Lemma s_pieces_nonnil h : s_pieces h <> [].
Proof.
  destruct h as [|x t]; cbn [s_pieces]; [discriminate|].
  destruct (x =? COMMA); [discriminate|]. destruct (s_pieces t); discriminate.
Qed.

Lemma split_aux_pieces s : forall cur,
  split_on_aux COMMA cur s =
  match s_pieces s with p :: ps => (rev cur ++ p) :: ps | [] => [] end.
Proof.
  induction s as [|x t IH]; intro cur; cbn [split_on_aux s_pieces].
  - now rewrite app_nil_r.
  - destruct (x =? COMMA) eqn:E.
    + rewrite IH. cbn [rev app]. rewrite app_nil_r.
      destruct (s_pieces t) eqn:Et; [now apply s_pieces_nonnil in Et | reflexivity].
    + rewrite IH. destruct (s_pieces t) eqn:Et; [now apply s_pieces_nonnil in Et|].
      cbn [rev]. now rewrite <- app_assoc.
Qed.

Lemma split_pieces h : split_on COMMA h = s_pieces h.
Proof.
  unfold split_on. rewrite split_aux_pieces.
  destruct (s_pieces h) eqn:E; [now apply s_pieces_nonnil in E | reflexivity].
Qed.

(* the pieces are THE comma-free decomposition of the header *)
Lemma pieces_join h : join [COMMA] (s_pieces h) = h.
Proof.
  induction h as [|x t IH]; [reflexivity|]. cbn [s_pieces].
  destruct (x =? COMMA) eqn:E.
  - apply N.eqb_eq in E; subst x.
    destruct (s_pieces t) as [|p ps] eqn:Et; [now apply s_pieces_nonnil in Et|].
    change (join [COMMA] ([] :: p :: ps)) with ([] ++ [COMMA] ++ join [COMMA] (p :: ps)).
    cbn [app]. now rewrite IH.
  - destruct (s_pieces t) as [|p ps] eqn:Et; [now apply s_pieces_nonnil in Et|].
    destruct ps as [|q r].
    + cbn [join] in *. now rewrite IH.
    + change (join [COMMA] ((x :: p) :: q :: r)) with ((x :: p) ++ [COMMA] ++ join [COMMA] (q :: r)).
      change (join [COMMA] (p :: q :: r)) with (p ++ [COMMA] ++ join [COMMA] (q :: r)) in IH.
      now rewrite <- IH.
Qed.

Lemma pieces_nocomma h : Forall (fun p => ~ In COMMA p) (s_pieces h).
Proof.
  induction h as [|x t IH]; cbn [s_pieces].
  - constructor; [intros [] | constructor].
  - destruct (x =? COMMA) eqn:E.
    + constructor; [intros [] | exact IH].
    + destruct (s_pieces t) as [|p ps]; [constructor; [|constructor]|].
      * intros [H|[]]. subst. now rewrite N.eqb_refl in E.
      * inversion IH as [|? ? Hp Hps]; subst. constructor; [|exact Hps].
        intros [H|H]; [subst; now rewrite N.eqb_refl in E | contradiction].
Qed.

Lemma pieces_app_comma p s : ~ In COMMA p -> s_pieces (p ++ COMMA :: s) = p :: s_pieces s.
Proof.
  induction p as [|x p IH]; intro H; cbn [app s_pieces].
  - now rewrite N.eqb_refl.
  - destruct (x =? COMMA) eqn:E; [apply N.eqb_eq in E; subst; exfalso; apply H; now left|].
    rewrite IH; [reflexivity | intro Hi; apply H; now right].
Qed.

Lemma pieces_single p : ~ In COMMA p -> s_pieces p = [p].
Proof.
  induction p as [|x p IH]; intro H; cbn [s_pieces]; [reflexivity|].
  destruct (x =? COMMA) eqn:E; [apply N.eqb_eq in E; subst; exfalso; apply H; now left|].
  rewrite IH; [reflexivity | intro Hi; apply H; now right].
Qed.

Lemma pieces_unique ps : ps <> [] -> Forall (fun p => ~ In COMMA p) ps ->
  s_pieces (join [COMMA] ps) = ps.
Proof.
  induction ps as [|p ps IH]; intros Hn Hf; [contradiction|].
  inversion Hf as [|? ? Hp Hps]; subst.
  destruct ps as [|q r].
  - cbn [join]. now apply pieces_single.
  - change (join [COMMA] (p :: q :: r)) with (p ++ [COMMA] ++ join [COMMA] (q :: r)).
    cbn [app]. rewrite pieces_app_comma by assumption. now rewrite IH.
Qed.

(* ---- trimming and cutting at the semicolon ---------------------------------- *)
Lemma trim_left_app_ns a x b : is_space x = false ->
  trim_left (a ++ x :: b) = trim_left a ++ x :: b.
Proof.
  intro Hx. induction a as [|y a IH]; cbn [app trim_left].
  - now rewrite Hx.
  - destruct (is_space y); [exact IH | reflexivity].
Qed.

Lemma trim_right_app_ns a x b : is_space x = false ->
  trim_right (a ++ x :: b) = a ++ x :: trim_right b.
Proof.
  intro Hx. unfold trim_right. rewrite rev_app_distr. cbn [rev].
  rewrite <- app_assoc. cbn [app]. rewrite trim_left_app_ns by assumption.
  rewrite rev_app_distr. cbn [rev]. rewrite rev_involutive, <- app_assoc. reflexivity.
Qed.

Lemma trim_left_idem a : trim_left (trim_left a) = trim_left a.
Proof.
  induction a as [|x a IH]; [reflexivity|]. cbn [trim_left].
  destruct (is_space x) eqn:E; [exact IH|]. cbn [trim_left]. now rewrite E.
Qed.

Lemma trim_left_In x a : In x (trim_left a) -> In x a.
Proof.
  induction a as [|y a IH]; cbn [trim_left]; [tauto|].
  destruct (is_space y); [intro H; right; now apply IH | tauto].
Qed.

Lemma trim_right_In x a : In x (trim_right a) -> In x a.
Proof. unfold trim_right. intro H. apply in_rev in H. apply trim_left_In in H. now apply in_rev. Qed.

Lemma trim_space_In x a : In x (trim_space a) -> In x a.
Proof. unfold trim_space. intro H. apply trim_right_In in H. now apply trim_left_In in H. Qed.

Lemma before_split c s :
  (before c s = s /\ ~ In c s) \/ (exists b, s = before c s ++ c :: b).
Proof.
  induction s as [|x t IH]; cbn [before]; [left; split; [reflexivity | tauto]|].
  destruct (x =? c) eqn:E.
  - apply N.eqb_eq in E; subst. right. now exists t.
  - destruct IH as [[H1 H2]|[b Hb]].
    + left. split; [now rewrite H1|]. intros [H|H]; [subst; now rewrite N.eqb_refl in E | contradiction].
    + right. exists b. cbn [app]. now rewrite <- Hb.
Qed.

Lemma before_notIn c s : ~ In c (before c s).
Proof.
  induction s as [|x t IH]; cbn [before]; [tauto|].
  destruct (x =? c) eqn:E; [tauto|]. intros [H|H]; [subst; now rewrite N.eqb_refl in E | contradiction].
Qed.

Lemma before_app c u v : ~ In c u -> before c (u ++ c :: v) = u.
Proof.
  induction u as [|x u IH]; intro H; cbn [app before].
  - now rewrite N.eqb_refl.
  - destruct (x =? c) eqn:E; [apply N.eqb_eq in E; subst; exfalso; apply H; now left|].
    rewrite IH; [reflexivity | intro Hi; apply H; now right].
Qed.

Lemma cut_cases c t :
  (index_byte c t = None /\ ~ In c t) \/
  (exists i, index_byte c t = Some i /\ take i t = before c t /\ In c t).
Proof.
  induction t as [|x t IH]; cbn [index_byte before]; [left; split; [reflexivity | tauto]|].
  destruct (x =? c) eqn:E.
  - right. exists O. apply N.eqb_eq in E. subst. repeat split; now left.
  - destruct IH as [[H1 H2]|[i [H1 [H2 H3]]]].
    + left. rewrite H1. split; [reflexivity|].
      intros [H|H]; [subst; now rewrite N.eqb_refl in E | contradiction].
    + right. exists (S i). rewrite H1. repeat split; [|now right].
      unfold take in *. cbn [firstn]. now rewrite H2.
Qed.

Lemma semi_not_space : is_space SEMI = false.
Proof. reflexivity. Qed.

(* the code's trim / cut / trim is the spec's cut / trim *)
Lemma norm_tok_eq raw : norm_tok raw = s_norm raw.
Proof.
  unfold norm_tok, s_norm. f_equal.
  destruct (before_split SEMI raw) as [[Hb Hn]|[b Hb]].
  - rewrite Hb.
    destruct (cut_cases SEMI (trim_space raw)) as [[H1 _]|[i [_ [_ H3]]]].
    + now rewrite H1.
    + apply trim_space_In in H3. contradiction.
  - pose proof (before_notIn SEMI raw) as Hn. set (a := before SEMI raw) in *.
    assert (Ht : trim_space raw = trim_left a ++ SEMI :: trim_right b).
    { rewrite Hb. unfold trim_space. rewrite trim_left_app_ns by apply semi_not_space.
      now rewrite trim_right_app_ns by apply semi_not_space. }
    assert (Hn' : ~ In SEMI (trim_left a)) by (intro Hi; apply Hn; now apply trim_left_In).
    destruct (cut_cases SEMI (trim_space raw)) as [[_ H2]|[i [H1 [H2 _]]]].
    + exfalso. apply H2. rewrite Ht. apply in_or_app. right. now left.
    + rewrite H1, H2, Ht, before_app by assumption.
      unfold trim_space. now rewrite trim_left_idem.
Qed.

(* ---- de-duplication --------------------------------------------------------- *)
Fixpoint dd (seen l : list bytes) : list bytes :=
  match l with
  | [] => []
  | x :: t => if memb x seen then dd seen t else x :: dd (x :: seen) t
  end.

Lemma parse_loop_dd raws : forall seen,
  parse_loop seen raws = dd seen (filter nonempty (map norm_tok raws)).
Proof.
  induction raws as [|r t IH]; intro seen; cbn [parse_loop map filter]; [reflexivity|].
  destruct (nonempty (norm_tok r)); cbn [negb dd].
  - destruct (memb (norm_tok r) seen); now rewrite IH.
  - apply IH.
Qed.

Lemma parse_accept_dd h : parse_accept h = dd [] (s_items h).
Proof.
  destruct h as [|x t]; [reflexivity|]. unfold parse_accept, s_items.
  rewrite parse_loop_dd, split_pieces. do 2 f_equal. apply map_ext. exact norm_tok_eq.
Qed.

Lemma dd_ext l : forall s1 s2, (forall y, memb y s1 = memb y s2) -> dd s1 l = dd s2 l.
Proof.
  induction l as [|x t IH]; intros s1 s2 H; cbn [dd]; [reflexivity|].
  rewrite (H x). destruct (memb x s2); [now apply IH|]. f_equal. apply IH.
  intro y. unfold memb. cbn [existsb]. f_equal. apply H.
Qed.

Lemma uniq_dd l : forall acc,
  fold_left (fun acc x => if memb x acc then acc else acc ++ [x]) l acc = acc ++ dd acc l.
Proof.
  induction l as [|x t IH]; intro acc; cbn [fold_left dd]; [now rewrite app_nil_r|].
  destruct (memb x acc) eqn:E; [apply IH|]. rewrite IH, <- app_assoc. cbn [app]. do 2 f_equal.
  apply dd_ext. intro y. unfold memb. rewrite existsb_app. cbn [existsb]. now rewrite orb_false_r, orb_comm.
Qed.

Lemma s_uniq_dd l : s_uniq l = dd [] l.
Proof. unfold s_uniq. now rewrite uniq_dd. Qed.

Lemma In_dd x l : forall seen, In x (dd seen l) <-> In x l /\ ~ In x seen.
Proof.
  induction l as [|y t IH]; intro seen; cbn [dd]; [cbn; tauto|].
  destruct (memb y seen) eqn:E.
  - apply memb_In in E. rewrite IH. cbn [In]. split; [tauto|]. intros [[->|H] Hn]; tauto.
  - apply memb_notIn in E. cbn [In]. rewrite IH. cbn [In]. split.
    + intros [->|[H Hn]]; tauto.
    + intros [[->|H] Hn]; [now left|]. destruct (list_eq_dec N.eq_dec y x) as [->|Hne]; [now left|].
      right. split; [assumption|]. intros [H'|H']; [contradiction | contradiction].
Qed.

Lemma NoDup_dd l : forall seen, NoDup (dd seen l).
Proof.
  induction l as [|y t IH]; intro seen; cbn [dd]; [constructor|].
  destruct (memb y seen); [apply IH|]. constructor; [|apply IH].
  rewrite In_dd. intros [_ H]. apply H. now left.
Qed.

Lemma memb_dd x l : memb x (dd [] l) = memb x l.
Proof. apply memb_ext. rewrite In_dd. cbn [In]. tauto. Qed.

Lemma find_dd (p : bytes -> bool) l : forall seen,
  (forall y, In y seen -> p y = false) -> find p (dd seen l) = find p l.
Proof.
  induction l as [|x t IH]; intros seen H; cbn [dd find]; [reflexivity|].
  destruct (memb x seen) eqn:E.
  - apply memb_In in E. rewrite (H x E). now apply IH.
  - cbn [find]. destruct (p x) eqn:Ep; [reflexivity|]. apply IH.
    intros y [<-|Hy]; [assumption | now apply H].
Qed.

Lemma find_app' {A} (p : A -> bool) a b :
  find p (a ++ b) = match find p a with Some x => Some x | None => find p b end.
Proof. induction a as [|x a IH]; cbn [app find]; [reflexivity|]. now destruct (p x). Qed.

Lemma find_filter {A} (p q : A -> bool) l :
  (forall x, In x l -> q x = false -> p x = false) -> find p (filter q l) = find p l.
Proof.
  induction l as [|x t IH]; intro H; cbn [filter find]; [reflexivity|].
  destruct (q x) eqn:Eq.
  - cbn [find]. destruct (p x); [reflexivity|]. apply IH. intros y Hy. apply H. now right.
  - rewrite (H x (or_introl eq_refl) Eq). apply IH. intros y Hy. apply H. now right.
Qed.

(* ---- the walk ---------------------------------------------------------------- *)
Definition decisive (prod : list bytes) (c : bytes) : bool := beqb c identity || memb c prod.
Definition outcome (o : option bytes) : option bytes :=
  match o with Some c => if beqb c identity then None else Some c | None => None end.

Lemma s_first_find prod l : s_first prod l = outcome (find (decisive prod) l).
Proof.
  induction l as [|c t IH]; cbn [s_first find]; [reflexivity|]. unfold decisive at 1.
  destruct (beqb c identity) eqn:E; cbn [orb outcome]; [now rewrite E|].
  destruct (memb c prod); cbn [outcome]; [now rewrite E | exact IH].
Qed.

Lemma walk_find prod ct st m :
  walk prod ct st m =
  match find (decisive prod) m with
  | Some e => if beqb e identity then ([], false) else (e, memb e ct && negb (memb e st))
  | None => ([], false)
  end.
Proof.
  induction m as [|c t IH]; cbn [walk find]; [reflexivity|]. unfold decisive at 1.
  destruct (beqb c identity) eqn:E; cbn [orb]; [now rewrite E|].
  destruct (memb c prod); cbn [negb]; [now rewrite E | exact IH].
Qed.

Lemma find_merged p A B :
  find p (merged (dd [] A) (dd [] B)) = find p (A ++ B).
Proof.
  unfold merged. rewrite !find_app', find_dd by (intros y []).
  destruct (find p A) eqn:EA; [reflexivity|].
  rewrite find_filter; [apply find_dd; intros y []|].
  intros x _ Hq. apply negb_false_iff, memb_In, In_dd in Hq. destruct Hq as [Hq _].
  exact (find_none _ _ EA x Hq).
Qed.

Lemma choose_walk cu st prod :
  choose cu st prod = walk prod (parse_accept cu) (parse_accept st) (merged (parse_accept cu) (parse_accept st)).
Proof. unfold choose. destruct (parse_accept cu), (parse_accept st); reflexivity. Qed.

(* the model's chooser computes the spec's outcome, for all header strings *)
Lemma choose_spec cu st prod :
  choose cu st prod =
  match s_first prod (s_pref cu st) with
  | None => ([], false)
  | Some c => (c, s_only_custom cu st c)
  end.
Proof.
  rewrite choose_walk, walk_find, !parse_accept_dd, find_merged, s_first_find.
  unfold s_pref, s_only_custom. destruct (find (decisive prod) (s_items cu ++ s_items st)) as [e|]; cbn [outcome]; [|reflexivity].
  destruct (beqb e identity); [reflexivity|]. now rewrite !memb_dd.
Qed.

(* ---- the relational specification -------------------------------------------- *)
Inductive Chosen (prod : list bytes) : list bytes -> option bytes -> Prop :=
| ch_nil : Chosen prod [] None
| ch_identity : forall l, Chosen prod (identity :: l) None
| ch_codec : forall c l, c <> identity -> In c prod -> Chosen prod (c :: l) (Some c)
| ch_skip : forall c l r, c <> identity -> ~ In c prod -> Chosen prod l r -> Chosen prod (c :: l) r.

Lemma chosen_iff prod l r : Chosen prod l r <-> s_first prod l = r.
Proof.
  split.
  - induction 1 as [|l|c l Hc Hi|c l r Hc Hi _ IH]; cbn [s_first].
    + reflexivity.
    + now rewrite beqb_refl.
    + apply beqb_neq in Hc. apply memb_In in Hi. now rewrite Hc, Hi.
    + apply beqb_neq in Hc. apply memb_notIn in Hi. now rewrite Hc, Hi.
  - revert r. induction l as [|c t IH]; intros r <-; cbn [s_first]; [constructor|].
    destruct (beqb c identity) eqn:E; [apply beqb_eq in E; subst; constructor|].
    apply beqb_neq in E. destruct (memb c prod) eqn:Em.
    + apply memb_In in Em. now constructor.
    + apply memb_notIn in Em. constructor; auto.
Qed.

Definition Decisive (prod : list bytes) (c : bytes) : Prop := c = identity \/ In c prod.

Lemma chosen_prefix prod l1 l r :
  (forall x, In x l1 -> ~ Decisive prod x) -> Chosen prod l r -> Chosen prod (l1 ++ l) r.
Proof.
  induction l1 as [|x l1 IH]; intros H Hc; cbn [app]; [assumption|].
  apply ch_skip.
  - intro E. apply (H x); [now left | now left].
  - intro E. apply (H x); [now left | now right].
  - apply IH; [|assumption]. intros y Hy. apply H. now right.
Qed.

Lemma chosen_first prod l r :
  Chosen prod l r <->
  match r with
  | Some c => c <> identity /\ In c prod /\
              exists l1 l2, l = l1 ++ c :: l2 /\ forall x, In x l1 -> ~ Decisive prod x
  | None => (forall x, In x l -> ~ Decisive prod x) \/
            (exists l1 l2, l = l1 ++ identity :: l2 /\ forall x, In x l1 -> ~ Decisive prod x)
  end.
Proof.
  split.
  - induction 1 as [|l|c l Hc Hi|c l r Hc Hi _ IH].
    + left. intros x [].
    + right. exists [], l. split; [reflexivity | intros x []].
    + repeat split; try assumption. exists [], l. split; [reflexivity | intros x []].
    + assert (Hd : forall l1, (forall x, In x l1 -> ~ Decisive prod x) ->
                               forall x, In x (c :: l1) -> ~ Decisive prod x).
      { intros l1 H x [<-|Hx]; [intros [E|E]; contradiction | now apply H]. }
      destruct r as [c'|].
      * destruct IH as [H1 [H2 [l1 [l2 [-> H3]]]]]. repeat split; try assumption.
        exists (c :: l1), l2. split; [reflexivity | now apply Hd].
      * destruct IH as [H|[l1 [l2 [-> H]]]]; [left; now apply Hd|].
        right. exists (c :: l1), l2. split; [reflexivity | now apply Hd].
  - destruct r as [c|].
    + intros [H1 [H2 [l1 [l2 [-> H3]]]]]. apply chosen_prefix; [assumption | now constructor].
    + intros [H|[l1 [l2 [-> H]]]].
      * rewrite <- (app_nil_r l). apply chosen_prefix; [assumption | constructor].
      * apply chosen_prefix; [assumption | constructor].
Qed.

Lemma chosen_functional prod l r1 r2 : Chosen prod l r1 -> Chosen prod l r2 -> r1 = r2.
Proof. intros H1 H2. apply chosen_iff in H1, H2. congruence. Qed.

(* the outcome as an option: [] is identity *)
Definition enc_opt (e : bytes) : option bytes := match e with [] => None | _ => Some e end.

Lemma items_nonempty h c : In c (s_items h) -> nonempty c = true.
Proof. unfold s_items. intro H. now apply filter_In in H. Qed.

Lemma pref_nonempty cu st c : In c (s_pref cu st) -> nonempty c = true.
Proof. unfold s_pref. intro H. apply in_app_or in H. destruct H; eapply items_nonempty; eassumption. Qed.

Lemma s_first_some prod l c : s_first prod l = Some c -> In c prod /\ In c l /\ c <> identity.
Proof.
  induction l as [|x t IH]; cbn [s_first]; [discriminate|].
  destruct (beqb x identity) eqn:E; [discriminate|]. destruct (memb x prod) eqn:Em.
  - intros [= <-]. apply memb_In in Em. apply beqb_neq in E. repeat split; [assumption | now left | assumption].
  - intro H. destruct (IH H) as [H1 [H2 H3]]. repeat split; [assumption | now right | assumption].
Qed.

Lemma s_first_nil l : s_first [] l = None.
Proof. induction l as [|x t IH]; cbn [s_first memb existsb]; [reflexivity|]. now destruct (beqb x identity). Qed.

Lemma nonempty_enc_opt c : nonempty c = true -> enc_opt c = Some c.
Proof. destruct c; [discriminate | reflexivity]. Qed.

Lemma choose_meets_chosen cu st prod :
  Chosen prod (s_pref cu st) (enc_opt (fst (choose cu st prod))).
Proof.
  apply chosen_iff. rewrite choose_spec. destruct (s_first prod (s_pref cu st)) as [c|] eqn:E; [|reflexivity].
  cbn [fst]. apply s_first_some in E. destruct E as [_ [E _]]. apply pref_nonempty in E.
  now rewrite nonempty_enc_opt.
Qed.

Lemma used_custom_iff cu st prod :
  snd (choose cu st prod) = true <->
  exists c, s_first prod (s_pref cu st) = Some c /\ In c (s_items cu) /\ ~ In c (s_items st).
Proof.
  rewrite choose_spec. destruct (s_first prod (s_pref cu st)) as [c|]; cbn [snd].
  - unfold s_only_custom. rewrite andb_true_iff, negb_true_iff, memb_In, memb_notIn. split.
    + intros [H1 H2]. now exists c.
    + intros [c' [[= <-] H]]. exact H.
  - split; [discriminate | intros [c [H _]]; discriminate].
Qed.

Lemma choose_in_prod cu st prod c : fst (choose cu st prod) = c -> c <> [] -> In c prod.
Proof.
  rewrite choose_spec. destruct (s_first prod (s_pref cu st)) as [c'|] eqn:E; cbn [fst].
  - intros <- _. now apply s_first_some in E.
  - intros <- H. contradiction.
Qed.

(* ---- the server: configuration, negotiation gate, stamping ------------------- *)
Lemma serve_spec lvl cu st ctype ne :
  serve lvl cu st ctype ne =
  match s_first (producible lvl) (s_pref cu st) with
  | Some c => if beqb ctype c17_arrow_content_type && ne
              then (let '(a, b) := s_stamp cu st c in (a, b, true))
              else ([], [], false)
  | None => ([], [], false)
  end.
Proof.
  unfold serve. destruct (producible lvl) as [|p ps] eqn:Ep; [now rewrite s_first_nil|].
  rewrite choose_spec. destruct (s_first (p :: ps) (s_pref cu st)) as [c|] eqn:E; [|reflexivity].
  apply s_first_some in E. destruct E as [_ [E _]]. apply pref_nonempty in E. rewrite E.
  unfold finish, s_stamp. rewrite E. cbn [andb].
  destruct (beqb ctype c17_arrow_content_type && ne); [|reflexivity].
  now destruct (s_only_custom cu st c).
Qed.

Lemma producible_sub lvl c : In c (producible lvl) -> In c c17_supported_encodings.
Proof. unfold producible. destruct (lvl <=? 0)%Z; [intros [] | tauto]. Qed.

Lemma identity_not_supported : ~ In identity c17_supported_encodings.
Proof. apply memb_notIn. vm_compute. reflexivity. Qed.

Lemma supported_nodup : NoDup c17_supported_encodings.
Proof.
  assert (H : dd [] c17_supported_encodings = c17_supported_encodings) by (vm_compute; reflexivity).
  rewrite <- H. apply NoDup_dd. Qed.

Lemma advert_default_ok : advertise c17_default_level = c17_advert_default.
Proof. vm_compute. reflexivity. Qed.

Lemma advert_disabled_ok : advertise 0%Z = c17_advert_disabled.
Proof. vm_compute. reflexivity. Qed.

Lemma default_enabled : (0 <? c17_default_level)%Z = true.
Proof. vm_compute. reflexivity. Qed.

Lemma items_advertise lvl : s_items (advertise lvl) = producible lvl.
Proof. unfold advertise, producible. destruct (lvl <=? 0)%Z; vm_compute; reflexivity. Qed.

Lemma supported_selfchoose :
  forallb (fun c => beqb (fst (choose c [] c17_supported_encodings)) c && nonempty c
                    && beqb (fst (choose [] c c17_supported_encodings)) c)
          c17_supported_encodings = true.
Proof. vm_compute. reflexivity. Qed.

Lemma advertised_iff_negotiable lvl c :
  In c (s_items (advertise lvl)) <->
  exists cu st, fst (choose cu st (producible lvl)) = c /\ c <> [].
Proof.
  rewrite items_advertise. split.
  - intro H. exists c, []. unfold producible in *. destruct (lvl <=? 0)%Z; [destruct H|].
    pose proof supported_selfchoose as S. rewrite forallb_forall in S. specialize (S c H).
    apply andb_true_iff in S. destruct S as [S _]. apply andb_true_iff in S. destruct S as [S1 S2].
    apply beqb_eq in S1. split; [assumption|]. intros ->. discriminate.
  - intros [cu [st [H1 H2]]]. eapply choose_in_prod; eassumption.
Qed.

(* ---- losslessness, from the codec premise ------------------------------------- *)
Section Codec.
  (* comp c b / decomp c b: the encoder / decoder of the codec named c *)
  Variable comp decomp : bytes -> bytes -> bytes.
  Hypothesis codec_lossless :
    forall c b, In c c17_supported_encodings -> decomp c (comp c b) = b.

  (* bytes put on the wire for a response whose handler wrote [body] *)
  Definition wire (r : bytes * bytes * bool) (body : bytes) : bytes :=
    let '(ce, xce, z) := r in
    if z then comp (if nonempty ce then ce else xce) body else body.
  (* what a client does with the stamped headers *)
  Definition decode (ce xce w : bytes) : bytes :=
    if nonempty ce then decomp ce w else if nonempty xce then decomp xce w else w.

  Lemma response_lossless lvl cu st ctype body :
    let r := serve lvl cu st ctype (nonempty body) in
    decode (fst (fst r)) (snd (fst r)) (wire r body) = body.
  Proof.
    cbv zeta. rewrite serve_spec.
    destruct (s_first (producible lvl) (s_pref cu st)) as [c|] eqn:E; [|reflexivity].
    destruct (beqb ctype c17_arrow_content_type && nonempty body); [|reflexivity].
    apply s_first_some in E. destruct E as [Hp [Hi _]].
    apply pref_nonempty in Hi. apply producible_sub in Hp.
    unfold s_stamp, decode, wire. destruct (s_only_custom cu st c); cbn [fst snd nonempty]; rewrite Hi;
      now apply codec_lossless.
  Qed.
End Codec.

(* ---- the decidable form holds on the model ------------------------------------ *)
Lemma list_beqb_refl l : list_eqb beqb l l = true.
Proof. apply list_eqb_eq; [exact beqb_eq | reflexivity]. Qed.

Lemma model_meets_spec : forall i, spec_ok i (model i) = true.
Proof.
  intros [h|cu st prod|enc uc ctype ne|ops cu st ctype ne|codec lvl bodies rids oracle]; cbn [model spec_ok].
  - rewrite parse_accept_dd, s_uniq_dd. apply list_beqb_refl.
  - rewrite choose_spec. destruct (s_first prod (s_pref cu st)) as [c|]; [|reflexivity].
    now rewrite beqb_refl, eqb_reflx.
  - unfold finish. destruct (nonempty enc && beqb ctype c17_arrow_content_type && ne) eqn:E.
    + destruct uc; cbn [spec_ok negb nonempty andb]; rewrite beqb_refl; reflexivity.
    + reflexivity.
  - rewrite serve_spec. set (lvl := eff_level ops).
    assert (Ha : opt_eqb beqb (Some (advertise lvl))
                   (Some (join [COMMA; SP] (if (lvl <=? 0)%Z then [] else c17_supported_encodings))) = true).
    { unfold advertise, producible. cbn [opt_eqb]. destruct (lvl <=? 0)%Z; apply beqb_refl. }
    destruct (s_first (producible lvl) (s_pref cu st)) as [c|] eqn:E.
    + destruct (beqb ctype c17_arrow_content_type && ne) eqn:Ec.
      * unfold s_stamp. destruct (s_only_custom cu st c) eqn:Eo; cbn [spec_ok negb andb];
          rewrite Ha, items_advertise, E; unfold stamped, s_stamp.
        all: rewrite Ec, Eo, !beqb_refl; reflexivity.
      * cbn [spec_ok negb andb]. rewrite Ha, Ec. reflexivity.
    + cbn [spec_ok negb andb]. rewrite Ha, items_advertise, E.
      destruct (beqb ctype c17_arrow_content_type && ne); reflexivity.
  - rewrite map_length, seq_length, Nat.eqb_refl, andb_true_r.
    pose proof (model_picks_legal bodies (attach [] rids oracle)) as L. rewrite attach_fst in L. rewrite L, andb_true_r.
    apply forallb_forall. intros b Hb. apply in_map_iff in Hb. destruct Hb as [r [<- _]]. apply resp_ok_true.
Qed.

(* ---- alternatives that do NOT meet the specification -------------------------- *)
(* walking the SERVER's order (first supported codec the client lists anywhere) *)
Definition choose_server_order (cu st : bytes) (prod : list bytes) : bytes :=
  match find (fun c => memb c (s_pref cu st)) prod with Some c => c | None => [] end.
(* reading the standard header only *)
Definition choose_standard_only (cu st : bytes) (prod : list bytes) : bytes :=
  match s_first prod (s_items st) with Some c => c | None => [] end.

Lemma server_order_refuted :
  exists cu st, ~ Chosen c17_supported_encodings (s_pref cu st)
                  (enc_opt (choose_server_order cu st c17_supported_encodings)).
Proof.
  exists (str "gzip, zstd"), []. intro H. apply chosen_iff in H. vm_compute in H. discriminate.
Qed.

Lemma standard_only_refuted :
  exists cu st, ~ Chosen c17_supported_encodings (s_pref cu st)
                  (enc_opt (choose_standard_only cu st c17_supported_encodings)).
Proof.
  exists (str "zstd"), []. intro H. apply chosen_iff in H. vm_compute in H. discriminate.
Qed.

(* ---- the property statements of Props/C17.v ----------------------------------- *)
Lemma pieces_are_the_split h :
  join [COMMA] (s_pieces h) = h /\ Forall (fun p => ~ In COMMA p) (s_pieces h) /\
  forall ps, ps <> [] -> Forall (fun p => ~ In COMMA p) ps -> join [COMMA] ps = h -> ps = s_pieces h.
Proof.
  split; [apply pieces_join | split; [apply pieces_nocomma|]].
  intros ps Hn Hf <-. symmetry. now apply pieces_unique.
Qed.

Lemma parse_accept_items h :
  parse_accept h = s_uniq (s_items h) /\ NoDup (parse_accept h) /\
  forall t, In t (parse_accept h) <-> In t (s_items h).
Proof.
  rewrite parse_accept_dd. split; [symmetry; apply s_uniq_dd | split; [apply NoDup_dd|]].
  intro t. rewrite In_dd. cbn [In]. tauto.
Qed.

Lemma used_custom_chosen cu st prod :
  snd (choose cu st prod) = true <->
  exists c, Chosen prod (s_pref cu st) (Some c) /\ In c (s_items cu) /\ ~ In c (s_items st).
Proof.
  rewrite used_custom_iff. split; intros [c [H1 H2]]; exists c; split; try assumption;
    now apply chosen_iff.
Qed.

Lemma serve_stamp_rule lvl cu st ctype ne :
  let '(ce, xce, z) := serve lvl cu st ctype ne in
  (z = true <-> ctype = c17_arrow_content_type /\ ne = true /\
                exists c, Chosen (producible lvl) (s_pref cu st) (Some c)) /\
  (forall c, z = true -> Chosen (producible lvl) (s_pref cu st) (Some c) ->
     if s_only_custom cu st c then ce = [] /\ xce = c else ce = c /\ xce = []) /\
  (z = false -> ce = [] /\ xce = []).
Proof.
  rewrite serve_spec.
  destruct (s_first (producible lvl) (s_pref cu st)) as [c|] eqn:E.
  - destruct (beqb ctype c17_arrow_content_type && ne) eqn:Ec.
    + apply andb_true_iff in Ec. destruct Ec as [Ec ->]. apply beqb_eq in Ec. subst ctype.
      unfold s_stamp. destruct (s_only_custom cu st c) eqn:Eo; (split; [|split]).
      1,4: split; [intros _; repeat split; exists c; now apply chosen_iff | reflexivity].
      2,4: discriminate.
      all: intros c' _ H; apply chosen_iff in H; rewrite E in H; injection H as <-; rewrite Eo; now split.
    + split; [|split]; [|discriminate | now split]. split; [discriminate|].
      intros [-> [-> _]]. now rewrite beqb_refl in Ec.
  - split; [|split]; [|discriminate | now split]. split; [discriminate|].
    intros [_ [_ [c H]]]. apply chosen_iff in H. congruence.
Qed.

Lemma serve_non_arrow lvl cu st ctype ne :
  ctype <> c17_arrow_content_type -> serve lvl cu st ctype ne = ([], [], false).
Proof.
  intro H. rewrite serve_spec. apply beqb_neq in H. rewrite H.
  now destruct (s_first (producible lvl) (s_pref cu st)).
Qed.

Lemma advertised_is_producible lvl :
  s_items (advertise lvl) = producible lvl /\
  forall c, In c (s_items (advertise lvl)) <->
            exists cu st, fst (choose cu st (producible lvl)) = c /\ c <> [].
Proof. split; [apply items_advertise | apply advertised_iff_negotiable]. Qed.

Lemma advertised_consts :
  advertise c17_default_level = c17_advert_default /\ advertise 0%Z = c17_advert_disabled /\
  NoDup c17_supported_encodings /\ ~ In identity c17_supported_encodings.
Proof.
  split; [apply advert_default_ok | split; [apply advert_disabled_ok | split;
    [apply supported_nodup | apply identity_not_supported]]].
Qed.

(* ---- the writer pool: statements of Props/C17.v ---------------------------------- *)
Lemma pool_never_holds_live_writer bodies sched r w :
  let s := prun true bodies sched in
  In w (p_pool s) -> p_hold s r = Some w -> (length (body_of bodies r) + 5 <= p_pc s r)%nat.
Proof. exact (pool_safe_l bodies sched r w). Qed.

Lemma overlapping_lossless bodies sched r :
  let s := prun true bodies sched in
  ((length (body_of bodies r) + 3 <= p_pc s r)%nat -> p_sink s r = [Complete (body_of bodies r)]) /\
  ((p_pc s r <= length (body_of bodies r) + 2)%nat -> p_sink s r = []).
Proof. exact (closed_lossless_l bodies sched r). Qed.

Lemma honoured_oracles_legal bodies sched :
  s_picks_legal bodies (fun _ => O) (map fst sched) (rev (p_picks (prun true bodies sched))) = true.
Proof. exact (model_picks_legal bodies sched). Qed.

Lemma put_before_unpin_refuted :
  exists bodies sched,
    (exists r, let s := prun false bodies sched in
       (length (body_of bodies r) + 3 <= p_pc s r)%nat /\ p_sink s r <> [Complete (body_of bodies r)]) /\
    (exists k r w, let s := prun false bodies (firstn k sched) in
       In w (p_pool s) /\ p_hold s r = Some w /\ (p_pc s r < length (body_of bodies r) + 5)%nat).
Proof.
  exists wit_bodies, wit_sched. split.
  - exists 1%nat. exact legacy_lossless_refuted.
  - exists 5%nat. exact legacy_pool_refuted.
Qed.
