(* Proofs/C04.v — the unary response shape. *)
From VR Require Import Model.C04.
From Coq Require Import ZifyBool ZifyN ZifyNat.
Open Scope N_scope.
Local Arguments N.eqb : simpl never.
Local Arguments Z.eqb : simpl never.
Local Arguments Z.leb : simpl never.

Lemma list_eqb_refl {A} (e : A -> A -> bool) (He : forall x, e x x = true) l : list_eqb e l l = true.
Proof. induction l as [|x l IH]; cbn; [reflexivity|]. now rewrite He, IH. Qed.

Lemma kv_eqb_refl (m : kvlist) : kv_eqb m m = true.
Proof.
  unfold kv_eqb. induction m as [|[k v] m IH]; cbn [list_eqb]; [reflexivity|].
  unfold pair_eqb at 1; cbn [fst snd]. now rewrite !beqb_refl, IH.
Qed.

Lemma pair_beqb_refl (p : bytes * bytes) : pair_eqb beqb beqb p p = true.
Proof. unfold pair_eqb. now rewrite !beqb_refl. Qed.

Section Shape.
  Variable rid : bytes.

  Let lf := log_frame rid.

  Lemma logs_all_log ms : forallb is_log (map lf ms) = true.
  Proof. induction ms as [|m ms IH]; cbn; [reflexivity | exact IH]. Qed.

  Lemma logs_keys ms : map log_key (map lf ms) = map (fun m => (lg_level m, lg_msg m)) ms.
  Proof. rewrite map_map. apply map_ext. intro m. reflexivity. Qed.

  Lemma logs_extras ms : map log_extras (map lf ms) = map (fun m => kv_sort (lg_extras m)) ms.
  Proof. rewrite map_map. apply map_ext. intro m. reflexivity. Qed.

  Lemma logs_reqid ms :
    forallb (fun f => negb (is_log f || is_exc f) || beqb (frame_reqid f) rid) (map lf ms) = true.
  Proof. induction ms as [|m ms IH]; cbn [map forallb]; [reflexivity|]. rewrite IH. cbn. now rewrite beqb_refl. Qed.

  Lemma logs_no_data ms : filter is_data (map lf ms) = [].
  Proof. induction ms as [|m ms IH]; cbn; [reflexivity | exact IH]. Qed.

  Lemma logs_no_exc ms : filter is_exc (map lf ms) = [].
  Proof. induction ms as [|m ms IH]; cbn; [reflexivity | exact IH]. Qed.
End Shape.

Lemma count_app {A} (p : A -> bool) a b : count p (a ++ b) = (count p a + count p b)%nat.
Proof. unfold count. now rewrite filter_app, app_length. Qed.

(* readable, relational form ------------------------------------------------ *)
Theorem response_shape i :
  response_frames i =
    map (log_frame (i_reqid i)) (filter (admitted (i_loglevel i)) (i_logs i)) ++ [final_frame i]
  /\ (i_fail i = None ->
        count is_data (response_frames i) = 1%nat /\ count is_exc (response_frames i) = 0%nat)
  /\ (forall f, i_fail i = Some f ->
        count is_exc (response_frames i) = 1%nat /\ count is_data (response_frames i) = 0%nat).
Proof.
  split; [reflexivity|]. unfold response_frames. split.
  - intro H. rewrite !count_app. unfold count at 1 3. rewrite logs_no_data, logs_no_exc.
    unfold final_frame. rewrite H. destruct (i_method i); cbn; split; reflexivity.
  - intros f H. rewrite !count_app. unfold count at 1 3. rewrite logs_no_data, logs_no_exc.
    unfold final_frame. rewrite H. cbn. split; reflexivity.
Qed.

(* order: the admitted messages appear in emission order (filter preserves order) *)
Theorem logs_in_emission_order i :
  map log_key (removelast (response_frames i)) =
  map (fun m => (lg_level m, lg_msg m)) (filter (admitted (i_loglevel i)) (i_logs i)).
Proof. unfold response_frames. rewrite removelast_last. apply logs_keys. Qed.

Theorem model_meets_spec i : spec_ok i (model i) = true.
Proof.
  unfold spec_ok, model. cbn [o_streams st_schema st_frames].
  unfold response_frames. set (L := map (log_frame (i_reqid i)) (filter (admitted (i_loglevel i)) (i_logs i))).
  rewrite removelast_last, last_last. rewrite beqb_refl.
  unfold L at 1. rewrite logs_all_log.
  unfold L at 1. rewrite logs_keys, (list_eqb_refl _ pair_beqb_refl).
  unfold L at 1. rewrite logs_extras, (list_eqb_refl _ kv_eqb_refl).
  rewrite forallb_app. unfold L at 1. rewrite logs_reqid.
  rewrite !count_app. unfold count at 1 3 5 7. unfold L. rewrite !logs_no_data, !logs_no_exc.
  cbn [andb length plus forallb].
  unfold final_frame. destruct (i_fail i) as [f|].
  - cbn. now rewrite !beqb_refl.
  - destruct (i_method i); cbn; rewrite ?Z.eqb_refl; reflexivity.
Qed.

(* the filter is exactly the priority comparison of the regenerated level table *)
Theorem admitted_iff req m :
  admitted req m = true <-> (prio (lg_level m) <= prio (effective_level req))%Z.
Proof. unfold admitted. lia. Qed.

Lemma level_table_ok :
  prio level_exception = 0%Z /\ prio level_trace = 5%Z /\ prio (str "no-such-level") = log_prio_unknown
  /\ length log_levels = 6%nat.
Proof. vm_compute. repeat split; reflexivity. Qed.
