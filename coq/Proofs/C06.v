(* Proofs/C06.v — the lockstep loop, by induction on the client's input list. *)
From VR Require Import Model.C06.
From VR Require Proofs.C04.
From Coq Require Import ZifyBool ZifyN ZifyNat.
Local Open Scope nat_scope.
Local Arguments N.eqb : simpl never.
Local Arguments Z.eqb : simpl never.
Local Arguments Z.add : simpl never.
Local Arguments kv_sort : simpl never.

(* ---- generic list facts -------------------------------------------------- *)
Lemma count_app {A} (p : A -> bool) a b : count p (a ++ b) = count p a + count p b.
Proof. unfold count. now rewrite filter_app, app_length. Qed.

Lemma count_le_length {A} (p : A -> bool) l : count p l <= length l.
Proof. unfold count. induction l as [|x l IH]; cbn [filter length]; [lia|]. destruct (p x); cbn [length]; lia. Qed.

Lemma list_eqb_refl {A} (e : A -> A -> bool) (He : forall x, e x x = true) l : list_eqb e l l = true.
Proof. induction l as [|x l IH]; cbn [list_eqb]; [reflexivity|]. now rewrite He, IH. Qed.

Lemma call_eqb_refl c : call_eqb c c = true.
Proof. destruct c; cbn [call_eqb]; rewrite ?Nat.eqb_refl, ?Z.eqb_refl; reflexivity. Qed.

Lemma calls_eqb_refl l : calls_eqb l l = true.
Proof. apply list_eqb_refl, call_eqb_refl. Qed.

Lemma frames_eqb_refl l : frames_eqb l l = true.
Proof. apply list_eqb_refl, frame_eqb_refl. Qed.

Lemma stream_eqb_refl s : stream_eqb s s = true.
Proof. unfold stream_eqb. now rewrite beqb_refl, (list_eqb_refl _ frame_eqb_refl). Qed.

Definition noexc (fs : list frame) : bool := forallb (fun f => negb (is_exc f)) fs.

Lemma noexc_app a b : noexc (a ++ b) = noexc a && noexc b.
Proof. apply forallb_app. Qed.

Lemma noexc_count fs : noexc fs = true -> count is_exc fs = 0.
Proof.
  unfold noexc, count. induction fs as [|f fs IH]; cbn [forallb filter length]; [reflexivity|].
  intro H. apply andb_true_iff in H as [H1 H2]. destruct (is_exc f); [discriminate|]. now apply IH.
Qed.

Lemma noexc_removelast fs : noexc fs = true -> noexc (removelast fs) = true.
Proof.
  unfold noexc. induction fs as [|f fs IH]; [reflexivity|]. cbn [forallb]. intro H.
  apply andb_true_iff in H as [H1 H2]. cbn [removelast]. destruct fs as [|g fs]; [reflexivity|].
  cbn [forallb]. rewrite H1. cbn [andb]. now apply IH.
Qed.

Lemma removelast_snoc {A} (l : list A) x : removelast (l ++ [x]) = l.
Proof. apply removelast_last. Qed.

Lemma last_opt_cons {A} (x y : A) l : last_opt (x :: y :: l) = last_opt (y :: l).
Proof. reflexivity. Qed.

Lemma last_opt_snoc {A} (l : list A) x : last_opt (l ++ [x]) = Some x.
Proof.
  induction l as [|y l IH]; [reflexivity|]. cbn [app]. destruct l as [|z l]; [reflexivity|].
  cbn [app] in *. rewrite last_opt_cons. exact IH.
Qed.

(* ---- one turn ------------------------------------------------------------ *)
Lemma mkcall_is_turn m k s : is_turn_call (mkcall m k s) = true.
Proof. destruct m; reflexivity. Qed.

Lemma mkcall_not_cancel m k s : is_cancel_call (mkcall m k s) = false.
Proof. destruct m; reflexivity. Qed.

Lemma turn_logs_noexc t : noexc (turn_logs t) = true.
Proof. unfold turn_logs, noexc. induction (t_logs t) as [|l ls IH]; cbn [map forallb]; [reflexivity | exact IH]. Qed.

Lemma turn_logs_nodata t : count is_data (turn_logs t) = 0.
Proof. unfold turn_logs, count. induction (t_logs t) as [|l ls IH]; cbn [map filter]; [reflexivity | exact IH]. Qed.

Lemma emitted_noexc t s : noexc (turn_logs t ++ [data_frame t s]) = true.
Proof. rewrite noexc_app, turn_logs_noexc. reflexivity. Qed.

Lemma emitted_one_data t s : count is_data (turn_logs t ++ [data_frame t s]) = 1.
Proof. rewrite count_app, turn_logs_nodata. reflexivity. Qed.

Lemma run_turn_noexc m t s : noexc (tres_frames (run_turn m t s)) = true.
Proof.
  unfold run_turn. destruct (t_act t), m; cbn [tres_frames]; try reflexivity;
    try apply emitted_noexc; apply turn_logs_noexc.
Qed.

Lemma run_turn_data_le m t s : count is_data (tres_frames (run_turn m t s)) <= 1.
Proof.
  unfold run_turn. destruct (t_act t), m; cbn [tres_frames];
    rewrite ?emitted_one_data, ?turn_logs_nodata; cbn [count filter length]; lia.
Qed.

(* an exchange turn either fails or flushes exactly one data batch after its logs; it never finishes *)
Definition exch_emits (a : act) : Prop := a = AEmit \/ a = AEmitFinishIgnored.

Lemma run_turn_exchange t s :
  match run_turn Exchange t s with
  | TCont fs => fs = turn_logs t ++ [data_frame t s] /\ exch_emits (t_act t)
  | TFail _ => ~ exch_emits (t_act t)
  | TStop _ => False
  end.
Proof.
  unfold run_turn, exch_emits. destruct (t_act t);
    try (intros [H|H]; discriminate); split; try reflexivity; auto.
Qed.

(* a Finish the collector refuses (exchange) has no effect: the turn is judged exactly as if it had not been called *)
Definition with_act (t : turn) (a : act) : turn :=
  {| t_logs := t_logs t; t_act := a; t_value := t_value t; t_meta := t_meta t |}.

Lemma refused_finish_no_effect t s :
  run_turn Exchange (with_act t AEmitFinishIgnored) s = run_turn Exchange (with_act t AEmit) s
  /\ run_turn Exchange (with_act t AFinishIgnored) s = run_turn Exchange (with_act t ANoEmit) s
  /\ (forall fs, run_turn Exchange (with_act t AFinishIgnored) s <> TStop fs)
  /\ (forall fs, run_turn Exchange (with_act t AEmitFinishIgnored) s <> TStop fs).
Proof. repeat split; intros; discriminate. Qed.

(* ---- the plan and how far the loop gets ---------------------------------- *)
Fixpoint nrun (p : list (call * tres)) : nat :=
  match p with
  | [] => 0
  | x :: r => if is_cont x then S (nrun r) else 1
  end.

Lemma nrun_le p : nrun p <= length p.
Proof. induction p as [|x p IH]; cbn [nrun length]; [lia|]. destruct (is_cont x); lia. Qed.

Lemma nrun_prefix_cont p : forallb is_cont (removelast (firstn (nrun p) p)) = true.
Proof.
  induction p as [|x p IH]; [reflexivity|]. cbn [nrun]. destruct (is_cont x) eqn:E.
  - cbn [firstn]. destruct (firstn (nrun p) p) as [|y l] eqn:F; [reflexivity|].
    change (removelast (x :: y :: l)) with (x :: removelast (y :: l)). cbn [forallb]. now rewrite E, IH.
  - cbn [firstn]. reflexivity.
Qed.

Lemma nrun_stop_reason p :
  Nat.eqb (nrun p) (length p) || negb (forallb is_cont (firstn (nrun p) p)) = true.
Proof.
  induction p as [|x p IH]; [reflexivity|]. cbn [nrun]. destruct (is_cont x) eqn:E.
  - cbn [firstn length forallb]. rewrite E. cbn [andb]. exact IH.
  - cbn [firstn forallb]. rewrite E. cbn [andb negb]. apply orb_true_r.
Qed.

Lemma nrun_all_cont p : forallb is_cont p = true -> nrun p = length p.
Proof.
  induction p as [|x p IH]; [reflexivity|]. cbn [forallb nrun length]. intro H.
  apply andb_true_iff in H as [H1 H2]. rewrite H1. now rewrite IH.
Qed.

Lemma nrun_split pre x post :
  forallb is_cont pre = true -> is_cont x = false ->
  firstn (nrun (pre ++ x :: post)) (pre ++ x :: post) = pre ++ [x].
Proof.
  intros Hp Hx. induction pre as [|y pre IH]; cbn [app nrun].
  - rewrite Hx. reflexivity.
  - cbn [forallb] in Hp. apply andb_true_iff in Hp as [H1 H2]. rewrite H1. cbn [firstn]. now rewrite IH.
Qed.

Lemma plan_length m sc k lv : length (plan m sc k lv) = length lv.
Proof. revert sc k; induction lv as [|it lv IH]; intros sc k; cbn [plan length]; [reflexivity | now rewrite IH]. Qed.

Lemma live_length ins : length (live ins) <= length ins.
Proof. induction ins as [|it r IH]; cbn [live length]; [lia|]. destruct (is_cancel it); cbn [length]; lia. Qed.

Lemma live_idem ins : live (live ins) = live ins.
Proof. induction ins as [|it r IH]; [reflexivity|]. cbn [live]. destruct (is_cancel it) eqn:E; [reflexivity|]. cbn [live]. now rewrite E, IH. Qed.

Definition cancelled (ins : list item) : bool := negb (Nat.eqb (length (live ins)) (length ins)).

Lemma cancelled_cons it r : is_cancel it = false -> cancelled (it :: r) = cancelled r.
Proof. intro H. unfold cancelled. cbn [live]. rewrite H. reflexivity. Qed.

Lemma cancelled_cancel it r : is_cancel it = true -> cancelled (it :: r) = true.
Proof. intro H. unfold cancelled. cbn [live]. now rewrite H. Qed.

Lemma res_exc_cont rid x l : is_cont x = true -> res_exc rid (last_opt (x :: l)) = res_exc rid (last_opt l).
Proof.
  intro H. destruct l as [|y l]; [|reflexivity]. cbn [last_opt res_exc]. destruct x as [c r].
  unfold is_cont in H. cbn [snd] in H. destruct r; try discriminate. reflexivity.
Qed.

(* ---- the characterisation of the loop ------------------------------------ *)
Section Char.
  Variable m : mode.
  Variable rid : bytes.
  Variable canc : bool.

  Let lp := loop m rid None canc.

  Definition cancel_part (k : nat) (ins : list item) (P run : list (call * tres)) : list call :=
    if cancelled ins && canc && forallb is_cont run && Nat.eqb (length run) (length P) then [CCancel (k + length run)] else [].

  Lemma loop_char sc k ins :
    let P := plan m sc k (live ins) in
    let run := firstn (nrun P) P in
    fst (lp sc k ins) = concat (map res_frames run) ++ res_exc rid (last_opt run)
    /\ snd (lp sc k ins) = map fst run ++ cancel_part k ins P run.
  Proof.
    subst lp. revert sc k. induction ins as [|it rest IH]; intros sc k; cbn zeta.
    - cbn. split; reflexivity.
    - cbn [loop live]. destruct (is_cancel it) eqn:Ec.
      + cbn [plan nrun firstn map concat app last_opt res_exc fst snd]. split; [reflexivity|].
        unfold cancel_part. rewrite (cancelled_cancel _ _ Ec). cbn [andb forallb length Nat.eqb].
        rewrite Nat.add_0_r. destruct canc; reflexivity.
      + cbn [plan]. set (s := insum m it). set (c := mkcall m k s).
        specialize (IH (tl sc) (S k)). cbn zeta in IH. destruct IH as [IHf IHc].
        set (P' := plan m (tl sc) (S k) (live rest)) in *.
        unfold cancel_part. rewrite (cancelled_cons _ _ Ec).
        destruct (run_turn m (hd (default_turn m) sc) s) as [e|fs|fs] eqn:Er.
        * cbn [nrun is_cont snd firstn map concat fst app last_opt res_exc res_frames tres_frames forallb andb].
          split; [reflexivity|]. rewrite andb_false_r. cbn [andb]. reflexivity.
        * cbn [nrun is_cont snd]. cbn [firstn map fst snd]. cbn [concat]. unfold res_frames at 1. cbn [snd tres_frames].
          rewrite res_exc_cont by reflexivity. rewrite <- app_assoc. split.
          -- now rewrite IHf.
          -- rewrite IHc. cbn [app]. f_equal. f_equal. unfold cancel_part.
             cbn [forallb is_cont snd andb length Nat.eqb]. rewrite Nat.add_succ_comm. reflexivity.
        * cbn [nrun is_cont snd firstn map concat fst app last_opt res_exc res_frames tres_frames forallb andb].
          rewrite !app_nil_r. split; [reflexivity|]. rewrite andb_false_r. cbn [andb]. reflexivity.
  Qed.
End Char.

(* ---- facts about every planned turn -------------------------------------- *)
Lemma In_firstn {A} n (l : list A) x : In x (firstn n l) -> In x l.
Proof.
  revert n; induction l as [|y l IH]; intros [|n]; cbn [firstn In]; try tauto.
  intros [H|H]; [now left | right; now apply (IH n)].
Qed.

Lemma plan_facts m sc k lv p :
  In p (plan m sc k lv) ->
  is_turn_call (fst p) = true /\ is_cancel_call (fst p) = false
  /\ noexc (res_frames p) = true /\ count is_data (res_frames p) <= 1
  /\ (is_cont p = true -> count is_data (res_frames p) = 1).
Proof.
  revert sc k; induction lv as [|it lv IH]; intros sc k; cbn [plan In]; [tauto|].
  intros [H|H]; [|now apply (IH (tl sc) (S k))]. subst p. cbn [fst]. unfold res_frames, is_cont. cbn [snd].
  repeat split.
  - apply mkcall_is_turn.
  - apply mkcall_not_cancel.
  - apply run_turn_noexc.
  - apply run_turn_data_le.
  - unfold run_turn. destruct (t_act (hd (default_turn m) sc)), m; try discriminate; intros _; cbn [tres_frames]; apply emitted_one_data.
Qed.

Lemma noexc_concat (l : list (call * tres)) :
  (forall p, In p l -> noexc (res_frames p) = true) -> noexc (concat (map res_frames l)) = true.
Proof.
  induction l as [|x l IH]; intro H; cbn [map concat]; [reflexivity|].
  rewrite noexc_app, (H x (or_introl eq_refl)), IH; [reflexivity|]. intros p Hp. apply H. now right.
Qed.

Lemma data_concat_le (l : list (call * tres)) :
  (forall p, In p l -> count is_data (res_frames p) <= 1) -> count is_data (concat (map res_frames l)) <= length l.
Proof.
  induction l as [|x l IH]; intro H; cbn [map concat length]; [unfold count; cbn; lia|].
  rewrite count_app. pose proof (H x (or_introl eq_refl)). assert (count is_data (concat (map res_frames l)) <= length l); [|lia].
  apply IH. intros p Hp. apply H. now right.
Qed.

Lemma data_concat_eq (l : list (call * tres)) :
  (forall p, In p l -> count is_data (res_frames p) = 1) -> count is_data (concat (map res_frames l)) = length l.
Proof.
  induction l as [|x l IH]; intro H; cbn [map concat length]; [reflexivity|].
  rewrite count_app, (H x (or_introl eq_refl)), IH; [reflexivity|]. intros p Hp. apply H. now right.
Qed.

Lemma turn_calls_filter (l : list (call * tres)) :
  (forall p, In p l -> is_turn_call (fst p) = true) -> filter is_turn_call (map fst l) = map fst l.
Proof.
  induction l as [|x l IH]; intro H; cbn [map filter]; [reflexivity|].
  rewrite (H x (or_introl eq_refl)), IH; [reflexivity|]. intros p Hp. apply H. now right.
Qed.

Lemma cancel_calls_filter (l : list (call * tres)) :
  (forall p, In p l -> is_cancel_call (fst p) = false) -> filter is_cancel_call (map fst l) = [].
Proof.
  induction l as [|x l IH]; intro H; cbn [map filter]; [reflexivity|].
  rewrite (H x (or_introl eq_refl)), IH; [reflexivity|]. intros p Hp. apply H. now right.
Qed.

Lemma forallb_In {A} (f : A -> bool) l : forallb f l = true -> forall x, In x l -> f x = true.
Proof. intro H. now apply forallb_forall. Qed.

Lemma res_exc_all_cont rid l : forallb is_cont l = true -> res_exc rid (last_opt l) = [].
Proof.
  induction l as [|x l IH]; [reflexivity|]. cbn [forallb]. intro H. apply andb_true_iff in H as [H1 H2].
  rewrite res_exc_cont by exact H1. now apply IH.
Qed.

Lemma res_exc_length rid o : length (res_exc rid o) <= 1.
Proof. destruct o as [[c [e|fs|fs]]|]; cbn; lia. Qed.

Lemma res_exc_nodata rid o : count is_data (res_exc rid o) = 0.
Proof. destruct o as [[c [e|fs|fs]]|]; reflexivity. Qed.

(* ---- readable consequences of the characterisation ----------------------- *)
(* all planned turns continue: every one ran, all their batches were flushed in order *)
Lemma loop_all_continue m rid canc sc k ins :
  let P := plan m sc k (live ins) in
  forallb is_cont P = true ->
  fst (loop m rid None canc sc k ins) = concat (map res_frames P)
  /\ snd (loop m rid None canc sc k ins) =
       map fst P ++ (if cancelled ins && canc then [CCancel (k + length (live ins))] else []).
Proof.
  cbn zeta. intro H. destruct (loop_char m rid canc sc k ins) as [Hf Hc]. cbn zeta in Hf, Hc.
  rewrite (nrun_all_cont _ H), firstn_all in Hf, Hc. split.
  - rewrite Hf, (res_exc_all_cont _ _ H). apply app_nil_r.
  - rewrite Hc. unfold cancel_part. rewrite H, Nat.eqb_refl, !andb_true_r, plan_length. reflexivity.
Qed.

(* the first turn that does not continue ends the stream: nothing after it runs, no cancel hook *)
Lemma loop_first_stop m rid canc sc k ins pre x post :
  plan m sc k (live ins) = pre ++ x :: post ->
  forallb is_cont pre = true -> is_cont x = false ->
  fst (loop m rid None canc sc k ins) = concat (map res_frames pre) ++ res_frames x ++ res_exc rid (Some x)
  /\ snd (loop m rid None canc sc k ins) = map fst pre ++ [fst x].
Proof.
  intros HP Hpre Hx. destruct (loop_char m rid canc sc k ins) as [Hf Hc]. cbn zeta in Hf, Hc.
  rewrite HP, (nrun_split _ _ _ Hpre Hx) in Hf, Hc. split.
  - rewrite Hf, map_app, concat_app, last_opt_snoc. cbn [map concat]. now rewrite app_nil_r, <- app_assoc.
  - rewrite Hc, map_app. unfold cancel_part. rewrite forallb_app. cbn [forallb]. rewrite Hx.
    rewrite !andb_false_r. cbn [andb map]. now rewrite app_nil_r.
Qed.

Lemma pre_facts m sc k lv pre x post :
  plan m sc k lv = pre ++ x :: post -> forallb is_cont pre = true ->
  noexc (concat (map res_frames pre)) = true /\ count is_data (concat (map res_frames pre)) = length pre.
Proof.
  intros HP Hpre. assert (Hin : forall p, In p pre -> In p (plan m sc k lv)).
  { intros p Hp. rewrite HP. apply in_or_app. now left. }
  split.
  - apply noexc_concat. intros p Hp. now apply (plan_facts m sc k lv p (Hin p Hp)).
  - apply data_concat_eq. intros p Hp. apply (plan_facts m sc k lv p (Hin p Hp)). now apply (forallb_In _ _ Hpre).
Qed.

(* a failing turn: the earlier turns' batches, then exactly one exception batch; the call trace is a prefix *)
Theorem failing_turn m rid canc sc k ins pre c e post :
  plan m sc k (live ins) = pre ++ (c, TFail e) :: post -> forallb is_cont pre = true ->
  let fs := fst (loop m rid None canc sc k ins) in
  fs = concat (map res_frames pre) ++ [exc_frame rid e]
  /\ count is_exc fs = 1 /\ count is_data fs = length pre
  /\ snd (loop m rid None canc sc k ins) = map fst pre ++ [c].
Proof.
  intros HP Hpre. cbn zeta. destruct (loop_first_stop m rid canc sc k ins pre (c, TFail e) post HP Hpre eq_refl) as [Hf Hc].
  destruct (pre_facts _ _ _ _ _ _ _ HP Hpre) as [Hn Hd].
  rewrite Hf, Hc. cbn [res_frames snd tres_frames res_exc app fst]. repeat split.
  - rewrite count_app, (noexc_count _ Hn). reflexivity.
  - rewrite count_app, Hd. cbn. lia.
Qed.

(* a finishing producer turn: its batches are flushed, then the stream ends *)
Theorem finishing_turn m rid canc sc k ins pre c fs post :
  plan m sc k (live ins) = pre ++ (c, TStop fs) :: post -> forallb is_cont pre = true ->
  let out := fst (loop m rid None canc sc k ins) in
  out = concat (map res_frames pre) ++ fs
  /\ count is_exc out = 0
  /\ count is_data (concat (map res_frames pre)) = length pre /\ count is_data fs <= 1
  /\ snd (loop m rid None canc sc k ins) = map fst pre ++ [c].
Proof.
  intros HP Hpre. cbn zeta. destruct (loop_first_stop m rid canc sc k ins pre (c, TStop fs) post HP Hpre eq_refl) as [Hf Hc].
  destruct (pre_facts _ _ _ _ _ _ _ HP Hpre) as [Hn Hd].
  assert (Hx : In (c, TStop fs) (plan m sc k (live ins))) by (rewrite HP; apply in_or_app; right; now left).
  destruct (plan_facts _ _ _ _ _ Hx) as (_ & _ & Hxn & Hxd & _). unfold res_frames in Hxn, Hxd. cbn [snd tres_frames] in Hxn, Hxd.
  rewrite Hf, Hc. cbn [res_frames snd tres_frames res_exc app fst]. rewrite app_nil_r. repeat split; try assumption.
  rewrite count_app, (noexc_count _ Hn), (noexc_count _ Hxn). reflexivity.
Qed.

(* ---- direct inductions ---------------------------------------------------- *)
Fixpoint exch_frames (sc : list turn) (lv : list item) : list frame :=
  match lv with
  | [] => []
  | it :: r => let t := hd (default_turn Exchange) sc in
               (turn_logs t ++ [data_frame t (insum Exchange it)]) ++ exch_frames (tl sc) r
  end.

Lemma nth_tl {A} (l : list A) j d : nth j (tl l) d = nth (S j) l d.
Proof. destruct l; [destruct j|]; reflexivity. Qed.

Lemma hd_nth {A} (l : list A) d : hd d l = nth 0 l d.
Proof. destruct l; reflexivity. Qed.

(* exchange: one data batch per input, in input order, each preceded by that turn's logs *)
Theorem exchange_one_per_input rid canc sc k ins :
  (forall j, j < length (live ins) -> t_act (nth j sc (default_turn Exchange)) = AEmit) ->
  fst (loop Exchange rid None canc sc k ins) = exch_frames sc (live ins)
  /\ count is_data (exch_frames sc (live ins)) = length (live ins)
  /\ count is_exc (exch_frames sc (live ins)) = 0
  /\ count is_turn_call (snd (loop Exchange rid None canc sc k ins)) = length (live ins).
Proof.
  revert sc k. induction ins as [|it rest IH]; intros sc k H.
  - cbn. repeat split; reflexivity.
  - cbn [loop live]. destruct (is_cancel it) eqn:Ec.
    + cbn [fst snd exch_frames length]. repeat split; try reflexivity. destruct canc; reflexivity.
    + cbn [live length] in H. rewrite Ec in H. cbn [length] in H.
      assert (H0 : t_act (hd (default_turn Exchange) sc) = AEmit) by (rewrite hd_nth; apply H; lia).
      unfold run_turn. rewrite H0.
      destruct (IH (tl sc) (S k)) as (I1 & I2 & I3 & I4).
      { intros j Hj. rewrite nth_tl. apply H. lia. }
      cbn [fst snd exch_frames length]. repeat split.
      * now rewrite I1.
      * rewrite count_app, emitted_one_data, I2. reflexivity.
      * rewrite count_app, (noexc_count _ (emitted_noexc _ _)), I3. reflexivity.
      * unfold count in *. cbn [filter]. cbn [mkcall is_turn_call length]. now rewrite I4.
Qed.

(* the data batches are exactly the scripted values plus the input sums, in input order *)
Fixpoint exch_values (sc : list turn) (lv : list item) : list Z :=
  match lv with
  | [] => []
  | it :: r => (t_value (hd (default_turn Exchange) sc) + insum Exchange it)%Z :: exch_values (tl sc) r
  end.
Definition data_value (f : frame) : list Z := match f with FData _ v _ => v | _ => [] end.

Lemma filter_turn_logs t : filter is_data (turn_logs t) = [].
Proof. unfold turn_logs. induction (t_logs t) as [|l ls IH]; cbn [map filter]; [reflexivity | exact IH]. Qed.

Theorem exchange_values_in_order sc lv :
  concat (map data_value (filter is_data (exch_frames sc lv))) = exch_values sc lv.
Proof.
  revert sc; induction lv as [|it r IH]; intro sc; [reflexivity|].
  cbn [exch_frames exch_values]. rewrite !filter_app, filter_turn_logs. cbn [filter data_frame is_data app map concat data_value].
  now rewrite IH.
Qed.

(* no exception on an exchange stream means every live input got its data batch *)
Lemma exchange_complete rid canc sc k ins :
  count is_exc (fst (loop Exchange rid None canc sc k ins)) = 0 ->
  count is_data (fst (loop Exchange rid None canc sc k ins)) = length (live ins).
Proof.
  revert sc k. induction ins as [|it rest IH]; intros sc k; [reflexivity|].
  cbn [loop live]. destruct (is_cancel it) eqn:Ec; [reflexivity|].
  pose proof (run_turn_exchange (hd (default_turn Exchange) sc) (insum Exchange it)) as R.
  destruct (run_turn Exchange (hd (default_turn Exchange) sc) (insum Exchange it)) as [e|fs|fs]; cbn [fst].
  - cbn. discriminate.
  - destruct R as [R _].
    assert (Hd : count is_data fs = 1) by (rewrite R; apply emitted_one_data).
    assert (Hn : count is_exc fs = 0) by (rewrite R; apply noexc_count, emitted_noexc).
    rewrite !count_app, Hd, Hn.
    intro H. cbn [length]. rewrite (IH (tl sc) (S k)); [reflexivity | exact H].
  - contradiction.
Qed.

Lemma turns_le_live m rid cast canc sc k ins :
  count is_turn_call (snd (loop m rid cast canc sc k ins)) <= length (live ins).
Proof.
  revert sc k. induction ins as [|it rest IH]; intros sc k; [cbn; lia|].
  cbn [loop live]. destruct (is_cancel it) eqn:Ec.
  - destruct canc; cbn; lia.
  - destruct cast as [e|]; [cbn; lia|].
    destruct (run_turn m (hd (default_turn m) sc) (insum m it)); cbn [snd length].
    + unfold count. cbn [filter]. rewrite mkcall_is_turn. cbn. lia.
    + unfold count. cbn [filter]. rewrite mkcall_is_turn. cbn [length]. specialize (IH (tl sc) (S k)). unfold count in IH. lia.
    + unfold count. cbn [filter]. rewrite mkcall_is_turn. cbn. lia.
Qed.

Theorem turns_le_inputs m rid cast canc sc k ins :
  count is_turn_call (snd (loop m rid cast canc sc k ins)) <= length ins.
Proof. pose proof (turns_le_live m rid cast canc sc k ins). pose proof (live_length ins). lia. Qed.

(* the cancel hook runs at most once, only if the state has it, and it is the last call *)
Theorem cancel_at_most_once m rid cast canc sc k ins :
  let tr := snd (loop m rid cast canc sc k ins) in
  count is_cancel_call tr <= 1
  /\ (canc = false -> count is_cancel_call tr = 0)
  /\ count is_cancel_call (removelast tr) = 0.
Proof.
  cbn zeta. revert sc k. induction ins as [|it rest IH]; intros sc k; [cbn; repeat split; lia|].
  cbn [loop]. destruct (is_cancel it) eqn:Ec.
  - destruct canc; cbn; repeat split; try lia; try discriminate.
  - destruct cast as [e|]; [cbn; repeat split; lia|].
    destruct (run_turn m (hd (default_turn m) sc) (insum m it)); cbn [snd];
      try (unfold count; cbn [filter removelast]; rewrite ?mkcall_not_cancel; cbn; repeat split; lia).
    destruct (IH (tl sc) (S k)) as (I1 & I2 & I3). unfold count in *. cbn [filter]. rewrite mkcall_not_cancel.
    repeat split; try assumption.
    destruct (snd (loop m rid None canc (tl sc) (S k) rest)) as [|c l] eqn:E; [reflexivity|].
    change (removelast (mkcall m k (insum m it) :: c :: l)) with (mkcall m k (insum m it) :: removelast (c :: l)).
    cbn [filter]. rewrite mkcall_not_cancel. exact I3.
Qed.

Lemma live_app_cancel l1 l2 : live l1 = l1 -> live (l1 ++ Cancel :: l2) = l1.
Proof.
  induction l1 as [|it l1 IH]; [reflexivity|]. cbn [live app]. destruct (is_cancel it); [discriminate|].
  intro H. injection H as H. now rewrite IH.
Qed.

(* a cancel batch reached by the loop: the hook runs exactly once, no turn runs for it or after it,
   whatever the client sent behind the cancel *)
Theorem cancel_once_no_further_turn m rid canc sc k l1 l2 :
  live l1 = l1 -> forallb is_cont (plan m sc k l1) = true ->
  fst (loop m rid None canc sc k (l1 ++ Cancel :: l2)) = concat (map res_frames (plan m sc k l1))
  /\ snd (loop m rid None canc sc k (l1 ++ Cancel :: l2)) =
       map fst (plan m sc k l1) ++ (if canc then [CCancel (k + length l1)] else []).
Proof.
  intros Hl Hc. pose proof (loop_all_continue m rid canc sc k (l1 ++ Cancel :: l2)) as L. cbn zeta in L.
  rewrite (live_app_cancel _ l2 Hl) in L. destruct (L Hc) as [Lf Lc]. split; [exact Lf|].
  rewrite Lc. unfold cancelled. rewrite (live_app_cancel _ l2 Hl), app_length. cbn [length].
  replace (Nat.eqb (length l1) (length l1 + S (length l2))) with false by (symmetry; apply Nat.eqb_neq; lia).
  reflexivity.
Qed.

(* Finish is refused on an exchange and accepted on a producer *)
Theorem finish_refused_on_exchange t s :
  (t_act t = AFinish \/ t_act t = AEmitFinish) ->
  run_turn Exchange t s = TFail e_finish_exchange
  /\ (exists fs, run_turn Producer t s = TStop fs)
  /\ fst e_finish_exchange = exc_runtime_error /\ snd e_finish_exchange <> [] /\ c06_finish_producer_ok = 1%Z.
Proof.
  intros [H|H]; unfold run_turn; rewrite H; (split; [reflexivity|]); (split; [eexists; reflexivity|]);
    (split; [vm_compute; reflexivity|]); (split; [vm_compute; discriminate | reflexivity]).
Qed.

(* the other contract violations of a turn *)
Theorem turn_contract_violations m t s :
  (t_act t = ANoEmit -> run_turn m t s = TFail e_no_data)
  /\ (t_act t = AEmitTwice -> run_turn m t s = TFail e_emit_twice)
  /\ (forall f, t_act t = AFail f -> run_turn m t s = TFail (turn_exc f))
  /\ fst e_no_data = exc_runtime_error /\ snd e_no_data <> [] /\ snd e_emit_twice <> [].
Proof.
  unfold run_turn. repeat split; try (intros; rewrite H; reflexivity); try (intros f H; rewrite H; reflexivity);
    vm_compute; discriminate.
Qed.

(* as long as no turn fails or finishes: one data batch per (live) input, one turn per input *)
Theorem one_data_batch_per_input m rid canc sc k ins :
  forallb is_cont (plan m sc k (live ins)) = true ->
  count is_data (fst (loop m rid None canc sc k ins)) = length (live ins)
  /\ count is_exc (fst (loop m rid None canc sc k ins)) = 0
  /\ count is_turn_call (snd (loop m rid None canc sc k ins)) = length (live ins).
Proof.
  intro H. destruct (loop_all_continue m rid canc sc k ins H) as [Hf Hc]. rewrite Hf, Hc.
  set (P := plan m sc k (live ins)) in *.
  assert (F : forall p, In p P -> _) by (intros p Hp; exact (plan_facts m sc k (live ins) p Hp)).
  repeat split.
  - rewrite data_concat_eq; [apply plan_length|]. intros p Hp. apply (F p Hp). now apply (forallb_In _ _ H).
  - apply noexc_count, noexc_concat. intros p Hp. apply (F p Hp).
  - unfold count. rewrite filter_app, turn_calls_filter by (intros p Hp; apply (F p Hp)).
    rewrite app_length, map_length. unfold P at 1. rewrite plan_length.
    destruct (cancelled ins && canc); cbn; lia.
Qed.

(* ---- header --------------------------------------------------------------- *)
Theorem header_own_stream_first i h :
  i_init_fail i = None -> header_of i = Some h ->
  exists hs out,
    call_streams i = [hs; out]
    /\ st_schema hs = hdr_schema
    /\ st_frames hs = init_frames [] (i_loglevel i) (i_init_logs i) ++ [FData 1 [h] []]
    /\ count is_data (st_frames hs) = 1 /\ count is_exc (st_frames hs) = 0
    /\ st_schema out = out_schema /\ st_frames out = fst (run_loop i).
Proof.
  intros Hi Hh. unfold call_streams. rewrite Hi, Hh. eexists; eexists. split; [reflexivity|].
  cbn [st_schema st_frames]. repeat split.
  - rewrite count_app. unfold init_frames, count at 1. rewrite C04.logs_no_data. reflexivity.
  - rewrite count_app. unfold init_frames, count at 1. rewrite C04.logs_no_exc. reflexivity.
Qed.

Theorem no_header_single_stream i :
  i_init_fail i = None -> header_of i = None ->
  call_streams i =
    [ {| st_schema := out_schema;
         st_frames := init_frames (i_reqid i) (i_loglevel i) (i_init_logs i) ++ fst (run_loop i) |} ].
Proof. intros Hi Hh. unfold call_streams. now rewrite Hi, Hh. Qed.

(* ---- the decidable contract holds on the model ---------------------------- *)
Lemma forallb_removelast_last {A} (f : A -> bool) (l : list A) :
  forallb f (removelast l) = true ->
  (forall x, last_opt l = Some x -> f x = true) -> forallb f l = true.
Proof.
  induction l as [|x l IH]; [reflexivity|]. destruct l as [|y l].
  - intros _ H. cbn [forallb]. now rewrite (H x eq_refl).
  - change (removelast (x :: y :: l)) with (x :: removelast (y :: l)). rewrite last_opt_cons.
    cbn [forallb]. intros H1 H2. apply andb_true_iff in H1 as [Hx Hr]. rewrite Hx. cbn [andb].
    apply IH; assumption.
Qed.

Lemma exc_only_last_app a x : noexc a = true -> length x <= 1 -> exc_only_last (a ++ x) = true.
Proof.
  intros Ha Hx. unfold exc_only_last. apply Nat.eqb_eq. destruct x as [|e [|e' x]]; cbn [length] in Hx; try lia.
  - rewrite app_nil_r. apply noexc_count, noexc_removelast, Ha.
  - rewrite removelast_last. now apply noexc_count.
Qed.

Lemma exchange_clause m rid canc sc ins :
  match m with
  | Exchange => negb (Nat.eqb (count is_exc (fst (loop m rid None canc sc 0 ins))) 0)
                || negb (Nat.eqb (length (live ins)) (length ins))
                || Nat.eqb (count is_data (fst (loop m rid None canc sc 0 ins))) (length ins)
  | Producer => true
  end = true.
Proof.
  destruct m; [reflexivity|].
  destruct (Nat.eqb (count is_exc (fst (loop Exchange rid None canc sc 0 ins))) 0) eqn:E6; [|reflexivity].
  apply Nat.eqb_eq in E6. rewrite (exchange_complete _ _ _ _ _ E6). cbn [negb orb].
  destruct (Nat.eqb (length (live ins)) (length ins)); reflexivity.
Qed.

Lemma body_ok_no_cast i :
  cast_error (i_mode i) (i_declared i) (i_schema i) = None ->
  body_ok i (fst (run_loop i)) (snd (run_loop i)) = true.
Proof.
  intro Ec. unfold run_loop. rewrite Ec.
  destruct (loop_char (i_mode i) (i_reqid i) (i_canceller i) (i_turns i) 0 (i_items i)) as [Hf Hc]. cbn zeta in Hf, Hc.
  pose proof (exchange_clause (i_mode i) (i_reqid i) (i_canceller i) (i_turns i) (i_items i)) as Hx.
  set (lpv := loop (i_mode i) (i_reqid i) None (i_canceller i) (i_turns i) 0 (i_items i)) in *.
  set (P := plan (i_mode i) (i_turns i) 0 (live (i_items i))) in *.
  set (run := firstn (nrun P) P) in *.
  pose proof (fun p (Hp : In p run) => plan_facts (i_mode i) (i_turns i) 0 (live (i_items i)) p (In_firstn _ _ _ Hp)) as F.
  assert (Hlen : length run = nrun P) by (unfold run; apply firstn_length_le, nrun_le).
  assert (Htc : filter is_turn_call (snd lpv) = map fst run).
  { rewrite Hc, filter_app, turn_calls_filter by (intros p Hp; apply (F p Hp)).
    unfold cancel_part. destruct (_ && _ && _ && _); cbn [filter is_turn_call]; apply app_nil_r. }
  assert (Hn : noexc (concat (map res_frames run)) = true) by (apply noexc_concat; intros p Hp; apply (F p Hp)).
  unfold body_ok. rewrite Ec, Htc, map_length, Hlen. fold P. fold run.
  assert (E1 : Nat.leb (nrun P) (length (i_items i)) = true).
  { apply Nat.leb_le. pose proof (nrun_le P). unfold P in H at 2. rewrite plan_length in H. pose proof (live_length (i_items i)). lia. }
  assert (E2 : Nat.leb (count is_exc (fst lpv)) 1 = true).
  { apply Nat.leb_le. rewrite Hf, count_app, (noexc_count _ Hn).
    pose proof (count_le_length is_exc (res_exc (i_reqid i) (last_opt run))). pose proof (res_exc_length (i_reqid i) (last_opt run)). lia. }
  assert (E3 : exc_only_last (fst lpv) = true) by (rewrite Hf; apply exc_only_last_app; [exact Hn | apply res_exc_length]).
  assert (E4 : Nat.leb (count is_data (fst lpv)) (nrun P) = true).
  { apply Nat.leb_le. rewrite Hf, count_app, res_exc_nodata, <- Hlen.
    pose proof (data_concat_le run (fun p Hp => proj1 (proj2 (proj2 (proj2 (F p Hp)))))). lia. }
  rewrite E1, E2, E3, E4. cbn [andb].
  pose proof (nrun_prefix_cont P) as Q1. pose proof (nrun_stop_reason P) as Q2. fold run in Q1, Q2.
  rewrite calls_eqb_refl, Q1, Q2, Hx. cbn [andb]. rewrite andb_true_r.
  rewrite <- Hf, frames_eqb_refl. cbn [andb].
  rewrite Hc at 1. unfold cancel_part, cancelled. rewrite Hlen. cbn [Nat.add]. apply calls_eqb_refl.
Qed.

Lemma body_ok_cast i e :
  cast_error (i_mode i) (i_declared i) (i_schema i) = Some e ->
  body_ok i (fst (run_loop i)) (snd (run_loop i)) = true.
Proof.
  intro Ec. unfold run_loop, body_ok. rewrite Ec.
  assert (Em : i_mode i = Exchange) by (destruct (i_mode i); [discriminate | reflexivity]).
  rewrite Em. destruct (i_items i) as [|it rest] eqn:Ei.
  - cbn. reflexivity.
  - cbn [loop live]. destruct (is_cancel it) eqn:Ecc.
    + cbn [fst snd plan length filter firstn map concat app last_opt res_exc].
      destruct (i_canceller i); cbn; reflexivity.
    + cbn [fst snd filter length firstn]. unfold exc_only_last, count. cbn [removelast filter exc_frame is_exc is_data length Nat.leb Nat.eqb andb].
      rewrite frames_eqb_refl. cbn. reflexivity.
Qed.

Lemma body_ok_model i : body_ok i (fst (run_loop i)) (snd (run_loop i)) = true.
Proof.
  destruct (cast_error (i_mode i) (i_declared i) (i_schema i)) as [e|] eqn:Ec; [now apply (body_ok_cast i e) | now apply body_ok_no_cast].
Qed.

Lemma strip_prefix_app p l : strip_prefix p (p ++ l) = Some l.
Proof.
  unfold strip_prefix. rewrite firstn_app, Nat.sub_diag, firstn_all. cbn [firstn]. rewrite app_nil_r, frames_eqb_refl.
  now rewrite skipn_app, Nat.sub_diag, skipn_all.
Qed.

Theorem model_call_meets_spec i : spec_call_ok i (model_call i) = true.
Proof.
  unfold spec_call_ok, model_call. cbn [o_broken o_trace o_streams negb andb]. unfold call_trace. cbn [app].
  rewrite Z.eqb_refl. cbn [andb]. rewrite last_opt_snoc, removelast_last. unfold sentinel_x at 1 2. rewrite Z.eqb_refl. cbn [andb].
  unfold call_streams. destruct (i_init_fail i) as [f|] eqn:Ef.
  - cbn [app]. rewrite stream_eqb_refl. cbn [st_schema st_frames andb]. rewrite !beqb_refl. reflexivity.
  - destruct (header_of i) as [h|] eqn:Eh; cbn [app].
    + rewrite stream_eqb_refl. cbn [st_schema st_frames andb]. rewrite !beqb_refl, frames_eqb_refl. cbn [andb].
      apply body_ok_model.
    + rewrite stream_eqb_refl. cbn [st_schema st_frames andb]. rewrite beqb_refl, strip_prefix_app. cbn [andb].
      apply body_ok_model.
Qed.

(* ---- histories: every call of a history is judged on its own -------------- *)
Theorem model_meets_spec h : spec_ok h (model h) = true.
Proof.
  induction h as [|i h IH]; [reflexivity|]. cbn [model map spec_ok]. fold (model h).
  now rewrite model_call_meets_spec, IH.
Qed.

Theorem history_app h1 h2 : model (h1 ++ h2) = model h1 ++ model h2.
Proof. apply map_app. Qed.

Theorem history_nth h n i : nth_error h n = Some i -> nth_error (model h) n = Some (model_call i).
Proof. intro H. unfold model. now apply map_nth_error. Qed.

Theorem spec_ok_each h os :
  spec_ok h os = true <-> length h = length os /\ forall n i o, nth_error h n = Some i -> nth_error os n = Some o -> spec_call_ok i o = true.
Proof.
  revert os; induction h as [|i h IH]; intros [|o os]; cbn [spec_ok length]; split; try discriminate.
  - intros _. split; [reflexivity|]. intros [|n] i o H; discriminate.
  - reflexivity.
  - intros [H _]. discriminate.
  - intros [H _]. discriminate.
  - intro H. apply andb_true_iff in H as [H1 H2]. apply IH in H2 as [L F]. split; [now rewrite L|].
    intros [|n] i' o' Hi Ho; cbn [nth_error] in Hi, Ho.
    + injection Hi as <-. injection Ho as <-. exact H1.
    + now apply (F n).
  - intros [L F]. apply andb_true_iff. split.
    + apply (F 0%nat); reflexivity.
    + apply IH. split; [now injection L|]. intros n i' o' Hi Ho. now apply (F (S n)).
Qed.
