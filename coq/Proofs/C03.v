(* Proofs/C03.v — no panic escapes any dispatch path of Model/C03.v. *)
From Coq Require Import List NArith Bool ZArith Lia ZifyBool ZifyN ZifyNat.
From VR Require Import Model.C03.
From VR Require Model.C10.
Import ListNotations.
Local Arguments N.eqb : simpl never.
Local Arguments N.ltb : simpl never.
Local Arguments N.leb : simpl never.
Open Scope N_scope.

(* ---- deserializeParams ------------------------------------------------------- *)

Lemma recov_true_np {A} (r : res A) : recov true r <> Panic.
Proof. destruct r; cbn; discriminate. Qed.

(* with the recover at its boundary no panic leaves deserializeParams, whatever
   the batch (any nesting depth), the target, the row count, the row guard *)
Lemma deser_recover_np : forall guard t rows c, deser true guard t rows c <> Panic.
Proof. intros guard t rows c. destruct c; cbn [deser]; apply recov_true_np. Qed.

Lemma row0_pos rows : (rows <? 1) = false -> row0 rows = Ret tt.
Proof. intros H. unfold row0. destruct (rows =? 0) eqn:E; [lia | reflexivity]. Qed.

(* WITHOUT the recover, the row guard alone already keeps a plain (non
   ArrowSerializable) parameter struct safe, for every nesting depth of wrapped
   request columns: the guards inside the function suffice *)
Lemma deser_guard_plain_np : forall c rows, deser false true TInt rows c <> Panic.
Proof.
  fix IH 1. intros c rows.
  destruct c as [ | | | | p | p | | | ]; cbn [deser recov schema_eq andb]; try discriminate.
  - (* CX *) destruct (rows <? 1) eqn:E; [discriminate | rewrite (row0_pos _ E); discriminate].
  - (* CReq *) destruct (0 <? rows); [ | discriminate].
    destruct p as [ | | | | r' c']; try discriminate. apply IH.
Qed.

(* ... but for a struct with an ArrowSerializable field the recover is what
   makes it safe: without it an inner batch of another type panics *)
Definition ser_mismatch : cols := CP (PBatch 1 CAs).
Lemma deser_guard_only_panics : deser false true TSer 1 ser_mismatch = Panic.
Proof. reflexivity. Qed.
Lemma deser_legacy_zero_row_panics : deser false false TInt 0 CX = Panic.
Proof. reflexivity. Qed.

(* ---- the routes --------------------------------------------------------------- *)

Definition safe (fx : fixes) : Prop :=
  forall t rows c, deser (f_recover fx) (f_rowguard fx) t rows c <> Panic.

Lemma current_safe : safe current.
Proof. intros t rows c. apply deser_recover_np. Qed.

(* the decoder premise: decoding the body does not kill the process *)
Definition decodes (b : body) : Prop := b <> BFatal.

Lemma read_request_alive b : decodes b -> read_request b <> RDead.
Proof.
  unfold decodes, read_request. destruct b as [ | | | | meta rows c]; try discriminate; try congruence.
  intros _. destruct (get_first c03_meta_method meta); [ | discriminate].
  destruct (negb (valid_utf8 b)); [discriminate | ].
  destruct (get_first c03_meta_request_version meta); [ | discriminate].
  destruct (negb (beqb b0 c03_request_version)); [discriminate | ].
  match goal with |- context [if ?x then _ else _] => destruct x end; discriminate.
Qed.

Lemma pipe_no_escape fx pv b ins : safe fx -> decodes b -> pipe_one fx pv b ins <> OEscaped.
Proof.
  intros S D. unfold pipe_one. pose proof (read_request_alive b D) as A.
  destruct (read_request b) as [ | | e | m meta rows c]; try discriminate; try congruence.
  destruct (is_shm_ptr meta rows); try discriminate.
  destruct (mclass_of m) as [t | t | | | | | ]; try discriminate;
    (destruct (pv_refused pv meta); [discriminate | ]);
    match goal with |- context [deser ?a ?b ?t ?r ?c] =>
      pose proof (S t r c) as Hs; destruct (deser a b t r c) end;
    try congruence; try discriminate; destruct ins; discriminate.
Qed.

(* an HTTP response: a status line in the valid range and no escaped panic *)
Definition good (o : obs) : Prop :=
  o_out o <> OEscaped /\ ((100 <=? o_status o) && (o_status o <? 600)) = true.

Lemma hresp_good st e : In st [400; 404; 415; 500] -> good (hresp st e).
Proof.
  intros H. cbn in H. unfold good, hresp.
  destruct H as [<- | [<- | [<- | [<- | []]]]]; vm_compute; split; (discriminate || reflexivity).
Qed.
Lemma hok_good : good hok. Proof. split; [discriminate | reflexivity]. Qed.

Ltac hr := first [ apply hok_good | apply hresp_good; cbn; tauto ].

Lemma http_read_good i k : decodes (i_body i) -> (forall m meta rows c, good (k m meta rows c)) -> good (http_read i k).
Proof.
  intros D H. unfold http_read. destruct (i_enc i); try hr.
  pose proof (read_request_alive _ D) as A.
  destruct (read_request (i_body i)); try hr; try congruence. apply H.
Qed.

Lemma deser_good fx t rows c : safe fx ->
  good match deser (f_recover fx) (f_rowguard fx) t rows c with
       | Panic => hescaped | Err e => hresp 400 e | Ret _ => hok end.
Proof. intros S. pose proof (S t rows c). destruct (deser _ _ t rows c); try congruence; hr. Qed.

Lemma http_unary_good fx i : safe fx -> decodes (i_body i) -> good (http_unary fx i).
Proof.
  intros S D. unfold http_unary, http_describe. destruct (negb (ct_ok i)); try hr.
  destruct (mclass_of (i_path i)); try hr; (apply http_read_good; [exact D | ]); intros; try hr.
  destruct (negb _); try hr. destruct (pv_refused _ _); try hr. apply deser_good, S.
Qed.

Lemma http_init_good fx i : safe fx -> decodes (i_body i) -> good (http_init fx i).
Proof.
  intros S D. unfold http_init. destruct (negb (ct_ok i)); try hr.
  destruct (mclass_of (i_path i)); try hr; (apply http_read_good; [exact D | ]); intros;
    (destruct (negb _); try hr); (destruct (pv_refused _ _); try hr); apply deser_good, S.
Qed.

(* the checked assertion never panics *)
Lemma assert_checked_np have want : assert_state true have want <> Panic.
Proof. destruct have, want; cbn; discriminate. Qed.

Lemma http_exchange_good fx i : f_tokbind fx = true -> decodes (i_body i) -> good (http_exchange fx i).
Proof.
  intros T D. unfold decodes in D. unfold http_exchange. rewrite T. destruct (negb (ct_ok i)); try hr.
  destruct (mclass_of (i_path i)) eqn:K; try hr;
    (destruct (i_enc i); try hr); (destruct (i_body i) as [ | | | | meta rows c]; try hr; try congruence);
    (match goal with |- context [if ?b then hresp 400 e_type else _] => destruct b; try hr end);
    (destruct (get_first c03_meta_stream_state meta); try hr);
    (destruct (negb (beqb _ tok_marker)); try hr);
    (destruct (i_tok i); try hr);
    (match goal with |- context [if negb ?b then hresp 400 e_runtime else _] => destruct b; cbn [negb]; try hr end);
    cbn [andb negb];
    try hr;
    match goal with |- context [assert_state true ?h ?w] =>
      pose proof (assert_checked_np h w); destruct (assert_state true h w); try congruence; hr end.
Qed.

Lemma http_upload_good i : decodes (i_body i) -> good (http_upload i).
Proof.
  intros D. unfold http_upload. destruct (negb (i_upload i)); [split; [discriminate | reflexivity] | ].
  destruct (negb (ct_ok i)); try hr. apply http_read_good; [exact D | ]; intros. destruct (negb _); hr.
Qed.

Lemma http_introspect_good i : good (http_introspect i).
Proof. unfold http_introspect. destruct (i_introspect i); split; (discriminate || reflexivity). Qed.

(* ---- main theorems ------------------------------------------------------------ *)

Lemma run_no_escape fx i : safe fx -> f_tokbind fx = true -> decodes (i_body i) -> o_out (run fx i) <> OEscaped.
Proof.
  intros S T D. unfold run. destruct (i_route i); cbn [o_out].
  - apply pipe_no_escape; [exact S | exact D].
  - apply http_unary_good; [exact S | exact D].
  - apply http_init_good; [exact S | exact D].
  - apply http_exchange_good; [exact T | exact D].
  - apply http_upload_good, D.
  - apply http_introspect_good.
Qed.

Lemma model_no_escape i : decodes (i_body i) -> o_out (model i) <> OEscaped.
Proof. intros D. apply run_no_escape; [apply current_safe | reflexivity | exact D]. Qed.

Lemma http_has_status i : decodes (i_body i) -> is_http (i_route i) = true ->
  ((100 <=? o_status (model i)) && (o_status (model i) <? 600)) = true.
Proof.
  intros D. unfold model, run. destruct (i_route i); cbn [is_http]; intros H; try discriminate.
  - apply http_unary_good; [apply current_safe | exact D].
  - apply http_init_good; [apply current_safe | exact D].
  - apply http_exchange_good; [reflexivity | exact D].
  - apply http_upload_good, D.
  - apply http_introspect_good.
Qed.

Lemma pipe_keeps_serving i : decodes (i_body i) -> i_route i = Pipe ->
  o_next (model i) = i_follow i && negb (outcome_eqb (o_out (model i)) OClose).
Proof.
  intros D R. pose proof (model_no_escape i D) as NE. unfold model, run in *. rewrite R in *. cbn [o_next o_out] in *.
  destruct (pipe_one current (i_pv i) (i_body i) (i_ins i)); cbn; try reflexivity. congruence.
Qed.

Lemma model_meets_spec i : decodes (i_body i) -> spec_ok i (model i) = true.
Proof.
  intros D. unfold spec_ok. pose proof (model_no_escape i D) as NE.
  destruct (is_http (i_route i)) eqn:H.
  - pose proof (http_has_status i D H) as ST. destruct (o_out (model i)); try congruence; exact ST.
  - assert (R : i_route i = Pipe) by (destruct (i_route i); cbn in H; congruence).
    pose proof (pipe_keeps_serving i D R) as NX.
    destruct (o_out (model i)) eqn:O; try congruence; rewrite NX; cbn;
      destruct (i_follow i); reflexivity.
Qed.

(* ---- the three repairs were necessary ------------------------------------------ *)

Definition std_meta (m : bytes) : list kv :=
  [(c03_meta_method, m); (c03_meta_request_version, c03_request_version)].

Definition mk (r : route) (path : bytes) (b : body) (t : tokc) : input :=
  {| i_route := r; i_pv := false; i_upload := false; i_introspect := false; i_path := path;
     i_ct := c03_arrow_content_type; i_enc := EncNone; i_body := b; i_tok := t; i_calltok := KValid;
     i_cache_hit := true; i_ins := IValid; i_follow := true |}.

(* before a41386f: zero rows let through by the location exemption, row 0 read *)
Definition w_zero_row : input :=
  mk Pipe [] (BBatch (std_meta (str "u_int") ++ [(c03_meta_location, str "https://x.invalid/b")]) 0 CX) TShort.
Definition pre_rowguard := {| f_recover := false; f_rowguard := false; f_tokbind := true |}.

(* before 17a92dc: ArrowSerializable payload whose inner column has another type *)
Definition w_ser_mismatch (r : route) (m : bytes) : input := mk r m (BBatch (std_meta m) 1 ser_mismatch) TShort.
Definition pre_recover := {| f_recover := false; f_rowguard := true; f_tokbind := true |}.

(* before e4cc5ac: a producer's token presented at an exchange method *)
Definition w_cross_token : input :=
  mk HExchange (str "e_only")
     (BBatch [(c03_meta_stream_state, tok_marker); (c03_meta_call_state, call_marker)] 1 CX)
     (TOther (MProducer TInt)).
Definition pre_tokbind := {| f_recover := true; f_rowguard := true; f_tokbind := false |}.

Lemma legacy_zero_row : o_out (run pre_rowguard w_zero_row) = OEscaped
  /\ o_out (run pre_rowguard (mk HUnary (str "u_int") (i_body w_zero_row) TShort)) = OEscaped
  /\ o_out (run pre_rowguard (mk HInit (str "p_only")
        (BBatch (std_meta (str "p_only") ++ [(c03_meta_location, [])]) 0 CX) TShort)) = OEscaped.
Proof. vm_compute. repeat split. Qed.

Lemma legacy_ser_mismatch :
  o_out (run pre_recover (w_ser_mismatch Pipe (str "u_ser"))) = OEscaped
  /\ o_out (run pre_recover (w_ser_mismatch Pipe (str "p_ser"))) = OEscaped
  /\ o_out (run pre_recover (w_ser_mismatch HUnary (str "u_ser"))) = OEscaped
  /\ o_out (run pre_recover (w_ser_mismatch HInit (str "p_ser"))) = OEscaped.
Proof. vm_compute. repeat split. Qed.

Lemma legacy_cross_token : o_out (run pre_tokbind w_cross_token) = OEscaped.
Proof. vm_compute. reflexivity. Qed.

Lemma current_on_witnesses :
  o_out (model w_zero_row) = OErr e_type
  /\ o_out (model (w_ser_mismatch Pipe (str "u_ser"))) = OErr e_type
  /\ model w_cross_token = hresp 400 e_runtime.
Proof. vm_compute. repeat split. Qed.

(* FINDING (current code): when decoding the body kills the process, every route
   that reaches the decoder loses the process — the premise [decodes] is needed *)
Lemma decoder_fatal_escapes :
  o_out (model (mk Pipe [] BFatal TShort)) = OEscaped
  /\ o_out (model (mk HUnary (str "u_int") BFatal TShort)) = OEscaped
  /\ o_out (model (mk HInit (str "p_only") BFatal TShort)) = OEscaped
  /\ o_out (model (mk HExchange (str "e_only") BFatal TShort)) = OEscaped.
Proof. vm_compute. repeat split. Qed.

(* ---- the protocol-version gate on arbitrary version text -------------------------
   checkProtocolVersion runs on the client's vgi_rpc.protocol_version value
   outside every recover; the value is an arbitrary byte string *)
Lemma get_last_snoc k v (m : list kv) : get_last k (m ++ [(k, v)]) = Some v.
Proof. unfold get_last. rewrite rev_app_distr. cbn [rev app get_first]. rewrite beqb_refl. reflexivity. Qed.

(* whatever precedes it in the metadata (duplicates included), a last value that
   is not canonical semver is refused by the gate — a decision, never a panic *)
Lemma pv_refused_malformed (m : list kv) cv : C10.parse cv = None ->
  pv_refused true (m ++ [(meta_protocol_version, cv)]) = true.
Proof. intros H. unfold pv_refused. rewrite get_last_snoc. unfold C10.gate. rewrite H. reflexivity. Qed.

Definition pv_req (m cv : bytes) : body := BBatch (std_meta m ++ [(meta_protocol_version, cv)]) 1 CX.
Definition mkv (r : route) (path : bytes) (b : body) : input :=
  {| i_route := r; i_pv := true; i_upload := false; i_introspect := false; i_path := path;
     i_ct := c03_arrow_content_type; i_enc := EncNone; i_body := b; i_tok := TShort; i_calltok := KAbsent;
     i_cache_hit := false; i_ins := IValid; i_follow := true |}.

(* every place the gate runs answers a malformed version with the
   ProtocolVersionError (error stream / 400) and the pipe keeps serving *)
Lemma malformed_version_answered cv : C10.parse cv = None ->
  model (mkv Pipe [] (pv_req (str "u_int") cv)) = {| o_out := OErr pv_error_type; o_status := 0; o_errhdr := false; o_next := true |}
  /\ model (mkv Pipe [] (pv_req (str "p_only") cv)) = {| o_out := OErr pv_error_type; o_status := 0; o_errhdr := false; o_next := true |}
  /\ model (mkv Pipe [] (pv_req (str "e_only") cv)) = {| o_out := OErr pv_error_type; o_status := 0; o_errhdr := false; o_next := true |}
  /\ model (mkv Pipe [] (pv_req (str "dyn") cv)) = {| o_out := OErr pv_error_type; o_status := 0; o_errhdr := false; o_next := true |}
  /\ model (mkv HUnary (str "u_int") (pv_req (str "u_int") cv)) = hresp 400 pv_error_type
  /\ model (mkv HInit (str "p_only") (pv_req (str "p_only") cv)) = hresp 400 pv_error_type
  /\ model (mkv HInit (str "e_only") (pv_req (str "e_only") cv)) = hresp 400 pv_error_type
  /\ model (mkv HInit (str "dyn") (pv_req (str "dyn") cv)) = hresp 400 pv_error_type.
Proof. intros H. repeat split; cbv -[C10.parse]; rewrite H; reflexivity. Qed.

Lemma malformed_version_examples :
  forallb (fun v => match C10.parse v with None => true | Some _ => false end)
    [str "1..0"; str "0..0"; str "12..x"; str ".."; str "."; []; str "2.10."; str ".10.3"; str "2.."; str "1...0";
     [255; 46; 46; 254]; str "2.10.03"; str "2.10.3-rc1"; [50; 46; 49; 48; 46; 51; 10]] = true.
Proof. vm_compute. reflexivity. Qed.

(* __describe__ and a server that declares no version never parse the value *)
Lemma version_not_parsed_when_ungated cv :
  o_out (model (mkv Pipe [] (pv_req c03_method_describe cv))) = OOk
  /\ pv_refused false (std_meta (str "u_int") ++ [(meta_protocol_version, cv)]) = false.
Proof. split; [cbv -[C10.parse]; reflexivity | reflexivity]. Qed.

(* ---- openToken over arbitrary bytes --------------------------------------------- *)

Lemma slice_ok s a b : (a <= b)%nat -> (b <= length s)%nat -> exists r, slice s a b = Ret r.
Proof.
  intros H1 H2. unfold slice.
  rewrite (proj2 (Nat.leb_le a b) H1), (proj2 (Nat.leb_le b (length s)) H2). cbn. eauto.
Qed.

Lemma index0_ok s : (1 <= length s)%nat -> exists c, index0 s = Ret c.
Proof. destruct s; cbn; intros H; [lia | eauto]. Qed.

Section OpenTokenProofs.
  Variable b64 : bytes -> option bytes.
  Variable aead_open : bytes -> bytes -> option bytes.
  Variable zstd_dec : bytes -> option bytes.
  Variable gob_dec : bytes -> option unit.

  Lemma unpack_np data : unpack_payload zstd_dec true data <> Panic.
  Proof.
    unfold unpack_payload. cbn [andb]. destruct (Nat.eqb (length data) 0) eqn:E; [discriminate | ].
    apply Nat.eqb_neq in E.
    destruct (slice_ok data 1 (length data)) as [r Hr]; [lia | lia | ].
    unfold slice_from. rewrite Hr. cbn [bind].
    destruct (index0_ok data) as [c Hc]; [lia | ]. rewrite Hc. cbn [bind].
    destruct (c =? 0); [discriminate | ]. destruct (c =? 1); [ | discriminate].
    destruct (zstd_dec r); discriminate.
  Qed.

  (* the envelope bounds the code relies on, as compiled *)
  Lemma bounds : (1 + Z.to_nat c03_token_nonce_len <= Z.to_nat c03_token_min_len)%nat
                 /\ (1 <= Z.to_nat c03_token_min_len)%nat.
  Proof. vm_compute. split; repeat constructor. Qed.

  Lemma open_token_np version token :
    open_token b64 aead_open zstd_dec gob_dec true version token <> Panic.
  Proof.
    unfold open_token. destruct (b64 token) as [raw | ]; [ | discriminate]. cbn [andb].
    destruct (Nat.ltb (length raw) (Z.to_nat c03_token_min_len)) eqn:E; [discriminate | ].
    apply Nat.ltb_ge in E. destruct bounds as [B1 B2].
    destruct (index0_ok raw) as [v0 Hv]; [lia | ]. rewrite Hv. cbn [bind].
    destruct (negb (v0 =? version)); [discriminate | ].
    destruct (slice_ok raw 1 (1 + Z.to_nat c03_token_nonce_len)) as [nonce Hn]; [lia | lia | ].
    rewrite Hn. cbn [bind].
    destruct (slice_ok raw (1 + Z.to_nat c03_token_nonce_len) (length raw)) as [ct Hc]; [lia | lia | ].
    unfold slice_from. rewrite Hc. cbn [bind].
    destruct (aead_open nonce ct) as [sealed | ]; [ | discriminate].
    pose proof (unpack_np sealed) as U. fold (slice_from sealed 1) in *.
    destruct (unpack_payload zstd_dec true sealed) as [plain | e | ]; cbn [bind]; try congruence; try discriminate.
    destruct (gob_dec plain); discriminate.
  Qed.
End OpenTokenProofs.

(* without the length checks a short token slices out of range *)
Lemma open_token_unguarded_panics :
  open_token (fun _ => Some [6]) (fun _ _ => None) (fun _ => None) (fun _ => None) false 6 [] = Panic.
Proof. vm_compute. reflexivity. Qed.

(* ---- a finite sweep (also shows every outcome class is inhabited) --------------- *)
Definition sweep_payloads : list payload :=
  [PNull; PEmpty; PGarbage; PNoBatch; PBatch 0 CA; PBatch 1 CA; PBatch 1 CAs; PBatch 1 CX; PBatch 0 CX;
   PBatch 1 (CP (PBatch 1 CAs)); PBatch 1 (CReq (PBatch 0 CX))].
Definition sweep_cols : list cols :=
  [CNone; CX; CX32; CXs; CA; CAs; COther] ++ map CP sweep_payloads ++ map CReq sweep_payloads.
Definition sweep_methods : list bytes :=
  [str "u_int"; str "u_ser"; str "p_only"; str "p_ser"; str "e_only"; str "dyn";
   c03_method_describe; c03_method_transport_options; str "nosuch"; [255]].
Definition sweep_extra : list (list kv) :=
  [[]; [(c03_meta_location, [])]; [(c03_meta_shm_offset, str "0")];
   [(c03_meta_shm_offset, str "0"); (c03_meta_log_level, str "INFO")];
   [(meta_protocol_version, str "2.10.3")]; [(meta_protocol_version, str "x")];
   [(c03_meta_stream_state, tok_marker); (c03_meta_call_state, call_marker)];
   [(c03_meta_stream_state, str "AAAA")]; [(c03_meta_stream_state, tok_marker); (c03_meta_cancel, [])]].
Definition sweep_bodies : list body :=
  [BGarbage; BNoBatchErr; BNoBatch; BBatch [] 1 CX; BBatch [(c03_meta_method, str "u_int")] 1 CX;
   BBatch [(c03_meta_method, str "u_int"); (c03_meta_request_version, str "2")] 1 CX] ++
  flat_map (fun m => flat_map (fun x => flat_map (fun rows => map (fun c =>
     BBatch (std_meta m ++ x) rows c) sweep_cols) [0; 1; 2]) sweep_extra) sweep_methods.
Definition sweep_xbodies : list body :=
  [BGarbage; BNoBatchErr; BNoBatch] ++
  flat_map (fun x => flat_map (fun rows => map (fun c => BBatch x rows c) [CNone; CX; CX32; CXs; COther]) [0; 1; 2]) sweep_extra.
Definition sweep_toks : list tokc :=
  [TOwn; TOther (MProducer TInt); TOther MExchange; TOther MDynamic; TExpired; TOtherKey; TTampered; TBadVersion; TShort].
Definition sweep : list input :=
  flat_map (fun r => flat_map (fun pv => flat_map (fun path => flat_map (fun b => map (fun t =>
    {| i_route := r; i_pv := pv; i_upload := pv; i_introspect := pv; i_path := path;
       i_ct := c03_arrow_content_type; i_enc := EncNone; i_body := b; i_tok := t; i_calltok := KValid;
       i_cache_hit := pv; i_ins := IWrong; i_follow := true |})
    (match r with HExchange => sweep_toks | _ => [TShort] end)) (match r with HExchange => sweep_xbodies | _ => sweep_bodies end))
    (match r with Pipe | HUpload | HIntrospect => [[]] | _ => [str "u_int"; str "u_ser"; str "p_only"; str "p_ser"; str "e_only"; str "dyn"; str "nosuch"] end))
    [false; true]) [Pipe; HUnary; HInit; HExchange; HUpload; HIntrospect].

Lemma sweep_ok : forallb (fun i => spec_ok i (model i)) sweep = true.
Proof. vm_compute. reflexivity. Qed.

Lemma sweep_size : N.of_nat (length sweep) = 283812.
Proof. vm_compute. reflexivity. Qed.
