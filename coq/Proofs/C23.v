(* Proofs/C23.v — lemmas for property C23 (authenticator failures and chains). *)
From Coq Require Import List Bool ZArith Lia Arith.
From VR Require Import Model.C23.
Import ListNotations.
Open Scope N_scope.
Local Arguments N.eqb : simpl never.

(* ======================================================================== *)
(* Induction over error trees and authenticator trees (nested in lists)      *)
(* ======================================================================== *)
Section AerrInd.
  Variable P : aerr -> Prop.
  Hypothesis HF : forall r d, P (Failure r d).
  Hypothesis HU : forall r, P (Unavailable r).
  Hypothesis HR : forall t m, P (Rpc t m).
  Hypothesis HO : P Other.
  Hypothesis HW : forall e, P e -> P (Wrap e).
  Hypothesis HJ : forall es, Forall P es -> P (Join es).
  Fixpoint aerr_rect' (e : aerr) : P e :=
    match e with
    | Failure r d => HF r d
    | Unavailable r => HU r
    | Rpc t m => HR t m
    | Other => HO
    | Wrap e' => HW e' (aerr_rect' e')
    | Join es =>
        HJ es ((fix go (l : list aerr) : Forall P l :=
                  match l with
                  | [] => Forall_nil P
                  | x :: t => Forall_cons x (aerr_rect' x) (go t)
                  end) es)
    end.
End AerrInd.

Section AuthInd.
  Variable P : auth -> Prop.
  Hypothesis HS : forall o, P (Script o).
  Hypothesis HC : forall l, Forall P l -> P (Chain l).
  Fixpoint auth_rect' (a : auth) : P a :=
    match a with
    | Script o => HS o
    | Chain l =>
        HC l ((fix go (l : list auth) : Forall P l :=
                 match l with
                 | [] => Forall_nil P
                 | x :: t => Forall_cons x (auth_rect' x) (go t)
                 end) l)
    end.
End AuthInd.

(* ======================================================================== *)
(* The property's vocabulary, as relations                                   *)
(* ======================================================================== *)

(* an AuthUnavailableError with RetryAfter [r] occurs ANYWHERE in the tree *)
Inductive contains_unavail : aerr -> Z -> Prop :=
| cu_here r : contains_unavail (Unavailable r) r
| cu_wrap e r : contains_unavail e r -> contains_unavail (Wrap e) r
| cu_join es e r : In e es -> contains_unavail e r -> contains_unavail (Join es) r.

(* an AuthFailure occurs anywhere in the tree *)
Inductive contains_failure : aerr -> Prop :=
| cf_here r d : contains_failure (Failure r d)
| cf_wrap e : contains_failure e -> contains_failure (Wrap e)
| cf_join es e : In e es -> contains_failure e -> contains_failure (Join es).

(* [x] is in the Unwrap chain of [e]: reachable through Unwrap() error only *)
Inductive in_unwrap_chain : aerr -> aerr -> Prop :=
| uc_here e : in_unwrap_chain e e
| uc_wrap e x : in_unwrap_chain e x -> in_unwrap_chain (Wrap e) x.

(* "a rejection", with the reason code and detail it has to be reported with *)
Definition rejection (e : aerr) (reason detail : bytes) : Prop :=
  (exists r, in_unwrap_chain e (Failure r detail) /\
             reason = if s_in_set r then r else s_unauthorized)
  \/ (e = Rpc s_permission_error detail /\ reason = s_insufficient_scope)
  \/ (e = Rpc s_value_error detail /\ reason = s_unauthorized).

(* "a directly returned ValueError RpcError" *)
Definition moves_on (o : outcome) : Prop := exists msg, o = Err (Rpc s_value_error msg).

(* ======================================================================== *)
(* Constants regenerated from the code equal the property's literals          *)
(* ======================================================================== *)
Lemma consts_reasons : c23_auth_reasons = s_closed_set. Proof. reflexivity. Qed.
Lemma consts_unauthorized : c23_reason_unauthorized = s_unauthorized. Proof. reflexivity. Qed.
Lemma consts_scope : c23_reason_insufficient_scope = s_insufficient_scope. Proof. reflexivity. Qed.
Lemma consts_ve : ty_value_error = s_value_error. Proof. reflexivity. Qed.
Lemma consts_pe : ty_permission_error = s_permission_error. Proof. reflexivity. Qed.
Lemma consts_retry : c23_default_retry_after = 5%Z. Proof. reflexivity. Qed.
Lemma consts_cache : c23_cache_control_401 = str "no-store". Proof. reflexivity. Qed.
Lemma consts_body_error : c23_body_error_401 = s_unauthorized. Proof. reflexivity. Qed.
Lemma consts_hdr_reason : c23_hdr_auth_reason = str "VGI-Auth-Reason". Proof. reflexivity. Qed.
Lemma consts_hdr_proxy : c23_hdr_proxy_required = str "VGI-Auth-Proxy-Required". Proof. reflexivity. Qed.

Lemma known_in_set r : known r = s_in_set r.
Proof. unfold known, s_in_set. now rewrite consts_reasons. Qed.

Lemma norm_eq r : norm r = if s_in_set r then r else s_unauthorized.
Proof. unfold norm. now rewrite known_in_set, consts_unauthorized. Qed.

Lemma s_in_set_In r : s_in_set r = true <-> In r s_closed_set.
Proof.
  unfold s_in_set. rewrite existsb_exists. split.
  - intros [x [Hin Hx]]. apply beqb_eq in Hx. now subst.
  - intro Hin. exists r. split; [exact Hin | apply beqb_refl].
Qed.

Lemma unauthorized_in_set : s_in_set s_unauthorized = true. Proof. reflexivity. Qed.

Lemma norm_in_set r : s_in_set (norm r) = true.
Proof. rewrite norm_eq. destruct (s_in_set r) eqn:E; [exact E | exact unauthorized_in_set]. Qed.

Lemma norm_fix r : s_in_set r = true -> norm r = r.
Proof. intro H. now rewrite norm_eq, H. Qed.

Lemma norm_idem r : norm (norm r) = norm r.
Proof. apply norm_fix, norm_in_set. Qed.

(* ======================================================================== *)
(* Traversals                                                                *)
(* ======================================================================== *)
Definition first_unavail (l : list aerr) : option Z :=
  (fix first (l : list aerr) : option Z :=
     match l with
     | [] => None
     | x :: t => match find_unavail x with Some r => Some r | None => first t end
     end) l.

Lemma find_unavail_join es : find_unavail (Join es) = first_unavail es.
Proof. reflexivity. Qed.

Lemma first_unavail_cons x t :
  first_unavail (x :: t) = match find_unavail x with Some r => Some r | None => first_unavail t end.
Proof. reflexivity. Qed.

Lemma hd_error_app {A} (a b : list A) :
  hd_error (a ++ b) = match hd_error a with Some x => Some x | None => hd_error b end.
Proof. destruct a; reflexivity. Qed.

(* errors.As finds the first AuthUnavailableError of the pre-order walk *)
Lemma find_unavail_hd e : find_unavail e = hd_error (s_unavails e).
Proof.
  induction e as [r d|r|t m| |e IH|es IH] using aerr_rect'; try reflexivity.
  - exact IH.
  - rewrite find_unavail_join. cbn [s_unavails].
    induction IH as [|x t Hx Ht IHt]; [reflexivity|].
    rewrite first_unavail_cons. cbn [flat_map]. rewrite hd_error_app, Hx, IHt. reflexivity.
Qed.

Lemma s_unavails_contains e r : In r (s_unavails e) <-> contains_unavail e r.
Proof.
  induction e as [r0 d|r0|t m| |e IH|es IH] using aerr_rect'; cbn [s_unavails].
  - split; [intros [] | intro H; inversion H].
  - split.
    + intros [H|[]]. subst. constructor.
    + intro H. inversion H; subst. now left.
  - split; [intros [] | intro H; inversion H].
  - split; [intros [] | intro H; inversion H].
  - rewrite IH. split; intro H; [now constructor | now inversion H].
  - rewrite in_flat_map. rewrite Forall_forall in IH. split.
    + intros [x [Hin Hx]]. apply (cu_join es x r Hin). now apply IH.
    + intro H. inversion H as [| |es' x r' Hin Hx]; subst. exists x. split; [exact Hin | now apply IH].
Qed.

Lemma no_unavail_nil e : (forall r, ~ contains_unavail e r) -> s_unavails e = [].
Proof.
  intro H. destruct (s_unavails e) as [|r t] eqn:E; [reflexivity|].
  exfalso. apply (H r), s_unavails_contains. rewrite E. now left.
Qed.

(* asAuthFailure: the end of the single-Unwrap chain *)
Lemma find_failure_end e :
  find_failure e = match s_chain_end e with Failure r d => Some (r, d) | _ => None end.
Proof. induction e; cbn [find_failure s_chain_end]; try reflexivity. exact IHe. Qed.

Lemma chain_end_in_chain e : in_unwrap_chain e (s_chain_end e).
Proof. induction e; cbn [s_chain_end]; try constructor. exact IHe. Qed.

Lemma in_chain_failure_end e r d : in_unwrap_chain e (Failure r d) -> s_chain_end e = Failure r d.
Proof.
  intro H. remember (Failure r d) as x eqn:Ex. induction H as [e|e x H IH]; subst.
  - reflexivity.
  - cbn [s_chain_end]. now apply IH.
Qed.

Lemma find_failure_iff e r d : find_failure e = Some (r, d) <-> in_unwrap_chain e (Failure r d).
Proof.
  rewrite find_failure_end. split.
  - intro H. pose proof (chain_end_in_chain e) as Hc.
    destruct (s_chain_end e); try discriminate. inversion H; subst. exact Hc.
  - intro H. now rewrite (in_chain_failure_end e r d H).
Qed.

Lemma ve_ne_pe : beqb s_value_error s_permission_error = false. Proof. reflexivity. Qed.

(* the status when no AuthUnavailableError is found, in the property's terms *)
Lemma status_no_unavail e :
  find_unavail e = None ->
  status_of e = match s_rejection e with Some (r, d) => R401 r d | None => R500 end.
Proof.
  intro Hu. unfold status_of, status_with, classify_with, s_rejection, direct_reject. rewrite Hu.
  rewrite find_failure_end, consts_ve, consts_pe, consts_unauthorized, consts_scope.
  destruct (s_chain_end e) as [r d|r|t m| |e'|es] eqn:Ee.
  - cbn [is_some orb]. now rewrite norm_idem, norm_eq.
  - cbn [is_some orb]. destruct e; try reflexivity.
    all: cbn [s_chain_end] in Ee; try discriminate.
  - cbn [is_some orb]. destruct e as [r0 d0|r0|t0 m0| |e0|es0]; try reflexivity.
    destruct (beqb t0 s_permission_error) eqn:Ep.
    + rewrite orb_true_r. now rewrite norm_fix.
    + rewrite orb_false_r. destruct (beqb t0 s_value_error) eqn:Ev; [|reflexivity].
      now rewrite norm_fix.
  - cbn [is_some orb]. destruct e; try reflexivity. all: cbn [s_chain_end] in Ee; try discriminate.
  - exfalso. clear Hu. induction e; cbn [s_chain_end] in Ee; try discriminate. now apply IHe.
  - cbn [is_some orb]. destruct e; try reflexivity. all: cbn [s_chain_end] in Ee; try discriminate.
Qed.

(* ======================================================================== *)
(* status_spec                                                               *)
(* ======================================================================== *)

(* s_rejection decides [rejection] *)
Lemma s_rejection_iff e reason detail :
  s_rejection e = Some (reason, detail) <-> rejection e reason detail.
Proof.
  unfold s_rejection, rejection. split.
  - intro H. pose proof (chain_end_in_chain e) as Hc.
    destruct (s_chain_end e) as [r d|r|t m| |e'|es] eqn:Ee.
    + inversion H; subst. left. exists r. split; [exact Hc | reflexivity].
    + destruct e; try discriminate; cbn [s_chain_end] in Ee; discriminate.
    + destruct e as [r0 d0|r0|t0 m0| |e0|es0]; try discriminate.
      destruct (beqb t0 s_permission_error) eqn:Ep.
      * apply beqb_eq in Ep. inversion H; subst. right; left. now split.
      * destruct (beqb t0 s_value_error) eqn:Ev; [|discriminate].
        apply beqb_eq in Ev. inversion H; subst. right; right. now split.
    + destruct e; try discriminate; cbn [s_chain_end] in Ee; discriminate.
    + destruct e; try discriminate; cbn [s_chain_end] in Ee; discriminate.
    + destruct e; try discriminate; cbn [s_chain_end] in Ee; discriminate.
  - intros [[r [Hc Hr]]|[[He Hr]|[He Hr]]].
    + rewrite (in_chain_failure_end e r detail Hc). now subst.
    + subst. reflexivity.
    + subst. reflexivity.
Qed.

Lemma s_rejection_none e :
  s_rejection e = None <-> (forall reason detail, ~ rejection e reason detail).
Proof.
  split.
  - intros H reason detail Hr. apply s_rejection_iff in Hr. congruence.
  - intro H. destruct (s_rejection e) as [[r d]|] eqn:E; [|reflexivity].
    exfalso. apply (H r d), s_rejection_iff, E.
Qed.

Lemma rejection_reason_in_set e reason detail : rejection e reason detail -> In reason s_closed_set.
Proof.
  intros [[r [_ Hr]]|[[_ Hr]|[_ Hr]]]; subst; apply s_in_set_In; try reflexivity.
  destruct (s_in_set r) eqn:E; [exact E | reflexivity].
Qed.

Lemma status_503_first e r0 rest :
  s_unavails e = r0 :: rest -> status_of e = R503 (retry_after r0).
Proof.
  intro H. unfold status_of, status_with. now rewrite find_unavail_hd, H.
Qed.

Lemma status_503_anywhere e r :
  contains_unavail e r ->
  exists r0, contains_unavail e r0 /\ status_of e = R503 (retry_after r0).
Proof.
  intro H. apply s_unavails_contains in H.
  destruct (s_unavails e) as [|r0 rest] eqn:E; [destruct H|].
  exists r0. split.
  - apply s_unavails_contains. rewrite E. now left.
  - now apply (status_503_first e r0 rest).
Qed.

Lemma status_503_its_retry e r :
  contains_unavail e r -> (forall r', contains_unavail e r' -> r' = r) ->
  status_of e = R503 (retry_after r).
Proof.
  intros H Hall. destruct (status_503_anywhere e r H) as [r0 [H0 Hs]].
  now rewrite <- (Hall r0 H0).
Qed.

Lemma status_401 e reason detail :
  (forall r, ~ contains_unavail e r) -> rejection e reason detail ->
  status_of e = R401 reason detail /\ In reason s_closed_set.
Proof.
  intros Hn Hr. split; [|exact (rejection_reason_in_set e reason detail Hr)].
  rewrite status_no_unavail.
  - apply s_rejection_iff in Hr. now rewrite Hr.
  - rewrite find_unavail_hd, (no_unavail_nil e Hn). reflexivity.
Qed.

Lemma status_500 e :
  (forall r, ~ contains_unavail e r) -> (forall reason detail, ~ rejection e reason detail) ->
  status_of e = R500.
Proof.
  intros Hn Hr. rewrite status_no_unavail.
  - apply s_rejection_none in Hr. now rewrite Hr.
  - rewrite find_unavail_hd, (no_unavail_nil e Hn). reflexivity.
Qed.

(* the three classes are exhaustive and exclusive: an exact characterisation *)
Lemma status_503_iff e : (exists r, status_of e = R503 r) <-> (exists r, contains_unavail e r).
Proof.
  split.
  - intros [r H]. unfold status_of, status_with in H. rewrite find_unavail_hd in H.
    destruct (s_unavails e) as [|r0 rest] eqn:E.
    + cbn [hd_error] in H. destruct (is_some (find_failure e) || direct_reject e);
        [destruct (classify_with norm e)|]; discriminate.
    + exists r0. apply s_unavails_contains. rewrite E. now left.
  - intros [r H]. destruct (status_503_anywhere e r H) as [r0 [_ Hs]]. eauto.
Qed.

Lemma unavailable_wins e r :
  contains_unavail e r ->
  (forall reason detail, status_of e <> R401 reason detail) /\ status_of e <> R500.
Proof.
  intro H. destruct (status_503_anywhere e r H) as [r0 [_ Hs]]. rewrite Hs.
  split; [intros reason detail|]; discriminate.
Qed.

(* in this universe of error values a rejection never hides an outage, so the
   order of the two tests in authenticate cannot matter *)
Lemma rejection_excludes_unavail e reason detail :
  rejection e reason detail -> forall r, ~ contains_unavail e r.
Proof.
  intros [[r0 [Hc _]]|[[He _]|[He _]]] r Hu.
  - remember (Failure r0 detail) as x eqn:Ex. induction Hc as [e|e x Hc IH]; subst.
    + inversion Hu.
    + inversion Hu; subst. now apply IH.
  - subst. inversion Hu.
  - subst. inversion Hu.
Qed.

(* ======================================================================== *)
(* reasons                                                                   *)
(* ======================================================================== *)
Lemma reason_closed r : In (norm r) s_closed_set.
Proof. apply s_in_set_In, norm_in_set. Qed.

Lemma reason_kept r : In r s_closed_set -> norm r = r.
Proof. intro H. apply norm_fix, s_in_set_In, H. Qed.

Lemma reason_fallback r : ~ In r s_closed_set -> norm r = s_unauthorized.
Proof.
  intro H. rewrite norm_eq. destruct (s_in_set r) eqn:E; [|reflexivity].
  exfalso. apply H, s_in_set_In, E.
Qed.

Lemma status_401_reason_closed e reason detail :
  status_of e = R401 reason detail -> In reason s_closed_set.
Proof.
  unfold status_of, status_with. destruct (find_unavail e); [discriminate|].
  destruct (is_some (find_failure e) || direct_reject e); [|discriminate].
  destruct (classify_with norm e) as [r d]. intro H. inversion H; subst. apply reason_closed.
Qed.

(* the pre-fix code let any non-empty reason through *)
Lemma legacy_refuted :
  exists e reason detail, status_legacy e = R401 reason detail /\ ~ In reason s_closed_set.
Proof.
  exists (Failure (str "made_up") []), (str "made_up"), []. split; [reflexivity|].
  intro H. apply s_in_set_In in H. discriminate.
Qed.

Lemma legacy_crlf_refuted :
  exists e reason detail, status_legacy e = R401 reason detail /\ In 13 reason /\ In 10 reason.
Proof.
  exists (Wrap (Failure (hx "780d0a5365742d436f6f6b69653a20613d62") [])),
         (hx "780d0a5365742d436f6f6b69653a20613d62"), [].
  split; [reflexivity|]. split; vm_compute; tauto.
Qed.

(* ======================================================================== *)
(* chains                                                                    *)
(* ======================================================================== *)
Lemma find_unavail_rpc t m : find_unavail (Rpc t m) = None. Proof. reflexivity. Qed.

Lemma passes_iff o : passes o = true <-> moves_on o.
Proof.
  unfold moves_on. destruct o as [p|e].
  - split; [discriminate | intros [m H]; discriminate].
  - unfold passes. destruct e as [r d|r|t m| |e|es].
    + split; [discriminate | intros [m H]; discriminate].
    + split; [discriminate | intros [m H]; discriminate].
    + rewrite find_unavail_rpc, consts_ve. split.
      * intro H. apply beqb_eq in H. subst. now exists m.
      * intros [m' H]. inversion H; subst. apply beqb_refl.
    + split; [discriminate | intros [m H]; discriminate].
    + destruct (find_unavail (Wrap e)); (split; [discriminate | intros [m H]; discriminate]).
    + destruct (find_unavail (Join es)); (split; [discriminate | intros [m H]; discriminate]).
Qed.

Lemma s_moves_on_passes o : s_moves_on o = passes o.
Proof.
  destruct o as [p|e]; [reflexivity|]. unfold passes. destruct e as [r d|r|t m| |e|es]; try reflexivity.
  - destruct (find_unavail (Wrap e)); reflexivity.
  - destruct (find_unavail (Join es)); reflexivity.
Qed.

Lemma passes_exhausted : passes (Err exhausted) = true. Proof. reflexivity. Qed.

Definition allp (l : list outcome) : bool := forallb passes l.

Lemma allp_Forall l : allp l = true <-> Forall moves_on l.
Proof.
  unfold allp. rewrite forallb_forall, Forall_forall.
  split; intros H x Hx; apply passes_iff, H, Hx.
Qed.

Lemma allp_app a b : allp (a ++ b) = allp a && allp b.
Proof. apply forallb_app. Qed.

Lemma chain_cons o t :
  chain (o :: t) = if passes o then (S (fst (chain t)), snd (chain t)) else (1%nat, o).
Proof. cbn [chain]. destruct (passes o); [|reflexivity]. now destruct (chain t). Qed.

Lemma chain_allp l : allp l = true -> chain l = (length l, Err exhausted).
Proof.
  induction l as [|o t IH]; intro H; [reflexivity|].
  cbn [allp forallb] in H. apply andb_true_iff in H as [Ho Ht].
  rewrite chain_cons, Ho, (IH Ht). reflexivity.
Qed.

Lemma chain_app_allp l1 l2 :
  allp l1 = true -> chain (l1 ++ l2) = ((length l1 + fst (chain l2))%nat, snd (chain l2)).
Proof.
  induction l1 as [|o t IH]; intro H.
  - cbn [app length Nat.add]. now destruct (chain l2).
  - cbn [allp forallb] in H. apply andb_true_iff in H as [Ho Ht].
    cbn [app]. rewrite chain_cons, Ho, (IH Ht). reflexivity.
Qed.

Lemma chain_app_stop l1 l2 : allp l1 = false -> chain (l1 ++ l2) = chain l1.
Proof.
  induction l1 as [|o t IH]; intro H; [discriminate|].
  cbn [allp forallb] in H. cbn [app]. rewrite !chain_cons.
  destruct (passes o); [|reflexivity]. cbn [andb] in H. now rewrite (IH H).
Qed.

Lemma chain_stop_facts l :
  allp l = false ->
  passes (snd (chain l)) = false /\ (1 <= fst (chain l) <= length l)%nat /\
  nth_error l (fst (chain l) - 1) = Some (snd (chain l)) /\
  allp (firstn (fst (chain l) - 1) l) = true.
Proof.
  induction l as [|o t IH]; intro H; [discriminate|].
  cbn [allp forallb] in H. rewrite chain_cons. destruct (passes o) eqn:Ho.
  - cbn [andb] in H. destruct (IH H) as [H1 [H2 [H3 H4]]]. cbn [fst snd length].
    split; [exact H1|]. split; [lia|].
    destruct (fst (chain t)) as [|k] eqn:Ek; [lia|].
    cbn [Nat.sub] in *. rewrite Nat.sub_0_r in *. split; [exact H3|].
    cbn [firstn allp forallb]. now rewrite Ho.
  - cbn [fst snd length Nat.sub nth_error firstn]. repeat split; try assumption; try lia.
Qed.

Lemma passes_chain_result l : passes (snd (chain l)) = allp l.
Proof.
  destruct (allp l) eqn:E.
  - now rewrite (chain_allp l E).
  - now destruct (chain_stop_facts l E).
Qed.

(* relational form *)
Lemma chain_stops pre x post :
  Forall moves_on pre -> ~ moves_on x -> chain (pre ++ x :: post) = (S (length pre), x).
Proof.
  intros Hp Hx. apply allp_Forall in Hp. rewrite (chain_app_allp pre (x :: post) Hp), chain_cons.
  destruct (passes x) eqn:E; [exfalso; apply Hx, passes_iff, E|].
  cbn [fst snd]. f_equal. lia.
Qed.

Lemma chain_exhausts l : Forall moves_on l -> chain l = (length l, Err exhausted).
Proof. intro H. apply chain_allp, allp_Forall, H. Qed.

Lemma chain_shape l :
  Forall moves_on l \/
  exists pre x post, l = pre ++ x :: post /\ Forall moves_on pre /\ ~ moves_on x.
Proof.
  induction l as [|o t IH]; [left; constructor|].
  destruct (passes o) eqn:Ho.
  - destruct IH as [IH|[pre [x [post [E [Hp Hx]]]]]].
    + left. constructor; [now apply passes_iff | exact IH].
    + right. exists (o :: pre), x, post. subst. repeat split; try assumption.
      constructor; [now apply passes_iff | exact Hp].
  - right. exists [], o, t. repeat split; [constructor|].
    intro H. apply passes_iff in H. congruence.
Qed.

(* ---- nested chains run like the flat chain of their scripts --------------- *)
Definition run_list : list auth -> nat -> list nat * origin * outcome :=
  fix go (l : list auth) (base : nat) : list nat * origin * outcome :=
    match l with
    | [] => ([], FromExhausted, Err exhausted)
    | x :: t =>
        let '(tr, og, o) := run x base in
        if passes o then
          let '(tr2, og2, o2) := go t (base + size x)%nat in (tr ++ tr2, og2, o2)
        else (tr, og, o)
    end.

Lemma run_chain l base : run (Chain l) base = run_list l base. Proof. reflexivity. Qed.

Lemma run_list_cons x t base :
  run_list (x :: t) base =
  let '(tr, og, o) := run x base in
  if passes o then
    let '(tr2, og2, o2) := run_list t (base + size x)%nat in (tr ++ tr2, og2, o2)
  else (tr, og, o).
Proof. reflexivity. Qed.

Lemma size_chain_cons x t : size (Chain (x :: t)) = (size x + size (Chain t))%nat.
Proof. reflexivity. Qed.

Lemma scripts_chain_cons x t : s_scripts (Chain (x :: t)) = s_scripts x ++ s_scripts (Chain t).
Proof. reflexivity. Qed.

Lemma size_scripts a : size a = length (s_scripts a).
Proof.
  induction a as [o|l IH] using auth_rect'; [reflexivity|].
  induction IH as [|x t Hx Ht IHt]; [reflexivity|].
  rewrite size_chain_cons, scripts_chain_cons, app_length, Hx, IHt. reflexivity.
Qed.

Definition run_inv (a : auth) : Prop := forall base,
  exists o',
    run a base = (seq base (fst (chain (s_scripts a))),
                  (if allp (s_scripts a) && s_is_chain a then FromExhausted
                   else FromScript (base + fst (chain (s_scripts a)) - 1)),
                  o')
    /\ passes o' = allp (s_scripts a)
    /\ (allp (s_scripts a) && negb (s_is_chain a) = false -> o' = snd (chain (s_scripts a))).

Lemma run_list_flat l :
  Forall run_inv l -> forall base,
  run_list l base =
    (seq base (fst (chain (s_scripts (Chain l)))),
     (if allp (s_scripts (Chain l)) then FromExhausted
      else FromScript (base + fst (chain (s_scripts (Chain l))) - 1)),
     snd (chain (s_scripts (Chain l)))).
Proof.
  induction 1 as [|x t Hx Ht IHt]; intro base; [reflexivity|].
  rewrite run_list_cons, scripts_chain_cons.
  destruct (Hx base) as [o' [Hr [Hp Ho]]]. rewrite Hr, Hp.
  destruct (allp (s_scripts x)) eqn:Ea.
  - rewrite (IHt (base + size x)%nat).
    rewrite (chain_app_allp _ _ Ea). cbn [fst snd].
    rewrite (chain_allp _ Ea). cbn [fst]. rewrite size_scripts.
    rewrite allp_app, Ea. cbn [andb]. rewrite seq_app.
    destruct (allp (s_scripts (Chain t))); [reflexivity|].
    do 3 f_equal. lia.
  - rewrite (chain_app_stop _ _ Ea).
    rewrite allp_app, Ea. cbn [andb].
    rewrite Ho by reflexivity. reflexivity.
Qed.

Lemma run_flat a : run_inv a.
Proof.
  induction a as [o|l IH] using auth_rect'; intro base.
  - exists o. cbn [s_scripts s_is_chain run]. rewrite andb_false_r.
    assert (F : fst (chain [o]) = 1%nat) by (rewrite chain_cons; now destruct (passes o)).
    rewrite F. cbn [seq]. rewrite Nat.add_sub. split; [reflexivity|]. split.
    + cbn [allp forallb]. now rewrite andb_true_r.
    + cbn [allp forallb negb]. rewrite !andb_true_r. intro Hp. rewrite chain_cons, Hp. reflexivity.
  - exists (snd (chain (s_scripts (Chain l)))).
    rewrite run_chain, (run_list_flat l IH base). cbn [s_is_chain negb]. rewrite andb_true_r.
    split; [reflexivity|]. split; [apply passes_chain_result | reflexivity].
Qed.

(* the readable corollary: a chain of (nested) chains, started at script 0 *)
Lemma nested_chain_flat l :
  run (Chain l) 0 =
    (seq 0 (fst (chain (s_scripts (Chain l)))),
     (if allp (s_scripts (Chain l)) then FromExhausted
      else FromScript (fst (chain (s_scripts (Chain l))) - 1)),
     snd (chain (s_scripts (Chain l)))).
Proof.
  rewrite run_chain. apply run_list_flat. rewrite Forall_forall. intros x _. apply run_flat.
Qed.

(* ======================================================================== *)
(* the model satisfies the decidable form of the property                    *)
(* ======================================================================== *)
Lemma leqb_refl {A} (e : A -> A -> bool) (He : forall x, e x x = true) l : list_eqb e l l = true.
Proof. induction l as [|x l IH]; [reflexivity|]. cbn [list_eqb]. now rewrite He, IH. Qed.

Lemma nats_refl l : list_eqb Nat.eqb l l = true. Proof. apply leqb_refl, Nat.eqb_refl. Qed.
Lemma bl_refl l : list_eqb beqb l l = true. Proof. apply leqb_refl, beqb_refl. Qed.
Lemma zl_refl l : list_eqb Z.eqb l l = true. Proof. apply leqb_refl, Z.eqb_refl. Qed.

Lemma respond_proj c tr og o :
  o_built (respond c tr og o) = true /\ o_dtrace (respond c tr og o) = tr
  /\ o_trace (respond c tr og o) = tr /\ o_dres (respond c tr og o) = dres_of og o.
Proof.
  unfold respond. destruct o as [p|e]; [|destruct (status_of e)]; repeat split; reflexivity.
Qed.

Lemma retry_after_eq r : retry_after r = if (0 <? r)%Z then r else 5%Z.
Proof. unfold retry_after. now rewrite Z.gtb_ltb, consts_retry. Qed.

Lemma response_ok_script c tr id o :
  s_response_ok c (FromScript id) o (respond c tr (FromScript id) o) = true.
Proof.
  destruct o as [p|e].
  - unfold respond, s_response_ok, s_no401, mk_obs.
    cbn [o_status o_reached o_retry o_reason o_proxy o_body].
    now rewrite bl_refl.
  - unfold respond, s_response_ok. destruct (s_unavails e) as [|r0 rest] eqn:Eu.
    + rewrite status_no_unavail by (rewrite find_unavail_hd, Eu; reflexivity).
      destruct (s_rejection e) as [[r d]|] eqn:Er.
      * assert (Hin : s_in_set r = true).
        { apply s_in_set_In, (rejection_reason_in_set e r d), s_rejection_iff, Er. }
        unfold mk_obs, s_no401.
        cbn [o_status o_reached o_retry o_reason o_proxy o_body o_cache o_www b_error b_reason b_detail b_hint].
        rewrite Hin, consts_cache, consts_body_error, !bl_refl, !beqb_refl, Bool.eqb_reflx.
        reflexivity.
      * reflexivity.
    + rewrite (status_503_first e r0 rest Eu), retry_after_eq.
      unfold mk_obs, s_no401. cbn [o_status o_reached o_retry o_reason o_proxy o_body].
      now rewrite zl_refl.
Qed.

Lemma status_exhausted : status_of exhausted = R401 s_unauthorized c23_chain_exhausted_msg.
Proof. reflexivity. Qed.

Lemma response_ok_exhausted c tr :
  s_response_ok c FromExhausted (Err (Rpc s_value_error [])) (respond c tr FromExhausted (Err exhausted)) = true.
Proof.
  unfold respond, s_response_ok. rewrite status_exhausted.
  change (s_unavails (Rpc s_value_error [])) with (@nil Z).
  unfold mk_obs. cbn [o_status o_reached o_retry o_reason o_proxy o_body o_cache o_www b_error b_reason b_detail b_hint].
  rewrite unauthorized_in_set, consts_cache, consts_body_error, !bl_refl, !beqb_refl, Bool.eqb_reflx.
  reflexivity.
Qed.

Lemma forallb_moves_allp l : forallb s_moves_on l = allp l.
Proof.
  induction l as [|o t IH]; [reflexivity|]. cbn [forallb allp]. fold (allp t).
  now rewrite s_moves_on_passes, IH.
Qed.

Lemma allp_firstn k l : allp l = true -> allp (firstn k l) = true.
Proof.
  revert k; induction l as [|o t IH]; intros k H; [now destruct k|].
  destruct k as [|k]; [reflexivity|]. cbn [allp forallb] in H. apply andb_true_iff in H as [Ho Ht].
  cbn [firstn allp forallb]. rewrite Ho. exact (IH k Ht).
Qed.

Lemma buildable_cons x t : buildable (Chain (x :: t)) = true -> buildable x = true.
Proof.
  intro H. cbn [buildable andb] in H. apply andb_true_iff in H as [H _]. exact H.
Qed.

Lemma buildable_scripts a : buildable a = true -> s_scripts a <> [].
Proof.
  induction a as [o|l IH] using auth_rect'; intro H; [discriminate|].
  destruct l as [|x t]; [discriminate|]. inversion IH as [|x' t' Hx Ht]; subst.
  rewrite scripts_chain_cons. intro E. apply app_eq_nil in E as [E _].
  exact (Hx (buildable_cons x t H) E).
Qed.

Lemma stop_script o : s_stop (Script o) [0%nat] = Some (FromScript 0, o).
Proof.
  unfold s_stop. cbn [s_scripts length seq list_eqb Nat.eqb andb negb firstn forallb nth_error s_is_chain].
  now rewrite andb_false_r.
Qed.

Lemma stop_chain l :
  buildable (Chain l) = true ->
  s_stop (Chain l) (seq 0 (fst (chain (s_scripts (Chain l))))) =
  Some (if allp (s_scripts (Chain l)) then (FromExhausted, Err (Rpc s_value_error []))
        else (FromScript (fst (chain (s_scripts (Chain l))) - 1), snd (chain (s_scripts (Chain l))))).
Proof.
  intro Hb. pose proof (buildable_scripts _ Hb) as Hne.
  unfold s_stop. set (ss := s_scripts (Chain l)) in *.
  rewrite seq_length, nats_refl. cbn [negb s_is_chain].
  destruct (allp ss) eqn:Ea.
  - rewrite (chain_allp ss Ea). cbn [fst].
    destruct ss as [|o0 t0] eqn:Ess; [congruence|]. rewrite <- Ess in *. clear Hne.
    assert (Hlen : length ss = S (length t0)) by (rewrite Ess; reflexivity).
    rewrite Hlen. rewrite forallb_moves_allp, (allp_firstn _ _ Ea). cbn [negb].
    destruct (nth_error ss (length t0)) as [last|] eqn:En.
    + assert (Hl : passes last = true).
      { unfold allp in Ea. rewrite forallb_forall in Ea. apply Ea, (nth_error_In _ _ En). }
      rewrite s_moves_on_passes, Hl, andb_true_r. rewrite <- Hlen, Nat.eqb_refl. reflexivity.
    + apply nth_error_None in En. lia.
  - destruct (chain_stop_facts ss Ea) as [H1 [H2 [H3 H4]]].
    destruct (fst (chain ss)) as [|k'] eqn:Ek; [lia|].
    cbn [Nat.sub] in *. rewrite Nat.sub_0_r in *.
    rewrite forallb_moves_allp, H4, H3. cbn [negb].
    now rewrite s_moves_on_passes, H1.
Qed.

Lemma dres_ok_script id o : s_dres_ok (FromScript id) o (dres_of (FromScript id) o) = true.
Proof. destruct o as [p|e]; cbn [s_dres_ok dres_of]; [apply beqb_refl | apply Nat.eqb_refl]. Qed.

Lemma model_meets_spec i : spec_ok i (model i) = true.
Proof.
  destruct i as [c a]. unfold spec_ok, model. cbn [i_auth i_cfg].
  destruct (buildable a) eqn:Hb; [|reflexivity]. cbn [negb].
  destruct a as [o|l].
  - cbn [run]. destruct (respond_proj c [0%nat] (FromScript 0) o) as [P1 [P2 [P3 P4]]].
    rewrite P1, P2, P3, P4, nats_refl, stop_script, dres_ok_script, response_ok_script. reflexivity.
  - rewrite nested_chain_flat.
    set (n := fst (chain (s_scripts (Chain l)))).
    pose proof (stop_chain l Hb) as Hs. fold n in Hs.
    destruct (allp (s_scripts (Chain l))) eqn:Ea.
    + rewrite (chain_allp _ Ea). cbn [snd].
      destruct (respond_proj c (seq 0 n) FromExhausted (Err exhausted)) as [P1 [P2 [P3 P4]]].
      rewrite P1, P2, P3, P4, nats_refl, Hs, response_ok_exhausted. reflexivity.
    + destruct (respond_proj c (seq 0 n) (FromScript (n - 1)) (snd (chain (s_scripts (Chain l)))))
        as [P1 [P2 [P3 P4]]].
      rewrite P1, P2, P3, P4, nats_refl, Hs, dres_ok_script, response_ok_script. reflexivity.
Qed.

(* ======================================================================== *)
(* headers                                                                   *)
(* ======================================================================== *)
Lemma headers_401 c tr og e reason detail :
  status_of e = R401 reason detail ->
  let ob := respond c tr og (Err e) in
  o_status ob = 401%Z /\ o_reason ob = [reason] /\ In reason s_closed_set
  /\ o_cache ob = [str "no-store"]
  /\ o_www ob = match c_www c with [] => [] | w => [w] end
  /\ o_retry ob = []
  /\ o_body ob = Some {| b_error := s_unauthorized; b_reason := reason; b_detail := detail;
                         b_hint := c_proxy c |}
  /\ o_reached ob = [].
Proof.
  intro H. pose proof (status_401_reason_closed e reason detail H) as Hin.
  unfold respond. rewrite H. unfold mk_obs.
  cbn [o_status o_reason o_cache o_www o_retry o_body o_reached].
  rewrite consts_cache, consts_body_error. repeat split; try reflexivity. exact Hin.
Qed.

Lemma headers_not_401 c tr og o :
  (forall e reason detail, o = Err e -> status_of e <> R401 reason detail) ->
  let ob := respond c tr og o in
  o_reason ob = [] /\ o_proxy ob = [] /\ o_body ob = None /\ o_status ob <> 401%Z.
Proof.
  intro H. unfold respond. destruct o as [p|e].
  - repeat split; try reflexivity. discriminate.
  - destruct (status_of e) as [r|reason detail|] eqn:E.
    + repeat split; try reflexivity. discriminate.
    + exfalso. exact (H e reason detail eq_refl E).
    + repeat split; try reflexivity. discriminate.
Qed.

Lemma headers_503 c tr og e r :
  status_of e = R503 r ->
  let ob := respond c tr og (Err e) in
  o_status ob = 503%Z /\ o_retry ob = [r] /\ (0 < r)%Z /\ o_reason ob = [] /\ o_reached ob = [].
Proof.
  intro H. unfold respond. rewrite H. repeat split; try reflexivity.
  unfold status_of, status_with in H. destruct (find_unavail e) as [r0|].
  - inversion H. rewrite retry_after_eq. destruct (0 <? r0)%Z eqn:E; lia.
  - destruct (is_some (find_failure e) || direct_reject e); [destruct (classify_with norm e)|]; discriminate.
Qed.

(* ======================================================================== *)
(* packaged statements used by Props/C23.v                                   *)
(* ======================================================================== *)
Lemma status_503_pack e :
  (forall r, contains_unavail e r ->
     exists r0, contains_unavail e r0 /\ status_of e = R503 (retry_after r0)) /\
  (forall r0 rest, s_unavails e = r0 :: rest -> status_of e = R503 (retry_after r0)) /\
  (forall r, contains_unavail e r -> (forall r', contains_unavail e r' -> r' = r) ->
     status_of e = R503 (if (0 <? r)%Z then r else 5%Z)).
Proof.
  split; [exact (status_503_anywhere e)|]. split; [exact (status_503_first e)|].
  intros r H Hall. rewrite <- retry_after_eq. exact (status_503_its_retry e r H Hall).
Qed.

Lemma reason_pack r :
  In (norm r) s_closed_set /\
  (In r s_closed_set -> norm r = r) /\
  (~ In r s_closed_set -> norm r = s_unauthorized).
Proof. split; [apply reason_closed|]. split; [apply reason_kept | apply reason_fallback]. Qed.

Lemma consts_pack :
  c23_auth_reasons = s_closed_set /\ c23_default_retry_after = 5%Z /\
  c23_cache_control_401 = str "no-store" /\
  c23_hdr_auth_reason = str "VGI-Auth-Reason" /\
  c23_hdr_proxy_required = str "VGI-Auth-Proxy-Required" /\
  ty_value_error = str "ValueError" /\ ty_permission_error = str "PermissionError".
Proof. repeat split; reflexivity. Qed.

Lemma chain_exhausted_pack l :
  Forall moves_on l ->
  chain l = (length l, Err exhausted) /\
  status_of exhausted = R401 s_unauthorized c23_chain_exhausted_msg.
Proof. intro H. split; [exact (chain_exhausts l H) | exact status_exhausted]. Qed.

Lemma chain_outage_pack pre e post r :
  Forall moves_on pre -> contains_unavail e r ->
  chain (pre ++ Err e :: post) = (S (length pre), Err e) /\
  exists r0, contains_unavail e r0 /\ status_of e = R503 (retry_after r0).
Proof.
  intros Hp Hu. split; [|exact (status_503_anywhere e r Hu)].
  apply chain_stops; [exact Hp|]. intros [msg H]. inversion H; subst. inversion Hu.
Qed.
