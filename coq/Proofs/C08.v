(* Proofs/C08.v — lemmas for property C08 (values survive Arrow serialization). *)
From VR Require Import Model.C08.
From Coq Require Import ZArith Lia List Bool ZifyBool.
Import ListNotations.
Open Scope Z_scope.

Local Arguments Z.pow : simpl never.
Local Arguments Z.mul : simpl never.
Local Arguments Z.add : simpl never.
Local Arguments Z.sub : simpl never.
Local Arguments Z.div : simpl never.
Local Arguments Z.modulo : simpl never.
Local Arguments Z.quot : simpl never.
Local Arguments Z.rem : simpl never.
Local Arguments Z.ltb : simpl never.
Local Arguments Z.leb : simpl never.
Local Arguments Z.eqb : simpl never.

(* lia with Go's truncating / and % and with floor div/mod *)
Ltac eu := Z.to_euclidean_division_equations; lia.

Ltac pows :=
  repeat match goal with
         | |- context [Z.pow ?a ?b] =>
             let v := eval vm_compute in (Z.pow a b) in change (Z.pow a b) with v
         | H : context [Z.pow ?a ?b] |- _ =>
             let v := eval vm_compute in (Z.pow a b) in change (Z.pow a b) with v in H
         end.

Ltac consts := unfold E3, E6, E9, DAY in *.

(* ---- fixed width ---------------------------------------------------------- *)
Lemma i64_id z : in64 z = true -> i64 z = z.
Proof. unfold in64, i64, wrapS. pows. intro H. cbv zeta. destruct (z mod _ <? _) eqn:E; eu. Qed.
Lemma i32_id z : in32 z = true -> i32 z = z.
Proof. unfold in32, i32, wrapS. pows. intro H. cbv zeta. destruct (z mod _ <? _) eqn:E; eu. Qed.

Lemma iwrap_id k z : irange k z = true -> iwrap k z = z.
Proof.
  destruct k; unfold irange, iwrap, wrapS, wrapU, isigned, ibits; pows; intro H; cbv zeta;
    try (destruct (z mod _ <? _) eqn:E); eu.
Qed.
Lemma irange_wide k z : irange k z = true -> irange (wide k) z = true.
Proof. destruct k; unfold irange, wide, isigned, ibits; pows; lia. Qed.

(* integers: a Go value inside both the Go field's and the Arrow column's range
   survives, in both directions *)
Lemma int_dec_enc g a x :
  irange g x = true -> irange a x = true -> dec_int g a (enc_int g a x) = x.
Proof.
  intros Hg Ha. unfold dec_int, enc_int.
  rewrite (iwrap_id (wide a)) by now apply irange_wide.
  rewrite (iwrap_id a) by assumption.
  rewrite (iwrap_id (wide g)) by now apply irange_wide.
  now apply iwrap_id.
Qed.
Lemma int_enc_dec g a w :
  irange g w = true -> irange a w = true -> enc_int g a (dec_int g a w) = w.
Proof.
  intros Hg Ha. unfold dec_int, enc_int.
  rewrite (iwrap_id (wide g)) by now apply irange_wide.
  rewrite (iwrap_id g) by assumption.
  rewrite (iwrap_id (wide a)) by now apply irange_wide.
  now apply iwrap_id.
Qed.

(* ---- timestamps (microseconds) -------------------------------------------- *)
Lemma go_unix_floor sec nsec :
  go_unix sec nsec = (sec + nsec / E9, nsec mod E9).
Proof.
  unfold go_unix. consts.
  destruct ((nsec <? 0) || (1000000000 <=? nsec)) eqn:C.
  - cbv zeta. destruct (nsec - _ <? 0) eqn:D; f_equal; eu.
  - f_equal; eu.
Qed.

Lemma dec_ts_floor u v :
  dec_ts u v = match u with
               | USec => (v, 0)
               | UMilli => (v / E3, v mod E3 * E6)
               | UMicro => (v / E6, v mod E6 * E3)
               | UNano => (v / E9, v mod E9)
               end.
Proof. destruct u; unfold dec_ts; rewrite go_unix_floor; consts; f_equal; eu. Qed.

(* every int64 count, in each unit, is the encoding of the instant it decodes to *)
Lemma ts_enc_dec_u u v :
  in64 v = true ->
  enc_ts u (fst (dec_ts u v)) (snd (dec_ts u v)) = v
  /\ time_ok (fst (dec_ts u v)) (snd (dec_ts u v)) = true.
Proof.
  intro H. rewrite dec_ts_floor. unfold enc_ts, time_ok.
  destruct u; cbn [fst snd ts_raw]; consts; (split; [|eu]).
  - now apply i64_id.
  - replace (v / 1000 * 1000 + Z.quot (v mod 1000 * 1000000) 1000000) with v by eu. now apply i64_id.
  - replace (v / 1000000 * 1000000 + Z.quot (v mod 1000000 * 1000) 1000) with v by eu. now apply i64_id.
  - replace (v / 1000000000 * 1000000000 + v mod 1000000000) with v by eu. now apply i64_id.
Qed.

(* an instant whose count in the column's unit fits int64 comes back truncated
   (floor) to that unit; for nanoseconds this guard is Go's 1678..2262 window *)
Lemma ts_dec_enc_u u s n :
  time_ok s n = true -> in64 (ts_raw u s n) = true ->
  dec_ts u (enc_ts u s n) = (s, ts_trunc u n).
Proof.
  unfold time_ok, enc_ts. intros Hn Hr. rewrite i64_id by assumption. rewrite dec_ts_floor.
  destruct u; unfold ts_raw, ts_trunc in *; consts; f_equal; eu.
Qed.

(* ---- dates ------------------------------------------------------------------ *)
Lemma enc_date_floor s : enc_date s = i32 (s / DAY).
Proof. unfold enc_date. consts. cbv zeta. f_equal. destruct (Z.rem s 86400 <? 0) eqn:E; eu. Qed.

Lemma date_enc_dec d : in32 d = true -> enc_date (fst (dec_date d)) = d.
Proof.
  intro H. rewrite enc_date_floor. unfold dec_date. cbn [fst]. consts.
  replace (d * 86400 / 86400) with d by eu. now apply i32_id.
Qed.
Lemma date_dec_enc s : in32 (s / DAY) = true -> dec_date (enc_date s) = (s / DAY * DAY, 0).
Proof. intro H. rewrite enc_date_floor, i32_id by assumption. reflexivity. Qed.

(* ---- time of day -------------------------------------------------------------- *)
Lemma epoch_add_floor d : epoch_add d = (d / E9, d mod E9).
Proof. unfold epoch_add. consts. cbv zeta. destruct (Z.rem d 1000000000 <? 0) eqn:E; f_equal; eu. Qed.

Lemma enc_time_flat s n :
  0 <= n -> enc_time s n = (s mod DAY) * E6 + n / E3.
Proof. intro H. unfold enc_time. consts. cbv zeta. eu. Qed.

Lemma time_enc_dec v :
  0 <= v < DAY * E6 -> enc_time (fst (dec_time v)) (snd (dec_time v)) = v.
Proof.
  consts. intro H. unfold dec_time. consts.
  rewrite i64_id by (unfold in64; pows; lia).
  rewrite epoch_add_floor. cbn [fst snd]. consts.
  rewrite enc_time_flat by eu. consts. eu.
Qed.
Lemma time_dec_enc s n :
  time_ok s n = true -> dec_time (enc_time s n) = (s mod DAY, n / E3 * E3).
Proof.
  unfold time_ok. consts. intro H. rewrite enc_time_flat by lia. unfold dec_time. consts.
  rewrite i64_id by (unfold in64; pows; eu).
  rewrite epoch_add_floor. consts. f_equal; eu.
Qed.

(* ---- durations ---------------------------------------------------------------- *)
Lemma dur_enc_dec v : dur_guard v = true -> enc_dur (dec_dur v) = v.
Proof.
  unfold dur_guard, enc_dur, dec_dur. consts. pows. intro H.
  rewrite i64_id by (unfold in64; pows; eu). eu.
Qed.
Lemma dur_enc_in_guard n : in64 n = true -> dur_guard (enc_dur n) = true.
Proof. unfold in64, dur_guard, enc_dur. consts. pows. intro H. eu. Qed.
Lemma dur_dec_enc n : in64 n = true -> dec_dur (enc_dur n) = Z.quot n E3 * E3.
Proof.
  unfold in64, enc_dur, dec_dur. consts. pows. intro H.
  apply i64_id. unfold in64. pows. eu.
Qed.

(* ---- decimal text --------------------------------------------------------- *)
Lemma dig_digit n : is_digit (dig n) = true.
Proof. unfold is_digit, dig. assert (0 <= n mod 10 < 10) by eu. lia. Qed.
Lemma dig_val n : Z.of_N (dig n) - 48 = n mod 10.
Proof. unfold dig. assert (0 <= n mod 10 < 10) by eu. lia. Qed.

Lemma digits_val_app a b : forall acc,
  digits_val acc (a ++ b) = obind (fun v => digits_val v b) (digits_val acc a).
Proof.
  induction a as [|c a IH]; intro acc; cbn [app digits_val obind]; [reflexivity|].
  destruct (is_digit c); [apply IH | reflexivity].
Qed.

Lemma show_fuel_digits k : forall n, forallb is_digit (show_fuel k n) = true.
Proof.
  induction k as [|k IH]; intro n; cbn [show_fuel].
  - cbn. now rewrite dig_digit.
  - destruct (n / 10 =? 0); [cbn; now rewrite dig_digit|].
    rewrite forallb_app, IH. cbn. now rewrite dig_digit.
Qed.
Lemma show_fuel_val k : forall n acc, 0 <= n < 10 ^ Z.of_nat (S k) ->
  digits_val acc (show_fuel k n) = Some (acc * 10 ^ Z.of_nat (length (show_fuel k n)) + n).
Proof.
  induction k as [|k IH]; intros n acc Hn.
  - cbn [show_fuel digits_val length]. rewrite dig_digit, dig_val.
    change (10 ^ Z.of_nat 1) with 10 in *. f_equal. eu.
  - cbn [show_fuel]. destruct (n / 10 =? 0) eqn:E.
    + cbn [digits_val length]. rewrite dig_digit, dig_val. change (10 ^ Z.of_nat 1) with 10. f_equal. eu.
    + rewrite digits_val_app. rewrite IH.
      * cbn [obind digits_val]. rewrite dig_digit, dig_val. f_equal.
        rewrite app_length. cbn [length]. rewrite Nat.add_1_r, Nat2Z.inj_succ, Z.pow_succ_r by lia.
        assert (n = n / 10 * 10 + n mod 10) by eu. lia.
      * rewrite Nat2Z.inj_succ, Z.pow_succ_r in Hn by lia. eu.
Qed.
Lemma show_nat_val n : 0 <= n -> digits_val 0 (show_nat n) = Some n.
Proof.
  intro H. unfold show_nat. rewrite show_fuel_val; [f_equal; lia|].
  split; [assumption|]. destruct (Z.eq_dec n 0) as [->|Hz]; [cbn; lia|].
  assert (Hl : n < 2 ^ Z.succ (Z.log2 n)) by (apply Z.log2_spec; lia).
  assert (0 <= Z.log2 n) by apply Z.log2_nonneg.
  rewrite Nat2Z.inj_succ, Z2Nat.id by assumption.
  eapply Z.lt_le_trans; [exact Hl|]. apply Z.pow_le_mono_l. lia.
Qed.
Lemma show_nat_digits n : forallb is_digit (show_nat n) = true.
Proof. apply show_fuel_digits. Qed.
Lemma show_fuel_nonempty k n : show_fuel k n <> [].
Proof. destruct k; cbn [show_fuel]; [discriminate|]. destruct (_ =? _); [discriminate|]. now destruct (show_fuel k (n / 10)). Qed.

Lemma show_fixed_len k : forall n, length (show_fixed k n) = k.
Proof. induction k as [|k IH]; intro n; cbn [show_fixed]; [reflexivity|]. rewrite app_length, IH. cbn. lia. Qed.
Lemma show_fixed_val k : forall n acc,
  digits_val acc (show_fixed k n) = Some (acc * 10 ^ Z.of_nat k + n mod 10 ^ Z.of_nat k).
Proof.
  induction k as [|k IH]; intros n acc.
  - cbn [show_fixed digits_val]. change (10 ^ Z.of_nat 0) with 1. f_equal. eu.
  - cbn [show_fixed]. rewrite digits_val_app, IH. cbn [obind digits_val]. rewrite dig_digit, dig_val. f_equal.
    rewrite Nat2Z.inj_succ, Z.pow_succ_r by lia.
    assert (Hp : 0 < 10 ^ Z.of_nat k) by (apply Z.pow_pos_nonneg; lia).
    set (p := 10 ^ Z.of_nat k) in *.
    rewrite Z.rem_mul_r by lia. ring.
Qed.

Lemma split_dot_digits a b :
  forallb is_digit a = true -> split_dot (a ++ 46%N :: b) = (a, Some b).
Proof.
  induction a as [|c a IH]; intro H; cbn [app split_dot].
  - reflexivity.
  - cbn [forallb] in H. apply andb_true_iff in H as [Hc Ha].
    assert ((c =? 46)%N = false) as -> by (unfold is_digit in Hc; lia).
    now rewrite IH.
Qed.
Lemma pad0_full n s : length s = n -> pad0 n s = s.
Proof. revert s; induction n as [|n IH]; intros [|c s] H; cbn in *; try discriminate; try reflexivity. f_equal. apply IH. lia. Qed.
Lemma skipn_full {A} n (s : list A) : length s = n -> skipn n s = [].
Proof. intros <-. apply skipn_all. Qed.

Lemma parse_udec_fmt a :
  0 <= a -> SC <> O ->
  parse_udec (show_nat (a / P10 SC) ++ 46%N :: show_fixed SC (a mod P10 SC)) = Some a.
Proof.
  intros Ha Hsc. unfold parse_udec.
  rewrite split_dot_digits by apply show_nat_digits.
  assert (Hp : 0 < P10 SC) by (apply Z.pow_pos_nonneg; lia).
  destruct (length (show_nat (a / P10 SC)) + length (show_fixed SC (a mod P10 SC)))%nat eqn:L.
  - exfalso. apply Nat.eq_add_0 in L as [L _]. apply length_zero_iff_nil in L.
    now apply show_fuel_nonempty in L.
  - rewrite show_nat_val by (apply Z.div_pos; lia).
    rewrite pad0_full by apply show_fixed_len.
    rewrite skipn_full by apply show_fixed_len.
    rewrite show_fixed_val. cbn [digits_val length]. cbn [Z.of_nat]. rewrite andb_false_l.
    f_equal. fold (P10 SC). rewrite Z.mod_mod by lia. eu.
Qed.

Lemma first_digit_not_sign k n r c t :
  show_fuel k n ++ r = c :: t -> c <> 45%N /\ c <> 43%N.
Proof.
  intro H. pose proof (show_fuel_digits k n) as D. pose proof (show_fuel_nonempty k n) as NE.
  destruct (show_fuel k n) as [|d ds]; [contradiction|]. cbn in H. inversion H; subst.
  cbn in D. apply andb_true_iff in D as [D _]. unfold is_digit in D. lia.
Qed.

Lemma parse_fmt n : dec_fits n = true -> SC <> O -> parse_dec (fmt_dec n) = Some n.
Proof.
  intros Hf Hsc. unfold fmt_dec, parse_dec.
  destruct SC as [|sc] eqn:ESC; [contradiction|]. rewrite <- ESC in *.
  destruct (n <? 0) eqn:Neg.
  - cbn [app]. rewrite parse_udec_fmt by lia. cbn [option_map].
    replace (- Z.abs n) with n by lia. now rewrite Hf.
  - cbn [app].
    destruct (show_nat (Z.abs n / P10 SC) ++ 46%N :: show_fixed SC (Z.abs n mod P10 SC)) as [|c t] eqn:E.
    + exfalso. destruct (show_nat (Z.abs n / P10 SC)) eqn:E2; [now apply show_fuel_nonempty in E2 | discriminate].
    + pose proof (first_digit_not_sign _ _ _ _ _ E) as [N1 N2].
      assert (R : (match c with 45%N => option_map Z.opp (parse_udec t) | 43%N => parse_udec t | _ => parse_udec (c :: t) end)
                  = parse_udec (c :: t)).
      { destruct c as [|q]; [reflexivity|].
        repeat (destruct q as [q|q|]; try reflexivity;
                try (exfalso; apply N1; reflexivity); try (exfalso; apply N2; reflexivity)). }
      rewrite R, <- E, parse_udec_fmt by lia.
      replace (Z.abs n) with n by lia. now rewrite Hf.
Qed.

(* ---- list combinators ------------------------------------------------------- *)
Lemma mapM_cons {A B} (f : A -> option B) a t :
  mapM f (a :: t) = match f a, mapM f t with Some b, Some bt => Some (b :: bt) | _, _ => None end.
Proof. reflexivity. Qed.
Lemma zipM_cons {A B C} (f : A -> B -> option C) a la b lb :
  zipM f (a :: la) (b :: lb) =
  match f a b, zipM f la lb with Some c, Some cs => Some (c :: cs) | _, _ => None end.
Proof. reflexivity. Qed.

Lemma mapM_round {A B C} (f : A -> option B) (g : B -> option C) (h : A -> C) (ok : A -> bool) l :
  (forall a, ok a = true -> exists b, f a = Some b /\ g b = Some (h a)) ->
  forallb ok l = true -> exists bs, mapM f l = Some bs /\ mapM g bs = Some (map h l).
Proof.
  intros Hf. induction l as [|a l IH]; intro H.
  - exists []. split; reflexivity.
  - cbn [forallb] in H. apply andb_true_iff in H as [Ha Hl].
    destruct (Hf a Ha) as (b & Eb & Gb). destruct (IH Hl) as (bs & Ebs & Gbs).
    exists (b :: bs). rewrite !mapM_cons, Eb, Ebs, Gb, Gbs. split; reflexivity.
Qed.

(* the same when the second pass must give back the first list *)
Lemma mapM_back {A B} (f : A -> option B) (g : B -> option A) (ok : A -> bool) l :
  (forall a, ok a = true -> exists b, f a = Some b /\ g b = Some a) ->
  forallb ok l = true -> exists bs, mapM f l = Some bs /\ mapM g bs = Some l.
Proof.
  intros Hf H. destruct (mapM_round f g (fun a => a) ok l Hf H) as (bs & E & G).
  exists bs. now rewrite map_id in G.
Qed.

(* ---- induction over field types ----------------------------------------------- *)
Section ty_ind2.
  Variable P : ty -> Prop.
  Hypothesis HInt : forall g a, P (TInt g a).
  Hypothesis HFlt : forall b, P (TFlt b).
  Hypothesis HBool : P TBool.
  Hypothesis HStr : forall k, P (TStr k).
  Hypothesis HBin : forall k, P (TBin k).
  Hypothesis HDate : P TDate.
  Hypothesis HTs : forall u z, P (TTs u z).
  Hypothesis HTime : P TTime.
  Hypothesis HDur : P TDur.
  Hypothesis HDec : P TDec.
  Hypothesis HPtr : forall t, P t -> P (TPtr t).
  Hypothesis HList : forall t, P t -> P (TList t).
  Hypothesis HMap : forall k v, P k -> P v -> P (TMap k v).
  Hypothesis HStruct : forall fs, Forall P fs -> P (TStruct fs).
  Hypothesis HNamed : forall m t, P t -> P (TNamed m t).
  Fixpoint ty_ind2 (t : ty) : P t :=
    match t with
    | TInt g a => HInt g a | TFlt b => HFlt b | TBool => HBool | TStr k => HStr k | TBin k => HBin k
    | TDate => HDate | TTs u z => HTs u z | TTime => HTime | TDur => HDur | TDec => HDec
    | TPtr t' => HPtr t' (ty_ind2 t')
    | TList t' => HList t' (ty_ind2 t')
    | TMap k v => HMap k v (ty_ind2 k) (ty_ind2 v)
    | TStruct fs =>
        HStruct fs ((fix go (fs : list ty) : Forall P fs :=
                       match fs with
                       | [] => Forall_nil P
                       | t' :: r => Forall_cons t' (ty_ind2 t') (go r)
                       end) fs)
    | TNamed m t' => HNamed m t' (ty_ind2 t')
    end.
End ty_ind2.

(* ---- Go value -> wire -> Go value ------------------------------------------------ *)
Definition g2w_ok (t : ty) : Prop :=
  ty_ok t = true -> forall x, val_ok t x = true ->
  exists w, enc t x = Some w /\ dec t w = Some (trunc t x)
            /\ slot zero dec t w = Some (trunc t x)
            /\ (is_ptr t = false -> w <> WNull).

Ltac scalar_case :=
  intros Hty x Hv; destruct x; cbn [val_ok] in Hv; try discriminate Hv.
Ltac done_scalar := repeat split; try reflexivity; try (intros _; discriminate).

Lemma slot_nonnull d t w : w <> WNull -> slot d dec t w = dec t w.
Proof. destruct w; intro H; try reflexivity. contradiction. Qed.

Lemma named_ok_not_ptr t : named_enc_ok t = true -> is_ptr t = false.
Proof. destruct t; try discriminate; reflexivity. Qed.
Lemma slot_named m t w : slot zero dec (TNamed m t) w = slot zero dec t w.
Proof. destruct w; reflexivity. Qed.

Lemma g2w_all t : g2w_ok t.
Proof.
  induction t using ty_ind2; unfold g2w_ok.
  - (* int *) scalar_case. apply andb_true_iff in Hv as [Hg Ha].
    exists (WInt (enc_int g a z)). cbn [enc dec trunc slot]. rewrite int_dec_enc by assumption. done_scalar.
  - scalar_case. exists (WFlt b0). cbn [enc dec trunc slot]. done_scalar.
  - scalar_case. exists (WBool b). cbn [enc dec trunc slot]. done_scalar.
  - (* str *) scalar_case. exists (WBytes b). cbn [enc dec trunc slot]. done_scalar.
  - (* bin *) scalar_case. exists (WBytes b). cbn [enc dec trunc slot]. rewrite Hv. done_scalar.
  - (* date *) scalar_case. apply andb_true_iff in Hv as [Hn Hr].
    exists (WInt (enc_date sec)). cbn [enc dec trunc slot]. rewrite date_dec_enc by assumption. unfold tm. cbn [fst snd]. done_scalar.
  - (* ts *) scalar_case. apply andb_true_iff in Hv as [Hn Hr].
    exists (WInt (enc_ts u sec ns)). cbn [enc dec trunc slot]. rewrite ts_dec_enc_u by assumption. unfold tm. cbn [fst snd]. done_scalar.
  - (* time *) scalar_case.
    exists (WInt (enc_time sec ns)). cbn [enc dec trunc slot]. rewrite time_dec_enc by assumption. unfold tm. cbn [fst snd]. done_scalar.
  - (* dur *) scalar_case.
    exists (WInt (enc_dur ns)). cbn [enc dec trunc slot]. rewrite dur_dec_enc by assumption. done_scalar.
  - (* dec *) scalar_case. apply andb_true_iff in Hv as [_ Hp].
    destruct (parse_dec b) as [n|] eqn:E; [|discriminate].
    exists (WInt n). cbn [enc dec trunc slot]. rewrite E. cbn [option_map]. done_scalar.
  - (* ptr *) intros Hty x Hv. cbn [ty_ok] in Hty. apply andb_true_iff in Hty as [Hnp Hty].
    apply negb_true_iff in Hnp.
    destruct x; cbn [val_ok] in Hv; try discriminate Hv.
    + exists WNull. cbn [enc dec trunc slot zero]. repeat split; try reflexivity. intro; discriminate.
    + destruct (IHt Hty x Hv) as (w & E & D & _ & NN). specialize (NN Hnp).
      exists w. cbn [enc trunc]. split; [exact E|].
      assert (Dp : dec (TPtr t) w = Some (GPtr (trunc t x))).
      { destruct w; try contradiction; cbn [dec]; rewrite D; reflexivity. }
      split; [exact Dp|]. split; [now rewrite slot_nonnull|]. intro; discriminate.
  - (* list *) intros Hty x Hv. cbn [ty_ok] in Hty.
    destruct x; cbn [val_ok] in Hv; try discriminate Hv.
    destruct (mapM_round (enc t) (slot zero dec t) (trunc t) (val_ok t) l) as (ws & E & D); [|exact Hv|].
    { intros a Ha. destruct (IHt Hty a Ha) as (w & E & _ & S & _). now exists w. }
    exists (WList ws). cbn [enc dec trunc slot]. rewrite E. cbn [option_map dec]. rewrite D.
    repeat split; try reflexivity. intros _; discriminate.
  - (* map *) intros Hty x Hv. cbn [ty_ok] in Hty.
    apply andb_true_iff in Hty as [Hty Hv2]. apply andb_true_iff in Hty as [Hkp Hk2].
    apply negb_true_iff in Hkp.
    destruct x; cbn [val_ok] in Hv; try discriminate Hv.
    destruct (mapM_round (pairM (enc t1) (enc t2)) (pairM (dec t1) (slot zero dec t2))
                (fun p => (trunc t1 (fst p), trunc t2 (snd p)))
                (fun p => val_ok t1 (fst p) && val_ok t2 (snd p)) l) as (ws & E & D); [|exact Hv|].
    { intros [a b] Hab. cbn [fst snd] in *. apply andb_true_iff in Hab as [Ha Hb].
      destruct (IHt1 Hk2 a Ha) as (wa & Ea & Da & _ & _).
      destruct (IHt2 Hv2 b Hb) as (wb & Eb & _ & Sb & _).
      exists (wa, wb). unfold pairM. cbn [fst snd]. rewrite Ea, Eb, Da, Sb.
      split; reflexivity. }
    exists (WMap ws). cbn [enc dec trunc slot]. rewrite E. cbn [option_map dec]. rewrite D.
    repeat split; try reflexivity. intros _; discriminate.
  - (* struct *) intros Hty x Hv. cbn [ty_ok] in Hty.
    destruct x; cbn [val_ok] in Hv; try discriminate Hv.
    assert (R : exists ws, zipM enc fs l = Some ws /\ zipM (slot zero dec) fs ws = Some (zip_map trunc fs l)).
    { revert l Hv. induction H as [|t fs Ht Hfs IH]; intros l Hv.
      - destruct l; [|discriminate Hv]. exists []. split; reflexivity.
      - destruct l as [|x l]; [discriminate Hv|].
        cbn [forallb] in Hty. apply andb_true_iff in Hty as [Hty1 Hty2].
        change (val_ok t x && zip_all val_ok fs l = true) in Hv. apply andb_true_iff in Hv as [Hv1 Hv2].
        destruct (Ht Hty1 x Hv1) as (w & E & _ & S & _).
        destruct (IH Hty2 l Hv2) as (ws & Es & Ss).
        exists (w :: ws). rewrite !zipM_cons, E, Es, S, Ss. split; reflexivity. }
    destruct R as (ws & E & D).
    exists (WStruct ws). cbn [enc dec trunc slot]. rewrite E. cbn [option_map dec]. rewrite D.
    repeat split; try reflexivity. intros _; discriminate.
  - (* named *) intros Hty x Hv. cbn [ty_ok] in Hty. apply andb_true_iff in Hty as [Hn Hty].
    cbn [val_ok] in Hv.
    destruct (IHt Hty x Hv) as (w & E & D & S & NN). specialize (NN (named_ok_not_ptr _ Hn)).
    exists w. rewrite slot_named. cbn [enc dec trunc]. rewrite Hn.
    repeat split; try assumption. intros _. exact NN.
Qed.

(* ---- wire value -> Go value -> wire value ---------------------------------------- *)
Definition w2g_ok (t : ty) : Prop :=
  ty_ok t = true -> forall w, wire_ok t w = true ->
  (exists x, dec t w = Some x /\ enc t x = Some w)
  /\ (exists x, slot zero dec t w = Some x /\ enc t x = Some w)
  /\ (is_ptr t = false -> w <> WNull).

Lemma SC_pos : SC <> O.
Proof. vm_compute. discriminate. Qed.

Ltac wscalar := intros Hty w Hw; destruct w; cbn [wire_ok] in Hw; try discriminate Hw.
Ltac both X := (split; [|split]; [exists X | exists X | intros _; discriminate]); cbn [enc dec slot].

Lemma w2g_all t : w2g_ok t.
Proof.
  induction t using ty_ind2; unfold w2g_ok.
  - (* int *) wscalar. apply andb_true_iff in Hw as [Hg Ha].
    both (GInt (dec_int g a z)); rewrite int_enc_dec by assumption; split; reflexivity.
  - wscalar. both (GFlt b0); split; reflexivity.
  - wscalar. both (GBool b); split; reflexivity.
  - wscalar. both (GBytes false b); split; reflexivity.
  - wscalar. both (GBytes false b); rewrite Hw; split; reflexivity.
  - (* date *) wscalar. both (tm (dec_date z)); unfold tm; cbn [enc]; rewrite date_enc_dec by assumption; split; reflexivity.
  - (* ts *) wscalar.
    destruct (ts_enc_dec_u u z0 Hw) as [E _].
    both (tm (dec_ts u z0)); unfold tm; cbn [enc]; rewrite E; split; reflexivity.
  - (* time *) wscalar. assert (R : 0 <= z < DAY * E6) by lia.
    both (tm (dec_time z)); unfold tm; cbn [enc]; rewrite time_enc_dec by assumption; split; reflexivity.
  - (* dur *) wscalar. both (GDur (dec_dur z)); rewrite dur_enc_dec by assumption; split; reflexivity.
  - (* dec *) wscalar.
    both (GBytes false (fmt_dec z)); rewrite parse_fmt by (assumption || apply SC_pos); split; reflexivity.
  - (* ptr *) intros Hty w Hw. cbn [ty_ok] in Hty. apply andb_true_iff in Hty as [Hnp Hty].
    apply negb_true_iff in Hnp.
    destruct (match w with WNull => true | _ => false end) eqn:Nl.
    + destruct w; try discriminate Nl.
      split; [|split]; [exists GNil | exists GNil | intro; discriminate]; split; reflexivity.
    + assert (Hw' : wire_ok t w = true) by (destruct w; try discriminate Nl; exact Hw).
      destruct (IHt Hty w Hw') as ((x & D & E) & _ & _).
      assert (Dp : dec (TPtr t) w = Some (GPtr x)).
      { destruct w; try discriminate Nl; cbn [dec]; rewrite D; reflexivity. }
      split; [|split]; [exists (GPtr x) | exists (GPtr x) | intro; discriminate]; cbn [enc]; split; try assumption.
      rewrite slot_nonnull; [assumption | intro; subst; discriminate].
  - (* list *) intros Hty w Hw. cbn [ty_ok] in Hty.
    destruct w; cbn [wire_ok] in Hw; try discriminate Hw.
    destruct (mapM_back (slot zero dec t) (enc t) (wire_ok t) l) as (xs & D & E); [|exact Hw|].
    { intros a Ha. destruct (IHt Hty a Ha) as (_ & S & _). exact S. }
    split; [|split]; [exists (GList false xs) | exists (GList false xs) | intros _; discriminate];
      cbn [enc dec slot]; rewrite D; cbn [option_map enc]; rewrite E; split; reflexivity.
  - (* map *) intros Hty w Hw. cbn [ty_ok] in Hty.
    apply andb_true_iff in Hty as [Hty Hv2]. apply andb_true_iff in Hty as [Hkp Hk2].
    apply negb_true_iff in Hkp.
    destruct w; cbn [wire_ok] in Hw; try discriminate Hw.
    destruct (mapM_back (pairM (dec t1) (slot zero dec t2)) (pairM (enc t1) (enc t2))
                (fun p => wire_ok t1 (fst p) && wire_ok t2 (snd p)) l) as (xs & D & E); [|exact Hw|].
    { intros [a b] Hab. cbn [fst snd] in *. apply andb_true_iff in Hab as [Ha Hb].
      destruct (IHt1 Hk2 a Ha) as ((xa & Da & Ea) & _ & _).
      destruct (IHt2 Hv2 b Hb) as (_ & (xb & Sb & Eb) & _).
      exists (xa, xb). unfold pairM. cbn [fst snd]. rewrite Da, Sb, Ea, Eb.
      split; reflexivity. }
    split; [|split]; [exists (GMap false xs) | exists (GMap false xs) | intros _; discriminate];
      cbn [enc dec slot]; rewrite D; cbn [option_map enc]; rewrite E; split; reflexivity.
  - (* struct *) intros Hty w Hw. cbn [ty_ok] in Hty.
    destruct w; cbn [wire_ok] in Hw; try discriminate Hw.
    assert (R : exists xs, zipM (slot zero dec) fs l = Some xs /\ zipM enc fs xs = Some l).
    { revert l Hw. induction H as [|t fs Ht Hfs IH]; intros l Hw.
      - destruct l; [|discriminate Hw]. exists []. split; reflexivity.
      - destruct l as [|w l]; [discriminate Hw|].
        cbn [forallb] in Hty. apply andb_true_iff in Hty as [Hty1 Hty2].
        change (wire_ok t w && zip_all wire_ok fs l = true) in Hw. apply andb_true_iff in Hw as [Hw1 Hw2].
        destruct (Ht Hty1 w Hw1) as (_ & (x & S & E) & _).
        destruct (IH Hty2 l Hw2) as (xs & Ss & Es).
        exists (x :: xs). rewrite !zipM_cons, S, Ss, E, Es. split; reflexivity. }
    destruct R as (xs & D & E).
    split; [|split]; [exists (GStruct xs) | exists (GStruct xs) | intros _; discriminate];
      cbn [enc dec slot]; rewrite D; cbn [option_map enc]; rewrite E; split; reflexivity.
  - (* named *) intros Hty w Hw. cbn [ty_ok] in Hty. apply andb_true_iff in Hty as [Hn Hty].
    cbn [wire_ok] in Hw.
    destruct (IHt Hty w Hw) as ((x & D & E) & (x' & S & E') & NN). specialize (NN (named_ok_not_ptr _ Hn)).
    split; [|split]; [exists x | exists x' | intros _; exact NN]; rewrite ?slot_named; cbn [enc dec]; rewrite Hn;
      split; assumption.
Qed.

(* ---- the two round trips, as equations --------------------------------------------- *)
Lemma dec_enc_eq t x :
  ty_ok t = true -> val_ok t x = true -> obind (dec t) (enc t x) = Some (trunc t x).
Proof. intros Ht Hv. destruct (g2w_all t Ht x Hv) as (w & E & D & _). now rewrite E. Qed.

Lemma enc_dec_eq t w :
  ty_ok t = true -> wire_ok t w = true -> obind (enc t) (dec t w) = Some w.
Proof. intros Ht Hw. destruct (w2g_all t Ht w Hw) as ((x & D & E) & _). now rewrite D. Qed.

(* ---- reflexivity of the decidable equalities ---------------------------------------- *)
Lemma leqb_refl {A} (e : A -> A -> bool) l : Forall (fun a => e a a = true) l -> leqb e l l = true.
Proof. induction 1 as [|a l Ha _ IH]; [reflexivity|]. change (e a a && leqb e l l = true). now rewrite Ha, IH. Qed.

Section gv_ind2.
  Variable P : gv -> Prop.
  Hypothesis Hbase : forall x,
    match x with GPtr _ | GList _ _ | GMap _ _ | GStruct _ => False | _ => True end -> P x.
  Hypothesis HPtr : forall v, P v -> P (GPtr v).
  Hypothesis HList : forall np l, Forall P l -> P (GList np l).
  Hypothesis HMap : forall np l, Forall (fun p => P (fst p) /\ P (snd p)) l -> P (GMap np l).
  Hypothesis HStruct : forall l, Forall P l -> P (GStruct l).
  Fixpoint gv_ind2 (x : gv) : P x :=
    match x with
    | GInt z => Hbase (GInt z) I | GFlt b => Hbase (GFlt b) I | GBool b => Hbase (GBool b) I
    | GBytes n b => Hbase (GBytes n b) I | GTime s n => Hbase (GTime s n) I | GDur n => Hbase (GDur n) I
    | GNil => Hbase GNil I
    | GPtr v => HPtr v (gv_ind2 v)
    | GList np l => HList np l ((fix go (l : list gv) : Forall P l :=
        match l with [] => Forall_nil P | a :: r => Forall_cons a (gv_ind2 a) (go r) end) l)
    | GMap np l => HMap np l ((fix go (l : list (gv * gv)) : Forall (fun p => P (fst p) /\ P (snd p)) l :=
        match l with
        | [] => Forall_nil _
        | (a, b) :: r => Forall_cons (a, b) (conj (gv_ind2 a) (gv_ind2 b)) (go r)
        end) l)
    | GStruct l => HStruct l ((fix go (l : list gv) : Forall P l :=
        match l with [] => Forall_nil P | a :: r => Forall_cons a (gv_ind2 a) (go r) end) l)
    end.
End gv_ind2.

Section wv_ind2.
  Variable P : wv -> Prop.
  Hypothesis Hbase : forall x,
    match x with WList _ | WMap _ | WStruct _ => False | _ => True end -> P x.
  Hypothesis HList : forall l, Forall P l -> P (WList l).
  Hypothesis HMap : forall l, Forall (fun p => P (fst p) /\ P (snd p)) l -> P (WMap l).
  Hypothesis HStruct : forall l, Forall P l -> P (WStruct l).
  Fixpoint wv_ind2 (x : wv) : P x :=
    match x with
    | WInt z => Hbase (WInt z) I | WFlt b => Hbase (WFlt b) I | WBool b => Hbase (WBool b) I
    | WBytes b => Hbase (WBytes b) I | WNull => Hbase WNull I
    | WList l => HList l ((fix go (l : list wv) : Forall P l :=
        match l with [] => Forall_nil P | a :: r => Forall_cons a (wv_ind2 a) (go r) end) l)
    | WMap l => HMap l ((fix go (l : list (wv * wv)) : Forall (fun p => P (fst p) /\ P (snd p)) l :=
        match l with
        | [] => Forall_nil _
        | (a, b) :: r => Forall_cons (a, b) (conj (wv_ind2 a) (wv_ind2 b)) (go r)
        end) l)
    | WStruct l => HStruct l ((fix go (l : list wv) : Forall P l :=
        match l with [] => Forall_nil P | a :: r => Forall_cons a (wv_ind2 a) (go r) end) l)
    end.
End wv_ind2.

Section aty_ind2.
  Variable P : aty -> Prop.
  Hypothesis Hbase : forall x,
    match x with AList _ | AMap _ _ | AStruct _ => False | _ => True end -> P x.
  Hypothesis HList : forall e, P e -> P (AList e).
  Hypothesis HMap : forall k v, P k -> P v -> P (AMap k v).
  Hypothesis HStruct : forall l, Forall (fun p => P (fst p)) l -> P (AStruct l).
  Fixpoint aty_ind2 (x : aty) : P x :=
    match x with
    | AInt k => Hbase (AInt k) I | AF64 => Hbase AF64 I | AF32 => Hbase AF32 I | ABool => Hbase ABool I
    | AUtf8 => Hbase AUtf8 I | ALUtf8 => Hbase ALUtf8 I | ADict => Hbase ADict I | ABin => Hbase ABin I
    | ALBin => Hbase ALBin I | AFix n => Hbase (AFix n) I | ADate32 => Hbase ADate32 I
    | ATs u z => Hbase (ATs u z) I | ATime64us => Hbase ATime64us I | ADurUs => Hbase ADurUs I
    | ADec p s => Hbase (ADec p s) I
    | AList e => HList e (aty_ind2 e)
    | AMap k v => HMap k v (aty_ind2 k) (aty_ind2 v)
    | AStruct l => HStruct l ((fix go (l : list (aty * bool)) : Forall (fun p => P (fst p)) l :=
        match l with
        | [] => Forall_nil _
        | (a, b) :: r => Forall_cons (a, b) (aty_ind2 a) (go r)
        end) l)
    end.
End aty_ind2.

Lemma beq_refl b : Bool.eqb b b = true. Proof. now destruct b. Qed.

Lemma gv_eqb_refl x : gv_eqb x x = true.
Proof.
  induction x using gv_ind2.
  - destruct x; try contradiction; cbn [gv_eqb];
      rewrite ?Z.eqb_refl, ?beq_refl, ?beqb_refl; reflexivity.
  - exact IHx.
  - cbn [gv_eqb]. rewrite beq_refl, leqb_refl; [reflexivity | assumption].
  - cbn [gv_eqb]. rewrite beq_refl, leqb_refl; [reflexivity|].
    eapply Forall_impl; [|exact H]. intros p [A B]. cbn beta. now rewrite A, B.
  - cbn [gv_eqb]. now apply leqb_refl.
Qed.
Lemma wv_eqb_refl x : wv_eqb x x = true.
Proof.
  induction x using wv_ind2.
  - destruct x; try contradiction; cbn [wv_eqb];
      rewrite ?Z.eqb_refl, ?beq_refl, ?beqb_refl; reflexivity.
  - cbn [wv_eqb]. now apply leqb_refl.
  - cbn [wv_eqb]. apply leqb_refl.
    eapply Forall_impl; [|exact H]. intros p [A B]. cbn beta. now rewrite A, B.
  - cbn [wv_eqb]. now apply leqb_refl.
Qed.
Lemma aty_eqb_refl x : aty_eqb x x = true.
Proof.
  induction x using aty_ind2.
  - destruct x; try contradiction; cbn [aty_eqb]; rewrite ?Z.eqb_refl, ?beq_refl; try reflexivity.
    + unfold ity_eqb. now rewrite Z.eqb_refl, beq_refl.
    + now destruct u.
  - exact IHx.
  - cbn [aty_eqb]. now rewrite IHx1, IHx2.
  - cbn [aty_eqb]. apply leqb_refl.
    eapply Forall_impl; [|exact H]. intros p A. cbn beta. now rewrite A, beq_refl.
Qed.

(* ---- the decidable form of the property on the model ---------------------------------- *)
Lemma model_meets_spec i : input_ok i = true -> spec_ok i (model i) = true.
Proof.
  destruct i as [t x | t w]; unfold input_ok, input_ty, spec_ok, model; cbn [o_schema o_schema2 o_schema3 o_go o_wire];
    intro Ht; rewrite !aty_eqb_refl; cbn [andb].
  - destruct (val_ok t x) eqn:Hv; [|reflexivity].
    rewrite dec_enc_eq by assumption. cbn [opt_eqb]. apply gv_eqb_refl.
  - destruct (wire_ok t w) eqn:Hw; [|reflexivity].
    rewrite enc_dec_eq by assumption. cbn [opt_eqb]. apply wv_eqb_refl.
Qed.

(* the schema is a function of the field type alone: two derivations agree *)
Lemma schema_fun t1 t2 : t1 = t2 -> arrow_of t1 = arrow_of t2.
Proof. now intros ->. Qed.

(* ---- named types: the method set never reaches the wire ------------------------------- *)
Lemma named_ignores_methods m m' t :
  (forall x, enc (TNamed m t) x = enc (TNamed m' t) x)
  /\ (forall w, dec (TNamed m t) w = dec (TNamed m' t) w)
  /\ (forall x, trunc (TNamed m t) x = trunc (TNamed m' t) x)
  /\ (forall x, val_ok (TNamed m t) x = val_ok (TNamed m' t) x)
  /\ arrow_of (TNamed m t) = arrow_of (TNamed m' t)
  /\ ty_ok (TNamed m t) = ty_ok (TNamed m' t).
Proof. repeat split; reflexivity. Qed.

Lemma named_as_underlying m t :
  named_enc_ok t = true ->
  (forall x, enc (TNamed m t) x = enc t x) /\ (forall w, dec (TNamed m t) w = dec t w)
  /\ (forall x, trunc (TNamed m t) x = trunc t x) /\ arrow_of (TNamed m t) = arrow_of t.
Proof. intro H. repeat split; try reflexivity. intro x. cbn [enc]. now rewrite H. Qed.

(* repaired by d741a8f: before it the serializer refused every value of a named
   integer / float / bool and of a named []byte in a binary column, although the
   schema derivation and the decoder accepted the type; a named time / duration
   field was written and then could not be decoded *)
Lemma named_kind_refused_legacy m :
  (forall g a z, enc_named_legacy (TInt g a) (GInt z) = None)
  /\ (forall b, enc_named_legacy TBool (GBool b) = None)
  /\ (forall is64 b, enc_named_legacy (TFlt is64) (GFlt b) = None)
  /\ (forall np b, enc_named_legacy (TBin BBin) (GBytes np b) = None)
  /\ (forall w, dec_named_legacy TDur w = None)
  /\ (ty_ok (TNamed m (TInt I32 I32)) = true /\ val_ok (TNamed m (TInt I32 I32)) (GInt 5) = true
      /\ enc_named_legacy (TInt I32 I32) (GInt 5) = None
      /\ obind (dec (TNamed m (TInt I32 I32))) (enc (TNamed m (TInt I32 I32)) (GInt 5)) = Some (GInt 5))
  /\ (val_ok (TNamed m TDur) (GDur 7000) = true
      /\ obind (dec_named_legacy TDur) (enc_named_legacy TDur (GDur 7000)) = None
      /\ obind (dec (TNamed m TDur)) (enc (TNamed m TDur) (GDur 7000)) = Some (GDur 7000)).
Proof. repeat split; vm_compute; reflexivity. Qed.

(* ---- the two defects repaired by 6a47532 / 98f5cb3, with the old behaviour ----------- *)
Definition map_null_ty := TMap (TStr SUtf8) (TPtr (TInt I64 I64)).
Definition map_null_val := GMap false [(GBytes false (str "a"), GNil)].
Lemma map_null_item_legacy_lost :
  ty_ok map_null_ty = true /\ val_ok map_null_ty map_null_val = true /\
  obind (dec_map_legacy (TStr SUtf8) (TPtr (TInt I64 I64))) (enc map_null_ty map_null_val)
  = Some (GMap false [(GBytes false (str "a"), GPtr (GInt 0))]) /\
  obind (dec_map_legacy (TStr SUtf8) (TPtr (TInt I64 I64))) (enc map_null_ty map_null_val)
  <> Some (trunc map_null_ty map_null_val) /\
  obind (dec map_null_ty) (enc map_null_ty map_null_val) = Some (trunc map_null_ty map_null_val).
Proof. repeat split; try (vm_compute; reflexivity). vm_compute. discriminate. Qed.

(* pre-fix encoding ignored the declared timestamp unit *)
Lemma ts_unit_legacy_lost u : u <> UMicro ->
  exists s n, val_ok (TTs u false) (GTime s n) = true /\
  dec_ts u (enc_ts_legacy u s n) <> (s, ts_trunc u n) /\
  dec_ts u (enc_ts u s n) = (s, ts_trunc u n).
Proof.
  intro H. exists 1700000000, 123456789.
  destruct u; try contradiction; (split; [reflexivity|]); split; vm_compute; (discriminate || reflexivity).
Qed.

(* a duration column value beyond what time.Duration holds does not come back *)
Lemma dur_beyond_guard_lost : exists v, in64 v = true /\ dur_guard v = false /\ enc_dur (dec_dur v) <> v.
Proof. exists (2 ^ 63 - 1). repeat split; vm_compute; discriminate. Qed.

(* ---- the two earlier repaired defects (b1d6d23 / 5236ebf), with the old arithmetic --------------------------------- *)
Lemma ts_legacy_bad :
  exists v, in64 v = true /\
    unix_micro (fst (dec_ts_legacy UMicro v)) (snd (dec_ts_legacy UMicro v)) <> v.
Proof. exists (-62135596800000000). split; vm_compute; [reflexivity | discriminate]. Qed.

Lemma date_legacy_bad :
  (exists s n, time_ok s n = true /\ in32 (s / DAY) = true /\ enc_date_legacy s n <> s / DAY)
  /\ enc_date_legacy (-43200) 0 = 0 /\ enc_date (-43200) = -1
  /\ enc_date_legacy (-62135596800) 0 = -106751 /\ enc_date (-62135596800) = -719162.
Proof.
  split; [exists (-43200), 0; repeat split; vm_compute; try reflexivity; discriminate|].
  repeat split; vm_compute; reflexivity.
Qed.
