(* Proofs/C32.v — lemmas for the parallel range fetch loop. *)
From VR Require Import Model.C32.
From Coq Require Import ZifyBool ZifyN ZifyNat Lia.
Open Scope nat_scope.
Local Arguments N.eqb : simpl never.
Local Arguments Z.leb : simpl never.
Local Arguments Z.ltb : simpl never.

(* ---- lists -------------------------------------------------------------- *)
Lemma chunks_aux_concat cs : 0 < cs -> forall fuel l, length l <= fuel -> concat (chunks_aux fuel cs l) = l.
Proof.
  intros Hcs fuel; induction fuel as [|f IH]; intros l Hl.
  - destruct l; [reflexivity | cbn [length] in Hl; lia].
  - destruct l as [|x t]; [reflexivity|].
    change (chunks_aux (S f) cs (x :: t)) with (firstn cs (x :: t) :: chunks_aux f cs (skipn cs (x :: t))).
    cbn [concat]. rewrite IH; [apply firstn_skipn|].
    rewrite skipn_length. cbn [length] in *. lia.
Qed.

Lemma chunks_concat cs l : 0 < cs -> concat (chunks cs l) = l.
Proof. intro H. unfold chunks. now apply chunks_aux_concat. Qed.

Lemma set_nth_length {A} i (v : A) l : length (set_nth i v l) = length l.
Proof. revert i; induction l as [|x l IH]; intros [|i]; cbn; try reflexivity. now rewrite IH. Qed.

Lemma nth_set_nth_cases {A} (v d : A) l : forall i j,
  (j = i /\ i < length l /\ nth j (set_nth i v l) d = v) \/ (nth j (set_nth i v l) d = nth j l d /\ (j <> i \/ length l <= i)).
Proof.
  induction l as [|x l IH]; intros i j.
  - right. destruct i; cbn; split; try reflexivity; right; lia.
  - destruct i as [|i], j as [|j]; cbn [set_nth nth length].
    + left. repeat split; lia.
    + right. split; [reflexivity | left; lia].
    + right. split; [reflexivity | left; lia].
    + destruct (IH i j) as [(E & L & H) | (H & D)].
      * left. repeat split; try lia. exact H.
      * right. split; [exact H | lia].
Qed.

Lemma nth_repeat_none {A} n i : nth i (repeat (@None A) n) None = None.
Proof. revert i; induction n as [|n IH]; intros [|i]; cbn; try reflexivity. apply IH. Qed.

Lemma all_some_map_get : forall rs plan,
  length rs = length plan ->
  (forall i d, nth i rs None = Some d -> d = nth i plan []) ->
  forallb is_some rs = true -> map get rs = plan.
Proof.
  induction rs as [|o rs IH]; intros [|p plan] HL HG HA; cbn [length] in HL; try discriminate; [reflexivity|].
  cbn [forallb] in HA. apply andb_true_iff in HA as [Ho Hr].
  destruct o as [d|]; [|discriminate]. cbn [map get].
  rewrite (HG 0 d eq_refl). cbn [nth]. f_equal.
  apply IH; [lia | | exact Hr]. intros i d' H. exact (HG (S i) d' H).
Qed.

Lemma all_done_forallb : forall rs : list (option bytes),
  (forall i, i < length rs -> is_some (nth i rs None) = true) -> forallb is_some rs = true.
Proof.
  induction rs as [|o rs IH]; intro H; [reflexivity|]. cbn [forallb].
  assert (H0 : is_some (nth 0 (o :: rs) None) = true) by (apply H; cbn [length]; lia).
  cbn [nth] in H0. rewrite H0. cbn [andb]. apply IH. intros i Hi. apply (H (S i)). cbn [length]; lia.
Qed.

Definition count_none (rs : list (option bytes)) : nat := length (filter (fun o => negb (is_some o)) rs).

Lemma count_none_repeat k : count_none (repeat None k) = k.
Proof. unfold count_none. induction k as [|k IH]; [reflexivity|]. cbn [repeat filter is_some negb length]. now rewrite IH. Qed.

Lemma count_none_zero rs : count_none rs = 0 -> forallb is_some rs = true.
Proof.
  unfold count_none. induction rs as [|o rs IH]; [reflexivity|]. cbn [filter forallb].
  destruct o; cbn; [exact IH | discriminate].
Qed.

Lemma count_none_set rs : forall i d, i < length rs -> nth i rs None = None ->
  S (count_none (set_nth i (Some d) rs)) = count_none rs.
Proof.
  unfold count_none. induction rs as [|o rs IH]; intros [|i] d Hi Hn; cbn [length] in Hi; try lia.
  - cbn [nth] in Hn. subst o. reflexivity.
  - cbn [nth] in Hn. cbn [set_nth filter]. destruct o; cbn [is_some negb length]; rewrite <- (IH i d) by (lia || exact Hn); reflexivity.
Qed.

Lemma att_eqb_eq a b : att_eqb a b = true <-> a = b.
Proof.
  destruct a as [i h], b as [j k]. unfold att_eqb; cbn [fst snd]. split.
  - intro H. apply andb_true_iff in H as [H1 H2]. apply Nat.eqb_eq in H1. apply Bool.eqb_prop in H2. now subst.
  - intro H. inversion H; subst. now rewrite Nat.eqb_refl, Bool.eqb_reflx.
Qed.

Lemma in_flight_In a l : in_flight a l = true <-> In a l.
Proof.
  unfold in_flight. rewrite existsb_exists. split.
  - intros (x & Hx & E). apply att_eqb_eq in E. now subst.
  - intro H. exists a. split; [exact H | now apply att_eqb_eq].
Qed.

Lemma remove1_length a l : in_flight a l = true -> length (remove1 a l) = pred (length l).
Proof.
  induction l as [|x l IH]; [discriminate|]. cbn [in_flight existsb remove1].
  destruct (att_eqb a x) eqn:E; [reflexivity|]. cbn [orb]. intro H. cbn [length].
  fold (in_flight a l) in H. rewrite IH by exact H. destruct l; [discriminate|]. reflexivity.
Qed.

Lemma remove1_In_other a x l : In x l -> x <> a -> In x (remove1 a l).
Proof.
  induction l as [|y l IH]; [intros []|]. intros [E | H] D; cbn [remove1].
  - subst y. destruct (att_eqb a x) eqn:Q; [apply att_eqb_eq in Q; congruence | now left].
  - destruct (att_eqb a y); [exact H | right; now apply IH].
Qed.

Lemma remove1_subset a x l : In x (remove1 a l) -> In x l.
Proof.
  induction l as [|y l IH]; [intros []|]. cbn [remove1].
  destruct (att_eqb a y); [now right|]. intros [E | H]; [now left | right; now apply IH].
Qed.

Lemma filter_all {A} (f : A -> bool) l : (forall x, f x = true) -> filter f l = l.
Proof. intro H. induction l as [|x l IH]; [reflexivity|]. cbn [filter]. now rewrite H, IH. Qed.

(* ---- the unhedged count -------------------------------------------------- *)
Lemma memb_cons j i h : memb j (i :: h) = (j =? i) || memb j h.
Proof. reflexivity. Qed.

Lemma filter_unhedged_notin i h l :
  ~ In i l -> filter (fun j => negb (memb j (i :: h))) l = filter (fun j => negb (memb j h)) l.
Proof.
  induction l as [|x l IH]; intro H; [reflexivity|]. cbn [filter]. rewrite memb_cons.
  destruct (x =? i) eqn:E; [apply Nat.eqb_eq in E; subst; exfalso; apply H; now left|].
  cbn [orb]. rewrite IH; [reflexivity|]. intro K; apply H; now right.
Qed.

Lemma filter_unhedged_in i h l :
  NoDup l -> In i l -> memb i h = false ->
  S (length (filter (fun j => negb (memb j (i :: h))) l)) = length (filter (fun j => negb (memb j h)) l).
Proof.
  induction l as [|x l IH]; intros ND HI HM; [destruct HI|].
  inversion ND as [|? ? Hx ND']; subst. cbn [filter]. rewrite memb_cons.
  destruct (x =? i) eqn:E.
  - apply Nat.eqb_eq in E; subst x. cbn [orb negb]. rewrite HM. cbn [negb length].
    now rewrite filter_unhedged_notin.
  - cbn [orb]. destruct HI as [HI | HI]; [subst; rewrite Nat.eqb_refl in E; discriminate|].
    destruct (negb (memb x h)); cbn [length]; rewrite <- (IH ND' HI HM); reflexivity.
Qed.

Lemma unhedged_launch n s i : i < n -> memb i (hedged s) = false ->
  S (unhedged n (launch s i)) = unhedged n s.
Proof.
  intros Hi HM. unfold unhedged. cbn [hedged launch].
  apply filter_unhedged_in; [apply seq_NoDup | apply in_seq; lia | exact HM].
Qed.

(* ======================================================================== *)
Section Loop.
  Variable plan : list bytes.
  Variable ans : attempt -> answer.
  Variable slow : st -> nat -> bool.
  Variable hedging : bool.
  Variable maxh : Z.

  Notation n := (length plan).
  Notation hedge_scan := (hedge_scan maxh).
  Notation maybe_hedge := (maybe_hedge plan slow hedging maxh).
  Notation recv_ok := (recv_ok plan slow hedging maxh).
  Notation recv := (recv plan ans slow hedging maxh).
  Notation run := (run plan ans slow hedging maxh).

  Definition live (s : st) : bool := (0 <? remaining s) && (0 <? expected s).

  (* -- what the hedge scan leaves alone -- *)
  Lemma hedge_scan_frame sl : forall idxs s,
    let s' := hedge_scan sl idxs s in
    results s' = results s /\ remaining s' = remaining s /\ ncomp s' = ncomp s /\ first_err s' = first_err s.
  Proof.
    induction idxs as [|i t IH]; intro s; cbn [C32.hedge_scan]; [repeat split|].
    destruct (is_done s i || memb i (hedged s)); [apply IH|].
    destruct (cap_reached maxh s); [repeat split|].
    destruct (sl i); [|apply IH].
    destruct (IH (launch s i)) as (A & B & C & D). cbn [results remaining ncomp first_err launch] in *. now repeat split.
  Qed.

  Lemma maybe_hedge_results s : results (maybe_hedge s) = results s.
  Proof.
    unfold C32.maybe_hedge. destruct (negb hedging); [reflexivity|]. destruct (cap_reached maxh s); [reflexivity|].
    apply hedge_scan_frame.
  Qed.

  Lemma maybe_hedge_remaining s : remaining (maybe_hedge s) = remaining s.
  Proof.
    unfold C32.maybe_hedge. destruct (negb hedging); [reflexivity|]. destruct (cap_reached maxh s); [reflexivity|].
    apply hedge_scan_frame.
  Qed.

  (* -- measure -- *)
  Lemma hedge_scan_measure sl : forall idxs s, (forall i, In i idxs -> i < n) ->
    measure n (hedge_scan sl idxs s) = measure n s.
  Proof.
    induction idxs as [|i t IH]; intros s HI; cbn [C32.hedge_scan]; [reflexivity|].
    assert (HT : forall j, In j t -> j < n) by (intros j Hj; apply HI; now right).
    destruct (is_done s i || memb i (hedged s)) eqn:E; [now apply IH|].
    destruct (cap_reached maxh s); [reflexivity|].
    destruct (sl i); [|now apply IH].
    rewrite IH by exact HT. apply orb_false_iff in E as [_ E].
    unfold measure. rewrite <- (unhedged_launch n s i) by (try exact E; apply HI; now left).
    cbn [expected launch]. lia.
  Qed.

  Lemma maybe_hedge_measure s : measure n (maybe_hedge s) = measure n s.
  Proof.
    unfold C32.maybe_hedge. destruct (negb hedging); [reflexivity|]. destruct (cap_reached maxh s); [reflexivity|].
    apply hedge_scan_measure. intros i Hi. apply in_seq in Hi. unfold nchunks in Hi. lia.
  Qed.

  Lemma recv_measure s a : measure n (recv s a) = measure n s.
  Proof.
    unfold C32.recv. destruct (accept _ _) as [d|].
    - unfold C32.recv_ok.
      set (s2 := if is_done (bump s) (fst a) then bump s else store (bump s) (fst a) d).
      assert (E : measure n s2 = measure n s) by (subst s2; destruct (is_done (bump s) (fst a)); reflexivity).
      destruct (0 <? remaining s2); [rewrite maybe_hedge_measure|]; exact E.
    - unfold recv_err. destruct (is_done s (fst a)); reflexivity.
  Qed.

  Lemma step_measure s a : live s = true -> S (measure n (recv (take_out s a) a)) = measure n s.
  Proof.
    intro L. rewrite recv_measure. unfold live in L. apply andb_true_iff in L as [_ L]. apply Nat.ltb_lt in L.
    unfold measure, unhedged. cbn [expected hedged take_out]. lia.
  Qed.

  (* -- generic invariant rule for the loop -- *)
  Lemma run_inv (P : st -> Prop) :
    (forall s a, P s -> live s = true -> in_flight a (inflight s) = true -> P (recv (take_out s a) a)) ->
    forall sched s, P s ->
    match run sched s with
    | Done s' => P s' /\ live s' = false
    | Waiting s' => P s' /\ live s' = true /\ inflight s' <> []
    | Stuck s' => P s' /\ live s' = true /\ inflight s' = []
    | Desync => True
    end.
  Proof.
    intros Hstep sched; induction sched as [|a t IH]; intros s HP; cbn [C32.run]; fold (live s);
      destruct (live s) eqn:L; cbn [negb]; try (split; [exact HP | reflexivity]);
      destruct (inflight s) as [|x l] eqn:F; try (repeat split; assumption).
    - repeat split; try assumption. rewrite F. discriminate.
    - rewrite <- F. destruct (in_flight a (inflight s)) eqn:I; [|exact Logic.I].
      apply IH. now apply Hstep.
  Qed.

  Lemma run_waiting_measure : forall sched s s',
    run sched s = Waiting s' -> measure n s' + length sched = measure n s.
  Proof.
    induction sched as [|a t IH]; intros s s'; cbn [C32.run]; fold (live s);
      destruct (live s) eqn:L; cbn [negb]; try discriminate;
      destruct (inflight s) as [|x l] eqn:F; try discriminate.
    - intro H; inversion H; subst. cbn [length]. lia.
    - rewrite <- F. destruct (in_flight a (inflight s)); [|discriminate].
      intro H. apply IH in H. rewrite <- (step_measure s a L). cbn [length]. lia.
  Qed.

  (* -- invariant 1: the code's counter is the number of attempts in flight -- *)
  Definition counted (s : st) : Prop := expected s = length (inflight s).

  Lemma hedge_scan_counted sl : forall idxs s, counted s -> counted (hedge_scan sl idxs s).
  Proof.
    induction idxs as [|i t IH]; intros s H; cbn [C32.hedge_scan]; [exact H|].
    destruct (is_done s i || memb i (hedged s)); [now apply IH|].
    destruct (cap_reached maxh s); [exact H|].
    destruct (sl i); [|now apply IH].
    apply IH. unfold counted in *. cbn [expected inflight launch]. rewrite app_length. cbn [length]. lia.
  Qed.

  Lemma maybe_hedge_counted s : counted s -> counted (maybe_hedge s).
  Proof.
    intro H. unfold C32.maybe_hedge. destruct (negb hedging); [exact H|]. destruct (cap_reached maxh s); [exact H|].
    now apply hedge_scan_counted.
  Qed.

  Lemma recv_counted s a : counted s -> counted (recv s a).
  Proof.
    intro H. unfold C32.recv. destruct (accept _ _) as [d|].
    - unfold C32.recv_ok.
      set (s2 := if is_done (bump s) (fst a) then bump s else store (bump s) (fst a) d).
      assert (E : counted s2) by (subst s2; destruct (is_done (bump s) (fst a)); exact H).
      destruct (0 <? remaining s2); [now apply maybe_hedge_counted | exact E].
    - unfold recv_err. destruct (is_done s (fst a)); exact H.
  Qed.

  Lemma step_counted s a : counted s -> live s = true -> in_flight a (inflight s) = true ->
    counted (recv (take_out s a) a).
  Proof.
    intros H L I. apply recv_counted. unfold counted in *. cbn [expected inflight take_out].
    rewrite remove1_length by exact I. now rewrite H.
  Qed.

  Lemma init_counted : counted (init plan).
  Proof. unfold counted, init. cbn [expected inflight]. now rewrite map_length, seq_length. Qed.

  Lemma init_measure : measure n (init plan) = 2 * n.
  Proof.
    unfold measure, unhedged, init, nchunks. cbn [expected hedged].
    rewrite filter_all by reflexivity. rewrite seq_length. lia.
  Qed.

  Lemma never_stuck sched s' : run sched (init plan) <> Stuck s'.
  Proof.
    intro E. pose proof (run_inv counted step_counted sched (init plan) init_counted) as H.
    rewrite E in H. destruct H as (C & L & F). unfold counted in C. rewrite F in C. cbn [length] in C.
    unfold live in L. rewrite C in L. rewrite andb_comm in L. discriminate.
  Qed.

  Lemma waiting_bound sched s' : run sched (init plan) = Waiting s' ->
    length sched < 2 * n /\ inflight s' <> [].
  Proof.
    intro E. pose proof (run_inv counted step_counted sched (init plan) init_counted) as H.
    rewrite E in H. destruct H as (_ & L & F). split; [|exact F].
    apply run_waiting_measure in E. rewrite init_measure in E.
    unfold live in L. apply andb_true_iff in L as [_ L]. apply Nat.ltb_lt in L. unfold measure in E. lia.
  Qed.

  (* -- invariant 2: whatever is stored for chunk i is chunk i -- *)
  Hypothesis Hhonest : honest plan ans.

  Definition good (s : st) : Prop :=
    length (results s) = n /\ forall i d, nth i (results s) None = Some d -> d = nth i plan [].

  Lemma store_good s i d : good s -> d = nth i plan [] -> good (store s i d).
  Proof.
    intros [HL HG] Hd. split; cbn [results store]; [now rewrite set_nth_length|].
    intros j d' H. destruct (nth_set_nth_cases (Some d) None (results s) i j) as [(E & _ & K) | (K & _)]; rewrite K in H.
    - inversion H; subst. reflexivity.
    - now apply HG.
  Qed.

  Lemma recv_good s a : good s -> good (recv s a).
  Proof.
    intro G. unfold C32.recv. destruct (accept _ _) as [d|] eqn:A.
    - apply Hhonest in A. unfold C32.recv_ok.
      set (s2 := if is_done (bump s) (fst a) then bump s else store (bump s) (fst a) d).
      assert (E : good s2) by (subst s2; destruct (is_done (bump s) (fst a)); [exact G | apply store_good; [exact G | exact A]]).
      destruct (0 <? remaining s2); [|exact E].
      unfold good. rewrite maybe_hedge_results. exact E.
    - unfold recv_err. destruct (is_done s (fst a)); exact G.
  Qed.

  Lemma step_good s a : good s -> live s = true -> in_flight a (inflight s) = true -> good (recv (take_out s a) a).
  Proof. intros G _ _. apply recv_good. exact G. Qed.

  Lemma init_good : good (init plan).
  Proof.
    split; cbn [results init]; [apply repeat_length|]. intros i d H. rewrite nth_repeat_none in H. discriminate.
  Qed.

  Lemma good_assemble s : good s -> assemble s = RError \/ assemble s = RBytes (concat plan).
  Proof.
    intros [HL HG]. unfold assemble. destruct (forallb is_some (results s)) eqn:A; [right | now left].
    now rewrite (all_some_map_get _ plan HL HG A).
  Qed.

  Lemma done_exact sched s' : run sched (init plan) = Done s' ->
    assemble s' = RError \/ assemble s' = RBytes (concat plan).
  Proof.
    intro E. pose proof (run_inv good step_good sched (init plan) init_good) as H.
    rewrite E in H. apply good_assemble. apply H.
  Qed.

  (* -- first result per index wins -- *)
  Lemma recv_keeps s a i d : nth i (results s) None = Some d -> nth i (results (recv s a)) None = Some d.
  Proof.
    intro H. unfold C32.recv. destruct (accept _ _) as [d'|].
    - unfold C32.recv_ok.
      set (s2 := if is_done (bump s) (fst a) then bump s else store (bump s) (fst a) d').
      assert (E : nth i (results s2) None = Some d).
      { subst s2. destruct (is_done (bump s) (fst a)) eqn:D; [exact H|]. cbn [results store bump].
        destruct (nth_set_nth_cases (Some d') None (results s) (fst a) i) as [(E & _ & _) | (K & _)]; [|now rewrite K].
        subst i. unfold is_done in D. cbn [results bump] in D. rewrite H in D. discriminate. }
      destruct (0 <? remaining s2); [rewrite maybe_hedge_results|]; exact E.
    - unfold recv_err. destruct (is_done s (fst a)); exact H.
  Qed.

  (* -- invariant 3: when every first request is answered acceptably, every chunk
        is either stored or its first request is still in flight -- *)
  Hypothesis Horig : forall i, i < n -> exists d, accept (want plan i) (ans (i, false)) = Some d.

  Definition covered (s : st) : Prop :=
    counted s /\ length (results s) = n /\ remaining s = count_none (results s)
    /\ (forall a, In a (inflight s) -> fst a < n)
    /\ (forall i, i < n -> is_done s i = true \/ In (i, false) (inflight s)).

  Lemma hedge_scan_covered sl : forall idxs s, (forall i, In i idxs -> i < n) -> covered s -> covered (hedge_scan sl idxs s).
  Proof.
    induction idxs as [|i t IH]; intros s HI H; cbn [C32.hedge_scan]; [exact H|].
    assert (HT : forall j, In j t -> j < n) by (intros j Hj; apply HI; now right).
    destruct (is_done s i || memb i (hedged s)); [now apply IH|].
    destruct (cap_reached maxh s); [exact H|].
    destruct (sl i); [|now apply IH].
    apply IH; [exact HT|]. destruct H as (C & L & R & B & V). unfold covered, counted, is_done in *.
    cbn [expected inflight results remaining launch]. repeat split; try assumption.
    - rewrite app_length. cbn [length]. lia.
    - intros a Ha. apply in_app_or in Ha as [Ha | [Ha | []]]; [now apply B|]. subst a. apply HI. now left.
    - intros j Hj. destruct (V j Hj) as [D | D]; [now left | right; apply in_or_app; now left].
  Qed.

  Lemma maybe_hedge_covered s : covered s -> covered (maybe_hedge s).
  Proof.
    intro H. unfold C32.maybe_hedge. destruct (negb hedging); [exact H|]. destruct (cap_reached maxh s); [exact H|].
    apply hedge_scan_covered; [|exact H]. intros i Hi. apply in_seq in Hi. unfold nchunks in Hi. lia.
  Qed.

  Lemma step_covered s a : covered s -> live s = true -> in_flight a (inflight s) = true ->
    covered (recv (take_out s a) a).
  Proof.
    intros (C & L & R & B & V) LV I.
    assert (Ia : In a (inflight s)) by now apply in_flight_In.
    assert (Ha : fst a < n) by now apply B.
    assert (C0 : counted (take_out s a)).
    { unfold counted in *. cbn [expected inflight take_out]. rewrite remove1_length by exact I. now rewrite C. }
    assert (B0 : forall x, In x (inflight (take_out s a)) -> fst x < n).
    { intros x Hx. apply B. cbn [inflight take_out] in Hx. now apply remove1_subset in Hx. }
    unfold C32.recv. destruct (accept _ _) as [d|] eqn:A.
    - unfold C32.recv_ok.
      set (s0 := take_out s a). set (s1 := bump s0).
      set (s2 := if is_done s1 (fst a) then s1 else store s1 (fst a) d).
      assert (E : covered s2 /\ is_done s2 (fst a) = true /\ (forall j, is_done s j = true -> is_done s2 j = true)
                  /\ inflight s2 = inflight s0).
      { subst s2. destruct (is_done s1 (fst a)) eqn:D.
        - split; [|split; [exact D | split; [intros j Hj; exact Hj | reflexivity]]].
          split; [exact C0 | split; [exact L | split; [exact R | split; [exact B0|]]]].
          intros j Hj. destruct (V j Hj) as [K | K]; [now left|].
          destruct (Nat.eq_dec j (fst a)) as [-> | NE]; [now left|].
          right. cbn [inflight s1 s0 bump take_out]. apply remove1_In_other; [exact K|].
          intro Q. apply NE. now rewrite <- Q.
        - unfold is_done in D. cbn [results s1 s0 bump take_out] in D.
          assert (N0 : nth (fst a) (results s) None = None) by (destruct (nth (fst a) (results s) None); [discriminate | reflexivity]).
          assert (D2 : is_done (store s1 (fst a) d) (fst a) = true).
          { unfold is_done. cbn [results store s1 s0 bump take_out].
            destruct (nth_set_nth_cases (Some d) None (results s) (fst a) (fst a)) as [(_ & _ & K) | (_ & [K | K])];
              [now rewrite K | congruence | lia]. }
          assert (M : forall j, is_done s j = true -> is_done (store s1 (fst a) d) j = true).
          { intros j Hj. unfold is_done in *. cbn [results store s1 s0 bump take_out].
            destruct (nth_set_nth_cases (Some d) None (results s) (fst a) j) as [(_ & _ & K) | (K & _)]; now rewrite K. }
          split; [|split; [exact D2 | split; [exact M | reflexivity]]].
          split; [exact C0 | split; [|split; [|split; [exact B0|]]]]; cbn [results remaining inflight expected store s1 s0 bump take_out].
          + now rewrite set_nth_length.
          + rewrite R. rewrite <- (count_none_set (results s) (fst a) d) by (lia || exact N0). reflexivity.
          + intros j Hj. destruct (Nat.eq_dec j (fst a)) as [-> | NE]; [now left|].
            destruct (V j Hj) as [K | K]; [left; now apply M|].
            right. apply remove1_In_other; [exact K|]. intro Q. apply NE. now rewrite <- Q. }
      destruct E as (E & _ & _ & _).
      destruct (0 <? remaining s2); [now apply maybe_hedge_covered | exact E].
    - (* a rejected answer cannot be a first request *)
      assert (Hh : snd a = true).
      { destruct a as [i h]. destruct h; [reflexivity|]. destruct (Horig i Ha) as [d K]. cbn [fst] in A. congruence. }
      assert (V0 : forall j, j < n -> is_done s j = true \/ In (j, false) (inflight (take_out s a))).
      { intros j Hj. destruct (V j Hj) as [K | K]; [now left | right]. cbn [inflight take_out].
        apply remove1_In_other; [exact K|]. intro Q. rewrite <- Q in Hh. discriminate. }
      unfold recv_err. destruct (is_done (take_out s a) (fst a)); repeat split; assumption.
  Qed.

  Lemma init_covered : covered (init plan).
  Proof.
    unfold covered, counted, init, nchunks. cbn [expected inflight results remaining]. repeat split.
    - now rewrite map_length, seq_length.
    - apply repeat_length.
    - now rewrite count_none_repeat.
    - intros a Ha. apply in_map_iff in Ha as (i & <- & Hi). apply in_seq in Hi. cbn [fst]. lia.
    - intros i Hi. right. apply in_map_iff. exists i. split; [reflexivity | apply in_seq; lia].
  Qed.

  Lemma covered_done s : covered s -> live s = false -> forallb is_some (results s) = true.
  Proof.
    intros (C & L & R & B & V) LV. unfold live in LV. apply andb_false_iff in LV as [LV | LV]; apply Nat.ltb_ge in LV.
    - apply count_none_zero. lia.
    - apply all_done_forallb. intros i Hi. rewrite L in Hi. destruct (V i Hi) as [K | K]; [exact K|].
      unfold counted in C. destruct (inflight s); [destruct K | cbn [length] in C; lia].
  Qed.

  Lemma originals_ok_bytes sched s' : run sched (init plan) = Done s' -> assemble s' = RBytes (concat plan).
  Proof.
    intro E.
    pose proof (run_inv covered step_covered sched (init plan) init_covered) as H. rewrite E in H. destruct H as [HC HL].
    pose proof (covered_done s' HC HL) as A.
    destruct (done_exact sched s' E) as [K | K]; [|exact K].
    unfold assemble in K. rewrite A in K. discriminate.
  Qed.
End Loop.

(* ======================================================================== *)
(* the scripted model                                                        *)

Lemma chunk_nat_pos c size : 0 < size -> 0 < chunk_nat c size.
Proof.
  intro H. unfold chunk_nat, eff_chunk, default_chunk. destruct (c <=? 0)%Z eqn:E; lia.
Qed.

Lemma eff_parallel_pos p : (0 < eff_parallel p)%Z.
Proof. unfold eff_parallel, default_parallel. destruct (p <=? 0)%Z eqn:E; lia. Qed.

Lemma lookup_cases a l :
  lookup a l = KFail \/ exists b, In (b, lookup a l) l /\ fst b = fst a.
Proof.
  induction l as [|[b k] l IH]; [now left|]. cbn [lookup].
  destruct (att_eqb a b) eqn:E.
  - right. exists b. split; [now left|]. apply att_eqb_eq in E. now subst.
  - destruct IH as [K | (c & Hin & Hf)]; [now left | right]. exists c. split; [now right | exact Hf].
Qed.

Lemma honest_of_script i : honest_b i = true -> honest (plan_of i) (ans_of i).
Proof.
  intros H a d A. unfold honest_b in H. apply andb_true_iff in H as [_ H]. unfold ans_of in A.
  destruct (lookup_cases a (i_script i)) as [K | (b & Hin & Hf)].
  - rewrite K in A. discriminate.
  - rewrite forallb_forall in H. specialize (H _ Hin). cbn [fst snd] in H. rewrite Hf in H.
    unfold honest_chunk_b in H. rewrite A in H. now apply beqb_eq in H.
Qed.

Definition ok_obs (i : input) (o : obs) : bool :=
  match o with
  | OBytes b => beqb b (i_res i)
  | OHang => false
  | OError => negb (parallel_path i && originals_ok_b i)
  | _ => true
  end.

Lemma ok_obs_weaken i o : parallel_path i = false ->
  match o with OBytes b => beqb b (i_res i) | OHang => false | _ => true end = true -> ok_obs i o = true.
Proof. intros P H. destruct o; cbn [ok_obs]; try exact H. now rewrite P. Qed.

Lemma simple_ok i : honest_b i = true ->
  match simple i with OBytes b => beqb b (i_res i) | OHang => false | _ => true end = true.
Proof.
  intro H. unfold honest_b in H. apply andb_true_iff in H as [H _]. unfold simple, fetch_simple.
  destruct (realize _ _ _ _) as [|stc fr b]; [reflexivity|]. cbn [honest_simple_b] in H.
  destruct (stc =? 200)%N; [|reflexivity]. destruct (i_maxfetch i <? _)%Z; [reflexivity | exact H].
Qed.

Lemma originals_ok_of_b i : originals_ok_b i = true ->
  forall k, k < length (plan_of i) -> exists d, accept (want (plan_of i) k) (ans_of i (k, false)) = Some d.
Proof.
  intros H k Hk. unfold originals_ok_b in H. rewrite forallb_forall in H.
  specialize (H k). destruct (accept _ _) as [d|]; [now exists d|].
  assert (In k (seq 0 (length (plan_of i)))) by (apply in_seq; lia). apply H in H0. discriminate.
Qed.

Lemma parallel_ok i : 0 < length (i_res i) -> honest_b i = true ->
  match parallel i with
  | OBytes b => beqb b (i_res i) = true
  | OHang => False
  | OError => originals_ok_b i = false
  | _ => True
  end.
Proof.
  intros Hs H. apply honest_of_script in H. unfold parallel.
  assert (Hc : concat (plan_of i) = i_res i) by (unfold plan_of; rewrite chunks_concat by (apply chunk_nat_pos; exact Hs); reflexivity).
  destruct (run _ _ _ _ _ _ _) as [s|s|s|] eqn:E; cbn [obs_of]; try exact I.
  - destruct (done_exact _ _ _ _ _ H _ _ E) as [K | K]; rewrite K.
    + destruct (originals_ok_b i) eqn:O; [|reflexivity].
      pose proof (originals_ok_bytes _ _ _ _ _ H (originals_ok_of_b i O) _ _ E) as Q. congruence.
    + rewrite Hc. apply beqb_refl.
  - exact (never_stuck _ _ _ _ _ _ _ E).
Qed.

Lemma model_meets_spec i : spec_ok i (model i) = true.
Proof.
  unfold spec_ok. destruct (honest_b i) eqn:H; [|reflexivity]. fold (ok_obs i (model i)).
  unfold model, parallel_path. destruct (i_head i) as [|known ranges] eqn:HD.
  - apply ok_obs_weaken; [unfold parallel_path; now rewrite HD | now apply simple_ok].
  - destruct known, ranges; cbn [negb orb];
      try (rewrite ?orb_true_r; cbn [orb]; apply ok_obs_weaken; [unfold parallel_path; now rewrite HD | now apply simple_ok]).
    rewrite orb_false_r.
    destruct ((_ <? i_threshold i)%Z || (_ <=? 0)%Z) eqn:E.
    + apply ok_obs_weaken; [unfold parallel_path; rewrite HD; cbv zeta; now rewrite E | now apply simple_ok].
    + destruct (i_maxfetch i <? _)%Z eqn:F.
      * apply ok_obs_weaken; [unfold parallel_path; rewrite HD; cbv zeta; rewrite E, F; reflexivity | reflexivity].
      * assert (Hs : 0 < length (i_res i)) by (apply orb_false_iff in E as [_ E]; lia).
        pose proof (parallel_ok i Hs H) as K.
        destruct (parallel i); cbn [ok_obs]; try reflexivity; try exact K; try contradiction.
        rewrite K. now rewrite andb_false_r.
Qed.

(* witnesses against the loop as it was before the repair *)
Definition legacy_block_witness : input :=
  {| i_res := [1; 2]%N; i_head := HeadOk true true; i_simple := KWhole200 Declared;
     i_chunk := 1%Z; i_par := 2%Z; i_threshold := 1%Z; i_maxfetch := 100%Z; i_mult := MOff; i_maxh := 4%Z;
     i_script := [((0, false), KFail); ((1, false), KExact Declared)];
     i_sched := [(0, false); (1, false)] |}.
Definition legacy_whole_witness : input :=
  {| i_res := [1; 2]%N; i_head := HeadOk true true; i_simple := KWhole200 Declared;
     i_chunk := 1%Z; i_par := 2%Z; i_threshold := 1%Z; i_maxfetch := 100%Z; i_mult := MOff; i_maxh := 4%Z;
     i_script := [((0, false), KWhole200 Chunked); ((1, false), KWhole200 Declared)];
     i_sched := [(0, false); (1, false)] |}.

Lemma legacy_blocks : honest_b legacy_block_witness = true /\ parallel_legacy legacy_block_witness = OHang
                      /\ model legacy_block_witness = OError.
Proof. repeat split; vm_compute; reflexivity. Qed.

Lemma legacy_wrong : honest_b legacy_whole_witness = true
  /\ parallel_legacy legacy_whole_witness = OBytes [1; 2; 1; 2]%N /\ model legacy_whole_witness = OError.
Proof. repeat split; vm_compute; reflexivity. Qed.

(* ---- statements in the form used by Props/C32.v --------------------------- *)
Lemma step_decreases_l plan ans slow hedging maxh s a :
  live s = true ->
  measure (length plan) (recv plan ans slow hedging maxh (take_out s a) a) < measure (length plan) s.
Proof. intro L. rewrite <- (step_measure plan ans slow hedging maxh s a L). apply Nat.lt_succ_diag_r. Qed.

Lemma result_exact_l res cs ans slow hedging maxh sched s :
  0 < cs -> honest (chunks cs res) ans ->
  run (chunks cs res) ans slow hedging maxh sched (init (chunks cs res)) = Done s ->
  assemble s = RError \/ assemble s = RBytes res.
Proof.
  intros Hcs Hh E. pose proof (done_exact _ _ _ _ _ Hh _ _ E) as K. now rewrite (chunks_concat cs res Hcs) in K.
Qed.

Lemma first_wins_l plan ans slow hedging maxh s a i d :
  nth i (results s) None = Some d ->
  nth i (results (recv plan ans slow hedging maxh (take_out s a) a)) None = Some d.
Proof. intro H. apply recv_keeps. exact H. Qed.

Lemma dup_same_l plan ans (a b : attempt) da db :
  honest plan ans -> fst a = fst b ->
  accept (want plan (fst a)) (ans a) = Some da -> accept (want plan (fst b)) (ans b) = Some db -> da = db.
Proof. intros H E A B. apply H in A. apply H in B. congruence. Qed.

Lemma hedges_l res cs ans slow hedging maxh sched s :
  0 < cs -> honest (chunks cs res) ans ->
  (forall i, i < length (chunks cs res) -> exists d, accept (want (chunks cs res) i) (ans (i, false)) = Some d) ->
  run (chunks cs res) ans slow hedging maxh sched (init (chunks cs res)) = Done s ->
  assemble s = RBytes res.
Proof.
  intros Hcs Hh Ho E. pose proof (originals_ok_bytes _ _ _ _ _ Hh Ho _ _ E) as K.
  now rewrite (chunks_concat cs res Hcs) in K.
Qed.

Lemma legacy_blocks_l : exists i, honest_b i = true /\ parallel_legacy i = OHang /\ model i = OError.
Proof. exists legacy_block_witness. exact legacy_blocks. Qed.

Lemma legacy_wrong_l :
  exists i b, honest_b i = true /\ parallel_legacy i = OBytes b /\ b <> i_res i /\ model i = OError.
Proof.
  exists legacy_whole_witness, [1; 2; 1; 2]%N. destruct legacy_wrong as (A & B & C).
  repeat split; try assumption. discriminate.
Qed.

(* ---- when both requests for a chunk get equally (un)acceptable answers, the
        outcome does not depend on the schedule or on the hedge decisions ------- *)
Lemma forallb_false_ex {A} (f : A -> bool) l : forallb f l = false -> exists x, In x l /\ f x = false.
Proof.
  induction l as [|x l IH]; [discriminate|]. cbn [forallb]. destruct (f x) eqn:E.
  - cbn [andb]. intro H. destruct (IH H) as (y & Hy & Fy). exists y. split; [now right | exact Fy].
  - intros _. exists x. split; [now left | exact E].
Qed.

Lemma nth_none_forallb (rs : list (option bytes)) : forall k, k < length rs -> nth k rs None = None -> forallb is_some rs = false.
Proof.
  induction rs as [|o rs IH]; intros [|k] Hk Hn; cbn [length] in Hk; try lia.
  - cbn [nth] in Hn. subst o. reflexivity.
  - cbn [nth] in Hn. cbn [forallb]. rewrite (IH k) by (lia || exact Hn). apply andb_false_r.
Qed.

Section Blind.
  Variable plan : list bytes.
  Variable ans : attempt -> answer.
  Variable slow : st -> nat -> bool.
  Variable hedging : bool.
  Variable maxh : Z.
  Variable k : nat.
  Hypothesis Hk : forall h, accept (want plan k) (ans (k, h)) = None.

  Definition unfilled (s : st) : Prop := nth k (results s) None = None.

  Lemma step_unfilled s a : unfilled s -> live s = true -> in_flight a (inflight s) = true ->
    unfilled (recv plan ans slow hedging maxh (take_out s a) a).
  Proof.
    intros U _ _. unfold unfilled, recv in *. destruct (accept _ _) as [d|] eqn:A.
    - assert (NE : fst a <> k).
      { intro E. destruct a as [i h]. cbn [fst] in *. subst i. rewrite Hk in A. discriminate. }
      unfold recv_ok.
      set (s2 := if is_done (bump (take_out s a)) (fst a) then bump (take_out s a) else store (bump (take_out s a)) (fst a) d).
      assert (E : nth k (results s2) None = None).
      { subst s2. destruct (is_done _ _); [exact U|]. cbn [results store bump take_out].
        destruct (nth_set_nth_cases (Some d) None (results s) (fst a) k) as [(Q & _) | (K & _)]; [congruence | now rewrite K]. }
      destruct (0 <? remaining s2); [rewrite maybe_hedge_results|]; exact E.
    - unfold recv_err. destruct (is_done _ _); exact U.
  Qed.
End Blind.

Lemma blind_l res cs ans slow hedging maxh sched s :
  0 < cs -> honest (chunks cs res) ans ->
  (forall i, is_some (accept (want (chunks cs res) i) (ans (i, true)))
             = is_some (accept (want (chunks cs res) i) (ans (i, false)))) ->
  run (chunks cs res) ans slow hedging maxh sched (init (chunks cs res)) = Done s ->
  assemble s = if forallb (fun i => is_some (accept (want (chunks cs res) i) (ans (i, false))))
                          (seq 0 (length (chunks cs res)))
               then RBytes res else RError.
Proof.
  intros Hcs Hh Hsame E. set (plan := chunks cs res) in *.
  destruct (forallb _ _) eqn:F.
  - apply (hedges_l res cs ans slow hedging maxh sched s Hcs Hh); [|exact E].
    intros i Hi. rewrite forallb_forall in F. specialize (F i). fold plan.
    destruct (accept _ _) as [d|]; [now exists d|].
    assert (Hin : In i (seq 0 (length plan))) by (apply in_seq; fold plan in Hi; lia). apply F in Hin. discriminate.
  - apply forallb_false_ex in F as (k & Hin & Fk). apply in_seq in Hin.
    assert (Hk : forall h, accept (want plan k) (ans (k, h)) = None).
    { intros [|]; [specialize (Hsame k); rewrite Fk in Hsame|]; destruct (accept _ _); (discriminate || reflexivity). }
    pose proof (run_inv plan ans slow hedging maxh (unfilled k) (step_unfilled plan ans slow hedging maxh k Hk) sched (init plan)) as U.
    pose proof (run_inv plan ans slow hedging maxh (good plan) (step_good plan ans slow hedging maxh Hh) sched (init plan) (init_good plan)) as G.
    rewrite E in U, G. destruct G as [[GL _] _].
    assert (U0 : unfilled k (init plan)) by (unfold unfilled, init; cbn [results]; apply nth_repeat_none).
    destruct (U U0) as [Uk _]. unfold assemble.
    rewrite (nth_none_forallb (results s) k) by (try exact Uk; lia). reflexivity.
Qed.

(* the admission test never looks at how the body's length was signalled *)
Lemma framing_irrelevant_l w st f1 f2 b : accept w (Resp st f1 b) = accept w (Resp st f2 b).
Proof. reflexivity. Qed.

(* a 206 body that ends cleanly but short (or long) is refused under every framing *)
Lemma wrong_length_refused_l w st f b : length b <> w -> accept w (Resp st f b) = None.
Proof.
  intro H. unfold accept. destruct (length b =? w) eqn:E; [apply Nat.eqb_eq in E; contradiction|].
  now rewrite andb_false_r.
Qed.
