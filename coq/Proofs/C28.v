(* Proofs/C28.v — lemmas for the WWW-Authenticate round trip. *)
From VR Require Import Model.C28.
From Coq Require Import ZifyBool ZifyN.
Open Scope N_scope.
Local Arguments N.eqb : simpl never.
Local Arguments N.leb : simpl never.

Definition noquote (s : bytes) : bool := forallb (fun c => negb (c =? QUOTE)) s.
(* a byte that can appear in a parameter name / id value: no quote, '=', space, comma *)
Definition plainc (c : N) : bool := negb (c =? QUOTE) && negb (c =? EQ) && negb (is_sep c).
Definition plain (s : bytes) : bool := forallb plainc s.
Definition name_ok (n : bytes) : Prop := n <> [] /\ plain n = true.

Lemma until_quote_aux_app acc v r :
  noquote v = true -> until_quote_aux acc (v ++ QUOTE :: r) = rev acc ++ v.
Proof.
  revert acc; induction v as [|c v IH]; intros acc H; cbn in *.
  - now rewrite app_nil_r.
  - apply andb_true_iff in H as [Hc Hv]. unfold QUOTE in *. destruct (c =? 34) eqn:E; [discriminate|].
    rewrite IH by exact Hv. cbn. now rewrite <- app_assoc.
Qed.

Lemma until_quote_app v r : noquote v = true -> until_quote (v ++ QUOTE :: r) = v.
Proof. intro H. unfold until_quote. now rewrite until_quote_aux_app. Qed.

Lemma until_quote_none s : noquote s = true -> until_quote s = [].
Proof.
  intro H0. unfold until_quote. enough (G : forall acc, until_quote_aux acc s = []) by apply G.
  revert H0. induction s as [|c s IH]; intros H acc; cbn in *; [reflexivity|].
  apply andb_true_iff in H as [Hc Hs]. unfold QUOTE in *. destruct (c =? 34); [discriminate|]. now apply IH.
Qed.

Lemma scan_inq k pv v rest :
  noquote v = true -> scan k true pv (v ++ QUOTE :: rest) = scan k false false rest.
Proof.
  revert pv; induction v as [|c v IH]; intros pv H; cbn in *; [reflexivity|].
  apply andb_true_iff in H as [Hc Hv]. unfold QUOTE in *. destruct (c =? 34) eqn:E; [discriminate|]. cbn. now apply IH.
Qed.

Lemma plainc_facts c : plainc c = true -> (c =? QUOTE) = false /\ is_sep c = false /\ (c =? EQ) = false.
Proof. unfold plainc, is_sep, QUOTE, EQ, SP, COMMA. lia. Qed.

Lemma scan_word k w rest :
  plain w = true -> scan k false false (w ++ rest) = scan k false false rest.
Proof.
  induction w as [|c w IH]; intro H; cbn in *; [reflexivity|].
  apply andb_true_iff in H as [Hc Hw]. apply plainc_facts in Hc as (Hq & Hs & _).
  fold QUOTE. rewrite Hq, Hs. now apply IH.
Qed.

Lemma plain_noquote s : plain s = true -> noquote s = true.
Proof.
  induction s as [|c s IH]; cbn; [reflexivity|]. intro H. apply andb_true_iff in H as [Hc Hs].
  apply plainc_facts in Hc as (Hq & _). fold QUOTE. rewrite Hq. cbn. now apply IH.
Qed.

Lemma key_prefix_eq p n r :
  plain p = true -> plain n = true ->
  has_prefix (key p) (n ++ EQ :: QUOTE :: r) = true -> p = n.
Proof.
  revert n; induction p as [|x p IH]; intros [|c n] Hp Hn H; cbn in *.
  - reflexivity.
  - apply andb_true_iff in Hn as [Hc _]. apply plainc_facts in Hc as (_ & _ & He).
    apply andb_true_iff in H as [H _]. unfold EQ in *. lia.
  - apply andb_true_iff in Hp as [Hx _]. apply plainc_facts in Hx as (_ & _ & He).
    apply andb_true_iff in H as [H _]. unfold EQ in *. lia.
  - apply andb_true_iff in Hp as [Hx Hp]. apply andb_true_iff in Hn as [Hc Hn].
    apply andb_true_iff in H as [H1 H2]. apply N.eqb_eq in H1. subst c. f_equal. now apply (IH n).
Qed.

Lemma key_no_prefix_sep p c r : name_ok p -> is_sep c = true -> has_prefix (key p) (c :: r) = false.
Proof.
  intros [Hne Hp] Hc. destruct p as [|x p]; [congruence|]. cbn in *.
  apply andb_true_iff in Hp as [Hx _]. apply plainc_facts in Hx as (_ & Hs & _).
  destruct (x =? c) eqn:E; [|reflexivity]. apply N.eqb_eq in E. subst. congruence.
Qed.

Definition seg_core (n v : bytes) : bytes := n ++ EQ :: QUOTE :: v ++ [QUOTE].

Lemma seg_is n v : seg n v = COMMA :: SP :: seg_core n v.
Proof. reflexivity. Qed.

Lemma seg_core_app n v rest : seg_core n v ++ rest = n ++ EQ :: QUOTE :: v ++ QUOTE :: rest.
Proof. unfold seg_core. rewrite <- app_assoc. cbn [app]. now rewrite <- app_assoc. Qed.

Lemma scan_core_skip p n v rest :
  name_ok p -> name_ok n -> p <> n -> noquote v = true ->
  scan (key p) false true (seg_core n v ++ rest) = scan (key p) false false rest.
Proof.
  intros Hp [Hne Hn] Hpn Hv. rewrite seg_core_app.
  destruct (has_prefix (key p) (n ++ EQ :: QUOTE :: v ++ QUOTE :: rest)) eqn:E.
  - exfalso. apply Hpn. apply (key_prefix_eq p n (v ++ QUOTE :: rest)); [apply Hp | exact Hn | exact E].
  - destruct n as [|c n]; [congruence|]. cbn [app] in *. cbn [scan andb]. rewrite E.
    cbn [plain forallb] in Hn. apply andb_true_iff in Hn as [Hc Hn]. apply plainc_facts in Hc as (Hq & Hs & _).
    rewrite Hq, Hs. rewrite scan_word by exact Hn.
    cbn [scan andb]. change (EQ =? QUOTE) with false. change (is_sep EQ) with false.
    cbn [scan andb]. rewrite N.eqb_refl. now apply scan_inq.
Qed.

Lemma scan_core_hit p v rest :
  noquote v = true -> scan (key p) false true (seg_core p v ++ rest) = v.
Proof.
  intros Hv. unfold seg_core. rewrite <- app_assoc.
  assert (E : (p ++ (EQ :: QUOTE :: v ++ [QUOTE]) ++ rest) = key p ++ (v ++ QUOTE :: rest)).
  { unfold key. rewrite <- !app_assoc. cbn. now rewrite <- app_assoc. }
  rewrite E. destruct (key p ++ v ++ QUOTE :: rest) as [|c t] eqn:EK.
  - unfold key in EK. destruct p; discriminate.
  - cbn [scan andb]. rewrite <- EK. rewrite has_prefix_app, drop_app_len. now apply until_quote_app.
Qed.

Lemma scan_seg_skip p pv n v rest :
  name_ok p -> name_ok n -> p <> n -> noquote v = true ->
  scan (key p) false pv (seg n v ++ rest) = scan (key p) false false rest.
Proof.
  intros Hp Hn Hpn Hv. rewrite seg_is. cbn [app scan].
  rewrite (key_no_prefix_sep p COMMA) by (auto). rewrite andb_false_r.
  change (COMMA =? QUOTE) with false. change (is_sep COMMA) with true. cbn [scan].
  rewrite (key_no_prefix_sep p SP) by auto. cbn [andb].
  change (SP =? QUOTE) with false. change (is_sep SP) with true.
  now apply scan_core_skip.
Qed.

Lemma scan_seg_hit p pv v rest :
  name_ok p -> noquote v = true -> scan (key p) false pv (seg p v ++ rest) = v.
Proof.
  intros Hp Hv. rewrite seg_is. cbn [app scan].
  rewrite (key_no_prefix_sep p COMMA) by auto. rewrite andb_false_r.
  change (COMMA =? QUOTE) with false. change (is_sep COMMA) with true. cbn [scan].
  rewrite (key_no_prefix_sep p SP) by auto. cbn [andb].
  change (SP =? QUOTE) with false. change (is_sep SP) with true.
  now apply scan_core_hit.
Qed.

(* ---- any list of well-formed segments ---------------------------------- *)
Definition render (segs : list (bytes * bytes)) : bytes := concat (map (fun nv => seg (fst nv) (snd nv)) segs).

Fixpoint lookup (p : bytes) (segs : list (bytes * bytes)) : bytes :=
  match segs with
  | [] => []
  | (n, v) :: t => if beqb p n then v else lookup p t
  end.

Definition seg_ok (nv : bytes * bytes) : Prop := name_ok (fst nv) /\ noquote (snd nv) = true.

Theorem scan_segs p pv segs :
  name_ok p -> Forall seg_ok segs ->
  scan (key p) false pv (render segs) = lookup p segs.
Proof.
  intros Hp. revert pv. induction segs as [|[n v] t IH]; intros pv Hs.
  - reflexivity.
  - inversion Hs as [|x l [Hn Hv] Ht]; subst. unfold render in *. cbn [map concat fst snd lookup] in *.
    destruct (beqb p n) eqn:E.
    + apply beqb_eq in E. subst n. now apply scan_seg_hit.
    + apply beqb_neq in E. rewrite scan_seg_skip by auto. now apply IH.
Qed.

(* ---- the concrete builder ---------------------------------------------- *)
Definition present (n v : bytes) : list (bytes * bytes) := match v with [] => [] | _ => [(n, v)] end.

Definition segs_of (m : meta) : list (bytes * bytes) :=
  present p_client_id (m_client_id m)
  ++ (if m_id_token m then [(p_use_id_token, www_true)] else [])
  ++ present p_client_secret (m_client_secret m)
  ++ present p_dc_client_id (m_dc_id m)
  ++ present p_dc_client_secret (m_dc_secret m).

Lemma render_app a b : render (a ++ b) = render a ++ render b.
Proof. unfold render. now rewrite map_app, concat_app. Qed.

Lemma opt_seg_render n v : opt_seg n v = render (present n v).
Proof. destruct v; cbn; [reflexivity|]. unfold render. cbn. now rewrite app_nil_r. Qed.

Definition head (u : bytes) : bytes := www_scheme_prefix ++ seg_core p_resource_metadata u.

Lemma build_is u m : build u m = head u ++ render (segs_of m).
Proof.
  unfold build, head, segs_of, seg_core. rewrite !render_app, <- !opt_seg_render.
  destruct (m_id_token m); unfold render; cbn [map concat fst snd]; rewrite <- ?app_assoc; cbn [app];
    rewrite <- ?app_assoc; cbn [app]; reflexivity.
Qed.

(* names are concrete: their well-formedness and distinctness are computations
   on the regenerated constants *)
Definition all_names := [p_resource_metadata; p_client_id; p_use_id_token; p_client_secret; p_dc_client_id; p_dc_client_secret].

Definition names_wf : bool :=
  forallb (fun n => negb (beqb n []) && plain n) all_names
  && forallb (fun n => negb (N.eqb (hd 0 n) (hd 0 www_scheme_prefix))) all_names
  && beqb www_scheme_prefix (removelast www_scheme_prefix ++ [SP])
  && plain (removelast www_scheme_prefix)
  && negb (beqb (removelast www_scheme_prefix) [])
  && plain www_true && negb (beqb www_true []).

Lemma names_wf_true : names_wf = true.
Proof. vm_compute. reflexivity. Qed.

Lemma name_ok_of_bool n : negb (beqb n []) && plain n = true -> name_ok n.
Proof.
  intro H. apply andb_true_iff in H as [H1 H2]. split; [|exact H2].
  intro E. subst. discriminate.
Qed.

Ltac name_ok_tac := apply name_ok_of_bool; vm_compute; reflexivity.

(* scanning the scheme word "Bearer " from the initial state *)
Lemma scan_scheme p rest :
  name_ok p -> N.eqb (hd 0 p) (hd 0 www_scheme_prefix) = false ->
  scan (key p) false true (www_scheme_prefix ++ rest) = scan (key p) false true rest.
Proof.
  intros Hp Hhd.
  assert (Hw : www_scheme_prefix = removelast www_scheme_prefix ++ [SP]).
  { apply beqb_eq. vm_compute. reflexivity. }
  rewrite Hw, <- app_assoc.
  assert (Hpl : plain (removelast www_scheme_prefix) = true) by (vm_compute; reflexivity).
  assert (Hh : hd 0 www_scheme_prefix = hd 0 (removelast www_scheme_prefix)) by (vm_compute; reflexivity).
  rewrite Hh in Hhd. clear Hw Hh.
  destruct (removelast www_scheme_prefix) as [|c w] eqn:EW; [vm_compute in EW; discriminate|].
  cbn [app scan]. destruct p as [|x p]; [destruct Hp; congruence|].
  cbn [hd] in Hhd. cbn [key app has_prefix]. rewrite Hhd. cbn [andb].
  cbn in Hpl. apply andb_true_iff in Hpl as [Hc Hpl]. apply plainc_facts in Hc as (Hq & Hs & _).
  fold QUOTE. rewrite Hq, Hs. rewrite scan_word by exact Hpl.
  cbn [app scan andb]. change (SP =? QUOTE) with false. change (is_sep SP) with true. reflexivity.
Qed.

Lemma id_ok_noquote s : id_ok s = true -> noquote s = true.
Proof.
  unfold id_ok, noquote. induction s as [|c s IH]; cbn [forallb]; [reflexivity|]. intro H.
  apply andb_true_iff in H as [Hc Hs]. rewrite IH by exact Hs.
  unfold id_char in Hc. unfold QUOTE. assert (E : (c =? 34) = false) by lia. now rewrite E.
Qed.

Lemma present_ok n v : name_ok n -> id_ok v = true -> Forall seg_ok (present n v).
Proof.
  intros Hn Hv. destruct v as [|c w] eqn:E; cbn [present]; constructor; [|constructor].
  split; [exact Hn | cbn [snd]; now apply id_ok_noquote].
Qed.

Lemma segs_ok m : meta_ok m = true -> Forall seg_ok (segs_of m).
Proof.
  unfold meta_ok. intro H.
  apply andb_true_iff in H as [H H4]. apply andb_true_iff in H as [H H3]. apply andb_true_iff in H as [H1 H2].
  unfold segs_of.
  apply Forall_app; split; [apply present_ok; [name_ok_tac | exact H1]|].
  apply Forall_app; split.
  { destruct (m_id_token m); constructor; [|constructor]. split; [name_ok_tac | vm_compute; reflexivity]. }
  apply Forall_app; split; [apply present_ok; [name_ok_tac | exact H2]|].
  apply Forall_app; split; [apply present_ok; [name_ok_tac | exact H3]|].
  apply present_ok; [name_ok_tac | exact H4].
Qed.

Lemma parse_other u m p :
  name_ok p -> N.eqb (hd 0 p) (hd 0 www_scheme_prefix) = false -> p <> p_resource_metadata ->
  url_ok u = true -> meta_ok m = true ->
  parse_param (build u m) p = lookup p (segs_of m).
Proof.
  intros Hp Hhd Hne Hu Hm. unfold parse_param. rewrite build_is. unfold head. rewrite <- app_assoc.
  rewrite scan_scheme by auto. rewrite scan_core_skip; auto; [|name_ok_tac].
  apply scan_segs; auto using segs_ok.
Qed.

Lemma parse_url u m :
  url_ok u = true -> parse_param (build u m) p_resource_metadata = u.
Proof.
  intros Hu. unfold parse_param. rewrite build_is. unfold head. rewrite <- app_assoc.
  rewrite scan_scheme; [| name_ok_tac | vm_compute; reflexivity].
  now apply scan_core_hit.
Qed.

Lemma lookup_present_same p v rest : lookup p (present p v ++ rest) = match v with [] => lookup p rest | _ => v end.
Proof. destruct v; cbn; [reflexivity|]. now rewrite beqb_refl. Qed.

Lemma lookup_present_other p n v rest : beqb p n = false -> lookup p (present n v ++ rest) = lookup p rest.
Proof. intro H. destruct v; cbn; [reflexivity|]. now rewrite H. Qed.

Ltac other := rewrite lookup_present_other by (vm_compute; reflexivity).

Ltac po := rewrite parse_other; [| name_ok_tac | vm_compute; reflexivity | (vm_compute; discriminate) | assumption | assumption].

Theorem roundtrip u m :
  url_ok u = true -> meta_ok m = true ->
  let h := build u m in
  parse_param h p_resource_metadata = u
  /\ parse_param h p_client_id = m_client_id m
  /\ beqb (parse_param h p_use_id_token) www_true = m_id_token m
  /\ parse_param h p_client_secret = m_client_secret m
  /\ parse_param h p_dc_client_id = m_dc_id m
  /\ parse_param h p_dc_client_secret = m_dc_secret m.
Proof.
  intros Hu Hm h. subst h. split; [now apply parse_url|].
  repeat split.
  - po.
    unfold segs_of. rewrite lookup_present_same.
    destruct (m_client_id m) eqn:E; [|reflexivity].
    destruct (m_id_token m); cbn [app lookup];
      repeat other; try (change (beqb p_client_id p_use_id_token) with false; cbn iota);
      repeat other; destruct (m_dc_secret m); reflexivity.
  - po.
    unfold segs_of. other. destruct (m_id_token m); cbn [app lookup].
    + change (beqb p_use_id_token p_use_id_token) with true. cbn iota. vm_compute. reflexivity.
    + repeat other. destruct (m_dc_secret m); cbn; reflexivity.
  - po.
    unfold segs_of. other. destruct (m_id_token m); cbn [app lookup];
      try (change (beqb p_client_secret p_use_id_token) with false; cbn iota);
      rewrite lookup_present_same; (destruct (m_client_secret m) eqn:E; [|reflexivity]);
      repeat other; destruct (m_dc_secret m); reflexivity.
  - po.
    unfold segs_of. other. destruct (m_id_token m); cbn [app lookup];
      try (change (beqb p_dc_client_id p_use_id_token) with false; cbn iota);
      other; rewrite lookup_present_same; (destruct (m_dc_id m) eqn:E; [|reflexivity]);
      destruct (m_dc_secret m); reflexivity.
  - po.
    unfold segs_of. other. destruct (m_id_token m); cbn [app lookup];
      try (change (beqb p_dc_client_secret p_use_id_token) with false; cbn iota);
      repeat other; destruct (m_dc_secret m) eqn:E; cbn; try reflexivity;
      change (beqb p_dc_client_secret p_dc_client_secret) with true; reflexivity.
Qed.

Theorem model_meets_spec i : spec_ok i (model i) = true.
Proof.
  destruct i as [u m|h]; [|reflexivity]. cbn [spec_ok model].
  destruct (url_ok u && meta_ok m) eqn:E; [|reflexivity].
  apply andb_true_iff in E as [Hu Hm].
  destruct (roundtrip u m Hu Hm) as (H1 & H2 & H3 & H4 & H5 & H6).
  unfold parse_all. cbn [o_url o_cid o_flag o_csec o_dcid o_dcsec].
  rewrite H1, H2, H3, H4, H5, H6, !beqb_refl, Bool.eqb_reflx. reflexivity.
Qed.

(* the pre-fix parser returns the device-code id when client_id is absent *)
Definition legacy_witness_meta : meta :=
  {| m_client_id := []; m_id_token := false; m_client_secret := [];
     m_dc_id := str "dev-id"; m_dc_secret := [] |}.

Theorem legacy_refuted :
  exists u m, url_ok u = true /\ meta_ok m = true /\
              parse_legacy (build u m) p_client_id <> m_client_id m.
Proof.
  exists (str "https://h/x"), legacy_witness_meta. repeat split; try (vm_compute; reflexivity).
  vm_compute. discriminate.
Qed.
