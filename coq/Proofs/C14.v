(* Proofs/C14.v — lemmas for property C14. *)
From VR Require Import Model.C14.
From Coq Require Import ZifyBool ZifyN ZifyNat Lia.
Local Arguments N.eqb : simpl never.
Open Scope N_scope.

(* the hook's probe: the call token sealed by /init's function, and the cache entry it
   stores, both name the minting method *)
Lemma call_names_method_probe : c14_call_names_method = 1%Z.
Proof. reflexivity. Qed.

(* ---- Part 1: one continuation, for EVERY AEAD that is correct ------------------- *)
Section Generic.
  Variable CT : Type.
  Variable seal : N -> bytes -> payload -> CT.
  Variable open : bytes -> CT -> option payload.
  Hypothesis open_seal : forall n a p, open a (seal n a p) = Some p.

  Notation mintG := (mint CT seal).
  Notation openG := (open_slot CT open).
  Notation contG := (continue_dec CT open).

  Lemma kind_eqb_refl k : kind_eqb k k = true.
  Proof. destruct k; reflexivity. Qed.

  Lemma open_slot_mint n p : openG (pl_kind p) (mintG n p) = Some p.
  Proof.
    unfold open_slot, mint; cbn [t_ver t_ct]. now rewrite N.eqb_refl, open_seal, kind_eqb_refl.
  Qed.

  Lemma open_cursor_mint n c s : openG KCursor (mintG n (PCursor c s)) = Some (PCursor c s).
  Proof. exact (open_slot_mint n (PCursor c s)). Qed.
  Lemma open_call_mint n c r : openG KCall (mintG n (PCall c r)) = Some (PCall c r).
  Proof. exact (open_slot_mint n (PCall c r)). Qed.

  (* re-enveloping a token for its own slot changes nothing *)
  Lemma reenvelope_own n p : reenvelope CT (pl_kind p) (mintG n p) = mintG n p.
  Proof. reflexivity. Qed.

  (* every enabled-cache entry for call c names [name] *)
  Definition cache_names (on : bool) (ch : cache) (c : N) (name : bytes) : Prop :=
    forall r, on = true -> cache_get c ch = Some r -> r_meth r = name.
  (* whatever sits in the call-token slot, if it opens as a call token of call c it names [name] *)
  Definition slot_names (tk : option (token CT)) (c : N) (name : bytes) : Prop :=
    forall t r, tk = Some t -> openG KCall t = Some (PCall c r) -> r_meth r = name.

  Lemma resolve_names on ch c tk name call stored :
    cache_names on ch c name -> slot_names tk c name ->
    resolve_dec CT open on ch c tk = Some (call, stored) -> r_meth call = name.
  Proof.
    intros Hc Hs. unfold resolve_dec.
    destruct (if on then cache_get c ch else None) as [r|] eqn:Eg.
    - intros H; inversion H; subst. destruct on; [|discriminate]. exact (Hc call eq_refl Eg).
    - destruct tk as [t|]; [|discriminate].
      destruct (openG KCall t) as [[c' s'|c' r]|] eqn:Eo; try discriminate.
      destruct (c' =? c) eqn:Ec; [|discriminate]. apply N.eqb_eq in Ec; subst c'.
      intros H; inversion H; subst. eapply Hs; eauto.
  Qed.

  (* where the miss path stores, it stores what the presented call token said *)
  Lemma resolve_stored on ch c tk call :
    resolve_dec CT open on ch c tk = Some (call, true) ->
    exists t, tk = Some t /\ openG KCall t = Some (PCall c call).
  Proof.
    unfold resolve_dec.
    destruct (if on then cache_get c ch else None) as [r|]; [intros H; inversion H|].
    destruct tk as [t|]; [|discriminate].
    destruct (openG KCall t) as [[c' s'|c' r]|] eqn:Eo; try discriminate.
    destruct (c' =? c) eqn:Ec; [|discriminate]. apply N.eqb_eq in Ec; subst c'.
    intros H; inversion H; subst. eauto.
  Qed.

  Lemma resolve_hit_or_stored on ch c tk call stored :
    resolve_dec CT open on ch c tk = Some (call, stored) ->
    (stored = false /\ on = true /\ cache_get c ch = Some call) \/ stored = true.
  Proof.
    unfold resolve_dec. destruct on.
    - destruct (cache_get c ch) as [r|]; [intros H; inversion H; subst; auto|].
      destruct tk as [t|]; [|discriminate]. destruct (openG KCall t) as [[? ?|c' r]|]; try discriminate.
      destruct (c' =? c); [|discriminate]. intros H; inversion H; auto.
    - destruct tk as [t|]; [|discriminate]. destruct (openG KCall t) as [[? ?|c' r]|]; try discriminate.
      destruct (c' =? c); [|discriminate]. intros H; inversion H; auto.
  Qed.

  (* the walk through handleStreamExchange, leaving one goal per exit *)
  Ltac walk reg route b cancel rfail tc :=
    unfold continue_dec;
    let info := fresh "info" in let El := fresh "El" in
    destruct (lookup reg route) as [info|] eqn:El;
    [ let Ecast := fresh "Ecast" in
      destruct (cast_blocks info b cancel) eqn:Ecast;
      [ | let tcur := fresh "tcur" in
          destruct tc as [tcur|];
          [ let Eo := fresh "Eo" in let c := fresh "c" in let s := fresh "s" in
            destruct (open_slot CT open KCursor tcur) as [[c s|? ?]|] eqn:Eo;
            [ let Er := fresh "Er" in let call := fresh "call" in let stored := fresh "stored" in
              match goal with |- context [resolve_dec CT open ?on ?ch c ?tk] =>
                destruct (resolve_dec CT open on ch c tk) as [[call stored]|] eqn:Er end;
              [ let Em := fresh "Em" in
                destruct (beqb (r_meth call) (m_name info)) eqn:Em; cbn [negb];
                [ let Ef := fresh "Ef" in
                  destruct (state_fits (m_mode info) (st_ty s)) eqn:Ef; cbn [negb];
                  [ unfold run_turn; destruct rfail; [ | destruct cancel ] | ]
                | ]
              | ]
            | | ]
          | ] ]
    | ].

  (* ---- T1: tokens minted by a method other than the route's are refused ---------- *)
  Lemma foreign_refused_lemma reg route info' name c s n (re : bool) b cancel rfail on ch tk :
    lookup reg route = Some info' -> m_name info' <> name ->
    cache_names on ch c name -> slot_names tk c name ->
    let cur := mintG n (PCursor c s) in
    let out := contG reg route b cancel rfail on ch
                 (Some (if re then reenvelope CT KCursor cur else cur)) tk in
    o_res out = R 400 (if cast_blocks info' b cancel then c14_exc_cast else exc_runtime_error) false [] false
    /\ o_next out = None
    /\ (forall c' r, o_put out = Some (c', r) -> c' = c /\ r_meth r = name).
  Proof.
    intros Hl Hne Hc Hs cur out. subst out cur.
    replace (if re then _ else _) with (mintG n (PCursor c s)) by (destruct re; reflexivity).
    unfold continue_dec. rewrite Hl.
    destruct (cast_blocks info' b cancel); [cbn; repeat split; intros; discriminate|].
    rewrite open_cursor_mint.
    destruct (resolve_dec CT open on ch c tk) as [[call stored]|] eqn:Er;
      [|cbn; repeat split; intros; discriminate].
    pose proof (resolve_names _ _ _ _ _ _ _ Hc Hs Er) as Hn.
    assert (Hb : beqb (r_meth call) (m_name info') = false) by (apply beqb_neq; congruence).
    rewrite Hb; cbn [negb refuse o_res o_next o_put]. split; [reflexivity|]. split; [reflexivity|].
    intros c' r H. destruct stored; inversion H; subst; auto.
  Qed.

  (* ---- T2: a method's own tokens at its own route run exactly one turn ------------ *)
  Definition turn_trace (route : nat) (info : method) (s : state) (cancel : bool) : list act :=
    [ARehyd (ty_id (st_ty s)) route; AHook route cancel] ++
    (if cancel then (if ty_canc (st_ty s) then [ACancel (st_pos s)] else [])
     else [if is_producer (m_mode info) (st_ty s) then AProduce (st_pos s) else AExchange (st_pos s)]).

  Lemma own_accepted_lemma reg route info c s n n' r b cancel on ch :
    lookup reg route = Some info ->
    r_meth r = m_name info -> state_fits (m_mode info) (st_ty s) = true ->
    cache_names on ch c (m_name info) ->
    cast_blocks info b cancel = false ->
    let out := contG reg route b cancel false on ch
                 (Some (mintG n (PCursor c s))) (Some (mintG n' (PCall c r))) in
    o_res out = R 200 [] false (turn_trace route info s cancel) (negb cancel)
    /\ o_next out = (if cancel then None else Some (c, {| st_ty := st_ty s; st_pos := st_pos s + 1 |})).
  Proof.
    intros Hl Hr Hf Hc Hcast out. subst out. unfold continue_dec. rewrite Hl, Hcast, open_cursor_mint.
    assert (Hres : exists call stored, resolve_dec CT open on ch c (Some (mintG n' (PCall c r))) = Some (call, stored)
                   /\ r_meth call = m_name info).
    { unfold resolve_dec. destruct on.
      - destruct (cache_get c ch) as [r0|] eqn:Eg.
        + exists r0, false. split; [reflexivity|]. exact (Hc r0 eq_refl Eg).
        + rewrite open_call_mint, N.eqb_refl. eauto.
      - rewrite open_call_mint, N.eqb_refl. eauto. }
    destruct Hres as (call & stored & -> & Hn).
    rewrite Hn, beqb_refl, Hf. cbn [negb]. unfold run_turn, turn_trace.
    destruct cancel; cbn [o_res o_next negb]; split; reflexivity.
  Qed.

  (* ---- T3: the cursor is bound to ITS call token by the call id ------------------- *)
  Lemma binding_lemma reg route b cancel rfail on ch c c' s n n' r :
    (on = false \/ cache_get c ch = None) -> c' <> c ->
    let out := contG reg route b cancel rfail on ch
                 (Some (mintG n (PCursor c s))) (Some (mintG n' (PCall c' r))) in
    r_status (o_res out) = match lookup reg route with Some _ => 400 | None => 404 end
    /\ r_trace (o_res out) = [] /\ r_panic (o_res out) = false /\ r_tok (o_res out) = false
    /\ o_next out = None /\ o_put out = None.
  Proof.
    intros Hmiss Hne out. subst out. unfold continue_dec.
    destruct (lookup reg route) as [info|]; [|cbn; repeat split].
    destruct (cast_blocks info b cancel); [cbn; repeat split|].
    rewrite open_cursor_mint.
    assert (Hr : resolve_dec CT open on ch c (Some (mintG n' (PCall c' r))) = None).
    { unfold resolve_dec.
      assert (Hg : (if on then cache_get c ch else None) = None)
        by (destruct Hmiss as [-> | ->]; [reflexivity | destruct on; reflexivity]).
      rewrite Hg, open_call_mint. apply N.eqb_neq in Hne. now rewrite Hne. }
    rewrite Hr. cbn; repeat split.
  Qed.

  (* ---- shape facts used by the history proof --------------------------------------- *)
  Lemma cont_no_panic reg route b cancel rfail on ch tc tk :
    r_panic (o_res (contG reg route b cancel rfail on ch tc tk)) = false.
  Proof. walk reg route b cancel rfail tc; reflexivity. Qed.

  Lemma cont_tags reg route b cancel rfail on ch tc tk :
    tags_ok route (o_res (contG reg route b cancel rfail on ch tc tk)) = true.
  Proof.
    walk reg route b cancel rfail tc; try reflexivity; unfold tags_ok;
      cbn [o_res r_trace app forallb]; rewrite ?Nat.eqb_refl; try reflexivity.
    - destruct (ty_canc (st_ty s)); reflexivity.
    - destruct (is_producer (m_mode info) (st_ty s)); reflexivity.
  Qed.

  (* status classes and silence of every refusal: anything that is not a run of the turn *)
  Lemma cont_4xx_or_run reg route b cancel rfail on ch tc tk :
    let out := contG reg route b cancel rfail on ch tc tk in
    (r_status (o_res out) = match lookup reg route with Some _ => 400 | None => 404 end
     /\ r_trace (o_res out) = [] /\ r_tok (o_res out) = false /\ o_next out = None)
    \/ (exists info tcur c s call stored,
          lookup reg route = Some info /\ tc = Some tcur /\ openG KCursor tcur = Some (PCursor c s)
          /\ resolve_dec CT open on ch c tk = Some (call, stored)
          /\ r_meth call = m_name info /\ state_fits (m_mode info) (st_ty s) = true
          /\ cast_blocks info b cancel = false
          /\ out = run_turn route info c s cancel rfail (if stored then Some (c, call) else None)
                             (if stored then None else Some c)).
  Proof.
    cbv zeta. walk reg route b cancel rfail tc;
      try (left; rewrite ?El; cbn; repeat split; reflexivity).
    all: right; exists info, tcur, c, s, call, stored; apply beqb_eq in Em;
      repeat split; auto.
  Qed.

  Lemma cont_put reg route b cancel rfail on ch tc tk c r :
    o_put (contG reg route b cancel rfail on ch tc tk) = Some (c, r) ->
    exists tcur s t, tc = Some tcur /\ openG KCursor tcur = Some (PCursor c s)
                     /\ tk = Some t /\ openG KCall t = Some (PCall c r).
  Proof.
    walk reg route b cancel rfail tc; cbn [refuse o_put]; try discriminate.
    all: destruct stored; try discriminate; intros H; inversion H; subst;
      apply resolve_stored in Er; destruct Er as (t & -> & Ht); eauto 8.
  Qed.

  Lemma cont_next reg route b cancel rfail on ch tc tk :
    let out := contG reg route b cancel rfail on ch tc tk in
    match o_next out with
    | Some (c, nx) => r_tok (o_res out) = true /\
                      exists tcur s, tc = Some tcur /\ openG KCursor tcur = Some (PCursor c s)
                                     /\ st_ty nx = st_ty s
    | None => r_tok (o_res out) = false
    end.
  Proof.
    cbv zeta. walk reg route b cancel rfail tc; cbn [refuse o_next o_res r_tok]; try reflexivity.
    split; [reflexivity|]. eauto 6.
  Qed.
End Generic.

(* ---- Part 2: histories under the symbolic ideal AEAD ----------------------------- *)
Notation tokS := (token sym_ct).
Notation mintS := (mint sym_ct sym_seal).
Notation openS := (open_slot sym_ct sym_open).
Notation contS := (continue_dec sym_ct sym_open).
Notation stS := (st sym_ct).

Lemma sym_open_seal n a p : sym_open a (sym_seal n a p) = Some p.
Proof. unfold sym_open, sym_seal. now rewrite beqb_refl. Qed.

(* facts about the REGENERATED constants: the two kinds have different associated data
   and different version bytes *)
Lemma aad_ck : beqb (aad_of KCursor) (aad_of KCall) = false.
Proof. vm_compute. reflexivity. Qed.
Lemma aad_kc : beqb (aad_of KCall) (aad_of KCursor) = false.
Proof. vm_compute. reflexivity. Qed.
Lemma ver_ck : (version_of KCursor =? version_of KCall) = false.
Proof. vm_compute. reflexivity. Qed.
Lemma ver_kc : (version_of KCall =? version_of KCursor) = false.
Proof. vm_compute. reflexivity. Qed.

(* a minted token, as minted or re-enveloped for the slot, opens exactly at its own kind's slot *)
Lemma openS_env slot (re : bool) n p :
  openS slot (if re then reenvelope sym_ct slot (mintS n p) else mintS n p)
  = if kind_eqb (pl_kind p) slot then Some p else None.
Proof.
  unfold open_slot, reenvelope, mint, sym_seal, sym_open.
  destruct re, p as [c s|c r], slot; cbn [t_ver t_ct pl_kind kind_eqb];
    rewrite ?N.eqb_refl, ?beqb_refl, ?aad_ck, ?aad_kc, ?ver_ck, ?ver_kc; reflexivity.
Qed.

Lemma Forall2_nth_r {A B} (R : A -> B -> Prop) l l' i b :
  Forall2 R l l' -> nth_error l' i = Some b -> exists a, nth_error l i = Some a /\ R a b.
Proof.
  intros H; revert i; induction H as [|x y l l' Hxy H IH]; intros [|i] Hi; cbn in *; try discriminate.
  - inversion Hi; subst; eauto.
  - eauto.
Qed.
Lemma Forall2_nth_l {A B} (R : A -> B -> Prop) l l' i a :
  Forall2 R l l' -> nth_error l i = Some a -> exists b, nth_error l' i = Some b /\ R a b.
Proof.
  intros H; revert i; induction H as [|x y l l' Hxy H IH]; intros [|i] Hi; cbn in *; try discriminate.
  - inversion Hi; subst; eauto.
  - eauto.
Qed.

(* ---- registry facts ---- *)
Lemma names_distinct_inj reg : names_distinct reg = true ->
  forall i j a b, nth_error reg i = Some a -> nth_error reg j = Some b -> m_name a = m_name b -> i = j.
Proof.
  induction reg as [|m t IH]; intros Hd i j a b Hi Hj He.
  - destruct i; discriminate.
  - cbn [names_distinct] in Hd. apply andb_true_iff in Hd as [Hn Ht]. apply negb_true_iff in Hn.
    destruct i as [|i], j as [|j]; cbn [nth_error] in Hi, Hj.
    + reflexivity.
    + inversion Hi; subst. exfalso. apply nth_error_In in Hj.
      assert (Hx : existsb (fun m' => beqb (m_name a) (m_name m')) t = true)
        by (apply existsb_exists; exists b; split; [exact Hj | apply beqb_eq; exact He]).
      congruence.
    + inversion Hj; subst. exfalso. apply nth_error_In in Hi.
      assert (Hx : existsb (fun m' => beqb (m_name b) (m_name m')) t = true)
        by (apply existsb_exists; exists a; split; [exact Hi | apply beqb_eq; auto]).
      congruence.
    + f_equal. eapply IH; eauto.
Qed.

Lemma init_fits_state_fits md t : init_fits md t = true -> state_fits md t = true.
Proof. unfold init_fits, state_fits, is_producer. destruct md, (ty_prod t), (ty_exch t); auto. Qed.

Lemma reg_ok_fits reg m info : reg_ok reg = true -> lookup reg m = Some info ->
  init_fits (m_mode info) (m_sty info) = true.
Proof.
  unfold reg_ok, lookup. intros H Hl. apply andb_true_iff in H as [_ H].
  rewrite forallb_forall in H. apply H. eapply nth_error_In; eauto.
Qed.

Lemma reg_ok_names reg i j a b : reg_ok reg = true -> lookup reg i = Some a -> lookup reg j = Some b ->
  i <> j -> m_name a <> m_name b.
Proof.
  unfold reg_ok, lookup. intros H Hi Hj Hne He. apply andb_true_iff in H as [H _].
  apply Hne. eapply names_distinct_inj; eauto.
Qed.

(* ---- the invariant of every reachable state ---- *)
Definition pay_ok (reg : registry) (p : payload) (pv : prov) : Prop :=
  match p, pv with
  | PCursor c s, (KCursor, m, c') => c = c' /\ exists info, lookup reg m = Some info /\ st_ty s = m_sty info
  | PCall c r, (KCall, m, c') => c = c' /\ exists info, lookup reg m = Some info /\ r = resolved_for info c
  | _, _ => False
  end.
Definition wf_tok (reg : registry) (t : tokS) (pv : prov) : Prop :=
  exists n p, t = mintS n p /\ pay_ok reg p pv.
Definition toks_ok (reg : registry) (toks : list tokS) (ptoks : list prov) (nc : N) : Prop :=
  Forall2 (wf_tok reg) toks ptoks
  /\ (forall k m c, In (k, m, c) ptoks -> c < nc)
  /\ (forall k m c k' m', In (k, m, c) ptoks -> In (k', m', c) ptoks -> m = m').
(* every cache entry of a call is the fixed half that was minted for that call (so it
   names the method that minted it) *)
Definition cache_ok (reg : registry) (ch : cache) (ptoks : list prov) : Prop :=
  forall c r, cache_get c ch = Some r ->
    exists k m info, In (k, m, c) ptoks /\ lookup reg m = Some info /\ r = resolved_for info c.
Definition inv (reg : registry) (s : stS) (ptoks : list prov) : Prop :=
  toks_ok reg (s_toks _ s) ptoks (s_ncalls _ s)
  /\ (forall i, cache_ok reg (ch_of _ s i) ptoks)
  /\ (forall i, (length (ch_of _ s i) <= cap_of _ s i)%nat).

(* ---- the LRU list ---- *)
Lemma get_remove_key c c0 ch :
  cache_get c0 (remove_key c ch) = if c =? c0 then None else cache_get c0 ch.
Proof.
  induction ch as [|[c' r] t IH]; cbn [remove_key cache_get]; [now destruct (c =? c0)|].
  destruct (c' =? c) eqn:E1.
  - apply N.eqb_eq in E1; subst c'. rewrite IH. destruct (c =? c0); reflexivity.
  - cbn [cache_get]. rewrite IH. destruct (c' =? c0) eqn:E2; [|reflexivity].
    apply N.eqb_eq in E2; subst c'. rewrite N.eqb_sym in E1. now rewrite E1.
Qed.

(* trimming the back never changes what a surviving key maps to *)
Lemma get_firstn n c ch r : cache_get c (firstn n ch) = Some r -> cache_get c ch = Some r.
Proof.
  revert ch; induction n as [|n IH]; intros [|[c' r'] t]; cbn [firstn cache_get]; try discriminate.
  destruct (c' =? c); auto.
Qed.

Lemma get_put cap c r ch c0 r0 :
  cache_get c0 (cache_put cap c r ch) = Some r0 ->
  (c0 = c /\ r0 = r) \/ (c0 <> c /\ cache_get c0 ch = Some r0).
Proof.
  unfold cache_put. intros H. apply get_firstn in H. cbn [cache_get] in H.
  destruct (c =? c0) eqn:E.
  - apply N.eqb_eq in E; subst. inversion H; auto.
  - rewrite get_remove_key, E in H. apply N.eqb_neq in E. right; split; auto.
Qed.

(* a hit only reorders *)
Lemma get_touch c ch c0 : cache_get c0 (touch c ch) = cache_get c0 ch.
Proof.
  unfold touch. destruct (cache_get c ch) as [r|] eqn:E; [|reflexivity].
  cbn [cache_get]. destruct (c =? c0) eqn:E0.
  - apply N.eqb_eq in E0; subst. now rewrite E.
  - now rewrite get_remove_key, E0.
Qed.

Lemma length_remove_key c ch : (length (remove_key c ch) <= length ch)%nat.
Proof.
  induction ch as [|[c' r] t IH]; cbn [remove_key length]; [lia|].
  destruct (c' =? c); cbn [length]; lia.
Qed.
Lemma length_remove_key_hit c ch r :
  cache_get c ch = Some r -> (S (length (remove_key c ch)) <= length ch)%nat.
Proof.
  induction ch as [|[c' r'] t IH]; cbn [remove_key cache_get length]; [discriminate|].
  destruct (c' =? c); intros H.
  - pose proof (length_remove_key c t). lia.
  - cbn [length]. specialize (IH H). lia.
Qed.
Lemma length_touch c ch : (length (touch c ch) <= length ch)%nat.
Proof.
  unfold touch. destruct (cache_get c ch) as [r|] eqn:E; [|lia].
  cbn [length]. eapply length_remove_key_hit; eauto.
Qed.
Lemma length_put cap c r ch : (length (cache_put cap c r ch) <= cap)%nat.
Proof. unfold cache_put. rewrite firstn_length. lia. Qed.

Lemma cache_ok_nil reg ptoks : cache_ok reg [] ptoks.
Proof. intros c r H; discriminate. Qed.
Lemma cache_ok_app reg ch ptoks more : cache_ok reg ch ptoks -> cache_ok reg ch (ptoks ++ more).
Proof.
  intros H c r Hg. destruct (H c r Hg) as (k & m & info & Hin & Hl & Hn).
  exists k, m, info. split; [apply in_or_app; auto | auto].
Qed.
Lemma cache_ok_put reg cap ch ptoks c r k m info :
  cache_ok reg ch ptoks -> In (k, m, c) ptoks -> lookup reg m = Some info -> r = resolved_for info c ->
  cache_ok reg (cache_put cap c r ch) ptoks.
Proof.
  intros H Hin Hl Hn c0 r0 Hg. apply get_put in Hg as [[-> ->] | [_ Hg]]; [eauto 6 | exact (H _ _ Hg)].
Qed.
Lemma cache_ok_touch reg ch ptoks c : cache_ok reg ch ptoks -> cache_ok reg (touch c ch) ptoks.
Proof. intros H c0 r0. rewrite get_touch. apply H. Qed.

(* projections through the state updates *)
Lemma toks_set_cache (s : stS) i cap ch : s_toks _ (set_cache _ s i cap ch) = s_toks _ s.
Proof. destruct i; reflexivity. Qed.
Lemma ncalls_set_cache (s : stS) i cap ch : s_ncalls _ (set_cache _ s i cap ch) = s_ncalls _ s.
Proof. destruct i; reflexivity. Qed.
Lemma ch_set_cache (s : stS) i cap ch j :
  ch_of _ (set_cache _ s i cap ch) j = if Bool.eqb i j then ch else ch_of _ s j.
Proof. destruct i, j; reflexivity. Qed.
Lemma cap_set_cache (s : stS) i cap ch j :
  cap_of _ (set_cache _ s i cap ch) j = if Bool.eqb i j then cap else cap_of _ s j.
Proof. destruct i, j; reflexivity. Qed.
Lemma toks_store (s : stS) i p : s_toks _ (store _ s i p) = s_toks _ s.
Proof. unfold store. destruct p as [[c r]|]; [apply toks_set_cache|reflexivity]. Qed.
Lemma ncalls_store (s : stS) i p : s_ncalls _ (store _ s i p) = s_ncalls _ s.
Proof. unfold store. destruct p as [[c r]|]; [apply ncalls_set_cache|reflexivity]. Qed.
Lemma toks_touched (s : stS) i t : s_toks _ (touched _ s i t) = s_toks _ s.
Proof. unfold touched. destruct t; [apply toks_set_cache|reflexivity]. Qed.
Lemma ncalls_touched (s : stS) i t : s_ncalls _ (touched _ s i t) = s_ncalls _ s.
Proof. unfold touched. destruct t; [apply ncalls_set_cache|reflexivity]. Qed.
Lemma ch_add_toks (s : stS) ts a b j : ch_of _ (add_toks _ s ts a b) j = ch_of _ s j.
Proof. destruct j; reflexivity. Qed.
Lemma cap_add_toks (s : stS) ts a b j : cap_of _ (add_toks _ s ts a b) j = cap_of _ s j.
Proof. destruct j; reflexivity. Qed.

Lemma inv_set_cache reg s ptoks i cap ch :
  inv reg s ptoks -> cache_ok reg ch ptoks -> (length ch <= cap)%nat ->
  inv reg (set_cache _ s i cap ch) ptoks.
Proof.
  intros (Ht & Hc & Hl) Hch Hlen. split; [|split].
  - now rewrite toks_set_cache, ncalls_set_cache.
  - intros j. rewrite ch_set_cache. destruct (Bool.eqb i j); auto.
  - intros j. rewrite ch_set_cache, cap_set_cache. destruct (Bool.eqb i j); auto.
Qed.

Lemma inv_empty_cache reg s ptoks i cap : inv reg s ptoks -> inv reg (set_cache _ s i cap []) ptoks.
Proof. intros H. apply inv_set_cache; [exact H | apply cache_ok_nil | cbn; lia]. Qed.

Lemma inv_store reg s ptoks i c r :
  inv reg s ptoks ->
  (exists k m info, In (k, m, c) ptoks /\ lookup reg m = Some info /\ r = resolved_for info c) ->
  inv reg (store _ s i (Some (c, r))) ptoks.
Proof.
  intros Hi (k & m & info & Hin & Hl & Hn). unfold store.
  apply inv_set_cache; [exact Hi | | apply length_put]. destruct Hi as (_ & Hc & _). eapply cache_ok_put; eauto.
Qed.

Lemma inv_touched reg s ptoks i t : inv reg s ptoks -> inv reg (touched _ s i t) ptoks.
Proof.
  intros Hi. unfold touched. destruct t as [c|]; [|exact Hi].
  pose proof Hi as (_ & Hc & Hl).
  apply inv_set_cache; [exact Hi | apply cache_ok_touch, Hc |].
  etransitivity; [apply length_touch | apply Hl].
Qed.

Lemma inv_add reg s ptoks ts pvs dc dn :
  inv reg s ptoks -> Forall2 (wf_tok reg) ts pvs ->
  (forall k m c, In (k, m, c) pvs -> c < s_ncalls _ s + dc) ->
  (forall k m c k' m', In (k, m, c) (ptoks ++ pvs) -> In (k', m', c) pvs -> m = m') ->
  inv reg (add_toks _ s ts dc dn) (ptoks ++ pvs).
Proof.
  intros ((Hf & Hfr & Hown) & Hc & Hlen) Hts Hnew Hownew. split; [split; [|split]|split].
  - cbn [add_toks s_toks]. apply Forall2_app; assumption.
  - cbn [add_toks s_ncalls]. intros k m c Hin. apply in_app_or in Hin as [Hin|Hin].
    + specialize (Hfr _ _ _ Hin). lia.
    + eauto.
  - intros k m c k' m' H1 H2. apply in_app_or in H2 as [H2|H2].
    + apply in_app_or in H1 as [H1|H1]; [eauto|].
      symmetry. eapply Hownew; [apply in_or_app; left; exact H2 | exact H1].
    + eapply Hownew; eauto.
  - intros j. rewrite ch_add_toks. apply cache_ok_app, Hc.
  - intros j. rewrite ch_add_toks, cap_add_toks. apply Hlen.
Qed.

(* ---- presented tokens versus their provenance ---- *)
Lemma deref_some reg (s : stS) ptoks slot id re pv :
  Forall2 (wf_tok reg) (s_toks _ s) ptoks -> nth_error ptoks id = Some pv ->
  exists n p, pay_ok reg p pv /\
    deref _ s slot (TTok id re) = Some (if re then reenvelope _ slot (mintS n p) else mintS n p).
Proof.
  intros Hf Hn. destruct (Forall2_nth_r _ _ _ _ _ Hf Hn) as (t & Ht & n & p & -> & Hp).
  exists n, p. split; [exact Hp|]. cbn [deref]. rewrite Ht. reflexivity.
Qed.

Lemma deref_none reg (s : stS) ptoks slot r :
  Forall2 (wf_tok reg) (s_toks _ s) ptoks -> pderef ptoks r = None -> deref _ s slot r = None.
Proof.
  intros Hf. destruct r as [|id re]; [reflexivity|]. cbn [pderef deref]. intros Hn.
  destruct (nth_error (s_toks _ s) id) as [t|] eqn:Et; [|reflexivity].
  destruct (Forall2_nth_l _ _ _ _ _ Hf Et) as (b & Hb & _). congruence.
Qed.

(* anything in the cursor slot that opens is a cursor token with a cursor provenance *)
Lemma cursor_slot_opens reg (s : stS) ptoks cur tcur c s0 :
  Forall2 (wf_tok reg) (s_toks _ s) ptoks ->
  deref _ s KCursor cur = Some tcur -> openS KCursor tcur = Some (PCursor c s0) ->
  exists m info, pderef ptoks cur = Some (KCursor, m, c) /\ In (KCursor, m, c) ptoks
                 /\ lookup reg m = Some info /\ st_ty s0 = m_sty info.
Proof.
  intros Hf Hd Ho. destruct cur as [|id re]; [discriminate|].
  destruct (pderef ptoks (TTok id re)) as [pv|] eqn:Ep.
  - cbn [pderef] in Ep. destruct (deref_some reg s ptoks KCursor id re pv Hf Ep) as (n & p & Hp & Hd').
    rewrite Hd' in Hd; inversion Hd; subst tcur. rewrite openS_env in Ho.
    destruct p as [c1 s1|c1 r1]; cbn [pl_kind kind_eqb] in Ho; [|discriminate].
    inversion Ho; subst. destruct pv as [[k m] c']. cbn [pay_ok] in Hp.
    destruct k; [|contradiction]. destruct Hp as [<- (info & Hl & Hs)].
    exists m, info. cbn [pderef]. repeat split; auto. eapply nth_error_In; eauto.
  - rewrite (deref_none reg s ptoks KCursor _ Hf Ep) in Hd. discriminate.
Qed.

Lemma call_slot_opens reg (s : stS) ptoks call t c r :
  Forall2 (wf_tok reg) (s_toks _ s) ptoks ->
  deref _ s KCall call = Some t -> openS KCall t = Some (PCall c r) ->
  exists m info, In (KCall, m, c) ptoks /\ lookup reg m = Some info /\ r = resolved_for info c.
Proof.
  intros Hf Hd Ho. destruct call as [|id re]; [discriminate|].
  destruct (pderef ptoks (TTok id re)) as [pv|] eqn:Ep.
  - cbn [pderef] in Ep. destruct (deref_some reg s ptoks KCall id re pv Hf Ep) as (n & p & Hp & Hd').
    rewrite Hd' in Hd; inversion Hd; subst t. rewrite openS_env in Ho.
    destruct p as [c1 s1|c1 r1]; cbn [pl_kind kind_eqb] in Ho; [discriminate|].
    inversion Ho; subst. destruct pv as [[k m] c']. cbn [pay_ok] in Hp.
    destruct k; [contradiction|]. destruct Hp as [<- (info & Hl & Hs)].
    exists m, info. repeat split; auto. eapply nth_error_In; eauto.
  - rewrite (deref_none reg s ptoks KCall _ Hf Ep) in Hd. discriminate.
Qed.

(* under the invariant, every cache entry and every presentable call token of call c
   names the method that minted c *)
Lemma inv_cache_names reg s ptoks i k m c info :
  inv reg s ptoks -> In (k, m, c) ptoks -> lookup reg m = Some info ->
  cache_names (on_of _ s i) (ch_of _ s i) c (m_name info).
Proof.
  intros ((_ & _ & Hown) & Hc & _) Hin Hl r _ Hg.
  destruct (Hc i c r Hg) as (k2 & m2 & info2 & Hin2 & Hl2 & Hn).
  assert (m2 = m) by (eapply Hown; eauto). subst m2 r. cbn [resolved_for r_meth]. congruence.
Qed.

Lemma inv_slot_names reg s ptoks call k m c info :
  inv reg s ptoks -> In (k, m, c) ptoks -> lookup reg m = Some info ->
  slot_names sym_ct sym_open (deref _ s KCall call) c (m_name info).
Proof.
  intros ((Hf & _ & Hown) & _) Hin Hl t r Hd Ho.
  destruct (call_slot_opens reg s ptoks call t c r Hf Hd Ho) as (m2 & info2 & Hin2 & Hl2 & Hn).
  assert (m2 = m) by (eapply Hown; eauto). subst m2 r. cbn [resolved_for r_meth]. congruence.
Qed.

Lemma one_turn_trace route info s cancel :
  one_turn route cancel (turn_trace route info s cancel) = true.
Proof.
  unfold turn_trace, one_turn.
  destruct cancel, (ty_canc (st_ty s)), (is_producer (m_mode info) (st_ty s));
    cbn [app negb Bool.eqb andb]; rewrite ?Nat.eqb_refl; reflexivity.
Qed.

(* ---- one continuation of a history satisfies the property's clauses ---- *)
Lemma cont_ok_model reg s ptoks i route cur call cancel b rfail :
  reg_ok reg = true -> inv reg s ptoks ->
  cont_ok reg route cur call cancel b rfail (pderef ptoks cur) (pderef ptoks call)
    (o_res (contS reg route b cancel rfail (on_of _ s i) (ch_of _ s i)
                  (deref _ s KCursor cur) (deref _ s KCall call))) = true.
Proof.
  intros Hreg Hinv. pose proof Hinv as ((Hf & Hfr & Hown) & Hc & _).
  unfold cont_ok. rewrite (cont_no_panic sym_ct sym_open), (cont_tags sym_ct sym_open).
  cbn [negb andb]. rewrite andb_true_r. apply andb_true_iff; split.
  - (* foreign_ok *)
    unfold foreign_ok.
    assert (H4xx : forall pc, pderef ptoks cur = pc ->
              (forall m c, pc <> Some (KCursor, m, c)) ->
              let x := o_res (contS reg route b cancel rfail (on_of _ s i) (ch_of _ s i)
                                    (deref _ s KCursor cur) (deref _ s KCall call)) in
              (400 <=? r_status x) && (r_status x <? 500) && no_code x && negb (r_tok x) = true).
    { intros pc Ep Hnc x. subst x.
      pose proof (cont_4xx_or_run sym_ct sym_open reg route b cancel rfail (on_of _ s i) (ch_of _ s i)
                    (deref _ s KCursor cur) (deref _ s KCall call)) as H. cbv zeta in H.
      destruct H as [(Hs & Ht & Hk & _) | (info & tcur & c0 & s0 & call0 & stored & _ & Hd & Ho & _)].
      - rewrite Hs, Hk. unfold no_code. rewrite Ht. destruct (lookup reg route); reflexivity.
      - exfalso. destruct (cursor_slot_opens reg s ptoks cur tcur c0 s0 Hf Hd Ho) as (m2 & info2 & Hp2 & _).
        apply (Hnc m2 c0). congruence. }
    destruct (pderef ptoks cur) as [[[k m] c]|] eqn:Ep.
    + destruct k.
      * destruct (Nat.eqb m route) eqn:Emr; [reflexivity|]. apply Nat.eqb_neq in Emr.
        destruct cur as [|id re]; [discriminate|]. cbn [pderef] in Ep.
        destruct (deref_some reg s ptoks KCursor id re _ Hf Ep) as (n & p & Hp & Hd).
        destruct p as [c1 s1|c1 r1]; cbn [pay_ok] in Hp; [|contradiction].
        destruct Hp as [<- (info & Hl & Hs)]. rewrite Hd.
        assert (Hin : In (KCursor, m, c1) ptoks) by (eapply nth_error_In; eauto).
        destruct (lookup reg route) as [info'|] eqn:El.
        -- pose proof (foreign_refused_lemma sym_ct sym_seal sym_open sym_open_seal reg route info'
                         (m_name info) c1 s1 n re b cancel rfail (on_of _ s i) (ch_of _ s i)
                         (deref _ s KCall call) El) as H. cbv zeta in H.
           destruct H as (Hres & _ & _).
           ++ eapply reg_ok_names; eauto.
           ++ eapply inv_cache_names; eauto.
           ++ eapply inv_slot_names; eauto.
           ++ rewrite Hres. reflexivity.
        -- unfold continue_dec. rewrite El. reflexivity.
      * apply (H4xx _ eq_refl). intros m0 c0 H; discriminate.
    + apply (H4xx _ eq_refl). intros m0 c0 H; discriminate.
  - (* live_ok *)
    unfold live_ok.
    destruct (pderef ptoks cur) as [[[k m] c]|] eqn:Ep; [|reflexivity]. destruct k; [|reflexivity].
    destruct (pderef ptoks call) as [[[k' m'] c']|] eqn:Epk; [|reflexivity]. destruct k'; [reflexivity|].
    destruct cur as [|id re]; [reflexivity|]. destruct re; [reflexivity|].
    destruct call as [|id' re']; [reflexivity|]. destruct re'; [reflexivity|].
    destruct (lookup reg route) as [info|] eqn:El; [|reflexivity].
    destruct (Nat.eqb m route && Nat.eqb m' route && (c =? c') && negb rfail
              && negb (cast_blocks info b cancel)) eqn:Econd; [|reflexivity].
    apply andb_true_iff in Econd as [Econd Hcast]. apply andb_true_iff in Econd as [Econd Hrf].
    apply andb_true_iff in Econd as [Econd Hcc]. apply andb_true_iff in Econd as [Hm Hm'].
    apply Nat.eqb_eq in Hm, Hm'. apply N.eqb_eq in Hcc. apply negb_true_iff in Hrf, Hcast.
    subst m m' c' rfail. cbn [pderef] in Ep, Epk.
    destruct (deref_some reg s ptoks KCursor id false _ Hf Ep) as (n & p & Hp & Hd).
    destruct (deref_some reg s ptoks KCall id' false _ Hf Epk) as (n' & p' & Hp' & Hd').
    destruct p as [c1 s1|? ?]; cbn [pay_ok] in Hp; [|contradiction].
    destruct Hp as [-> (info1 & Hl1 & Hs1)].
    destruct p' as [? ?|c2 r2]; cbn [pay_ok] in Hp'; [contradiction|].
    destruct Hp' as [-> (info2 & Hl2 & Hn2)].
    rewrite El in Hl1, Hl2. inversion Hl1; inversion Hl2; subst info1 info2.
    rewrite Hd, Hd'.
    assert (Hn2' : r_meth r2 = m_name info) by (rewrite Hn2; reflexivity).
    pose proof (own_accepted_lemma sym_ct sym_seal sym_open sym_open_seal reg route info c s1 n n' r2 b
                  cancel (on_of _ s i) (ch_of _ s i) El Hn2') as H. cbv zeta in H.
    destruct H as [Hres _].
    + rewrite Hs1. apply init_fits_state_fits. eapply reg_ok_fits; eauto.
    + eapply inv_cache_names; eauto. eapply nth_error_In; eauto.
    + exact Hcast.
    + rewrite Hres. cbn [r_status r_trace r_tok]. rewrite one_turn_trace, N.eqb_refl.
      destruct cancel; reflexivity.
Qed.

(* ---- ... and leads to a state that satisfies the invariant again ---- *)
Lemma cont_inv reg s ptoks i route cur call cancel b rfail :
  reg_ok reg = true -> inv reg s ptoks ->
  let out := contS reg route b cancel rfail (on_of _ s i) (ch_of _ s i)
                   (deref _ s KCursor cur) (deref _ s KCall call) in
  let s1 := store _ (touched _ s i (o_touch out)) i (o_put out) in
  let s2 := match o_next out with
            | Some (c, nx) => add_toks _ s1 [mintS (s_nonce _ s1) (PCursor c nx)] 0 1
            | None => s1
            end in
  inv reg s2 (next_ptoks ptoks (pderef ptoks cur) (o_res out)) /\ s_ncalls _ s2 = s_ncalls _ s.
Proof.
  intros Hreg Hinv. cbv zeta. pose proof Hinv as ((Hf & Hfr & Hown) & Hc & _).
  remember (contS reg route b cancel rfail (on_of _ s i) (ch_of _ s i)
                  (deref _ s KCursor cur) (deref _ s KCall call)) as out eqn:Eout.
  assert (Hinv0 : inv reg (touched _ s i (o_touch out)) ptoks) by (apply inv_touched, Hinv).
  assert (Hinv1 : inv reg (store _ (touched _ s i (o_touch out)) i (o_put out)) ptoks).
  { destruct (o_put out) as [[c r]|] eqn:Eput; [|exact Hinv0].
    apply inv_store; [exact Hinv0|]. rewrite Eout in Eput.
    apply cont_put in Eput as (tcur & s0 & t & Hd & Ho & Hdk & Hok).
    destruct (call_slot_opens reg s ptoks call t c r Hf Hdk Hok) as (m & info & Hin & Hl & Hn). eauto 8. }
  pose proof (cont_next sym_ct sym_open reg route b cancel rfail (on_of _ s i) (ch_of _ s i)
                (deref _ s KCursor cur) (deref _ s KCall call)) as Hnx.
  cbv zeta in Hnx. rewrite <- Eout in Hnx.
  destruct (o_next out) as [[c nx]|].
  - destruct Hnx as (Htok & tcur & s0 & Hd & Ho & Hty).
    destruct (cursor_slot_opens reg s ptoks cur tcur c s0 Hf Hd Ho) as (m & info & Hp & Hin & Hl & Hs).
    unfold next_ptoks. rewrite Htok, Hp. split.
    + apply inv_add.
      * exact Hinv1.
      * constructor; [|constructor]. eexists _, (PCursor c nx).
        split; [reflexivity|]. cbn [pay_ok]. split; [reflexivity|]. exists info. split; [auto|congruence].
      * intros k0 m0 c0 [H|[]]. inversion H; subst. rewrite ncalls_store, ncalls_touched. specialize (Hfr _ _ _ Hin). lia.
      * intros k0 m0 c0 k' m' H1 [H2|[]]. inversion H2; subst. apply in_app_or in H1 as [H1|[H1|[]]].
        -- eapply Hown; eauto.
        -- inversion H1; auto.
    + cbn [add_toks s_ncalls]. rewrite ncalls_store, ncalls_touched. lia.
  - unfold next_ptoks. rewrite Hnx. split; [exact Hinv1|]. rewrite ncalls_store. apply ncalls_touched.
Qed.

Lemma init_inv reg s ptoks i m info :
  reg_ok reg = true -> inv reg s ptoks -> lookup reg m = Some info ->
  let c := s_ncalls _ s in
  let s0 := {| st_ty := m_sty info; st_pos := if is_producer (m_mode info) (m_sty info) then 1 else 0 |} in
  let r := resolved_for info c in
  let s' := store _ (add_toks _ s [mintS (s_nonce _ s) (PCursor c s0); mintS (s_nonce _ s + 1) (PCall c r)] 1 2)
                  i (Some (c, r)) in
  inv reg s' (ptoks ++ [(KCursor, m, c); (KCall, m, c)]) /\ s_ncalls _ s' = c + 1.
Proof.
  intros Hreg Hinv Hl. cbv zeta. pose proof Hinv as ((Hf & Hfr & Hown) & Hc & _). split.
  - apply inv_store.
    + apply inv_add.
      * exact Hinv.
      * constructor; [|constructor; [|constructor]].
        -- eexists _, (PCursor _ _). split; [reflexivity|]. cbn [pay_ok st_ty]. eauto.
        -- eexists _, (PCall _ _). split; [reflexivity|]. cbn [pay_ok]. eauto.
      * intros k0 m0 c0 [H|[H|[]]]; inversion H; subst; lia.
      * intros k0 m0 c0 k' m' H1 H2.
        assert (c0 = s_ncalls _ s /\ m' = m) as [-> ->]
          by (destruct H2 as [H2|[H2|[]]]; inversion H2; auto).
        apply in_app_or in H1 as [H1|[H1|[H1|[]]]].
        -- specialize (Hfr _ _ _ H1). lia.
        -- inversion H1; auto.
        -- inversion H1; auto.
    + exists KCall, m, info. split; [apply in_or_app; right; right; left; reflexivity|]. auto.
  - rewrite ncalls_store. reflexivity.
Qed.

(* ---- the main theorem in decidable form: every history, every registry ---------- *)
Lemma spec_run_model reg : reg_ok reg = true ->
  forall ops s ptoks nc, inv reg s ptoks -> s_ncalls _ s = nc ->
  spec_run reg ops (run sym_ct sym_seal reg contS s ops) ptoks nc = true.
Proof.
  intros Hreg. induction ops as [|o ops IH]; intros s ptoks nc Hinv Hnc; [reflexivity|].
  destruct o as [i m|i|i|i|i route cur call cancel b rfail]; cbn [run step].
  - (* /init *)
    destruct (lookup reg m) as [info|] eqn:El.
    + rewrite (reg_ok_fits reg m info Hreg El). cbn [negb].
      cbn [spec_run]. rewrite El. cbn [r_panic r_tok r_status r_trace no_code negb andb]. rewrite N.eqb_refl.
      cbn [andb]. pose proof (init_inv reg s ptoks i m info Hreg Hinv El) as H. cbv zeta in H.
      destruct H as [Hi Hn]. subst nc. apply IH; [exact Hi | exact Hn].
    + cbn [spec_run]. rewrite El. cbn. apply IH; auto.
  - cbn [spec_run]. cbn [quiet r_panic r_trace no_code negb andb]. apply IH.
    + apply inv_empty_cache; exact Hinv.
    + now rewrite ncalls_set_cache.
  - cbn [spec_run]. cbn [quiet r_panic r_trace no_code negb andb]. apply IH.
    + apply inv_empty_cache; exact Hinv.
    + now rewrite ncalls_set_cache.
  - cbn [spec_run]. cbn [quiet r_panic r_trace no_code negb andb]. apply IH.
    + apply inv_empty_cache; exact Hinv.
    + now rewrite ncalls_set_cache.
  - (* continuation *)
    cbn [spec_run]. apply andb_true_iff; split.
    + apply cont_ok_model; assumption.
    + pose proof (cont_inv reg s ptoks i route cur call cancel b rfail Hreg Hinv) as H. cbv zeta in H.
      destruct H as [Hi Hn]. apply IH; [exact Hi | congruence].
Qed.

Lemma run_length reg dec (s : stS) ops : length (run sym_ct sym_seal reg dec s ops) = length ops.
Proof.
  revert s; induction ops as [|o ops IH]; intros s; [reflexivity|].
  cbn [run]. destruct (step sym_ct sym_seal reg dec s o) as [s' x]. cbn [length]. now rewrite IH.
Qed.

Lemma inv_st0 reg : inv reg (st0 sym_ct) [].
Proof.
  split; [split; [constructor | split; intros; contradiction] | split; intros [|]; try apply cache_ok_nil; cbn; lia].
Qed.

Lemma spec_ok_model_lemma i : spec_ok i (model i) = true.
Proof.
  unfold spec_ok, model. destruct (reg_ok (i_reg i)) eqn:Hreg.
  - apply spec_run_model; [exact Hreg | apply inv_st0 | reflexivity].
  - rewrite run_length. apply Nat.eqb_refl.
Qed.

(* ---- the same, read off a reachable state -------------------------------------- *)
(* who minted which token along a history (the model's own run decides which continuations
   returned a cursor) *)
Definition ptoks_step (reg : registry) (s : stS) (ptoks : list prov) (o : op) (x : result) : list prov :=
  match o with
  | OInit _ m => match lookup reg m with
                 | Some _ => ptoks ++ [(KCursor, m, s_ncalls _ s); (KCall, m, s_ncalls _ s)]
                 | None => ptoks
                 end
  | OCont _ _ cur _ _ _ _ => next_ptoks ptoks (pderef ptoks cur) x
  | _ => ptoks
  end.
Fixpoint ptoks_after (reg : registry) (s : stS) (ptoks : list prov) (ops : list op) : list prov :=
  match ops with
  | [] => ptoks
  | o :: r => let '(s', x) := step sym_ct sym_seal reg contS s o in
              ptoks_after reg s' (ptoks_step reg s ptoks o x) r
  end.

Lemma reach_inv reg : reg_ok reg = true ->
  forall ops s ptoks, inv reg s ptoks ->
  inv reg (exec sym_ct sym_seal reg contS s ops) (ptoks_after reg s ptoks ops).
Proof.
  intros Hreg. induction ops as [|o ops IH]; intros s ptoks Hinv; [exact Hinv|].
  cbn [exec ptoks_after]. destruct (step sym_ct sym_seal reg contS s o) as [s' x] eqn:Es. cbn [fst].
  apply IH. destruct o as [i m|i|i|i|i route cur call cancel b rfail]; cbn [step] in Es; cbn [ptoks_step].
  - destruct (lookup reg m) as [info|] eqn:El.
    + rewrite (reg_ok_fits reg m info Hreg El) in Es. cbn [negb] in Es. inversion Es; subst.
      pose proof (init_inv reg s ptoks i m info Hreg Hinv El) as H. cbv zeta in H. apply H.
    + inversion Es; subst. exact Hinv.
  - inversion Es; subst. apply inv_empty_cache; exact Hinv.
  - inversion Es; subst. apply inv_empty_cache; exact Hinv.
  - inversion Es; subst. apply inv_empty_cache; exact Hinv.
  - inversion Es; subst.
    pose proof (cont_inv reg s ptoks i route cur call cancel b rfail Hreg Hinv) as H. cbv zeta in H. apply H.
Qed.

Lemma foreign_refused_reachable_lemma reg pre : reg_ok reg = true ->
  let s := exec sym_ct sym_seal reg contS (st0 sym_ct) pre in
  let ptoks := ptoks_after reg (st0 sym_ct) [] pre in
  forall i route id re call cancel b rfail m c,
    nth_error ptoks id = Some (KCursor, m, c) -> m <> route ->
    let x := snd (step sym_ct sym_seal reg contS s (OCont i route (TTok id re) call cancel b rfail)) in
    r_status x = match lookup reg route with Some _ => 400 | None => 404 end
    /\ r_trace x = [] /\ r_panic x = false /\ r_tok x = false.
Proof.
  intros Hreg s ptoks i route id re call cancel b rfail m c Hn Hne x.
  assert (Hinv : inv reg s ptoks) by (apply reach_inv; [exact Hreg | apply inv_st0]).
  pose proof (cont_ok_model reg s ptoks i route (TTok id re) call cancel b rfail Hreg Hinv) as H.
  subst x. cbn [step snd]. unfold cont_ok in H.
  apply andb_true_iff in H as [H _]. apply andb_true_iff in H as [H _]. apply andb_true_iff in H as [Hp Hf].
  unfold foreign_ok in Hf. cbn [pderef] in Hf. rewrite Hn in Hf.
  apply Nat.eqb_neq in Hne. rewrite Hne in Hf.
  apply andb_true_iff in Hf as [Hf Htok]. apply andb_true_iff in Hf as [Hst Hcode].
  apply N.eqb_eq in Hst. apply negb_true_iff in Hp, Htok. unfold no_code in Hcode.
  repeat split; auto.
  destruct (r_trace _); [reflexivity | discriminate].
Qed.

(* ---- eviction is sound: whatever a bounded LRU cache still holds is what was minted -- *)
Lemma reachable_cache_lemma reg pre : reg_ok reg = true ->
  let s := exec sym_ct sym_seal reg contS (st0 sym_ct) pre in
  let ptoks := ptoks_after reg (st0 sym_ct) [] pre in
  forall i,
    (length (ch_of _ s i) <= cap_of _ s i)%nat
    /\ forall c r, cache_get c (ch_of _ s i) = Some r ->
         exists k m info, In (k, m, c) ptoks /\ lookup reg m = Some info /\ r = resolved_for info c.
Proof.
  intros Hreg s ptoks i.
  assert (Hinv : inv reg s ptoks) by (apply reach_inv; [exact Hreg | apply inv_st0]).
  destruct Hinv as (_ & Hc & Hl). split; [apply Hl | apply Hc].
Qed.

(* ---- the code before the repair ------------------------------------------------- *)
Definition legacy_panic_witness : input :=
  {| i_reg := std_reg;
     i_ops := [OInit false 6; OCont false 7 (TTok 0 false) (TTok 1 false) false Data false] |}.
Definition legacy_shared_witness : input :=
  {| i_reg := std_reg;
     i_ops := [OInit false 0; OCont false 2 (TTok 0 false) (TTok 1 false) false Data false] |}.

Lemma legacy_panic_lemma :
  reg_ok (i_reg legacy_panic_witness) = true
  /\ model_legacy legacy_panic_witness
     = [R 200 [] false [] true; R 0 [] true [ARehyd 3 7; AHook 7 false] false]
  /\ spec_ok legacy_panic_witness (model_legacy legacy_panic_witness) = false.
Proof. vm_compute. repeat split. Qed.

Lemma legacy_shared_lemma :
  reg_ok (i_reg legacy_shared_witness) = true
  /\ model_legacy legacy_shared_witness
     = [R 200 [] false [] true; R 200 [] false [ARehyd 1 2; AHook 2 false; AExchange 1] true]
  /\ spec_ok legacy_shared_witness (model_legacy legacy_shared_witness) = false.
Proof. vm_compute. repeat split. Qed.

(* the repaired handler on the same two requests *)
Lemma repaired_on_witnesses :
  model legacy_panic_witness = [R 200 [] false [] true; R 400 exc_runtime_error false [] false]
  /\ model legacy_shared_witness = [R 200 [] false [] true; R 400 exc_runtime_error false [] false].
Proof. vm_compute. split; reflexivity. Qed.
