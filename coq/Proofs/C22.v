(* Proofs/C22.v — lemmas for property C22 (statements of record: Props/C22.v). *)
From Coq Require Import List Bool NArith ZArith Lia.
From VR Require Import Model.C22.
Import ListNotations.
Local Open Scope N_scope.
Local Arguments N.eqb : simpl never.

(* ------------------------------------------------------------------ small facts *)
Lemma gate_beq_eq g h : gate_beq g h = true <-> g = h.
Proof. split; [apply internal_gate_dec_bl | apply internal_gate_dec_lb]. Qed.

Lemma rid_beq_eq r s : rid_beq r s = true <-> r = s.
Proof. split; [apply internal_rid_dec_bl | apply internal_rid_dec_lb]. Qed.

Lemma work_beq_eq r s : work_beq r s = true <-> r = s.
Proof. split; [apply internal_work_dec_bl | apply internal_work_dec_lb]. Qed.

Lemma auth_required_iff c pk r : auth_required c pk r = true <-> gate_of c pk r = G_auth.
Proof. unfold auth_required. apply gate_beq_eq. Qed.

Lemma wsubset_In a b : wsubset a b = true <-> forall w, In w a -> In w b.
Proof.
  unfold wsubset. rewrite forallb_forall. split; intros H w Hw.
  - apply H in Hw. apply existsb_exists in Hw. destruct Hw as [x [Hx E]]. apply work_beq_eq in E. now subst.
  - apply existsb_exists. exists w. split; [now apply H | now apply work_beq_eq].
Qed.

Lemma is_nil_true {A} (l : list A) : is_nil l = true <-> l = [].
Proof. destruct l; cbn; split; congruence. Qed.

(* ------------------------------------------------------------------ the finite lattice *)
Lemma all_configs_complete c : In c all_configs.
Proof.
  destruct c as [a b c d e f g h i j k l]. unfold all_configs.
  assert (Hb : forall x : bool, In x bools) by (intros []; cbn; auto).
  repeat (apply in_flat_map; eexists; split; [apply Hb|]).
  apply in_map_iff. eexists; split; [reflexivity | apply Hb].
Qed.

Lemma all_auth_complete a : In a all_auth.
Proof. destruct a; cbn; tauto. Qed.

(* at one lattice point (both values of the effective-PKCE flag): every
   registered route has a non-empty pattern string, and that string names it *)
Definition lattice_point_ok (c : config) : bool :=
  forallb (fun pk =>
    forallb (fun r =>
      let s := pat_str (route_pat c r) in
      negb (is_nil s)
      && match route_of_pat c pk s with Some r' => rid_beq r r' | None => false end)
    (registered c pk)) bools.

(* the whole lattice, 2^12 = 4096 configurations x 2, by computation *)
Lemma lattice_all_ok : forallb lattice_point_ok all_configs = true.
Proof. vm_compute. reflexivity. Qed.

Lemma lattice_size : N.of_nat (length all_configs) = 4096.
Proof. vm_compute. reflexivity. Qed.

Lemma pattern_names_route c pk r :
  In r (registered c pk) ->
  pat_str (route_pat c r) <> [] /\ route_of_pat c pk (pat_str (route_pat c r)) = Some r.
Proof.
  intro Hr. pose proof lattice_all_ok as H. rewrite forallb_forall in H.
  specialize (H c (all_configs_complete c)). unfold lattice_point_ok in H.
  rewrite forallb_forall in H. assert (Hpk : In pk bools) by (destruct pk; cbn; auto).
  specialize (H pk Hpk). rewrite forallb_forall in H. specialize (H r Hr). cbv zeta in H.
  apply andb_true_iff in H. destruct H as [H1 H2]. split.
  - intro E. rewrite E in H1. discriminate.
  - destruct (route_of_pat c pk (pat_str (route_pat c r))) as [r'|]; [|discriminate].
    apply rid_beq_eq in H2. now subst.
Qed.

(* ------------------------------------------------------------------ dispatch *)
Lemma find_in_registered c pk mo ss tr r : find_in c pk mo ss tr = Some r -> In r (registered c pk).
Proof. unfold find_in. intro H. now apply find_some in H. Qed.

Lemma dispatch_registered c pk m ss tr r : dispatch c pk m ss tr = D_route r -> In r (registered c pk).
Proof.
  unfold dispatch. destruct (find_in c pk (Some m) ss tr) eqn:E1.
  - intro H. inversion H. subst. eapply find_in_registered; eauto.
  - destruct (match m with M_HEAD => find_in c pk (Some M_GET) ss tr | _ => None end) eqn:E2.
    + intro H. inversion H. subst. destruct m; try discriminate. eapply find_in_registered; eauto.
    + destruct (find_in c pk None ss tr) eqn:E3.
      * intro H. inversion H. subst. eapply find_in_registered; eauto.
      * destruct (existsb _ _); discriminate.
Qed.

Lemma registered_guard c pk r : In r (registered c pk) <-> guard c pk r = true.
Proof.
  unfold registered. rewrite filter_In. split; [tauto|]. intro H. split; [|assumption].
  destruct r; cbn; tauto.
Qed.

(* ------------------------------------------------------------------ the gate *)
(* table level: a route whose first action is the authenticator does nothing
   else when the authenticator rejects, whatever the request *)
Lemma rejected_route c a x r ss q st :
  auth_outcome a = AR_rej st -> auth_required c (pkce_on c a) r = true ->
  run_route c a x r ss q = (st, [], true).
Proof.
  intros Ea Hg. apply auth_required_iff in Hg. unfold run_route, run_route_gen.
  unfold gate_of in Hg. rewrite Hg, Ea. reflexivity.
Qed.

(* routes that do not authenticate never run RPC / control code for a rejected caller *)
Lemma open_route_work c a x r ss q s0 st w cs :
  auth_outcome a = AR_rej s0 -> auth_required c (pkce_on c a) r = false ->
  run_route c a x r ss q = (st, w, cs) -> wsubset w (open_work r) = true.
Proof.
  intros Ea Hg. unfold auth_required in Hg. unfold run_route, run_route_gen. fold gate_of.
  destruct (gate_of c (pkce_on c a) r) eqn:Eg; try discriminate Hg.
  - destruct (auth_err a); intro H; inversion H; reflexivity.
  - intro H; inversion H; reflexivity.
  - unfold gate_of, gate_of_gen in Eg. unfold open_handler.
    destruct r; try discriminate Eg; try (destruct (c_introspect c); discriminate Eg);
      repeat match goal with
             | |- context [match ?x with _ => _ end] => destruct x
             end;
      intro H; inversion H; reflexivity.
Qed.

(* ------------------------------------------------------------------ main *)
Lemma bkind_beq_refl k : bkind_beq k k = true.
Proof. destruct k; reflexivity. Qed.

Theorem spec_ok_model i : spec_ok i (model i) = true.
Proof.
  destruct i as [c a x q]. unfold spec_ok, model, serve, serve_gen.
  destruct (auth_outcome a) as [|s0] eqn:Ea; [reflexivity|].
  destruct (parse_path (q_path q)) as [[ss tr]|].
  2:{ destruct (is_options (q_meth q)); [reflexivity|]. destruct (pre413 c q); reflexivity. }
  destruct (is_options (q_meth q)) eqn:Eo; [reflexivity|].
  destruct (pre413 c q) eqn:E4; [reflexivity|].
  destruct (dispatch c (pkce_on c a) (q_meth q) ss tr) as [r| |] eqn:Ed; [|reflexivity|reflexivity].
  apply dispatch_registered in Ed. destruct (pattern_names_route _ _ _ Ed) as [Hne Hrt].
  fold (run_route c a x r ss q). destruct (run_route c a x r ss q) as [[st w] cs] eqn:Er.
  cbn [o_pat o_status o_work o_consulted o_body].
  destruct (pat_str (route_pat c r)) as [|b s] eqn:Ep; [congruence|].
  rewrite Hrt. destruct (auth_required c (pkce_on c a) r) eqn:Eg.
  - rewrite (rejected_route c a x r ss q s0 Ea Eg) in Er. inversion Er. subst.
    apply auth_required_iff in Eg. unfold gate_of in Eg. rewrite Eg.
    rewrite N.eqb_refl, bkind_beq_refl. reflexivity.
  - eapply open_route_work; eauto.
Qed.

Lemma rejected_request c a x q r st :
  auth_outcome a = AR_rej st -> routed c a q = Some r -> auth_required c (pkce_on c a) r = true ->
  o_work (serve c a x q) = [] /\ o_status (serve c a x q) = st /\ o_consulted (serve c a x q) = true
  /\ o_body (serve c a x q) = Some (bk_of st).
Proof.
  intros Ea Hr Hg. unfold routed in Hr. unfold serve, serve_gen.
  destruct (is_options (q_meth q)); [discriminate|].
  destruct (pre413 c q); [discriminate|].
  destruct (parse_path (q_path q)) as [[ss tr]|]; [|discriminate].
  destruct (dispatch c (pkce_on c a) (q_meth q) ss tr) as [r'| |]; try discriminate.
  inversion Hr. subst r'. fold (run_route c a x r ss q).
  rewrite (rejected_route c a x r ss q st Ea Hg). cbn [o_work o_status o_consulted o_body].
  apply auth_required_iff in Hg. unfold gate_of in Hg. rewrite Hg, Ea. auto.
Qed.

(* the verdict is a function of the error component only: the context the
   callback returned along with its error changes nothing on a gated route *)
Lemma context_irrelevant c a x x' q r st :
  auth_outcome a = AR_rej st -> routed c a q = Some r -> auth_required c (pkce_on c a) r = true ->
  serve c a x q = serve c a x' q.
Proof.
  intros Ea Hr Hg. unfold routed in Hr. unfold serve, serve_gen.
  destruct (is_options (q_meth q)); [discriminate|].
  destruct (pre413 c q); [discriminate|].
  destruct (parse_path (q_path q)) as [[ss tr]|]; [|discriminate].
  destruct (dispatch c (pkce_on c a) (q_meth q) ss tr) as [r'| |]; try discriminate.
  inversion Hr. subst r'. fold (run_route c a x r ss q). fold (run_route c a x' r ss q).
  rewrite (rejected_route c a x r ss q st Ea Hg), (rejected_route c a x' r ss q st Ea Hg). reflexivity.
Qed.

Lemma routed_registered c a q r : routed c a q = Some r -> In r (registered c (pkce_on c a)).
Proof.
  unfold routed. destruct (is_options (q_meth q)); [discriminate|].
  destruct (pre413 c q); [discriminate|].
  destruct (parse_path (q_path q)) as [[ss tr]|]; [|discriminate].
  destruct (dispatch c (pkce_on c a) (q_meth q) ss tr) eqn:Ed; try discriminate.
  intro H. inversion H. subst. eapply dispatch_registered; eauto.
Qed.

(* ------------------------------------------------------------------ open routes *)
Definition disabled_stub (c : config) (r : rid) : Prop := r = R_introspect /\ c_introspect c = false.

Lemma rpc_control_gated c pk r :
  route_class r = RC_rpc \/ route_class r = RC_control ->
  auth_required c pk r = true \/ (disabled_stub c r /\ gate_of c pk r = G_stub).
Proof.
  unfold auth_required, gate_of, gate_of_gen, disabled_stub.
  destruct r; cbn; intros [H|H]; try discriminate H; auto.
  destruct (c_introspect c); cbn; auto.
Qed.

Lemma ungated_open c pk r :
  auth_required c pk r = false -> class_open (route_class r) = true \/ disabled_stub c r.
Proof.
  unfold auth_required, gate_of, gate_of_gen, disabled_stub.
  destruct r; cbn; auto; try discriminate.
  destruct (c_introspect c); cbn; auto.
Qed.

Lemma is_options_true m : is_options m = true <-> m = M_OPTIONS.
Proof. destruct m; cbn; split; congruence. Qed.

Lemma unauthenticated_reach c a x q st :
  auth_outcome a = AR_rej st ->
  let o := serve c a x q in
  (o_work o = [] /\ o_status o = st /\ o_consulted o = true)
  \/ (q_meth q = M_OPTIONS /\ o_status o = 204 /\ o_work o = [] /\ o_consulted o = false)
  \/ (q_meth q <> M_OPTIONS /\ routed c a q = None /\ o_work o = [] /\ o_consulted o = false
      /\ In (o_status o) [redirect_status; 404; 405; 413]
      /\ (o_status o = 413 <-> pre413 c q = true))
  \/ (exists r, routed c a q = Some r /\ In r (registered c (pkce_on c a))
        /\ auth_required c (pkce_on c a) r = false
        /\ (class_open (route_class r) = true \/ disabled_stub c r)
        /\ forall w, In w (o_work o) -> In w (open_work r)).
Proof.
  intros Ea o. subst o.
  destruct (is_options (q_meth q)) eqn:Eo.
  - right. left. apply is_options_true in Eo. unfold serve, serve_gen.
    destruct (parse_path (q_path q)) as [[ss tr]|]; rewrite Eo; cbn; auto.
  - assert (Hm : q_meth q <> M_OPTIONS) by (intro E; apply is_options_true in E; congruence).
    destruct (routed c a q) as [r|] eqn:Er.
    + destruct (auth_required c (pkce_on c a) r) eqn:Eg.
      * left. destruct (rejected_request c a x q r st Ea Er Eg) as [H1 [H2 [H3 _]]]. auto.
      * right. right. right. exists r. pose proof (routed_registered _ _ _ _ Er) as Hin.
        repeat split; auto. { now apply ungated_open with (pk := pkce_on c a). }
        revert Er. unfold routed, serve, serve_gen. rewrite Eo.
        destruct (pre413 c q); [discriminate|].
        destruct (parse_path (q_path q)) as [[ss tr]|]; [|discriminate].
        destruct (dispatch c (pkce_on c a) (q_meth q) ss tr) as [r'| |]; try discriminate.
        intro H. inversion H. subst r'. fold (run_route c a x r ss q).
        destruct (run_route c a x r ss q) as [[s1 w1] c1] eqn:Err. cbn [o_work].
        apply wsubset_In. eapply open_route_work; eauto.
    + right. right. left. revert Er. unfold routed, serve, serve_gen. rewrite Eo.
      assert (R307 : redirect_status <> 413) by (vm_compute; discriminate).
      destruct (pre413 c q) eqn:E4.
      * intros _. destruct (parse_path (q_path q)) as [[ss tr]|]; cbn; intuition.
      * destruct (parse_path (q_path q)) as [[ss tr]|].
        -- destruct (dispatch c (pkce_on c a) (q_meth q) ss tr); try discriminate; cbn;
             intuition; try discriminate.
        -- cbn. intuition; try discriminate.
Qed.

(* the request-cap fast path: whatever the route, the authenticator and the
   configuration of the upload-URL provider, an over-cap request gets 413 and
   NOTHING runs - in particular the provider does not and no URL is vended *)
Lemma pre_dispatch_413 c a x q :
  q_meth q <> M_OPTIONS -> pre413 c q = true ->
  o_status (serve c a x q) = 413 /\ o_work (serve c a x q) = [] /\ o_consulted (serve c a x q) = false.
Proof.
  intros Hm E4. unfold serve, serve_gen. rewrite E4.
  assert (Eo : is_options (q_meth q) = false).
  { destruct (is_options (q_meth q)) eqn:E; [apply is_options_true in E; congruence | reflexivity]. }
  rewrite Eo. destruct (parse_path (q_path q)) as [[ss tr]|]; cbn; auto.
Qed.

(* no response of any kind carries a vended URL or provider work for a rejected caller *)
Lemma rejected_never_vended c a x q st :
  auth_outcome a = AR_rej st ->
  ~ In W_vend (o_work (serve c a x q)) /\ ~ In W_provider (o_work (serve c a x q)).
Proof.
  intro Ea. pose proof (spec_ok_model (Probe c a x q)) as H. unfold spec_ok, model in H. rewrite Ea in H.
  assert (K : forall l, is_nil l = true -> ~ In W_vend l /\ ~ In W_provider l)
    by (intros l Hl; apply is_nil_true in Hl; subst; cbn; tauto).
  destruct (is_options (q_meth q)).
  { apply andb_true_iff in H. destruct H as [H _]. apply andb_true_iff in H. destruct H as [_ H]. now apply K. }
  destruct (pre413 c q).
  { apply andb_true_iff in H. destruct H as [H _]. apply andb_true_iff in H. destruct H as [_ H]. now apply K. }
  destruct (o_pat (serve c a x q)) as [|b s].
  { apply andb_true_iff in H. destruct H as [H _]. now apply K. }
  destruct (route_of_pat c (pkce_on c a) (b :: s)) as [r|]; [|discriminate].
  destruct (auth_required c (pkce_on c a) r).
  - apply andb_true_iff in H. destruct H as [H _]. apply andb_true_iff in H. destruct H as [H _].
    apply andb_true_iff in H. destruct H as [_ H]. now apply K.
  - rewrite wsubset_In in H. split; intro Hin; apply H in Hin; destruct r; cbn in Hin; intuition discriminate.
Qed.

(* every open class is really reachable by a rejected caller: a witness per class *)
Definition rq (m : meth) (p : bytes) : request :=
  {| q_meth := m; q_path := p; q_ctype := CT_none; q_body := B_none; q_sess := S_none; q_html := false; q_big := false |}.
Definition class_witness (k : rclass) : request :=
  match k with
  | RC_health => rq M_GET (str "/health")
  | RC_oauth_metadata => rq M_GET (str "/.well-known/oauth-protected-resource/vgi")
  | RC_login => rq M_GET (str "/vgi/_oauth/logout")
  | RC_page => rq M_GET (str "/no/such/page")
  | RC_custom => rq M_GET (str "/c22_custom")
  | RC_session_delete => rq M_DELETE (str "/vgi/__session__")
  | _ => rq M_GET (str "/health")
  end.
Definition witness_ok (k : rclass) : bool :=
  let o := serve (cfgm 2047) A_fail CX_alice (class_witness k) in
  match routed (cfgm 2047) A_fail (class_witness k) with
  | Some r => rclass_beq (route_class r) k && negb (o_consulted o) && negb (o_status o =? 401)
  | None => false
  end.
Lemma witnesses_ok : forallb witness_ok open_classes = true.
Proof. vm_compute. reflexivity. Qed.

Lemma rclass_beq_eq r s : rclass_beq r s = true <-> r = s.
Proof. split; [apply internal_rclass_dec_bl | apply internal_rclass_dec_lb]. Qed.

Lemma open_classes_reachable k :
  In k open_classes ->
  exists c q r, routed c A_fail q = Some r /\ route_class r = k
                /\ o_consulted (serve c A_fail CX_alice q) = false /\ o_status (serve c A_fail CX_alice q) <> 401.
Proof.
  intro Hk. pose proof witnesses_ok as H. rewrite forallb_forall in H. specialize (H k Hk).
  unfold witness_ok in H. exists (cfgm 2047), (class_witness k).
  destruct (routed (cfgm 2047) A_fail (class_witness k)) as [r|]; [|discriminate].
  exists r. apply andb_true_iff in H. destruct H as [H H3]. apply andb_true_iff in H. destruct H as [H1 H2].
  apply rclass_beq_eq in H1. apply negb_true_iff in H2. apply negb_true_iff in H3.
  repeat split; auto. intro E. rewrite E in H3. discriminate.
Qed.

(* ------------------------------------------------------------------ tie to the compiled mux *)
Lemma table_ok : forallb row_ok c22_table = true.
Proof. vm_compute. reflexivity. Qed.

Lemma table_size : length c22_table = 256%nat.
Proof. vm_compute. reflexivity. Qed.

Lemma tie_ok : c22_tie_ok = 1%Z.
Proof. reflexivity. Qed.

Lemma redirect_is_temporary : redirect_status = 307.
Proof. reflexivity. Qed.

(* ------------------------------------------------------------------ before fix 92a19ba *)
Definition legacy_witness : input :=
  Probe (cfgm 2047) A_fail CX_nil
    {| q_meth := M_POST; q_path := str "/vgi/__upload_url__/init"; q_ctype := CT_arrow;
       q_body := B_req c22_upload_seg; q_sess := S_none; q_html := false; q_big := false |}.

Lemma legacy_refuted :
  exists c a q, rejecting a = true /\ routed c a q = Some R_upload
                /\ auth_required c (pkce_on c a) R_upload = true
                /\ In W_provider (o_work (serve_gen true c a CX_nil q))
                /\ o_status (serve_gen true c a CX_nil q) = 200
                /\ spec_ok (Probe c a CX_nil q) (model_legacy (Probe c a CX_nil q)) = false.
Proof.
  exists (cfgm 2047), A_fail,
    {| q_meth := M_POST; q_path := str "/vgi/__upload_url__/init"; q_ctype := CT_arrow;
       q_body := B_req c22_upload_seg; q_sess := S_none; q_html := false; q_big := false |}.
  vm_compute. repeat split; auto.
Qed.
