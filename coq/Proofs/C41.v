(* Proofs/C41.v — lemmas for property C41. *)
From Coq Require Import List Bool NArith ZArith Lia.
From VR Require Import Model.C41.
Import ListNotations.
Open Scope N_scope.

(* ------------------------------------------------------------------ the class lattice *)

Lemma mem_In : forall x l, mem x l = true -> In x l.
Proof.
  intros x l H. unfold mem in H. apply existsb_exists in H.
  destruct H as [y [Hy Heq]]. apply N.eqb_eq in Heq. subst. exact Hy.
Qed.

Lemma valid_dims : forall t k e f, valid t k e f = true ->
  In t transports /\ In k kinds /\ In e exits /\ In f features.
Proof.
  intros t k e f H. unfold valid in H.
  apply andb_true_iff in H. destruct H as [H _].
  apply andb_true_iff in H. destruct H as [H He].
  apply andb_true_iff in H. destruct H as [H Hf].
  apply andb_true_iff in H. destruct H as [Ht Hk].
  split; [apply mem_In; exact Ht|]. split; [apply mem_In; exact Hk|]. split.
  - (* exit: every accepting branch of valid_exit tests membership / equality *)
    unfold valid_exit in He.
    destruct (mem e [eOk; eUnk; eBad; eVer; eErr; ePanic]) eqn:E1.
    { apply mem_In in E1. unfold exits. simpl in E1 |- *. intuition. }
    destruct (mem e [eNil; eTErr; eTPanic; eNoEmit; eDouble; eCancel; eWrite]) eqn:E2.
    { apply mem_In in E2. unfold exits. simpl in E2 |- *. intuition. }
    destruct (e =? eCastFail) eqn:E3. { apply N.eqb_eq in E3. subst. unfold exits. simpl. intuition. }
    destruct (e =? eResolve) eqn:E4. { apply N.eqb_eq in E4. subst. unfold exits. simpl. intuition. }
    destruct (e =? eCap) eqn:E5. { apply N.eqb_eq in E5. subst. unfold exits. simpl. intuition. }
    destruct (e =? eLimit) eqn:E6. { apply N.eqb_eq in E6. subst. unfold exits. simpl. intuition. }
    destruct (e =? eToken) eqn:E7. { apply N.eqb_eq in E7. subst. unfold exits. simpl. intuition. }
    discriminate.
  - unfold valid_feature in Hf.
    destruct ((f =? fNone) || (f =? fLogs)) eqn:F1.
    { apply orb_true_iff in F1. destruct F1 as [F1|F1]; apply N.eqb_eq in F1; subst; unfold features; simpl; intuition. }
    destruct (f =? fHdr) eqn:F2. { apply N.eqb_eq in F2. subst. unfold features. simpl. intuition. }
    destruct (f =? fExtOut) eqn:F3. { apply N.eqb_eq in F3. subst. unfold features. simpl. intuition. }
    destruct (mem f [fExtIn; fTail; fTwoStreams; fMulti; fRedirect; fNoData]) eqn:F4.
    { apply mem_In in F4. unfold features. simpl in F4 |- *. intuition. }
    destruct (f =? fShm) eqn:F5. { apply N.eqb_eq in F5. subst. unfold features. simpl. intuition. }
    destruct ((f =? fCast) || (f =? fExtCast)) eqn:F6.
    { apply orb_true_iff in F6. destruct F6 as [F6|F6]; apply N.eqb_eq in F6; subst; unfold features; simpl; intuition. }
    discriminate.
Qed.

Lemma valid_in_all_classes : forall t k e f, valid t k e f = true -> In (t, k, e, f) all_classes.
Proof.
  intros t k e f H. destruct (valid_dims _ _ _ _ H) as [Ht [Hk [He Hf]]].
  unfold all_classes.
  apply in_flat_map. exists t. split; [exact Ht|].
  apply in_flat_map. exists k. split; [exact Hk|].
  apply in_flat_map. exists e. split; [exact He|].
  apply in_flat_map. exists f. split; [exact Hf|].
  rewrite H. left. reflexivity.
Qed.

Lemma all_classes_valid : forall t k e f, In (t, k, e, f) all_classes -> valid t k e f = true.
Proof.
  intros t k e f H. unfold all_classes in H.
  apply in_flat_map in H. destruct H as [t' [_ H]].
  apply in_flat_map in H. destruct H as [k' [_ H]].
  apply in_flat_map in H. destruct H as [e' [_ H]].
  apply in_flat_map in H. destruct H as [f' [_ H]].
  destruct (valid t' k' e' f') eqn:V; [|destruct H].
  destruct H as [H|[]]. inversion H. subst. exact V.
Qed.

Lemma classes_tie : flat_map class_code all_classes = c41_path_classes.
Proof. vm_compute. reflexivity. Qed.

Lemma dims_tie : transports = c41_transports /\ kinds = c41_kinds
                 /\ exits = c41_exits /\ features = c41_features.
Proof. repeat split; vm_compute; reflexivity. Qed.

(* ------------------------------------------------------------------ segments *)

Definition is_nil (o : option heap) : bool := match o with Some [] => true | _ => false end.
Definition is_some (o : option heap) : bool := match o with Some _ => true | None => false end.

Lemma is_nil_eq : forall o, is_nil o = true -> o = Some [].
Proof. intros [[|p h]|] H; try discriminate. reflexivity. Qed.

Lemma collect_cons_nil : forall l, collect (Some [] :: l) = collect l.
Proof. intros l. cbn [collect]. destruct (collect l); reflexivity. Qed.

Lemma collect_repeat_nil : forall n rest,
  collect (repeat (Some []) n ++ rest) = collect rest.
Proof.
  induction n as [|n IH]; intros rest; [reflexivity|].
  cbn [repeat app]. rewrite collect_cons_nil. apply IH.
Qed.

Lemma map_repeat : forall (A B : Type) (g : A -> B) x n, map g (repeat x n) = repeat (g x) n.
Proof. induction n as [|n IH]; [reflexivity|]. cbn [repeat map]. rewrite IH. reflexivity. Qed.

(* the three shapes of segment of a class all run to the empty heap *)
Definition class_balanced (v : variant) (c : class) : bool :=
  let '(t, k, e, f) := c in
  is_nil (run (outer v t k e f) [])
  && is_nil (run (turn v t k e f false) [])
  && is_nil (run (turn v t k e f true) []).

Lemma balanced_outstanding : forall v t k e f pre,
  class_balanced v (t, k, e, f) = true -> outstanding v t k e f pre = Some [].
Proof.
  intros v t k e f pre H. unfold class_balanced in H.
  apply andb_true_iff in H. destruct H as [H H3].
  apply andb_true_iff in H. destruct H as [H1 H2].
  apply is_nil_eq in H1. apply is_nil_eq in H2. apply is_nil_eq in H3.
  unfold outstanding, segments. cbn [map]. rewrite H1, collect_cons_nil.
  destruct (is_stream k && init_ok t k e f); [|reflexivity].
  rewrite map_app, map_repeat, H2, collect_repeat_nil.
  destruct (has_exit_turn t k e f); cbn [map]; [rewrite H3, collect_cons_nil|]; reflexivity.
Qed.

(* finite sweeps over the 675 classes *)
Lemma repaired_all_balanced : forallb (class_balanced Repaired) all_classes = true.
Proof. vm_compute. reflexivity. Qed.

Lemma current_clean_balanced :
  forallb (fun c => let '(t, k, e, f) := c in in_finding t k e f || class_balanced Current c) all_classes = true.
Proof. vm_compute. reflexivity. Qed.

Lemma repaired_zero : forall t k e f pre,
  valid t k e f = true -> outstanding Repaired t k e f pre = Some [].
Proof.
  intros t k e f pre V. apply balanced_outstanding.
  pose proof repaired_all_balanced as A. rewrite forallb_forall in A.
  exact (A _ (valid_in_all_classes _ _ _ _ V)).
Qed.

Lemma current_zero_outside_findings : forall t k e f pre,
  valid t k e f = true -> in_finding t k e f = false -> outstanding Current t k e f pre = Some [].
Proof.
  intros t k e f pre V NF. apply balanced_outstanding.
  pose proof current_clean_balanced as A. rewrite forallb_forall in A.
  specialize (A _ (valid_in_all_classes _ _ _ _ V)). cbn beta iota in A.
  rewrite NF in A. exact A.
Qed.

(* the legacy code is clean exactly outside the two repaired families and the
   remaining one *)
Lemma legacy_clean_balanced :
  forallb (fun c => let '(t, k, e, f) := c in
             in_finding t k e f || in_legacy_finding t k e f || class_balanced Legacy c) all_classes = true.
Proof. vm_compute. reflexivity. Qed.

Lemma legacy_zero_elsewhere : forall t k e f pre,
  valid t k e f = true -> in_finding t k e f = false -> in_legacy_finding t k e f = false ->
  outstanding Legacy t k e f pre = Some [].
Proof.
  intros t k e f pre V NF NL. apply balanced_outstanding.
  pose proof legacy_clean_balanced as A. rewrite forallb_forall in A.
  specialize (A _ (valid_in_all_classes _ _ _ _ V)). cbn beta iota in A.
  rewrite NF, NL in A. exact A.
Qed.

(* no trace of the model is ill-formed (no double release / use after free),
   even on the leaking paths, for any number of turns *)
Definition class_wellformed (v : variant) (c : class) : bool :=
  let '(t, k, e, f) := c in
  is_some (run (outer v t k e f) [])
  && is_some (run (turn v t k e f false) [])
  && is_some (run (turn v t k e f true) []).

Lemma collect_some : forall l, forallb is_some l = true -> collect l <> None.
Proof.
  induction l as [|[h|] l IH]; cbn [forallb collect is_some]; intro H; try discriminate.
  destruct (collect l) eqn:C; [discriminate|]. exfalso. apply IH; [exact H|reflexivity].
Qed.

Lemma forallb_repeat : forall (A : Type) (p : A -> bool) x n, p x = true -> forallb p (repeat x n) = true.
Proof. intros A p x n H. induction n as [|n IH]; [reflexivity|]. cbn [repeat forallb]. rewrite H, IH. reflexivity. Qed.

Lemma all_wellformed : forall v, forallb (class_wellformed v) all_classes = true.
Proof. intros []; vm_compute; reflexivity. Qed.

Lemma never_ill_formed : forall v t k e f pre,
  valid t k e f = true -> outstanding v t k e f pre <> None.
Proof.
  intros v t k e f pre V.
  pose proof (all_wellformed v) as A. rewrite forallb_forall in A.
  specialize (A _ (valid_in_all_classes _ _ _ _ V)). unfold class_wellformed in A.
  apply andb_true_iff in A. destruct A as [A A3].
  apply andb_true_iff in A. destruct A as [A1 A2].
  unfold outstanding. apply collect_some.
  unfold segments. cbn [map forallb]. rewrite A1. cbn [andb].
  destruct (is_stream k && init_ok t k e f); [|reflexivity].
  rewrite map_app, forallb_app, map_repeat, forallb_repeat by exact A2.
  destruct (has_exit_turn t k e f); cbn [map forallb andb]; [rewrite A3|]; reflexivity.
Qed.

(* ------------------------------------------------------------------ histories *)

Lemma model_call_clean : forall c,
  call_valid c = true -> call_in_finding c = false -> call_clean (model_call c) = true.
Proof.
  intros [t k e f pre] V NF. cbn [call_valid call_in_finding] in V, NF.
  unfold model_call. rewrite (current_zero_outside_findings _ _ _ _ pre V NF). reflexivity.
Qed.

Lemma spec_on_clean_histories : forall i,
  forallb call_valid i = true -> forallb (fun c => negb (call_in_finding c)) i = true ->
  spec_ok i (model i) = true.
Proof.
  intros i V NF. unfold spec_ok, model. rewrite map_length, Nat.eqb_refl. cbn [andb].
  induction i as [|c i IH]; [reflexivity|].
  cbn [forallb map] in *.
  apply andb_true_iff in V. destruct V as [Vc Vi].
  apply andb_true_iff in NF. destruct NF as [Nc Ni].
  apply negb_true_iff in Nc.
  rewrite (model_call_clean c Vc Nc). cbn [andb]. exact (IH Vi Ni).
Qed.

(* the same for the repaired traces, every class *)
Definition model_call_repaired (c : call) : callobs :=
  let '(Call t k e f pre) := c in
  match outstanding Repaired t k e f pre with
  | Some h => let n := Z.of_nat (n_tracked h) in CallObs n n (exc_of t k e f)
  | None => CallObs (-1)%Z (-1)%Z (exc_of t k e f)
  end.

Lemma spec_on_repaired_histories : forall i,
  forallb call_valid i = true -> spec_ok i (map model_call_repaired i) = true.
Proof.
  intros i V. unfold spec_ok. rewrite map_length, Nat.eqb_refl. cbn [andb].
  induction i as [|[t k e f pre] i IH]; [reflexivity|].
  cbn [forallb map] in *. apply andb_true_iff in V. destruct V as [Vc Vi].
  cbn [call_valid] in Vc. unfold model_call_repaired at 1.
  rewrite (repaired_zero _ _ _ _ pre Vc). cbn. exact (IH Vi).
Qed.

(* ------------------------------------------------------------------ the defects of the current code *)

Definition leaked (v : variant) (t k e f : N) (pre : nat) : nat :=
  match outstanding v t k e f pre with Some h => n_tracked h | None => O end.

Lemma double_emit_leaks :
  valid tP kR eDouble fNone = true /\ leaked Legacy tP kR eDouble fNone 0 = 1%nat
  /\ leaked Current tP kR eDouble fNone 0 = 0%nat.
Proof. repeat split; vm_compute; reflexivity. Qed.



Lemma http_write_error_leaks :
  valid tH kR eWrite fNone = true /\ leaked Current tH kR eWrite fNone 0 = 1%nat
  /\ valid tH kX eWrite fNone = true /\ leaked Current tH kX eWrite fNone 0 = 1%nat.
Proof. repeat split; vm_compute; reflexivity. Qed.

(* every successful turn whose externally resolved input needs the cast leaks it *)
Lemma cast_leaks_per_turn : forall t, In t transports -> forall pre,
  leaked Legacy t kX eOk fExtCast pre = pre.
Proof.
  intros t Ht pre.
  assert (Hturn : run (turn Legacy t kX eOk fExtCast false) [] = Some [(IN, 1%nat)]).
  { destruct Ht as [<-|[<-|[]]]; vm_compute; reflexivity. }
  assert (Houter : run (outer Legacy t kX eOk fExtCast) [] = Some []).
  { destruct Ht as [<-|[<-|[]]]; vm_compute; reflexivity. }
  assert (Hs : (is_stream kX && init_ok t kX eOk fExtCast) = true).
  { destruct Ht as [<-|[<-|[]]]; vm_compute; reflexivity. }
  assert (Hx : has_exit_turn t kX eOk fExtCast = false).
  { destruct Ht as [<-|[<-|[]]]; vm_compute; reflexivity. }
  assert (Hn : npre t kX eOk fExtCast pre = pre).
  { destruct Ht as [<-|[<-|[]]]; reflexivity. }
  unfold leaked, outstanding, segments. rewrite Hs, Hx, Hn, app_nil_r.
  cbn [map]. rewrite Houter, collect_cons_nil, map_repeat, Hturn.
  assert (G : forall n, exists h, collect (repeat (Some [(IN, 1%nat)]) n) = Some h /\ n_tracked h = n).
  { induction n as [|n [h [C L]]].
    - exists []. split; reflexivity.
    - exists ((IN, 1%nat) :: h). cbn [repeat collect]. rewrite C. split; [reflexivity|].
      unfold n_tracked in *. cbn [filter fst tracked length]. rewrite L. reflexivity. }
  destruct (G pre) as [h [C L]]. unfold heap in *.
  match goal with |- match ?X with _ => _ end = _ => replace X with (Some h) by (symmetry; exact C) end.
  exact L.
Qed.
