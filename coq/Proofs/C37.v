(* Proofs/C37.v — lemmas for property C37 (dispatch hooks). *)
From VR Require Import Model.C37.
From Coq Require Import Lia Arith.
Local Open Scope nat_scope.
Local Arguments Z.of_nat : simpl never.

(* ---- the hook never reaches the responses ------------------------------------ *)
Lemma drq_resp hs h s : q_resp (snd (drq hs h s)) = s_resp s.
Proof.
  unfold drq. destruct (s_part s) as [|e| |e]; cbn; try reflexivity.
  destruct (take_tok (s_k s) (h_tab h)) as [[tok rest]|]; reflexivity.
Qed.

Lemma dseg_resps hs h l : map q_resp (snd (dseg hs h l)) = map s_resp l.
Proof.
  revert h; induction l as [|s r IH]; intro h; cbn; [reflexivity|].
  pose proof (drq_resp hs h s) as D.
  destruct (drq hs h s) as [h1 q]. specialize (IH h1).
  destruct (dseg hs h1 r) as [h2 qs]. cbn in *. now rewrite D, IH.
Qed.

Lemma decorate_resps hs h ll : resps (snd (decorate hs h ll)) = map (map s_resp) ll.
Proof.
  revert h; induction ll as [|l r IH]; intro h; cbn; [reflexivity|].
  pose proof (dseg_resps hs h l) as D.
  destruct (dseg hs h l) as [h1 q]. specialize (IH h1).
  destruct (decorate hs h1 r) as [h2 qs]. cbn in *. unfold resps in IH. now rewrite D, IH.
Qed.

Lemma noninterference hs1 hs2 calls sched :
  resps (snd (run hs1 calls sched)) = resps (snd (run hs2 calls sched)).
Proof. unfold run. now rewrite !decorate_resps. Qed.

(* ---- bal: generic facts ------------------------------------------------------- *)
Definition occ (t : nat) (l : list nat) : nat := length (filter (Nat.eqb t) l).

Lemma mem_nat_occ t l : mem_nat t l = true -> 1 <= occ t l.
Proof.
  unfold mem_nat, occ. induction l as [|x r IH]; cbn; [discriminate|].
  destruct (Nat.eqb t x); cbn; [lia|exact IH].
Qed.

Lemma occ_rm_same t l : mem_nat t l = true -> S (occ t (rm t l)) = occ t l.
Proof.
  unfold mem_nat, occ. induction l as [|x r IH]; cbn; [discriminate|].
  destruct (Nat.eqb t x) eqn:E; cbn; [reflexivity|].
  intro H. rewrite E. exact (IH H).
Qed.

Lemma occ_rm_other t u l : t <> u -> occ u (rm t l) = occ u l.
Proof.
  intro N. unfold occ. induction l as [|x r IH]; cbn; [reflexivity|].
  destruct (Nat.eqb t x) eqn:E; cbn.
  - apply Nat.eqb_eq in E. subst x. destruct (Nat.eqb u t) eqn:E2; [apply Nat.eqb_eq in E2; congruence|reflexivity].
  - destruct (Nat.eqb u x); cbn; now rewrite IH.
Qed.

Lemma bal_app n o p q :
  bal n o (p ++ q) = match bal n o p with Some (n1, o1) => bal n1 o1 q | None => None end.
Proof.
  revert n o; induction p as [|e p IH]; intros n o; cbn; [reflexivity|].
  destruct e as [id out|tv err].
  - destruct (Nat.eqb id n && tok_ok id out); [apply IH|reflexivity].
  - destruct (mem_nat tv o); [apply IH|reflexivity].
Qed.

Lemma occ_cons t x l : occ t (x :: l) = (if Nat.eqb t x then 1 else 0) + occ t l.
Proof. unfold occ. cbn [filter]. destruct (Nat.eqb t x); reflexivity. Qed.

(* accounting per token value: ends + still open = returned starts + open before *)
Lemma bal_counts evs : forall n o n' o', bal n o evs = Some (n', o') ->
  forall t, cnt (is_end_tok t) evs + occ t o' = cnt (is_sret_of t) evs + occ t o.
Proof.
  induction evs as [|e r IH]; intros n o n' o' H t; cbn in H.
  - injection H as <- <-. reflexivity.
  - destruct e as [id out|tv err].
    + destruct (Nat.eqb id n && tok_ok id out) eqn:E; [|discriminate]. specialize (IH _ _ _ _ H t).
      unfold cnt in *. cbn [filter is_end_tok is_sret_of]. destruct out as [[tv cv]|].
      * rewrite occ_cons in IH. destruct (Nat.eqb t tv); cbn [length]; lia.
      * exact IH.
    + destruct (mem_nat tv o) eqn:M; [|discriminate]. specialize (IH _ _ _ _ H t).
      unfold cnt in *. cbn [filter is_end_tok is_sret_of]. destruct (Nat.eqb t tv) eqn:E.
      * apply Nat.eqb_eq in E. subst tv. pose proof (occ_rm_same t o M). cbn [length]. lia.
      * assert (tv <> t) as N by (intro; subst; rewrite Nat.eqb_refl in E; discriminate).
        rewrite (occ_rm_other tv t o N) in IH. exact IH.
Qed.

(* ids are handed out once, in order; a non-nil token value S t is only ever returned by start t *)
Lemma bal_starts evs : forall n o n' o', bal n o evs = Some (n', o') ->
  forall t, cnt (is_start_of t) evs <= 1 /\ (t < n -> cnt (is_start_of t) evs = 0)
            /\ cnt (is_sret_of (S t)) evs <= cnt (is_start_of t) evs.
Proof.
  induction evs as [|e r IH]; intros n o n' o' H t; cbn in H.
  - cbn. repeat split; lia.
  - destruct e as [id out|tv err].
    + destruct (Nat.eqb id n && tok_ok id out) eqn:E; [|discriminate].
      apply andb_true_iff in E as [E TK]. apply Nat.eqb_eq in E. subst id.
      destruct (IH _ _ _ _ H t) as (I1 & I2 & I3). unfold cnt in *. cbn [filter is_start_of is_sret_of].
      assert (length (filter (is_sret_of (S t)) (HStart n out :: r))
              <= (if Nat.eqb t n then 1 else 0) + length (filter (is_sret_of (S t)) r)) as SR.
      { cbn [filter is_sret_of]. destruct out as [[tv cv]|]; [|lia]. cbn in TK.
        destruct (Nat.eqb (S t) tv) eqn:E1; [|lia]. apply Nat.eqb_eq in E1. subst tv. cbn in TK.
        cbn [length]. rewrite TK. lia. }
      cbn [filter is_sret_of] in SR.
      destruct (Nat.eqb t n) eqn:E.
      * apply Nat.eqb_eq in E. subst t. cbn [length]. rewrite I2 in * by lia. repeat split; lia.
      * repeat split; [exact I1| intro L; apply I2; lia | lia].
    + destruct (mem_nat tv o); [|discriminate]. unfold cnt in *. cbn [filter is_start_of is_sret_of].
      exact (IH _ _ _ _ H t).
Qed.

Lemma bal_prefix p s n o r : bal n o (p ++ s) = Some r -> exists r', bal n o p = Some r'.
Proof. rewrite bal_app. destruct (bal n o p) as [[n1 o1]|]; [eauto|discriminate]. Qed.

(* ---- the call sites keep bal happy -------------------------------------------- *)
Definition Inv (h : hstate) (open : list nat) : Prop := forall t, occ t open = held t (h_tab h).

Definition holds_out (t : nat) (out : option (nat * nat)) : nat :=
  match out with Some (tv, _) => if Nat.eqb t tv then 1 else 0 | None => 0 end.

Lemma held_cons t k n out tab : held t ((k, (n, out)) :: tab) = holds_out t out + held t tab.
Proof.
  unfold held, holds_out. cbn [filter]. unfold holds at 1. cbn [snd].
  destruct out as [[tv cv]|]; [destruct (Nat.eqb t tv)|]; reflexivity.
Qed.

Lemma take_tok_held k tab tok rest : take_tok k tab = Some (tok, rest) ->
  forall t, held t tab = holds_out t (snd tok) + held t rest.
Proof.
  revert tok rest; induction tab as [|[j [n out]] r IH]; intros tok rest H t; cbn in H; [discriminate|].
  destruct (Nat.eqb j k).
  - injection H as <- <-. apply held_cons.
  - destruct (take_tok k r) as [[t' r']|]; [|discriminate]. injection H as <- <-.
    specialize (IH _ _ eq_refl t). rewrite !held_cons. lia.
Qed.

Lemma hook_end_evs hs n out e : hook_end hs n out e = match out with Some (tv, _) => [HEnd tv e] | None => [] end.
Proof. unfold hook_end. destruct out as [[tv cv]|]; [|reflexivity]. destruct (hb_ep (beh hs n)); reflexivity. Qed.

Lemma start_out_tok_ok hs n : tok_ok n (start_out hs n) = true.
Proof.
  unfold start_out, tok_ok. destruct (hb_sp (beh hs n)); [reflexivity|].
  destruct (hb_ret (beh hs n)); cbn; rewrite ?Nat.eqb_refl; reflexivity.
Qed.

Lemma mem_nat_of_occ t l : 1 <= occ t l -> mem_nat t l = true.
Proof.
  unfold occ, mem_nat. induction l as [|x r IH]; cbn; [lia|].
  destruct (Nat.eqb t x); cbn; [reflexivity|exact IH].
Qed.

Lemma drq_bal hs h s open : Inv h open ->
  exists open', bal (h_next h) open (q_evs (snd (drq hs h s))) = Some (h_next (fst (drq hs h s)), open')
                /\ Inv (fst (drq hs h s)) open'.
Proof.
  intro I. unfold drq. destruct (s_part s) as [|e| |e]; cbn [fst snd q_evs h_next h_tab].
  - exists open. split; [reflexivity|exact I].
  - rewrite hook_end_evs. unfold hook_start. pose proof (start_out_tok_ok hs (h_next h)) as TK.
    destruct (start_out hs (h_next h)) as [[tv cv]|]; cbn [app bal]; rewrite Nat.eqb_refl, TK; cbn [andb].
    + unfold mem_nat. cbn [existsb]. rewrite Nat.eqb_refl. cbn [orb rm]. rewrite Nat.eqb_refl.
      exists open. split; [reflexivity|exact I].
    + exists open. split; [reflexivity|exact I].
  - unfold hook_start. pose proof (start_out_tok_ok hs (h_next h)) as TK. cbn [bal]. rewrite Nat.eqb_refl, TK. cbn [andb].
    destruct (start_out hs (h_next h)) as [[tv cv]|] eqn:SO.
    + exists (tv :: open). split; [reflexivity|]. intro t. cbn [h_tab]. rewrite held_cons, occ_cons. cbn [holds_out]. now rewrite (I t).
    + exists open. split; [reflexivity|]. intro t. cbn [h_tab]. rewrite held_cons. cbn [holds_out]. apply I.
  - destruct (take_tok (s_k s) (h_tab h)) as [[[n0 out] rest]|] eqn:T; cbn [fst snd q_evs h_next h_tab].
    + rewrite hook_end_evs. pose proof (take_tok_held _ _ _ _ T) as Hh. cbn [snd] in Hh.
      destruct out as [[tv cv]|]; cbn [bal].
      * assert (mem_nat tv open = true) as M.
        { apply mem_nat_of_occ. specialize (I tv). specialize (Hh tv). cbn [holds_out] in Hh.
          rewrite Nat.eqb_refl in Hh. lia. }
        rewrite M. exists (rm tv open). split; [reflexivity|]. intro t. specialize (I t). specialize (Hh t).
        cbn [holds_out] in Hh. cbn [h_tab]. destruct (Nat.eqb t tv) eqn:E.
        -- apply Nat.eqb_eq in E. subst t. pose proof (occ_rm_same tv open M). lia.
        -- assert (tv <> t) as N by (intro; subst; rewrite Nat.eqb_refl in E; discriminate).
           rewrite (occ_rm_other tv t open N). lia.
      * exists open. split; [reflexivity|]. intro t. specialize (I t). specialize (Hh t). cbn [holds_out] in Hh. cbn [h_tab]. lia.
    + exists open. split; [reflexivity|exact I].
Qed.

Lemma dseg_bal hs l : forall h open, Inv h open ->
  exists open', bal (h_next h) open (flat_map q_evs (snd (dseg hs h l))) = Some (h_next (fst (dseg hs h l)), open')
                /\ Inv (fst (dseg hs h l)) open'.
Proof.
  induction l as [|s r IH]; intros h open I; cbn.
  - exists open. split; [reflexivity|exact I].
  - destruct (drq_bal hs h s open I) as (o1 & B1 & I1).
    destruct (drq hs h s) as [h1 q]. cbn [fst snd] in *.
    destruct (IH h1 o1 I1) as (o2 & B2 & I2).
    destruct (dseg hs h1 r) as [h2 qs]. cbn [fst snd flat_map] in *.
    exists o2. split; [|exact I2]. rewrite bal_app, B1. exact B2.
Qed.

Lemma decorate_bal hs ll : forall h open, Inv h open ->
  exists open', bal (h_next h) open (flat_evs (snd (decorate hs h ll))) = Some (h_next (fst (decorate hs h ll)), open')
                /\ Inv (fst (decorate hs h ll)) open'.
Proof.
  induction ll as [|l r IH]; intros h open I; cbn.
  - exists open. split; [reflexivity|exact I].
  - destruct (dseg_bal hs l h open I) as (o1 & B1 & I1).
    destruct (dseg hs h l) as [h1 q]. cbn [fst snd] in *.
    destruct (IH h1 o1 I1) as (o2 & B2 & I2).
    destruct (decorate hs h1 r) as [h2 qs]. cbn [fst snd] in *.
    exists o2. split; [|exact I2]. unfold flat_evs in *. cbn [concat]. rewrite flat_map_app, bal_app, B1. exact B2.
Qed.

Lemma run_bal hs calls sched :
  exists open, bal 0 [] (flat_evs (snd (run hs calls sched))) = Some (h_next (fst (run hs calls sched)), open)
               /\ Inv (fst (run hs calls sched)) open.
Proof. unfold run. apply (decorate_bal hs _ hinit []). intro t. reflexivity. Qed.

(* the readable balance statement *)
Lemma balanced hs calls sched :
  let r := run hs calls sched in
  let evs := flat_evs (snd r) in
  (forall t, cnt (is_start_of t) evs <= 1 /\ cnt (is_sret_of (S t)) evs <= cnt (is_start_of t) evs)
  /\ (forall p s t, evs = p ++ s -> cnt (is_end_tok t) p <= cnt (is_sret_of t) p)
  /\ (forall t, cnt (is_end_tok t) evs + held t (h_tab (fst r)) = cnt (is_sret_of t) evs).
Proof.
  cbn zeta. destruct (run_bal hs calls sched) as (open & B & I). repeat split.
  - exact (proj1 (bal_starts _ _ _ _ _ B t)).
  - exact (proj2 (proj2 (bal_starts _ _ _ _ _ B t))).
  - intros p s t E. rewrite E in B. destruct (bal_prefix _ _ _ _ _ B) as ([n1 o1] & B1).
    pose proof (bal_counts _ _ _ _ _ B1 t) as C. cbn in C. lia.
  - intro t. pose proof (bal_counts _ _ _ _ _ B t) as C. cbn in C. rewrite <- (I t). lia.
Qed.

(* ---- fates: which error the end hook sees, which requests reach the hook ------- *)
Definition fate_ok (f : fate) : Prop := f_disp f = true -> f_err f = resp_err (f_resp f).

Definition has_exc (l : list fr) : bool := existsb is_exc l.
Lemma has_exc_app a b : has_exc (a ++ b) = has_exc a || has_exc b.
Proof. apply existsb_app. Qed.
Lemma has_exc_big b : has_exc (big_log b) = false.
Proof. destruct b; reflexivity. Qed.

Lemma pipe_loop_exc prod ts c ins : forall pos,
  has_exc (fst (pipe_loop prod ts c pos ins)) = snd (pipe_loop prod ts c pos ins).
Proof.
  induction ins as [|it rest IH]; intro pos; cbn [pipe_loop]; [reflexivity|].
  assert (has_exc (fst (match nth pos ts (default_act prod) with
      | TEmit => if cancel_here c pos then ([FData (val pos)], false) else
                 let (f, e) := pipe_loop prod ts c (S pos) rest in (FData (val pos) :: f, e)
      | TBig => if cancel_here c pos then ([FLog; FData (val pos)], false) else
                let (f, e) := pipe_loop prod ts c (S pos) rest in (FLog :: FData (val pos) :: f, e)
      | TFinish => if prod then ([], false) else ([FExc], true)
      | TErr | TPanic | TNoEmit | TEmit2 => ([FExc], true)
      | TBadSchema => ([], false) end))
    = snd (match nth pos ts (default_act prod) with
      | TEmit => if cancel_here c pos then ([FData (val pos)], false) else
                 let (f, e) := pipe_loop prod ts c (S pos) rest in (FData (val pos) :: f, e)
      | TBig => if cancel_here c pos then ([FLog; FData (val pos)], false) else
                let (f, e) := pipe_loop prod ts c (S pos) rest in (FLog :: FData (val pos) :: f, e)
      | TFinish => if prod then ([], false) else ([FExc], true)
      | TErr | TPanic | TNoEmit | TEmit2 => ([FExc], true)
      | TBadSchema => ([], false) end)) as A.
  { specialize (IH (S pos)). destruct (nth pos ts (default_act prod)); try reflexivity.
    - destruct (cancel_here c pos); [reflexivity|]. destruct (pipe_loop prod ts c (S pos) rest). exact IH.
    - destruct (cancel_here c pos); [reflexivity|]. destruct (pipe_loop prod ts c (S pos) rest). exact IH.
    - destruct prod; reflexivity. }
  destruct it; try exact A. reflexivity.
Qed.

Lemma http_prod_exc c rest : forall pos count big, has_badschema rest = false ->
  let '(f, e, ct, p) := http_prod c rest pos count big in
  has_exc f = e /\ (ct = true -> e = false).
Proof.
  induction rest as [|a r IH]; intros pos count big NB; cbn; [split; [reflexivity|discriminate]|].
  cbn in NB. destruct a; cbn in NB; try discriminate;
    try (split; [reflexivity|intro X; (reflexivity || discriminate X)]).
  - match goal with |- context [if ?b then _ else _] => destruct b end;
      [split; [reflexivity|intro X; reflexivity]|].
    destruct (cancel_here c pos); [split; [reflexivity|intro X; reflexivity]|].
    specialize (IH (S pos) (S count) big NB). destruct (http_prod c r (S pos) (S count) big) as [[[f e] ct] p]. exact IH.
Qed.

Lemma skipn_nobad {A} (p : A -> bool) n l : existsb p l = false -> existsb p (skipn n l) = false.
Proof.
  revert l; induction n as [|n IH]; intros l H; [exact H|].
  destruct l as [|x r]; [reflexivity|]. cbn in *. apply orb_false_iff in H as [_ H]. apply IH. exact H.
Qed.

Lemma resp_err_http st x ss : resp_err (http_resp st x ss) = (400 <=? st)%N || x || existsb (existsb is_exc) ss.
Proof. unfold resp_err, http_resp. cbn. now rewrite orb_false_r. Qed.

Lemma http_prod_turn_ok cl pos pre_frames big cd :
  c_nogob cl = false -> has_badschema (c_turns cl) = false -> has_exc pre_frames = false ->
  fate_ok (http_prod_turn cl pos pre_frames big cd) /\ f_disp (http_prod_turn cl pos pre_frames big cd) = true.
Proof.
  intros G NB PF. unfold http_prod_turn. destruct cd.
  { split; [|reflexivity]. intros _. cbn [f_err f_resp handled]. rewrite resp_err_http. cbn.
    fold (has_exc pre_frames). now rewrite PF. }
  pose proof (http_prod_exc (c_cancel cl) (skipn pos (c_turns cl)) pos 0 big (skipn_nobad _ _ _ NB)) as H.
  destruct (http_prod (c_cancel cl) (skipn pos (c_turns cl)) pos 0 big) as [[[f e] c] p]. destruct H as [H1 H2].
  rewrite G. destruct c.
  - split; [|reflexivity]. intros _. cbn [f_err f_resp handled]. rewrite resp_err_http. cbn.
    fold (has_exc (pre_frames ++ f ++ [FTok])). rewrite !has_exc_app, PF, H1, (H2 eq_refl). reflexivity.
  - split; [|reflexivity]. intros _. cbn [f_err f_resp handled]. rewrite resp_err_http. cbn.
    fold (has_exc (pre_frames ++ f)). rewrite has_exc_app, PF, H1. now rewrite orb_false_r.
Qed.

Ltac fsolve := split; [unfold fate_ok; cbn; first [let D := fresh "D" in intro D; discriminate D | intros _; reflexivity] | reflexivity].

Lemma first_fate_ok k cl : clean_call cl = true ->
  fate_ok (first_fate k cl) /\ f_disp (first_fate k cl) = first_dispatched cl.
Proof.
  unfold clean_call, first_fate, first_dispatched. destruct (c_http cl) eqn:H; cbn [negb orb].
  - (* HTTP *)
    intro C. unfold http_first, http_first_gen.
    destruct (c_pre cl); cbn; try (split; [intro D; discriminate D|now rewrite andb_false_r]).
    destruct (c_kind cl) eqn:K; cbn in C |- *; try (fsolve);
      (destruct (pv_ok (c_pv cl)); cbn; [|fsolve]).
    + destruct (c_badparams cl); [fsolve|].
      destruct (c_sticky cl); [fsolve|].
      destruct (c_init cl); fsolve.
    + apply negb_true_iff, orb_false_iff in C as [G NB].
      destruct (c_badparams cl); [fsolve|].
      destruct (c_sticky cl); [fsolve|].
      destruct (c_init cl); try (fsolve); apply http_prod_turn_ok; auto.
    + apply negb_true_iff, orb_false_iff in C as [G NB].
      destruct (c_badparams cl); [fsolve|].
      destruct (c_sticky cl); [fsolve|].
      rewrite G. destruct (c_init cl); fsolve.
  - (* pipe *)
    intros _. unfold pipe_first. rewrite andb_true_r.
    destruct (c_kind cl) eqn:K; cbn; try (fsolve);
      destruct (pv_ok (c_pv cl)); cbn; try (fsolve);
      (destruct (c_badparams cl); [fsolve|]).
    + destruct (c_init cl); fsolve.
    + assert (forall o b, (let (f, e) := if cancel_handler (c_cancel cl) then ([], false)
                                          else pipe_loop true (c_turns cl) (c_cancel cl) 0 (c_inputs cl) in
                            handled e (pipe_resp [big_log b ++ f]) false 0) = o ->
                          fate_ok o /\ f_disp o = true) as A.
      { intros o b <-.
        assert (has_exc (fst (if cancel_handler (c_cancel cl) then ([], false)
                              else pipe_loop true (c_turns cl) (c_cancel cl) 0 (c_inputs cl)))
                = snd (if cancel_handler (c_cancel cl) then ([], false)
                       else pipe_loop true (c_turns cl) (c_cancel cl) 0 (c_inputs cl))) as E
          by (destruct (cancel_handler (c_cancel cl)); [reflexivity|apply pipe_loop_exc]).
        destruct (if cancel_handler (c_cancel cl) then ([], false)
                  else pipe_loop true (c_turns cl) (c_cancel cl) 0 (c_inputs cl)) as [f e]. cbn [fst snd] in E. split; [|reflexivity].
        intros _. cbn. unfold resp_err. cbn. fold (has_exc (big_log b ++ f)).
        rewrite has_exc_app, has_exc_big, E. now rewrite orb_false_r. }
      destruct (c_init cl); try (fsolve); first [exact (A _ false eq_refl) | exact (A _ true eq_refl)].
    + assert (forall o b, (let (f, e) := if cancel_handler (c_cancel cl) then ([], false)
                                          else pipe_loop false (c_turns cl) (c_cancel cl) 0 (c_inputs cl) in
                            handled e (pipe_resp [big_log b ++ f]) false 0) = o ->
                          fate_ok o /\ f_disp o = true) as A.
      { intros o b <-.
        assert (has_exc (fst (if cancel_handler (c_cancel cl) then ([], false)
                              else pipe_loop false (c_turns cl) (c_cancel cl) 0 (c_inputs cl)))
                = snd (if cancel_handler (c_cancel cl) then ([], false)
                       else pipe_loop false (c_turns cl) (c_cancel cl) 0 (c_inputs cl))) as E
          by (destruct (cancel_handler (c_cancel cl)); [reflexivity|apply pipe_loop_exc]).
        destruct (if cancel_handler (c_cancel cl) then ([], false)
                  else pipe_loop false (c_turns cl) (c_cancel cl) 0 (c_inputs cl)) as [f e]. cbn [fst snd] in E. split; [|reflexivity].
        intros _. cbn. unfold resp_err. cbn. fold (has_exc (big_log b ++ f)).
        rewrite has_exc_app, has_exc_big, E. now rewrite orb_false_r. }
      destruct (c_init cl); try (fsolve); first [exact (A _ false eq_refl) | exact (A _ true eq_refl)].
Qed.

Lemma exch_turn_ok cl pos : has_badschema (c_turns cl) = false ->
  fate_ok (http_exch_turn cl pos) /\ f_disp (http_exch_turn cl pos) = true.
Proof.
  intro NB. unfold http_exch_turn.
  assert (nth pos (c_turns cl) TEmit <> TBadSchema) as N.
  { intro E. destruct (Nat.lt_ge_cases pos (length (c_turns cl))) as [L|L].
    - pose proof (nth_In (c_turns cl) TEmit L) as I. rewrite E in I.
      unfold has_badschema in NB. rewrite <- not_true_iff_false in NB. apply NB.
      apply existsb_exists. exists TBadSchema. split; [exact I|reflexivity].
    - rewrite nth_overflow in E by exact L. discriminate. }
  destruct (nth pos (c_turns cl) TEmit); try fsolve. congruence.
Qed.

(* every continuation request: dispatched iff its token resolves; error iff reported *)
Lemma conts_from_ok cl : c_http cl = true -> is_stream (c_kind cl) = true -> clean_call cl = true ->
  forall ins pos j0 j f, In (j, f) (conts_from cl pos j0 ins) ->
  exists it, nth_error ins (j - j0) = Some it /\ j0 <= j /\ f_disp f = item_dispatched it /\ fate_ok f.
Proof.
  intros H ST C. unfold clean_call in C. rewrite H, ST in C. cbn in C.
  apply negb_true_iff, orb_false_iff in C as [G NB].
  assert (forall pos, fate_ok (cont_turn cl pos) /\ f_disp (cont_turn cl pos) = true) as CT.
  { intro pos. unfold cont_turn. destruct (is_prod (c_kind cl)).
    - apply http_prod_turn_ok; auto.
    - apply exch_turn_ok; auto. }
  induction ins as [|it rest IH]; intros pos j0 j f I; cbn in I; [contradiction|].
  assert (forall pos', In (j, f) (conts_from cl pos' (S j0) rest) ->
          exists it0, nth_error (it :: rest) (j - j0) = Some it0 /\ j0 <= j /\ f_disp f = item_dispatched it0 /\ fate_ok f) as Tail.
  { intros pos' I'. destruct (IH _ _ _ _ I') as (it0 & N & L & D & F). exists it0.
    replace (j - j0) with (S (j - S j0)) by lia. cbn. repeat split; auto; lia. }
  assert (forall g, (j, f) = (j0, g) -> f_disp g = item_dispatched it -> fate_ok g ->
          exists it0, nth_error (it :: rest) (j - j0) = Some it0 /\ j0 <= j /\ f_disp f = item_dispatched it0 /\ fate_ok f) as Head.
  { intros g E D F. injection E as -> ->. exists it. rewrite Nat.sub_diag. cbn. repeat split; auto. }
  destruct it; cbn in I.
  - destruct I as [E|I]; [symmetry in E; eapply Head; [exact E| |]; apply CT|].
    destruct (f_tok (cont_turn cl pos)); [eapply Tail; exact I|contradiction].
  - destruct I as [E|[]]. symmetry in E. eapply Head; [exact E|reflexivity|]. intros _. reflexivity.
  - destruct I as [E|I]; [|eapply Tail; exact I]. symmetry in E. eapply Head; [exact E|reflexivity|]. intro D. discriminate D.
  - destruct I as [E|I]; [|eapply Tail; exact I]. symmetry in E. eapply Head; [exact E|reflexivity|]. intros _. reflexivity.
Qed.

(* ---- the skeleton's requests, judged against the input ------------------------- *)
Definition srq_dispatched (calls : list call) (s : srq) : bool :=
  match nth_error calls (s_k s) with
  | Some cl =>
      match s_item s with
      | None => first_dispatched cl
      | Some j => match nth_error (c_inputs cl) j with Some it => item_dispatched it | None => false end
      end
  | None => false
  end.

Definition srq_ok (calls : list call) (s : srq) : Prop :=
  match s_part s, s_resp s with
  | PtNone, Some _ => srq_dispatched calls s = false
  | PtWhole e, Some r => srq_dispatched calls s = true /\ e = resp_err r
  | PtBegin, None => srq_dispatched calls s = true
  | PtEnd e, Some r => e = resp_err r
  | _, _ => False
  end.

Lemma cont_srqs_ok calls k cl : nth_error calls k = Some cl -> clean_call cl = true ->
  Forall (srq_ok calls) (cont_srqs k cl).
Proof.
  intros N C. unfold cont_srqs, conts_of. apply Forall_forall. intros s I. apply in_map_iff in I as ([j f] & <- & I).
  destruct (c_http cl) eqn:H; [|contradiction]. destruct (is_stream (c_kind cl)) eqn:ST; [|contradiction].
  destruct (f_tok (first_fate k cl)); [|contradiction]. cbn in I.
  destruct (conts_from_ok cl H ST C _ _ _ _ _ I) as (it & NI & _ & D & F). rewrite Nat.sub_0_r in NI.
  unfold srq_ok, srq_dispatched, whole_part. cbn. rewrite N, NI. destruct (f_disp f) eqn:DF.
  - split; [now rewrite <- D|]. apply F. exact DF.
  - now rewrite <- D.
Qed.

(* only requests that reached the hook are ever suspended *)
Definition RunInv (calls : list call) (st : sstate) : Prop :=
  forall k, In k (ss_run st) -> exists cl, nth_error calls k = Some cl /\ f_disp (first_fate k cl) = true.

Lemma mem_nat_In k l : mem_nat k l = true -> In k l.
Proof. unfold mem_nat. intro H. apply existsb_exists in H as (x & I & E). apply Nat.eqb_eq in E. now subst. Qed.
Lemma In_rm x k l : In x (rm k l) -> In x l.
Proof.
  induction l as [|y r IH]; cbn; [tauto|]. destruct (Nat.eqb k y); [tauto|]. cbn. intros [E|I]; [now left|right; auto].
Qed.

Lemma sstep_inv calls st o : RunInv calls st -> RunInv calls (fst (sstep calls st o)).
Proof.
  intro R. destruct o as [k|k]; cbn; destruct (nth_error calls k) as [cl|] eqn:N; try exact R.
  - destruct (mem_nat k (ss_run st) || mem_nat k (ss_done st)); [exact R|].
    destruct (f_disp (first_fate k cl) && f_gate (first_fate k cl)) eqn:G; cbn; [|exact R].
    intros j [E|I]; [subst j; exists cl; split; [exact N|]; apply andb_true_iff in G; tauto|apply R, I].
  - destruct (mem_nat k (ss_run st)); [|exact R]. cbn. intros j I. apply R. eapply In_rm. exact I.
Qed.

Lemma sstep_ok calls st o : forallb clean_call calls = true -> RunInv calls st ->
  Forall (srq_ok calls) (snd (sstep calls st o)).
Proof.
  intros CL R. assert (forall k cl, nth_error calls k = Some cl -> clean_call cl = true) as CC.
  { intros k cl N. rewrite forallb_forall in CL. apply CL. eapply nth_error_In; eauto. }
  destruct o as [k|k]; cbn; destruct (nth_error calls k) as [cl|] eqn:N; try constructor.
  - destruct (mem_nat k (ss_run st) || mem_nat k (ss_done st)); [constructor|].
    destruct (first_fate_ok k cl (CC _ _ N)) as [F D].
    destruct (f_disp (first_fate k cl) && f_gate (first_fate k cl)) eqn:G; cbn.
    + constructor; [|constructor]. unfold srq_ok, srq_dispatched. cbn. rewrite N, <- D.
      apply andb_true_iff in G. tauto.
    + constructor; [|apply cont_srqs_ok; [exact N|exact (CC _ _ N)]]. unfold srq_ok, srq_dispatched, whole_part. cbn. rewrite N, <- D.
      destruct (f_disp (first_fate k cl)) eqn:DF; [split; [reflexivity|apply F; exact DF]|reflexivity].
  - destruct (mem_nat k (ss_run st)) eqn:M; [|constructor]. cbn.
    destruct (first_fate_ok k cl (CC _ _ N)) as [F D].
    constructor; [|apply cont_srqs_ok; [exact N|exact (CC _ _ N)]]. unfold srq_ok. cbn.
    destruct (R k (mem_nat_In _ _ M)) as (cl' & N' & DF). rewrite N in N'. injection N' as <-. apply F, DF.
Qed.

Lemma skel_ok calls sched : forallb clean_call calls = true -> forall st, RunInv calls st ->
  Forall (Forall (srq_ok calls)) (snd (skel calls st sched)).
Proof.
  intro CL. induction sched as [|o r IH]; intros st R; cbn; [constructor|].
  pose proof (sstep_ok calls st o CL R) as S. pose proof (sstep_inv calls st o R) as R1.
  destruct (sstep calls st o) as [st1 s]. cbn [fst snd] in *. specialize (IH st1 R1).
  destruct (skel calls st1 r) as [st2 ss]. cbn [snd] in *. constructor; assumption.
Qed.

(* ---- from the skeleton to the decorated requests --------------------------------- *)
Lemma seen_ok_saw (u : bool) out q : q_seen q = (if u then Some (cv_of out) else None) -> seen_ok (cv_of out) q = true.
Proof. unfold seen_ok. intros ->. destruct u; [apply Nat.eqb_refl|reflexivity]. Qed.

Lemma drq_shape hs h s calls : srq_ok calls s ->
  shape_ok calls (snd (drq hs h s)) = true /\ end_matches (snd (drq hs h s)) = true.
Proof.
  unfold srq_ok, drq, shape_ok, end_matches, rq_dispatched, srq_dispatched.
  destruct (s_part s) as [|e| |e]; destruct (s_resp s) as [r|]; try contradiction;
    cbn [snd fst q_phase q_begin q_evs q_resp q_k q_item].
  - intros ->. split; reflexivity.
  - intros [-> ->]. rewrite hook_end_evs. unfold hook_start.
    destruct (start_out hs (h_next h)) as [[tv cv]|] eqn:SO; cbn [app forallb andb].
    + rewrite Nat.eqb_refl, eqb_reflx. cbn [andb]. split; [|reflexivity].
      apply (seen_ok_saw (s_user s) (Some (tv, cv))). reflexivity.
    + split; [|reflexivity]. apply (seen_ok_saw (s_user s) None). reflexivity.
  - intros ->. split; reflexivity.
  - intros ->. destruct (take_tok (s_k s) (h_tab h)) as [[[id out] rest]|];
      cbn [snd fst q_phase q_begin q_evs q_resp q_k q_item].
    + rewrite hook_end_evs. destruct out as [[tv cv]|]; cbn [forallb andb].
      * rewrite Nat.eqb_refl, eqb_reflx. cbn [andb]. split; [|reflexivity].
        apply (seen_ok_saw (s_user s) (Some (tv, cv))). reflexivity.
      * split; [|reflexivity]. apply (seen_ok_saw (s_user s) None). reflexivity.
    + split; reflexivity.
Qed.

Lemma dseg_shape hs calls l : Forall (srq_ok calls) l -> forall h,
  forallb (shape_ok calls) (snd (dseg hs h l)) = true /\ forallb end_matches (snd (dseg hs h l)) = true.
Proof.
  induction 1 as [|s r S _ IH]; intro h; cbn; [split; reflexivity|].
  pose proof (drq_shape hs h s calls S) as [A B].
  destruct (drq hs h s) as [h1 q]. specialize (IH h1). destruct (dseg hs h1 r) as [h2 qs].
  cbn [fst snd forallb] in *. destruct IH as [IA IB]. now rewrite A, B, IA, IB.
Qed.

Lemma decorate_shape hs calls ll : Forall (Forall (srq_ok calls)) ll -> forall h,
  forallb (shape_ok calls) (concat (snd (decorate hs h ll))) = true
  /\ forallb end_matches (concat (snd (decorate hs h ll))) = true.
Proof.
  induction 1 as [|l r S _ IH]; intro h; cbn; [split; reflexivity|].
  pose proof (dseg_shape hs calls l S h) as [A B].
  destruct (dseg hs h l) as [h1 q]. specialize (IH h1). destruct (decorate hs h1 r) as [h2 qs].
  cbn [fst snd concat] in *. destruct IH as [IA IB]. rewrite !forallb_app. now rewrite A, B, IA, IB.
Qed.

(* ---- decidable equalities ---------------------------------------------------------- *)
Lemma fr_eqb_eq a b : fr_eqb a b = true <-> a = b.
Proof.
  destruct a, b; cbn; split; intro H; try discriminate; try reflexivity.
  - apply Z.eqb_eq in H. now subst.
  - injection H as ->. apply Z.eqb_refl.
Qed.

Lemma resp_eqb_eq a b : resp_eqb a b = true <-> a = b.
Proof.
  destruct a as [s1 x1 p1 f1], b as [s2 x2 p2 f2]. unfold resp_eqb. cbn. split.
  - intro H. apply andb_true_iff in H as [H H4]. apply andb_true_iff in H as [H H3].
    apply andb_true_iff in H as [H1 H2]. apply N.eqb_eq in H1. apply eqb_prop in H2, H3.
    apply (list_eqb_eq _ (list_eqb_eq _ fr_eqb_eq)) in H4. now subst.
  - intro H. injection H as -> -> -> ->. rewrite N.eqb_refl, !eqb_reflx. cbn.
    apply (list_eqb_eq _ (list_eqb_eq _ fr_eqb_eq)). reflexivity.
Qed.

Lemma resps_eqb_refl l : list_eqb (list_eqb (opt_eqb resp_eqb)) l l = true.
Proof. apply (list_eqb_eq _ (list_eqb_eq _ (opt_eqb_eq _ resp_eqb_eq))). reflexivity. Qed.

(* ---- the property in decidable form, on the model ------------------------------------ *)
Lemma RunInv_init calls : RunInv calls sinit.
Proof. intros k []. Qed.

Lemma model_meets_spec i : clean i = true -> spec_ok i (model i) = true.
Proof.
  intro C. unfold spec_ok, model. cbn [o_run o_ref].
  pose proof (skel_ok (i_calls i) (i_sched i) C sinit (RunInv_init _)) as SK.
  destruct (decorate_shape (i_hooks i) (i_calls i) _ SK hinit) as [A B].
  destruct (run_bal (i_hooks i) (i_calls i) (i_sched i)) as (open & BL & _).
  pose proof (noninterference (i_hooks i) [] (i_calls i) (i_sched i)) as NI.
  unfold run in *. rewrite A, B, BL, NI. cbn [andb]. apply resps_eqb_refl.
Qed.

(* the three conjuncts that need no premise: balance, no events for requests whose
   response does not exist yet, non-interference — for EVERY input *)
Lemma model_balance_any i :
  match bal 0 [] (flat_evs (o_run (model i))) with Some _ => true | None => false end = true
  /\ list_eqb (list_eqb (opt_eqb resp_eqb)) (resps (o_run (model i))) (o_ref (model i)) = true.
Proof.
  unfold model. cbn [o_run o_ref]. split.
  - destruct (run_bal (i_hooks i) (i_calls i) (i_sched i)) as (open & BL & _). now rewrite BL.
  - rewrite (noninterference (i_hooks i) [] (i_calls i) (i_sched i)). apply resps_eqb_refl.
Qed.

(* ---- recorded findings: concrete witnesses ------------------------------------------- *)
Definition mk_call (http : bool) (k : mkind) (pv : pvflag) (nogob : bool) (ts : list tact) (ins : list citem) : call :=
  {| c_http := http; c_kind := k; c_pre := PreNone; c_pv := pv; c_badparams := false; c_sticky := false;
     c_init := OOk; c_nogob := nogob; c_turns := ts; c_inputs := ins; c_cancel := CNone |}.
Definition one_call (cl : call) : input := {| i_hooks := []; i_calls := [cl]; i_sched := [Begin 0; Finish 0] |}.

Definition w_gate := mk_call true KUnary PvBad false [] [].
Definition w_exch_nogob := mk_call true KExch PvOk true [] [ITick].
Definition w_prod_nogob := mk_call true KProd PvOk true [TEmit; TEmit; TEmit] [ITick].
Definition w_prod_badschema := mk_call true KProd PvOk false [TEmit; TBadSchema] [ITick].
Definition w_exch_badschema := mk_call true KExch PvOk false [TEmit; TBadSchema] [ITick; ITick].

(* what the pre-fix implementation produced for POST /unary with a mismatching version *)
Definition legacy_gate_obs : obs :=
  let r := http_resp 400 false [[FExc]] in
  {| o_run := [[{| q_k := 0; q_item := None; q_phase := PWhole; q_begin := None;
                  q_evs := [HStart 0 (Some (1, 0)); HEnd 1 true]; q_seen := None; q_resp := Some r |}]; []];
     o_ref := [[Some r]; []] |}.

Lemma gate_witness :
  first_dispatched w_gate = false
  /\ f_disp (http_first_gen true 0 w_gate) = true /\ f_err (http_first_gen true 0 w_gate) = true
  /\ f_disp (first_fate 0 w_gate) = false
  /\ f_disp (first_fate 0 (mk_call false KUnary PvBad false [] [])) = false
  /\ f_resp (http_first_gen true 0 w_gate) = f_resp (first_fate 0 w_gate)
  /\ spec_ok (one_call w_gate) legacy_gate_obs = false
  /\ spec_ok (one_call w_gate) (model (one_call w_gate)) = true.
Proof. vm_compute. repeat split; reflexivity. Qed.

Lemma write_error_witness :
  (let f := first_fate 0 w_exch_nogob in f_disp f = true /\ f_err f = false /\ resp_err (f_resp f) = true)
  /\ (let f := first_fate 0 w_prod_nogob in f_disp f = true /\ f_err f = true /\ resp_err (f_resp f) = false)
  /\ (let f := first_fate 0 w_prod_badschema in f_disp f = true /\ f_err f = true /\ resp_err (f_resp f) = false)
  /\ (let f := http_exch_turn w_exch_badschema 1 in f_disp f = true /\ f_err f = false /\ r_panic (f_resp f) = true)
  /\ spec_ok (one_call w_exch_nogob) (model (one_call w_exch_nogob)) = false
  /\ spec_ok (one_call w_prod_nogob) (model (one_call w_prod_nogob)) = false
  /\ spec_ok (one_call w_prod_badschema) (model (one_call w_prod_badschema)) = false
  /\ spec_ok (one_call w_exch_badschema) (model (one_call w_exch_badschema)) = false.
Proof. vm_compute. repeat split; reflexivity. Qed.

(* ---- readable corollaries --------------------------------------------------------------- *)
Lemma conts_of_ok k cl : clean_call cl = true ->
  forall j f, In (j, f) (conts_of k cl) ->
  exists it, nth_error (c_inputs cl) j = Some it /\ f_disp f = item_dispatched it /\ fate_ok f.
Proof.
  intros C j f I. unfold conts_of in I.
  destruct (c_http cl) eqn:H; [|contradiction]. destruct (is_stream (c_kind cl)) eqn:ST; [|contradiction].
  destruct (f_tok (first_fate k cl)); [|contradiction]. cbn in I.
  destruct (conts_from_ok cl H ST C _ _ _ _ _ I) as (it & NI & _ & D & F). rewrite Nat.sub_0_r in NI. eauto.
Qed.

(* a request that runs without suspension: one start and, iff it returned, one end with
   exactly the token value the start returned *)
Lemma whole_events hs h s e : s_part s = PtWhole e ->
  q_evs (snd (drq hs h s)) =
  HStart (h_next h) (start_out hs (h_next h))
  :: match start_out hs (h_next h) with Some (tv, _) => [HEnd tv e] | None => [] end.
Proof. intro P. unfold drq. rewrite P. cbn. rewrite hook_end_evs. reflexivity. Qed.

(* ... for every shape of what start returns: the token reaches end whether the context
   that came with it is the caller's, nil or a derived one; user code runs under the
   derived context exactly when one was returned *)
Lemma whole_any_shape hs h s e sh : s_part s = PtWhole e ->
  hb_sp (beh hs (h_next h)) = false -> hb_ret (beh hs (h_next h)) = sh ->
  q_evs (snd (drq hs h s)) = [HStart (h_next h) (Some (tokv sh (h_next h), ctxv sh (h_next h))); HEnd (tokv sh (h_next h)) e]
  /\ q_seen (snd (drq hs h s)) = (if s_user s then Some (ctxv sh (h_next h)) else None).
Proof.
  intros P SP SH. rewrite (whole_events hs h s e P). unfold drq. rewrite P. cbn [snd q_seen].
  unfold start_out. rewrite SP, SH. split; reflexivity.
Qed.

(* a suspended request: the end that runs when it resumes carries the token its own start returned,
   whatever other requests did to the hook in between is irrelevant to WHICH token it carries *)
Lemma suspended_events hs h s1 s2 e : s_part s1 = PtBegin -> s_part s2 = PtEnd e -> s_k s2 = s_k s1 ->
  q_evs (snd (drq hs h s1)) = [HStart (h_next h) (start_out hs (h_next h))]
  /\ q_evs (snd (drq hs (fst (drq hs h s1)) s2))
     = match start_out hs (h_next h) with Some (tv, _) => [HEnd tv e] | None => [] end
  /\ q_seen (snd (drq hs (fst (drq hs h s1)) s2)) = (if s_user s2 then Some (cv_of (start_out hs (h_next h))) else None).
Proof.
  intros P1 P2 K. unfold drq. rewrite P1. cbn. rewrite P2. cbn. rewrite K, Nat.eqb_refl. cbn.
  rewrite hook_end_evs. repeat split; reflexivity.
Qed.

Lemma suspended_any_shape hs h s1 s2 e sh : s_part s1 = PtBegin -> s_part s2 = PtEnd e -> s_k s2 = s_k s1 ->
  hb_sp (beh hs (h_next h)) = false -> hb_ret (beh hs (h_next h)) = sh ->
  q_evs (snd (drq hs (fst (drq hs h s1)) s2)) = [HEnd (tokv sh (h_next h)) e]
  /\ q_seen (snd (drq hs (fst (drq hs h s1)) s2)) = (if s_user s2 then Some (ctxv sh (h_next h)) else None).
Proof.
  intros P1 P2 K SP SH. destruct (suspended_events hs h s1 s2 e P1 P2 K) as (_ & E & S).
  rewrite E, S. unfold start_out. rewrite SP, SH. split; reflexivity.
Qed.

Lemma tokv_shapes n : tokv RCtxTok n = S n /\ tokv RNilCtx n = S n /\ tokv RDerived n = S n
                      /\ tokv RNilTok n = 0 /\ tokv RNilNil n = 0.
Proof. repeat split. Qed.

(* the seeded regression (token dropped on the pipe when start returns a nil context):
   start 0 returns (nil ctx, token 1), the resumed half sees end with the nil token *)
Definition nilctx_hooks : list hbeh := [{| hb_sp := false; hb_ep := false; hb_ret := RNilCtx |}].
Definition nilctx_input : input :=
  {| i_hooks := nilctx_hooks; i_calls := [mk_call false KUnary PvOk false [] []]; i_sched := [Begin 0; Finish 0] |}.
Definition nilctx_dropped_obs : obs :=
  let r := pipe_resp [[FData 0]] in
  {| o_run := [[{| q_k := 0; q_item := None; q_phase := PBegin; q_begin := None;
                  q_evs := [HStart 0 (Some (1, 0))]; q_seen := None; q_resp := None |}];
               [{| q_k := 0; q_item := None; q_phase := PEnd; q_begin := Some (0, Some (1, 0));
                  q_evs := [HEnd 0 false]; q_seen := Some 0; q_resp := Some r |}]];
     o_ref := [[None]; [Some r]] |}.
Lemma nilctx_witness :
  spec_ok nilctx_input nilctx_dropped_obs = false
  /\ flat_evs (o_run (model nilctx_input)) = [HStart 0 (Some (1, 0)); HEnd 1 false]
  /\ spec_ok nilctx_input (model nilctx_input) = true.
Proof. vm_compute. repeat split; reflexivity. Qed.

Definition example_input : input :=
  {| i_hooks := [{| hb_sp := false; hb_ep := true; hb_ret := RNilCtx |}; {| hb_sp := true; hb_ep := false; hb_ret := RCtxTok |};
                 {| hb_sp := false; hb_ep := false; hb_ret := RDerived |}; {| hb_sp := false; hb_ep := false; hb_ret := RNilTok |}];
     i_calls := [mk_call false KUnary PvOk false [] [];
                 mk_call true KExch PvOk false [TEmit; TErr] [ITick; IBadToken; ITick; ITick]];
     i_sched := [Begin 0; Begin 1; Finish 0; Finish 1] |}.
Lemma example_ok :
  clean example_input = true
  /\ flat_evs (o_run (model example_input)) =
     [HStart 0 (Some (1, 0)); HStart 1 None; HEnd 1 false; HStart 2 (Some (3, 3)); HEnd 3 false;
      HStart 3 (Some (0, 0)); HEnd 0 true]
  /\ map q_seen (concat (o_run (model example_input))) = [None; None; Some 0; Some 0; Some 3; None; Some 0]
  /\ length (concat (o_run (model example_input))) = 7.
Proof. vm_compute. repeat split; reflexivity. Qed.

(* ---- context cancellation: a clean end, never an error of its own ------------------------ *)
Lemma cancel_no_new_error_pipe prod ts c ins : forall pos,
  snd (pipe_loop prod ts c pos ins) = true -> snd (pipe_loop prod ts CNone pos ins) = true.
Proof.
  induction ins as [|it rest IH]; intro pos; cbn [pipe_loop]; [intro H; exact H|].
  assert (snd (match nth pos ts (default_act prod) with
      | TEmit => if cancel_here c pos then ([FData (val pos)], false) else
                 let (f, e) := pipe_loop prod ts c (S pos) rest in (FData (val pos) :: f, e)
      | TBig => if cancel_here c pos then ([FLog; FData (val pos)], false) else
                let (f, e) := pipe_loop prod ts c (S pos) rest in (FLog :: FData (val pos) :: f, e)
      | TFinish => if prod then ([], false) else ([FExc], true)
      | TErr | TPanic | TNoEmit | TEmit2 => ([FExc], true)
      | TBadSchema => ([], false) end) = true ->
    snd (match nth pos ts (default_act prod) with
      | TEmit => if cancel_here CNone pos then ([FData (val pos)], false) else
                 let (f, e) := pipe_loop prod ts CNone (S pos) rest in (FData (val pos) :: f, e)
      | TBig => if cancel_here CNone pos then ([FLog; FData (val pos)], false) else
                let (f, e) := pipe_loop prod ts CNone (S pos) rest in (FLog :: FData (val pos) :: f, e)
      | TFinish => if prod then ([], false) else ([FExc], true)
      | TErr | TPanic | TNoEmit | TEmit2 => ([FExc], true)
      | TBadSchema => ([], false) end) = true) as A.
  { specialize (IH (S pos)). cbn [cancel_here]. destruct (nth pos ts (default_act prod)); try (intro H; exact H).
    - destruct (cancel_here c pos); [intro H; discriminate H|].
      destruct (pipe_loop prod ts c (S pos) rest), (pipe_loop prod ts CNone (S pos) rest). exact IH.
    - destruct (cancel_here c pos); [intro H; discriminate H|].
      destruct (pipe_loop prod ts c (S pos) rest), (pipe_loop prod ts CNone (S pos) rest). exact IH. }
  destruct it; try exact A. intro H; exact H.
Qed.

Definition prod_err (x : list fr * bool * bool * nat) : bool := snd (fst (fst x)).
Lemma cancel_no_new_error_http c rest : forall pos count big,
  prod_err (http_prod c rest pos count big) = true -> prod_err (http_prod CNone rest pos count big) = true.
Proof.
  induction rest as [|a r IH]; intros pos count big; cbn [http_prod]; [intro H; exact H|].
  cbn [cancel_here]. destruct a; try (intro H; exact H).
  destruct (Nat.leb 2 (S count) || big); [intro H; exact H|].
  destruct (cancel_here c pos); [intro H; discriminate H|].
  specialize (IH (S pos) (S count) big). unfold prod_err in *.
  destruct (http_prod c r (S pos) (S count) big) as [[[f e] ct] p],
           (http_prod CNone r (S pos) (S count) big) as [[[f0 e0] ct0] p0]. exact IH.
Qed.

(* cancelled in the handler, before the first iteration: nothing is produced, nothing is reported *)
Lemma cancel_in_handler_clean k cl : c_cancel cl = CHandler -> is_stream (c_kind cl) = true ->
  first_dispatched cl = true -> c_badparams cl = false -> c_sticky cl = false ->
  (c_init cl = OOk \/ c_init cl = OBig) -> c_http cl = false \/ c_kind cl = KProd ->
  f_err (first_fate k cl) = false /\ resp_err (f_resp (first_fate k cl)) = false /\ f_tok (first_fate k cl) = false.
Proof.
  intros C ST D BP SK I T. unfold first_dispatched in D.
  apply andb_true_iff in D as [D PRE]. apply andb_true_iff in D as [_ PV].
  unfold first_fate, pipe_first, http_first, http_first_gen, http_prod_turn. rewrite PV, BP, C. cbn [negb cancel_handler].
  destruct (c_http cl) eqn:H; cbn [negb orb] in PRE.
  - destruct T as [T|T]; [discriminate|]. rewrite T, SK. destruct (c_pre cl); try discriminate.
    destruct I as [-> | ->]; repeat split; reflexivity.
  - destruct (c_kind cl); try discriminate; cbn [is_stream is_prod];
      destruct I as [-> | ->]; repeat split; reflexivity.
Qed.
