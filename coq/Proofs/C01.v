(* Proofs/C01.v — lemmas and proofs for the wire-helper model (Model/C01.v). *)
From VR Require Import Model.C01.
From Coq Require Import ZifyBool ZifyN ZifyNat.
Local Arguments N.eqb : simpl never.
Local Arguments N.ltb : simpl never.
Local Arguments N.leb : simpl never.
Open Scope N_scope.

(* ---- small facts ----------------------------------------------------------- *)
Lemma or_first_none_r {A} (a : option A) : or_first a None = a.
Proof. now destruct a. Qed.
Lemma or_first_assoc {A} (a b c : option A) :
  or_first (or_first a b) c = or_first a (or_first b c).
Proof. now destruct a. Qed.

Lemma first_some_app {A B} (f : A -> option B) l1 l2 :
  first_some f (l1 ++ l2) = or_first (first_some f l1) (first_some f l2).
Proof.
  induction l1 as [|x l1 IH]; cbn [app first_some]; [reflexivity|].
  now rewrite IH, or_first_assoc.
Qed.

Lemma first_some_cons_none {A B} (f : A -> option B) x l :
  first_some f (x :: l) = None -> f x = None /\ first_some f l = None.
Proof. cbn [first_some]. destruct (f x); cbn; [discriminate | auto]. Qed.

Lemma upto_none l : first_some cursor_of l = None -> upto_cursor l = l.
Proof.
  induction l as [|b l IH]; intro H; [reflexivity|].
  apply first_some_cons_none in H as [Hb Hl].
  cbn [upto_cursor]. rewrite Hb. now rewrite IH.
Qed.

Lemma upto_app_none l1 l2 :
  first_some cursor_of l1 = None -> upto_cursor (l1 ++ l2) = l1 ++ upto_cursor l2.
Proof.
  induction l1 as [|b l1 IH]; intro H; [reflexivity|].
  apply first_some_cons_none in H as [Hb Hl].
  cbn [app upto_cursor]. rewrite Hb. now rewrite IH.
Qed.

Lemma upto_app_some l1 l2 tok :
  first_some cursor_of l1 = Some tok -> upto_cursor (l1 ++ l2) = upto_cursor l1.
Proof.
  induction l1 as [|b l1 IH]; intro H; [discriminate|].
  cbn [first_some] in H. cbn [app upto_cursor].
  destruct (cursor_of b); [reflexivity|]. cbn [or_first] in H. now rewrite IH.
Qed.

(* ---- FindStreamTokens ------------------------------------------------------- *)
Lemma scan_spec bs : forall call,
  scan_batches bs call =
  (first_some cursor_of bs, or_first call (first_some call_of (upto_cursor bs))).
Proof.
  induction bs as [|b t IH]; intro call; cbn [scan_batches first_some upto_cursor].
  - now rewrite or_first_none_r.
  - destruct (cursor_of b) as [tok|] eqn:Hc; cbn [or_first first_some].
    + now rewrite or_first_none_r.
    + now rewrite IH, or_first_assoc.
Qed.

Definition broken (t : term) : bool := match t with TBroken => true | _ => false end.

Lemma reach_stream sc bs t rest :
  reach (Stream sc bs t :: rest) =
  if broken t then [] else bs ++ match t with TEos => reach rest | _ => [] end.
Proof. destruct t; cbn [reach broken]; now rewrite ?app_nil_r. Qed.

Lemma find_loop_spec bd : forall call,
  find_loop bd call =
  (first_some cursor_of (reach bd), or_first call (first_some call_of (upto_cursor (reach bd)))).
Proof.
  induction bd as [|g rest IH]; intro call.
  - cbn. now rewrite or_first_none_r.
  - destruct g as [sc bs t|]; [|cbn; now rewrite or_first_none_r].
    destruct (broken t) eqn:Hb.
    { destruct t; try discriminate. cbn. now rewrite or_first_none_r. }
    rewrite reach_stream, Hb.
    assert (Hfl : find_loop (Stream sc bs t :: rest) call =
                  let '(st, c) := scan_batches bs None in
                  let call' := or_first call c in
                  match st with
                  | Some _ => (st, call')
                  | None => match t with TEos => find_loop rest call' | _ => (None, call') end
                  end) by (destruct t; try discriminate; reflexivity).
    rewrite Hfl. clear Hfl. rewrite scan_spec. cbn [or_first].
    destruct (first_some cursor_of bs) as [tok|] eqn:Hc.
    + rewrite first_some_app, Hc. cbn [or_first].
      now rewrite (upto_app_some _ _ _ Hc).
    + rewrite first_some_app, Hc. cbn [or_first].
      rewrite (upto_app_none _ _ Hc), first_some_app, (upto_none _ Hc).
      destruct t; try discriminate.
      * now rewrite IH, or_first_assoc.
      * cbn [first_some upto_cursor]. now rewrite or_first_none_r.
      * cbn [first_some upto_cursor]. now rewrite or_first_none_r.
Qed.

Lemma find_tokens_exact bd : find_stream_tokens bd = spec_tokens bd.
Proof. unfold find_stream_tokens, spec_tokens. now rewrite find_loop_spec. Qed.

Definition clean (pre : body) : bool :=
  forallb (fun g => match g with Stream _ _ TEos => true | _ => false end) pre.

Lemma reach_app pre rest : clean pre = true -> reach (pre ++ rest) = reach pre ++ reach rest.
Proof.
  induction pre as [|g pre IH]; intro H; [reflexivity|].
  cbn [clean forallb] in H. apply andb_true_iff in H as [Hg Hp].
  destruct g as [sc bs t|]; [|discriminate]. destruct t; try discriminate.
  cbn [app reach]. now rewrite (IH Hp), app_assoc.
Qed.

Lemma ne_state_call : beqb k_stream_state k_call_state = false.
Proof. reflexivity. Qed.

Lemma cursor_of_token sc tok call : tok <> [] -> cursor_of (token_batch sc tok call) = Some tok.
Proof.
  intro H. unfold cursor_of, get_ne, token_batch. cbn [b_meta get].
  rewrite beqb_refl. destruct tok; [contradiction | reflexivity].
Qed.

Lemma call_of_token sc tok call :
  call_of (token_batch sc tok call) = match call with [] => None | _ => Some call end.
Proof.
  unfold call_of, get_ne, token_batch. cbn [b_meta]. destruct call as [|c call].
  - cbn [get]. now rewrite ne_state_call.
  - cbn [get]. now rewrite ne_state_call, beqb_refl.
Qed.

Lemma find_tokens_stamped pre sc bs1 tok call bs2 t post :
  clean pre = true -> first_some cursor_of (reach pre ++ bs1) = None -> tok <> [] ->
  t <> TBroken ->
  find_stream_tokens (pre ++ Stream sc (bs1 ++ token_batch sc tok call :: bs2) t :: post)
  = (Some tok, or_first (first_some call_of (reach pre ++ bs1))
                        (match call with [] => None | _ => Some call end)).
Proof.
  intros Hclean Hnone Htok Ht. rewrite find_tokens_exact. unfold spec_tokens.
  rewrite (reach_app _ _ Hclean), reach_stream.
  replace (broken t) with false by (now destruct t).
  set (X := match t with TEos => reach post | _ => [] end).
  replace (reach pre ++ (bs1 ++ token_batch sc tok call :: bs2) ++ X)
    with ((reach pre ++ bs1) ++ token_batch sc tok call :: (bs2 ++ X))
    by (now rewrite <- !app_assoc).
  rewrite first_some_app, Hnone. cbn [or_first first_some].
  rewrite (upto_app_none _ _ Hnone). cbn [upto_cursor].
  rewrite (cursor_of_token _ _ _ Htok). cbn [or_first].
  rewrite first_some_app. cbn [first_some]. now rewrite call_of_token, or_first_none_r.
Qed.

(* ---- FindProtocolVersion ---------------------------------------------------- *)
Lemma fpv_spec bs : fpv_batches bs = dflt (first_some pv_of bs).
Proof.
  induction bs as [|b t IH]; [reflexivity|]. cbn [fpv_batches first_some].
  destruct (pv_of b); cbn [or_first dflt]; [reflexivity | exact IH].
Qed.

Lemma find_pv_exact bd : find_protocol_version bd = spec_pv bd.
Proof.
  unfold find_protocol_version, spec_pv, first_stream.
  destruct bd as [|[sc bs t|] rest]; try reflexivity. destruct t; try reflexivity; apply fpv_spec.
Qed.

(* ---- the metadata WriteRequest stamps ---------------------------------------- *)
Lemma get_method_req m v : get k_method (req_meta m v) = Some m.
Proof. reflexivity. Qed.
Lemma get_reqver_req m v : get k_request_version (req_meta m v) = Some wire_version.
Proof. reflexivity. Qed.
Lemma get_pv_req m v :
  get k_protocol_version (req_meta m v) = match v with [] => None | _ => Some v end.
Proof. destruct v; reflexivity. Qed.
Lemma get_reqid_req m v : get k_request_id (req_meta m v) = None.
Proof. destruct v; reflexivity. Qed.
Lemma get_loglevel_req m v : get k_log_level (req_meta m v) = None.
Proof. destruct v; reflexivity. Qed.
Lemma get_location_req m v : get k_location (req_meta m v) = None.
Proof. destruct v; reflexivity. Qed.
Lemma get_shm_req m v : get k_shm_offset (req_meta m v) = None.
Proof. destruct v; reflexivity. Qed.
Lemma map_view_req m v : map_view (req_meta m v) = req_meta m v.
Proof. destruct v; reflexivity. Qed.

Lemma find_pv_write_request m sc rows cols v rest :
  find_protocol_version (write_request m sc rows cols v :: rest) = v.
Proof.
  unfold find_protocol_version, write_request. cbn [fpv_batches].
  unfold pv_of, get_ne. cbn [b_meta]. rewrite get_pv_req. now destruct v.
Qed.

(* ---- ReadRequest -------------------------------------------------------------- *)
Definition accepted (m : bytes) (sc : schema) (rows : N) (cols : list column) (v : bytes) : request :=
  {| q_method := m; q_version := wire_version; q_request_id := []; q_log_level := [];
     q_schema := sc; q_rows := rows; q_cols := cols; q_meta := req_meta m v |}.

Lemma row_rule_req m sc rows cols v :
  row_rule_violated sc {| b_rows := rows; b_meta := req_meta m v; b_cols := cols |}
  = negb (nofields sc) && negb (rows =? 1).
Proof.
  unfold row_rule_violated, is_shm_pointer, has. cbn [b_rows b_meta].
  rewrite get_location_req, get_shm_req. cbn [negb]. now rewrite andb_false_r, !andb_true_r.
Qed.

Lemma read_write_request m sc rows cols v rest :
  utf8_valid m = true -> (sc = [] \/ rows = 1) ->
  read_request (write_request m sc rows cols v :: rest) = Acc (accepted m sc rows cols v).
Proof.
  intros Hu Hr. unfold write_request. cbn [read_request]. unfold validate. cbn [b_meta].
  rewrite get_method_req, Hu, get_reqver_req, beqb_refl. cbn [negb].
  rewrite row_rule_req.
  replace (negb (nofields sc) && negb (rows =? 1)) with false
    by (destruct Hr as [-> | ->]; [reflexivity | now rewrite N.eqb_refl, andb_false_r]).
  unfold mk_request, accepted. cbn [b_meta b_rows b_cols].
  now rewrite get_reqid_req, get_loglevel_req, map_view_req.
Qed.

Lemma read_request_bad_utf8 m sc rows cols v rest :
  utf8_valid m = false ->
  read_request (write_request m sc rows cols v :: rest) = Rej RsBadUtf8.
Proof.
  intro Hu. unfold write_request. cbn [read_request]. unfold validate. cbn [b_meta].
  now rewrite get_method_req, Hu.
Qed.

Lemma read_request_row_count m sc rows cols v rest :
  utf8_valid m = true -> sc <> [] -> rows <> 1 ->
  read_request (write_request m sc rows cols v :: rest) = Rej RsRowCount.
Proof.
  intros Hu Hs Hr. unfold write_request. cbn [read_request]. unfold validate. cbn [b_meta].
  rewrite get_method_req, Hu, get_reqver_req, beqb_refl. cbn [negb].
  rewrite row_rule_req. destruct sc; [contradiction|]. cbn [nofields negb andb].
  apply N.eqb_neq in Hr. now rewrite Hr.
Qed.

Lemma read_request_first_batch sc b bs t rest :
  read_request (Stream sc (b :: bs) t :: rest) = validate sc b.
Proof. reflexivity. Qed.

Lemma row_rule_false sc b :
  row_rule_violated sc b = false <->
  (sc = [] \/ b_rows b = 1 \/ has k_location (b_meta b) = true \/ is_shm_pointer b = true).
Proof.
  unfold row_rule_violated. split.
  - intro H. destruct sc; [now left|]. cbn [nofields negb andb] in H.
    destruct (b_rows b =? 1) eqn:E1; [right; left; now apply N.eqb_eq|].
    destruct (has k_location (b_meta b)); [right; right; now left|].
    destruct (is_shm_pointer b); [now repeat right | discriminate].
  - intros [-> | [H | [H | H]]]; [reflexivity | | |].
    + rewrite H, N.eqb_refl. cbn. now rewrite andb_false_r.
    + rewrite H. cbn. now rewrite andb_false_r.
    + rewrite H. cbn. now rewrite !andb_false_r.
Qed.

Lemma validate_accepts_iff sc b q :
  validate sc b = Acc q <->
  exists meth, get k_method (b_meta b) = Some meth /\ utf8_valid meth = true
    /\ get k_request_version (b_meta b) = Some wire_version
    /\ (sc = [] \/ b_rows b = 1 \/ has k_location (b_meta b) = true \/ is_shm_pointer b = true)
    /\ q = mk_request sc b meth wire_version.
Proof.
  unfold validate. split.
  - destruct (get k_method (b_meta b)) as [meth|]; [|discriminate].
    destruct (utf8_valid meth) eqn:Hu; [|discriminate]. cbn [negb].
    destruct (get k_request_version (b_meta b)) as [ver|]; [|discriminate].
    destruct (beqb ver wire_version) eqn:Hv; [|discriminate]. cbn [negb].
    apply beqb_eq in Hv. subst ver.
    destruct (row_rule_violated sc b) eqn:Hr; [discriminate|].
    intro H. inversion H. exists meth. repeat split; try reflexivity; try assumption.
    now apply row_rule_false.
  - intros (meth & Hm & Hu & Hv & Hr & ->). rewrite Hm, Hu, Hv, beqb_refl. cbn [negb].
    apply row_rule_false in Hr. now rewrite Hr.
Qed.

Lemma validate_errors sc b :
  let m := b_meta b in
  (get k_method m = None -> validate sc b = Rej RsNoMethod)
  /\ (forall meth, get k_method m = Some meth -> utf8_valid meth = false ->
        validate sc b = Rej RsBadUtf8)
  /\ (forall meth, get k_method m = Some meth -> utf8_valid meth = true ->
        get k_request_version m = None -> validate sc b = Rej RsNoVersion)
  /\ (forall meth ver, get k_method m = Some meth -> utf8_valid meth = true ->
        get k_request_version m = Some ver -> ver <> wire_version ->
        validate sc b = Rej RsWrongVersion)
  /\ (forall meth, get k_method m = Some meth -> utf8_valid meth = true ->
        get k_request_version m = Some wire_version -> row_rule_violated sc b = true ->
        validate sc b = Rej RsRowCount).
Proof.
  cbn zeta. unfold validate. repeat split.
  - now intros ->.
  - now intros meth -> ->.
  - now intros meth -> -> ->.
  - intros meth ver -> -> -> Hne. cbn [negb]. apply beqb_neq in Hne. now rewrite Hne.
  - intros meth -> -> -> ->. cbn [negb]. now rewrite beqb_refl.
Qed.

(* ---- ReadUnaryResult / WriteUnaryResult --------------------------------------- *)
Lemma rur_spec sc bs :
  rur_batches sc bs =
  match drop_logs bs with
  | b :: _ => if b_rows b =? 0 then None else decide_result sc b
  | [] => None
  end.
Proof.
  induction bs as [|b t IH]; [reflexivity|]. cbn [rur_batches drop_logs]. unfold is_log.
  destruct (0 <? b_rows b) eqn:Hr.
  - assert (E : (b_rows b =? 0) = false) by lia. rewrite E. cbn [andb]. now rewrite E.
  - assert (E : (b_rows b =? 0) = true) by lia. rewrite E. cbn [andb].
    destruct (log_level_skippable b); [exact IH | now rewrite E].
Qed.

Lemma read_unary_exact bd : read_unary_result bd = spec_ur bd.
Proof.
  unfold read_unary_result, spec_ur, first_stream.
  destruct bd as [|[sc bs t|] rest]; try reflexivity. destruct t; try reflexivity; apply rur_spec.
Qed.

Lemma drop_logs_app logs l : forallb is_log logs = true -> drop_logs (logs ++ l) = drop_logs l.
Proof.
  induction logs as [|b logs IH]; intro H; [reflexivity|].
  cbn [forallb] in H. apply andb_true_iff in H as [Hb Hl].
  cbn [app drop_logs]. rewrite Hb. now apply IH.
Qed.

Lemma drop_logs_head b l : is_log b = false -> drop_logs (b :: l) = b :: l.
Proof. intro H. cbn [drop_logs]. now rewrite H. Qed.

Lemma is_log_rows b : b_rows b <> 0 -> is_log b = false.
Proof. intro H. unfold is_log. apply N.eqb_neq in H. now rewrite H. Qed.

Lemma read_unary_stream sc bs t rest :
  read_unary_result (Stream sc bs t :: rest) = if broken t then None else rur_batches sc bs.
Proof. now destruct t. Qed.

Lemma unary_skips_logs sc logs b more t rest :
  t <> TBroken -> forallb is_log logs = true -> b_rows b <> 0 ->
  read_unary_result (Stream sc (logs ++ b :: more) t :: rest) = decide_result sc b.
Proof.
  intros Ht Hl Hr. rewrite read_unary_stream. replace (broken t) with false by (now destruct t).
  rewrite rur_spec, (drop_logs_app _ _ Hl).
  rewrite (drop_logs_head _ _ (is_log_rows _ Hr)). apply N.eqb_neq in Hr. now rewrite Hr.
Qed.

Lemma unary_log_only sc logs t rest :
  forallb is_log logs = true -> read_unary_result (Stream sc logs t :: rest) = None.
Proof.
  intro Hl. rewrite read_unary_stream. destruct (broken t); [reflexivity|]. rewrite rur_spec.
  rewrite <- (app_nil_r logs), (drop_logs_app _ _ Hl). reflexivity.
Qed.

Lemma unary_zero_row_not_log sc logs b more t rest :
  forallb is_log logs = true -> b_rows b = 0 -> log_level_skippable b = false ->
  read_unary_result (Stream sc (logs ++ b :: more) t :: rest) = None.
Proof.
  intros Hl Hr Hs. rewrite read_unary_stream. destruct (broken t); [reflexivity|].
  rewrite rur_spec, (drop_logs_app _ _ Hl).
  rewrite drop_logs_head by (unfold is_log; now rewrite Hs, andb_false_r).
  now rewrite Hr.
Qed.

Lemma exception_not_skippable b :
  get k_log_level (b_meta b) = Some level_exception -> log_level_skippable b = false.
Proof. intro H. unfold log_level_skippable. now rewrite H, beqb_refl. Qed.

Lemma no_level_not_skippable b :
  get k_log_level (b_meta b) = None -> log_level_skippable b = false.
Proof. intro H. unfold log_level_skippable. now rewrite H. Qed.

Lemma decide_no_result_field sc b : field_index f_result sc = None -> decide_result sc b = None.
Proof. intro H. unfold decide_result. now rewrite H. Qed.

Lemma decide_not_binary sc b i n ty :
  field_index f_result sc = Some i -> nth_error sc i = Some (n, ty) -> ty <> TBinary ->
  decide_result sc b = None.
Proof.
  intros Hi Hn Ht. unfold decide_result. rewrite Hi, Hn.
  destruct ty; try reflexivity. contradiction.
Qed.

Lemma decide_empty_column sc b i :
  field_index f_result sc = Some i -> nth_error (b_cols b) i = Some [] ->
  decide_result sc b = None.
Proof.
  intros Hi Hn. unfold decide_result. rewrite Hi, Hn.
  destruct (nth_error sc i) as [[n ty]|]; [|reflexivity]. now destruct ty.
Qed.

Definition envelope : schema := [(f_result, TBinary)].

Lemma unary_roundtrip r rest :
  exists s, write_unary_result envelope r = Some s
            /\ read_unary_result (s :: rest) = Some (envelope, r).
Proof. eexists. split; reflexivity. Qed.

Lemma write_unary_rejects sc r : envelope_ok sc = false -> write_unary_result sc r = None.
Proof. intro H. unfold write_unary_result. now rewrite H. Qed.

Lemma envelope_ok_inv sc : envelope_ok sc = true -> exists n, sc = [(n, TBinary)].
Proof.
  destruct sc as [|[n ty] [|f2 sc']]; try discriminate; destruct ty; try discriminate.
  intros _. now exists n.
Qed.

Lemma rur_some_has_field sc bs sc' r :
  rur_batches sc bs = Some (sc', r) -> sc' = sc /\ field_index f_result sc <> None.
Proof.
  induction bs as [|b t IH]; [discriminate|]. cbn [rur_batches].
  destruct (0 <? b_rows b).
  - unfold decide_result. destruct (field_index f_result sc) as [i|]; [|discriminate].
    destruct (nth_error sc i) as [[n ty]|]; [|discriminate].
    destruct ty; try discriminate.
    destruct (nth_error (b_cols b) i) as [[|v col]|]; try discriminate.
    intro H. inversion H. split; [reflexivity | discriminate].
  - destruct (log_level_skippable b); [exact IH | discriminate].
Qed.

(* unwrap, rewrite the payload, rewrap, unwrap again *)
Lemma unary_rewrap bd sc r r' rest :
  read_unary_result bd = Some (sc, r) -> envelope_ok sc = true ->
  exists s, write_unary_result sc r' = Some s /\ read_unary_result (s :: rest) = Some (sc, r').
Proof.
  intros Hread Henv. destruct (envelope_ok_inv _ Henv) as [n ->].
  destruct bd as [|[sc0 bs t|] rest0]; try discriminate. rewrite read_unary_stream in Hread.
  destruct (broken t); [discriminate|].
  apply rur_some_has_field in Hread as [<- Hf].
  cbn [field_index] in Hf. destruct (beqb n f_result) eqn:En; [|contradiction].
  eexists. split; [reflexivity|].
  cbn [read_unary_result rur_batches b_rows]. replace (0 <? 1) with true by reflexivity.
  unfold decide_result. cbn [field_index]. rewrite En. reflexivity.
Qed.

(* ---- reflexivity of the decidable equalities ---------------------------------- *)
Lemma list_eqb_refl {A} (e : A -> A -> bool) (He : forall x, e x x = true) l : list_eqb e l l = true.
Proof. induction l as [|x l IH]; cbn; [reflexivity | now rewrite He, IH]. Qed.
Lemma pair_eqb_refl {A B} (ea : A -> A -> bool) (eb : B -> B -> bool)
  (Ha : forall x, ea x x = true) (Hb : forall x, eb x x = true) p : pair_eqb ea eb p p = true.
Proof. unfold pair_eqb. now rewrite Ha, Hb. Qed.
Lemma opt_eqb_refl {A} (e : A -> A -> bool) (He : forall x, e x x = true) o : opt_eqb e o o = true.
Proof. destruct o; cbn; auto. Qed.

Lemma ctype_eqb_refl c : ctype_eqb c c = true. Proof. now destruct c. Qed.
Lemma schema_eqb_refl s : schema_eqb s s = true.
Proof. apply list_eqb_refl. intro. apply pair_eqb_refl; [apply beqb_refl | apply ctype_eqb_refl]. Qed.
Lemma meta_eqb_refl m : meta_eqb m m = true.
Proof. apply list_eqb_refl. intro. apply pair_eqb_refl; apply beqb_refl. Qed.
Lemma cols_eqb_refl c : cols_eqb c c = true.
Proof. apply list_eqb_refl. intro. apply list_eqb_refl. apply beqb_refl. Qed.
Lemma batch_eqb_refl b : batch_eqb b b = true.
Proof. unfold batch_eqb. now rewrite N.eqb_refl, meta_eqb_refl, cols_eqb_refl. Qed.
Lemma seg_eqb_refl g : seg_eqb g g = true.
Proof.
  destruct g as [sc bs t|]; [|reflexivity]. cbn [seg_eqb].
  rewrite schema_eqb_refl, (list_eqb_refl _ batch_eqb_refl). now destruct t.
Qed.
Lemma body_eqb_refl b : body_eqb b b = true.
Proof. apply list_eqb_refl, seg_eqb_refl. Qed.
Lemma request_eqb_refl q : request_eqb q q = true.
Proof.
  unfold request_eqb.
  now rewrite !beqb_refl, schema_eqb_refl, N.eqb_refl, cols_eqb_refl, meta_eqb_refl.
Qed.
Lemma ob_eqb_refl o : ob_eqb o o = true.
Proof. apply opt_eqb_refl, beqb_refl. Qed.
Lemma tok_eqb_refl p : tok_eqb p p = true.
Proof. apply pair_eqb_refl; apply ob_eqb_refl. Qed.
Lemma ur_eqb_refl u : ur_eqb u u = true.
Proof. apply opt_eqb_refl. intro. apply pair_eqb_refl; [apply schema_eqb_refl | apply beqb_refl]. Qed.
Lemma bools_eqb_refl l : list_eqb Bool.eqb l l = true.
Proof. apply list_eqb_refl. now intros []. Qed.

(* ---- the model meets the decidable form of the property ------------------------- *)
Lemma spec_request_model bd : spec_request bd (view (read_request bd)) = true.
Proof.
  destruct bd as [|[sc [|b bs] t|] rest]; try reflexivity; [now destruct t|].
  replace (spec_request (Stream sc (b :: bs) t :: rest)) with
    (spec_request (Stream sc (b :: bs) TEos :: rest)) by (now destruct t).
  cbn [read_request spec_request]. unfold validate.
  destruct (get k_method (b_meta b)) as [meth|]; [|reflexivity].
  destruct (utf8_valid meth) eqn:Hu; [|reflexivity]. cbn [negb].
  destruct (get k_request_version (b_meta b)) as [ver|]; [|reflexivity].
  destruct (beqb ver wire_version) eqn:Hv; [|reflexivity]. cbn [negb].
  apply beqb_eq in Hv. subst ver.
  destruct (row_rule_violated sc b) eqn:Hr; [reflexivity|].
  cbn [view negb andb dflt]. apply request_eqb_refl.
Qed.

Lemma nofields_nil sc : nofields sc = true -> sc = [].
Proof. now destruct sc. Qed.

Lemma spec_req_roundtrip_model ss :
  forall o, o_rr o = view (read_request (wire ss)) -> o_pv o = find_protocol_version (wire ss) ->
  spec_req_roundtrip ss o = true.
Proof.
  intros o Hrr Hpv. destruct ss as [|s [|s2 ss]]; try reflexivity; [|now destruct s].
  destruct s as [| |m sc rows cols v|]; try reflexivity.
  unfold spec_req_roundtrip. unfold wire in Hrr, Hpv. cbn [cut terminal expand expand_s] in Hrr, Hpv.
  rewrite Hpv, find_pv_write_request, Hrr.
  destruct (utf8_valid m) eqn:Hu.
  - destruct (nofields sc || (rows =? 1)) eqn:Hn; cbn [andb].
    + rewrite read_write_request; [|assumption|].
      * cbn [view accepted q_method q_version q_schema q_rows q_cols q_meta q_request_id q_log_level].
        rewrite get_pv_req, !beqb_refl, schema_eqb_refl, N.eqb_refl, cols_eqb_refl, ob_eqb_refl.
        reflexivity.
      * apply orb_true_iff in Hn as [Hn | Hn]; [left; now apply nofields_nil | right; now apply N.eqb_eq].
    + apply orb_false_iff in Hn as [Hn1 Hn2].
      rewrite read_request_row_count; try assumption; [reflexivity | | now apply N.eqb_neq].
      intros ->. discriminate.
  - cbn [andb]. now rewrite read_request_bad_utf8.
Qed.

Lemma spec_res_roundtrip_model ss :
  forall o, o_body o = wire ss -> o_werr o = map writer_failed (cut ss) ->
            o_ur o = read_unary_result (wire ss) ->
  spec_res_roundtrip ss o = true.
Proof.
  intros o Hb Hw Hu. destruct ss as [|s [|s2 ss]]; try reflexivity; [|now destruct s].
  destruct s as [| | |sc res]; try reflexivity.
  unfold spec_res_roundtrip. rewrite Hb, Hw, Hu. unfold wire.
  cbn [cut terminal expand expand_s map].
  destruct sc as [|[n ty] [|f2 sc']]; [reflexivity | | now destruct ty].
  destruct ty; try reflexivity.
  unfold writer_failed. cbn [expand_s write_unary_result envelope_ok expand].
  cbn [list_eqb Bool.eqb andb read_unary_result rur_batches b_rows].
  replace (0 <? 1) with true by reflexivity.
  unfold decide_result. cbn [field_index]. destruct (beqb n f_result); cbn; [|reflexivity].
  apply pair_eqb_refl; [apply schema_eqb_refl | apply beqb_refl].
Qed.

(* a body whose first stream the framing guard refuses yields nothing *)
Lemma refused_yields_nothing bd :
  guard_first bd = false ->
  find_stream_tokens bd = (None, None) /\ find_protocol_version bd = [] /\ read_unary_result bd = None.
Proof.
  destruct bd as [|[sc bs t|] rest]; [discriminate | | now repeat split].
  destruct t; try discriminate. now repeat split.
Qed.

Lemma legacy_refuted :
  exists bd, guard_first bd = false /\ find_protocol_version_legacy bd <> [].
Proof.
  exists [Stream [] [ {| b_rows := 0; b_meta := [(k_protocol_version, str "1.2.3")]; b_cols := [] |} ] TBroken].
  split; [reflexivity | vm_compute; discriminate].
Qed.

Lemma eqb_refl b : Bool.eqb b b = true. Proof. now destruct b. Qed.

Lemma model_meets_spec i : spec_ok i (model i) = true.
Proof.
  destruct i as [ss|]; [|reflexivity].
  cbn [model spec_ok]. cbn [o_panics o_body o_rr o_tok o_state o_call o_pv o_ur o_guard o_guard_all].
  rewrite body_eqb_refl, spec_request_model, !eqb_refl.
  replace (guard_first (wire ss)
           || tok_eqb (find_stream_tokens (wire ss)) (None, None)
              && beqb (find_protocol_version (wire ss)) [] && ur_eqb (read_unary_result (wire ss)) None)
    with true
    by (destruct (guard_first (wire ss)) eqn:Hg; [reflexivity|];
        destruct (refused_yields_nothing _ Hg) as (-> & -> & ->); reflexivity).
  unfold find_state_token, find_call_state_token.
  rewrite find_tokens_exact, tok_eqb_refl, !ob_eqb_refl.
  rewrite find_pv_exact, beqb_refl, read_unary_exact, ur_eqb_refl.
  rewrite spec_req_roundtrip_model; [|reflexivity|cbn [o_pv]; now rewrite find_pv_exact].
  rewrite spec_res_roundtrip_model; [reflexivity|reflexivity|reflexivity|].
  cbn [o_ur]. now rewrite read_unary_exact.
Qed.

(* ---- the byte level: the Go loop over a codec oracle ----------------------------
   [dec] reads one IPC stream off the front of a byte string and returns what is
   left, as ipc.Reader does on a bytes.Reader; [enc] is any writer it inverts.
   The loop below is FindStreamTokens as written, including the guard against a
   decoder that makes no progress, with fuel = number of bytes + 1. *)
Section Codec.
  Variable enc : seg -> bytes.
  Variable dec : bytes -> option (seg * bytes).
  Hypothesis dec_enc : forall sc bs rest,
    dec (enc (Stream sc bs TEos) ++ rest) = Some (Stream sc bs TEos, rest).
  Hypothesis enc_nonempty : forall g, enc g <> [].
  (* checkIPCStreamFraming on the bytes at the current offset; it never refuses
     a stream the codec reads *)
  Variable guard : bytes -> bool.
  Hypothesis guard_enc : forall sc bs rest, guard (enc (Stream sc bs TEos) ++ rest) = true.

  Fixpoint find_bytes (fuel : nat) (data : bytes) (state call : option bytes)
    : option bytes * option bytes :=
    match fuel with
    | O => (state, call)
    | S fuel' =>
        match data with
        | [] => (state, call)                          (* r.Len() == 0 *)
        | _ =>
            if negb (guard data) then (state, call) else  (* framing refused *)
            match dec data with
            | None | Some (Junk, _) => (state, call)   (* the stream does not open *)
            | Some (Stream _ bs t, rest) =>
                let '(s, c) := scan_batches bs None in
                let state' := or_first state s in
                let call' := or_first call c in
                match state' with
                | Some _ => (state', call')
                | None =>
                    match t with
                    | TEos =>
                        if (length rest =? length data)%nat then (state', call')
                        else find_bytes fuel' rest state' call'
                    | _ => (state', call')
                    end
                end
            end
        end
    end.

  Definition encode (ss : body) : bytes := concat (map enc ss).

  Lemma find_bytes_clean ss : forall fuel call,
    clean ss = true -> (length (encode ss) < fuel)%nat ->
    find_bytes fuel (encode ss) None call = find_loop ss call.
  Proof.
    induction ss as [|g ss IH]; intros fuel call Hc Hf.
    - destruct fuel; [inversion Hf | reflexivity].
    - cbn [clean forallb] in Hc. apply andb_true_iff in Hc as [Hg Hc].
      destruct g as [sc bs t|]; [|discriminate]. destruct t; try discriminate.
      destruct fuel as [|fuel]; [inversion Hf|].
      unfold encode in *. cbn [map concat] in *. cbn [find_bytes].
      destruct (enc (Stream sc bs TEos) ++ concat (map enc ss)) eqn:Hd.
      { apply app_eq_nil in Hd as [Hd _]. now apply enc_nonempty in Hd. }
      rewrite <- Hd in Hf |- *. rewrite guard_enc, dec_enc. cbn [negb find_loop].
      destruct (scan_batches bs None) as [s c]. cbn [or_first].
      destruct s; [reflexivity|].
      rewrite app_length in *.
      assert (Hlen : length (enc (Stream sc bs TEos)) <> 0%nat).
      { intro E. apply length_zero_iff_nil in E. now apply enc_nonempty in E. }
      replace (length (concat (map enc ss)) =?
               length (enc (Stream sc bs TEos)) + length (concat (map enc ss)))%nat
        with false by (symmetry; apply Nat.eqb_neq; lia).
      apply IH; [assumption | lia].
  Qed.

  Lemma find_bytes_exact ss :
    clean ss = true ->
    find_bytes (S (length (encode ss))) (encode ss) None None = spec_tokens ss.
  Proof.
    intro Hc. rewrite find_bytes_clean; [| assumption | apply Nat.lt_succ_diag_r].
    apply find_tokens_exact.
  Qed.
End Codec.
